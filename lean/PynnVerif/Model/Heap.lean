/-!
# Model of the bounded max-heaps of `pynndescent/utils.py`

`simple_heap_push`, `checked_heap_push`, `checked_flagged_heap_push` (hole-based
sift-down), `siftdown` (swap-based) and `deheap_sort`.

The model is parametric in the priority type `P` (only `≤`/`<` with decidable
instances are needed to *run* it).  The proofs instantiate `P` with an arbitrary
linear order; the driver instantiates it with `Float32`.

This file must stay free of Mathlib imports (the driver executable links it).
-/
namespace Pynn

/-- One heap slot: priority (distance), candidate index (`-1` = empty), "new" flag. -/
structure Entry (P : Type) where
  prio : P
  idx  : Int
  flag : Bool
deriving Repr, DecidableEq

abbrev Row (P : Type) := Array (Entry P)

variable {P : Type} [LE P] [LT P] [DecidableLE P] [DecidableLT P]

/-- `make_heap`: a row of `k` empty slots `(top, -1, 0)`; `top` models `np.inf`. -/
def mkRow (top : P) (k : Nat) : Row P := Array.replicate k ⟨top, -1, false⟩

/-- Hole-based sift down shared by the three push kernels.  The hole is at `i`,
`e` is the entry being inserted.  Mirrors the `while True:` loop literally:
two children → take `ic1` when `prio[ic1] ≥ prio[ic2]`, move it up only if
`p <` it; one child → move it up only if it is `> p`. -/
def sift (a : Row P) (e : Entry P) (i : Nat) : Row P :=
  if h1 : 2 * i + 1 < a.size then
    if h2 : 2 * i + 2 < a.size then
      if a[2*i+1].prio ≥ a[2*i+2].prio then
        if e.prio < a[2*i+1].prio then sift (a.setIfInBounds i a[2*i+1]) e (2*i+1)
        else a.setIfInBounds i e
      else
        if e.prio < a[2*i+2].prio then sift (a.setIfInBounds i a[2*i+2]) e (2*i+2)
        else a.setIfInBounds i e
    else
      if a[2*i+1].prio > e.prio then sift (a.setIfInBounds i a[2*i+1]) e (2*i+1)
      else a.setIfInBounds i e
  else a.setIfInBounds i e
termination_by a.size - i
decreasing_by all_goals (simp only [Array.size_setIfInBounds]; omega)

/-- The three push kernels.  `check = true` adds the duplicate scan of the
`checked_*` variants (over the *whole* row, sentinels included).  Returns the new
row and whether the push was accepted (the kernels' `0/1`). -/
def push (check : Bool) (h : Row P) (p : P) (n : Int) (f : Bool) : Row P × Bool :=
  if hk : 0 < h.size then
    if p ≥ h[0].prio then (h, false)
    else if check && h.any (fun e => e.idx == n) then (h, false)
    else (sift h ⟨p, n, f⟩ 0, true)
  else (h, false)

/-- `checked_flagged_heap_push`. -/
abbrev pushFlagged (h : Row P) (p : P) (n : Int) (f : Bool) := push true h p n f
/-- `checked_heap_push` (the kernel has no flag array; flags stay `false`). -/
abbrev pushChecked (h : Row P) (p : P) (n : Int) := push true h p n false
/-- `simple_heap_push` (no duplicate scan). -/
abbrev pushSimple (h : Row P) (p : P) (n : Int) := push false h p n false

/-- Swap-based `utils.siftdown`, restricted to the prefix of length `n`
(`siftdown(distances[i, :j], indices[i, :j], 0)`).  `swap = left` if
`heap1[elt] < heap1[left]`; then `swap = right` if `heap1[swap] < heap1[right]`. -/
def siftdownSwap (a : Row P) (n : Nat) (elt : Nat) : Row P :=
  if h : 2 * elt + 1 < n ∧ n ≤ a.size then
    if hr : 2 * elt + 2 < n then
      if a[elt].prio < a[2*elt+1].prio then
        if a[2*elt+1].prio < a[2*elt+2].prio then
          siftdownSwap (a.swap elt (2*elt+2)) n (2*elt+2)
        else siftdownSwap (a.swap elt (2*elt+1)) n (2*elt+1)
      else
        if a[elt].prio < a[2*elt+2].prio then
          siftdownSwap (a.swap elt (2*elt+2)) n (2*elt+2)
        else a
    else
      if a[elt].prio < a[2*elt+1].prio then
        siftdownSwap (a.swap elt (2*elt+1)) n (2*elt+1)
      else a
  else a
termination_by n - elt
decreasing_by all_goals omega

/-- The `for j in range(k-1, 0, -1)` loop of `deheap_sort` for one row. -/
def deheapLoop (a : Row P) : Nat → Row P
  | 0 => a
  | j+1 =>
    if h : j + 1 < a.size then
      deheapLoop (siftdownSwap (a.swap 0 (j+1)) (j+1) 0) j
    else a

/-- `deheap_sort` on one row.  (The kernel moves indices and distances only;
`deheap_sort` is never given the flag array, so the flag component carried here
is ghost state for the callers that have already dropped the flags.) -/
def deheapSort (a : Row P) : Row P := deheapLoop a (a.size - 1)

end Pynn
