/-!
# Sparse vectors and the merge kernels of `pynndescent/sparse.py`  (Mathlib-free, executable)

A CSR row is the pair `(ind : int32[], data : float32[])`; here it is one list of
`(index, value)` pairs (`SVec α`).  The carrier `α` is generic (`Int`, `Rat` for exact
execution in the driver and for `decide`; any ring / ordered field in the theorems).
Indices are unbounded `Nat` (the code: `int32`, and `uint16` cursors in
`fast_intersection_size` / `sparse_dot_product` — index width is outside the model, D13).

Every kernel follows the loop and branch structure of the code: the two-pointer loop of
`sparse_sum` with its three `if val != 0` guards and its two tail loops; `sparse_diff` is
`sparse_sum` on the negated second data array; `sparse_mul` drops zero products and has
no tail loops; `sparse_dot_product` reads `ind1[0]`, `ind2[0]` *before* any length check
(modelled as `none` = out-of-bounds read) and has its early returns after each cursor
increment; `fast_intersection_size` has the `limit` guards; `arr_union` / `arr_intersect`
are sort-based (`np.concatenate`, `np.sort`, neighbour comparison) with `arr_union`'s two
early returns.
-/
namespace Pynn.Sparse

/-- a CSR row: `(ind[k], data[k])` for `k = 0 … nnz-1`, in storage order -/
abbrev SVec (α : Type) := List (Nat × α)

/-- `ind` -/
def inds {α : Type} (a : SVec α) : List Nat := a.map (·.1)
/-- `data` -/
def vals {α : Type} (a : SVec α) : List α := a.map (·.2)

section Kernels
variable {α : Type} [Zero α] [DecidableEq α]

/-- `if val != 0: result_ind[nnz] = j; result_data[nnz] = val; nnz += 1` -/
def keep (i : Nat) (v : α) (rest : SVec α) : SVec α :=
  if v = 0 then rest else (i, v) :: rest

/-- one tail loop of `sparse_sum` (`while i1 < ind1.shape[0]: …`), with its `val != 0` guard -/
def tailLoop : SVec α → SVec α
  | [] => []
  | (i, v) :: t => keep i v (tailLoop t)

/-- `sparse_sum(ind1, data1, ind2, data2)`.  First two equations: the main loop's condition
`i1 < n1 and i2 < n2` is false, the tail loops run (one of them over nothing). -/
def sparseSum [Add α] : SVec α → SVec α → SVec α
  | [], b => tailLoop b
  | p :: a, [] => tailLoop (p :: a)
  | (i1, v1) :: a, (i2, v2) :: b =>
    if i1 = i2 then keep i1 (v1 + v2) (sparseSum a b)
    else if i1 < i2 then keep i1 v1 (sparseSum a ((i2, v2) :: b))
    else keep i2 v2 (sparseSum ((i1, v1) :: a) b)
termination_by a b => a.length + b.length

/-- `-data2` -/
def negate [Neg α] (b : SVec α) : SVec α := b.map (fun p => (p.1, -p.2))

/-- `sparse_diff = sparse_sum(ind1, data1, ind2, -data2)` -/
def sparseDiff [Add α] [Neg α] (a b : SVec α) : SVec α := sparseSum a (negate b)

/-- `sparse_mul`: products on common indices, `if val != 0` guard, no tail loops -/
def sparseMul [Mul α] : SVec α → SVec α → SVec α
  | [], _ => []
  | _ :: _, [] => []
  | (i1, v1) :: a, (i2, v2) :: b =>
    if i1 = i2 then keep i1 (v1 * v2) (sparseMul a b)
    else if i1 < i2 then sparseMul a ((i2, v2) :: b)
    else sparseMul ((i1, v1) :: a) b
termination_by a b => a.length + b.length

/-- The `while True` loop of `sparse_dot_product`; it is entered, and continued, only with
both cursors in range (`j1 = ind1[i1]`, `j2 = ind2[i2]` loaded).  `a.isEmpty` is
`i1 >= dim1` after `i1 += 1`.  No `val != 0` test here. -/
def dotLoop [Add α] [Mul α] (r : α) : SVec α → SVec α → α
  | (i1, v1) :: a, (i2, v2) :: b =>
    if i1 = i2 then
      let r := r + v1 * v2
      if a.isEmpty then r else if b.isEmpty then r else dotLoop r a b
    else if i1 < i2 then
      if a.isEmpty then r else dotLoop r a ((i2, v2) :: b)
    else
      if b.isEmpty then r else dotLoop r ((i1, v1) :: a) b
  | _, _ => r   -- not reached from `sparseDotProduct`
termination_by a b => a.length + b.length

/-- `sparse_dot_product`.  The code executes `j1 = ind1[0]; j2 = ind2[0]` before looking at
`dim1`, `dim2`: with an empty operand this is a read past the end of the array (numba does
no bounds checking) — `none`. -/
def sparseDotProduct [Add α] [Mul α] (a b : SVec α) : Option α :=
  match a, b with
  | [], _ => none
  | _ :: _, [] => none
  | a, b => some (dotLoop 0 a b)

end Kernels

/-! ### index-array kernels -/

/-- The loop of `fast_intersection_size`, entered with both cursors in range.
`a ≠ []` is `i1 < limit1` (there is a next element). -/
def isectLoop (r : Nat) : List Nat → List Nat → Nat
  | j1 :: a, j2 :: b =>
    if j1 = j2 then
      let r := r + 1
      if a.isEmpty then r          -- `else: break`
      else if b.isEmpty then r     -- `else: break`
      else isectLoop r a b
    else if j1 < j2 ∧ ¬ a.isEmpty then isectLoop r a (j2 :: b)
    else if j2 < j1 ∧ ¬ b.isEmpty then isectLoop r (j1 :: a) b
    else r
  | _, _ => r   -- not reached
termination_by a b => a.length + b.length

/-- `fast_intersection_size(ar1, ar2)` -/
def intersectionSize (a b : List Nat) : Nat :=
  if a.isEmpty ∨ b.isEmpty then 0 else isectLoop 0 a b

/-- `aux[flag]` with `flag = [True] ++ (aux[1:] != aux[:-1])`: keep the first element and
every element that differs from its predecessor -/
def uniqAdj : List Nat → List Nat
  | [] => []
  | [x] => [x]
  | x :: y :: t => if x = y then uniqAdj (y :: t) else x :: uniqAdj (y :: t)

/-- insertion into an ascending list -/
def insertSorted (x : Nat) : List Nat → List Nat
  | [] => [x]
  | y :: t => if x ≤ y then x :: y :: t else y :: insertSorted x t

/-- `np.sort` on an integer array (whatever algorithm numpy runs, the ascending arrangement of
a multiset of integers is unique; here: insertion sort, structurally recursive so that `decide`
can run it) -/
def sortNat (l : List Nat) : List Nat := l.foldr insertSorted []

/-- `arr_unique(arr)`: `np.sort` then the neighbour mask -/
def arrUnique (l : List Nat) : List Nat := uniqAdj (sortNat l)

/-- `arr_union(ar1, ar2)` with its two early returns (which return the argument *unsorted
and unfiltered*, whatever it is) -/
def arrUnion (a b : List Nat) : List Nat :=
  if a.isEmpty then b else if b.isEmpty then a else arrUnique (a ++ b)

/-- `aux[:-1][aux[1:] == aux[:-1]]`: every element equal to its successor -/
def dupAdj : List Nat → List Nat
  | x :: y :: t => if y = x then x :: dupAdj (y :: t) else dupAdj (y :: t)
  | _ => []

/-- `arr_intersect(ar1, ar2)`: concatenate, sort, keep elements equal to their successor -/
def arrIntersect (a b : List Nat) : List Nat := dupAdj (sortNat (a ++ b))

/-! ### encoding / decoding -/
section Codec
variable {α : Type} [Zero α] [DecidableEq α]

/-- value stored at index `i` (first match), if any -/
def lookup : SVec α → Nat → Option α
  | [], _ => none
  | (j, v) :: t, i => if j = i then some v else lookup t i

/-- the dense vector a sparse row stands for, as a function of the coordinate -/
def decode (a : SVec α) (i : Nat) : α := (lookup a i).getD 0

/-- the dense vector of dimension `dim` -/
def toDense (dim : Nat) (a : SVec α) : List α := (List.range dim).map (decode a)

/-- CSR encoding of the dense slice `x` whose first coordinate has index `k`:
non-zero entries only, in coordinate order -/
def encFrom (k : Nat) : List α → SVec α
  | [] => []
  | v :: t => keep k v (encFrom (k + 1) t)

/-- CSR encoding of a dense vector -/
def enc (x : List α) : SVec α := encFrom 0 x

/-- indices strictly increasing, the first at least `lo` -/
def SortedFrom (lo : Nat) : SVec α → Prop
  | [] => True
  | (i, _) :: t => lo ≤ i ∧ SortedFrom (i + 1) t

instance instDecidableSortedFrom : (lo : Nat) → (a : SVec α) → Decidable (SortedFrom lo a)
  | _, [] => isTrue trivial
  | lo, (i, _) :: t =>
    match Nat.decLe lo i, instDecidableSortedFrom (i + 1) t with
    | isTrue h1, isTrue h2 => isTrue ⟨h1, h2⟩
    | isFalse h1, _ => isFalse (fun h => h1 h.1)
    | _, isFalse h2 => isFalse (fun h => h2 h.2)

/-- indices strictly increasing (what `scipy.sparse` calls sorted indices without duplicates) -/
def Sorted (a : SVec α) : Prop := SortedFrom 0 a
instance (a : SVec α) : Decidable (Sorted a) := instDecidableSortedFrom 0 a

/-- no explicitly stored zero -/
def NoZero (a : SVec α) : Prop := ∀ p ∈ a, p.2 ≠ 0
instance (a : SVec α) : Decidable (NoZero a) := by unfold NoZero; infer_instance

/-- every index is a coordinate of a `dim`-dimensional vector -/
def Below (dim : Nat) (a : SVec α) : Prop := ∀ p ∈ a, p.1 < dim
instance (dim : Nat) (a : SVec α) : Decidable (Below dim a) := by unfold Below; infer_instance

/-- **well-formed CSR row**: strictly increasing indices, no stored zeros -/
def WF (a : SVec α) : Prop := Sorted a ∧ NoZero a
instance (a : SVec α) : Decidable (WF a) := by unfold WF; infer_instance

end Codec

/-! ### `dense_union` -/
section DenseUnion
variable {α : Type} [Zero α] [DecidableEq α]

/-- `if val != 0: result_data1[nnz] = u; result_data2[nnz] = v; nnz += 1` (a slot that is not
written keeps the `0` of `np.zeros`) -/
def keep2 (val u v : α) (rest : List (α × α)) : List (α × α) :=
  if val = 0 then rest else (u, v) :: rest

/-- `dense_union(ind1, data1, ind2, data2)`: the two output arrays, zipped; only the first
`nnz` slots survive the final truncation.  (`arr_union` is used by the code only to size the
buffers.)  NB the guard of the matching branch is `data1[i1] + data2[i2] != 0`: a coordinate
on which the two values cancel is *dropped from both outputs*. -/
def denseUnion [Add α] : SVec α → SVec α → List (α × α)
  | [], [] => []
  | [], (_, v2) :: b => keep2 v2 0 v2 (denseUnion [] b)
  | (_, v1) :: a, [] => keep2 v1 v1 0 (denseUnion a [])
  | (i1, v1) :: a, (i2, v2) :: b =>
    if i1 = i2 then keep2 (v1 + v2) v1 v2 (denseUnion a b)
    else if i1 < i2 then keep2 v1 v1 0 (denseUnion a ((i2, v2) :: b))
    else keep2 v2 0 v2 (denseUnion ((i1, v1) :: a) b)
termination_by a b => a.length + b.length

end DenseUnion

/-! ### the sparse metrics, up to (not including) `sqrt` / `log` / `**(1/p)`

Each definition is the kernel's loop on the exact carrier; where the kernel finishes with an
irrational function the definition stops at its argument (the "pre-image"), or takes the
function as a parameter `sqrt`. -/
section Metrics
variable {α : Type} [Zero α] [DecidableEq α] [Add α] [Neg α] [Mul α]

/-- `np.abs` -/
def absV [LT α] [DecidableLT α] (v : α) : α := if v < 0 then -v else v
/-- `max(result, v)` -/
def maxV [LT α] [DecidableLT α] (r v : α) : α := if r < v then v else r

/-- `sparse_squared_euclidean`; also the argument of `np.sqrt` in `sparse_euclidean` -/
def sqEuclidean (a b : SVec α) : α := (sparseDiff a b).foldl (fun r p => r + p.2 * p.2) 0
/-- `sparse_manhattan` -/
def manhattan [LT α] [DecidableLT α] (a b : SVec α) : α :=
  (sparseDiff a b).foldl (fun r p => r + absV p.2) 0
/-- `sparse_chebyshev` -/
def chebyshev [LT α] [DecidableLT α] (a b : SVec α) : α :=
  (sparseDiff a b).foldl (fun r p => maxV r (absV p.2)) 0
/-- `v ** p` for a natural exponent -/
def powN [One α] (v : α) : Nat → α
  | 0 => 1
  | k + 1 => powN v k * v
/-- `sparse_minkowski` with a natural exponent, before the final `** (1/p)` -/
def minkowskiSum [One α] [LT α] [DecidableLT α] (p : Nat) (a b : SVec α) : α :=
  (sparseDiff a b).foldl (fun r q => r + powN (absV q.2) p) 0
/-- `sparse_hamming`: `float(num_not_equal) / n_features` -/
def hamming (a b : SVec α) (nFeatures : Nat) : Rat :=
  ((sparseDiff a b).length : Rat) / (nFeatures : Rat)

/-- `utils.norm(data) ** 2` -/
def normSq (a : SVec α) : α := a.foldl (fun r p => r + p.2 * p.2) 0
/-- `for val in aux_data: result += val` over `sparse_mul` (the numerator of `sparse_cosine`,
`sparse_alternative_cosine`) -/
def mulSum (a b : SVec α) : α := (sparseMul a b).foldl (fun r p => r + p.2) 0
/-- `np.sum(data)` (`sparse_hellinger`, `sparse_correlation`) -/
def dataSum (a : SVec α) : α := a.foldl (fun r p => r + p.2) 0

/-- `sparse_cosine`, the square root being a parameter -/
def cosine [One α] [Sub α] [Div α] (sqrt : α → α) (a b : SVec α) : α :=
  let result := mulSum a b
  let norm1 := sqrt (normSq a)
  let norm2 := sqrt (normSq b)
  if norm1 = 0 ∧ norm2 = 0 then 0
  else if norm1 = 0 ∨ norm2 = 0 then 1
  else 1 - result / (norm1 * norm2)

/-- `sparse_hellinger`'s accumulator `Σ sqrt(val)` over `sparse_mul`, square root a parameter -/
def hellingerSum (sqrt : α → α) (a b : SVec α) : α :=
  (sparseMul a b).foldl (fun r p => r + sqrt p.2) 0

/-- `sparse_bray_curtis` -/
def brayCurtis [LT α] [DecidableLT α] [Div α] (a b : SVec α) : α :=
  let denomData := (sparseSum a b).map (fun p => absV p.2)
  if denomData.isEmpty then 0 else
  let denominator := denomData.foldl (· + ·) 0
  if denominator = 0 then 0 else
  let numerator := ((sparseDiff a b).map (fun p => absV p.2)).foldl (· + ·) 0
  numerator / denominator

/-- `sparse_canberra` -/
def canberra [One α] [LT α] [DecidableLT α] [Div α] (a b : SVec α) : α :=
  let abs1 : SVec α := a.map (fun p => (p.1, absV p.2))
  let abs2 : SVec α := b.map (fun p => (p.1, absV p.2))
  let denom : SVec α := (sparseSum abs1 abs2).map (fun p => (p.1, 1 / p.2))
  let numer : SVec α := (sparseDiff a b).map (fun p => (p.1, absV p.2))
  (sparseMul numer denom).foldl (fun r p => r + p.2) 0

/-! counts (`intp` arithmetic in the code: `Int`) -/

/-- `num_true_true = fast_intersection_size(ind1, ind2)` (`num_equal` in `sparse_jaccard`) -/
def numTrueTrue (a b : SVec α) : Int := (intersectionSize (inds a) (inds b) : Nat)
/-- `num_non_zero = ind1.shape[0] + ind2.shape[0] - num_true_true` -/
def numNonZero (a b : SVec α) : Int := (a.length : Int) + (b.length : Int) - numTrueTrue a b
/-- `num_not_equal = num_non_zero - num_true_true` -/
def numNotEqual (a b : SVec α) : Int := numNonZero a b - numTrueTrue a b

/-- `sparse_jaccard` -/
def jaccard (a b : SVec α) : Rat :=
  if numNonZero a b = 0 then 0
  else ((numNonZero a b - numTrueTrue a b : Int) : Rat) / (numNonZero a b : Rat)
/-- `sparse_matching` -/
def matching (a b : SVec α) (nFeatures : Nat) : Rat := (numNotEqual a b : Rat) / (nFeatures : Rat)
/-- `sparse_dice` -/
def dice (a b : SVec α) : Rat :=
  if numNotEqual a b = 0 then 0
  else (numNotEqual a b : Rat) / (2 * (numTrueTrue a b : Rat) + (numNotEqual a b : Rat))
/-- `sparse_kulsinski` -/
def kulsinski (a b : SVec α) (nFeatures : Nat) : Rat :=
  if numNotEqual a b = 0 then 0
  else ((numNotEqual a b - numTrueTrue a b + (nFeatures : Int) : Int) : Rat) /
       ((numNotEqual a b + (nFeatures : Int) : Int) : Rat)
/-- `sparse_rogers_tanimoto` -/
def rogersTanimoto (a b : SVec α) (nFeatures : Nat) : Rat :=
  (2 * (numNotEqual a b : Rat)) / (((nFeatures : Int) + numNotEqual a b : Int) : Rat)
/-- `sparse_russellrao` (`np.sum(data != 0)` counts the stored non-zeros) -/
def russellrao (a b : SVec α) (nFeatures : Nat) : Rat :=
  if inds a = inds b then 0
  else if numTrueTrue a b = ((vals a).countP (· ≠ 0) : Nat) ∧
          numTrueTrue a b = ((vals b).countP (· ≠ 0) : Nat) then 0
  else (((nFeatures : Int) - numTrueTrue a b : Int) : Rat) / (nFeatures : Rat)
/-- `sparse_sokal_michener` (the same expression as `sparse_rogers_tanimoto`) -/
def sokalMichener (a b : SVec α) (nFeatures : Nat) : Rat :=
  (2 * (numNotEqual a b : Rat)) / (((nFeatures : Int) + numNotEqual a b : Int) : Rat)
/-- `sparse_sokal_sneath` -/
def sokalSneath (a b : SVec α) : Rat :=
  if numNotEqual a b = 0 then 0
  else (numNotEqual a b : Rat) / ((1 / 2 : Rat) * (numTrueTrue a b : Rat) + (numNotEqual a b : Rat))

/-- `shifted_data[i] = data[i] - mu` on the *stored* coordinates only (a shifted value may be 0) -/
def shiftV [Sub α] (mu : α) (a : SVec α) : SVec α := a.map (fun p => (p.1, p.2 - mu))

/-- `norm ** 2` in `sparse_correlation`:
`norm(shifted_data) ** 2 + (n_features - ind.shape[0]) * (mu ** 2)` (the implicit coordinates
are all `-mu`) -/
def corrNormSq [Sub α] [IntCast α] (mu : α) (a : SVec α) (nFeatures : Nat) : α :=
  normSq (shiftV mu a) + (((nFeatures : Int) - (a.length : Int) : Int) : α) * (mu * mu)

/-- `dot_product` in `sparse_correlation`, as the current code accumulates it:
`Σ sparse_mul(shifted1, shifted2)` (common coordinates; zero products are dropped by
`sparse_mul`, harmlessly), then `− shifted1[i]·mu_y` for every `i ∈ ind1` not in
`common = set(arr_intersect(ind1, ind2))` (taken from the index arrays), then
`− shifted2[i]·mu_x` for every `i ∈ ind2` not in `common`, then
`+ mu_x·mu_y·(n_features − |arr_union(ind1, ind2)|)`. -/
def corrDot [Sub α] [IntCast α] (mu_x mu_y : α) (a b : SVec α) (nFeatures : Nat) : α :=
  let sh1 := shiftV mu_x a
  let sh2 := shiftV mu_y b
  let common := arrIntersect (inds a) (inds b)
  let d0 := mulSum sh1 sh2
  let d1 := sh1.foldl (fun r p => if p.1 ∈ common then r else r - p.2 * mu_y) d0
  let d2 := sh2.foldl (fun r p => if p.1 ∈ common then r else r - p.2 * mu_x) d1
  let all := arrUnion (inds a) (inds b)
  d2 + mu_x * mu_y * (((nFeatures : Int) - (all.length : Int) : Int) : α)

/-- The three accumulators of `sparse_correlation` after its early returns:
`(dot_product, norm1 ** 2, norm2 ** 2)` with `mu = np.sum(data) / n_features`. -/
def correlationParts [Sub α] [Div α] [NatCast α] [IntCast α] (a b : SVec α) (nFeatures : Nat) :
    α × α × α :=
  let mu_x := dataSum a / (nFeatures : α)
  let mu_y := dataSum b / (nFeatures : α)
  (corrDot mu_x mu_y a b nFeatures, corrNormSq mu_x a nFeatures, corrNormSq mu_y b nFeatures)

/-- `sparse_correlation`, the square root being a parameter -/
def correlation [One α] [Sub α] [Div α] [NatCast α] [IntCast α] (sqrt : α → α)
    (a b : SVec α) (nFeatures : Nat) : α :=
  if a.isEmpty ∧ b.isEmpty then 0
  else if a.isEmpty ∨ b.isEmpty then 1
  else
    let (dot, n1, n2) := correlationParts a b nFeatures
    let norm1 := sqrt n1
    let norm2 := sqrt n2
    if norm1 = 0 ∧ norm2 = 0 then 0
    else if dot = 0 then 1
    else 1 - dot / (norm1 * norm2)

end Metrics

/-! ### the dense kernels of `pynndescent/distances.py` the sparse ones are compared with

`for i in range(dim)` over `x[i], y[i]` is a left fold over `x.zip y` (vectors of equal
length).  (Local reference copies; `Model/Metrics.lean` is the home of the dense kernels.) -/
namespace Dense
variable {α : Type} [Zero α] [DecidableEq α] [Add α] [Sub α] [Neg α] [Mul α]

/-- `squared_euclidean`, and the argument of `sqrt` in `euclidean` -/
def sqEuclidean (x y : List α) : α :=
  (x.zip y).foldl (fun r p => r + (p.1 - p.2) * (p.1 - p.2)) 0
/-- `manhattan` -/
def manhattan [LT α] [DecidableLT α] (x y : List α) : α :=
  (x.zip y).foldl (fun r p => r + absV (p.1 - p.2)) 0
/-- `chebyshev` -/
def chebyshev [LT α] [DecidableLT α] (x y : List α) : α :=
  (x.zip y).foldl (fun r p => maxV r (absV (p.1 - p.2))) 0
/-- `minkowski` with a natural exponent before `** (1/p)` -/
def minkowskiSum [One α] [LT α] [DecidableLT α] (p : Nat) (x y : List α) : α :=
  (x.zip y).foldl (fun r q => r + powN (absV (q.1 - q.2)) p) 0
/-- `hamming` -/
def hamming (x y : List α) : Rat :=
  (((x.zip y).foldl (fun (r : Nat) p => if p.1 ≠ p.2 then r + 1 else r) 0 : Nat) : Rat) / (x.length : Rat)
/-- `Σ x[i]*y[i]` (`cosine`, `dot`, …) -/
def dot (x y : List α) : α := (x.zip y).foldl (fun r p => r + p.1 * p.2) 0
/-- `Σ x[i]**2` -/
def normSq (x : List α) : α := x.foldl (fun r v => r + v * v) 0
/-- `Σ x[i]` -/
def sum (x : List α) : α := x.foldl (fun r v => r + v) 0
/-- `cosine`, the square root being a parameter -/
def cosine [One α] [Div α] (sqrt : α → α) (x y : List α) : α :=
  let result := dot x y
  let norm_x := normSq x
  let norm_y := normSq y
  if norm_x = 0 ∧ norm_y = 0 then 0
  else if norm_x = 0 ∨ norm_y = 0 then 1
  else 1 - result / sqrt (norm_x * norm_y)
/-- `hellinger`'s accumulator `Σ sqrt(x[i]*y[i])` -/
def hellingerSum (sqrt : α → α) (x y : List α) : α :=
  (x.zip y).foldl (fun r p => r + sqrt (p.1 * p.2)) 0
/-- `bray_curtis` -/
def brayCurtis [LT α] [DecidableLT α] [Div α] (x y : List α) : α :=
  let numerator := (x.zip y).foldl (fun r p => r + absV (p.1 - p.2)) 0
  let denominator := (x.zip y).foldl (fun r p => r + absV (p.1 + p.2)) 0
  if 0 < denominator then numerator / denominator else 0
/-- `canberra` -/
def canberra [LT α] [DecidableLT α] [Div α] (x y : List α) : α :=
  (x.zip y).foldl (fun r p =>
    let denominator := absV p.1 + absV p.2
    if 0 < denominator then r + absV (p.1 - p.2) / denominator else r) 0

/-- `num_true_true` -/
def numTrueTrue (x y : List α) : Int :=
  (((x.zip y).countP (fun p => p.1 ≠ 0 ∧ p.2 ≠ 0) : Nat) : Int)
/-- `num_non_zero` -/
def numNonZero (x y : List α) : Int :=
  (((x.zip y).countP (fun p => p.1 ≠ 0 ∨ p.2 ≠ 0) : Nat) : Int)
/-- `num_not_equal` (`x_true != y_true`) -/
def numNotEqual (x y : List α) : Int :=
  (((x.zip y).countP (fun p => decide (p.1 ≠ 0) != decide (p.2 ≠ 0)) : Nat) : Int)

/-- `jaccard` -/
def jaccard (x y : List α) : Rat :=
  if numNonZero x y = 0 then 0
  else ((numNonZero x y - numTrueTrue x y : Int) : Rat) / (numNonZero x y : Rat)
/-- `matching` -/
def matching (x y : List α) : Rat := (numNotEqual x y : Rat) / (x.length : Rat)
/-- `dice` -/
def dice (x y : List α) : Rat :=
  if numNotEqual x y = 0 then 0
  else (numNotEqual x y : Rat) / (2 * (numTrueTrue x y : Rat) + (numNotEqual x y : Rat))
/-- `kulsinski` -/
def kulsinski (x y : List α) : Rat :=
  if numNotEqual x y = 0 then 0
  else ((numNotEqual x y - numTrueTrue x y + (x.length : Int) : Int) : Rat) /
       ((numNotEqual x y + (x.length : Int) : Int) : Rat)
/-- `rogers_tanimoto` -/
def rogersTanimoto (x y : List α) : Rat :=
  (2 * (numNotEqual x y : Rat)) / (((x.length : Int) + numNotEqual x y : Int) : Rat)
/-- `russellrao` -/
def russellrao (x y : List α) : Rat :=
  if numTrueTrue x y = (x.countP (· ≠ 0) : Nat) ∧ numTrueTrue x y = (y.countP (· ≠ 0) : Nat) then 0
  else (((x.length : Int) - numTrueTrue x y : Int) : Rat) / (x.length : Rat)
/-- `sokal_michener` -/
def sokalMichener (x y : List α) : Rat :=
  (2 * (numNotEqual x y : Rat)) / (((x.length : Int) + numNotEqual x y : Int) : Rat)
/-- `sokal_sneath` -/
def sokalSneath (x y : List α) : Rat :=
  if numNotEqual x y = 0 then 0
  else (numNotEqual x y : Rat) / ((1 / 2 : Rat) * (numTrueTrue x y : Rat) + (numNotEqual x y : Rat))

/-- the three accumulators of `correlation`: `(dot_product, norm_x, norm_y)` (the dense
`norm_x`, `norm_y` are already the *squared* norms; one loop over `i` in the code, written
here as one fold per accumulator) -/
def correlationParts [Div α] [NatCast α] (x y : List α) : α × α × α :=
  let mu_x := sum x / (x.length : α)
  let mu_y := sum y / (x.length : α)
  ((x.zip y).foldl (fun r p => r + (p.1 - mu_x) * (p.2 - mu_y)) 0,
   x.foldl (fun r u => r + (u - mu_x) * (u - mu_x)) 0,
   y.foldl (fun r v => r + (v - mu_y) * (v - mu_y)) 0)

/-- `correlation`, the square root being a parameter -/
def correlation [One α] [Div α] [NatCast α] (sqrt : α → α) (x y : List α) : α :=
  let (dot, norm_x, norm_y) := correlationParts x y
  if norm_x = 0 ∧ norm_y = 0 then 0
  else if dot = 0 then 1
  else 1 - dot / sqrt (norm_x * norm_y)

end Dense

end Pynn.Sparse
