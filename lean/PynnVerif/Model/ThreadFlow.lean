/-!
# Exception-flow skeletons for the thread-count discipline (C19)

`harness/translate_threads.py` reduces every function of the package that calls
`numba.set_num_threads` to a `Stmt`.  `exec` enumerates (without repetition) every way such a
skeleton can be left (normally, by `return`, by an exception at *any*
may-raise point) together with the abstract thread state at that exit.
-/
namespace Pynn.TF

inductive Exit | normal | raised | returned
deriving DecidableEq, Repr

/-- `changed`: the process-wide count differs from the count at function entry.
`saved`: what `self._original_num_threads` holds — `some b` after a
`get_num_threads()` executed in this call when `changed = b`; `none` = stale or
missing (set by an earlier call, if at all). -/
structure TS where
  changed : Bool
  saved   : Option Bool
deriving DecidableEq, Repr

inductive Stmt
  | skip                       -- cannot raise, no effect on the thread state
  | getT                       -- self._original_num_threads = numba.get_num_threads()
  | setT                       -- numba.set_num_threads(self.n_jobs): may raise *before* changing anything
  | restore                    -- numba.set_num_threads(self._original_num_threads)
  | mayRaise                   -- any other statement: completes or raises
  | raise_                     -- explicit `raise`
  | ret                        -- `return`
  | unknown                    -- construct the translator does not understand (worst case)
  | callT                      -- `self.<m>(…)` where `<m>` is itself one of the thread-limiting functions of the list
  | seq (a b : Stmt)
  | br (a b : Stmt)            -- `if`: either branch
  | tryFin (body fin : Stmt)
  | tryExc (body handler : Stmt)
deriving Repr

open Exit Stmt

def exec : Stmt → TS → List (Exit × TS)
  | skip, s => [(normal, s)]
  | getT, s => [(normal, { s with saved := some s.changed })]
  | setT, s => [(normal, { s with changed := true }), (raised, s)]
  | restore, s =>
    match s.saved with
    | some v => [(normal, { s with changed := v })]
    | none   => [(normal, { s with changed := true }), (raised, s)]   -- stale / missing attribute
  | mayRaise, s => [(normal, s), (raised, s)]
  | raise_, s => [(raised, s)]
  | ret, s => [(returned, s)]
  | unknown, s => [(normal, ⟨true, none⟩), (raised, ⟨true, none⟩), (returned, ⟨true, none⟩)]
  -- the callee is one of the skeletons (each is obliged to be `safe`): whatever its exit, the count is what it was at
  -- ITS entry, but its own `getT` has overwritten the shared attribute `self._original_num_threads` with that count
  -- (unless it left before reaching it)
  | callT, s =>
    [(normal, { s with saved := some s.changed }), (normal, s), (raised, { s with saved := some s.changed }), (raised, s)]
  | seq a b, s =>
    ((exec a s).flatMap (fun r => if r.1 = normal then exec b r.2 else [r])).eraseDups
  | br a b, s => (exec a s ++ exec b s).eraseDups
  | tryFin body fin, s =>
    ((exec body s).flatMap (fun r =>
      (exec fin r.2).map (fun r2 => (if r2.1 = normal then r.1 else r2.1, r2.2)))).eraseDups
  | tryExc body handler, s =>
    ((exec body s).flatMap (fun r => if r.1 = raised then r :: exec handler r.2 else [r])).eraseDups

/-- The decidable check run on the generated skeletons: from a fresh call
(count unchanged, saved value stale) every exit leaves the count unchanged. -/
def safe (st : Stmt) : Bool := (exec st ⟨false, none⟩).all (fun r => !r.2.changed)

end Pynn.TF
