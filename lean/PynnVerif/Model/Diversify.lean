/-!
# Model of the search-graph kernels of `pynndescent_.py` / `sparse.py`

* `diversifyList`  — the list-append form: `pynndescent_.diversify` and `sparse.diversify`
  (one row of the neighbour graph, stored in ascending order, `-1` padded);
* `diversifyCsr`   — the `argsort` + `retained[]` form: `pynndescent_.diversify_csr` and
  `sparse.diversify_csr` (one CSR row in arbitrary storage order; the visiting order that
  `np.argsort(current_data)` returns is an explicit argument, because numba's argsort is
  unstable on ties);
* `degreePrune`    — `degree_prune_internal` for one CSR row;
* `searchGraphD`   — `NNDescent._init_search_graph` on rows of association lists
  `(column, length)`, exactly in the order the code executes it, for given outcomes of the
  generator tests of both passes; `searchGraph` is its instance for `diversify_prob = 1`.

The dense and the sparse kernel of each form are the *same* loop; they differ only in how the
distance between two neighbours is evaluated (`dist(data[a], data[b])` on dense rows versus
`dist(ind_a, data_a, ind_b, data_b)` on CSR slices).  Here that is the parameter
`dist : Int → Int → P` (a table between point numbers), so each form is modelled once.

`draw c` stands for the outcome of the `c`-th evaluation of
`tau_rand(local_rng_state) < prune_probability` inside one row (`local_rng_state = rng_state + i`
is private to the row).  The generator is consulted only after the occlusion test succeeded, so
the draw counter advances only there.  `prune_probability = 1` is `fun _ => true`,
`prune_probability = 0` is `fun _ => false`.

Parametric in the priority type `P`; `eps` models `FLOAT32_EPS`.  No Mathlib import.
-/
namespace Pynn.Div

variable {P : Type} [LE P] [LT P] [DecidableLE P] [DecidableLT P]

/-- a stored entry: neighbour index (`-1` = padding) and edge length -/
abbrev Ent (P : Type) := Int × P

/-- insertion into an ascending list, before the first element that is not smaller -/
def insertBy {α : Type} (le : α → α → Bool) (x : α) : List α → List α
  | [] => [x]
  | y :: ys => if le x y then x :: y :: ys else y :: insertBy le x ys

/-- stable insertion sort (structural recursion, so that concrete examples evaluate by `decide`;
rows have a few dozen entries) -/
def isort {α : Type} (le : α → α → Bool) (l : List α) : List α := l.foldr (insertBy le) []

/-! ## List-append form (`diversify`) -/

/-- The inner loop `for k in range(len(new_indices))` for the candidate `(cj, dj)`:
`if new_distances[k] > FLOAT32_EPS and d < distances[i, j]: if tau_rand(..) < p: flag = False; break`
with `d = dist(data[indices[i, j]], data[new_indices[k]])`.
Returns `flag` and the advanced draw counter. -/
def scanNew (eps : P) (dist : Int → Int → P) (draw : Nat → Bool) (cj : Int) (dj : P) :
    List (Ent P) → Nat → Bool × Nat
  | [], c => (true, c)
  | e :: rest, c =>
    if eps < e.2 ∧ dist cj e.1 < dj then
      if draw c then (false, c + 1) else scanNew eps dist draw cj dj rest (c + 1)
    else scanNew eps dist draw cj dj rest c

/-- The outer loop `for j in range(1, indices.shape[1])` over the remaining stored entries:
`break` at the first negative index, append when `flag` survived.  Returns `new_*` and, as ghost
output, one keep-flag per remaining stored position (`false` after the `break`). -/
def divLoop (eps : P) (dist : Int → Int → P) (draw : Nat → Bool) :
    List (Ent P) → List (Ent P) → Nat → List (Ent P) × List Bool
  | [], new, _ => (new, [])
  | e :: rest, new, c =>
    if e.1 < 0 then (new, List.replicate (rest.length + 1) false)
    else
      let r := scanNew eps dist draw e.1 e.2 new c
      if r.1 then
        let out := divLoop eps dist draw rest (new ++ [e]) r.2
        (out.1, true :: out.2)
      else
        let out := divLoop eps dist draw rest new r.2
        (out.1, false :: out.2)

/-- One row of `diversify` / `sparse.diversify`: `new_indices = [indices[i, 0]]` unconditionally
(even a `-1`), then the loop.  `.1` = the entries appended to `new_*` in order, `.2` = keep-flag of
every stored position (ghost).  A row of width 0 (on which the kernel would index out of bounds)
is mapped to the empty result. -/
def diversifyList (eps : P) (dist : Int → Int → P) (draw : Nat → Bool) :
    List (Ent P) → List (Ent P) × List Bool
  | [] => ([], [])
  | e :: rest =>
    let out := divLoop eps dist draw rest [e] 0
    (out.1, true :: out.2)

/-- The write-back loop: the row becomes `new_*` followed by `(-1, inf)` padding. -/
def diversifyRow (top eps : P) (dist : Int → Int → P) (draw : Nat → Bool) (row : List (Ent P)) :
    List (Ent P) :=
  let new := (diversifyList eps dist draw row).1
  new ++ List.replicate (row.length - new.length) (-1, top)

/-! ## `argsort` + `retained[]` form (`diversify_csr`)

The CSR row is given by its accessors `nbr j = current_indices[j]`, `len j = current_data[j]`
(total functions of the storage position, so no bounds are invented), `retained` likewise; the
positions that exist are exactly those listed in `order`. -/

/-- The inner loop `for k in range(idx)` with `l = order[k]` running over the already visited
prefix `pre`, for the candidate at storage position `j`:
`if retained[l] == 1: if current_data[l] > FLOAT32_EPS and d < current_data[j]: if tau_rand(..) < p:
retained[j] = 0; break`, with `d = dist(source_data[current_indices[j]], source_data[current_indices[l]])`. -/
def scanCsr (eps : P) (dist : Int → Int → P) (draw : Nat → Bool) (nbr : Nat → Int) (len : Nat → P)
    (retained : Nat → Bool) (j : Nat) : List Nat → Nat → Bool × Nat
  | [], c => (true, c)
  | l :: pre, c =>
    if retained l then
      if eps < len l ∧ dist (nbr j) (nbr l) < len j then
        if draw c then (false, c + 1)
        else scanCsr eps dist draw nbr len retained j pre (c + 1)
      else scanCsr eps dist draw nbr len retained j pre c
    else scanCsr eps dist draw nbr len retained j pre c

/-- The outer loop `for idx in range(1, order.shape[0])`: `pre = order[:idx]`, `j = order[idx]`. -/
def csrLoop (eps : P) (dist : Int → Int → P) (draw : Nat → Bool) (nbr : Nat → Int) (len : Nat → P) :
    List Nat → List Nat → (Nat → Bool) → Nat → (Nat → Bool)
  | _, [], retained, _ => retained
  | pre, j :: rest, retained, c =>
    let r := scanCsr eps dist draw nbr len retained j pre c
    csrLoop eps dist draw nbr len (pre ++ [j]) rest
      (if r.1 then retained else fun x => if x = j then false else retained x) r.2

/-- One row of `diversify_csr` / `sparse.diversify_csr`: `retained = ones`, the first visited
position is never tested.  Result: the final `retained[]` as a function of the storage position. -/
def diversifyCsr (eps : P) (dist : Int → Int → P) (draw : Nat → Bool) (nbr : Nat → Int)
    (len : Nat → P) : List Nat → (Nat → Bool)
  | [] => fun _ => true
  | o :: rest => csrLoop eps dist draw nbr len [o] rest (fun _ => true) 0

/-- accessors of a stored row (`dflt` is never read for positions `< row.length`) -/
def nbrOf (row : List (Ent P)) (j : Nat) : Int := match row[j]? with | some e => e.1 | none => -1
def lenOf (dflt : P) (row : List (Ent P)) (j : Nat) : P := match row[j]? with | some e => e.2 | none => dflt

/-- `diversify_csr` on a stored row: keep-flag per storage position. -/
def csrFlags (eps : P) (dist : Int → Int → P) (draw : Nat → Bool) (row : List (Ent P))
    (order : List Nat) : List Bool :=
  (List.range row.length).map (diversifyCsr eps dist draw (nbrOf row) (lenOf eps row) order)

/-! ## `degree_prune_internal` -/

/-- `np.sort(row_data)` -/
def sortP (l : List P) : List P := isort (fun a b => decide (a ≤ b)) l

/-- `np.sort(row_data)[max_degree - 1]`; for `max_degree = 0` numba's negative index wraps to the
last (largest) element, so nothing is cut. -/
def cutValue (m : Nat) (lens : List P) : Option P :=
  if m = 0 then (sortP lens).getLast? else (sortP lens)[m - 1]?

/-- One row: `if row_data.shape[0] > max_degree:` every entry with `data[j] > cut_value` is
overwritten by `0.0`. -/
def degreePrune (zero : P) (m : Nat) (row : List (Ent P)) : List (Ent P) :=
  if m < row.length then
    match cutValue m (row.map (·.2)) with
    | some cut => row.map (fun e => if cut < e.2 then (e.1, zero) else e)
    | none => row
  else row

/-! ## `_init_search_graph`

Every pipeline function exists in two forms: the `…D` form takes the outcomes of the generator
tests as arguments — `draw : Nat → Bool` for one row (as in the kernels above), `draw1 draw2 :
Nat → Nat → Bool` = `(row, counter) ↦ outcome` for the forward and for the second pass of the
whole graph — and the historical name is its instance for `diversify_prob = 1` (`fun _ => true`).
In the code row `i` of *either* pass consults the private state `rng_state + i` (a fresh array,
`self.rng_state` itself is never advanced), so on the real code `draw1 i` and `draw2 i` are the
same stream restarted; the model does not assume it. -/

/-- `x == 0` in floating point (`0.0` and `-0.0`), the test of `eliminate_zeros` -/
def isZero (zero x : P) : Bool := decide (x ≤ zero) && decide (zero ≤ x)

/-- `csr.eliminate_zeros()` on one row -/
def elimZeros (zero : P) (row : List (Ent P)) : List (Ent P) := row.filter (fun e => !isZero zero e.2)

/-- `diversified_data[diversified_data <= 0.0] = FLOAT32_EPS` -/
def protect (zero eps x : P) : P := if x ≤ zero then eps else x

/-- Forward pass of one row up to the first CSR form: `diversify` (write-back with `(-1, inf)`),
the `<= 0 → EPS` protection, COO→CSR, `data[indices == -1] = 0`, `eliminate_zeros()`.
`tocsr()` keeps every row in *list order* (ascending length, not column order) and adds nothing:
the COO matrix was created empty, which sets its `has_canonical_format` flag, and the code then
assigns `row`/`col`/`data` directly, so `tocsr()` skips `sum_duplicates()` (observed with scipy
1.18: `has_sorted_indices` is `False` until the explicit `sort_indices()` before `maximum`).
`draw` = the generator tests of this row. -/
def forwardRowD (zero eps top : P) (dist : Int → Int → P) (draw : Nat → Bool) (row : List (Ent P)) :
    List (Ent P) :=
  let div := diversifyRow top eps dist draw row
  let prot := div.map (fun e => (e.1, protect zero eps e.2))
  elimZeros zero (prot.map (fun e => if e.1 = -1 then (e.1, zero) else e))

/-- `forwardRowD` for `diversify_prob = 1` -/
def forwardRow (zero eps top : P) (dist : Int → Int → P) (row : List (Ent P)) : List (Ent P) :=
  forwardRowD zero eps top dist (fun _ => true) row

/-- The pass the code calls "reverse diversification": `diversify_csr` over the CSC *view* of the
forward graph, i.e. over the same forward rows (stored in list order), visited in `argsort` order
of their protected lengths (for a tie-free row: the order of the first pass);
non-retained entries are overwritten by `0` and removed by `eliminate_zeros()`.
(The kernel's write-back loop runs over `order`; positions outside `order` keep `retained = 1`,
so testing the flag of every storage position is the same.)  `draw` = the generator tests of this
row in this pass. -/
def secondRowD (zero eps : P) (dist : Int → Int → P) (argsort : List P → List Nat)
    (draw : Nat → Bool) (row : List (Ent P)) : List (Ent P) :=
  let order := argsort (row.map (·.2))
  let keep := diversifyCsr eps dist draw (nbrOf row) (lenOf eps row) order
  elimZeros zero (row.zipIdx.map (fun ej => if keep ej.2 then ej.1 else (ej.1.1, zero)))

/-- `secondRowD` for `diversify_prob = 1` -/
def secondRow (zero eps : P) (dist : Int → Int → P) (argsort : List P → List Nat)
    (row : List (Ent P)) : List (Ent P) :=
  secondRowD zero eps dist argsort (fun _ => true) row

/-- a graph as the array of its rows `[(column, length)]`; rows beyond the array are empty -/
abbrev Graph (P : Type) := Array (List (Ent P))
def Graph.row (A : Graph P) (u : Nat) : List (Ent P) := A.getD u []

/-- `reverse_graph.tocsr()`: the only real transposition; row `v` of the transpose of the `n`-row
graph `A` lists `(u, A[u][v])`, `u` ascending. -/
def revRow (n : Nat) (A : Graph P) (v : Nat) : List (Ent P) :=
  (List.range n).flatMap (fun u => ((A.row u).filter (fun e => e.1 = (v : Int))).map (fun e => ((u : Int), e.2)))

/-- value stored for column `v` (implicit entries are `none`) -/
def valAt (row : List (Ent P)) (v : Int) : Option P := (row.find? (fun e => e.1 = v)).map (·.2)

/-- `std::max` as scipy's `maximum` functor evaluates it -/
def maxP (a b : P) : P := if a < b then b else a

/-- `A.maximum(B)` on one row of an `n`-column matrix: implicit entries count as `0`, results equal
to zero are not stored.  Caller's obligation: a row names no column twice (the neighbour graph's
no-duplicate invariant, C11/C01; scipy would add such duplicates up, `valAt` reads the first). -/
def unionRow (zero : P) (n : Nat) (a b : List (Ent P)) : List (Ent P) :=
  (List.range n).filterMap (fun (v : Nat) =>
    match valAt a (v : Int), valAt b (v : Int) with
    | none, none => none
    | x, y =>
      let w := maxP (x.getD zero) (y.getD zero)
      if isZero zero w then none else some ((v : Int), w))

/-- `setdiag(0.0); eliminate_zeros()` on row `u` -/
def dropDiag (u : Nat) (row : List (Ent P)) : List (Ent P) := row.filter (fun e => e.1 ≠ (u : Int))

/-! the stages of `_init_search_graph`, in execution order; `N` is the neighbour graph
(`N[u]` = stored row of point `u`); `draw1 u c` / `draw2 u c` = outcome of the `c`-th generator
test of row `u` in the forward / the second pass -/

/-- forward diversification, protection, first CSR form -/
def fwdRowsD (zero eps top : P) (dist : Int → Int → P) (N : List (List (Ent P)))
    (draw1 : Nat → Nat → Bool) : Graph P :=
  (Array.range N.length).map (fun u => forwardRowD zero eps top dist (draw1 u) (N.getD u []))

/-- after the second ("reverse") pass: shared by `_search_graph` and `reverse_graph` -/
def sndRowsD (zero eps top : P) (dist : Int → Int → P) (argsort : List P → List Nat)
    (N : List (List (Ent P))) (draw1 draw2 : Nat → Nat → Bool) : Graph P :=
  let f := fwdRowsD zero eps top dist N draw1
  (Array.range N.length).map (fun u => secondRowD zero eps dist argsort (draw2 u) (f.row u))

/-- `_search_graph.maximum(reverse_graph.tocsr())`, `setdiag(0)`, `eliminate_zeros()` -/
def uniRowsD (zero eps top : P) (dist : Int → Int → P) (argsort : List P → List Nat)
    (N : List (List (Ent P))) (draw1 draw2 : Nat → Nat → Bool) : Graph P :=
  let s := sndRowsD zero eps top dist argsort N draw1 draw2
  (Array.range N.length).map (fun u => dropDiag u (unionRow zero N.length (s.row u) (revRow N.length s u)))

/-- weighted search graph before binarisation: `degree_prune(graph, m)`, `eliminate_zeros()` -/
def finalRowsD (zero eps top : P) (dist : Int → Int → P) (argsort : List P → List Nat) (m : Nat)
    (N : List (List (Ent P))) (draw1 draw2 : Nat → Nat → Bool) : Graph P :=
  let g := uniRowsD zero eps top dist argsort N draw1 draw2
  (Array.range N.length).map (fun u => elimZeros zero (degreePrune zero m (g.row u)))

/-- `(graph != 0)`: the edge set `(u, v)` of `_search_graph` in caller numbering (before the
row/column permutation by `_vertex_order`), for the given outcomes of the generator tests. -/
def searchGraphD (zero eps top : P) (dist : Int → Int → P) (argsort : List P → List Nat) (m : Nat)
    (N : List (List (Ent P))) (draw1 draw2 : Nat → Nat → Bool) : List (Nat × Int) :=
  let g := finalRowsD zero eps top dist argsort m N draw1 draw2
  (List.range N.length).flatMap (fun u => (g.row u).map (fun e => (u, e.1)))

/-! the instances for `diversify_prob = 1` (every test prunes) -/

def fwdRows (zero eps top : P) (dist : Int → Int → P) (N : List (List (Ent P))) : Graph P :=
  fwdRowsD zero eps top dist N (fun _ _ => true)

def sndRows (zero eps top : P) (dist : Int → Int → P) (argsort : List P → List Nat)
    (N : List (List (Ent P))) : Graph P :=
  sndRowsD zero eps top dist argsort N (fun _ _ => true) (fun _ _ => true)

def uniRows (zero eps top : P) (dist : Int → Int → P) (argsort : List P → List Nat)
    (N : List (List (Ent P))) : Graph P :=
  uniRowsD zero eps top dist argsort N (fun _ _ => true) (fun _ _ => true)

def finalRows (zero eps top : P) (dist : Int → Int → P) (argsort : List P → List Nat) (m : Nat)
    (N : List (List (Ent P))) : Graph P :=
  finalRowsD zero eps top dist argsort m N (fun _ _ => true) (fun _ _ => true)

def searchGraph (zero eps top : P) (dist : Int → Int → P) (argsort : List P → List Nat) (m : Nat)
    (N : List (List (Ent P))) : List (Nat × Int) :=
  searchGraphD zero eps top dist argsort m N (fun _ _ => true) (fun _ _ => true)

/-- a stable argsort (ties in storage order): one of the orders `np.argsort` may return -/
def stableArgsort (lens : List P) : List Nat :=
  (isort (fun a b => decide (a.1 ≤ b.1)) lens.zipIdx).map (·.2)

/-- the opposite tie rule (ties in *reverse* storage order): another ascending permutation that an
unstable `np.argsort` may return -/
def revStableArgsort (lens : List P) : List Nat :=
  (isort (fun a b => decide (a.1 < b.1 ∨ (a.1 ≤ b.1 ∧ b.2 ≤ a.2))) lens.zipIdx).map (·.2)

end Pynn.Div
