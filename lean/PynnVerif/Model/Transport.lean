/-!
# C10 — certificate checker for the transport linear program (executable, over `Rat`)

`optimal_transport.network_simplex_core` (the pivoting network simplex, ≈900 lines of
threaded-tree surgery) is **not modelled**.  Instead every run of the real solver is
*certified*: the harness reads the primal flow `f` and the node potentials `u` (left
nodes) / `v` (right nodes) out of the solver's arrays, converts the doubles to exact
rationals and hands them to `certify`.  What acceptance means is proved in
`Proofs/Transport.lean` (`certify_sound_arrays`) and restated in `Props/C10.lean`.

Conventions (those of the code): the reduced cost of arc `(i, j)` is
`C i j + u i - v j`  (`cost[e] + pi[source[e]] - pi[target[e]]` in `find_entering_arc`).

Marginals: **decision** — the Boolean does *not* compare the marginals of `f` with `a`, `b`
against a built-in tolerance.  Floating-point flows never reproduce the inputs exactly and
any built-in tolerance would be arbitrary; instead

* `gap`   bounds the sub-optimality of `f` among all plans **with `f`'s own marginals**
          (always non-vacuous: `f` itself is such a plan);
* `rowRes` / `colRes` return the exact maximal marginal residuals `|Σ_j f i j - a i|`,
          `|Σ_i f i j - b j|` and the caller states its tolerance on them;
* `gapAB` bounds `⟨C,f⟩ - ⟨C,g⟩` for every plan `g` whose marginals are **exactly** `a`, `b`
          (the residuals enter through the potentials); this is the statement against the exactly
          normalised inputs when the caller passes `a = x/Σx`, `b = y/Σy` as exact rationals.

`a`, `b` fix the dimensions `n = a.size`, `m = b.size`; every shape is checked, so the
defaulting reads (`getD`) below never see a default inside an accepted certificate.
No Mathlib import: the driver links this natively.
-/
namespace Pynn.Transport

/-- `Σ_{k<n} g k` -/
def sumTo : Nat → (Nat → Rat) → Rat
  | 0, _ => 0
  | k+1, g => sumTo k g + g k

/-- `∀ k<n, p k` -/
def allTo : Nat → (Nat → Bool) → Bool
  | 0, _ => true
  | k+1, p => allTo k p && p k

/-- `max(0, max_{k<n} g k)` -/
def maxTo : Nat → (Nat → Rat) → Rat
  | 0, _ => 0
  | k+1, g => if maxTo k g < g k then g k else maxTo k g

def absR (x : Rat) : Rat := if x < 0 then -x else x

def at1 (a : Array Rat) (i : Nat) : Rat := a.getD i 0
def at2 (M : Array (Array Rat)) (i j : Nat) : Rat := (M.getD i #[]).getD j 0

/-- `M` is an `n × m` matrix -/
def shapeOk (n m : Nat) (M : Array (Array Rat)) : Bool :=
  M.size == n && allTo n (fun i => (M.getD i #[]).size == m)

/-- reduced cost of arc `(i, j)` -/
def red (C : Array (Array Rat)) (u v : Array Rat) (i j : Nat) : Rat :=
  at2 C i j + at1 u i - at1 v j

def rowSum (m : Nat) (f : Array (Array Rat)) (i : Nat) : Rat := sumTo m (fun j => at2 f i j)
def colSum (n : Nat) (f : Array (Array Rat)) (j : Nat) : Rat := sumTo n (fun i => at2 f i j)
def total (n m : Nat) (f : Array (Array Rat)) : Rat := sumTo n (fun i => rowSum m f i)
/-- `⟨C, f⟩` -/
def costOf (n m : Nat) (C f : Array (Array Rat)) : Rat :=
  sumTo n (fun i => sumTo m (fun j => at2 C i j * at2 f i j))

/-- The accept/reject part: shapes, `f ≥ 0`, `eps`-dual feasibility of `(u, v)`. -/
def certOk (a b : Array Rat) (C f : Array (Array Rat)) (u v : Array Rat) (eps : Rat) : Bool :=
  let n := a.size; let m := b.size
  shapeOk n m C && shapeOk n m f && u.size == n && v.size == m
    && allTo n (fun i => allTo m (fun j => decide (0 ≤ at2 f i j)))
    && allTo n (fun i => allTo m (fun j => decide (-eps ≤ red C u v i j)))

/-- Complementary-slackness gap of `f` against plans with `f`'s own marginals:
`Σ (C i j + u i - v j) * f i j + eps * Σ f i j`. -/
def certGap (a b : Array Rat) (C f : Array (Array Rat)) (u v : Array Rat) (eps : Rat) : Rat :=
  let n := a.size; let m := b.size
  sumTo n (fun i => sumTo m (fun j => red C u v i j * at2 f i j)) + eps * total n m f

/-- **The checker.** `(accepted, gap)`. -/
def certify (a b : Array Rat) (C f : Array (Array Rat)) (u v : Array Rat) (eps : Rat) : Bool × Rat :=
  (certOk a b C f u v eps, certGap a b C f u v eps)

/-- maximal row residual `max_i |Σ_j f i j - a i|` -/
def rowRes (a b : Array Rat) (f : Array (Array Rat)) : Rat :=
  maxTo a.size (fun i => absR (rowSum b.size f i - at1 a i))
/-- maximal column residual `max_j |Σ_i f i j - b j|` -/
def colRes (a b : Array Rat) (f : Array (Array Rat)) : Rat :=
  maxTo b.size (fun j => absR (colSum a.size f j - at1 b j))

/-- Gap of `f` against plans whose marginals are exactly `(a, b)`:
`Σ r f + eps * Σ a + Σ_i u i * (a i - Σ_j f i j) + Σ_j v j * (Σ_i f i j - b j)`. -/
def gapAB (a b : Array Rat) (C f : Array (Array Rat)) (u v : Array Rat) (eps : Rat) : Rat :=
  let n := a.size; let m := b.size
  sumTo n (fun i => sumTo m (fun j => red C u v i j * at2 f i j))
    + eps * sumTo n (fun i => at1 a i)
    + sumTo n (fun i => at1 u i * (at1 a i - rowSum m f i))
    + sumTo m (fun j => at1 v j * (colSum n f j - at1 b j))

end Pynn.Transport
