import PynnVerif.Model.Heap
import PynnVerif.Model.Rng
/-!
# NN-descent as it is written (`pynndescent_.py`, `utils.py`; the sparse twin
`sparse_nndescent.py` has the same structure with the distance evaluated on CSR rows)

Everything that touches the graph goes through `pushInto` (one
`checked_flagged_heap_push`) or `clearFlags`.  The model is generic in the
priority type `P` of the graph and in the priority type `C` of the candidate
heaps (random float32 values in the code); `dist : Nat → Nat → P` is the metric
on row numbers.  Mathlib-free; executable (the driver instantiates `P = C =
Float32`, `draw = tauRand`).
-/
namespace Pynn

variable {P : Type} [LE P] [LT P] [DecidableLE P] [DecidableLT P]
variable {C : Type} [LE C] [LT C] [DecidableLE C] [DecidableLT C]

abbrev Graph (P : Type) := Array (Row P)

/-- one entry of an update list: `(p, q, d)` -/
structure Upd (P : Type) where
  p : Nat
  q : Nat
  d : P
deriving Repr

def mkGraph (top : P) (n k : Nat) : Graph P := Array.replicate n (mkRow top k)

/-- `checked_flagged_heap_push(graph[1][r], graph[0][r], graph[2][r], d, q, f)` -/
def pushInto (g : Graph P) (r : Nat) (d : P) (q : Int) (f : Bool) : Graph P × Bool :=
  if h : r < g.size then
    let res := pushFlagged g[r] d q f
    (g.set r res.1, res.2)
  else (g, false)

/-- live view `current_graph[1][:, 0]`: the root priority of row `p` -/
def threshold (top : P) (g : Graph P) (p : Nat) : P :=
  match g[p]? with
  | some row => match row[0]? with
    | some e => e.prio
    | none => top
  | none => top

/-! ## leaf initialisation -/

/-- valid prefix of a leaf row (`break` at the first negative entry) -/
def takeValid (row : List Int) : List Nat := (row.takeWhile (fun x => decide (0 ≤ x))).map Int.toNat

/-- pairs `(row[i], row[j])`, `i < j`, in the loop order of `generate_leaf_updates` -/
def pairsLt : List Nat → List (Nat × Nat)
  | [] => []
  | p :: rest => rest.map (fun q => (p, q)) ++ pairsLt rest

/-- `generate_leaf_updates` for one leaf row: strict `<` against either endpoint's threshold -/
def leafUpdates (thr : Nat → P) (dist : Nat → Nat → P) (row : List Int) : List (Upd P) :=
  (pairsLt (takeValid row)).filterMap (fun pq =>
    let d := dist pq.1 pq.2
    if d < thr pq.1 ∨ d < thr pq.2 then some ⟨pq.1, pq.2, d⟩ else none)

/-- apply one update the way `init_rp_tree` does: push `q` into row `p`, then `p` into row `q` -/
def applyBoth (g : Graph P) (u : Upd P) : Graph P :=
  let g1 := (pushInto g u.p u.d u.q true).1
  (pushInto g1 u.q u.d u.p true).1

/-- split a list into consecutive blocks of `size` (`size > 0`) -/
def chunks {α : Type} (size : Nat) (l : List α) : List (List α) :=
  if h : size = 0 ∨ l = [] then (if l = [] then [] else [l]) else
    l.take size :: chunks size (l.drop size)
termination_by l.length
decreasing_by
  simp only [List.length_drop]
  have : l.length ≠ 0 := by
    intro hl; exact h (Or.inr (List.eq_nil_of_length_eq_zero hl))
  omega

/-- `init_rp_tree`: blocks of 65536 leaves; thresholds are read at block start (the graph
is not modified while a block's updates are generated) -/
def initRpTree (top : P) (dist : Nat → Nat → P) (g : Graph P) (leafArray : List (List Int))
    (blockSize : Nat := 65536) : Graph P :=
  (chunks blockSize leafArray).foldl (fun g block =>
    let ups := block.flatMap (leafUpdates (threshold top g) dist)
    ups.foldl applyBoth g) g

/-! ## random initialisation -/

/-- `np.abs(tau_rand_int(state)) % n` with int32 wrap-around of `abs(INT32_MIN)` and
Python's non-negative `%` -/
def randIndex (i : Int) (n : Nat) : Nat :=
  let a : Int := if i == -2147483648 then i else (i.natAbs : Int)
  (a.emod (n : Int)).toNat

/-- `init_random`: only rows whose root slot is empty; exactly `k − #(idx ≥ 0)` draws
(evaluated once), each may hit the row itself or a duplicate -/
def initRandom (k n : Nat) (dist : Nat → Nat → P) (g : Graph P) (rng : RngState) : Graph P × RngState :=
  (List.range n).foldl (fun (acc : Graph P × RngState) i =>
    let g := acc.1
    match g[i]? with
    | none => acc
    | some row =>
      match row[0]? with
      | none => acc
      | some e0 =>
        if e0.idx < 0 then
          let tries := k - (row.toList.filter (fun e => decide (0 ≤ e.idx))).length
          (List.range tries).foldl (fun (acc : Graph P × RngState) _ =>
            let (r, rng') := tauRandInt acc.2
            let idx := randIndex r n
            ((pushInto acc.1 i (dist idx i) (idx : Int) true).1, rng')) acc
        else acc) (g, rng)

/-- `init_from_neighbor_graph`: push every old entry with flag 0 (sentinels are rejected) -/
def initFromNeighborGraph (g : Graph P) (indices : List (List Int)) (dists : List (List P)) : Graph P :=
  ((indices.zip dists).zipIdx).foldl (fun g rowi =>
    (rowi.1.1.zip rowi.1.2).foldl (fun g qd => (pushInto g rowi.2 qd.2 qd.1 false).1) g) g

/-- `initalize_heap_from_graph_indices[_and_distances]`: skip `j < 0`, flag 1 -/
def initFromIndices (g : Graph P) (indices : List (List Int)) (d : Nat → Nat → P) : Graph P :=
  (indices.zipIdx).foldl (fun g rowi =>
    rowi.1.foldl (fun g j => if 0 ≤ j then (pushInto g rowi.2 (d rowi.2 j.toNat) j true).1 else g) g) g

/-! ## candidate building -/

abbrev Cands (C : Type) := Array (Row C)

def pushCand (c : Cands C) (r : Nat) (d : C) (q : Int) : Cands C :=
  if h : r < c.size then c.set r (pushChecked c[r] d q).1 else c

/-- first loop of `new_build_candidates` for thread `t` of `T`: one draw per real entry;
`idx` goes into row `i`'s candidates iff `i % T == t`, `i` into row `idx`'s iff `idx % T == t` -/
def buildThread (draw : RngState → C × RngState) (g : Graph P) (T t : Nat)
    (st : Cands C × Cands C × RngState) : Cands C × Cands C × RngState :=
  (List.range g.size).foldl (fun st i =>
    match g[i]? with
    | none => st
    | some row =>
      row.toList.foldl (fun (st : Cands C × Cands C × RngState) (e : Entry P) =>
        if e.idx < (0 : Int) then st else
          let (d, rng') := draw st.2.2
          let idx := e.idx.toNat
          if e.flag then
            let nc := if i % T = t then pushCand st.1 i d e.idx else st.1
            let nc := if idx % T = t then pushCand nc idx d (i : Int) else nc
            (nc, st.2.1, rng')
          else
            let oc := if i % T = t then pushCand st.2.1 i d e.idx else st.2.1
            let oc := if idx % T = t then pushCand oc idx d (i : Int) else oc
            (st.1, oc, rng')) st) st

/-- second loop: clear the flag of every entry that made it into its own row's *new* candidates -/
def clearFlags (g : Graph P) (newC : Cands C) : Graph P :=
  g.mapIdx (fun i row =>
    match newC[i]? with
    | none => row
    | some crow => row.map (fun e => if crow.any (fun c => c.idx == e.idx) then { e with flag := false } else e))

/-- `new_build_candidates`: thread `t` uses the derived state `rng_state + t`; the index-wide
state is not advanced.  Returns the candidate *index* arrays (heap layout) and the new graph. -/
def newBuildCandidates (ctop : C) (draw : RngState → C × RngState) (g : Graph P) (maxCand : Nat)
    (rng : RngState) (T : Nat) : (List (List Int) × List (List Int)) × Graph P :=
  let empty : Cands C := Array.replicate g.size (mkRow ctop maxCand)
  let (nc, oc) := (List.range T).foldl (fun (acc : Cands C × Cands C) t =>
    let r := buildThread draw g T t (acc.1, acc.2, rng.add (t : Int))
    (r.1, r.2.1)) (empty, empty)
  ((nc.toList.map (fun r => r.toList.map (·.idx)), oc.toList.map (fun r => r.toList.map (·.idx))),
   clearFlags g nc)

/-! ## local join -/

def validC (l : List Int) : List Nat := (l.filter (fun x => decide (0 ≤ x))).map Int.toNat

/-- `generate_graph_updates` for one vertex: new×new with `k ≥ j` (emits `(p,p,0)`), then new×old;
`continue` on `-1`; test is `<=` -/
def joinUpdates (thr : Nat → P) (dist : Nat → Nat → P) (newRow oldRow : List Int) : List (Upd P) :=
  let test := fun (p q : Nat) =>
    let d := dist p q
    if d ≤ thr p ∨ d ≤ thr q then some (⟨p, q, d⟩ : Upd P) else none
  let rec go : List Int → List (Upd P)
    | [] => []
    | pj :: rest =>
      if pj < 0 then go rest else
        let p := pj.toNat
        ((validC (pj :: rest)).filterMap (test p)) ++ ((validC oldRow).filterMap (test p)) ++ go rest
  go newRow

/-- `apply_graph_updates_low_memory`: thread `t` scans *all* updates and pushes into row `p`
iff `p % T == t`, then into row `q` iff `q % T == t`; returns the change count -/
def applyLow (T : Nat) (g : Graph P) (ups : List (Upd P)) : Graph P × Nat :=
  (List.range T).foldl (fun acc t =>
    ups.foldl (fun (acc : Graph P × Nat) u =>
      let acc := if u.p % T = t then
          let r := pushInto acc.1 u.p u.d u.q true
          (r.1, acc.2 + (if r.2 then 1 else 0))
        else acc
      if u.q % T = t then
        let r := pushInto acc.1 u.q u.d u.p true
        (r.1, acc.2 + (if r.2 then 1 else 0))
      else acc) acc) (g, 0)

/-- per-row membership record of the high-memory path (`in_graph`): never pruned -/
abbrev InGraph := Array (List Int)

def initInGraph (g : Graph P) : InGraph := g.map (fun row => row.toList.map (·.idx))

def InGraph.has (s : InGraph) (r : Nat) (x : Int) : Bool :=
  match s[r]? with
  | some l => l.contains x
  | none => false

def InGraph.add (s : InGraph) (r : Nat) (x : Int) : InGraph :=
  if h : r < s.size then s.set r (x :: s[r]) else s

/-- `apply_graph_updates_high_memory` (sequential) -/
def applyHigh (g : Graph P) (ups : List (Upd P)) (s : InGraph) : (Graph P × Nat) × InGraph :=
  ups.foldl (fun (acc : (Graph P × Nat) × InGraph) u =>
    let g := acc.1.1; let c := acc.1.2; let s := acc.2
    let p : Int := u.p; let q : Int := u.q
    if s.has u.p q && s.has u.q p then acc else
      let acc1 : (Graph P × Nat) × InGraph :=
        if s.has u.p q then acc else
          let r := pushInto g u.p u.d q true
          if r.2 then ((r.1, c + 1), s.add u.p q) else ((r.1, c), s)
      let g := acc1.1.1; let c := acc1.1.2; let s := acc1.2
      if u.p = u.q || s.has u.q p then acc1 else
        let r := pushInto g u.q u.d p true
        if r.2 then ((r.1, c + 1), s.add u.q p) else ((r.1, c), s)) ((g, 0), s)

/-- configuration of one `nn_descent` call -/
structure Cfg where
  k : Nat
  maxCand : Nat
  nIters : Nat
  nThreads : Nat
  lowMemory : Bool
  blockSize : Nat := 16384

/-- one iteration's local join over all vertex blocks; thresholds are read at block start -/
def processBlocks (top : P) (dist : Nat → Nat → P) (cfg : Cfg) (g : Graph P)
    (newC oldC : List (List Int)) (s : InGraph) : (Graph P × Nat) × InGraph :=
  (chunks cfg.blockSize (newC.zip oldC)).foldl (fun (acc : (Graph P × Nat) × InGraph) block =>
    let g := acc.1.1
    let ups := block.flatMap (fun no => joinUpdates (threshold top g) dist no.1 no.2)
    if cfg.lowMemory then
      let r := applyLow cfg.nThreads g ups
      ((r.1, acc.1.2 + r.2), acc.2)
    else
      let r := applyHigh g ups acc.2
      ((r.1.1, acc.1.2 + r.1.2), r.2)) ((g, 0), s)

/-- the iteration loop with the `c <= delta * k * n` stop test (`stop c`) -/
def descentLoop (top : P) (ctop : C) (draw : RngState → C × RngState) (dist : Nat → Nat → P)
    (cfg : Cfg) (stop : Nat → Bool) (rng : RngState) : Nat → Graph P → InGraph → Graph P
  | 0, g, _ => g
  | it + 1, g, s =>
    let r := newBuildCandidates ctop draw g cfg.maxCand rng cfg.nThreads
    let res := processBlocks top dist cfg r.2 r.1.1 r.1.2 s
    if stop res.1.2 then res.1.1 else descentLoop top ctop draw dist cfg stop rng it res.1.1 res.2

/-- `nn_descent`: optional leaf + random initialisation of an empty graph (or a supplied heap),
the iteration loop, `deheap_sort`.  Returns the sorted rows and the final generator state. -/
def nnDescent (top : P) (ctop : C) (draw : RngState → C × RngState) (dist : Nat → Nat → P) (n : Nat)
    (cfg : Cfg) (stop : Nat → Bool) (rng : RngState) (init : Option (Graph P)) (rpTreeInit : Bool)
    (leafArray : List (List Int)) : Graph P × RngState :=
  let (g0, rng1) : Graph P × RngState :=
    match init with
    | some g => (g, rng)
    | none =>
      let g := mkGraph top n cfg.k
      let g := if rpTreeInit then initRpTree top dist g leafArray else g
      initRandom cfg.k n dist g rng
  let s := if cfg.lowMemory then (#[] : InGraph) else initInGraph g0
  let g := descentLoop top ctop draw dist cfg stop rng1 cfg.nIters g0 s
  (g.map deheapSort, rng1)

end Pynn
