/-!
# Life-cycle of an `NNDescent` object (C04): build / prepare / query / update / compress / pickle

Bookkeeping model.  A data row is a `Pt` = (identity of the logical row, version):
replacing a row bumps its version, so "no trace of replaced rows" is the statement
that every stored tag is current.  The forest-dependent `_vertex_order` and the
neighbours that NN-descent happens to find are *oracle inputs* of the operations
(the theorems quantify over all of them); what is modelled literally is what
`update` / `_init_search_graph` / `compress_index` / `__getstate__` do with them:
restore caller order by `argsort(_vertex_order)` iff the attribute exists, write
replacements, append, reset rows *and references* of replaced points, re-seed from
the old lists, rebuild the search structures iff any existed, refuse a compressed
index before touching anything.  Mathlib-free; executable.
-/
namespace Pynn.Idx

structure Pt where
  id  : Nat
  ver : Nat
deriving DecidableEq, Repr

/-- one neighbour-graph row: the owner as it was when the row was (re)computed, and the
neighbours as they were when their distances were computed -/
structure GRow where
  owner : Pt
  nbrs  : List Pt
deriving DecidableEq, Repr

structure St where
  logical  : List Pt                 -- the logical dataset, caller order
  raw      : List Pt                 -- `_raw_data` rows in stored order
  vo       : Option (List Nat)       -- `_vertex_order`, if the attribute exists
  graph    : Option (List GRow)      -- `_neighbor_graph` (caller numbering), if it exists
  searchRows : Option (List Pt)      -- the rows the compiled search closure was built over (stored order)
  compressed : Bool
deriving DecidableEq, Repr

inductive Op
  | prepare (vo : List Nat)                                   -- vertex order the forest yields (oracle)
  | query
  | update (nFresh : Nat) (replaced : List Nat) (found : List (List Nat)) (vo : List Nat)
      -- found: neighbours NN-descent adds per row (oracle); vo: order of the re-prepare, if one happens
  | compress (vo : List Nat)
  | pickle (vo : List Nat)
deriving Repr

inductive Out
  | ok
  | err (kind : String)
deriving DecidableEq, Repr

/-- `xs[perm]` (numpy fancy indexing; out-of-range positions are dropped) -/
def permute {α : Type} (xs : List α) (p : List Nat) : List α := p.filterMap (fun i => xs[i]?)

/-- `np.argsort(p)` for a permutation `p` of `0..n-1`: position of each `i` in `p` -/
def argsort (p : List Nat) : List Nat := (List.range p.length).map (fun i => p.idxOf i)

def isPerm (p : List Nat) (n : Nat) : Bool := p.length == n && (List.range n).all (fun i => p.contains i)

def build (n : Nat) (found : List (List Nat)) : St :=
  let pts := (List.range n).map (fun i => (⟨i, 0⟩ : Pt))
  { logical := pts, raw := pts, vo := none,
    graph := some ((pts.zipIdx).map (fun (p, i) =>
      ⟨p, ((found[i]?.getD []).filterMap (fun j => pts[j]?))⟩)),
    searchRows := none, compressed := false }

/-- `_init_search_graph` + `_init_search_function` (only when no search graph exists):
reorder `_raw_data` by the vertex order, remember what the closure was compiled over;
`compressed` deletes the neighbour graph here -/
def doPrepare (s : St) (vo : List Nat) : St :=
  match s.searchRows with
  | some _ => s
  | none =>
    let raw' := permute s.raw vo
    { s with raw := raw', vo := some vo, searchRows := some raw',
             graph := if s.compressed then none else s.graph }

def bump (replaced : List Nat) (pts : List Pt) : List Pt :=
  (pts.zipIdx).map (fun (p, i) => if replaced.contains i then { p with ver := p.ver + 1 } else p)

/-- one operation -/
def step (s : St) : Op → St × Out
  | .prepare vo => (doPrepare s vo, .ok)
  | .query =>
    -- `query` prepares a fresh index first; the vertex order it would use is whatever the forest
    -- gives — the harness issues an explicit `prepare` before `query`, so here it is a no-op
    (s, if s.searchRows.isSome then .ok else .err "not-prepared")
  | .pickle vo => (doPrepare s vo, .ok)          -- `__getstate__` forces prepare; load restores every attribute
  | .compress vo =>
    let s := doPrepare s vo
    ({ s with compressed := true, graph := none }, .ok)
  | .update nFresh replaced found vo =>
    match s.graph with
    | none => (s, .err "ValueError:compressed")                      -- refused before anything is touched
    | some g =>
      -- row numbers outside 0..n-1 are refused before anything is touched as well
      if replaced.any (fun i => i ≥ s.logical.length) then (s, .err "ValueError:index-range") else
      -- data preparation: caller order is restored iff `_vertex_order` exists
      let restored := match s.vo with
        | some v => permute s.raw (argsort v)
        | none => s.raw
      let n := restored.length
      let fresh := (List.range nFresh).map (fun i => (⟨n + i, 0⟩ : Pt))
      let data := bump replaced restored ++ fresh
      let logical' := bump replaced s.logical ++ fresh
      -- rows and references of replaced points are reset; appended rows start empty
      let kept : List GRow := (g.zipIdx).map (fun (row, i) =>
        if replaced.contains i then ⟨{ row.owner with ver := row.owner.ver + 1 }, []⟩
        else ⟨row.owner, row.nbrs.filter (fun q => !replaced.contains q.id)⟩)
      let seeded := kept ++ fresh.map (fun p => ⟨p, []⟩)
      -- NN-descent adds neighbours measured on the *current* data
      let g' := (seeded.zipIdx).map (fun (row, i) =>
        ⟨row.owner, row.nbrs ++ ((found[i]?.getD []).filterMap (fun j => data[j]?))⟩)
      let s1 : St := { s with logical := logical', raw := data, graph := some g' }
      -- search structures are dropped and rebuilt iff any existed
      match s.searchRows with
      | some _ => (doPrepare { s1 with searchRows := none } vo, .ok)
      | none => (s1, .ok)

def run (s : St) (ops : List Op) : St × List Out :=
  ops.foldl (fun (acc : St × List Out) op => let r := step acc.1 op; (r.1, acc.2 ++ [r.2])) (s, [])

/-! ## the invariant -/

/-- every stored tag is current: the identity of logical point `i` is `i` (the neighbour filter of
`update` looks tags up by row number), `raw` is the logical dataset in vertex order (or caller order when
never prepared), the graph has one row per logical point, owned by the current version of that point,
and mentions only current versions; a compressed index has no graph and vice versa; the compiled
closure exists iff `_vertex_order` exists and, when present, was built over the current rows.

Two conjuncts were added to make the predicate *inductive* — `p.id == i` and `vo.isSome` / `vo.isNone`
(closure exists iff `_vertex_order` exists): without either there are unreachable states that satisfy
the rest and are driven out of it by one operation (`Props/C04.lean`, last section).
`!s.compressed` (a compressed index has no graph) is what lets the specification of the logical
dataset (`spec`, `Proofs/Index.lean`) know that every `update` after a `compress` is refused. -/
def Inv (s : St) : Bool :=
  (s.logical.zipIdx).all (fun (p, i) => p.id == i) &&
  (match s.vo with
   | some v => isPerm v s.logical.length && s.raw == permute s.logical v
   | none => s.raw == s.logical) &&
  (match s.graph with
   | some g => !s.compressed && g.length == s.logical.length &&
       (g.zip s.logical).all (fun (row, p) => row.owner == p && row.nbrs.all (fun q => s.logical.contains q))
   | none => s.compressed) &&
  (match s.searchRows with
   | some r => r == s.raw && s.vo.isSome
   | none => s.vo.isNone)

end Pynn.Idx
