/-!
# Model of the random-projection trees of `pynndescent/rp_trees.py`

What is modelled, literally:

* `make_euclidean_tree` / `make_angular_tree` / `make_bit_tree` /
  `make_sparse_euclidean_tree` / `make_sparse_angular_tree` — the five functions
  have the *same* control structure (`if indices.shape[0] > leaf_size and
  max_depth > 0:` split, recurse left with `max_depth - 1`, recurse right with
  `max_depth - 1`, append the inner node; `else:` append a leaf).  They differ
  only in the `*_random_projection_split` they call, and every such split does
  the same thing with its margins: `side[i] ∈ {0,1}` from the sign of the margin
  (a coin when `|margin| < EPS`), **then** `if n_left == 0 or n_right == 0:`
  re-draw every side with a coin (which may again put everything on one side),
  then a *stable* partition of `indices` by `side[i] == 0`.
  Margins, hyperplanes and coins are abstracted by an `Oracle` (every possible
  outcome); `buildTree` is the tree of recursive calls.
* the linked (post-order list) form the code appends to: `linearize`;
  `get_leaves_from_tree`: `getLeaves`; `make_dense_tree`'s `max_leaf_size`:
  `treeLeafSize`.
* `recursive_convert` / `recursive_convert_sparse` / `convert_tree_format`
  (hyperplanes and offsets are copied alongside; they carry no index structure
  and are not modelled): `recursiveConvert`, `convertTreeFormat`.
* `search_flat_tree` / `search_flat_bit_tree` / `search_sparse_flat_tree` and the
  three `tree_search_closure`s of `pynndescent_.py` (same loop): `route`.

Point ids and array cells are unbounded `Int` (`int32` in the code).
This file must stay free of Mathlib imports (the driver executable links it).
-/
namespace Pynn.RP

/-- The tree of recursive calls of `make_*_tree`: a leaf holds the `indices`
array it was called with (possibly empty), an inner node its two calls. -/
inductive Tree where
  | leaf (idx : List Int)
  | node (l r : Tree)
deriving Repr, DecidableEq, Inhabited

namespace Tree
/-- number of nodes = entries appended to `children` / `point_indices` -/
def numNodes : Tree → Nat
  | leaf _ => 1
  | node l r => l.numNodes + r.numNodes + 1
/-- leaves, left to right (= order of the leaves in the post-order lists) -/
def leaves : Tree → List (List Int)
  | leaf idx => [idx]
  | node l r => l.leaves ++ r.leaves
/-- number of points held by the leaves -/
def size : Tree → Nat
  | leaf idx => idx.length
  | node l r => l.size + r.size
/-- longest root-to-leaf path, in edges -/
def depth : Tree → Nat
  | leaf _ => 0
  | node l r => max l.depth r.depth + 1
/-- leaves paired with their depth below a root at depth `d` -/
def leavesAt : Tree → Nat → List (Nat × List Int)
  | leaf idx, d => [(d, idx)]
  | node l r, d => l.leavesAt (d + 1) ++ r.leavesAt (d + 1)
end Tree

/-! ## Construction -/

/-- Everything a `*_random_projection_split` call can decide.  A call is
identified by its path from the root (`false` = left call) and the `indices`
it received (the state of the generator, the hyperplane and the margins are all
functions of the call — the oracle is an arbitrary function of it).
`first path idx i = true` means `side[i] = 1` after the margin loop (sign of the
margin, or the coin when `|margin| < EPS`); `again path idx i` are the coins of
the fall-back loop. -/
structure Oracle where
  first : List Bool → List Int → Nat → Bool
  again : List Bool → List Int → Nat → Bool

/-- `n_left` / `n_right` after a side loop over `range(n)`. -/
def countSide (s : Nat → Bool) (n : Nat) (b : Bool) : Nat :=
  ((List.range n).filter (fun i => s i == b)).length

/-- The `side` array a split ends up with: the first pass, replaced by the
fall-back coins `if n_left == 0 or n_right == 0`. -/
def sides (o : Oracle) (path : List Bool) (idx : List Int) : Nat → Bool :=
  let s := o.first path idx
  let nLeft := countSide s idx.length false
  let nRight := countSide s idx.length true
  if nLeft == 0 || nRight == 0 then o.again path idx else s

/-- The two "populate" loops: stable partition of `indices` by `side[i] == 0`. -/
def splitBy (s : Nat → Bool) (idx : List Int) : List Int × List Int :=
  let z := idx.zipIdx
  ((z.filter (fun p => !s p.2)).map Prod.fst, (z.filter (fun p => s p.2)).map Prod.fst)

/-- `make_*_tree(data, indices, …, leaf_size, max_depth)`: structural recursion on
the depth fuel.  `max_depth > 0` is the successor case; the split happens iff
additionally `indices.shape[0] > leaf_size` (strict). -/
def buildTree (o : Oracle) (leafSize : Nat) : (maxDepth : Nat) → (path : List Bool) → List Int → Tree
  | 0, _, idx => .leaf idx
  | d + 1, path, idx =>
    if idx.length > leafSize then
      let sp := splitBy (sides o path idx) idx
      .node (buildTree o leafSize d (path ++ [false]) sp.1) (buildTree o leafSize d (path ++ [true]) sp.2)
    else .leaf idx

/-- `make_dense_tree` / `make_sparse_tree` / `make_dense_bit_tree`: the root call
on `np.arange(n)`; a non-positive `max_depth` (Python `int`) is "no fuel". -/
def makeTree (o : Oracle) (leafSize : Nat) (maxDepth : Int) (n : Nat) : Tree :=
  buildTree o leafSize maxDepth.toNat [] ((List.range n).map Int.ofNat)

/-! ## Linked (post-order list) form, leaf array -/

/-- The typed lists `children` and `point_indices` (`tree.indices`) of the linked
`FlatTree`.  (`hyperplanes` and `offsets` are appended in lock-step.) -/
structure Linked where
  children : Array (Int × Int) := #[]
  indices : Array (List Int) := #[]
deriving Repr, DecidableEq, Inhabited

/-- The appends of `make_*_tree`: children first, `left_node_num = len(point_indices) - 1`
after the left call, `right_node_num` likewise after the right call, then the node itself
with `point_indices = [-1]`; a leaf is `(-1, -1)` with its `indices`. -/
def linearize : Tree → Linked → Linked
  | .leaf idx, L => { children := L.children.push (-1, -1), indices := L.indices.push idx }
  | .node l r, L =>
    let L1 := linearize l L
    let leftNum : Int := (L1.indices.size : Int) - 1
    let L2 := linearize r L1
    let rightNum : Int := (L2.indices.size : Int) - 1
    { children := L2.children.push (leftNum, rightNum), indices := L2.indices.push [-1] }

/-- `max_leaf_size` of `make_dense_tree`: starts at `leaf_size`, raised by every entry of
`point_indices` (inner nodes contribute their `[-1]`, length 1). -/
def treeLeafSize (L : Linked) (leafSize : Nat) : Nat :=
  L.indices.foldl (fun m p => if p.length > m then p.length else m) leafSize

/-- `a[start : start + len(xs)] = xs`, cell by cell (cells outside the array are skipped;
numpy would raise — theorems state the guard). -/
def writeSlice (a : Array Int) (start : Nat) : List Int → Array Int
  | [] => a
  | x :: xs => writeSlice (a.setIfInBounds start x) (start + 1) xs

/-- `get_leaves_from_tree(tree, max_leaf_size)`: count with `== -1 and == -1`, allocate
`np.full((n_leaves, max_leaf_size), -1)`, fill with the test `== -1 or == -1`. -/
def getLeaves (L : Linked) (maxLeafSize : Nat) : Array (Array Int) :=
  let nLeaves := (L.children.toList.filter (fun c => c.1 == -1 && c.2 == -1)).length
  let result : Array (Array Int) := Array.replicate nLeaves (Array.replicate maxLeafSize (-1))
  let step (acc : Array (Array Int) × Nat) (i : Nat) : Array (Array Int) × Nat :=
    let c := L.children.getD i (0, 0)
    if c.1 == -1 || c.2 == -1 then
      (acc.1.modify acc.2 (fun row => writeSlice row 0 (L.indices.getD i [])), acc.2 + 1)
    else acc
  ((List.range L.indices.size).foldl step (result, 0)).1

/-- `rptree_leaf_array` for one tree built by `make_*_tree` (width = the tree's `leaf_size` field). -/
def leafArray (t : Tree) (leafSize : Nat) : Array (Array Int) :=
  let L := linearize t {}
  getLeaves L (treeLeafSize L leafSize)

/-! ## Flattening -/

/-- The arrays `children[:, 0]`, `children[:, 1]` and `indices` of the search tree. -/
structure Flat where
  ch0 : Array Int
  ch1 : Array Int
  indices : Array Int
deriving Repr, DecidableEq, Inhabited

/-- `recursive_convert(tree, …, children, indices, node_num, leaf_start, tree_node)`;
returns the arrays and the code's `(node_num, leaf_start)` pair — note the *last used*
node number is returned, and callers continue at `node_num + 1`. -/
def recursiveConvert : Tree → Flat → (nodeNum leafStart : Nat) → Flat × Nat × Nat
  | .leaf idx, F, nodeNum, leafStart =>
    let leafEnd := leafStart + idx.length
    ({ ch0 := F.ch0.setIfInBounds nodeNum (-(leafStart : Int)),
       ch1 := F.ch1.setIfInBounds nodeNum (-(leafEnd : Int)),
       indices := writeSlice F.indices leafStart idx }, nodeNum, leafEnd)
  | .node l r, F, nodeNum, leafStart =>
    let F1 : Flat := { F with ch0 := F.ch0.setIfInBounds nodeNum ((nodeNum : Int) + 1) }
    let oldNodeNum := nodeNum
    let (F2, nodeNum2, leafStart2) := recursiveConvert l F1 (nodeNum + 1) leafStart
    let F3 : Flat := { F2 with ch1 := F2.ch1.setIfInBounds oldNodeNum ((nodeNum2 : Int) + 1) }
    let (F4, nodeNum4, leafStart4) := recursiveConvert r F3 (nodeNum2 + 1) leafStart2
    (F4, nodeNum4, leafStart4)

/-- `convert_tree_format(tree, data_size, _)`: `n_nodes` rows of `-1`, `data_size` cells of `-1`,
then `recursive_convert(…, 0, 0, root)`. -/
def convertTreeFormat (t : Tree) (dataSize : Nat) : Flat :=
  let n := t.numNodes
  (recursiveConvert t ⟨Array.replicate n (-1), Array.replicate n (-1), Array.replicate dataSize (-1)⟩ 0 0).1

/-! ## Routing -/

/-- `search_flat_tree`: `node = 0; while children[node, 0] > 0: node = children[node, side]`,
then the pair `(-children[node, 0], -children[node, 1])` (what `tree_search_closure` returns; the
`rp_trees` variants return `indices[that slice]`).  `side step node = true` means
`select_side(...) != 0` at the `step`-th iteration (it may depend on the node — hyperplane — and,
through the generator, on the step).  `none`: out of fuel, or a read outside the array
(`node` is `uint32` in the code: a negative child would wrap). -/
def route (ch0 ch1 : Array Int) (side : Nat → Nat → Bool) : (fuel step node : Nat) → Option (Nat × Int × Int)
  | 0, _, _ => none
  | fuel + 1, step, node =>
    match ch0[node]?, ch1[node]? with
    | some c0, some c1 =>
      if c0 > 0 then
        let nxt := if side step node then c1 else c0
        if nxt < 0 then none else route ch0 ch1 side fuel (step + 1) nxt.toNat
      else some (node, -c0, -c1)
    | _, _ => none

/-- Python/numpy slice index normalisation for a length-`n` array. -/
def pyNorm (n : Nat) (i : Int) : Nat :=
  if i < 0 then (i + n).toNat else min i.toNat n

/-- `a[start:stop]` with numpy semantics (negative = from the end, clamped). -/
def pySlice (a : Array Int) (start stop : Int) : List Int :=
  let s := pyNorm a.size start
  let e := pyNorm a.size stop
  (a.toList.drop s).take (e - s)

/-- `search_flat_tree`'s return value `indices[-children[node, 0] : -children[node, 1]]`. -/
def routeLeaf (F : Flat) (side : Nat → Nat → Bool) (fuel : Nat) : Option (List Int) :=
  (route F.ch0 F.ch1 side fuel 0 0).map (fun r => pySlice F.indices r.2.1 r.2.2)

/-- start/end offsets of consecutive blocks of the given lengths -/
def ranges : List (List Int) → Nat → List (Nat × Nat)
  | [], _ => []
  | l :: ls, s => (s, s + l.length) :: ranges ls (s + l.length)

/-- the leaf rows of a flat `children` array (`children[node, 0] <= 0`), in node order, negated -/
def leafRows (ch0 ch1 : Array Int) : List (Int × Int) :=
  ((ch0.toList.zip ch1.toList).filter (fun p => p.1 ≤ 0)).map (fun p => (-p.1, -p.2))

end Pynn.RP
