import PynnVerif.Model.Rng
/-!
# `utils.rejection_sample` and the seed sampling of `graph_utils.find_component_connection_edge`

```
result = np.empty(n_samples, dtype=np.int64)
for i in range(n_samples):
    reject_sample = True
    j = 0
    while reject_sample:
        j = tau_rand_int(rng_state) % pool_size
        for k in range(i):
            if j == result[k]: break
        else:
            reject_sample = False
    result[i] = j
return result
```

The model is generic in the generator (`next : σ → Int × σ`, a draw and the next
state), so that the theorems of `Proofs/Connect.lean` speak about the very
function the driver runs over the exact Tausworthe generator (`σ = RngState`,
`next = tauRandInt`) and about abstract streams (`σ = Nat` = position,
`next p = (draw p, p + 1)`).  The `while` loop has no bound in the code; the
model takes `fuel` = the total number of draws it may still make and returns
`none` when a draw is needed and none is left (= "the real loop is still
running after that many draws").  (Mathlib-free; executable.)
-/
namespace Pynn.Connect

/-- `i % pool_size` as numba computes it for an `int32` draw and a positive `int64`
pool size: Python's `%`, the result has the sign of the divisor (`Int.emod`, which is
what `%` on `Int` denotes, agrees with it for a positive divisor).  `pool_size = 0`
raises `ZeroDivisionError` in the kernel and is outside the model (theorems state
`0 < pool`). -/
def residue (i : Int) (pool : Nat) : Nat := (i % (pool : Int)).toNat

variable {σ : Type}

/-- The `while reject_sample` loop for one slot: `prev` = `result[:i]`; the inner
`for k in range(i) … else` accepts `j` iff `j` differs from every earlier slot.
Returns the accepted value, the generator state and the fuel left. -/
def drawSlot (next : σ → Int × σ) (pool : Nat) (prev : List Nat) : Nat → σ → Option (Nat × σ × Nat)
  | 0, _ => none
  | fuel + 1, s =>
    let j := residue (next s).1 pool
    if j ∈ prev then drawSlot next pool prev fuel (next s).2 else some (j, (next s).2, fuel)

/-- The outer `for i in range(n_samples)` with `slots` iterations still to do. -/
def rejLoop (next : σ → Int × σ) (pool : Nat) : Nat → List Nat → Nat → σ → Option (List Nat × σ × Nat)
  | 0, prev, fuel, s => some (prev, s, fuel)
  | slots + 1, prev, fuel, s =>
    match drawSlot next pool prev fuel s with
    | none => none
    | some (j, s', fuel') => rejLoop next pool slots (prev ++ [j]) fuel' s'

/-- `rejection_sample(n_samples, pool_size, rng_state)` over any generator: the samples
in slot order and the generator state afterwards; `none` = more than `fuel` draws needed. -/
def rejectionSampleG (next : σ → Int × σ) (nSamples pool fuel : Nat) (s : σ) : Option (List Nat × σ) :=
  (rejLoop next pool nSamples [] fuel s).map (fun r => (r.1, r.2.1))

/-- The generator that reads an abstract stream of draws; the state is the position. -/
def streamNext (draw : Nat → Nat) (p : Nat) : Int × Nat := ((draw p : Int), p + 1)

/-- `rejection_sample` over an abstract stream of draws, read from position 0. -/
def rejectionSample (draw : Nat → Nat) (nSamples pool fuel : Nat) : Option (List Nat) :=
  (rejectionSampleG (streamNext draw) nSamples pool fuel 0).map (·.1)

/-- `rejection_sample` over the exact generator of `utils.py` (what the driver runs). -/
def rejectionSampleRng (nSamples pool fuel : Nat) (s : RngState) : Option (List Nat × RngState) :=
  rejectionSampleG tauRandInt nSamples pool fuel s

/-- The sample size `find_component_connection_edge` asks for since the repair of D11:
`np.int64(min(search_size, component.shape[0]))`. -/
def clampedSamples (searchSize componentSize : Nat) : Nat := min searchSize componentSize

/-!
## The alternating loop of `find_component_connection_edge`, exact-nearest-neighbour abstraction

```
changed = [True, True]
while changed[0] or changed[1]:
    inds, dists, _ = search_closure(query_points, candidate_indices, ...)   # per query point: neighbours in the OTHER component
    ...best edge bookkeeping (does not influence the loop)...
    new_indices = np.unique(inds[:, 0])                                      # the nearest one of each query point
    if indices[1 - query_side].shape[0] == new_indices.shape[0]:
        changed[1 - query_side] = np.any(indices[1 - query_side] != new_indices)
    indices[1 - query_side] = new_indices
    query_side = 1 - query_side
```

Abstraction: the restricted search returns, for a query point of one component, its
exact nearest point in the other one (`nn side x`; `side = false`: the query is in
component 0).  `np.unique` = sorted, duplicate-free (`uniq`).
-/

/-- insertion into a strictly ascending list (no duplicates kept) -/
def insertU (x : Nat) : List Nat → List Nat
  | [] => [x]
  | y :: ys => if x < y then x :: y :: ys else if x = y then y :: ys else y :: insertU x ys

/-- `np.unique` -/
def uniq (l : List Nat) : List Nat := l.foldr insertU []

structure AltState where
  idx0 : List Nat
  idx1 : List Nat
  side : Bool        -- `query_side` (false = 0)
  ch0 : Bool
  ch1 : Bool
deriving DecidableEq, Repr

/-- one iteration of the `while` body (the part that determines the loop) -/
def altStep (nn : Bool → Nat → Nat) (st : AltState) : AltState :=
  if st.side = false then
    let new := uniq (st.idx0.map (nn false))
    { st with idx1 := new, side := true,
              ch1 := if st.idx1.length = new.length then decide (st.idx1 ≠ new) else st.ch1 }
  else
    let new := uniq (st.idx1.map (nn true))
    { st with idx0 := new, side := false,
              ch0 := if st.idx0.length = new.length then decide (st.idx0 ≠ new) else st.ch0 }

/-- the `while changed[0] or changed[1]` loop with a bound on the number of iterations;
`none` = still running -/
def altLoop (nn : Bool → Nat → Nat) : Nat → AltState → Option AltState
  | 0, st => if st.ch0 || st.ch1 then none else some st
  | fuel + 1, st => if st.ch0 || st.ch1 then altLoop nn fuel (altStep nn st) else some st

/-!
## The loop as repaired: cycle guard, any deterministic search

```
seen_states = set()
while changed[0] or changed[1]:
    state = (query_side, indices[0].tobytes(), indices[1].tobytes(), bool(changed[0]), bool(changed[1]))
    if state in seen_states:
        break
    seen_states.add(state)
    inds, dists, _ = search_closure(query_points, candidate_indices, ...)     # query_points = raw_data[indices[query_side]],
    ...                                                                        # candidate_indices = indices[1 - query_side]
```

`srch side q c` = the column `inds[:, 0]` the (deterministic, approximate, tie-breaking) restricted search
returns for the query points `q` seeded with the candidates `c`; nothing is assumed about it.
`tobytes()` distinguishes the two initial sample arrays (`int64`, from `component[rejection_sample(..)]`)
from every later array (`int32`, `np.unique` of result-heap indices): the loop key carries one tag per side
(`true` = still the initial sample).
-/

/-- one iteration of the `while` body with a general search -/
def altStepG (srch : Bool → List Nat → List Nat → List Nat) (st : AltState) : AltState :=
  if st.side = false then
    let new := uniq (srch false st.idx0 st.idx1)
    { st with idx1 := new, side := true,
              ch1 := if st.idx1.length = new.length then decide (st.idx1 ≠ new) else st.ch1 }
  else
    let new := uniq (srch true st.idx1 st.idx0)
    { st with idx0 := new, side := false,
              ch0 := if st.idx0.length = new.length then decide (st.idx0 ≠ new) else st.ch0 }

/-- a `while cont(st): st = step(st)` loop; `none` = still running after `fuel` iterations -/
def plainLoop {S : Type} (step : S → S) (cont : S → Bool) : Nat → S → Option S
  | 0, st => if cont st then none else some st
  | fuel + 1, st => if cont st then plainLoop step cont fuel (step st) else some st

/-- the same loop with the guard `if st in seen: break; seen.add(st)` at the top of the body.
Result: the state at exit, whether the guard fired, and the number of iterations performed. -/
def seenLoop {S : Type} [DecidableEq S] (step : S → S) (cont : S → Bool) : Nat → List S → S → Option (S × Bool × Nat)
  | 0, seen, st =>
    if cont st = false then some (st, false, seen.length)
    else if st ∈ seen then some (st, true, seen.length) else none
  | fuel + 1, seen, st =>
    if cont st = false then some (st, false, seen.length)
    else if st ∈ seen then some (st, true, seen.length)
    else seenLoop step cont fuel (st :: seen) (step st)

/-- loop key = what the tuple `state` of the code distinguishes -/
abbrev AltKey := AltState × Bool × Bool

def altKeyStep (srch : Bool → List Nat → List Nat → List Nat) (k : AltKey) : AltKey :=
  (altStepG srch k.1, if k.1.side = false then (k.2.1, false) else (false, k.2.2))

def altKeyCont (k : AltKey) : Bool := k.1.ch0 || k.1.ch1

/-- `find_component_connection_edge`'s loop from the freshly sampled seeds -/
def altLoopSeen (srch : Bool → List Nat → List Nat → List Nat) (fuel : Nat) (idx0 idx1 : List Nat) :
    Option (AltKey × Bool × Nat) :=
  seenLoop (altKeyStep srch) altKeyCont fuel [] (⟨idx0, idx1, false, true, true⟩, true, true)

/-!
### best-edge bookkeeping

```
for i in range(dists.shape[0]):
    for j in range(dists.shape[1]):
        if dists[i, j] < best_dist:
            best_dist = dists[i, j]
            best_edge = (indices[query_side][i], inds[i, j])
```
-/
structure Best (P : Type) where
  dist : P
  a : Int
  b : Int
deriving Repr

def bestRow {P : Type} [LT P] [DecidableLT P] (q : Int) : List (Int × P) → Best P → Best P
  | [], b => b
  | (v, d) :: rest, b => bestRow q rest (if d < b.dist then ⟨d, q, v⟩ else b)

/-- one round: `rows` = for every query point (in order) its id and its sorted result row -/
def bestRound {P : Type} [LT P] [DecidableLT P] : List (Int × List (Int × P)) → Best P → Best P
  | [], b => b
  | (q, row) :: rest, b => bestRound rest (bestRow q row b)

end Pynn.Connect
