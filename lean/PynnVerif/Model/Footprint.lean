/-!
# Memory footprints of `numba.prange` iterations (C05)

The data type of what `harness/translate_prange.py` extracts from the source,
and the decidable non-interference check.
-/
namespace Pynn.FP

/-- Ownership class of the location an effect touches (see translate_prange.py). -/
inductive Own
  | loopVar | guardedMod | csrSeg | privateAlloc | intReduction
  | floatReduction | shared | unknown
deriving DecidableEq, Repr

inductive Kind | write | read | reduce
deriving DecidableEq, Repr

structure Effect where
  kind   : Kind
  target : String
  own    : Own
deriving Repr

structure Loop where
  name    : String
  scope   : String          -- "index": reachable from build / prepare / query / update;  "metric": metric internals
  effects : List Effect
deriving Repr

/-- The location is written / read by the iteration that owns it, or the effect is an
exact commutative reduction. -/
def Own.owned : Own → Bool
  | .loopVar | .guardedMod | .csrSeg | .privateAlloc | .intReduction => true
  | _ => false

def Loop.nonInterfering (l : Loop) : Bool := l.effects.all (fun e => e.own.owned)

end Pynn.FP
