/-!
# `PyNNDescentTransformer.transform`: assembling the CSR matrix (C18)

`transform` builds a COO matrix from the `(indices, distances)` arrays the index
returned — one triple per slot whose index is `≥ 0` (the `found` mask) — and calls
`tocsr()`, which orders entries by (row, column) and **sums** entries with equal
coordinates.  Mathlib-free; executable.
-/
namespace Pynn.Xf

/-- COO triples `(row, col, value)` of `transform` after the `found = indices >= 0` mask -/
def coo {D : Type} (inds : List (List Int)) (dists : List (List D)) : List (Nat × Nat × D) :=
  ((inds.zip dists).zipIdx).flatMap (fun rowi =>
    (rowi.1.1.zip rowi.1.2).filterMap (fun cd =>
      if 0 ≤ cd.1 then some (rowi.2, cd.1.toNat, cd.2) else none))

def keyLt (a b : Nat × Nat) : Bool := a.1 < b.1 || (a.1 == b.1 && a.2 < b.2)

/-- insert one triple into a list sorted by (row, col), summing on equal coordinates -/
def insertSum {D : Type} [Add D] (e : Nat × Nat × D) : List (Nat × Nat × D) → List (Nat × Nat × D)
  | [] => [e]
  | h :: t =>
    if (e.1, e.2.1) == (h.1, h.2.1) then (h.1, h.2.1, h.2.2 + e.2.2) :: t
    else if keyLt (e.1, e.2.1) (h.1, h.2.1) then e :: h :: t
    else h :: insertSum e t

/-- scipy's `coo_matrix.tocsr()` on the triple list: canonical order, duplicates summed -/
def tocsr {D : Type} [Add D] (es : List (Nat × Nat × D)) : List (Nat × Nat × D) :=
  es.foldl (fun acc e => insertSum e acc) []

/-- the whole of `transform` after the query -/
def transform {D : Type} [Add D] (inds : List (List Int)) (dists : List (List D)) : List (Nat × Nat × D) :=
  tocsr (coo inds dists)

end Pynn.Xf
