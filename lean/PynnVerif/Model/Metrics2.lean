import PynnVerif.Model.Metrics
/-!
# The remaining dense kernels of `pynndescent/distances.py`, and the guarded (`Option`) kernels

Part 1 continues `Model/Metrics.lean` (same conventions: a vector is a `List α`, one fold per
independent accumulator, `v ** 2` is `v * v`, integer accumulators are counted in `Nat` and converted
with `ofNat`; float rounding and `fastmath` re-association are not modelled): `standardised_euclidean`,
`weighted_minkowski`, `mahalanobis`, `haversine`, `tsss`, `jensen_shannon_divergence`,
`symmetric_kl_divergence`, `wasserstein_1d`, `rankdata` (method `"average"`) / `spearmanr`,
`bit_hamming`, `bit_jaccard`.  `haversine` and `tsss` need `sin`, `cos`, `arcsin`, which `Arith` does
not have: they come through the separate class `Trig`.

Part 2 is the *guardedness under rounding* formulation of DESIGN C07: the class `RArith` assumes of
the carrier only sign / order facts that `ℝ` and IEEE arithmetic on finite non-NaN values share (and
that survive `fastmath` re-association and reciprocal-multiplication); the partial operations return
`Option` (`safeSqrt`, `safeDiv`, `safeLog`, `safeArccos`, `safeArcsin`), and the kernels that contain
a partial operation behind a guard or a clamp are rewritten over them (`…G`).  `Props/C07b.lean`
proves `kernelG x y ≠ none` on the domain for every `RArith` carrier.

Literals: `0.5` is `1 / ofNat 2`, `FLOAT32_EPS = 2⁻²³` is `1 / ofNat 8388608` (both quotients are exact
in binary floating point), `np.radians(10)` is `10 * (π / 180)` (numba's `x * (pi / 180)`).
-/
namespace Pynn.Metrics
open Arith

/-- the trigonometric operations of `haversine` / `tsss` -/
class Trig (α : Type) where
  /-- `np.sin` -/
  sin : α → α
  /-- `np.cos` -/
  cos : α → α
  /-- `np.arcsin` -/
  arcsin : α → α

open Trig

section Kernels2
variable {α : Type} [Arith α]

/-- `0.5` -/
def half : α := 1 / ofNat 2

/-- `FLOAT32_EPS = np.finfo(np.float32).eps = 2⁻²³` -/
def f32eps : α := 1 / ofNat 8388608

/-- `acc = 0.0; for i in range(dim): acc += f(x[i], y[i], s[i])` -/
def sumBy3 (f : α → α → α → α) (x y s : List α) : α :=
  ((x.zip y).zip s).foldl (fun r p => r + f p.1.1 p.1.2 p.2) 0

/-! ## standardised / weighted Minkowski family -/

/-- `standardised_euclidean(x, y, sigma)`: `result += ((x[i] - y[i]) ** 2) / sigma[i]`; `sqrt` -/
def standardisedEuclidean (x y sigma : List α) : α :=
  sqrt (sumBy3 (fun a b s => ((a - b) * (a - b)) / s) x y sigma)

/-- `weighted_minkowski(x, y, w, p)`: `result += w[i] * np.abs(x[i] - y[i]) ** p` (`**` binds tighter
than `*`); `result ** (1.0 / p)` -/
def weightedMinkowski (x y w : List α) (p : α) : α :=
  pow (sumBy3 (fun a b wi => wi * pow (abs (a - b)) p) x y w) (1 / p)

/-- `diff[i] = x[i] - y[i]` -/
def vecDiff (x y : List α) : List α := List.zipWith (fun a b => a - b) x y

/-- the double loop of `mahalanobis`:
`for i: tmp = 0.0; for j: tmp += vinv[i, j] * diff[j]; result += tmp * diff[i]`
(`vinv` as the list of its rows) -/
def quadForm (vinv : List (List α)) (diff : List α) : α :=
  (vinv.zip diff).foldl (fun r p => r + dotProd p.1 diff * p.2) 0

/-- `mahalanobis(x, y, vinv)` -/
def mahalanobis (x y : List α) (vinv : List (List α)) : α := sqrt (quadForm vinv (vecDiff x y))

/-! ## haversine -/

/-- the argument of the `np.sqrt` of `haversine`:
`sin_lat**2 + np.cos(x[0]) * np.cos(y[0]) * sin_long**2` -/
def haversineRadicand [Trig α] (x0 x1 y0 y1 : α) : α :=
  let sin_lat := sin (half * (x0 - y0))
  let sin_long := sin (half * (x1 - y1))
  sin_lat * sin_lat + cos x0 * cos y0 * (sin_long * sin_long)

/-- the body of `haversine` once `x = (x0, x1)`, `y = (y0, y1)` (latitude, longitude), with the
clamp `min(result, 1.0)` the repository now has -/
def haversineCore [Trig α] (x0 x1 y0 y1 : α) : α :=
  let result := sqrt (haversineRadicand x0 x1 y0 y1)
  ofNat 2 * arcsin (min result 1)

/-- `haversine(x, y)`: `none` is the `ValueError` for `x.shape[0] != 2` (the code does not look at
`y.shape`; a `y` of another length is outside the model: `none` as well) -/
def haversine [Trig α] (x y : List α) : Option α :=
  match x, y with
  | [x0, x1], [y0, y1] => some (haversineCore x0 x1 y0 y1)
  | _, _ => none

/-! ## tsss -/

/-- `np.radians(10)` -/
def radians10 : α := ofNat 10 * (pi / ofNat 180)

/-- `d_cos = min(max(d_cos, -1.0), 1.0)` -/
def clampCos (c : α) : α := min (max c (-1)) 1

/-- `tsss(x, y)` (no guard against zero vectors in the code: `d_cos /= norm_x * norm_y` raises
`ZeroDivisionError` there — recorded finding D7g; the cosine is clamped to `[-1, 1]`) -/
def tsss [Trig α] (x y : List α) : α :=
  let d_euc_squared := sumBy sqDiff x y
  let d_cos := dotProd x y
  let norm_x := sqrt (normSq x)
  let norm_y := sqrt (normSq y)
  let magnitude_difference := abs (norm_x - norm_y)
  let d_cos := d_cos / (norm_x * norm_y)
  let d_cos := clampCos d_cos
  let theta := arccos d_cos + radians10
  let sector := ((sqrt d_euc_squared + magnitude_difference) *
    (sqrt d_euc_squared + magnitude_difference)) * theta
  let triangle := norm_x * norm_y * sin theta / ofNat 2
  triangle * sector

/-! ## smoothed divergences -/

/-- `l1_norm_x += FLOAT32_EPS * dim; pdf_x = (x + FLOAT32_EPS) / l1_norm_x` (`dim = x.shape[0]` for
both arguments) -/
def smoothedPdf (x : List α) (dim : Nat) : List α :=
  let l1_norm_x := l1 x + f32eps * ofNat dim
  x.map (fun v => (v + f32eps) / l1_norm_x)

/-- one term of `jensen_shannon_divergence`: `m[i] = 0.5 * (pdf_x[i] + pdf_y[i])`,
`0.5 * (pdf_x[i] * np.log(pdf_x[i] / m[i]) + pdf_y[i] * np.log(pdf_y[i] / m[i]))` -/
def jsTerm (px py : α) : α :=
  let m := half * (px + py)
  half * (px * log (px / m) + py * log (py / m))

/-- `jensen_shannon_divergence(x, y)` -/
def jensenShannon (x y : List α) : α :=
  sumBy jsTerm (smoothedPdf x x.length) (smoothedPdf y x.length)

/-- one term of `symmetric_kl_divergence`:
`pdf_x[i] * np.log(pdf_x[i] / pdf_y[i]) + pdf_y[i] * np.log(pdf_y[i] / pdf_x[i])` -/
def sklTerm (px py : α) : α := px * log (px / py) + py * log (py / px)

/-- `symmetric_kl_divergence(x, y)` -/
def symmetricKL (x y : List α) : α :=
  sumBy sklTerm (smoothedPdf x x.length) (smoothedPdf y x.length)

/-! ## wasserstein_1d -/

/-- `for i in range(1, n): cdf[i] += cdf[i - 1]` from position 1 on, `prev = cdf[i - 1]` -/
def cumsumGo (prev : α) : List α → List α
  | [] => []
  | b :: t => (b + prev) :: cumsumGo (b + prev) t

/-- the in-place running sum of `wasserstein_1d` -/
def cumsum : List α → List α
  | [] => []
  | a :: t => a :: cumsumGo a t

/-- `wasserstein_1d(x, y, p)`: `x_cdf = x / x_sum`, running sums, `minkowski(x_cdf, y_cdf, p)` -/
def wasserstein1d (x y : List α) (p : α) : α :=
  let x_sum := l1 x
  let y_sum := l1 y
  minkowski (cumsum (x.map (fun v => v / x_sum))) (cumsum (y.map (fun v => v / y_sum))) p

/-! ## spearmanr -/

/-- the RESULT of `rankdata(a)` (method `"average"`) on NaN-free input, not its steps (argsort,
`obs`, `cumsum`, `count`): `count[dense]` is the number of entries `≤ a[i]`, `count[dense - 1]` the
number of entries `< a[i]`, and the rank is `0.5 * (count[dense] + count[dense - 1] + 1)`.  (The
unstable `quicksort` argsort permutes tied entries only, which changes neither count.) -/
def rankAverage (a : List α) : List α :=
  a.map (fun v => half *
    ofNat (a.countP (fun u => decide (u ≤ v)) + a.countP (fun u => decide (u < v)) + 1))

/-- `spearmanr(x, y) = correlation(rankdata(x), rankdata(y))` -/
def spearmanr (x y : List α) : α := correlation (rankAverage x) (rankAverage y)

/-! ## bit kernels (a byte is a `Nat < 256`) -/

/-- `bin(b).count('1')` over `f` binary digits -/
def popcntFuel : Nat → Nat → Nat
  | 0, _ => 0
  | f + 1, b => b % 2 + popcntFuel f (b / 2)

/-- the table `popcnt[b]`, `b < 256` -/
def popcnt (b : Nat) : Nat := popcntFuel 8 b

/-- `result += popcnt[x[i] ^ y[i]]` -/
def bitXorCount (x y : List Nat) : Nat := (x.zip y).foldl (fun r p => r + popcnt (p.1 ^^^ p.2)) 0
/-- `result += popcnt[x[i] & y[i]]` -/
def bitAndCount (x y : List Nat) : Nat := (x.zip y).foldl (fun r p => r + popcnt (p.1 &&& p.2)) 0
/-- `denom += popcnt[x[i] | y[i]]` -/
def bitOrCount (x y : List Nat) : Nat := (x.zip y).foldl (fun r p => r + popcnt (p.1 ||| p.2)) 0

/-- `bit_hamming(x, y)` (the float32 accumulator adds small integers: exact below 2²⁴) -/
def bitHamming (x y : List Nat) : α := ofNat (bitXorCount x y)

/-- `bit_jaccard`: `0.0` for `denom == 0.0` (both empty — the branch the repository now has),
otherwise `-np.log(result / denom)` (`+inf` in IEEE arithmetic for disjoint non-empty sets) -/
def bitJaccardOfCounts (result denom : α) : α :=
  if denom == 0 then 0 else -(log (result / denom))
def bitJaccard (x y : List Nat) : α :=
  bitJaccardOfCounts (ofNat (bitAndCount x y)) (ofNat (bitOrCount x y))

end Kernels2

/-! ## the `Float` instance of `Trig` (driver) -/

instance : Trig Float where
  sin := Float.sin
  cos := Float.cos
  arcsin := Float.asin

/-! # Part 2 — guardedness under rounding -/

/-- What the guardedness theorems assume of the arithmetic: sign and order facts only, each true in
`ℝ` AND of IEEE-754 arithmetic on finite non-NaN values whatever the rounding mode, and stable under
`fastmath` (re-association of sums, `a / b` computed as `a * (1 / b)`).  Deliberately absent:
`a ≤ b → a / b ≤ 1`, `a - a = 0`, `(a / b) * b = a`, `sqrt (a * a) = a`, Cauchy–Schwarz — everything
that needs exactness.  Overflow to `±inf` (then `inf - inf`) is outside the scope: the carrier is to
be read as the finite values. -/
class RArith (α : Type) extends Arith α, Trig α where
  le_refl : ∀ a : α, a ≤ a
  le_trans : ∀ {a b c : α}, a ≤ b → b ≤ c → a ≤ c
  /-- comparisons are total on the carrier (no NaN) -/
  lt_of_not_le : ∀ {a b : α}, ¬ a ≤ b → b < a
  le_of_lt : ∀ {a b : α}, a < b → a ≤ b
  /-- `d > 0` excludes `d == 0` -/
  pos_ne_zero : ∀ {a : α}, 0 < a → (a == 0) = false
  /-- `a ≥ 0` and not `a == 0` is `a > 0` -/
  pos_of_nonneg_of_ne : ∀ {a : α}, 0 ≤ a → (a == 0) = false → 0 < a
  zero_le_one : (0 : α) ≤ 1
  neg_one_le_zero : (-1 : α) ≤ 0
  pi_pos : (0 : α) < Arith.pi
  /-- a positive integer literal / dimension is a positive value -/
  ofNat_pos : ∀ {n : Nat}, 0 < n → (0 : α) < Arith.ofNat n
  add_nonneg : ∀ {a b : α}, 0 ≤ a → 0 ≤ b → 0 ≤ a + b
  mul_nonneg : ∀ {a b : α}, 0 ≤ a → 0 ≤ b → 0 ≤ a * b
  mul_self_nonneg : ∀ a : α, 0 ≤ a * a
  /-- the divisor is POSITIVE: in IEEE arithmetic `0/0` is NaN and `a / -0.0` is `-inf` -/
  div_nonneg : ∀ {a b : α}, 0 ≤ a → 0 < b → 0 ≤ a / b
  abs_nonneg : ∀ a : α, 0 ≤ Arith.abs a
  sqrt_nonneg : ∀ {a : α}, 0 ≤ a → 0 ≤ Arith.sqrt a
  /-- a correctly rounded `sqrt` of a positive value is positive (it cannot underflow) -/
  sqrt_pos : ∀ {a : α}, 0 < a → 0 < Arith.sqrt a
  le_max_left : ∀ a b : α, a ≤ Arith.max a b
  le_max_right : ∀ a b : α, b ≤ Arith.max a b
  min_le_left : ∀ a b : α, Arith.min a b ≤ a
  min_le_right : ∀ a b : α, Arith.min a b ≤ b
  le_min : ∀ {a b c : α}, c ≤ a → c ≤ b → c ≤ Arith.min a b

/-- the two facts that hold in IEEE arithmetic only when the result does not UNDERFLOW to zero
(`1e-30f * 1e-30f = 0`): needed exactly where the code guards the *factors* (`norm_x == 0`,
`l1_norm_x == 0`) and then divides by `sqrt` of their *product*. -/
class RArithNU (α : Type) extends RArith α where
  mul_pos : ∀ {a b : α}, 0 < a → 0 < b → 0 < a * b
  div_pos : ∀ {a b : α}, 0 < a → 0 < b → 0 < a / b

section Guarded
variable {α : Type} [RArith α]

/-- `np.sqrt`, defined for `a ≥ 0` -/
def safeSqrt (a : α) : Option α := if 0 ≤ a then some (sqrt a) else none
/-- `a / b`, defined for `b != 0` (numba's `error_model='python'` raises `ZeroDivisionError`) -/
def safeDiv (a b : α) : Option α := if b == 0 then none else some (a / b)
/-- `np.log`, defined for `a > 0` -/
def safeLog (a : α) : Option α := if 0 < a then some (log a) else none
/-- `np.arccos`, defined on `[-1, 1]` -/
def safeArccos (a : α) : Option α := if -1 ≤ a ∧ a ≤ 1 then some (arccos a) else none
/-- `np.arcsin`, defined on `[-1, 1]` -/
def safeArcsin (a : α) : Option α := if -1 ≤ a ∧ a ≤ 1 then some (arcsin a) else none

/-- `acc = 0.0; for i: acc += f(x[i], y[i])` where `f` contains a partial operation -/
def sumByG (f : α → α → Option α) (x y : List α) : Option α :=
  (x.zip y).foldlM (fun r p => (f p.1 p.2).map (fun t => r + t)) 0

/-- `hellinger` with the clamp `max(1 - r/s, 0.0)` -/
def hellingerG (x y : List α) : Option α := do
  let result ← sumByG (fun a b => safeSqrt (a * b)) x y
  let l1_norm_x := l1 x
  let l1_norm_y := l1 y
  if l1_norm_x == 0 && l1_norm_y == 0 then some 0
  else if l1_norm_x == 0 || l1_norm_y == 0 then some 1
  else do
    let s ← safeSqrt (l1_norm_x * l1_norm_y)
    let q ← safeDiv result s
    safeSqrt (max (1 - q) 0)

/-- the PRE-repair shape of `hellinger`: `np.sqrt(1 - result / np.sqrt(l1_norm_x * l1_norm_y))` -/
def hellingerUnclampedG (x y : List α) : Option α := do
  let result ← sumByG (fun a b => safeSqrt (a * b)) x y
  let l1_norm_x := l1 x
  let l1_norm_y := l1 y
  if l1_norm_x == 0 && l1_norm_y == 0 then some 0
  else if l1_norm_x == 0 || l1_norm_y == 0 then some 1
  else do
    let s ← safeSqrt (l1_norm_x * l1_norm_y)
    let q ← safeDiv result s
    safeSqrt (1 - q)

/-- `correct_alternative_hellinger(d) = sqrt(max(1.0 - pow(2.0, -d), 0.0))` -/
def correctAlternativeHellingerG (d : α) : Option α := safeSqrt (max (1 - pow (ofNat 2) (-d)) 0)

/-- `cosine` -/
def cosineG (x y : List α) : Option α :=
  let result := dotProd x y
  let norm_x := normSq x
  let norm_y := normSq y
  if norm_x == 0 && norm_y == 0 then some 0
  else if norm_x == 0 || norm_y == 0 then some 1
  else do
    let s ← safeSqrt (norm_x * norm_y)
    let q ← safeDiv result s
    some (1 - q)

/-- `true_angular` with the clamp `min(c, 1.0)` -/
def trueAngularG (x y : List α) : Option α :=
  let result := dotProd x y
  let norm_x := normSq x
  let norm_y := normSq y
  if norm_x == 0 && norm_y == 0 then some 0
  else if norm_x == 0 || norm_y == 0 then some f32max
  else if result ≤ 0 then some f32max
  else do
    let s ← safeSqrt (norm_x * norm_y)
    let q ← safeDiv result s
    let t ← safeArccos (min q 1)
    let r ← safeDiv t pi
    some (1 - r)

/-- `correlation`: the division is behind `dot_product == 0.0`, not behind a test of the norms -/
def correlationG (x y : List α) : Option α := do
  let n := ofNat x.length
  let mu_x ← safeDiv (l1 x) n
  let mu_y ← safeDiv (l1 y) n
  let norm_x := sum1 (fun v => (v - mu_x) * (v - mu_x)) x
  let norm_y := sum1 (fun v => (v - mu_y) * (v - mu_y)) y
  let dot_product := sumBy (fun a b => (a - mu_x) * (b - mu_y)) x y
  if norm_x == 0 && norm_y == 0 then some 0
  else if dot_product == 0 then some 1
  else do
    let s ← safeSqrt (norm_x * norm_y)
    let q ← safeDiv dot_product s
    some (1 - q)

/-- `tsss`: `arccos` behind `min(max(·, -1.0), 1.0)`; the division `d_cos /= norm_x * norm_y` has no
guard in the code -/
def tsssG (x y : List α) : Option α := do
  let d_euc_squared := sumBy sqDiff x y
  let d_cos := dotProd x y
  let norm_x ← safeSqrt (normSq x)
  let norm_y ← safeSqrt (normSq y)
  let magnitude_difference := abs (norm_x - norm_y)
  let d_cos ← safeDiv d_cos (norm_x * norm_y)
  let d_cos := clampCos d_cos
  let theta := (← safeArccos d_cos) + radians10
  let ed ← safeSqrt d_euc_squared
  let sector := ((ed + magnitude_difference) * (ed + magnitude_difference)) * theta
  let triangle ← safeDiv (norm_x * norm_y * sin theta) (ofNat 2)
  some (triangle * sector)

/-- `haversine` with the clamp `min(result, 1.0)` -/
def haversineG (x0 x1 y0 y1 : α) : Option α := do
  let result ← safeSqrt (haversineRadicand x0 x1 y0 y1)
  let a ← safeArcsin (min result 1)
  some (ofNat 2 * a)

/-- the PRE-repair shape of `haversine`: `2.0 * np.arcsin(result)` -/
def haversineUnclampedG (x0 x1 y0 y1 : α) : Option α := do
  let result ← safeSqrt (haversineRadicand x0 x1 y0 y1)
  let a ← safeArcsin result
  some (ofNat 2 * a)

/-- `canberra`: each division behind `denominator > 0` -/
def canberraG (x y : List α) : Option α :=
  (x.zip y).foldlM (fun r p =>
    let denominator := abs p.1 + abs p.2
    if 0 < denominator then (safeDiv (abs (p.1 - p.2)) denominator).map (fun t => r + t)
    else some r) 0

/-- `bray_curtis`: the division behind `denominator > 0.0` -/
def brayCurtisG (x y : List α) : Option α :=
  let numerator := sumBy (fun a b => abs (a - b)) x y
  let denominator := sumBy (fun a b => abs (a + b)) x y
  if 0 < denominator then safeDiv numerator denominator else some 0

/-- `bit_jaccard` over the two counts: the division behind `denom == 0.0`; the logarithm has no
guard (disjoint non-empty inputs evaluate `-log(0)`) -/
def bitJaccardOfCountsG (result denom : α) : Option α :=
  if denom == 0 then some 0 else do
    let q ← safeDiv result denom
    let l ← safeLog q
    some (-l)

/-- `bit_jaccard` up to the division (what the `denom == 0.0` branch protects) -/
def bitJaccardQuotientG (result denom : α) : Option α :=
  if denom == 0 then some 0 else safeDiv result denom

end Guarded

end Pynn.Metrics
