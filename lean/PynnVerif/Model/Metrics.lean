/-!
# The dense kernels of `pynndescent/distances.py`, written once over a generic carrier

Every kernel follows the loop and branch structure of the code (`/repo/pynndescent/distances.py`):
the zero-norm / empty-support branches, `<=` vs `<`, the `FLOAT32_MAX` saturation branches, the
clamps (`max(…, 0.0)` in `hellinger` / `correct_alternative_hellinger`, `min(…, 1.0)` in
`true_angular` / `true_angular_from_alt_cosine`).  The carrier `α` only has to provide the
operations of `Arith α`; the same term is

* proved about over `ℝ` (`Proofs/Metrics.lean`, `Props/C07.lean`, `Props/C09.lean`), and
* executed over `Float` by the driver (`Driver/Metrics.lean`) against the numba kernels.

Modelling conventions (Mathlib-free file):

* a vector is a `List α`; `for i in range(x.shape[0])` reading `x[i], y[i]` is a left fold over
  `x.zip y`, an accumulator that reads one vector only (`norm_x += x[i]*x[i]`) is a left fold over
  that vector.  The two vectors are assumed to have the same length (`dim = x.shape[0] = y.shape[0]`,
  numba does not bounds-check); theorems that need it state `x.length = y.length`;
* a loop that updates several *independent* accumulators is written as one fold per accumulator:
  each accumulator sees exactly the same sequence of operations as in the code;
* `v ** 2` with the integer exponent 2 is `v * v` (what numba emits);
* the Boolean accumulators of the binary family (`num_non_zero += x_true or y_true`, adding `1.0`
  or `0.0`) are counted in `Nat` and converted with `ofNat` (exact in float32 below 2²⁴), and the
  final formula is a function of the counts (`…OfCounts`);
* float rounding, `fastmath` re-association and the `uint16` loop counter of the typed kernels
  (`dim < 65536`, finding D13) are NOT modelled.
-/
namespace Pynn.Metrics

/-- The operations the kernels use.  `+ − × ÷`, negation, `<`, `≤`, `==` come through the standard
notation classes; the rest are named fields. -/
class Arith (α : Type) extends Zero α, One α, Add α, Sub α, Mul α, Div α, Neg α, LT α, LE α, BEq α where
  decLt : DecidableRel (α := α) (· < ·)
  decLe : DecidableRel (α := α) (· ≤ ·)
  /-- `np.abs` -/
  abs : α → α
  /-- Python's `max(a, b)` -/
  max : α → α → α
  /-- Python's `min(a, b)` -/
  min : α → α → α
  /-- an integer (loop count, dimension, literal such as `2.0`) as a value of the carrier -/
  ofNat : Nat → α
  /-- `np.sqrt` -/
  sqrt : α → α
  /-- `np.log2` -/
  log2 : α → α
  /-- `np.log` -/
  log : α → α
  /-- `pow(a, b)` / `a ** b` with a non-integer exponent -/
  pow : α → α → α
  /-- `np.arccos` -/
  arccos : α → α
  /-- `np.pi` -/
  pi : α
  /-- `FLOAT32_MAX = np.finfo(np.float32).max = (2 − 2⁻²³)·2¹²⁷` -/
  f32max : α

instance {α : Type} [Arith α] : DecidableRel (α := α) (· < ·) := Arith.decLt
instance {α : Type} [Arith α] : DecidableRel (α := α) (· ≤ ·) := Arith.decLe

open Arith

section Kernels
variable {α : Type} [Arith α]

/-! ## accumulation loops -/

/-- `acc = 0.0; for i in range(dim): acc += f(x[i], y[i])` -/
def sumBy (f : α → α → α) (x y : List α) : α := (x.zip y).foldl (fun r p => r + f p.1 p.2) 0

/-- `acc = 0.0; for i in range(dim): acc += f(x[i])` -/
def sum1 (f : α → α) (x : List α) : α := x.foldl (fun r v => r + f v) 0

/-- `(x[i] - y[i]) ** 2`, `diff * diff` -/
def sqDiff (a b : α) : α := (a - b) * (a - b)

/-- `result += x[i] * y[i]` -/
def dotProd (x y : List α) : α := sumBy (fun a b => a * b) x y

/-- `norm_x += x[i] * x[i]` (also `x[i] ** 2`) -/
def normSq (x : List α) : α := sum1 (fun v => v * v) x

/-- `l1_norm_x += x[i]` -/
def l1 (x : List α) : α := sum1 (fun v => v) x

/-! ## Minkowski family -/

/-- `squared_euclidean` -/
def squaredEuclidean (x y : List α) : α := sumBy sqDiff x y

/-- `euclidean` -/
def euclidean (x y : List α) : α := sqrt (sumBy sqDiff x y)

/-- `manhattan` -/
def manhattan (x y : List α) : α := sumBy (fun a b => abs (a - b)) x y

/-- `chebyshev`: `result = max(result, np.abs(x[i] - y[i]))` from `0.0` -/
def chebyshev (x y : List α) : α := (x.zip y).foldl (fun r p => max r (abs (p.1 - p.2))) 0

/-- `minkowski(x, y, p)`: `result += np.abs(x[i] - y[i]) ** p; return result ** (1.0 / p)` -/
def minkowski (x y : List α) (p : α) : α :=
  pow (sumBy (fun a b => pow (abs (a - b)) p) x y) (1 / p)

/-! ## angular family -/

/-- `cosine` -/
def cosine (x y : List α) : α :=
  let result := dotProd x y
  let norm_x := normSq x
  let norm_y := normSq y
  if norm_x == 0 && norm_y == 0 then 0
  else if norm_x == 0 || norm_y == 0 then 1
  else 1 - result / sqrt (norm_x * norm_y)

/-- `alternative_cosine` -/
def alternativeCosine (x y : List α) : α :=
  let result := dotProd x y
  let norm_x := normSq x
  let norm_y := normSq y
  if norm_x == 0 && norm_y == 0 then 0
  else if norm_x == 0 || norm_y == 0 then f32max
  else if result ≤ 0 then f32max
  else log2 (sqrt (norm_x * norm_y) / result)

/-- `correct_alternative_cosine(d) = 1.0 - pow(2.0, -d)` -/
def correctAlternativeCosine (d : α) : α := 1 - pow (ofNat 2) (-d)

/-- `dot` (unit-norm input assumed by the library) -/
def dot (x y : List α) : α :=
  let result := dotProd x y
  if result ≤ 0 then 1 else 1 - result

/-- `alternative_dot` -/
def alternativeDot (x y : List α) : α :=
  let result := dotProd x y
  if result ≤ 0 then f32max else -(log2 result)

/-- `true_angular` (similarity-like: identical non-zero inputs give `1`; the sentinel
`FLOAT32_MAX` for `⟨x,y⟩ ≤ 0` is what the code returns — recorded finding, modelled as is) -/
def trueAngular (x y : List α) : α :=
  let result := dotProd x y
  let norm_x := normSq x
  let norm_y := normSq y
  if norm_x == 0 && norm_y == 0 then 0
  else if norm_x == 0 || norm_y == 0 then f32max
  else if result ≤ 0 then f32max
  else
    let result := min (result / sqrt (norm_x * norm_y)) 1
    1 - arccos result / pi

/-- `true_angular_from_alt_cosine(d) = 1.0 - arccos(min(pow(2.0, -d), 1.0)) / pi` -/
def trueAngularFromAltCosine (d : α) : α := 1 - arccos (min (pow (ofNat 2) (-d)) 1) / pi

/-- `correlation` -/
def correlation (x y : List α) : α :=
  let n := ofNat x.length
  let mu_x := l1 x / n
  let mu_y := l1 y / n
  let norm_x := sum1 (fun v => (v - mu_x) * (v - mu_x)) x
  let norm_y := sum1 (fun v => (v - mu_y) * (v - mu_y)) y
  let dot_product := sumBy (fun a b => (a - mu_x) * (b - mu_y)) x y
  if norm_x == 0 && norm_y == 0 then 0
  else if dot_product == 0 then 1
  else 1 - dot_product / sqrt (norm_x * norm_y)

/-! ## Hellinger -/

/-- `result += np.sqrt(x[i] * y[i])` -/
def hellingerSum (x y : List α) : α := sumBy (fun a b => sqrt (a * b)) x y

/-- `hellinger` (with the clamp `max(1 - r/s, 0.0)` the repository now has) -/
def hellinger (x y : List α) : α :=
  let result := hellingerSum x y
  let l1_norm_x := l1 x
  let l1_norm_y := l1 y
  if l1_norm_x == 0 && l1_norm_y == 0 then 0
  else if l1_norm_x == 0 || l1_norm_y == 0 then 1
  else sqrt (max (1 - result / sqrt (l1_norm_x * l1_norm_y)) 0)

/-- `alternative_hellinger` -/
def alternativeHellinger (x y : List α) : α :=
  let result := hellingerSum x y
  let l1_norm_x := l1 x
  let l1_norm_y := l1 y
  if l1_norm_x == 0 && l1_norm_y == 0 then 0
  else if l1_norm_x == 0 || l1_norm_y == 0 then f32max
  else if result ≤ 0 then f32max
  else log2 (sqrt (l1_norm_x * l1_norm_y) / result)

/-- `correct_alternative_hellinger(d) = sqrt(max(1.0 - pow(2.0, -d), 0.0))` -/
def correctAlternativeHellinger (d : α) : α := sqrt (max (1 - pow (ofNat 2) (-d)) 0)

/-! ## the corrections of `pynndescent/sparse.py` (they differ from the dense ones by a dead band) -/

/-- `1e-7` as the kernels see it (`1.0 / 1e7` is the correctly rounded double nearest `10⁻⁷`) -/
def atol7 : α := 1 / ofNat 10000000

/-- `sparse.isclose(abs(d), 0.0, atol=1e-7)`: `np.abs(abs(d) - 0.0) <= atol + rtol * np.abs(0.0)`,
`rtol = 1e-5` -/
def iscloseZero (d : α) : Bool :=
  decide (abs (abs d - 0) ≤ atol7 + (1 / ofNat 100000) * abs (0 : α))

/-- `sparse_correct_alternative_cosine` -/
def sparseCorrectAlternativeCosine (d : α) : α :=
  if iscloseZero d || decide (d < 0) then 0 else 1 - pow (ofNat 2) (-d)

/-- `sparse_correct_alternative_hellinger` -/
def sparseCorrectAlternativeHellinger (d : α) : α :=
  if iscloseZero d || decide (d < 0) then 0 else sqrt (1 - pow (ofNat 2) (-d))

/-! ## coordinate-wise ratios -/

/-- `canberra` -/
def canberra (x y : List α) : α :=
  (x.zip y).foldl (fun r p =>
    let denominator := abs p.1 + abs p.2
    if 0 < denominator then r + abs (p.1 - p.2) / denominator else r) 0

/-- `bray_curtis` -/
def brayCurtis (x y : List α) : α :=
  let numerator := sumBy (fun a b => abs (a - b)) x y
  let denominator := sumBy (fun a b => abs (a + b)) x y
  if 0 < denominator then numerator / denominator else 0

/-! ## counting kernels -/

/-- `x[i] != 0` -/
def isTrue (v : α) : Bool := !(v == 0)

/-- `result += 1.0` for every `i` with `x[i] != y[i]` -/
def numDiffer (x y : List α) : Nat := (x.zip y).countP (fun p => !(p.1 == p.2))
/-- `num_non_zero += x_true or y_true` -/
def numNonZero (x y : List α) : Nat := (x.zip y).countP (fun p => isTrue p.1 || isTrue p.2)
/-- `num_equal += x_true and y_true` (`num_true_true`) -/
def numTrueTrue (x y : List α) : Nat := (x.zip y).countP (fun p => isTrue p.1 && isTrue p.2)
/-- `num_not_equal += x_true != y_true` -/
def numNotEqual (x y : List α) : Nat := (x.zip y).countP (fun p => isTrue p.1 != isTrue p.2)
/-- `num_true_false += x_true and (not y_true)` -/
def numTrueFalse (x y : List α) : Nat := (x.zip y).countP (fun p => isTrue p.1 && !isTrue p.2)
/-- `num_false_true += (not x_true) and y_true` -/
def numFalseTrue (x y : List α) : Nat := (x.zip y).countP (fun p => !isTrue p.1 && isTrue p.2)

/-- `hamming`: `float(result) / x.shape[0]` -/
def hammingOfCounts (differ dim : α) : α := differ / dim
def hamming (x y : List α) : α := hammingOfCounts (ofNat (numDiffer x y)) (ofNat x.length)

/-- `jaccard` -/
def jaccardOfCounts (num_non_zero num_equal : α) : α :=
  if num_non_zero == 0 then 0 else (num_non_zero - num_equal) / num_non_zero
def jaccard (x y : List α) : α := jaccardOfCounts (ofNat (numNonZero x y)) (ofNat (numTrueTrue x y))

/-- `alternative_jaccard`: `0.0` for two empty supports, `FLOAT32_MAX` for disjoint non-empty
supports (`num_equal == 0.0`: the saturation branch the sparse twin always had, in the dense kernel
since repository commit d428a58 — before, it evaluated `-log2(0) = +inf`, which no heap push
accepts), otherwise `-np.log2(num_equal / num_non_zero)` -/
def alternativeJaccardOfCounts (num_non_zero num_equal : α) : α :=
  if num_non_zero == 0 then 0
  else if num_equal == 0 then f32max
  else -(log2 (num_equal / num_non_zero))
def alternativeJaccard (x y : List α) : α :=
  alternativeJaccardOfCounts (ofNat (numNonZero x y)) (ofNat (numTrueTrue x y))

/-- `correct_alternative_jaccard(v) = 1.0 - pow(2.0, -v)` -/
def correctAlternativeJaccard (v : α) : α := 1 - pow (ofNat 2) (-v)

/-- `matching`: `float(num_not_equal) / x.shape[0]` -/
def matchingOfCounts (num_not_equal dim : α) : α := num_not_equal / dim
def matching (x y : List α) : α := matchingOfCounts (ofNat (numNotEqual x y)) (ofNat x.length)

/-- `dice` -/
def diceOfCounts (num_true_true num_not_equal : α) : α :=
  if num_not_equal == 0 then 0 else num_not_equal / (ofNat 2 * num_true_true + num_not_equal)
def dice (x y : List α) : α := diceOfCounts (ofNat (numTrueTrue x y)) (ofNat (numNotEqual x y))

/-- `kulsinski` -/
def kulsinskiOfCounts (num_true_true num_not_equal dim : α) : α :=
  if num_not_equal == 0 then 0 else (num_not_equal - num_true_true + dim) / (num_not_equal + dim)
def kulsinski (x y : List α) : α :=
  kulsinskiOfCounts (ofNat (numTrueTrue x y)) (ofNat (numNotEqual x y)) (ofNat x.length)

/-- `rogers_tanimoto` (and `sokal_michener`, the same body) -/
def rogersTanimotoOfCounts (num_not_equal dim : α) : α :=
  (ofNat 2 * num_not_equal) / (dim + num_not_equal)
def rogersTanimoto (x y : List α) : α :=
  rogersTanimotoOfCounts (ofNat (numNotEqual x y)) (ofNat x.length)

/-- `sokal_sneath` -/
def sokalSneathOfCounts (num_true_true num_not_equal : α) : α :=
  if num_not_equal == 0 then 0 else num_not_equal / ((1 / ofNat 2) * num_true_true + num_not_equal)
def sokalSneath (x y : List α) : α :=
  sokalSneathOfCounts (ofNat (numTrueTrue x y)) (ofNat (numNotEqual x y))

/-- `russellrao` (`np.sum(x != 0)`, `np.sum(y != 0)` are the support sizes) -/
def russellraoOfCounts (num_true_true nx ny dim : α) : α :=
  if num_true_true == nx && num_true_true == ny then 0 else (dim - num_true_true) / dim
def russellrao (x y : List α) : α :=
  russellraoOfCounts (ofNat (numTrueTrue x y)) (ofNat (x.countP isTrue)) (ofNat (y.countP isTrue))
    (ofNat x.length)

/-- `yule` -/
def yuleOfCounts (ntt ntf nft dim : α) : α :=
  let nff := dim - ntt - ntf - nft
  if ntf == 0 || nft == 0 then 0
  else (ofNat 2 * ntf * nft) / (ntt * nff + ntf * nft)
def yule (x y : List α) : α :=
  yuleOfCounts (ofNat (numTrueTrue x y)) (ofNat (numTrueFalse x y)) (ofNat (numFalseTrue x y))
    (ofNat x.length)

end Kernels

/-! ## the `Float` instance (driver) -/

/-- `np.pi` as a double -/
def floatPi : Float := Float.ofBits 0x400921FB54442D18
/-- `np.finfo(np.float32).max` as a double -/
def floatF32Max : Float := Float.ofBits 0x47EFFFFFE0000000

instance : Arith Float where
  decLt := fun a b => inferInstanceAs (Decidable (a < b))
  decLe := fun a b => inferInstanceAs (Decidable (a ≤ b))
  abs := Float.abs
  max := fun a b => if a < b then b else a
  min := fun a b => if b < a then b else a
  ofNat := Float.ofNat
  sqrt := Float.sqrt
  log2 := Float.log2
  log := Float.log
  pow := Float.pow
  arccos := Float.acos
  pi := floatPi
  f32max := floatF32Max

end Pynn.Metrics
