/-!
# Abstract model of a `numba.prange` loop (C05)

State = an array of rows.  One loop iteration is a list of *row operations*
`(row, act)`; a schedule is any merge (interleaving) of the iterations' op lists
that keeps each iteration's own order.  Operations on one row are issued by one
iteration only when the loop is non-interfering, so a finer interleaving inside
an operation cannot be observed.
-/
namespace Pynn.Par

structure Op (R : Type) where
  row : Nat
  act : R → R

/-- Execute a sequence of row operations. -/
def run {R : Type} (s : Array R) (ops : List (Op R)) : Array R :=
  ops.foldl (fun s o => s.modify o.row o.act) s

/-- `IsMerge ts m`: `m` is an interleaving of the lists `ts` (each list's order is kept). -/
inductive IsMerge {α : Type} : List (List α) → List α → Prop
  | done (ts : List (List α)) : (∀ t ∈ ts, t = []) → IsMerge ts []
  | step (ts : List (List α)) (i : Nat) (hi : i < ts.length) (x : α) (rest : List α) (m : List α) :
      ts[i] = x :: rest → IsMerge (ts.set i rest) m → IsMerge ts (x :: m)

/-- Every op of iteration `i` targets a row owned by `i`. -/
def Owned {R : Type} (owner : Nat → Nat) (its : List (List (Op R))) : Prop :=
  ∀ i (hi : i < its.length), ∀ o ∈ its[i], owner o.row = i

end Pynn.Par
