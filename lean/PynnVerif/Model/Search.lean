import PynnVerif.Model.Heap
/-!
# Model of the graph search behind `NNDescent.query`

One iteration of the `for i in prange(query_points.shape[0])` loop of
`search_closure` (`NNDescent._init_search_function`; the sparse closure of
`_init_sparse_search_function` has the same control structure and differs only
in how `dist` is evaluated), followed by `deheap_sort` and the translation of
internal row numbers to the caller's row numbers done by `NNDescent.query`.

What is an *input* of the model (everything computed before / outside the loop
body, so that the theorems hold for whatever these computations return):

* the search graph in CSR form, `indptr` / `indices` (`self._search_graph`);
* `dq v` — the value `np.float32(dist(data[v], current_query))`;
* `leaf` — `tree_indices[index_bounds[0] : index_bounds[1]]`, the leaf the
  query was routed to (`[]` when `tree_init=False`);
* `draws` — the successive values `np.abs(tau_rand_int(query_rng_state)) % n`
  the generator would deliver (any list: serial mode threads one state through
  the rows of a batch, parallel mode derives `state + i`; a racy state would
  produce yet other values — the theorems quantify over all of them);
* `scale` — `fun x => distance_scale * x` with `distance_scale = 1.0 + epsilon`
  (float32 multiplication in the driver; an arbitrary function in the proofs);
* `top` — `np.inf`.

State of one query, as in the closure: the result heap row
(`simple_heap_push` = `Pynn.pushSimple`), the `seed_set` (a `heapq` of
`(d, candidate)` tuples), the `visited` bit table, `distance_bound`.

This file must stay free of Mathlib imports (the driver executable links it).
-/
namespace Pynn

variable {P : Type} [LE P] [LT P] [DecidableLE P] [DecidableLT P]

/-- `has_been_visited(table, c)`: one bit per vertex (out of range reads as "no";
the theorems state `c < n = table size`). -/
def visited (vis : Array Bool) (c : Nat) : Bool := vis[c]?.getD false

/-- `mark_visited(table, c)`. -/
def mark (vis : Array Bool) (c : Nat) : Array Bool := vis.setIfInBounds c true

/-- `heap_priorities[0]` (the theorems state the guard `1 ≤ k`). -/
def rootPrio (top : P) (h : Row P) : P := if hk : 0 < h.size then h[0].prio else top

/-- How numba (and Python) compare the tuples `(d, candidate)`: the first component
that is not equal decides.  Without NaN this is the lexicographic order. -/
def seedLt (a b : P × Nat) : Bool :=
  decide (a.1 < b.1) || (!decide (b.1 < a.1) && decide (a.2 < b.2))

/-- `heapq.heappop`: remove and return a least element of the seed set
(`none` on the empty set, where the real call raises).  `heapq.heappush` is `cons`:
because no two seeds carry the same vertex (`C02.seeds_distinct`), `seedLt` is a strict
total order on the set, its least element is unique (`C02.popMin_least`) and the
internal layout of the binary heap cannot be observed. -/
def popMin : List (P × Nat) → Option ((P × Nat) × List (P × Nat))
  | [] => none
  | x :: xs =>
    match popMin xs with
    | none => some (x, [])
    | some (m, rest) => if seedLt m x then some (m, x :: rest) else some (x, xs)

/-- Per-query state of `search_closure`. -/
structure SState (P : Type) where
  heap  : Row P               -- `heap_priorities`, `heap_indices` (row `i` of `result`)
  seeds : List (P × Nat)      -- `seed_set`
  vis   : Array Bool          -- `visited_nodes`
  bound : P                   -- `distance_bound`

/-- Body of the two *init* loops: `simple_heap_push`, `heappush(seed_set, (d, candidate))`
(whether or not the heap accepted), **then** `mark_visited`. -/
def leafStep (dq : Nat → P) (s : SState P) (c : Nat) : SState P :=
  { s with heap := (pushSimple s.heap (dq c) c).1,
           seeds := (dq c, c) :: s.seeds,
           vis := mark s.vis c }

/-- One random candidate: skipped when already visited, otherwise as a leaf candidate.
(The leaf loop itself has no visited test: "indices are guaranteed different".) -/
def randStep (dq : Nat → P) (s : SState P) (c : Nat) : SState P :=
  if visited s.vis c then s else leafStep dq s c

/-- One neighbour `candidate = indices[j]` in the expansion loop: if not visited,
`mark_visited` **first**, then `if d < distance_bound:` push (which itself rejects
`d ≥ root`), `heappush`, and recompute the bound from the new root. -/
def expandStep (top : P) (scale : P → P) (dq : Nat → P) (s : SState P) (c : Nat) : SState P :=
  if visited s.vis c then s
  else if dq c < s.bound then
    let heap := (pushSimple s.heap (dq c) c).1
    { heap := heap, seeds := (dq c, c) :: s.seeds, vis := mark s.vis c,
      bound := scale (rootPrio top heap) }
  else { s with vis := mark s.vis c }

/-- `indices[indptr[v] : indptr[v+1]]` (`range(a, b)` is empty for `a ≥ b`; a slice
that would run off the array — excluded by `CsrOk` — is cut rather than read). -/
def nbrs (indptr indices : Array Nat) (v : Nat) : List Nat :=
  (indices.extract (indptr[v]?.getD 0) (indptr[v+1]?.getD 0)).toList

/-- `while d_vertex < distance_bound:` … `if len(seed_set) == 0: break else: heappop`.
Returns the final state and whether the loop left by its own condition (`false`: the
model ran out of fuel). -/
def searchLoop (top : P) (scale : P → P) (indptr indices : Array Nat) (dq : Nat → P) :
    Nat → SState P → P → Nat → SState P × Bool
  | 0, s, _, _ => (s, false)
  | fuel+1, s, dv, v =>
    if dv < s.bound then
      let s' := (nbrs indptr indices v).foldl (expandStep top scale dq) s
      match popMin s'.seeds with
      | none => (s', true)
      | some (x, rest) => searchLoop top scale indptr indices dq fuel { s' with seeds := rest } x.1 x.2
    else (s, true)

/-- The state before the init phase: `make_heap` row, empty seed set, cleared table. -/
def emptyState (top : P) (n k : Nat) : SState P :=
  { heap := mkRow top k, seeds := [], vis := Array.replicate n false, bound := top }

/-- The init phase: all leaf candidates, then `min(k, n_neighbors) − n_initial_points`
random candidates (none if that is `≤ 0`), then the first bound. -/
def initState (top : P) (scale : P → P) (n k nNeighbors : Nat) (dq : Nat → P)
    (leaf draws : List Nat) : SState P :=
  let s1 := leaf.foldl (leafStep dq) (emptyState top n k)
  let s2 := (draws.take (min k nNeighbors - leaf.length)).foldl (randStep dq) s1
  { s2 with bound := scale (rootPrio top s2.heap) }

/-- One query.  Second component `true` = the code path ended normally within the
fuel (`false` also if the very first `heappop` met an empty seed set, where the real
code raises; `C02.search_terminates` excludes both). -/
def search (top : P) (scale : P → P) (n k nNeighbors : Nat) (indptr indices : Array Nat)
    (dq : Nat → P) (leaf draws : List Nat) (fuel : Nat) : SState P × Bool :=
  let s := initState top scale n k nNeighbors dq leaf draws
  match popMin s.seeds with
  | none => (s, false)
  | some (x, rest) => searchLoop top scale indptr indices dq fuel { s with seeds := rest } x.1 x.2

/-- `deheap_sort` of the result row: what `query` holds before translation. -/
def queryRow (top : P) (scale : P → P) (n k nNeighbors : Nat) (indptr indices : Array Nat)
    (dq : Nat → P) (leaf draws : List Nat) (fuel : Nat) : Row P :=
  deheapSort (search top scale n k nNeighbors indptr indices dq leaf draws fuel).1.heap

/-- The row of a query the dense closure `continue`s before touching it (zero norm under
`alternative_cosine` / `alternative_dot`): the `make_heap` row, then `deheap_sort`.  (The
sparse closure compares its *sparse* kernel with the dense ones, so it never takes this
branch and searches with whatever `dq` the sparse kernel returns.) -/
def skippedRow (top : P) (k : Nat) : Row P := deheapSort (mkRow top k)

/-- `np.where(indices >= 0, self._vertex_order[indices], -1)`, one element
(`vo[i]` raises for `i ≥ len(vo)`; the theorems state `i < vo.size`). -/
def translate (vo : Array Nat) (i : Int) : Int :=
  if i ≥ 0 then ((vo[i.toNat]?.getD 0 : Nat) : Int) else -1

/-- The translation before the repair: `self._vertex_order[indices]` with numpy's
negative indexing (`vo[-1]` is the last element). -/
def translateOld (vo : Array Nat) (i : Int) : Int :=
  if i ≥ 0 then ((vo[i.toNat]?.getD 0 : Nat) : Int)
  else ((vo[(vo.size - i.natAbs)]?.getD 0 : Nat) : Int)

/-- The public answer row: translated index and (uncorrected) distance per slot. -/
def answerRow (vo : Array Nat) (r : Row P) : Array (Int × P) :=
  r.map (fun e => (translate vo e.idx, e.prio))

/-- A batch: every row is computed from its own `(dq, leaf, draws)`; nothing else is
shared between rows (the `visited` table is cleared / private, the result row is row
`i` of `result`). -/
def queryBatch (top : P) (scale : P → P) (n k nNeighbors : Nat) (indptr indices : Array Nat)
    (fuel : Nat) (rows : List ((Nat → P) × List Nat × List Nat)) : List (Row P) :=
  rows.map (fun r => queryRow top scale n k nNeighbors indptr indices r.1 r.2.1 r.2.2 fuel)

end Pynn
