/-!
# The Tausworthe generator of `pynndescent/utils.py`, modelled exactly

`tau_rand_int` works on three `int64` state words with `&`, `<<`, arithmetic `>>`
and the mask `0xFFFFFFFF`; its result is truncated to `int32` by the kernel's
signature `i4(i8[:])`.  `tau_rand` is `abs(float(integer) / 0x7FFFFFFF)` returned
as `float32`.  (Mathlib-free; executable.)
-/
namespace Pynn

structure RngState where
  s0 : Int64
  s1 : Int64
  s2 : Int64
deriving Repr, DecidableEq

def RngState.ofInts (a b c : Int) : RngState := ⟨Int64.ofInt a, Int64.ofInt b, Int64.ofInt c⟩

/-- `rng_state + n` (a fresh array: the derived per-thread / per-row state). -/
def RngState.add (s : RngState) (n : Int) : RngState :=
  ⟨s.s0 + Int64.ofInt n, s.s1 + Int64.ofInt n, s.s2 + Int64.ofInt n⟩

private def m32 : Int64 := 0xFFFFFFFF

/-- `tau_rand_int`: new state and the `int32` result (as an `Int`). -/
def tauRandInt (s : RngState) : Int × RngState :=
  let a := (((s.s0 &&& 4294967294) <<< 12) &&& m32) ^^^ ((((s.s0 <<< 13) &&& m32) ^^^ s.s0) >>> 19)
  let b := (((s.s1 &&& 4294967288) <<< 4) &&& m32) ^^^ ((((s.s1 <<< 2) &&& m32) ^^^ s.s1) >>> 25)
  let c := (((s.s2 &&& 4294967280) <<< 17) &&& m32) ^^^ ((((s.s2 <<< 3) &&& m32) ^^^ s.s2) >>> 11)
  ((a ^^^ b ^^^ c).toInt32.toInt, ⟨a, b, c⟩)

/-- `tau_rand`: a float32 in `[0, 1]`. -/
def tauRand (s : RngState) : Float32 × RngState :=
  let (i, s') := tauRandInt s
  (((Float.ofInt i) / (Float.ofNat 0x7FFFFFFF)).abs.toFloat32, s')

end Pynn
