import PynnVerif.Proofs.Par
import PynnVerif.Model.Footprint
import PynnVerif.Gen.Prange

/-!
# C05 — seeded runs are bit-reproducible under every thread schedule

Two layers.  (1) `schedule_independent` (proved once, for every state, every
number of iterations and every interleaving): a `prange` loop whose iterations
only touch rows they own yields, under *any* schedule, the state of the
sequential loop.  (2) `all_index_loops_noninterfering`: a `decide` over
`Gen.prangeLoops`, the per-iteration memory footprints that
`translate_prange.py` regenerates from /repo on every run — every write, every
mutator call, every reduction and every read of a co-written array in every
`prange` loop used by build / prepare / query / update falls in an owned class.
What ties the two layers (that an effect classified `loopVar`, `guardedMod`,
`csrSeg`, `privateAlloc` really is an operation on a row no other iteration
touches, and that `intReduction` is exact and commutative) is the translator's
contract.  The ownership part of that contract is validated on every run on the
running code by `harness/footprint_trace.py` (interpreter-mode recorder: every
element read / written by every iteration of every `prange` loop it reaches,
`W(i) ∩ W(j) = ∅` and `W(i) ∩ R(j) = ∅` for `i ≠ j`); the reduction part and the
loops / inputs the recorder does not reach stay in the trusted base.
-/
namespace Pynn.C05
open Pynn.Par Pynn.FP

/-- Every schedule of a non-interfering loop equals the sequential run. -/
theorem schedule_independent {R : Type} (owner : Nat → Nat) (its : List (List (Op R)))
    (hown : Owned owner its) (s : Array R) (m : List (Op R)) (hm : IsMerge its m) :
    run s m = run s its.flatten := Par.schedule_independent owner its hown s m hm

/-- Any two schedules agree (so repeating a run cannot change the result). -/
theorem schedules_agree {R : Type} (owner : Nat → Nat) (its : List (List (Op R)))
    (hown : Owned owner its) (s : Array R) (m1 m2 : List (Op R))
    (h1 : IsMerge its m1) (h2 : IsMerge its m2) : run s m1 = run s m2 :=
  Par.schedules_agree owner its hown s m1 m2 h1 h2

/-- Obligation over today's source: every `prange` loop of the index code paths is
non-interfering (no shared write, no shared generator state, no order-dependent
reduction, no read of a row another iteration writes). -/
theorem all_index_loops_noninterfering :
    ∀ l ∈ Gen.prangeLoops, l.scope = "index" → l.nonInterfering = true := by decide

/-- The loops named by the property's quantifier are present in the generated table
(so the obligation above is not vacuous for them). -/
theorem quantified_loops_present :
    ∀ n ∈ ["utils.new_build_candidates#0", "utils.new_build_candidates#1",
           "utils.apply_graph_updates_low_memory#0", "utils.deheap_sort#0",
           "pynndescent_.generate_leaf_updates#0", "pynndescent_.generate_graph_updates#0",
           "sparse_nndescent.generate_leaf_updates#0", "sparse_nndescent.generate_graph_updates#0",
           "pynndescent_.diversify#0", "pynndescent_.diversify_csr#0",
           "sparse.diversify#0", "sparse.diversify_csr#0",
           "pynndescent_.degree_prune_internal#0",
           "pynndescent_._init_search_function.search_closure#0",
           "pynndescent_._init_sparse_search_function.search_closure#0"],
      ∃ l ∈ Gen.prangeLoops, l.name = n ∧ l.scope = "index" ∧ l.effects ≠ [] := by decide

/-- Non-vacuity of the check: the pre-repair footprint of `diversify` (a `tau_rand` on the
index-wide generator state inside the loop) is rejected. -/
example : ({ name := "diversify (pinned)", scope := "index",
             effects := [⟨.write, "rng_state <- tau_rand()", .shared⟩,
                         ⟨.write, "indices[i, j] <- store", .loopVar⟩] } : Loop).nonInterfering = false := by
  decide

end Pynn.C05
