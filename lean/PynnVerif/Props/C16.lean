import PynnVerif.Proofs.Diversify
import Mathlib.Data.Nat.Basic  -- `LinearOrder Nat` for the concrete examples at the end

/-!
# C16 — the search graph is a bounded-degree subgraph of the neighbour graph

Property theorems only (helper lemmas live in `Proofs/Diversify.lean`).

`Div.degreePrune zero m row` is `degree_prune_internal` on one CSR row (entries longer than
`np.sort(row)[m-1]` overwritten by `0.0`, only when the row has more than `m` entries);
`Div.elimZeros` is `eliminate_zeros()`.  `Div.searchGraph zero eps top dist argsort m N` is the
edge set that the model of `NNDescent._init_search_graph` (for `diversify_prob = 1`) computes from
the neighbour graph `N` (`N[u]` = the stored row of point `u`: `(index, length)` pairs in stored
order, `-1` padded), exactly in the order the code executes it: forward `diversify`, the
`<= 0 → FLOAT32_EPS` protection, COO→CSR without the `-1` columns (rows stay in list order: the
stale `has_canonical_format` flag of the hand-filled COO matrix makes `tocsr()` skip sorting), the
*second greedy pass over the same forward rows* that the code calls reverse diversification
(DESIGN Appendix E, note N8), the
real transposition, union by `maximum`, `setdiag(0)`, `degree_prune(m)`, binarisation.
`argsort` is whatever `np.argsort` does inside `diversify_csr` (a parameter: unstable on ties).
Rows are in caller numbering; the final row/column permutation by `_vertex_order` is a renaming that
`harness/c16.py` undoes before comparing the model's edge set with the real one, edge for edge.

`P` is any linear order (float32 without NaN), `zero`, `eps`, `top` model `0.0`, `FLOAT32_EPS`, `inf`.
-/
namespace Pynn.C16
open Pynn Pynn.Div
variable {P : Type} [LinearOrder P]

/-- **Degree bound.**  For `m ≥ 1`, after `degree_prune_internal` and `eliminate_zeros()` a row
either has at most `m` entries (it was no longer than the bound) or there is a cut value `cut` —
the length of one of the row's own entries — such that every kept entry has length `≤ cut`,
*fewer than `m`* kept entries are strictly shorter than `cut`, and every non-zero entry of length
`≤ cut` is kept.  So the out-degree is at most `m`, edges exactly as long as the longest kept one
excepted. -/
theorem prune_bound (zero : P) (m : Nat) (hm : 0 < m) (row : List (Ent P)) :
    (elimZeros zero (degreePrune zero m row)).length ≤ m ∨
    ∃ cut, cut ∈ row.map (·.2) ∧
      (∀ e ∈ elimZeros zero (degreePrune zero m row), e.2 ≤ cut) ∧
      ((elimZeros zero (degreePrune zero m row)).filter (fun e => decide (e.2 < cut))).length < m ∧
      (∀ e ∈ row, e.2 ≤ cut → isZero zero e.2 = false → e ∈ elimZeros zero (degreePrune zero m row)) := by
  by_cases hlen : m < row.length
  · right
    obtain ⟨cut, hc⟩ := cutValue_isSome m (row.map (·.2)) (by simpa using hlen)
    refine ⟨cut, cutValue_mem m _ cut hc, ?_, ?_, ?_⟩
    · intro e he
      rw [prune_elim_eq zero m row cut hlen hc] at he
      have := (List.mem_filter.mp he).2
      simpa using this
    · have hsub : ((elimZeros zero (degreePrune zero m row)).filter (fun e => decide (e.2 < cut))).Sublist
          (row.filter (fun e => decide (e.2 < cut))) := (prune_sublist zero m row).filter _
      have hcnt := cutValue_count m hm (row.map (·.2)) cut hc
      have hmap : (row.filter (fun e => decide (e.2 < cut))).length =
          ((row.map (·.2)).filter (fun y => decide (y < cut))).length := by
        rw [List.filter_map, List.length_map]; rfl
      have := hsub.length_le
      omega
    · intro e he hle hnz
      exact prune_mem_of_le zero m row e he hnz (fun c hc' => by rw [hc] at hc'; cases hc'; exact hle)
  · left
    have h1 := (prune_sublist zero m row).length_le
    omega

/-- **Pruning keeps the row minimum**: a non-zero entry that is at least as short as every entry
of its row survives `degree_prune_internal` (for every `m`, even `m = 0`, where numba's
`np.sort(row)[-1]` wraps to the maximum and nothing is cut). -/
theorem prune_keeps_min (zero : P) (m : Nat) (row : List (Ent P)) (e : Ent P) (he : e ∈ row)
    (hmin : ∀ e' ∈ row, e.2 ≤ e'.2) (hnz : isZero zero e.2 = false) :
    e ∈ elimZeros zero (degreePrune zero m row) := by
  apply prune_mem_of_le zero m row e he hnz
  intro cut hc
  obtain ⟨e', he', h⟩ := List.mem_map.mp (cutValue_mem m _ cut hc)
  rw [← h]; exact hmin e' he'

/-- **Pruning only removes**: the pruned row is a sub-list of the row (entries and lengths intact). -/
theorem prune_subset (zero : P) (m : Nat) (row : List (Ent P)) :
    (elimZeros zero (degreePrune zero m row)).Sublist row :=
  prune_sublist zero m row

/-- **Square, no self-loops**: every edge `(u, v)` of the search graph has `u < n`, `0 ≤ v < n`
(`n` = number of points) and `v ≠ u`. -/
theorem searchGraph_no_self_loops (zero eps top : P) (dist : Int → Int → P) (argsort : List P → List Nat)
    (m : Nat) (N : List (List (Ent P))) (u : Nat) (v : Int)
    (h : (u, v) ∈ searchGraph zero eps top dist argsort m N) :
    u < N.length ∧ 0 ≤ v ∧ v < N.length ∧ v ≠ (u : Int) := by
  obtain ⟨hu, w, hw⟩ := (searchGraph_mem _ _ _ _ _ _ _ _ _).mp h
  obtain ⟨_, hne, v', hv', hv, _⟩ := uniRows_spec _ _ _ _ _ _ _ _ (finalRows_sub_uni _ _ _ _ _ _ _ _ _ hw)
  simp only at hv hne
  refine ⟨hu, ?_, ?_, hne⟩ <;> omega

/-- **Subgraph of the symmetrised neighbour graph**: every edge `(u, v)` joins two points of which
at least one lists the other in the neighbour graph (`Lists N u v`: the stored row of `u` holds an
entry with index `v`). -/
theorem searchGraph_subgraph (zero eps top : P) (dist : Int → Int → P) (argsort : List P → List Nat)
    (m : Nat) (N : List (List (Ent P))) (u : Nat) (v : Int)
    (h : (u, v) ∈ searchGraph zero eps top dist argsort m N) :
    Lists N u v ∨ Lists N v.toNat (u : Int) := by
  obtain ⟨hu, w, hw⟩ := (searchGraph_mem _ _ _ _ _ _ _ _ _).mp h
  obtain ⟨_, _, v', _, hv, hor⟩ := uniRows_spec _ _ _ _ _ _ _ _ (finalRows_sub_uni _ _ _ _ _ _ _ _ _ hw)
  simp only at hv hor
  have : v.toNat = v' := by omega
  rw [this]; exact hor

/-
**Nearest neighbour kept — the full statement.**  For every point `u` whose stored row names
another point, let `v*` be the first entry of the row whose index is not `u` (the list-nearest
other point).  Then after `prepare` (every `diversify_prob`, every `_vertex_order`)
  (i)  row `u` of the search graph is not empty and holds a shortest entry of the symmetrised,
       diversified candidate row (`u` keeps an edge to its nearest neighbour in the graph), and
  (ii) `(u, v*)` is an edge unless `m` strictly shorter edges are kept (points that list `u` but
       that `u`'s own approximate list missed).

Proved below (`searchGraph_nearest_partial`) for the pipeline model, i.e. for `diversify_prob = 1`
and in caller numbering, under the invariants a real neighbour row has:
  * `hpre`  — the entries stored before `v*` have real indices and length `≤ eps` (the point itself
              at distance 0, exact duplicates): they can never pass the `> FLOAT32_EPS` guard;
  * `hpost` — the entries stored after it are at least as long (`deheap_sort`, C11);
  * `hsym`  — the distance table is symmetric (the metric kernels are, bit for bit; without it the
              statement is false: a tied later entry could occlude `v*` in the second pass);
  * `argsort` returns an ascending permutation (any tie order);
  * `zero < eps`.
Missing for full strength: `diversify_prob < 1` (the pipeline model fixes the draws to "prune";
on the real code the API predicate of `harness/c16.py` checks (i) and (ii) for 0.5 and 0) and the
final renaming by `_vertex_order` (undone and checked edge for edge by the harness).
-/

/-- **Nearest neighbour kept** (see the comment above for the full statement and what is missing).
The list-nearest other point `x = (v, d)` of `u` survives the forward pass, the protection, the
second greedy pass, the symmetrisation and the diagonal removal with some length `w'`; row `u` of
the final graph holds a shortest entry of that candidate row (so it is not empty); and `(u, v)`
itself is an edge unless at least `m` kept edges are strictly shorter than `w'`. -/
theorem searchGraph_nearest_partial (zero eps top : P) (hze : zero < eps) (dist : Int → Int → P)
    (hsym : ∀ a b, dist a b = dist b a) (argsort : List P → List Nat)
    (hbound : ∀ lens, ∀ i ∈ argsort lens, i < lens.length) (hnd : ∀ lens, (argsort lens).Nodup)
    (hsorted : ∀ lens, (argsort lens).Pairwise
      (fun a b => ∀ p q, lens[a]? = some p → lens[b]? = some q → p ≤ q))
    (m : Nat) (hm : 0 < m) (N : List (List (Ent P))) (u v : Nat) (d : P)
    (hu : u < N.length) (hv : v < N.length) (hne : v ≠ u)
    (pre post : List (Ent P)) (hrow : N.getD u [] = pre ++ ((v : Int), d) :: post)
    (hpre : ∀ e ∈ pre, 0 ≤ e.1 ∧ e.2 ≤ eps) (hpost : ∀ e ∈ post, d ≤ e.2) :
    ∃ w', ((v : Int), w') ∈ (uniRows zero eps top dist argsort N).row u ∧
      (∃ e ∈ (finalRows zero eps top dist argsort m N).row u,
          ∀ e' ∈ (uniRows zero eps top dist argsort N).row u, e.2 ≤ e'.2) ∧
      ((u, (v : Int)) ∈ searchGraph zero eps top dist argsort m N ∨
        m ≤ (((finalRows zero eps top dist argsort m N).row u).filter (fun e => decide (e.2 < w'))).length) := by
  -- both passes keep the entry
  have hsnd : ((v : Int), protect zero eps d) ∈ (sndRows zero eps top dist argsort N).row u := by
    rw [sndRows_row, fwdRows_row]
    simp only [hu, ↓reduceIte, hrow]
    exact secondRow_keeps zero eps top hze dist hsym argsort hbound hnd hsorted pre post ((v : Int), d)
      (by simp) hpre hpost
  -- symmetrisation and diagonal removal
  obtain ⟨w0, w', _, _, hw'⟩ := unionRow_keeps zero N.length _
    (revRow N.length (sndRows zero eps top dist argsort N) u) v _ hv
    (fun e he => sndRows_pos zero eps top hze dist argsort N u e he) hsnd
  have huni : ((v : Int), w') ∈ (uniRows zero eps top dist argsort N).row u := by
    rw [uniRows_row]
    simp only [hu, ↓reduceIte, dropDiag, List.mem_filter, hw', decide_eq_true_eq, true_and]
    omega
  have hnz : ∀ e ∈ (uniRows zero eps top dist argsort N).row u, isZero zero e.2 = false := by
    intro e he
    rw [uniRows_row] at he
    simp only [hu, ↓reduceIte, dropDiag, List.mem_filter] at he
    exact (unionRow_mem _ _ _ _ _ he.1).2.1
  have hfin : (finalRows zero eps top dist argsort m N).row u =
      elimZeros zero (degreePrune zero m ((uniRows zero eps top dist argsort N).row u)) := by
    rw [finalRows_row]; simp [hu]
  refine ⟨w', huni, ?_, ?_⟩
  · obtain ⟨e, he, hmin⟩ := exists_min_len _ (List.ne_nil_of_mem huni)
    refine ⟨e, ?_, hmin⟩
    rw [hfin]
    apply prune_mem_of_le zero m _ e he (hnz e he)
    intro cut hc
    obtain ⟨e', he', h⟩ := List.mem_map.mp (cutValue_mem m _ cut hc)
    rw [← h]; exact hmin e' he'
  · by_cases hk : ((v : Int), w') ∈ (finalRows zero eps top dist argsort m N).row u
    · exact Or.inl ((searchGraph_mem _ _ _ _ _ _ _ _ _).mpr ⟨hu, w', hk⟩)
    · right
      rw [hfin] at hk ⊢
      exact prune_removed_count zero m hm _ hnz _ huni hk

/-! ## non-vacuity -/

/-- `degree_prune_internal` with `m = 2` on lengths `[5, 1, 3, 3, 7]`: cut = `sorted[1]` = 3,
the entries `5` and `7` are removed, both ties at `3` stay (3 entries kept, 1 strictly below the cut). -/
example : elimZeros 0 (degreePrune 0 2 [((10 : Int), 5), (11, 1), (12, 3), (13, 3), (14, 7)])
    = [(11, 1), (12, 3), (13, 3)] := by decide

/-- rows no longer than the bound are untouched; `m = 0` wraps to the maximum and cuts nothing -/
example : elimZeros 0 (degreePrune 0 3 [((10 : Int), 5), (11, 1), (12, 3)]) = [(10, 5), (11, 1), (12, 3)] ∧
    elimZeros 0 (degreePrune 0 0 [((10 : Int), 5), (11, 1), (12, 3)]) = [(10, 5), (11, 1), (12, 3)] := by
  decide

/-- Four points on a line at `0, 2, 5, 11` (`P = Nat`, lengths scaled so that `eps = 1`, `zero = 0`),
neighbour lists of 3 (self first).  Forward pass: point 0 keeps only 1 (2 and 3 are behind it),
point 1 keeps 0 and 2, point 2 keeps 1 and 3, point 3 keeps 2; the symmetrised graph is the path
`0 - 1 - 2 - 3`; with `m = 1` every point keeps only its nearest neighbour.
(`decide +kernel`: the stages are `Array`s, whose operations the elaborator's `decide` does not
unfold; kernel evaluation adds no axioms.) -/
def lineX : List Nat := [0, 2, 5, 11]
def lineD (a b : Int) : Nat :=
  let p := lineX.getD a.toNat 0; let q := lineX.getD b.toNat 0
  10 * (if p ≤ q then q - p else p - q)
def lineN : List (List (Ent Nat)) :=
  [[(0, 0), (1, 20), (2, 50)], [(1, 0), (0, 20), (2, 30)], [(2, 0), (1, 30), (3, 60)], [(3, 0), (2, 60), (1, 90)]]

example : searchGraph 0 1 1000 lineD stableArgsort 2 lineN
    = [(0, 1), (1, 0), (1, 2), (2, 1), (2, 3), (3, 2)] := by decide +kernel
example : searchGraph 0 1 1000 lineD stableArgsort 1 lineN
    = [(0, 1), (1, 0), (2, 1), (3, 2)] := by decide +kernel

end Pynn.C16
