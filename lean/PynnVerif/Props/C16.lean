import PynnVerif.Proofs.Diversify
import PynnVerif.Proofs.GenSearchGraph
import Mathlib.Data.Nat.Basic  -- `LinearOrder Nat` for the concrete examples at the end

/-!
# C16 — the search graph is a bounded-degree subgraph of the neighbour graph

Property theorems only (helper lemmas live in `Proofs/Diversify.lean`).

`Div.degreePrune zero m row` is `degree_prune_internal` on one CSR row (entries longer than
`np.sort(row)[m-1]` overwritten by `0.0`, only when the row has more than `m` entries);
`Div.elimZeros` is `eliminate_zeros()`.  `Div.searchGraphD zero eps top dist argsort m N draw1 draw2`
is the edge set that the model of `NNDescent._init_search_graph` computes from
the neighbour graph `N` (`N[u]` = the stored row of point `u`: `(index, length)` pairs in stored
order, `-1` padded) when the `c`-th evaluation of `tau_rand(rng_state + u) < diversify_prob` in row
`u` returns `draw1 u c` in the forward and `draw2 u c` in the second pass (in the code both passes
restart the same private stream `rng_state + u`, so `draw1 = draw2` there; the theorems do not need
it); `Div.searchGraph … = Div.searchGraphD … (fun _ _ => true) (fun _ _ => true)` is
`diversify_prob = 1`.  The model runs exactly in the order the code executes it: forward `diversify`, the
`<= 0 → FLOAT32_EPS` protection, COO→CSR without the `-1` columns (rows stay in list order: the
stale `has_canonical_format` flag of the hand-filled COO matrix makes `tocsr()` skip sorting), the
*second greedy pass over the same forward rows* that the code calls reverse diversification
(DESIGN Appendix E, note N8), the
real transposition, union by `maximum`, `setdiag(0)`, `degree_prune(m)`, binarisation.
`argsort` is whatever `np.argsort` does inside `diversify_csr` (a parameter: unstable on ties).
Rows are in caller numbering; the final row/column permutation by `_vertex_order` is a renaming that
`harness/c16.py` undoes before comparing the model's edge set with the real one, edge for edge.

`P` is any linear order (float32 without NaN), `zero`, `eps`, `top` model `0.0`, `FLOAT32_EPS`, `inf`.
-/
namespace Pynn.C16
open Pynn Pynn.Div
variable {P : Type} [LinearOrder P]

/-- **Degree bound.**  For `m ≥ 1`, after `degree_prune_internal` and `eliminate_zeros()` a row
either has at most `m` entries (it was no longer than the bound) or there is a cut value `cut` —
the length of one of the row's own entries — such that every kept entry has length `≤ cut`,
*fewer than `m`* kept entries are strictly shorter than `cut`, and every non-zero entry of length
`≤ cut` is kept.  So the out-degree is at most `m`, edges exactly as long as the longest kept one
excepted. -/
theorem prune_bound (zero : P) (m : Nat) (hm : 0 < m) (row : List (Ent P)) :
    (elimZeros zero (degreePrune zero m row)).length ≤ m ∨
    ∃ cut, cut ∈ row.map (·.2) ∧
      (∀ e ∈ elimZeros zero (degreePrune zero m row), e.2 ≤ cut) ∧
      ((elimZeros zero (degreePrune zero m row)).filter (fun e => decide (e.2 < cut))).length < m ∧
      (∀ e ∈ row, e.2 ≤ cut → isZero zero e.2 = false → e ∈ elimZeros zero (degreePrune zero m row)) := by
  by_cases hlen : m < row.length
  · right
    obtain ⟨cut, hc⟩ := cutValue_isSome m (row.map (·.2)) (by simpa using hlen)
    refine ⟨cut, cutValue_mem m _ cut hc, ?_, ?_, ?_⟩
    · intro e he
      rw [prune_elim_eq zero m row cut hlen hc] at he
      have := (List.mem_filter.mp he).2
      simpa using this
    · have hsub : ((elimZeros zero (degreePrune zero m row)).filter (fun e => decide (e.2 < cut))).Sublist
          (row.filter (fun e => decide (e.2 < cut))) := (prune_sublist zero m row).filter _
      have hcnt := cutValue_count m hm (row.map (·.2)) cut hc
      have hmap : (row.filter (fun e => decide (e.2 < cut))).length =
          ((row.map (·.2)).filter (fun y => decide (y < cut))).length := by
        rw [List.filter_map, List.length_map]; rfl
      have := hsub.length_le
      omega
    · intro e he hle hnz
      exact prune_mem_of_le zero m row e he hnz (fun c hc' => by rw [hc] at hc'; cases hc'; exact hle)
  · left
    have h1 := (prune_sublist zero m row).length_le
    omega

/-- **Pruning keeps the row minimum**: a non-zero entry that is at least as short as every entry
of its row survives `degree_prune_internal` (for every `m`, even `m = 0`, where numba's
`np.sort(row)[-1]` wraps to the maximum and nothing is cut). -/
theorem prune_keeps_min (zero : P) (m : Nat) (row : List (Ent P)) (e : Ent P) (he : e ∈ row)
    (hmin : ∀ e' ∈ row, e.2 ≤ e'.2) (hnz : isZero zero e.2 = false) :
    e ∈ elimZeros zero (degreePrune zero m row) := by
  apply prune_mem_of_le zero m row e he hnz
  intro cut hc
  obtain ⟨e', he', h⟩ := List.mem_map.mp (cutValue_mem m _ cut hc)
  rw [← h]; exact hmin e' he'

/-- **Pruning only removes**: the pruned row is a sub-list of the row (entries and lengths intact). -/
theorem prune_subset (zero : P) (m : Nat) (row : List (Ent P)) :
    (elimZeros zero (degreePrune zero m row)).Sublist row :=
  prune_sublist zero m row

/-- **Square, no self-loops, every `diversify_prob`**: whatever the generator tests of the two
passes return, every edge `(u, v)` of the search graph has `u < n`, `0 ≤ v < n` (`n` = number of
points) and `v ≠ u`. -/
theorem searchGraphD_no_self_loops (zero eps top : P) (dist : Int → Int → P) (argsort : List P → List Nat)
    (m : Nat) (N : List (List (Ent P))) (draw1 draw2 : Nat → Nat → Bool) (u : Nat) (v : Int)
    (h : (u, v) ∈ searchGraphD zero eps top dist argsort m N draw1 draw2) :
    u < N.length ∧ 0 ≤ v ∧ v < N.length ∧ v ≠ (u : Int) := by
  obtain ⟨hu, w, hw⟩ := (searchGraphD_mem _ _ _ _ _ _ _ _ _ _ _).mp h
  obtain ⟨_, hne, v', hv', hv, _⟩ :=
    uniRowsD_spec _ _ _ _ _ _ _ _ _ _ (finalRowsD_sub_uni _ _ _ _ _ _ _ _ _ _ _ hw)
  simp only at hv hne
  refine ⟨hu, ?_, ?_, hne⟩ <;> omega

/-- **Square, no self-loops** (`diversify_prob = 1`): every edge `(u, v)` of the search graph has
`u < n`, `0 ≤ v < n` (`n` = number of points) and `v ≠ u`. -/
theorem searchGraph_no_self_loops (zero eps top : P) (dist : Int → Int → P) (argsort : List P → List Nat)
    (m : Nat) (N : List (List (Ent P))) (u : Nat) (v : Int)
    (h : (u, v) ∈ searchGraph zero eps top dist argsort m N) :
    u < N.length ∧ 0 ≤ v ∧ v < N.length ∧ v ≠ (u : Int) :=
  searchGraphD_no_self_loops zero eps top dist argsort m N _ _ u v h

/-- **Subgraph of the symmetrised neighbour graph, every `diversify_prob`**: whatever the generator
tests return, every edge `(u, v)` joins two points of which at least one lists the other in the
neighbour graph (`Lists N u v`: the stored row of `u` holds an entry with index `v`). -/
theorem searchGraphD_subgraph (zero eps top : P) (dist : Int → Int → P) (argsort : List P → List Nat)
    (m : Nat) (N : List (List (Ent P))) (draw1 draw2 : Nat → Nat → Bool) (u : Nat) (v : Int)
    (h : (u, v) ∈ searchGraphD zero eps top dist argsort m N draw1 draw2) :
    Lists N u v ∨ Lists N v.toNat (u : Int) := by
  obtain ⟨hu, w, hw⟩ := (searchGraphD_mem _ _ _ _ _ _ _ _ _ _ _).mp h
  obtain ⟨_, _, v', _, hv, hor⟩ :=
    uniRowsD_spec _ _ _ _ _ _ _ _ _ _ (finalRowsD_sub_uni _ _ _ _ _ _ _ _ _ _ _ hw)
  simp only at hv hor
  have : v.toNat = v' := by omega
  rw [this]; exact hor

/-- **Edges stay inside the connected components of the neighbour graph** (what `connect_graph`'s restricted search
relies on, `C20.restricted_search_stays_in_component`): for every labelling that is constant along the entries of the
neighbour graph — e.g. the component labels `scipy.sparse.csgraph.connected_components` computes for its
symmetrisation — both endpoints of every search-graph edge carry the same label, whatever the draws. -/
theorem searchGraphD_edges_within_components (zero eps top : P) (dist : Int → Int → P) (argsort : List P → List Nat)
    (m : Nat) (N : List (List (Ent P))) (draw1 draw2 : Nat → Nat → Bool) (comp : Nat → Nat)
    (hcomp : ∀ (a : Nat) (b : Int), Lists N a b → 0 ≤ b → comp b.toNat = comp a)
    (u : Nat) (v : Int) (h : (u, v) ∈ searchGraphD zero eps top dist argsort m N draw1 draw2) :
    comp v.toNat = comp u := by
  have hv := (searchGraphD_no_self_loops zero eps top dist argsort m N draw1 draw2 u v h).2.1
  rcases searchGraphD_subgraph zero eps top dist argsort m N draw1 draw2 u v h with h1 | h2
  · exact hcomp u v h1 hv
  · have := hcomp v.toNat (u : Int) h2 (by omega)
    simpa using this.symm

/-- **Subgraph of the symmetrised neighbour graph** (`diversify_prob = 1`): every edge `(u, v)`
joins two points of which at least one lists the other in the neighbour graph (`Lists N u v`: the
stored row of `u` holds an entry with index `v`). -/
theorem searchGraph_subgraph (zero eps top : P) (dist : Int → Int → P) (argsort : List P → List Nat)
    (m : Nat) (N : List (List (Ent P))) (u : Nat) (v : Int)
    (h : (u, v) ∈ searchGraph zero eps top dist argsort m N) :
    Lists N u v ∨ Lists N v.toNat (u : Int) :=
  searchGraphD_subgraph zero eps top dist argsort m N _ _ u v h

/-- **Degree bound in the pipeline, every `diversify_prob`**: `prune_bound` applied where
`_init_search_graph` applies it.  For `m ≥ 1`, whatever the generator tests return, row `u` of the
final graph `fin` relates to its candidate row `cand` (after both passes, symmetrisation and diagonal
removal) as follows: `fin` has at most `m` entries, or there is a cut value — the length of a
candidate — such that every edge is `≤ cut`, *fewer than `m`* edges are strictly shorter than `cut`,
and every candidate of length `≤ cut` is an edge.  The out-edges of `u` in `searchGraphD` are exactly
the indices of `fin` (`Div.searchGraphD_mem`). -/
theorem searchGraphD_degree (zero eps top : P) (dist : Int → Int → P) (argsort : List P → List Nat)
    (m : Nat) (hm : 0 < m) (N : List (List (Ent P))) (draw1 draw2 : Nat → Nat → Bool) (u : Nat) :
    ((finalRowsD zero eps top dist argsort m N draw1 draw2).row u).length ≤ m ∨
    ∃ cut, cut ∈ ((uniRowsD zero eps top dist argsort N draw1 draw2).row u).map (·.2) ∧
      (∀ e ∈ (finalRowsD zero eps top dist argsort m N draw1 draw2).row u, e.2 ≤ cut) ∧
      (((finalRowsD zero eps top dist argsort m N draw1 draw2).row u).filter
        (fun e => decide (e.2 < cut))).length < m ∧
      (∀ e ∈ (uniRowsD zero eps top dist argsort N draw1 draw2).row u, e.2 ≤ cut →
        e ∈ (finalRowsD zero eps top dist argsort m N draw1 draw2).row u) := by
  rw [finalRowsD_row]
  by_cases hu : u < N.length
  · simp only [hu, ↓reduceIte]
    rcases prune_bound zero m hm ((uniRowsD zero eps top dist argsort N draw1 draw2).row u) with h | h
    · exact Or.inl h
    · obtain ⟨cut, h1, h2, h3, h4⟩ := h
      refine Or.inr ⟨cut, h1, h2, h3, ?_⟩
      intro e he hle
      apply h4 e he hle
      rw [uniRowsD_row] at he
      simp only [hu, ↓reduceIte, dropDiag, List.mem_filter] at he
      exact (unionRow_mem _ _ _ _ _ he.1).2.1
  · left; simp [hu]

/-
**Nearest neighbour kept — the full statement.**  For every point `u` whose stored row names
another point, let `v*` be the first entry of the row whose index is not `u` (the list-nearest
other point).  Then after `prepare` (every `diversify_prob`, every `_vertex_order`)
  (i)  row `u` of the search graph is not empty and holds a shortest entry of the symmetrised,
       diversified candidate row (`u` keeps an edge to its nearest neighbour in the graph), and
  (ii) `(u, v*)` is an edge unless `m` strictly shorter edges are kept (points that list `u` but
       that `u`'s own approximate list missed).

Proved below for the pipeline model in caller numbering, for EVERY outcome of the generator tests of
both passes (`draw1`, `draw2` arbitrary: every `diversify_prob`, every generator state), under the
invariants a real neighbour row has:
  * `hpre`  — the entries stored before `v*` have real indices and length `≤ eps` (the point itself
              at distance 0, exact duplicates): they can never pass the `> FLOAT32_EPS` guard;
  * `hpost` — the entries stored after it are at least as long (`deheap_sort`, C11);
  * `argsort` returns an ascending arrangement (any tie order);
  * `zero < eps`;
and one of
  * `htie`  (`searchGraph_nearest`)      — no OTHER point stored after `v*` at exactly the same
              length is strictly closer to `v*` than `u` is (vacuous when `v*` is the unique
              list-nearest point, the case `harness/c16.py` tests (ii) in); no symmetry needed;
  * `hfwd` + `hsym` (`searchGraph_nearest_fwd1`) — the forward pass of row `u` prunes on every
              successful test and the distance table is symmetric (the metric kernels are, bit for
              bit): a tied closer point was then removed by the forward pass already.  The second
              pass may draw anything.  `searchGraph_nearest_partial` is the case `diversify_prob = 1`.
Neither can be dropped for (ii): with `diversify_prob < 1` a tied later entry `y` that is closer to
`v*` can survive the forward pass by luck, an unstable `argsort` can visit `y` before `v*` in the
second pass, and `y` then occludes `v*` (the example `tieN` at the end: symmetric table, ascending
row, ONE draw stream shared by both passes as in the code — and `(u, v*)` is no edge; the real
kernels do the same on crafted rows of 17 and more entries of equal length, where numba's `argsort`
is not stable: `diversify`, the scipy glue and `diversify_csr` with one `rng_state`, probability
0.2 – 0.5, drop the first other entry of such a row in about one case of six).  What holds
without them is `searchGraph_nearest_tied`: `u` keeps an edge to `v*` *or to a point tied with it*,
which is (i).
The final renaming by `_vertex_order` is the subject of `searchGraphD_renamed` below (and is undone and
checked edge for edge by the harness).
-/

/-- **Nearest neighbour kept, every `diversify_prob`** (see the comment above for the full
statement and what is missing).  Whatever the generator tests of the two passes return, the
list-nearest other point `x = (v, d)` of `u` survives the forward pass, the protection, the second
greedy pass, the symmetrisation and the diagonal removal with some length `w'`; row `u` of the
final graph holds a shortest entry of that candidate row (so it is not empty); and `(u, v)` itself
is an edge unless at least `m` kept edges are strictly shorter than `w'`.
`htie`: no other point stored after `v` at exactly the length `d` is strictly closer to `v` than
`d` (the test the second kernel would evaluate with `v` as candidate). -/
theorem searchGraph_nearest (zero eps top : P) (hze : zero < eps) (dist : Int → Int → P)
    (argsort : List P → List Nat)
    (hbound : ∀ lens, ∀ i ∈ argsort lens, i < lens.length) (hnd : ∀ lens, (argsort lens).Nodup)
    (hsorted : ∀ lens, (argsort lens).Pairwise
      (fun a b => ∀ p q, lens[a]? = some p → lens[b]? = some q → p ≤ q))
    (draw1 draw2 : Nat → Nat → Bool)
    (m : Nat) (hm : 0 < m) (N : List (List (Ent P))) (u v : Nat) (d : P)
    (hu : u < N.length) (hv : v < N.length) (hne : v ≠ u)
    (pre post : List (Ent P)) (hrow : N.getD u [] = pre ++ ((v : Int), d) :: post)
    (hpre : ∀ e ∈ pre, 0 ≤ e.1 ∧ e.2 ≤ eps) (hpost : ∀ e ∈ post, d ≤ e.2)
    (htie : ∀ e ∈ post, e.2 = d → e.1 ≠ (v : Int) → ¬ dist (v : Int) e.1 < d) :
    ∃ w', ((v : Int), w') ∈ (uniRowsD zero eps top dist argsort N draw1 draw2).row u ∧
      (∃ e ∈ (finalRowsD zero eps top dist argsort m N draw1 draw2).row u,
          ∀ e' ∈ (uniRowsD zero eps top dist argsort N draw1 draw2).row u, e.2 ≤ e'.2) ∧
      ((u, (v : Int)) ∈ searchGraphD zero eps top dist argsort m N draw1 draw2 ∨
        m ≤ (((finalRowsD zero eps top dist argsort m N draw1 draw2).row u).filter
          (fun e => decide (e.2 < w'))).length) := by
  apply nearest_of_snd zero eps top hze dist argsort m hm N draw1 draw2 u v (protect zero eps d) hu hv hne
  rw [sndRowsD_row, fwdRowsD_row]
  simp only [hu, ↓reduceIte, hrow]
  apply secondRowD_keeps zero eps top hze dist argsort hbound hnd hsorted (draw1 u) (draw2 u) pre post
    ((v : Int), d) (by simp) hpre hpost
  intro y _ hy hyx hy2 _
  apply htie y hy hy2
  intro h1
  exact hyx (Prod.ext h1 hy2)

/-- **Nearest neighbour kept, forward pass of row `u` with probability 1, any second pass**: the
conclusion of `searchGraph_nearest` with ties allowed (`htie` dropped), when the table is symmetric
and every successful test of the forward pass *in row `u`* prunes (`hfwd`; the other rows and the
whole second pass may draw anything). -/
theorem searchGraph_nearest_fwd1 (zero eps top : P) (hze : zero < eps) (dist : Int → Int → P)
    (hsym : ∀ a b, dist a b = dist b a) (argsort : List P → List Nat)
    (hbound : ∀ lens, ∀ i ∈ argsort lens, i < lens.length) (hnd : ∀ lens, (argsort lens).Nodup)
    (hsorted : ∀ lens, (argsort lens).Pairwise
      (fun a b => ∀ p q, lens[a]? = some p → lens[b]? = some q → p ≤ q))
    (draw1 draw2 : Nat → Nat → Bool)
    (m : Nat) (hm : 0 < m) (N : List (List (Ent P))) (u v : Nat) (d : P)
    (hfwd : ∀ c, draw1 u c = true)
    (hu : u < N.length) (hv : v < N.length) (hne : v ≠ u)
    (pre post : List (Ent P)) (hrow : N.getD u [] = pre ++ ((v : Int), d) :: post)
    (hpre : ∀ e ∈ pre, 0 ≤ e.1 ∧ e.2 ≤ eps) (hpost : ∀ e ∈ post, d ≤ e.2) :
    ∃ w', ((v : Int), w') ∈ (uniRowsD zero eps top dist argsort N draw1 draw2).row u ∧
      (∃ e ∈ (finalRowsD zero eps top dist argsort m N draw1 draw2).row u,
          ∀ e' ∈ (uniRowsD zero eps top dist argsort N draw1 draw2).row u, e.2 ≤ e'.2) ∧
      ((u, (v : Int)) ∈ searchGraphD zero eps top dist argsort m N draw1 draw2 ∨
        m ≤ (((finalRowsD zero eps top dist argsort m N draw1 draw2).row u).filter
          (fun e => decide (e.2 < w'))).length) := by
  apply nearest_of_snd zero eps top hze dist argsort m hm N draw1 draw2 u v (protect zero eps d) hu hv hne
  have h1 : draw1 u = fun _ => true := funext hfwd
  rw [sndRowsD_row, fwdRowsD_row]
  simp only [hu, ↓reduceIte, hrow, h1]
  exact secondRowD_keeps_fwd1 zero eps top hze dist hsym argsort hbound hnd hsorted (draw2 u) pre post
    ((v : Int), d) (by simp) hpre hpost

/-- **A nearest neighbour is kept — ties, every `diversify_prob`, every tie order** (part (i) of the
full statement).  With no hypothesis on tied entries beyond their being other real points
(`hreal`), whatever the generator tests return there is a point `t` — `v` itself or a point stored
after it at exactly the same length `d` — that survives both passes, the symmetrisation and the
diagonal removal; row `u` of the final graph holds a shortest entry of the candidate row (so it is
not empty); and `(u, t)` is an edge unless at least `m` kept edges are strictly shorter. -/
theorem searchGraph_nearest_tied (zero eps top : P) (hze : zero < eps) (dist : Int → Int → P)
    (argsort : List P → List Nat)
    (hbound : ∀ lens, ∀ i ∈ argsort lens, i < lens.length) (hnd : ∀ lens, (argsort lens).Nodup)
    (hsorted : ∀ lens, (argsort lens).Pairwise
      (fun a b => ∀ p q, lens[a]? = some p → lens[b]? = some q → p ≤ q))
    (draw1 draw2 : Nat → Nat → Bool)
    (m : Nat) (hm : 0 < m) (N : List (List (Ent P))) (u v : Nat) (d : P)
    (hu : u < N.length) (hv : v < N.length) (hne : v ≠ u)
    (pre post : List (Ent P)) (hrow : N.getD u [] = pre ++ ((v : Int), d) :: post)
    (hpre : ∀ e ∈ pre, 0 ≤ e.1 ∧ e.2 ≤ eps) (hpost : ∀ e ∈ post, d ≤ e.2)
    (hreal : ∀ e ∈ post, e.2 = d → ∃ t : Nat, e.1 = (t : Int) ∧ t < N.length ∧ t ≠ u) :
    ∃ (t : Nat) (w' : P), (t = v ∨ ((t : Int), d) ∈ post) ∧
      ((t : Int), w') ∈ (uniRowsD zero eps top dist argsort N draw1 draw2).row u ∧
      (∃ e ∈ (finalRowsD zero eps top dist argsort m N draw1 draw2).row u,
          ∀ e' ∈ (uniRowsD zero eps top dist argsort N draw1 draw2).row u, e.2 ≤ e'.2) ∧
      ((u, (t : Int)) ∈ searchGraphD zero eps top dist argsort m N draw1 draw2 ∨
        m ≤ (((finalRowsD zero eps top dist argsort m N draw1 draw2).row u).filter
          (fun e => decide (e.2 < w'))).length) := by
  obtain ⟨y, hy, hsnd⟩ := secondRowD_keeps_tied zero eps top hze dist argsort hbound hnd hsorted
    (draw1 u) (draw2 u) pre post ((v : Int), d) (by simp) hpre hpost
  have hsnd' : ∀ t : Nat, y.1 = (t : Int) →
      ((t : Int), protect zero eps d) ∈ (sndRowsD zero eps top dist argsort N draw1 draw2).row u := by
    intro t ht
    rw [sndRowsD_row, fwdRowsD_row]
    simp only [hu, ↓reduceIte, hrow]
    rw [← ht]; exact hsnd
  rcases hy with hy | ⟨hy, hy2⟩
  · obtain ⟨w', h⟩ := nearest_of_snd zero eps top hze dist argsort m hm N draw1 draw2 u v _ hu hv hne
      (hsnd' v (by rw [hy]))
    exact ⟨v, w', Or.inl rfl, h⟩
  · obtain ⟨t, ht, htn, htu⟩ := hreal y hy hy2
    obtain ⟨w', h⟩ := nearest_of_snd zero eps top hze dist argsort m hm N draw1 draw2 u t _ hu htn htu
      (hsnd' t ht)
    refine ⟨t, w', Or.inr ?_, h⟩
    have : y = ((t : Int), d) := Prod.ext ht hy2
    rw [← this]; exact hy

/-- **Nearest neighbour kept, `diversify_prob = 1`** (the instance of `searchGraph_nearest_fwd1`
that was proved first; name kept).
The list-nearest other point `x = (v, d)` of `u` survives the forward pass, the protection, the
second greedy pass, the symmetrisation and the diagonal removal with some length `w'`; row `u` of
the final graph holds a shortest entry of that candidate row (so it is not empty); and `(u, v)`
itself is an edge unless at least `m` kept edges are strictly shorter than `w'`. -/
theorem searchGraph_nearest_partial (zero eps top : P) (hze : zero < eps) (dist : Int → Int → P)
    (hsym : ∀ a b, dist a b = dist b a) (argsort : List P → List Nat)
    (hbound : ∀ lens, ∀ i ∈ argsort lens, i < lens.length) (hnd : ∀ lens, (argsort lens).Nodup)
    (hsorted : ∀ lens, (argsort lens).Pairwise
      (fun a b => ∀ p q, lens[a]? = some p → lens[b]? = some q → p ≤ q))
    (m : Nat) (hm : 0 < m) (N : List (List (Ent P))) (u v : Nat) (d : P)
    (hu : u < N.length) (hv : v < N.length) (hne : v ≠ u)
    (pre post : List (Ent P)) (hrow : N.getD u [] = pre ++ ((v : Int), d) :: post)
    (hpre : ∀ e ∈ pre, 0 ≤ e.1 ∧ e.2 ≤ eps) (hpost : ∀ e ∈ post, d ≤ e.2) :
    ∃ w', ((v : Int), w') ∈ (uniRows zero eps top dist argsort N).row u ∧
      (∃ e ∈ (finalRows zero eps top dist argsort m N).row u,
          ∀ e' ∈ (uniRows zero eps top dist argsort N).row u, e.2 ≤ e'.2) ∧
      ((u, (v : Int)) ∈ searchGraph zero eps top dist argsort m N ∨
        m ≤ (((finalRows zero eps top dist argsort m N).row u).filter (fun e => decide (e.2 < w'))).length) :=
  searchGraph_nearest_fwd1 zero eps top hze dist hsym argsort hbound hnd hsorted
    (fun _ _ => true) (fun _ _ => true) m hm N u v d (fun _ => rfl) hu hv hne pre post hrow hpre hpost

/-! ## The final renaming by `_vertex_order`

`self._search_graph = self._search_graph[vo, :].tocsc()[:, vo]`: entry `(i, j)` of the stored graph is entry
`(vo[i], vo[j])` of the graph in caller numbering.  `vo` is a permutation of `0 … n-1` (the leaf order of the first search
tree, or the identity). -/

/-- `(i, j)` is an edge of the stored (internally numbered) graph -/
def RelEdge (vo : Nat → Nat) (E : List (Nat × Int)) (i j : Nat) : Prop := (vo i, (vo j : Int)) ∈ E

/-- **The clauses survive the renaming.**  For every draw stream and every permutation `vo` of `0 … n-1`: a stored edge never is a self-loop, it
joins two points of which (in caller numbering) one lists the other, and point `i` has exactly as many stored out-edges as
`vo i` has in caller numbering — so the degree bound and "keeps an edge to its nearest one" carry over verbatim. -/
theorem searchGraphD_renamed (zero eps top : P) (dist : Int → Int → P) (argsort : List P → List Nat)
    (m : Nat) (N : List (List (Ent P))) (draw1 draw2 : Nat → Nat → Bool) (vo : Nat → Nat) (n : Nat)
    (hperm : ((List.range n).map vo).Perm (List.range n)) :
    let E := searchGraphD zero eps top dist argsort m N draw1 draw2
    (∀ i j, i < n → j < n → RelEdge vo E i j → i ≠ j) ∧
    (∀ i j, RelEdge vo E i j → Lists N (vo i) (vo j : Int) ∨ Lists N (vo j) (vo i : Int)) ∧
    (∀ i, ((List.range n).filter (fun j => decide ((vo i, (vo j : Int)) ∈ E))).length =
          ((List.range n).filter (fun (v : Nat) => decide ((vo i, (v : Int)) ∈ E))).length) := by
  intro E
  refine ⟨?_, ?_, ?_⟩
  · intro i j hi hj h hij
    have := (searchGraphD_no_self_loops zero eps top dist argsort m N draw1 draw2 _ _ h).2.2.2
    subst hij
    exact this rfl
  · intro i j h
    have := searchGraphD_subgraph zero eps top dist argsort m N draw1 draw2 _ _ h
    simpa using this
  · intro i
    have h1 : ((List.range n).filter (fun j => decide ((vo i, (vo j : Int)) ∈ E))).length =
        (((List.range n).map vo).filter (fun (v : Nat) => decide ((vo i, (v : Int)) ∈ E))).length := by
      rw [List.filter_map, List.length_map]; rfl
    rw [h1]
    exact (hperm.filter _).length_eq

/-! ## non-vacuity -/

/-- `degree_prune_internal` with `m = 2` on lengths `[5, 1, 3, 3, 7]`: cut = `sorted[1]` = 3,
the entries `5` and `7` are removed, both ties at `3` stay (3 entries kept, 1 strictly below the cut). -/
example : elimZeros 0 (degreePrune 0 2 [((10 : Int), 5), (11, 1), (12, 3), (13, 3), (14, 7)])
    = [(11, 1), (12, 3), (13, 3)] := by decide

/-- rows no longer than the bound are untouched; `m = 0` wraps to the maximum and cuts nothing -/
example : elimZeros 0 (degreePrune 0 3 [((10 : Int), 5), (11, 1), (12, 3)]) = [(10, 5), (11, 1), (12, 3)] ∧
    elimZeros 0 (degreePrune 0 0 [((10 : Int), 5), (11, 1), (12, 3)]) = [(10, 5), (11, 1), (12, 3)] := by
  decide

/-- Four points on a line at `0, 2, 5, 11` (`P = Nat`, lengths scaled so that `eps = 1`, `zero = 0`),
neighbour lists of 3 (self first).  Forward pass: point 0 keeps only 1 (2 and 3 are behind it),
point 1 keeps 0 and 2, point 2 keeps 1 and 3, point 3 keeps 2; the symmetrised graph is the path
`0 - 1 - 2 - 3`; with `m = 1` every point keeps only its nearest neighbour.
(`decide +kernel`: the stages are `Array`s, whose operations the elaborator's `decide` does not
unfold; kernel evaluation adds no axioms.) -/
def lineX : List Nat := [0, 2, 5, 11]
def lineD (a b : Int) : Nat :=
  let p := lineX.getD a.toNat 0; let q := lineX.getD b.toNat 0
  10 * (if p ≤ q then q - p else p - q)
def lineN : List (List (Ent Nat)) :=
  [[(0, 0), (1, 20), (2, 50)], [(1, 0), (0, 20), (2, 30)], [(2, 0), (1, 30), (3, 60)], [(3, 0), (2, 60), (1, 90)]]

example : searchGraph 0 1 1000 lineD stableArgsort 2 lineN
    = [(0, 1), (1, 0), (1, 2), (2, 1), (2, 3), (3, 2)] := by decide +kernel
example : searchGraph 0 1 1000 lineD stableArgsort 1 lineN
    = [(0, 1), (1, 0), (2, 1), (3, 2)] := by decide +kernel

/-- the historical names are the instances for `diversify_prob = 1`, by definition -/
example (zero eps top : P) (dist : Int → Int → P) (argsort : List P → List Nat) (m : Nat)
    (N : List (List (Ent P))) :
    searchGraph zero eps top dist argsort m N =
      searchGraphD zero eps top dist argsort m N (fun _ _ => true) (fun _ _ => true) := rfl

/-- A draw stream that is not constant (the same in both passes, as in the code): the first
successful test of row 0 does not prune, everything else does.  Point 0 then keeps the edge to
point 2 (behind point 1) through both passes, point 2 gains the reverse edge `(2, 0)` of length 50
and, with `m = 2`, loses its longest candidate `(2, 3)` to the degree bound; `(3, 2)` stays.
With `m = 1` the draws do not show: every point keeps its nearest neighbour only. -/
def lineDraw : Nat → Nat → Bool := fun u c => decide (u ≠ 0 ∨ 0 < c)

example : searchGraphD 0 1 1000 lineD stableArgsort 2 lineN lineDraw lineDraw
    = [(0, 1), (0, 2), (1, 0), (1, 2), (2, 0), (2, 1), (3, 2)] := by decide +kernel
example : (uniRowsD 0 1 1000 lineD stableArgsort lineN lineDraw lineDraw).row 2
    = [(0, 50), (1, 30), (3, 60)] := by decide +kernel
example : searchGraphD 0 1 1000 lineD stableArgsort 1 lineN lineDraw lineDraw
    = [(0, 1), (1, 0), (2, 1), (3, 2)] := by decide +kernel
/-- probability 0 in both passes: nothing is diversified away, only the degree bound cuts -/
example : searchGraphD 0 1 1000 lineD stableArgsort 2 lineN (fun _ _ => false) (fun _ _ => false)
    = [(0, 1), (0, 2), (1, 0), (1, 2), (2, 0), (2, 1), (3, 1), (3, 2)] := by decide +kernel

/-- **`htie` cannot be dropped when `diversify_prob < 1`.**  Point 0 lists the points 1, 3, 2 at the
same length 20 (ascending row, self first); these three are at distance 10 from each other (a
symmetric table); none of them lists point 0.  One draw stream, shared by both passes as in the code:
the second successful test does not prune, all others do.  Forward pass of row 0: 3 is removed
(test 0 against 1), 2 survives (test 1).  Second pass with an `argsort` that returns tied positions
in reverse storage order (`revStableArgsort`, an ascending arrangement like any other): 2 is visited
before 1 and occludes it (test 0 prunes).  Row 0 is left with the edge to 2 only — `(0, 1)` is no
edge although point 1 is the first other point of the list and no edge is shorter (`m = 5`), which
is what `searchGraph_nearest_tied` allows and `searchGraph_nearest` (without `htie`) would forbid.
With the stable order, or with probability 1, `(0, 1)` is kept. -/
def tieD (a b : Int) : Nat := if a = b then 0 else if a = 0 ∨ b = 0 then 20 else 10
def tieN : List (List (Ent Nat)) :=
  [[(0, 0), (1, 20), (3, 20), (2, 20)], [(1, 0), (2, 10), (3, 10)], [(2, 0), (1, 10), (3, 10)],
   [(3, 0), (1, 10), (2, 10)]]
def tieDraw : Nat → Nat → Bool := fun _ c => decide (c ≠ 1)

example : (fwdRowsD 0 1 1000 tieD tieN tieDraw).row 0 = [(0, 1), (1, 20), (2, 20)] := by decide +kernel
example : (uniRowsD 0 1 1000 tieD revStableArgsort tieN tieDraw tieDraw).row 0 = [(2, 20)] := by
  decide +kernel
example : searchGraphD 0 1 1000 tieD revStableArgsort 5 tieN tieDraw tieDraw
    = [(0, 2), (1, 2), (1, 3), (2, 0), (2, 1), (2, 3), (3, 1), (3, 2)] := by decide +kernel
example : (0, 1) ∈ searchGraphD 0 1 1000 tieD stableArgsort 5 tieN tieDraw tieDraw ∧
    (0, 1) ∈ searchGraph 0 1 1000 tieD revStableArgsort 5 tieN := by decide +kernel

/-- **The hypotheses on `argsort` are satisfiable** (`Div.ArgsortOk` = `hbound ∧ hnd ∧ hsorted` of
the theorems above, for every input): by the stable order and by the order that returns ties in
reverse storage order — two of the arrangements an unstable `np.argsort` may return. -/
theorem argsort_hypotheses_satisfiable :
    ArgsortOk (stableArgsort (P := P)) ∧ ArgsortOk (revStableArgsort (P := P)) :=
  ⟨stableArgsort_ok, revStableArgsort_ok⟩

/-- **`searchGraph_nearest` is false without `htie`** (and `searchGraph_nearest_partial` is false
for `diversify_prob < 1`): the instance above satisfies every other hypothesis — `zero < eps`,
a symmetric table, an admissible `argsort`, the row of point 0 split as `pre ++ (1, 20) :: post` with
`hpre` and `hpost` — the two passes even share one draw stream, and yet point 1 is not in the
candidate row of point 0, so the first conjunct of the conclusion fails. -/
theorem searchGraph_nearest_needs_htie :
    (0 : Nat) < 1 ∧ (∀ a b, tieD a b = tieD b a) ∧ ArgsortOk (revStableArgsort (P := Nat)) ∧
    tieN.getD 0 [] = [(0, 0)] ++ (((1 : Nat) : Int), 20) :: [(3, 20), (2, 20)] ∧
    (∀ e ∈ [((0 : Int), 0)], 0 ≤ e.1 ∧ e.2 ≤ 1) ∧ (∀ e ∈ [((3 : Int), 20), (2, 20)], 20 ≤ e.2) ∧
    ¬ ∃ w', (((1 : Nat) : Int), w') ∈ (uniRowsD 0 1 1000 tieD revStableArgsort tieN tieDraw tieDraw).row 0 := by
  refine ⟨by decide, ?_, revStableArgsort_ok, by decide, by decide, by decide, ?_⟩
  · intro a b
    unfold tieD
    by_cases h1 : a = b
    · subst h1; rfl
    · have h2 : ¬ b = a := fun h => h1 h.symm
      simp only [h1, h2, ↓reduceIte, or_comm]
  · have h : (uniRowsD 0 1 1000 tieD revStableArgsort tieN tieDraw tieDraw).row 0 = [(2, 20)] := by
      decide +kernel
    rw [h]
    simp

/-! ## the translated `degree_prune_internal` (`Gen/SearchGraphKernels.lean`) refines the model

`GenSG.degree_prune_internal fuel indptr data max_degree` is the syntax-directed translation of the
source text of `pynndescent_.degree_prune_internal` (`harness/translate_searchgraph.py`, re-run by
`check` before every build): `Option` monad, `none` = out-of-bounds load / store or fuel exhausted;
`prange` as `range`; the row view `data[indptr[i]:indptr[i+1]]` as a copy (it is only read before
the stores); `np.sort` is the UNINTERPRETED `SortFn.sortArr`.  Helper lemmas:
`Proofs/GenSearchGraph.lean`. -/
section KernelTie
open Pynn.GenSearchGraphProofs Pynn.GenSG

/-- any function that returns an ascending permutation of its argument IS the model's `sortP`
(over a linear order the ascending rearrangement is unique): the hypothesis `hsort` of the theorems
below is "`np.sort` sorts" -/
theorem sort_hypothesis_of_ascending_perm (f : Array P → Array P)
    (hf : ∀ a, (f a).toList.Perm a.toList ∧ (f a).toList.Pairwise (· ≤ ·)) (a : Array P) :
    (f a).toList = sortP a.toList :=
  List.Perm.eq_of_pairwise (le := (· ≤ ·)) (fun x y _ _ h1 h2 => le_antisymm h1 h2) (hf a).2
    (sortP_sorted a.toList) ((hf a).1.trans (sortP_perm a.toList).symm)

/-- **`degree_prune_internal` (translated source) = the model `degreePrune` row by row, memory
safe.**  For every well-formed CSR (`CsrOk`: row pointers non-negative, non-decreasing, within
`data`), every `max_degree = m ≥ 1`, every sort function that sorts (`hsort`) and fuel
`≥ len(indptr) + len(data) + 2`: the translated kernel performs no out-of-bounds load or store,
terminates, and returns `data'` of the same length such that, whatever the column array `cols`
of the CSR matrix is, every row `(cols, data')[indptr[i]:indptr[i+1]]` is the model's
`degreePrune 0 m` of the row `(cols, data)[indptr[i]:indptr[i+1]]` (entries `> cut_value` become
`0.0`, `cut_value = np.sort(row)[m - 1]`, rows with at most `m` entries untouched). -/
theorem kernel_degree_prune_internal_refines [OfNat P 0] [SortFn P] (m : Nat) (hm : 0 < m)
    (indptr : Array Int) (data : Array P) (hc : CsrOk indptr data.size) (hn : 0 < indptr.size)
    (hsort : ∀ a : Array P, (SortFn.sortArr a).toList = sortP a.toList)
    (fuel : Nat) (hf : indptr.size + data.size + 2 ≤ fuel) :
    ∃ data', GenSG.degree_prune_internal fuel indptr data (m : Int) = some data' ∧
      data'.size = data.size ∧
      ∀ i, i < indptr.size - 1 → ∀ cols : Array Int, cols.size = data.size →
        (rowOf indptr cols i).toList.zip (rowOf indptr data' i).toList
          = degreePrune (0 : P) m ((rowOf indptr cols i).toList.zip (rowOf indptr data i).toList) := by
  have hs : ∀ a : Array P, (SortFn.sortArr a).size = a.size := by
    intro a
    have := congrArg List.length (hsort a)
    rw [(sortP_perm a.toList).length_eq] at this
    simpa using this
  refine ⟨_, degree_prune_internal_run m hm indptr data hc hs hn fuel hf, ?_, ?_⟩
  · have : ∀ (c k : Nat) (d : Array P), (pruneFrom m indptr c k d).size = d.size := by
      intro c
      induction c with
      | zero => intro k d; rfl
      | succ c ih => intro k d; rw [pruneFrom, ih, pruneStep_size]
    exact this _ _ _
  · intro i hi cols hcols
    have hrow := pruneFrom_rows m indptr data hc (indptr.size - 1) 0 data (by omega) rfl
      (fun _ _ => rfl) (fun _ h => absurd h (Nat.not_lt_zero _)) i hi
    rw [hrow]
    apply prunedVals_model m hm hsort
    have h1 : i + 1 < indptr.size := by omega
    have hle := hc.mono i (i + 1) (by omega) h1
    have hhi := hc.last (i + 1) h1
    simp only [rowOf, Array.length_toList, Array.size_extract, hcols]

/-- **`prune_bound` / `prune_keeps_min` on the translated kernel**: after `eliminate_zeros()` every
row of the translated kernel's output keeps at most `m` entries or has a cut length (fewer than `m`
kept entries strictly below it, all kept entries `≤` it, every non-zero entry `≤` it kept), and a
non-zero shortest entry of a row is always kept. -/
theorem kernel_degree_prune_bound [OfNat P 0] [SortFn P] (m : Nat) (hm : 0 < m)
    (indptr : Array Int) (data : Array P) (hc : CsrOk indptr data.size) (hn : 0 < indptr.size)
    (hsort : ∀ a : Array P, (SortFn.sortArr a).toList = sortP a.toList)
    (fuel : Nat) (hf : indptr.size + data.size + 2 ≤ fuel) (cols : Array Int)
    (hcols : cols.size = data.size) (i : Nat) (hi : i < indptr.size - 1) :
    ∃ data', GenSG.degree_prune_internal fuel indptr data (m : Int) = some data' ∧
      let row := (rowOf indptr cols i).toList.zip (rowOf indptr data i).toList
      let out := elimZeros (0 : P) ((rowOf indptr cols i).toList.zip (rowOf indptr data' i).toList)
      (out.length ≤ m ∨ ∃ cut, cut ∈ row.map (·.2) ∧ (∀ e ∈ out, e.2 ≤ cut) ∧
        (out.filter (fun e => decide (e.2 < cut))).length < m ∧
        (∀ e ∈ row, e.2 ≤ cut → isZero (0 : P) e.2 = false → e ∈ out)) ∧
      (∀ e ∈ row, (∀ e' ∈ row, e.2 ≤ e'.2) → isZero (0 : P) e.2 = false → e ∈ out) := by
  obtain ⟨data', h1, _, h3⟩ :=
    kernel_degree_prune_internal_refines m hm indptr data hc hn hsort fuel hf
  refine ⟨data', h1, ?_⟩
  simp only [h3 i hi cols hcols]
  exact ⟨prune_bound 0 m hm _, fun e he hmin hnz => prune_keeps_min 0 m _ e he hmin hnz⟩

/-- non-vacuity of `hsort`: the model's own sort as the sort function -/
example : ∃ _ : SortFn Nat, ∀ a : Array Nat, (SortFn.sortArr a).toList = sortP a.toList :=
  ⟨⟨fun a => (sortP a.toList).toArray⟩, fun _ => rfl⟩

/-- the translated kernel executed: CSR rows `[5,1,3]`, `[2]`, `[4,4,9,1]` with `max_degree = 2`
(cut values 3 and 4): entries above the cut (5, 9) become 0, the short row is untouched -/
example : (letI : SortFn Nat := ⟨fun a => (sortP a.toList).toArray⟩
    GenSG.degree_prune_internal 20 #[0, 3, 4, 8] #[5, 1, 3, 2, 4, 4, 9, 1] (2 : Int))
      = some #[0, 1, 3, 2, 4, 4, 0, 1] := by decide +kernel

end KernelTie

end Pynn.C16
