import PynnVerif.Proofs.RowWise
import PynnVerif.Proofs.LowHigh
import Mathlib.Data.Nat.Basic  -- `LinearOrder Nat` for the concrete examples at the end

/-!
# C03 — the local join delivers every discovered pair to both endpoints; a single leaf is exact

What is proved here (for every linear order `P` of distances, every graph, every update list):

* `local_join_delivers_both` / `local_join_delivers_both_high`: an update `(p, q, d)` found by the
  local join is offered as `(d, q)` to row `p` **and** as `(d, p)` to row `q`, and the rows after
  `apply_graph_updates_low_memory` (any thread count) / `apply_graph_updates_high_memory` are
  exactly the rows fed with these offers in update order — no pair reaches one endpoint only.
* `single_leaf_exact`: `init_rp_tree` on an empty graph with one leaf that enumerates all points
  leaves in every row the `k` nearest other points, exactly (up to distance ties).

What is **not** a theorem: the recall floors of the property (≥ 90 % of the true neighbours in the
graph, ≥ 80 % for queries) are statistical statements about random data and random projection
trees.  They are measured by the harness on the real code, not proved; the theorems below are the
deterministic facts those measurements rest on.
-/
namespace Pynn.C03
open Pynn
variable {P : Type} [LinearOrder P]

/-- **Both endpoints are served (low-memory path).**  For any positive thread count:
every update `u = (p, q, d)` contributes the offer `(d, q)` to row `p` and the offer `(d, p)` to
row `q`; the offers of a row are nothing but these; and after `apply_graph_updates_low_memory`
row `r` is its old content fed (through `checked_flagged_heap_push(…, 1)`) with its offers, in
update order.  (Rows outside the graph do not exist before or after: `[r]?` is `none`.) -/
theorem local_join_delivers_both (T : Nat) (hT : 0 < T) (g : Graph P) (ups : List (Upd P)) :
    (∀ u ∈ ups, (u.d, (u.q : Int)) ∈ offersFor u.p ups ∧ (u.d, (u.p : Int)) ∈ offersFor u.q ups) ∧
    (∀ r o, o ∈ offersFor r ups ↔
      ∃ u ∈ ups, (u.p = r ∧ o = (u.d, (u.q : Int))) ∨ (u.q = r ∧ o = (u.d, (u.p : Int)))) ∧
    (∀ r, (applyLow T g ups).1[r]? = g[r]?.map (fun row => feed row (offersFor r ups))) := by
  refine ⟨?_, fun r o => mem_offersFor r ups o, fun r => applyLow_row T hT g ups r⟩
  intro u hu
  exact ⟨(mem_offersFor _ _ _).mpr ⟨u, hu, Or.inl ⟨rfl, rfl⟩⟩,
         (mem_offersFor _ _ _).mpr ⟨u, hu, Or.inr ⟨rfl, rfl⟩⟩⟩

/-- **Both endpoints are served (high-memory path).**  Under the hypotheses of C12 (well-formed
graph, record invariant, truthful updates of a symmetric distance) the rows after
`apply_graph_updates_high_memory` are the same feeds: the pushes it skips are pushes the heap
would have rejected. -/
theorem local_join_delivers_both_high (top : P) (n k : Nat) (dist : Nat → Nat → P)
    (hsymm : ∀ a b, dist a b = dist b a) (g : Graph P) (s : InGraph) (ups : List (Upd P))
    (hG : GraphInv top n k dist g) (hI : InGraphInv dist g s) (hTr : Truthful dist ups) :
    ∀ r, (applyHigh g ups s).1.1[r]? = g[r]?.map (fun row => feed row (offersFor r ups)) := by
  intro r
  rw [(applyHigh_eq_applyLow_ht hsymm 1 Nat.one_pos g ups s hG.heapTruth hI hTr).1]
  exact applyLow_row 1 Nat.one_pos g ups r

/-- **The self pair.**  The `k ≥ j` enumeration of the local join emits `(p, p, 0)`; row `p` is
then offered `(d, p)` twice in a row, and the second offer changes neither the row nor the change
count (it is a duplicate if the first was accepted, and is rejected again otherwise). -/
theorem self_pair_offered_twice_is_noop (u : Upd P) (h : u.p = u.q) (row : Row P) :
    offersFor u.p [u] = [(u.d, (u.p : Int)), (u.d, (u.p : Int))] ∧
    feed row (offersFor u.p [u]) = feed row [(u.d, (u.p : Int))] ∧
    feedCount row (offersFor u.p [u]) = feedCount row [(u.d, (u.p : Int))] := by
  rw [offersFor_self u h]
  exact ⟨rfl, (self_pair_noop row u.d u.p).1, (self_pair_noop row u.d u.p).2⟩

/-- **A single leaf is exact.**  Let `leaf` enumerate the points `0..n-1` exactly once (trailing
`-1` padding allowed), `dist` be symmetric with finite values, and
`g = init_rp_tree(empty graph, [leaf])`.  Then `g` has `n` rows of `k` slots and every row `p`:
(i) satisfies the top-k invariant `RowInv` for the offer set "all other points";
(ii) for every other point `q`: `q` is held, or every held neighbour is at most as far as `q` —
the row holds the `k` nearest other points, exactly, up to distance ties;
(iii) is full when `k ≤ n - 1`; and holds only other points (never `p` itself).
(All thresholds of the empty graph are `top`, so `generate_leaf_updates` emits every pair `i < j`
and both directions are pushed.)  The later refinement keeps this: by C13 a row's content only
improves, and the point itself enters its own row only through the `k ≥ j` enumeration of the
first local join (`self_pair_offered_twice_is_noop`). -/
theorem single_leaf_exact (top : P) (htop : ∀ x : P, x ≤ top) (dist : Nat → Nat → P)
    (hsymm : ∀ a b, dist a b = dist b a) (n k : Nat)
    (hfin : ∀ p q, p < n → q < n → dist p q < top) (leaf : List Int)
    (hleaf : (takeValid leaf).Perm (List.range n)) :
    let g := initRpTree top dist (mkGraph top n k) [leaf]
    g.size = n ∧
    ∀ p row, g[p]? = some row →
      row.size = k ∧
      RowInv top (dist p) (((List.range n).filter (fun q => q ≠ p)).map (fun q => (q, true))) row ∧
      (∀ q, q < n → q ≠ p →
        (∃ e ∈ row, e.idx = (q : Int)) ∨ (∀ e ∈ row, 0 ≤ e.idx → e.prio ≤ dist p q)) ∧
      (k ≤ n - 1 → ∀ e ∈ row, 0 ≤ e.idx) ∧
      (∀ e ∈ row, e.idx ≠ (p : Int)) := by
  intro g
  have hVmem : ∀ q, q ∈ takeValid leaf ↔ q < n := fun q => by rw [hleaf.mem_iff, List.mem_range]
  have hVnd : (takeValid leaf).Nodup := hleaf.nodup_iff.mpr List.nodup_range
  -- the update list: every pair of the leaf
  have hups : g = ((pairsLt (takeValid leaf)).map
      (fun pq => (⟨pq.1, pq.2, dist pq.1 pq.2⟩ : Upd P))).foldl applyBoth (mkGraph top n k) := by
    have hthr : threshold top (mkGraph top n k) = fun _ => top := funext (threshold_mkGraph top n k)
    simp only [g, initRpTree, chunks_singleton, List.foldl_cons, List.foldl_nil, List.flatMap_cons,
      List.flatMap_nil, List.append_nil, hthr]
    rw [leafUpdates_top]
    intro pq hpq
    have := mem_of_mem_pairsLt (a := pq.1) (b := pq.2) hpq
    exact hfin _ _ ((hVmem _).mp this.1) ((hVmem _).mp this.2)
  have hsize : g.size = n := by rw [hups, applyBoth_fold_size]; simp [mkGraph]
  refine ⟨hsize, ?_⟩
  intro p row hrow
  have hp : p < n := by
    have := (Array.getElem?_eq_some_iff.mp hrow).1
    omega
  -- row `p` is the empty row fed with the offers of `p`
  rw [hups, applyBoth_fold_row] at hrow
  have h0 : (mkGraph top n k)[p]? = some (mkRow top k) := by simp [mkGraph, hp]
  rw [h0] at hrow
  simp only [Option.map_some, Option.some.injEq] at hrow
  obtain ⟨hform, hset⟩ := offersFor_leaf dist hsymm (takeValid leaf) hVnd p ((hVmem p).mpr hp)
  rw [offers_eq_map (dist p) _ hform, feed_eq_foldl_push] at hrow
  have hinv1 := run_inv true top htop k (dist p)
    (((offersFor p ((pairsLt (takeValid leaf)).map
      (fun pq => (⟨pq.1, pq.2, dist pq.1 pq.2⟩ : Upd P)))).map (fun o => o.2.toNat)).map
        (fun q => (q, true))) nofun
  rw [hrow] at hinv1
  have hinv0 : RowInv top (dist p) (((List.range n).filter (fun q => q ≠ p)).map (fun q => (q, true))) row := by
    refine hinv1.congr ?_
    intro x
    simp only [List.mem_map, List.mem_filter, List.mem_range, decide_eq_true_eq]
    constructor
    · rintro ⟨q, ⟨o, ho, rfl⟩, rfl⟩
      have := (hset o.2.toNat).mp (List.mem_map.mpr ⟨o, ho, rfl⟩)
      exact ⟨_, ⟨(hVmem _).mp this.1, this.2⟩, rfl⟩
    · rintro ⟨q, ⟨hq, hne⟩, rfl⟩
      obtain ⟨o, ho, hoq⟩ := List.mem_map.mp ((hset q).mpr ⟨(hVmem q).mpr hq, hne⟩)
      exact ⟨q, ⟨o, ho, hoq⟩, rfl⟩
  have hrsize : row.size = k := by rw [← hrow]; exact run_size true top k (dist p) _
  have hoff : ∀ q, q < n → q ≠ p →
      (q, true) ∈ ((List.range n).filter (fun q => q ≠ p)).map (fun q => (q, true)) := by
    intro q hq hne
    exact List.mem_map.mpr ⟨q, List.mem_filter.mpr ⟨List.mem_range.mpr hq, by simpa using hne⟩, rfl⟩
  refine ⟨hrsize, hinv0, ?_, ?_, ?_⟩
  · intro q hq hne
    by_cases hheld : ∃ e ∈ row, e.idx = (q : Int)
    · exact Or.inl hheld
    · right
      intro e he hidx
      exact hinv0.best e he hidx (q, true) (hoff q hq hne) (hfin p q hp hq) hheld
  · intro hk
    apply hinv0.full_of_many htop ((List.range n).filter (fun q => q ≠ p))
      (List.nodup_range.filter _)
    · intro q hq
      obtain ⟨hq1, hq2⟩ := List.mem_filter.mp hq
      exact ⟨true, hoff q (List.mem_range.mp hq1) (by simpa using hq2)⟩
    · intro q hq
      exact hfin p q hp (List.mem_range.mp (List.mem_filter.mp hq).1)
    · rw [hrsize]
      have hperm := List.filter_append_perm (fun q => decide (q ≠ p)) (List.range n)
      have hlen := hperm.length_eq
      have hone : ((List.range n).filter (fun q => !decide (q ≠ p))).length ≤ 1 := by
        have hnd : ((List.range n).filter (fun q => !decide (q ≠ p))).Nodup := List.nodup_range.filter _
        have hsub : (List.range n).filter (fun q => !decide (q ≠ p)) ⊆ [p] := by
          intro x hx
          have := (List.mem_filter.mp hx).2
          simp at this
          simp [this]
        exact (List.subperm_of_subset hnd hsub).length_le
      simp only [List.length_append, List.length_range] at hlen
      omega
  · intro e he heq
    obtain ⟨hm, _, _⟩ := hinv0.real e he (by omega)
    obtain ⟨q, hq, hqe⟩ := List.mem_map.mp hm
    have := (List.mem_filter.mp hq).2
    simp only [Prod.mk.injEq] at hqe
    have : q ≠ p := by simpa using this
    omega

/-! ## non-vacuity -/

/-- five points on a line, one leaf in scrambled order with padding, `k = 2`: every row holds its
two nearest other points, nearest first after `deheap_sort`; rows 2 and 3 have a distance tie
(`P = Nat` capped at 100). -/
example :
    ((initRpTree (100 : Nat) (fun a b => if a ≤ b then b - a else a - b) (mkGraph 100 5 2)
        [[3, 0, 4, 1, 2, -1, -1]]).map (fun r => (deheapSort r).toList.map (·.idx))).toList
      = [[1, 2], [0, 2], [3, 1], [4, 2], [3, 2]] := by decide +kernel

/-- an update is delivered to both endpoints, in every thread configuration -/
example :
    ((applyLow 3 (mkGraph (100 : Nat) 4 1) [⟨0, 3, 3⟩, ⟨1, 3, 2⟩]).1.map
        (fun r => r.toList.map (·.idx))).toList = [[3], [3], [-1], [1]] ∧
    applyLow 3 (mkGraph (100 : Nat) 4 1) [⟨0, 3, 3⟩, ⟨1, 3, 2⟩] =
      applyLow 1 (mkGraph (100 : Nat) 4 1) [⟨0, 3, 3⟩, ⟨1, 3, 2⟩] := by decide +kernel

end Pynn.C03
