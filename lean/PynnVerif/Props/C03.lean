import PynnVerif.Proofs.RowWise
import PynnVerif.Proofs.LowHigh
import PynnVerif.Proofs.GenLeafUpdates
import PynnVerif.Proofs.GenGraphUpdates
import PynnVerif.Proofs.GenApplyHigh
import PynnVerif.Proofs.GenInit
import Mathlib.Data.Nat.Basic  -- `LinearOrder Nat` for the concrete examples at the end

/-!
# C03 — the local join delivers every discovered pair to both endpoints; a single leaf is exact

What is proved here (for every linear order `P` of distances, every graph, every update list):

* `local_join_delivers_both` / `local_join_delivers_both_high`: an update `(p, q, d)` found by the
  local join is offered as `(d, q)` to row `p` **and** as `(d, p)` to row `q`, and the rows after
  `apply_graph_updates_low_memory` (any thread count) / `apply_graph_updates_high_memory` are
  exactly the rows fed with these offers in update order — no pair reaches one endpoint only.
* `single_leaf_exact`: `init_rp_tree` on an empty graph with one leaf that enumerates all points
  leaves in every row the `k` nearest other points, exactly (up to distance ties).

What is **not** a theorem: the recall floors of the property (≥ 90 % of the true neighbours in the
graph, ≥ 80 % for queries) are statistical statements about random data and random projection
trees.  They are measured by the harness on the real code, not proved; the theorems below are the
deterministic facts those measurements rest on.
-/
namespace Pynn.C03
open Pynn
variable {P : Type} [LinearOrder P]

/-- **Both endpoints are served (low-memory path).**  For any positive thread count:
every update `u = (p, q, d)` contributes the offer `(d, q)` to row `p` and the offer `(d, p)` to
row `q`; the offers of a row are nothing but these; and after `apply_graph_updates_low_memory`
row `r` is its old content fed (through `checked_flagged_heap_push(…, 1)`) with its offers, in
update order.  (Rows outside the graph do not exist before or after: `[r]?` is `none`.) -/
theorem local_join_delivers_both (T : Nat) (hT : 0 < T) (g : Graph P) (ups : List (Upd P)) :
    (∀ u ∈ ups, (u.d, (u.q : Int)) ∈ offersFor u.p ups ∧ (u.d, (u.p : Int)) ∈ offersFor u.q ups) ∧
    (∀ r o, o ∈ offersFor r ups ↔
      ∃ u ∈ ups, (u.p = r ∧ o = (u.d, (u.q : Int))) ∨ (u.q = r ∧ o = (u.d, (u.p : Int)))) ∧
    (∀ r, (applyLow T g ups).1[r]? = g[r]?.map (fun row => feed row (offersFor r ups))) := by
  refine ⟨?_, fun r o => mem_offersFor r ups o, fun r => applyLow_row T hT g ups r⟩
  intro u hu
  exact ⟨(mem_offersFor _ _ _).mpr ⟨u, hu, Or.inl ⟨rfl, rfl⟩⟩,
         (mem_offersFor _ _ _).mpr ⟨u, hu, Or.inr ⟨rfl, rfl⟩⟩⟩

/-- **Both endpoints are served (high-memory path).**  Under the hypotheses of C12 (well-formed
graph, record invariant, truthful updates of a symmetric distance) the rows after
`apply_graph_updates_high_memory` are the same feeds: the pushes it skips are pushes the heap
would have rejected. -/
theorem local_join_delivers_both_high (top : P) (n k : Nat) (dist : Nat → Nat → P)
    (hsymm : ∀ a b, dist a b = dist b a) (g : Graph P) (s : InGraph) (ups : List (Upd P))
    (hG : GraphInv top n k dist g) (hI : InGraphInv dist g s) (hTr : Truthful dist ups) :
    ∀ r, (applyHigh g ups s).1.1[r]? = g[r]?.map (fun row => feed row (offersFor r ups)) := by
  intro r
  rw [(applyHigh_eq_applyLow_ht hsymm 1 Nat.one_pos g ups s hG.heapTruth hI hTr).1]
  exact applyLow_row 1 Nat.one_pos g ups r

/-- **The self pair.**  The `k ≥ j` enumeration of the local join emits `(p, p, 0)`; row `p` is
then offered `(d, p)` twice in a row, and the second offer changes neither the row nor the change
count (it is a duplicate if the first was accepted, and is rejected again otherwise). -/
theorem self_pair_offered_twice_is_noop (u : Upd P) (h : u.p = u.q) (row : Row P) :
    offersFor u.p [u] = [(u.d, (u.p : Int)), (u.d, (u.p : Int))] ∧
    feed row (offersFor u.p [u]) = feed row [(u.d, (u.p : Int))] ∧
    feedCount row (offersFor u.p [u]) = feedCount row [(u.d, (u.p : Int))] := by
  rw [offersFor_self u h]
  exact ⟨rfl, (self_pair_noop row u.d u.p).1, (self_pair_noop row u.d u.p).2⟩

/-- **`pynndescent_.generate_leaf_updates` is the model's `leafUpdates`.**  `Gen/Kernels.lean` (regenerated from the
source on every run) holds its translation: `dist` a function parameter applied to rows of `data`, one update list
per row of `leaf_block` starting with the placeholder `(-1, -1, inf)`, the two `break`s at the first negative entry,
`for j in range(i + 1, …)`, the short-circuit test `d < thr[p] or d < thr[q]`.  For a rectangular `leaf_block`
(`m` rows of `w` entries) whose non-negative entries are row numbers of `data`, of `dist_thresholds` and `< N`, and
`fuel ≥ m + 2w + 2`: the translated kernel never reads outside an array; list `r` of its result is the placeholder
followed by exactly the model's `leafUpdates` of row `r` — every pair `i < j` of the valid prefix whose distance beats
one of the two thresholds, in the code's order — with `thr p = dist_thresholds[p]`, `dist' p q = dist data[p] data[q]`;
read through `updOf` (placeholders dropped) it *is* that list; and every triple satisfies `OkTriple N`, the
precondition of the appliers' refinement theorems (C12).  No order axioms. -/
theorem kernel_generate_leaf_updates_refines {Q : Type} [LE Q] [LT Q] [DecidableLE Q] [DecidableLT Q]
    (leaf_block : Array (Array Int)) (th : Array Q) (data : Array (Array Q))
    (dist : Array Q → Array Q → Q) (top : Q) (w N : Nat)
    (hw : ∀ r (h : r < leaf_block.size), leaf_block[r].size = w)
    (hok : ∀ r (h : r < leaf_block.size), LeafRowOk leaf_block[r] data.size)
    (hok' : ∀ r (h : r < leaf_block.size), LeafRowOk leaf_block[r] th.size)
    (hN : ∀ r (h : r < leaf_block.size), LeafRowOk leaf_block[r] N)
    (fuel : Nat) (hf : leaf_block.size + w + w + 2 ≤ fuel) :
    ∃ U', GenK.generate_leaf_updates fuel top leaf_block th data dist = some U' ∧ U'.size = leaf_block.size ∧
      (∀ r (h : r < U'.size) (h' : r < leaf_block.size),
        U'[r] = #[((-1 : Int), (-1 : Int), top)] ++
          ((leafUpdates (thrOf th top) (distOf data dist) leaf_block[r].toList).map triple).toArray ∧
        U'[r].toList.filterMap updOf = leafUpdates (thrOf th top) (distOf data dist) leaf_block[r].toList) ∧
      (∀ b ∈ U'.toList, ∀ x ∈ b.toList, OkTriple N x) :=
  generate_leaf_updates_refines' leaf_block th data dist top w N hw hok hok' hN fuel hf

/-- the generated `generate_leaf_updates` executed by the Lean kernel (`Nat` "distances": `dist a b = |a[0] - b[0]|`):
one leaf row `[0, 2, 1, -1]` over the points `5, 9, 6` with thresholds `2, 100, 0`: the pairs `(0,2)` (distance 4: beats
only the threshold of 2) … the hole `-1` ends both loops; a leaf entry `7` beyond `data` makes the kernel read out of bounds -/
example : GenK.generate_leaf_updates 12 (1000 : Nat) #[#[0, 2, 1, -1]] #[2, 0, 100] #[#[5], #[6], #[9]]
      (fun a b => if a[0]! ≤ b[0]! then b[0]! - a[0]! else a[0]! - b[0]!)
    = some #[#[(-1, -1, 1000), (0, 2, 4), (0, 1, 1), (2, 1, 3)]] := by decide +kernel
example : (GenK.generate_leaf_updates 12 (1000 : Nat) #[#[0, 7]] #[2, 0, 100] #[#[5], #[6], #[9]]
      (fun a b => a[0]! + b[0]!)).isSome = false := by decide +kernel

/-- **`pynndescent_.generate_graph_updates` (the local join) is the model's `joinUpdates`.**  For candidate blocks
`new_candidate_block`, `old_candidate_block` of the same shape (`m` rows of `w = max_candidates` entries) whose
non-negative entries are row numbers of `data`, of `dist_thresholds` and `< N`, and `fuel ≥ m + 2w + 3`: the translated
kernel never reads outside an array; list `i` of its result is the placeholder followed by exactly the model's
`joinUpdates` of the two candidate rows of vertex `i` — for every new candidate `p`: the new candidates from its own
position on (self pair included), then all old candidates, negative entries skipped, test `d ≤ thr p ∨ d ≤ thr q`, in
the code's order; read through `updOf` it *is* that list; and every triple satisfies `OkTriple N`, so the result feeds
the appliers' refinement theorems (C12) — `local_join_delivers_both` then speaks about updates the generated kernel
produced.  No order axioms. -/
theorem kernel_generate_graph_updates_refines {Q : Type} [LE Q] [LT Q] [DecidableLE Q] [DecidableLT Q]
    (nb ob : Array (Array Int)) (th : Array Q) (data : Array (Array Q))
    (dist : Array Q → Array Q → Q) (top : Q) (w N : Nat) (hob : ob.size = nb.size)
    (hw : ∀ r (h : r < nb.size), nb[r].size = w ∧ (ob[r]'(by omega)).size = w)
    (hok : ∀ r (h : r < nb.size), LeafRowOk nb[r] data.size ∧ LeafRowOk nb[r] th.size ∧
      LeafRowOk (ob[r]'(by omega)) data.size ∧ LeafRowOk (ob[r]'(by omega)) th.size)
    (hN : ∀ r (h : r < nb.size), LeafRowOk nb[r] N ∧ LeafRowOk (ob[r]'(by omega)) N)
    (fuel : Nat) (hf : nb.size + w + w + 3 ≤ fuel) :
    ∃ U', GenK.generate_graph_updates fuel top nb ob th data dist = some U' ∧ U'.size = nb.size ∧
      (∀ r (h : r < U'.size) (h' : r < nb.size),
        U'[r] = #[((-1 : Int), (-1 : Int), top)] ++
          ((joinUpdates (thrOf th top) (distOf data dist) nb[r].toList (ob[r]'(by omega)).toList).map triple).toArray ∧
        U'[r].toList.filterMap updOf
          = joinUpdates (thrOf th top) (distOf data dist) nb[r].toList (ob[r]'(by omega)).toList) ∧
      (∀ b ∈ U'.toList, ∀ x ∈ b.toList, OkTriple N x) :=
  generate_graph_updates_refines nb ob th data dist top w N hob hw hok hN fuel hf

/-- the generated local join executed by the Lean kernel: vertex 0 with new candidates `[1, -1, 2]` and old candidates
`[0, -1, -1]` over the points `5, 6, 9` (distance `|a - b|`), thresholds `0, 3, 100`: the self pairs `(1,1,0)`, `(2,2,0)`, the
pair `(1,2,3)` and the new × old pairs `(1,0,1)`, `(2,0,4)`; the `-1` holes are skipped, not stopped at -/
example : GenK.generate_graph_updates 12 (1000 : Nat) #[#[1, -1, 2]] #[#[0, -1, -1]] #[0, 3, 100] #[#[5], #[6], #[9]]
      (fun a b => if a[0]! ≤ b[0]! then b[0]! - a[0]! else a[0]! - b[0]!)
    = some #[#[(-1, -1, 1000), (1, 1, 0), (1, 2, 3), (1, 0, 1), (2, 2, 0), (2, 0, 4)]] := by decide +kernel

/-- **All rows of a block at once (leaf updates).**  Corollary of `kernel_generate_leaf_updates_refines`: the whole
result of the regenerated `generate_leaf_updates`, read through `updOf` and concatenated in block order, is the
concatenation of the model's `leafUpdates` over the rows of `leaf_block` — the update list `init_rp_tree` hands to the
applier for that block is exactly the one the model (`initRpTree`) feeds to `applyBoth`. -/
theorem kernel_leaf_updates_all_rows {Q : Type} [LE Q] [LT Q] [DecidableLE Q] [DecidableLT Q]
    (leaf_block : Array (Array Int)) (th : Array Q) (data : Array (Array Q))
    (dist : Array Q → Array Q → Q) (top : Q) (w N : Nat)
    (hw : ∀ r (h : r < leaf_block.size), leaf_block[r].size = w)
    (hok : ∀ r (h : r < leaf_block.size), LeafRowOk leaf_block[r] data.size)
    (hok' : ∀ r (h : r < leaf_block.size), LeafRowOk leaf_block[r] th.size)
    (hN : ∀ r (h : r < leaf_block.size), LeafRowOk leaf_block[r] N)
    (fuel : Nat) (hf : leaf_block.size + w + w + 2 ≤ fuel) :
    ∃ U', GenK.generate_leaf_updates fuel top leaf_block th data dist = some U' ∧
      U'.toList.flatMap (fun b => b.toList.filterMap updOf)
        = leaf_block.toList.flatMap (fun row => leafUpdates (thrOf th top) (distOf data dist) row.toList) := by
  obtain ⟨U', h1, hs, hrow, _⟩ :=
    kernel_generate_leaf_updates_refines leaf_block th data dist top w N hw hok hok' hN fuel hf
  refine ⟨U', h1, ?_⟩
  have hmap : U'.toList.map (fun b => b.toList.filterMap updOf)
      = leaf_block.toList.map (fun row => leafUpdates (thrOf th top) (distOf data dist) row.toList) := by
    apply List.ext_getElem
    · simp [hs]
    · intro i hi1 hi2
      have hi : i < leaf_block.size := by simpa using hi2
      have hiU : i < U'.size := by omega
      have := (hrow i hiU hi).2
      simp only [List.getElem_map, Array.getElem_toList]
      exact this
  rw [List.flatMap_def, List.flatMap_def, hmap]

/-- **All rows of a block at once (local join).**  Corollary of `kernel_generate_graph_updates_refines`: the whole
result of the regenerated `generate_graph_updates`, read through `updOf` and concatenated in block order, is the
concatenation over the block's vertices of the model's `joinUpdates`; in particular every update the kernel hands to the
applier comes from the candidate rows of some vertex of the block — the kernel invents no pair.  This list is an `ups` of
`local_join_delivers_both`. -/
theorem kernel_local_join_all_rows {Q : Type} [LE Q] [LT Q] [DecidableLE Q] [DecidableLT Q]
    (nb ob : Array (Array Int)) (th : Array Q) (data : Array (Array Q))
    (dist : Array Q → Array Q → Q) (top : Q) (w N : Nat) (hob : ob.size = nb.size)
    (hw : ∀ r (h : r < nb.size), nb[r].size = w ∧ (ob[r]'(by omega)).size = w)
    (hok : ∀ r (h : r < nb.size), LeafRowOk nb[r] data.size ∧ LeafRowOk nb[r] th.size ∧
      LeafRowOk (ob[r]'(by omega)) data.size ∧ LeafRowOk (ob[r]'(by omega)) th.size)
    (hN : ∀ r (h : r < nb.size), LeafRowOk nb[r] N ∧ LeafRowOk (ob[r]'(by omega)) N)
    (fuel : Nat) (hf : nb.size + w + w + 3 ≤ fuel) :
    ∃ U', GenK.generate_graph_updates fuel top nb ob th data dist = some U' ∧
      U'.toList.flatMap (fun b => b.toList.filterMap updOf)
        = (List.range nb.size).flatMap (fun r =>
            joinUpdates (thrOf th top) (distOf data dist) nb[r]!.toList ob[r]!.toList) ∧
      (∀ u ∈ U'.toList.flatMap (fun b => b.toList.filterMap updOf),
        ∃ r, r < nb.size ∧
          u ∈ joinUpdates (thrOf th top) (distOf data dist) nb[r]!.toList ob[r]!.toList) := by
  obtain ⟨U', h1, hs, hrow, _⟩ :=
    kernel_generate_graph_updates_refines nb ob th data dist top w N hob hw hok hN fuel hf
  have hmap : U'.toList.map (fun b => b.toList.filterMap updOf)
      = (List.range nb.size).map (fun r =>
          joinUpdates (thrOf th top) (distOf data dist) nb[r]!.toList ob[r]!.toList) := by
    apply List.ext_getElem
    · simp [hs]
    · intro i hi1 hi2
      have hi : i < nb.size := by simpa using hi2
      have hiU : i < U'.size := by omega
      have hio : i < ob.size := by omega
      have := (hrow i hiU hi).2
      simp only [List.getElem_map, List.getElem_range, Array.getElem_toList]
      rw [this]
      simp [hi, hio]
  have hflat : U'.toList.flatMap (fun b => b.toList.filterMap updOf)
        = (List.range nb.size).flatMap (fun r =>
            joinUpdates (thrOf th top) (distOf data dist) nb[r]!.toList ob[r]!.toList) := by
    rw [List.flatMap_def, List.flatMap_def, hmap]
  refine ⟨U', h1, hflat, ?_⟩
  intro u hu
  rw [hflat, List.mem_flatMap] at hu
  obtain ⟨r, hr, hur⟩ := hu
  exact ⟨r, List.mem_range.mp hr, hur⟩

/-- **One local-join step of the regenerated code, end to end.**  Compose the two refinement theorems: run the
regenerated `generate_graph_updates` on a block of candidate rows, hand *its result* to the regenerated
`apply_graph_updates_low_memory` (any positive thread count `T`, any bound `M` on the block sizes, enough fuel) on a
rectangular `n × k` graph with `n = D.size` bounding the candidates.  Neither kernel reads or writes outside an array, and
the graph that comes back is the model's `applyLow T` of the old graph with the concatenated `joinUpdates` of the block's
vertices — so `local_join_delivers_both` (every pair is offered to both endpoints, rows are fed in update order) is a
statement about what these two pieces of library code compute together, not only about the model. -/
theorem kernel_local_join_then_apply {Q : Type} [LE Q] [LT Q] [DecidableLE Q] [DecidableLT Q]
    (nb ob : Array (Array Int)) (th : Array Q) (data : Array (Array Q))
    (dist : Array Q → Array Q → Q) (top : Q) (w : Nat) (hob : ob.size = nb.size)
    (k : Nat) (hk : 0 < k) (I : Array (Array Int)) (D : Array (Array Q)) (F : Array (Array Int))
    (hI : I.size = D.size) (hF : F.size = D.size)
    (hrect : ∀ r (h : r < D.size), D[r].size = k ∧ (I[r]'(by omega)).size = k ∧ (F[r]'(by omega)).size = k)
    (hw : ∀ r (h : r < nb.size), nb[r].size = w ∧ (ob[r]'(by omega)).size = w)
    (hok : ∀ r (h : r < nb.size), LeafRowOk nb[r] data.size ∧ LeafRowOk nb[r] th.size ∧
      LeafRowOk (ob[r]'(by omega)) data.size ∧ LeafRowOk (ob[r]'(by omega)) th.size)
    (hN : ∀ r (h : r < nb.size), LeafRowOk nb[r] D.size ∧ LeafRowOk (ob[r]'(by omega)) D.size)
    (fuel : Nat) (hf : nb.size + w + w + 3 ≤ fuel) :
    ∃ U', GenK.generate_graph_updates fuel top nb ob th data dist = some U' ∧
      ∀ (T M fuel' : Nat), 0 < T → (∀ b ∈ U'.toList, b.size ≤ M) → T + U'.size + M + k + 3 ≤ fuel' →
        ∃ I' D' F' c, GenK.apply_graph_updates_low_memory fuel' I D F U' (T : Int) = some (I', D', F', c) ∧
          zipGraph D' I' F' = (applyLow T (zipGraph D I F) ((List.range nb.size).flatMap (fun r =>
            joinUpdates (thrOf th top) (distOf data dist) nb[r]!.toList ob[r]!.toList))).1 := by
  obtain ⟨U', h1, hflat, _⟩ :=
    kernel_local_join_all_rows nb ob th data dist top w D.size hob hw hok hN fuel hf
  obtain ⟨U'', h1', _, _, hokT⟩ :=
    kernel_generate_graph_updates_refines nb ob th data dist top w D.size hob hw hok hN fuel hf
  have hU : U'' = U' := by rw [h1] at h1'; exact (Option.some.inj h1').symm
  subst hU
  refine ⟨U'', h1, ?_⟩
  intro T M fuel' hT hM hf'
  obtain ⟨I', D', F', hrun, _, _, _, _, hz⟩ :=
    apply_graph_updates_low_memory_refines' k hk I D F U'' T M hT hI hF hrect hM hokT fuel' hf'
  refine ⟨I', D', F', _, hrun, ?_⟩
  rw [hz]
  have : updsOf U'' = U''.toList.flatMap (fun b => b.toList.filterMap updOf) := by
    simp [updsOf, List.filterMap_flatMap]
  rw [this, hflat]

/-- the composition executed by the Lean kernel: three points `5, 6, 9`, vertex 0 with new candidates `1, 2` and old candidate
`0`, an empty `3 × 2` graph, two threads: the five updates of the example above give 7 accepted pushes (row 1 holds itself,
through the self pair — as in the library) -/
example : ((GenK.generate_graph_updates 12 (1000 : Nat) #[#[1, -1, 2], #[-1, -1, -1], #[-1, -1, -1]]
      #[#[0, -1, -1], #[-1, -1, -1], #[-1, -1, -1]] #[0, 3, 100] #[#[5], #[6], #[9]]
      (fun a b => if a[0]! ≤ b[0]! then b[0]! - a[0]! else a[0]! - b[0]!)).bind fun u =>
    GenK.apply_graph_updates_low_memory 30 #[#[-1, -1], #[-1, -1], #[-1, -1]]
      #[#[1000, 1000], #[1000, 1000], #[1000, 1000]] #[#[0, 0], #[0, 0], #[0, 0]] u 2)
    = some (#[#[2, 1], #[0, 1], #[1, 2]], #[#[4, 1], #[1, 0], #[3, 0]], #[#[1, 1], #[1, 1], #[1, 1]], 7) := by
  decide +kernel

/-- **The same step through the high-memory applier.**  The regenerated `generate_graph_updates` piped into the
regenerated `apply_graph_updates_high_memory` (with any `in_graph` record `s` of one set per row): in bounds throughout, and
the graph that comes back is the model's `applyHigh` of the concatenated `joinUpdates`.  With C12's hypotheses on the old
graph and record (`kernel_high_memory_eq_low_memory`) this is the graph of `kernel_local_join_then_apply`. -/
theorem kernel_local_join_then_apply_high {Q : Type} [LE Q] [LT Q] [DecidableLE Q] [DecidableLT Q]
    (nb ob : Array (Array Int)) (th : Array Q) (data : Array (Array Q))
    (dist : Array Q → Array Q → Q) (top : Q) (w : Nat) (hob : ob.size = nb.size)
    (k : Nat) (hk : 0 < k) (I : Array (Array Int)) (D : Array (Array Q)) (F : Array (Array Int)) (s : InGraph)
    (hI : I.size = D.size) (hF : F.size = D.size) (hS : s.size = D.size)
    (hrect : ∀ r (h : r < D.size), D[r].size = k ∧ (I[r]'(by omega)).size = k ∧ (F[r]'(by omega)).size = k)
    (hw : ∀ r (h : r < nb.size), nb[r].size = w ∧ (ob[r]'(by omega)).size = w)
    (hok : ∀ r (h : r < nb.size), LeafRowOk nb[r] data.size ∧ LeafRowOk nb[r] th.size ∧
      LeafRowOk (ob[r]'(by omega)) data.size ∧ LeafRowOk (ob[r]'(by omega)) th.size)
    (hN : ∀ r (h : r < nb.size), LeafRowOk nb[r] D.size ∧ LeafRowOk (ob[r]'(by omega)) D.size)
    (fuel : Nat) (hf : nb.size + w + w + 3 ≤ fuel) :
    ∃ U', GenK.generate_graph_updates fuel top nb ob th data dist = some U' ∧
      ∀ (M fuel' : Nat), (∀ b ∈ U'.toList, b.size ≤ M) → U'.size + M + k + 2 ≤ fuel' →
        ∃ I' D' F' s' c, GenK.apply_graph_updates_high_memory fuel' I D F U' s = some (I', D', F', s', c) ∧
          zipGraph D' I' F' = (applyHigh (zipGraph D I F) ((List.range nb.size).flatMap (fun r =>
            joinUpdates (thrOf th top) (distOf data dist) nb[r]!.toList ob[r]!.toList)) s).1.1 := by
  obtain ⟨U', h1, hflat, _⟩ :=
    kernel_local_join_all_rows nb ob th data dist top w D.size hob hw hok hN fuel hf
  obtain ⟨U'', h1', _, _, hokT⟩ :=
    kernel_generate_graph_updates_refines nb ob th data dist top w D.size hob hw hok hN fuel hf
  have hU : U'' = U' := by rw [h1] at h1'; exact (Option.some.inj h1').symm
  subst hU
  refine ⟨U'', h1, ?_⟩
  intro M fuel' hM hf'
  obtain ⟨I', D', F', hrun, _, _, _, _, hz⟩ :=
    apply_graph_updates_high_memory_refines' k hk I D F U'' s M hI hF hS hrect hM hokT fuel' hf'
  refine ⟨I', D', F', _, _, hrun, ?_⟩
  rw [hz]
  have : updsOf U'' = U''.toList.flatMap (fun b => b.toList.filterMap updOf) := by
    simp [updsOf, List.filterMap_flatMap]
  rw [this, hflat]

/-- **Both memory modes compute the same local-join step — on the regenerated code.**  Old graph with heap order and true
distances in its rows (`HeapTruth`), a valid `in_graph` record, a symmetric distance: the update lists the regenerated
`generate_graph_updates` produces are truthful (`joinUpdates_truthful'`), so feeding them to the regenerated high-memory
applier and to the regenerated low-memory applier (any positive thread count) gives the same graph; all three kernels stay in
bounds.  (C12 for one step, with the updates being those the library generates rather than an arbitrary truthful list.) -/
theorem kernel_local_join_step_low_eq_high
    (nb ob : Array (Array Int)) (th : Array P) (data : Array (Array P))
    (dist : Array P → Array P → P) (top : P) (w : Nat) (hob : ob.size = nb.size)
    (k : Nat) (hk : 0 < k) (I : Array (Array Int)) (D : Array (Array P)) (F : Array (Array Int)) (s : InGraph)
    (hI : I.size = D.size) (hF : F.size = D.size) (hS : s.size = D.size)
    (hrect : ∀ r (h : r < D.size), D[r].size = k ∧ (I[r]'(by omega)).size = k ∧ (F[r]'(by omega)).size = k)
    (hw : ∀ r (h : r < nb.size), nb[r].size = w ∧ (ob[r]'(by omega)).size = w)
    (hok : ∀ r (h : r < nb.size), LeafRowOk nb[r] data.size ∧ LeafRowOk nb[r] th.size ∧
      LeafRowOk (ob[r]'(by omega)) data.size ∧ LeafRowOk (ob[r]'(by omega)) th.size)
    (hN : ∀ r (h : r < nb.size), LeafRowOk nb[r] D.size ∧ LeafRowOk (ob[r]'(by omega)) D.size)
    (fuel : Nat) (hf : nb.size + w + w + 3 ≤ fuel)
    (hsymm : ∀ a b, distOf data dist a b = distOf data dist b a)
    (hH : HeapTruth (distOf data dist) (zipGraph D I F))
    (hInv : InGraphInv (distOf data dist) (zipGraph D I F) s) :
    ∃ U', GenK.generate_graph_updates fuel top nb ob th data dist = some U' ∧
      ∀ (T M fuel' : Nat), 0 < T → (∀ b ∈ U'.toList, b.size ≤ M) → T + U'.size + M + k + 3 ≤ fuel' →
        ∃ Ih Dh Fh sh ch Il Dl Fl cl,
          GenK.apply_graph_updates_high_memory fuel' I D F U' s = some (Ih, Dh, Fh, sh, ch) ∧
          GenK.apply_graph_updates_low_memory fuel' I D F U' (T : Int) = some (Il, Dl, Fl, cl) ∧
          zipGraph Dh Ih Fh = zipGraph Dl Il Fl := by
  obtain ⟨U', h1, hlow⟩ := kernel_local_join_then_apply nb ob th data dist top w hob k hk I D F hI hF hrect
    hw hok hN fuel hf
  obtain ⟨U'', h1', hhigh⟩ := kernel_local_join_then_apply_high nb ob th data dist top w hob k hk I D F s hI hF hS hrect
    hw hok hN fuel hf
  have hU : U'' = U' := by rw [h1] at h1'; exact (Option.some.inj h1').symm
  subst hU
  refine ⟨U'', h1, ?_⟩
  intro T M fuel' hT hM hf'
  obtain ⟨Il, Dl, Fl, cl, hl, zl⟩ := hlow T M fuel' hT hM hf'
  obtain ⟨Ih, Dh, Fh, sh, ch, hh, zh⟩ := hhigh M fuel' hM (by omega)
  refine ⟨Ih, Dh, Fh, sh, ch, Il, Dl, Fl, cl, hh, hl, ?_⟩
  have hTr : Truthful (distOf data dist) ((List.range nb.size).flatMap (fun r =>
      joinUpdates (thrOf th top) (distOf data dist) nb[r]!.toList ob[r]!.toList)) :=
    truthful_flatMap _ _ _ (fun r _ => joinUpdates_truthful' _ _ _ _)
  obtain ⟨e, _, _⟩ := applyHigh_eq_applyLow_ht hsymm T hT (zipGraph D I F) _ s hH hInv hTr
  rw [zh, zl]
  exact congrArg Prod.fst e

/-- non-vacuity of `kernel_local_join_step_low_eq_high`: the arrays `make_heap(n, k)` returns (all `top`, `-1`, `0`) with
empty `in_graph` sets satisfy its two hypotheses on the old graph, for every `n`, `k` and distance — the state NN-descent
starts from. -/
theorem low_eq_high_hypotheses_satisfiable (top : P) (n k : Nat) (dist : Nat → Nat → P) :
    HeapTruth dist (zipGraph (Array.replicate n (Array.replicate k top))
      (Array.replicate n (Array.replicate k (-1 : Int))) (Array.replicate n (Array.replicate k (0 : Int)))) ∧
    InGraphInv dist (zipGraph (Array.replicate n (Array.replicate k top))
      (Array.replicate n (Array.replicate k (-1 : Int))) (Array.replicate n (Array.replicate k (0 : Int))))
      (Array.replicate n []) := by
  rw [zipGraph_replicate]
  refine ⟨mkGraph_heapTruth top n k dist, by simp [mkGraph], ?_⟩
  intro p row _ q hq
  simp [InGraph.has] at hq
  split at hq
  · rename_i l hl
    obtain ⟨_, hl'⟩ := Array.getElem?_eq_some_iff.mp hl
    simp only [Array.getElem_replicate] at hl'
    subst hl'
    simp at hq
  · simp at hq

/-- **A single leaf is exact.**  Let `leaf` enumerate the points `0..n-1` exactly once (trailing
`-1` padding allowed), `dist` be symmetric with finite values, and
`g = init_rp_tree(empty graph, [leaf])`.  Then `g` has `n` rows of `k` slots and every row `p`:
(i) satisfies the top-k invariant `RowInv` for the offer set "all other points";
(ii) for every other point `q`: `q` is held, or every held neighbour is at most as far as `q` —
the row holds the `k` nearest other points, exactly, up to distance ties;
(iii) is full when `k ≤ n - 1`; and holds only other points (never `p` itself).
(All thresholds of the empty graph are `top`, so `generate_leaf_updates` emits every pair `i < j`
and both directions are pushed.)  The later refinement keeps this: by C13 a row's content only
improves, and the point itself enters its own row only through the `k ≥ j` enumeration of the
first local join (`self_pair_offered_twice_is_noop`). -/
theorem single_leaf_exact (top : P) (htop : ∀ x : P, x ≤ top) (dist : Nat → Nat → P)
    (hsymm : ∀ a b, dist a b = dist b a) (n k : Nat)
    (hfin : ∀ p q, p < n → q < n → dist p q < top) (leaf : List Int)
    (hleaf : (takeValid leaf).Perm (List.range n)) :
    let g := initRpTree top dist (mkGraph top n k) [leaf]
    g.size = n ∧
    ∀ p row, g[p]? = some row →
      row.size = k ∧
      RowInv top (dist p) (((List.range n).filter (fun q => q ≠ p)).map (fun q => (q, true))) row ∧
      (∀ q, q < n → q ≠ p →
        (∃ e ∈ row, e.idx = (q : Int)) ∨ (∀ e ∈ row, 0 ≤ e.idx → e.prio ≤ dist p q)) ∧
      (k ≤ n - 1 → ∀ e ∈ row, 0 ≤ e.idx) ∧
      (∀ e ∈ row, e.idx ≠ (p : Int)) := by
  intro g
  have hVmem : ∀ q, q ∈ takeValid leaf ↔ q < n := fun q => by rw [hleaf.mem_iff, List.mem_range]
  have hVnd : (takeValid leaf).Nodup := hleaf.nodup_iff.mpr List.nodup_range
  -- the update list: every pair of the leaf
  have hups : g = ((pairsLt (takeValid leaf)).map
      (fun pq => (⟨pq.1, pq.2, dist pq.1 pq.2⟩ : Upd P))).foldl applyBoth (mkGraph top n k) := by
    have hthr : threshold top (mkGraph top n k) = fun _ => top := funext (threshold_mkGraph top n k)
    simp only [g, initRpTree, chunks_singleton, List.foldl_cons, List.foldl_nil, List.flatMap_cons,
      List.flatMap_nil, List.append_nil, hthr]
    rw [leafUpdates_top]
    intro pq hpq
    have := mem_of_mem_pairsLt (a := pq.1) (b := pq.2) hpq
    exact hfin _ _ ((hVmem _).mp this.1) ((hVmem _).mp this.2)
  have hsize : g.size = n := by rw [hups, applyBoth_fold_size]; simp [mkGraph]
  refine ⟨hsize, ?_⟩
  intro p row hrow
  have hp : p < n := by
    have := (Array.getElem?_eq_some_iff.mp hrow).1
    omega
  -- row `p` is the empty row fed with the offers of `p`
  rw [hups, applyBoth_fold_row] at hrow
  have h0 : (mkGraph top n k)[p]? = some (mkRow top k) := by simp [mkGraph, hp]
  rw [h0] at hrow
  simp only [Option.map_some, Option.some.injEq] at hrow
  obtain ⟨hform, hset⟩ := offersFor_leaf dist hsymm (takeValid leaf) hVnd p ((hVmem p).mpr hp)
  rw [offers_eq_map (dist p) _ hform, feed_eq_foldl_push] at hrow
  have hinv1 := run_inv true top htop k (dist p)
    (((offersFor p ((pairsLt (takeValid leaf)).map
      (fun pq => (⟨pq.1, pq.2, dist pq.1 pq.2⟩ : Upd P)))).map (fun o => o.2.toNat)).map
        (fun q => (q, true))) nofun
  rw [hrow] at hinv1
  have hinv0 : RowInv top (dist p) (((List.range n).filter (fun q => q ≠ p)).map (fun q => (q, true))) row := by
    refine hinv1.congr ?_
    intro x
    simp only [List.mem_map, List.mem_filter, List.mem_range, decide_eq_true_eq]
    constructor
    · rintro ⟨q, ⟨o, ho, rfl⟩, rfl⟩
      have := (hset o.2.toNat).mp (List.mem_map.mpr ⟨o, ho, rfl⟩)
      exact ⟨_, ⟨(hVmem _).mp this.1, this.2⟩, rfl⟩
    · rintro ⟨q, ⟨hq, hne⟩, rfl⟩
      obtain ⟨o, ho, hoq⟩ := List.mem_map.mp ((hset q).mpr ⟨(hVmem q).mpr hq, hne⟩)
      exact ⟨q, ⟨o, ho, hoq⟩, rfl⟩
  have hrsize : row.size = k := by rw [← hrow]; exact run_size true top k (dist p) _
  have hoff : ∀ q, q < n → q ≠ p →
      (q, true) ∈ ((List.range n).filter (fun q => q ≠ p)).map (fun q => (q, true)) := by
    intro q hq hne
    exact List.mem_map.mpr ⟨q, List.mem_filter.mpr ⟨List.mem_range.mpr hq, by simpa using hne⟩, rfl⟩
  refine ⟨hrsize, hinv0, ?_, ?_, ?_⟩
  · intro q hq hne
    by_cases hheld : ∃ e ∈ row, e.idx = (q : Int)
    · exact Or.inl hheld
    · right
      intro e he hidx
      exact hinv0.best e he hidx (q, true) (hoff q hq hne) (hfin p q hp hq) hheld
  · intro hk
    apply hinv0.full_of_many htop ((List.range n).filter (fun q => q ≠ p))
      (List.nodup_range.filter _)
    · intro q hq
      obtain ⟨hq1, hq2⟩ := List.mem_filter.mp hq
      exact ⟨true, hoff q (List.mem_range.mp hq1) (by simpa using hq2)⟩
    · intro q hq
      exact hfin p q hp (List.mem_range.mp (List.mem_filter.mp hq).1)
    · rw [hrsize]
      have hperm := List.filter_append_perm (fun q => decide (q ≠ p)) (List.range n)
      have hlen := hperm.length_eq
      have hone : ((List.range n).filter (fun q => !decide (q ≠ p))).length ≤ 1 := by
        have hnd : ((List.range n).filter (fun q => !decide (q ≠ p))).Nodup := List.nodup_range.filter _
        have hsub : (List.range n).filter (fun q => !decide (q ≠ p)) ⊆ [p] := by
          intro x hx
          have := (List.mem_filter.mp hx).2
          simp at this
          simp [this]
        exact (List.subperm_of_subset hnd hsub).length_le
      simp only [List.length_append, List.length_range] at hlen
      omega
  · intro e he heq
    obtain ⟨hm, _, _⟩ := hinv0.real e he (by omega)
    obtain ⟨q, hq, hqe⟩ := List.mem_map.mp hm
    have := (List.mem_filter.mp hq).2
    simp only [Prod.mk.injEq] at hqe
    have : q ≠ p := by simpa using this
    omega

/-! ## non-vacuity -/

/-- five points on a line, one leaf in scrambled order with padding, `k = 2`: every row holds its
two nearest other points, nearest first after `deheap_sort`; rows 2 and 3 have a distance tie
(`P = Nat` capped at 100). -/
example :
    ((initRpTree (100 : Nat) (fun a b => if a ≤ b then b - a else a - b) (mkGraph 100 5 2)
        [[3, 0, 4, 1, 2, -1, -1]]).map (fun r => (deheapSort r).toList.map (·.idx))).toList
      = [[1, 2], [0, 2], [3, 1], [4, 2], [3, 2]] := by decide +kernel

/-- an update is delivered to both endpoints, in every thread configuration -/
example :
    ((applyLow 3 (mkGraph (100 : Nat) 4 1) [⟨0, 3, 3⟩, ⟨1, 3, 2⟩]).1.map
        (fun r => r.toList.map (·.idx))).toList = [[3], [3], [-1], [1]] ∧
    applyLow 3 (mkGraph (100 : Nat) 4 1) [⟨0, 3, 3⟩, ⟨1, 3, 2⟩] =
      applyLow 1 (mkGraph (100 : Nat) 4 1) [⟨0, 3, 3⟩, ⟨1, 3, 2⟩] := by decide +kernel

end Pynn.C03
