import PynnVerif.Proofs.DescentInv
import Mathlib.Order.Fin.Basic  -- `LinearOrder (Fin 10)` for the concrete examples at the end

/-!
# C01 — the k-neighbour graph returned by NN-descent is well-formed and its distances are true

Property theorems only (the invariant proofs live in `Proofs/DescentInv.lean`).  `P` is any
linear order with greatest element `top` (`np.inf`); `C` is the priority type of the
candidate heaps and needs *no* order laws (the code uses `float32` draws); `dist` is any
**symmetric** function on row numbers; `nnDescent` is the literal model of `nn_descent`
(`Model/Descent.lean`, bit-exact against the numba kernels).  All of `cfg` (`k`,
`max_candidates`, `n_iters`, thread count — `0` included —, `low_memory`, block size), the
stop test, the generator state, the draw function and the leaf array are universally
quantified.
-/
namespace Pynn.C01
open Pynn
variable {P : Type} [LinearOrder P]
variable {C : Type} [LE C] [LT C] [DecidableLE C] [DecidableLT C]

/-- **Well-formed output.**  For every configuration, every generator state, every leaf array
whose entries are `< n` (negative entries are the `-1` padding of `leaf_array`) and either an
empty start (`init = none`: `make_heap`, optional `init_rp_tree`, `init_random`) or a supplied
heap that satisfies the invariant (`init_graph` with truthful `init_dist`), the graph returned
by `nn_descent` has `n` rows of `k` slots; each row is in ascending distance order, holds no
point twice, every slot is a real point `0 ≤ idx < n` at a finite distance or the sentinel
`(-1, top)`, and **the distance stored with a real point `q` in row `p` is `dist p q`**.

Hypotheses that matter for the code:
* `hsymm`: the second push of every update, `(row q, d, p)`, stores `d = dist p q` as the
  distance from `q` to `p`.  For an asymmetric `dist` the last conjunct is false.
* `htop` / `LinearOrder P`: no `NaN` (a `NaN` distance is outside this theorem).
* no `0 < n`, `0 < k`, `0 < nThreads` hypothesis is needed: with `n = 0` the `init_random` loop
  body never runs (`randIndex r n < n` is only used for `0 < n`); with `k = 0` every push is
  rejected; with `nThreads = 0` no candidate is built and no update is applied. -/
theorem descent_wellformed (top : P) (ctop : C) (htop : ∀ x : P, x ≤ top)
    (draw : RngState → C × RngState) (dist : Nat → Nat → P)
    (hsymm : ∀ p q, dist p q = dist q p) (n : Nat) (cfg : Cfg) (stop : Nat → Bool)
    (rng : RngState) (init : Option (Graph P))
    (hinit : ∀ g, init = some g → GraphInv top n cfg.k dist g)
    (rp : Bool) (leafArray : List (List Int))
    (hleaf : ∀ row ∈ leafArray, ∀ x ∈ row, x < (n : Int)) :
    let out := (nnDescent top ctop draw dist n cfg stop rng init rp leafArray).1
    out.size = n ∧ ∀ p (hp : p < out.size),
      out[p].size = cfg.k ∧
      (∀ i j (hi : i < out[p].size) (hj : j < out[p].size), i ≤ j →
          out[p][i].prio ≤ out[p][j].prio) ∧
      ((out[p].toList.filter (fun e => 0 ≤ e.idx)).map (·.idx)).Nodup ∧
      (∀ e ∈ out[p], (e.idx = -1 ∧ e.prio = top) ∨
          (0 ≤ e.idx ∧ e.idx < (n : Int) ∧ e.prio < top)) ∧
      (∀ e ∈ out[p], 0 ≤ e.idx → e.prio = dist p e.idx.toNat) := by
  intro out
  obtain ⟨g, hg, hout⟩ :=
    nnDescent_heap_inv htop ctop draw hsymm n cfg stop rng init hinit rp leafArray hleaf
  have key : ∀ o : Graph P, o = g.map deheapSort →
      o.size = n ∧ ∀ p (hp : p < o.size),
        o[p].size = cfg.k ∧
        (∀ i j (hi : i < o[p].size) (hj : j < o[p].size), i ≤ j → o[p][i].prio ≤ o[p][j].prio) ∧
        ((o[p].toList.filter (fun e => 0 ≤ e.idx)).map (·.idx)).Nodup ∧
        (∀ e ∈ o[p], (e.idx = -1 ∧ e.prio = top) ∨
            (0 ≤ e.idx ∧ e.idx < (n : Int) ∧ e.prio < top)) ∧
        (∀ e ∈ o[p], 0 ≤ e.idx → e.prio = dist p e.idx.toNat) := by
    rintro _ rfl
    refine ⟨by rw [Array.size_map]; exact hg.size, fun p hp => ?_⟩
    have hp' : p < g.size := by simpa using hp
    have hrow : (g.map deheapSort)[p] = deheapSort g[p] := by simp
    rw [hrow]
    exact deheapSort_rowOk ((graphInv_iff.mp hg).2 p g[p] (Array.getElem?_eq_getElem hp'))
  exact key out hout

/-- **Reported distances are the documented metric** (composition with C09): the index stores a
surrogate `surr` of the documented `metric` and reports `corr (stored value)`.  If the correction
inverts the surrogate (`corr (surr x y) = metric x y` — proved for every registered pair in
`Props/C09.lean`) and is monotone, then every real entry `(q, d)` of the reported row `p` has
`d = metric (data p) (data q)`, and reported rows still run closest-first.  `X` is the type of
data rows, `Q` the type of reported values. -/
theorem reported_distance_true {X Q : Type} [LinearOrder Q]
    (top : P) (ctop : C) (htop : ∀ x : P, x ≤ top)
    (draw : RngState → C × RngState) (data : Nat → X) (surr : X → X → P) (metric : X → X → Q)
    (corr : P → Q) (hinv : ∀ x y, corr (surr x y) = metric x y) (hmono : Monotone corr)
    (hsymm : ∀ x y, surr x y = surr y x)
    (n : Nat) (cfg : Cfg) (stop : Nat → Bool) (rng : RngState)
    (init : Option (Graph P))
    (hinit : ∀ g, init = some g → GraphInv top n cfg.k (fun p q => surr (data p) (data q)) g)
    (rp : Bool) (leafArray : List (List Int))
    (hleaf : ∀ row ∈ leafArray, ∀ x ∈ row, x < (n : Int)) :
    let out := (nnDescent top ctop draw (fun p q => surr (data p) (data q)) n cfg stop rng init rp leafArray).1
    ∀ p (hp : p < out.size),
      (∀ e ∈ out[p], 0 ≤ e.idx → corr e.prio = metric (data p) (data e.idx.toNat)) ∧
      (∀ i j (hi : i < out[p].size) (hj : j < out[p].size), i ≤ j →
          corr out[p][i].prio ≤ corr out[p][j].prio) := by
  intro out p hp
  have h := (descent_wellformed top ctop htop draw (fun p q => surr (data p) (data q))
    (fun a b => hsymm _ _) n cfg stop rng init hinit rp leafArray hleaf).2 p hp
  obtain ⟨_, hsorted, _, _, htruth⟩ := h
  refine ⟨fun e he hidx => ?_, fun i j hi hj hij => hmono (hsorted i j hi hj hij)⟩
  rw [htruth e he hidx, hinv]

/-- **Sentinels come last** (corollary): in every output row the real entries form a prefix —
once a slot is the sentinel `(-1, top)` every later slot is, and a real slot is preceded by
real slots only.  (A real entry has `prio < top`, a sentinel has `prio = top`, rows ascend.) -/
theorem sentinels_last (top : P) (ctop : C) (htop : ∀ x : P, x ≤ top)
    (draw : RngState → C × RngState) (dist : Nat → Nat → P)
    (hsymm : ∀ p q, dist p q = dist q p) (n : Nat) (cfg : Cfg) (stop : Nat → Bool)
    (rng : RngState) (init : Option (Graph P))
    (hinit : ∀ g, init = some g → GraphInv top n cfg.k dist g)
    (rp : Bool) (leafArray : List (List Int))
    (hleaf : ∀ row ∈ leafArray, ∀ x ∈ row, x < (n : Int)) :
    let out := (nnDescent top ctop draw dist n cfg stop rng init rp leafArray).1
    ∀ p (hp : p < out.size) i j (hi : i < out[p].size) (hj : j < out[p].size), i ≤ j →
      (out[p][i].idx = -1 → out[p][j].idx = -1 ∧ out[p][j].prio = top) ∧
      (0 ≤ out[p][j].idx → 0 ≤ out[p][i].idx) := by
  intro out p hp i j hi hj hij
  obtain ⟨_, hall⟩ := descent_wellformed top ctop htop draw dist hsymm n cfg stop rng init hinit
    rp leafArray hleaf
  obtain ⟨_, hsorted, _, hrange, _⟩ := hall p hp
  have hle := hsorted i j hi hj hij
  have hri := hrange _ (Array.getElem_mem hi)
  have hrj := hrange _ (Array.getElem_mem hj)
  constructor
  · intro hneg
    rcases hrj with h | ⟨_, _, hlt⟩
    · exact h
    · rcases hri with ⟨_, hpi⟩ | ⟨h0, _, _⟩
      · exact absurd (lt_of_le_of_lt (hpi ▸ hle) hlt) (lt_irrefl _)
      · omega
  · intro hreal
    rcases hri with ⟨_, hpi⟩ | ⟨h0, _, _⟩
    · rcases hrj with ⟨hj1, _⟩ | ⟨_, _, hlt⟩
      · omega
      · exact absurd (lt_of_le_of_lt (hpi ▸ hle) hlt) (lt_irrefl _)
    · exact h0

/-- **The invariant is inductive** (what the previous theorem rests on): a truthful in-range
`checked_flagged_heap_push` into any row preserves `GraphInv`. -/
theorem push_preserves_invariant (top : P) (htop : ∀ x : P, x ≤ top) (n k : Nat)
    (dist : Nat → Nat → P) (g : Graph P) (hg : GraphInv top n k dist g) (r : Nat) (hr : r < n)
    (q : Int) (hq0 : 0 ≤ q) (hqn : q < (n : Int)) (f : Bool) :
    GraphInv top n k dist (pushInto g r (dist r q.toNat) q f).1 :=
  pushInto_inv htop hg hr hq0 hqn rfl f

/-- **Every update the local join generates is truthful**: it carries `dist p q` and both
endpoints are non-negative entries of the vertex's candidate rows. -/
theorem updates_truthful (thr : Nat → P) (dist : Nat → Nat → P) (newRow oldRow : List Int) :
    ∀ u ∈ joinUpdates thr dist newRow oldRow,
      u.d = dist u.p u.q ∧ (u.p : Int) ∈ newRow ∧ ((u.q : Int) ∈ newRow ∨ (u.q : Int) ∈ oldRow) :=
  joinUpdates_truthful thr dist newRow oldRow

/-- **The heaps built from a user-supplied `init_graph` satisfy `hinit`**: from an empty heap,
`initalize_heap_from_graph_indices` (distances recomputed, negative indices skipped) needs only
indices `< n`; `init_from_neighbor_graph` / `…_indices_and_distances` need the documented
contract that `init_dist` is truthful (each pair is a hole at distance `top`, or an in-range
index with its true distance). -/
theorem init_graph_invariant (top : P) (htop : ∀ x : P, x ≤ top) (n k : Nat)
    (dist : Nat → Nat → P) (indices : List (List Int)) (dists : List (List P)) :
    ((∀ row ∈ indices, ∀ j ∈ row, j < (n : Int)) →
      GraphInv top n k dist (initFromIndices (mkGraph top n k) indices dist)) ∧
    ((∀ (r : Nat) (isds : List Int × List P), (indices.zip dists)[r]? = some isds →
        ∀ qd ∈ isds.1.zip isds.2,
          qd.2 = top ∨ (0 ≤ qd.1 ∧ qd.1 < (n : Int) ∧ qd.2 = dist r qd.1.toNat)) →
      GraphInv top n k dist (initFromNeighborGraph (mkGraph top n k) indices dists)) :=
  ⟨initFromIndices_inv htop (mkGraph_inv top n k dist) indices,
   initFromNeighborGraph_inv htop (mkGraph_inv top n k dist) indices dists⟩

/-! ## non-vacuity -/

/-- a symmetric "metric" on 5 points with ties: `|p − q| mod 9` in `Fin 10`, `top = 9` -/
def dist5 : Nat → Nat → Fin 10 := fun p q =>
  if p ≤ q then ⟨(q - p) % 9, by omega⟩ else ⟨(p - q) % 9, by omega⟩

theorem dist5_symm : ∀ p q, dist5 p q = dist5 q p := by
  intro p q
  unfold dist5
  by_cases h1 : p ≤ q <;> by_cases h2 : q ≤ p <;> simp only [h1, h2, if_true, if_false]
  · have : p = q := by omega
    subst this; rfl
  · omega

/-- candidate priorities: absolute value of the Tausworthe integer -/
def drawNat : RngState → Nat × RngState := fun s => let r := tauRandInt s; (r.1.natAbs, r.2)

def cfg5 : Cfg := { k := 2, maxCand := 3, nIters := 2, nThreads := 2, lowMemory := true }

/-- The hypotheses are satisfiable with a non-trivial leaf array (two leaves, `-1` padding)
and `init = none`; the theorem then applies to this run. -/
example :=
  descent_wellformed (9 : Fin 10) (10 ^ 12 : Nat) (fun x => by omega) drawNat dist5 dist5_symm 5
    cfg5 (fun c => c == 0) (RngState.ofInts 1 2 3) none (fun _ h => by simp at h) true
    [[0, 1, 2, -1], [3, 4, -1, -1]] (by decide)

/-- … and the run is not trivial: tree initialisation then two iterations fill every row
(`decide +kernel`: the model is executable; evaluated by the kernel). -/
example : (nnDescent (9 : Fin 10) (10 ^ 12 : Nat) drawNat dist5 5 cfg5 (fun c => c == 0)
      (RngState.ofInts 1 2 3) none true [[0, 1, 2, -1], [3, 4, -1, -1]]).1.toList.map
        (fun r => r.toList.map (fun e => (e.idx, e.prio)))
    = [[(0, 0), (1, 1)], [(1, 0), (0, 1)], [(2, 0), (1, 1)], [(3, 0), (4, 1)], [(4, 0), (3, 1)]] := by
  decide +kernel

/-- random initialisation only (no tree), high-memory path, one thread: `init_random` draws
the row itself and duplicates, so the last row keeps a sentinel — which comes last. -/
example : (nnDescent (9 : Fin 10) (10 ^ 12 : Nat) drawNat dist5 5
      { cfg5 with nThreads := 1, lowMemory := false } (fun c => c == 0)
      (RngState.ofInts 1 2 3) none false []).1.toList.map
        (fun r => r.toList.map (fun e => (e.idx, e.prio)))
    = [[(0, 0), (1, 1)], [(1, 0), (0, 1)], [(2, 0), (1, 1)], [(1, 2), (0, 3)], [(0, 4), (-1, 9)]] := by
  decide +kernel

/-- a supplied heap that satisfies the invariant and is not empty: the heap after the leaf
initialisation (by `initRpTree_inv`), so `hinit` is satisfiable with `init = some _`. -/
example : GraphInv (9 : Fin 10) 5 2 dist5
    (initRpTree 9 dist5 (mkGraph 9 5 2) [[0, 1, 2, -1], [3, 4, -1, -1]]) :=
  initRpTree_inv (fun x => by omega) dist5_symm (mkGraph_inv 9 5 2 dist5) _ _ (by decide)

example : (initRpTree (9 : Fin 10) dist5 (mkGraph 9 5 2) [[0, 1, 2, -1], [3, 4, -1, -1]]).toList.map
        (fun r => r.toList.map (fun e => (e.idx, e.prio)))
    = [[(2, 2), (1, 1)], [(2, 1), (0, 1)], [(0, 2), (1, 1)], [(-1, 9), (4, 1)], [(-1, 9), (3, 1)]] := by
  decide +kernel

/-- the symmetry hypothesis is needed: with an asymmetric `dist` one leaf update stores
`dist 0 1 = 1` in row 1 as the distance of point 0, although `dist 1 0 = 2`. -/
example : (initRpTree (9 : Fin 10) (fun p q => if p < q then 1 else 2) (mkGraph 9 2 1)
      [[0, 1]]).toList.map (fun r => r.toList.map (fun e => (e.idx, e.prio)))
    = [[(1, 1)], [(0, 1)]] := by
  decide +kernel

end Pynn.C01
