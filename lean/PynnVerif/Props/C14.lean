import PynnVerif.Proofs.RPTree

/-!
# C14 — random-projection trees partition the data and every descent ends in a leaf

Property theorems only (helper lemmas live in `Proofs/RPTree.lean`, the model in
`Model/RPTree.lean`).  Everything is quantified over **every** `Oracle` — every
outcome of every margin computation and of every coin flip of the five
`*_random_projection_split` kernels, including the fall-back that re-draws all
sides when one side is empty and may again leave one side empty — so nothing
here depends on the data, the metric (euclidean / angular / bit-packed / sparse)
or the generator.  Core Lean only.

What the model showed about the code as written (not hidden by the statements):
* **empty leaves are possible** (the fall-back can put every point on one side; the other
  recursive call receives an empty `indices` and appends an empty leaf), see the first `example`;
  they are harmless for every clause below (an empty leaf is the empty range `(s, s)`);
* a leaf with more than `leaf_size` points occurs only when the depth fuel is exhausted;
* the leaf that starts at offset `0` is encoded `(-0, -end) = (0, -end)`; the loop test
  `children[node, 0] > 0` classifies it as a leaf (correct), a single-leaf root `(0, -n)` and the
  empty data set `(0, 0)` included.
-/
namespace Pynn.C14
open Pynn.RP

/-- **Partition** (`make_*_tree`): for every oracle, leaf size, depth fuel and input index list,
the concatenation of the leaves is a permutation of the input; hence every point occurs in the
leaves exactly as often as in the input — for the root call on `np.arange(n)`: in exactly one leaf,
exactly once. -/
theorem leaves_partition (o : Oracle) (leafSize maxDepth : Nat) (path : List Bool) (idx : List Int) :
    (buildTree o leafSize maxDepth path idx).leaves.flatten.Perm idx ∧
    ∀ x, (buildTree o leafSize maxDepth path idx).leaves.flatten.count x = idx.count x :=
  ⟨buildTree_leaves_perm o leafSize maxDepth path idx,
   fun x => (buildTree_leaves_perm o leafSize maxDepth path idx).count_eq x⟩

/-- The tree `make_dense_tree` / `make_sparse_tree` / `make_dense_bit_tree` return for `n` points:
its leaves list `0 … n-1` without repetition (`Nodup` + same members), so each point is in exactly
one leaf, and the tree holds `n` points. -/
theorem tree_partition (o : Oracle) (leafSize : Nat) (maxDepth : Int) (n : Nat) :
    let t := makeTree o leafSize maxDepth n
    t.leaves.flatten.Perm ((List.range n).map Int.ofNat) ∧ t.leaves.flatten.Nodup ∧
    (∀ x : Int, x ∈ t.leaves.flatten ↔ 0 ≤ x ∧ x < n) ∧ t.size = n := by
  intro t
  have hp : t.leaves.flatten.Perm ((List.range n).map Int.ofNat) := buildTree_leaves_perm _ _ _ _ _
  refine ⟨hp, ?_, ?_, ?_⟩
  · refine hp.nodup_iff.mpr ?_
    unfold List.Nodup
    rw [List.pairwise_map]
    exact (List.nodup_range (n := n)).imp (fun h e => h (Int.ofNat.inj e))
  · intro x
    rw [hp.mem_iff]
    constructor
    · intro h
      obtain ⟨i, hi, rfl⟩ := List.mem_map.mp h
      have := List.mem_range.mp hi
      simp only [Int.ofNat_eq_natCast]
      omega
    · intro h
      exact List.mem_map.mpr ⟨x.toNat, List.mem_range.mpr (by omega), by simp; omega⟩
  · have := Tree.size_eq_of_perm hp
    simpa using this

/-- **Leaf-size limit**: every leaf of `buildTree` has at most `leaf_size` points **or** sits at
depth exactly `max_depth` (the fuel was exhausted); `leavesAt 0` pairs each leaf with its depth. -/
theorem leaf_size_bound (o : Oracle) (leafSize maxDepth : Nat) (path : List Bool) (idx : List Int) :
    ∀ p ∈ (buildTree o leafSize maxDepth path idx).leavesAt 0, p.2.length ≤ leafSize ∨ p.1 = maxDepth := by
  intro p hp
  have := buildTree_leavesAt o leafSize maxDepth path idx 0 p hp
  omega

/-- **Termination for degenerate data.**  `buildTree` is a total function defined by structural
recursion on the depth fuel alone: for every oracle (all-identical, all-zero, collinear data are
particular oracles: all margins `0`, every side a coin) the call returns a tree of depth at most
`max_depth` with fewer than `2^(max_depth+1)` nodes.  The bound does not mention the data. -/
theorem build_terminates (o : Oracle) (leafSize maxDepth : Nat) (path : List Bool) (idx : List Int) :
    ∃ t, buildTree o leafSize maxDepth path idx = t ∧ t.depth ≤ maxDepth ∧ t.numNodes < 2 ^ (maxDepth + 1) := by
  refine ⟨_, rfl, buildTree_depth o leafSize maxDepth path idx, ?_⟩
  have h1 := (buildTree o leafSize maxDepth path idx).numNodes_le_pow
  have h2 : 2 ^ ((buildTree o leafSize maxDepth path idx).depth + 1) ≤ 2 ^ (maxDepth + 1) :=
    Nat.pow_le_pow_right (by omega) (by have := buildTree_depth o leafSize maxDepth path idx; omega)
  omega

/-- **Flattening** (`convert_tree_format` on any linked tree `t` holding `n = t.size` points):
`indices` is the concatenation of the leaves in order; both `children` columns have one row per
node; the array is exactly the pure row specification `flatRows`; its leaf rows
(`children[node,0] ≤ 0`), in node order and negated, are the consecutive block ranges of the leaves,
which tile `[0, n)` (start at `0`, each starts where the previous ends, end at `n`; empty blocks
allowed); every inner row (`children[node,0] > 0`) is `(node+1, right)` with
`node+1 < right < n_nodes`; and the `i`-th leaf range cuts the `i`-th leaf out of `indices`. -/
theorem convert_spec (t : Tree) :
    let F := convertTreeFormat t t.size
    F.indices.toList = t.leaves.flatten ∧
    F.ch0.size = t.numNodes ∧ F.ch1.size = t.numNodes ∧
    F.ch0.toList.zip F.ch1.toList = flatRows t 0 0 ∧
    leafRows F.ch0 F.ch1 = (ranges t.leaves 0).map (fun r => ((r.1 : Int), (r.2 : Int))) ∧
    Tiles (ranges t.leaves 0) 0 t.size ∧
    (∀ (k : Nat) (c0 c1 : Int), F.ch0[k]? = some c0 → F.ch1[k]? = some c1 → 0 < c0 →
        c0 = (k : Int) + 1 ∧ (k : Int) + 1 < c1 ∧ c1 < (t.numNodes : Int)) ∧
    (∀ i (hi : i < t.leaves.length), ∃ a b : Nat, (ranges t.leaves 0)[i]? = some (a, b) ∧
        a ≤ b ∧ b ≤ t.size ∧ pySlice F.indices a b = t.leaves[i]) := by
  intro F
  obtain ⟨h0, h1, hi, hl⟩ : F.ch0.size = t.numNodes ∧ F.ch1.size = t.numNodes ∧
      F.indices.toList = t.leaves.flatten ∧ Laid F.ch0 F.ch1 t 0 0 := convert_main t
  have hz := hl.zip_eq h0 h1
  refine ⟨hi, h0, h1, hz, ?_, ?_, ?_, ?_⟩
  · simp only [leafRows]; rw [hz]; exact leafRows_flatRows t 0 0
  · have := tiles_ranges t.leaves 0
    rwa [Nat.zero_add, t.length_flatten_leaves] at this
  · intro k c0 c1 e0 e1 hp
    have hk : k < t.numNodes := by
      have := (Array.getElem?_eq_some_iff.mp e0).1; omega
    have := (hl.rows k c0 c1 (by omega) (by omega) e0 e1).1 hp
    simpa using this
  · intro i hi'
    obtain ⟨a, b, e, _, hb, hb2, hs⟩ := getElem?_ranges (s := 0) hi'
    rw [Nat.zero_add, t.length_flatten_leaves] at hb2
    refine ⟨a, b, e, by omega, hb2, ?_⟩
    have hsz : F.indices.size = t.size := by
      have := congrArg List.length hi
      simpa [t.length_flatten_leaves] using this
    rw [pySlice_nat _ _ _ (by omega) (by omega), hi]
    simpa using hs

/-- **The flat tree lists every point exactly once**: flattening the tree built for `n` points with
`data_size = n` (what `convert_tree_format(tree, data.shape[0], …)` is called with) yields an
`indices` array that is a permutation of `0 … n-1` — the array that becomes `_vertex_order`. -/
theorem flat_indices_perm (o : Oracle) (leafSize : Nat) (maxDepth : Int) (n : Nat) :
    (convertTreeFormat (makeTree o leafSize maxDepth n) n).indices.toList.Perm ((List.range n).map Int.ofNat) := by
  obtain ⟨hp, _, _, hs⟩ := tree_partition o leafSize maxDepth n
  have := (convert_spec (makeTree o leafSize maxDepth n)).1
  rw [hs] at this
  rw [this]
  exact hp

/-- **Routing** (`search_flat_tree`, `search_flat_bit_tree`, `search_sparse_flat_tree`, the
`tree_search_closure`s): on the flattened form of any tree, for **every** side function (every
query vector, hyperplane and coin), any fuel exceeding the depth — in particular the number of
nodes — suffices: the loop `while children[node,0] > 0` stops at a node that is a leaf row
`(-a, -b)` where `(a, b)` is one of the leaf ranges, `a ≤ b ≤ n`, and `indices[a:b]` is that leaf
of the linked tree.  (Each step moves to a strictly larger row number — `convert_spec` — which is
why the fuel is never the reason for stopping.) -/
theorem route_terminates_valid (t : Tree) (side : Nat → Nat → Bool) (fuel : Nat)
    (hf : t.numNodes ≤ fuel ∨ t.depth < fuel) :
    let F := convertTreeFormat t t.size
    ∃ node a b : Nat, route F.ch0 F.ch1 side fuel 0 0 = some (node, (a : Int), (b : Int)) ∧
      node < t.numNodes ∧ F.ch0[node]? = some (-(a : Int)) ∧ F.ch1[node]? = some (-(b : Int)) ∧
      (a, b) ∈ ranges t.leaves 0 ∧ a ≤ b ∧ b ≤ t.size ∧
      ∃ leaf ∈ t.leaves, pySlice F.indices a b = leaf ∧ routeLeaf F side fuel = some leaf := by
  intro F
  obtain ⟨_, _, hi, hl⟩ : F.ch0.size = t.numNodes ∧ F.ch1.size = t.numNodes ∧
      F.indices.toList = t.leaves.flatten ∧ Laid F.ch0 F.ch1 t 0 0 := convert_main t
  have hf' : t.depth < fuel := by
    rcases hf with h | h
    · have := t.depth_lt_numNodes; omega
    · exact h
  obtain ⟨node, a, b, q1, q2, _, q4, q5, q6⟩ := route_laid side hl fuel 0 hf'
  obtain ⟨leaf, hm, _, h2, h3, h4⟩ := mem_ranges q2
  rw [Nat.zero_add, t.length_flatten_leaves] at h3
  have hsz : F.indices.size = t.size := by
    have := congrArg List.length hi
    simpa [t.length_flatten_leaves] using this
  have hs : pySlice F.indices a b = leaf := by
    rw [pySlice_nat _ _ _ (by omega) (by omega), hi]
    simpa using h4
  refine ⟨node, a, b, q1, by omega, q5, q6, q2, by omega, h3, leaf, hm, hs, ?_⟩
  simp only [routeLeaf]
  rw [q1]
  simp [hs]

/-- **Linked form** (the typed lists `make_*_tree` appends to, `linearize`): one entry per node in
post-order (root last); a `children` entry is the leaf mark `(-1,-1)` or a pair `left < right` of
earlier node numbers — so the three leaf tests used by `get_leaves_from_tree`
(`== -1 and == -1` for counting, `== -1 or == -1` for filling) and `recursive_convert` (`[0] < 0`)
select the same entries; and the `point_indices` of those entries, in list order, are the leaves. -/
theorem linked_form_spec (t : Tree) :
    let L := linearize t {}
    L.children.size = t.numNodes ∧ L.indices.size = t.numNodes ∧
    L.children.toList = postChildren t 0 ∧ L.indices.toList = postIndices t ∧
    (∀ c ∈ L.children.toList, c = (-1, -1) ∨ (0 ≤ c.1 ∧ c.1 < c.2 ∧ c.2 + 1 < (t.numNodes : Int))) ∧
    leafRowsOf L = t.leaves := by
  intro L
  obtain ⟨hc, hi, hr, _⟩ := leafArray_main t 0
  have a := congrArg List.length hc
  have b := congrArg List.length hi
  simp only [Array.length_toList, length_postChildren, length_postIndices] at a b
  refine ⟨a, b, hc, hi, ?_, hr⟩
  intro c hcm
  have hcm' : c ∈ postChildren t 0 := by rw [← hc]; exact hcm
  have := postChildren_shape t 0 c hcm'
  simpa using this

/-- **Leaf array** (`get_leaves_from_tree` with the width `make_dense_tree` stores in
`tree.leaf_size`): the width `w` is at least `leaf_size` and at least every leaf's length (it is
`leaf_size`, a leaf's length, or `1` — the `[-1]` of an inner node also enters the maximum); the
array has one row per leaf, in order, each the leaf followed by `-1` padding up to `w`. -/
theorem leafArray_spec (t : Tree) (leafSize : Nat) :
    let w := treeLeafSize (linearize t {}) leafSize
    leafSize ≤ w ∧ (∀ leaf ∈ t.leaves, leaf.length ≤ w) ∧
    (w = leafSize ∨ w = 1 ∨ ∃ leaf ∈ t.leaves, w = leaf.length) ∧
    (leafArray t leafSize).toList.map Array.toList =
      t.leaves.map (fun leaf => leaf ++ List.replicate (w - leaf.length) (-1)) := by
  intro w
  obtain ⟨_, _, _, h1, h2, h3, h4⟩ := leafArray_main t leafSize
  refine ⟨h1, h2, h3, ?_⟩
  rw [h4, List.map_map]
  apply List.map_congr_left
  intro leaf _
  simp [padRow, w]

/-! ## Non-vacuity (concrete, kernel-evaluated) -/

/-- an oracle whose first pass puts every point on the left at the root (so the fall-back fires),
whose fall-back *again* puts everything on the left at the root, and which alternates sides elsewhere -/
def degenerate : Oracle where
  first := fun path _ i => path ≠ [] && i % 2 == 1
  again := fun _ _ _ => false

/-- The fall-back can leave one side empty: the root's right child is an **empty leaf**; with
`leaf_size = 1`, `max_depth = 2` the leaf `[0, 2]` is larger than `leaf_size` — at depth `2`. -/
example : buildTree degenerate 1 2 [] [0, 1, 2, 3] =
    .node (.node (.leaf [0, 2]) (.leaf [1, 3])) (.leaf []) := by decide +kernel

/-- flattening of that tree: pre-order rows, the first leaf is `(0, -2)` (start `0`), the empty leaf `(-4, -4)` -/
example : convertTreeFormat (.node (.node (.leaf [0, 2]) (.leaf [1, 3])) (.leaf [])) 4 =
    ⟨#[1, 2, 0, -2, -4], #[4, 3, -2, -4, -4], #[0, 2, 1, 3]⟩ := by decide +kernel

/-- routing left-left ends at row 2 = the leaf encoded `(0, -2)`; right ends at the empty leaf -/
example : routeLeaf ⟨#[1, 2, 0, -2, -4], #[4, 3, -2, -4, -4], #[0, 2, 1, 3]⟩ (fun _ _ => false) 5 = some [0, 2] ∧
    routeLeaf ⟨#[1, 2, 0, -2, -4], #[4, 3, -2, -4, -4], #[0, 2, 1, 3]⟩ (fun _ _ => true) 5 = some [] ∧
    route #[1, 2, 0, -2, -4] #[4, 3, -2, -4, -4] (fun s _ => s == 1) 5 0 0 = some (3, 2, 4) := by decide +kernel

/-- linked form and leaf array of that tree: post-order, root last; width `max 1 2 = 2`; the empty leaf is a row of `-1` -/
example : linearize (.node (.node (.leaf [0, 2]) (.leaf [1, 3])) (.leaf [])) {} =
      ⟨#[(-1, -1), (-1, -1), (0, 1), (-1, -1), (2, 3)], #[[0, 2], [1, 3], [-1], [], [-1]]⟩ ∧
    leafArray (.node (.node (.leaf [0, 2]) (.leaf [1, 3])) (.leaf [])) 1 = #[#[0, 2], #[1, 3], #[-1, -1]] := by
  decide +kernel

/-- single-leaf root and empty data set -/
example : convertTreeFormat (makeTree degenerate 10 200 3) 3 = ⟨#[0], #[-3], #[0, 1, 2]⟩ ∧
    convertTreeFormat (makeTree degenerate 10 200 0) 0 = ⟨#[0], #[0], #[]⟩ ∧
    routeLeaf ⟨#[0], #[-3], #[0, 1, 2]⟩ (fun _ _ => true) 1 = some [0, 1, 2] ∧
    routeLeaf ⟨#[0], #[0], #[]⟩ (fun _ _ => true) 1 = some [] := by decide +kernel

end Pynn.C14
