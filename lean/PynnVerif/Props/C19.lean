import PynnVerif.Proofs.ThreadFlow
import PynnVerif.Gen.ThreadFlow

/-!
# C19 — an index never leaves the process-wide thread setting changed

`Gen.threadSkeletons` is regenerated from /repo on every run: one exception-flow
skeleton per function of the package that calls `numba.set_num_threads`.
-/
namespace Pynn.C19
open Pynn.TF

/-- General theorem (proved once): a skeleton accepted by the decidable check
`safe` restores the thread count on *every* exit — normal return, `return`
inside a `try`, or an exception raised at any may-raise point. -/
theorem safe_restores (st : Stmt) (hs : safe st = true) :
    ∀ e s', Run st ⟨false, none⟩ e s' → s'.changed = false := safe_sound st hs

/-- Obligation over today's source: every function that limits the thread count
is safe. -/
theorem all_skeletons_safe : ∀ p ∈ Gen.threadSkeletons, safe p.2 = true := by decide

/-- Every execution of every thread-limiting function in /repo's current source
ends with the process-wide thread count unchanged. -/
theorem thread_count_restored :
    ∀ p ∈ Gen.threadSkeletons, ∀ e s', Run p.2 ⟨false, none⟩ e s' → s'.changed = false :=
  fun p hp => safe_sound p.2 (all_skeletons_safe p hp)

/-- The check is not vacuous: the pre-repair shape (set, may-raise, restore without
`try/finally`) is rejected, and so is a restore from a stale saved value. -/
example : safe (.seq .getT (.seq .setT (.seq .mayRaise .restore))) = false := by decide
example : safe (.seq .setT (.tryFin .mayRaise .restore)) = false := by decide
example : safe (.seq .getT (.seq (.br .setT .skip) (.tryFin (.seq .mayRaise (.br .ret .raise_)) .restore))) = true := by decide
/-- a nested call of another thread-limiting method of the same object INSIDE the limited region overwrites the shared
saved value with the limited count: rejected; the same call after the `finally` is harmless -/
example : safe (.seq .getT (.seq .setT (.tryFin (.seq .mayRaise .callT) .restore))) = false := by decide
example : safe (.seq .getT (.seq .setT (.seq (.tryFin .mayRaise .restore) .callT))) = true := by decide
/-- …and the relational semantics really contains the offending execution. -/
example : Run (.seq .getT (.seq .setT (.seq .mayRaise .restore))) ⟨false, none⟩ .raised ⟨true, some false⟩ := by
  refine .seq_go _ _ _ ⟨false, some false⟩ _ _ (.get ⟨false, none⟩) ?_
  refine .seq_go _ _ _ ⟨true, some false⟩ _ _ (.set_ok ⟨false, some false⟩) ?_
  exact .seq_stop _ _ _ _ _ (.may_raise _) (by decide)

end Pynn.C19
