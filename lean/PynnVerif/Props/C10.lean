import PynnVerif.Proofs.Transport
import PynnVerif.Proofs.Transport1D

/-!
# C10 — the optimal-transport metric returns the true minimum transport cost

**What is and is not covered.**  The pivoting network simplex of
`optimal_transport.py` is *not modelled*.  Every run of the real solver is instead
*certified*: the harness (`harness/c10.py`) reads the flow `f` and the node potentials
`u`, `v` out of the solver's arrays, turns the doubles into exact rationals and the native
driver evaluates `Pynn.Transport.certify` on them.  The theorems below say what an accepted
certificate means (`certify_sound`, `certify_sound_exact_marginals`, `residuals_sound`,
`certify_value`) — for
every size, every cost matrix (metric or not, ties, zeros, negative entries even) and every
candidate `(f, u, v)`, however it was produced — and derive the consequences the property
lists for the LP optimum itself (`ot_*`).  Termination of the pivot loop is *observed* by the
harness, not proved: a run that stops at `max_iter` before reaching an optimum yields a
certificate with a large gap, which the harness reports.

Notation: `cost C f = Σ_i Σ_j C i j * f i j`; `Feasible a b f`: `f ≥ 0` with row sums `a`,
column sums `b`; `IsMin a b C val`: `val` is attained by a feasible plan and is `≤` the cost
of every feasible plan; `mat n m M`, `vec n a`: the matrix / vector read off an array.
All sums are finite, over `Fin n`, `Fin m`, for all `n`, `m`; all numbers are rationals.

Not proved: that a minimum *exists* for an arbitrary cost matrix (that needs LP vertex theory; the
statements about "the minimum" are of the form `IsMin … val → …`, and existence is exhibited where the
property names the value: `ot_zero_of_equal`, `ot_1d_closed_form`); that the floating-point
normalisation `a /= a.sum()` is exact (covered by `residuals_sound` + the harness's bound on the
residuals); termination of the pivot loop.
-/
namespace Pynn.C10
open Pynn.Transport Finset BigOperators

variable {n m : ℕ}

/-- **Weak duality with tolerance** (the mathematical core, all sizes).  If `(u, v)` is
`ε`-dual-feasible (`C i j + u i - v j ≥ -ε`, the reduced costs of `find_entering_arc`) then `f`
is within `gap = Σ (C i j + u i - v j) * f i j + ε * Σ f i j` of every non-negative plan `g`
that has the marginals of `f`. -/
theorem weak_duality_tol (C f g : Fin n → Fin m → ℚ) (u : Fin n → ℚ) (v : Fin m → ℚ) (ε : ℚ)
    (hg : ∀ i j, 0 ≤ g i j) (hrow : ∀ i, ∑ j, g i j = ∑ j, f i j)
    (hcol : ∀ j, ∑ i, g i j = ∑ i, f i j) (hdual : ∀ i j, -ε ≤ C i j + u i - v j) :
    cost C f ≤ cost C g + (∑ i, ∑ j, (C i j + u i - v j) * f i j + ε * ∑ i, ∑ j, f i j) :=
  weak_duality C f g u v ε hg hrow hcol hdual

/-- **Soundness of the executable checker** (the function the native driver runs on the arrays
extracted from the real solver).  If `certify a b C f u v eps` answers `(true, gap)` then all
shapes are `a.size × b.size` (so no read below is a default), `f ≥ 0`, and for **every**
non-negative plan `g` with the same marginals as `f`:  `⟨C,f⟩ ≤ ⟨C,g⟩ + gap`. -/
theorem certify_sound (a b u v : Array Rat) (C f : Array (Array Rat)) (eps gap : Rat)
    (h : certify a b C f u v eps = (true, gap)) :
    (C.size = a.size ∧ ∀ i, i < a.size → (C.getD i #[]).size = b.size) ∧
    (f.size = a.size ∧ ∀ i, i < a.size → (f.getD i #[]).size = b.size) ∧
    u.size = a.size ∧ v.size = b.size ∧
    (∀ i j, 0 ≤ mat a.size b.size f i j) ∧
    ∀ g : Fin a.size → Fin b.size → ℚ, (∀ i j, 0 ≤ g i j) →
      (∀ i, ∑ j, g i j = ∑ j, mat a.size b.size f i j) →
      (∀ j, ∑ i, g i j = ∑ i, mat a.size b.size f i j) →
      cost (mat a.size b.size C) (mat a.size b.size f) ≤ cost (mat a.size b.size C) g + gap := by
  simp only [certify, Prod.mk.injEq] at h
  obtain ⟨hok, hgap⟩ := h
  obtain ⟨hC, hf, hu, hv, hpos, hdual⟩ := certOk_spec a b u v C f eps hok
  refine ⟨hC, hf, hu, hv, fun i j => hpos i i.isLt j j.isLt, ?_⟩
  intro g hg hrow hcol
  rw [← hgap, certGap_eq]
  exact weak_duality (mat a.size b.size C) (mat a.size b.size f) g (vec a.size u) (vec b.size v) eps
    hg hrow hcol (fun i j => hdual i i.isLt j j.isLt)

/-- **Against the exactly normalised inputs.**  With the same acceptance, for every plan `g`
whose marginals are *exactly* `a` and `b` (the harness passes `a = x/Σx`, `b = y/Σy` as exact
rationals): `⟨C,f⟩ ≤ ⟨C,g⟩ + gapAB`, where `gapAB` adds to the complementary-slackness term the
marginal residuals of `f` weighted by the potentials.  (`f` itself need not be feasible for
`(a, b)`: floating-point flows reproduce the marginals only up to rounding; `rowRes`, `colRes`
report by how much.) -/
theorem certify_sound_exact_marginals (a b u v : Array Rat) (C f : Array (Array Rat)) (eps : Rat)
    (h : (certify a b C f u v eps).1 = true)
    (g : Fin a.size → Fin b.size → ℚ) (hg : Feasible (vec a.size a) (vec b.size b) g) :
    cost (mat a.size b.size C) (mat a.size b.size f)
      ≤ cost (mat a.size b.size C) g + gapAB a b C f u v eps := by
  obtain ⟨_, _, _, _, _, hdual⟩ := certOk_spec a b u v C f eps h
  have hw := weak_duality_gen (mat a.size b.size C) (mat a.size b.size f) g (vec a.size u)
    (vec b.size v) eps hg.nonneg (fun i j => hdual i i.isLt j j.isLt)
  rw [gapAB_eq]
  simp only [hg.row, hg.col] at hw
  simp only [cost, mat, vec] at hw ⊢
  linarith

/-- **The reported residuals are bounds**: every row / column sum of `f` is within `rowRes` /
`colRes` (the numbers the driver prints, which the harness requires to be `≤ 1e-9`) of the
corresponding entry of `a` / `b`. -/
theorem residuals_sound (a b : Array Rat) (f : Array (Array Rat)) :
    (∀ i : Fin a.size, |∑ j, mat a.size b.size f i j - vec a.size a i| ≤ rowRes a b f) ∧
    (∀ j : Fin b.size, |∑ i, mat a.size b.size f i j - vec b.size b j| ≤ colRes a b f) :=
  ⟨rowRes_spec a b f, colRes_spec a b f⟩

/-- **The certified value is the LP minimum up to the gap** (two-sided): if `val` is the
minimum of the transport LP between the marginals of the certified `f`, then
`val ≤ ⟨C,f⟩ ≤ val + gap`. -/
theorem certify_value (a b u v : Array Rat) (C f : Array (Array Rat)) (eps gap : Rat)
    (h : certify a b C f u v eps = (true, gap)) (val : ℚ)
    (hmin : IsMin (fun i => ∑ j, mat a.size b.size f i j) (fun j => ∑ i, mat a.size b.size f i j)
      (mat a.size b.size C) val) :
    val ≤ costOf a.size b.size C f ∧ costOf a.size b.size C f ≤ val + gap := by
  obtain ⟨_, _, _, _, hpos, hall⟩ := certify_sound a b u v C f eps gap h
  obtain ⟨⟨g, hg, hgv⟩, hle⟩ := hmin
  rw [costOf_eq]
  refine ⟨hle _ ⟨hpos, fun _ => rfl, fun _ => rfl⟩, ?_⟩
  rw [← hgv]
  exact hall g hg.nonneg hg.row hg.col

/-- The minimum of a transport LP is a single number. -/
theorem min_unique (a : Fin n → ℚ) (b : Fin m → ℚ) (C : Fin n → Fin m → ℚ) (v w : ℚ)
    (hv : IsMin a b C v) (hw : IsMin a b C w) : v = w := hv.unique hw

/-- **Symmetry.**  Swapping the two distributions and transposing the cost leaves the minimum
unchanged (the transposed plan is feasible for the swapped marginals at equal cost) … -/
theorem ot_transpose (a : Fin n → ℚ) (b : Fin m → ℚ) (C : Fin n → Fin m → ℚ) (val : ℚ)
    (h : IsMin a b C val) : IsMin b a (fun j i => C i j) val := h.transpose

/-- … hence for a symmetric cost the metric is symmetric. -/
theorem ot_symmetric (a b : Fin n → ℚ) (C : Fin n → Fin n → ℚ) (hC : ∀ i j, C i j = C j i)
    (val : ℚ) (h : IsMin a b C val) : IsMin b a C val := by
  have e : (fun j i => C i j) = C := by funext j i; exact hC i j
  have := h.transpose
  rwa [e] at this

/-- **Zero for equal distributions** under a non-negative cost with zero diagonal: the diagonal
plan costs `0` and no plan costs less. -/
theorem ot_zero_of_equal (a : Fin n → ℚ) (C : Fin n → Fin n → ℚ) (ha : ∀ i, 0 ≤ a i)
    (hC : ∀ i j, 0 ≤ C i j) (hd : ∀ i, C i i = 0) : IsMin a a C 0 :=
  isMin_zero_of_eq C a hC hd ha

/-- **Rescaling either input** by non-zero factors changes neither the support mask
(`x != 0`) nor the normalised distribution `x / Σ x`, hence not the LP that `kantorovich`
hands to the solver, hence not its minimum. -/
theorem ot_scale_invariant (x : Fin n → ℚ) (y : Fin m → ℚ) (c d : ℚ) (hc : c ≠ 0) (hd : d ≠ 0)
    (C : Fin n → Fin m → ℚ) (val : ℚ) :
    (∀ i, c * x i ≠ 0 ↔ x i ≠ 0) ∧ (∀ j, d * y j ≠ 0 ↔ y j ≠ 0) ∧
    normalize (fun i => c * x i) = normalize x ∧ normalize (fun j => d * y j) = normalize y ∧
    (IsMin (normalize fun i => c * x i) (normalize fun j => d * y j) C val
      ↔ IsMin (normalize x) (normalize y) C val) := by
  refine ⟨fun i => by simp [hc], fun j => by simp [hd], normalize_scale c hc x,
    normalize_scale d hd y, ?_⟩
  rw [normalize_scale c hc x, normalize_scale d hd y]

/-- Normalising a vector of non-zero total mass gives total mass one (so both normalised
inputs have equal mass and the LP is the balanced transport problem). -/
theorem normalize_mass (x : Fin n → ℚ) (hx : ∑ k, x k ≠ 0) : ∑ i, normalize x i = 1 :=
  normalize_sum x hx

/-- **Support masking is harmless.**  A plan moves nothing out of a zero-mass row or into a
zero-mass column, so the minimum depends on the cost matrix only through its entries on
`supp a × supp b` — the sub-matrix `cost[row_mask, :][:, col_mask]` that `kantorovich` keeps. -/
theorem ot_support_only (a : Fin n → ℚ) (b : Fin m → ℚ) (C C' : Fin n → Fin m → ℚ)
    (hC : ∀ i j, a i ≠ 0 → b j ≠ 0 → C i j = C' i j) (val : ℚ) :
    (∀ f, Feasible a b f → ∀ i j, (a i = 0 ∨ b j = 0) → f i j = 0) ∧
    (IsMin a b C val ↔ IsMin a b C' val) := by
  refine ⟨?_, isMin_congr_support C C' hC val,
    isMin_congr_support C' C (fun i j hi hj => (hC i j hi hj).symm) val⟩
  rintro f hf i j (h | h)
  · exact hf.row_zero i h j
  · exact hf.col_zero j h i

/-- **The masked problem is the same problem.**  `kantorovich` solves the LP between the
compressed arrays `x[x != 0]`, `y[y != 0]` with `cost[row_mask, :][:, col_mask]`.  For any
injective enumerations `e`, `e'` whose ranges contain the supports of `a`, `b` (the order of
the surviving indices does not matter), the LP on the compressed index sets and the LP on the
full index sets have the same minimum (plans restrict, and extend by zero, at equal cost). -/
theorem ot_masked_same_min {n' m' : ℕ} (e : Fin n' → Fin n) (e' : Fin m' → Fin m)
    (he : Function.Injective e) (he' : Function.Injective e') (a : Fin n → ℚ) (b : Fin m → ℚ)
    (ha : ∀ i, a i ≠ 0 → i ∈ Set.range e) (hb : ∀ j, b j ≠ 0 → j ∈ Set.range e')
    (C : Fin n → Fin m → ℚ) (val : ℚ) :
    IsMin (a ∘ e) (b ∘ e') (fun i j => C (e i) (e' j)) val ↔ IsMin a b C val :=
  isMin_mask e e' he he' a b ha hb C val

/-- **1-D lower bound.**  Under the ground cost `|i - j|` every plan between `a` and `b` costs
at least `Σ_k |F k - G k|`, `F`, `G` the cumulative sums. -/
theorem ot_1d_lower (a b : Fin n → ℚ) (g : Fin n → Fin n → ℚ) (hg : Feasible a b g) :
    ∑ k, |cdf a k - cdf b k| ≤ cost absCost g := w1_le_cost hg

/-- **1-D closed form.**  For non-negative `a`, `b` of equal mass the minimum of the transport
LP with ground cost `|i - j|` *equals* `Σ_k |F k - G k|` — the number
`distances.wasserstein_1d(x, y, p=1)` computes — attained by the comonotone coupling. -/
theorem ot_1d_closed_form (a b : Fin n → ℚ) (ha : ∀ i, 0 ≤ a i) (hb : ∀ j, 0 ≤ b j)
    (hab : ∑ i, a i = ∑ j, b j) : IsMin a b absCost (∑ k, |cdf a k - cdf b k|) :=
  ⟨⟨mono a b, mono_feasible a b ha hb hab, cost_mono a b ha hb hab⟩, fun _ hg => w1_le_cost hg⟩

/-! ### Non-vacuity (concrete certificates, evaluated by the kernel)

`a = b = (1/2, 1/2)`, cost `[[0,1],[1,0]]`. -/

/-- the optimal (diagonal) plan with potentials `0`: accepted, gap `0` -/
example : certify #[1/2, 1/2] #[1/2, 1/2] #[#[0, 1], #[1, 0]] #[#[1/2, 0], #[0, 1/2]]
    #[0, 0] #[0, 0] 0 = (true, 0) := by decide +kernel
/-- the anti-diagonal plan (cost 1, the maximum): still accepted — the potentials are dual
feasible — but with gap `1`, i.e. the certificate proves nothing better than `1 ≤ 0 + 1` -/
example : certify #[1/2, 1/2] #[1/2, 1/2] #[#[0, 1], #[1, 0]] #[#[0, 1/2], #[1/2, 0]]
    #[0, 0] #[0, 0] 0 = (true, 1) := by decide +kernel
/-- dual-infeasible potentials (reduced cost of arc (1,1) is `0 + 0 - 1 < 0`): rejected -/
example : (certify #[1/2, 1/2] #[1/2, 1/2] #[#[0, 1], #[1, 0]] #[#[1/2, 0], #[0, 1/2]]
    #[0, 0] #[0, 1] 0).1 = false := by decide +kernel
/-- … accepted once the tolerance covers the violation, and the gap says what that costs:
`Σ r f + eps * Σ f = -1/2 + 1` -/
example : certify #[1/2, 1/2] #[1/2, 1/2] #[#[0, 1], #[1, 0]] #[#[1/2, 0], #[0, 1/2]]
    #[0, 0] #[0, 1] 1 = (true, 1/2) := by decide +kernel
/-- a negative flow entry: rejected -/
example : (certify #[1/2, 1/2] #[1/2, 1/2] #[#[0, 1], #[1, 0]] #[#[1, -1/2], #[-1/2, 1]]
    #[0, 0] #[0, 0] 0).1 = false := by decide +kernel
/-- a ragged cost matrix: rejected (no default is ever read inside an accepted certificate) -/
example : (certify #[1/2, 1/2] #[1/2, 1/2] #[#[0, 1], #[1]] #[#[1/2, 0], #[0, 1/2]]
    #[0, 0] #[0, 0] 0).1 = false := by decide +kernel
/-- residuals are reported exactly: this `f` misses `a` by `1/4` in each row -/
example : rowRes #[1/2, 1/2] #[1/2, 1/2] #[#[1/4, 0], #[0, 3/4]] = 1/4 := by decide +kernel
/-- the 1-D closed form on `a = (1,0,0)`, `b = (0,0,1)`: `|1-0| + |1-0| + |1-1| = 2` -/
example : (∑ k, |cdf (n := 3) ![1, 0, 0] k - cdf ![0, 0, 1] k|) = 2 := by
  simp [cdf, Fin.sum_univ_three]; norm_num

end Pynn.C10
