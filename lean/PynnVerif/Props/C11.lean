import PynnVerif.Proofs.TopK
import PynnVerif.Proofs.HeapSort
import Mathlib.Data.Nat.Basic  -- `LinearOrder Nat` for the concrete example at the end

/-!
# C11 — the bounded top-k heap never loses a better candidate

Property theorems only (helper lemmas live in `Proofs/`).  `P` is any linear
order, `top` its greatest element (`np.inf`), `k` any heap size, `d` any
candidate-distance function, `offers` any finite offer sequence (repetitions
allowed for the checked variants).
-/
namespace Pynn.C11
open Pynn
variable {P : Type} [LinearOrder P]

/-- The row reached from an empty `k`-slot heap by offering `offers` in order
(`c = true`: the checked variants, `c = false`: `simple_heap_push`). -/
def run (c : Bool) (top : P) (k : Nat) (d : Nat → P) (offers : List (Nat × Bool)) : Row P :=
  offers.foldl (fun h o => (push c h (d o.1) o.1 o.2).1) (mkRow top k)

/-- **Top-k, checked variants** (`checked_heap_push`, `checked_flagged_heap_push`):
after *any* offer sequence the row is a max-heap; every held candidate was
offered, is paired with its own distance and with a flag it was offered with,
and has finite distance; empty slots are `(-1, top)`; no candidate is held
twice; the row is full or holds every finite offer (`|H| = min k |O|`); and
every finite offer that is not held is at least as far as every held one. -/
theorem topk_checked (top : P) (htop : ∀ x : P, x ≤ top) (k : Nat) (d : Nat → P)
    (offers : List (Nat × Bool)) :
    let h := run true top k d offers
    h.size = k ∧ IsHeap h ∧
    (∀ e ∈ h, 0 ≤ e.idx → (e.idx.toNat, e.flag) ∈ offers ∧ e.prio = d e.idx.toNat ∧ e.prio < top) ∧
    (∀ e ∈ h, e.idx < 0 → e.idx = -1 ∧ e.prio = top) ∧
    ((h.toList.filter (fun e => 0 ≤ e.idx)).map (·.idx)).Nodup ∧
    ((∀ e ∈ h, 0 ≤ e.idx) ∨ (∀ o ∈ offers, d o.1 < top → ∃ e ∈ h, e.idx = (o.1 : Int))) ∧
    (∀ a ∈ h, 0 ≤ a.idx → ∀ o ∈ offers, d o.1 < top → (¬ ∃ e ∈ h, e.idx = (o.1 : Int)) →
        a.prio ≤ d o.1) := by
  have hinv := run_inv true top htop k d offers nofun
  exact ⟨run_size _ _ _ _ _, hinv.heap, hinv.real, hinv.sent, hinv.nodup, hinv.full_or_all htop,
         hinv.best⟩

/-- **Top-k, `simple_heap_push`**, under its caller's obligation that no
candidate is offered twice (the search marks vertices visited before pushing). -/
theorem topk_simple (top : P) (htop : ∀ x : P, x ≤ top) (k : Nat) (d : Nat → P)
    (offers : List (Nat × Bool)) (hdistinct : (offers.map (·.1)).Nodup) :
    let h := run false top k d offers
    h.size = k ∧ IsHeap h ∧
    (∀ e ∈ h, 0 ≤ e.idx → (e.idx.toNat, e.flag) ∈ offers ∧ e.prio = d e.idx.toNat ∧ e.prio < top) ∧
    (∀ e ∈ h, e.idx < 0 → e.idx = -1 ∧ e.prio = top) ∧
    ((h.toList.filter (fun e => 0 ≤ e.idx)).map (·.idx)).Nodup ∧
    ((∀ e ∈ h, 0 ≤ e.idx) ∨ (∀ o ∈ offers, d o.1 < top → ∃ e ∈ h, e.idx = (o.1 : Int))) ∧
    (∀ a ∈ h, 0 ≤ a.idx → ∀ o ∈ offers, d o.1 < top → (¬ ∃ e ∈ h, e.idx = (o.1 : Int)) →
        a.prio ≤ d o.1) := by
  have hinv := run_inv false top htop k d offers (fun _ => hdistinct)
  exact ⟨run_size _ _ _ _ _, hinv.heap, hinv.real, hinv.sent, hinv.nodup, hinv.full_or_all htop,
         hinv.best⟩

/-- An accepted push replaces the root (a current worst entry, by `isHeap_root_max`)
and moves *whole* entries: candidate, distance and flag stay together. -/
theorem push_accept_perm (c : Bool) (h : Row P) (p : P) (n : Int) (f : Bool)
    (hacc : (push c h p n f).2 = true) :
    (push c h p n f).1.Perm (h.setIfInBounds 0 ⟨p, n, f⟩) := push_perm c h p n f hacc

/-- A rejected push leaves the row untouched. -/
theorem push_reject_id (c : Bool) (h : Row P) (p : P) (n : Int) (f : Bool)
    (hrej : (push c h p n f).2 = false) : (push c h p n f).1 = h := push_reject c h p n f hrej

/-- **Final sort**: on a max-heap, `deheap_sort` returns the same entries
(a permutation of whole entries) in ascending priority order; consequently the
`(-1, top)` sentinels come last. -/
theorem deheapSort_spec (h : Row P) (hh : IsHeap h) :
    (deheapSort h).Perm h ∧
    (∀ i j (hi : i < (deheapSort h).size) (hj : j < (deheapSort h).size), i ≤ j →
        (deheapSort h)[i].prio ≤ (deheapSort h)[j].prio) :=
  ⟨deheapSort_perm h, deheapSort_sorted h hh⟩

/-- Non-vacuity: a concrete run with ties, a repeated candidate and an infinite offer
(`P = Nat` capped at `top = 100`).  The tie at distance 5 is resolved in favour of
candidate 0: candidate 2 becomes the root when pushed (`5 < 5` is false, no sift) and is
the entry evicted by candidate 4.  (`decide +kernel`: `sift` is a well-founded recursion,
which the elaborator's `decide` does not unfold; kernel evaluation adds no axioms.) -/
example : (run true (100 : Nat) 3 (fun n => [5, 1, 5, 9, 2, 7, 100].getD n 100)
    [(0, true), (1, false), (2, true), (0, false), (3, true), (4, false), (5, true), (6, false)]).toList.map (·.idx)
    = [0, 4, 1] := by decide +kernel

end Pynn.C11
