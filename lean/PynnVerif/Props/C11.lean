import PynnVerif.Proofs.TopK
import PynnVerif.Proofs.HeapSort
import PynnVerif.Proofs.GenHeap
import PynnVerif.Proofs.GenDeheap
import Mathlib.Data.Nat.Basic  -- `LinearOrder Nat` for the concrete example at the end

/-!
# C11 — the bounded top-k heap never loses a better candidate

Property theorems only (helper lemmas live in `Proofs/`).  `P` is any linear
order, `top` its greatest element (`np.inf`), `k` any heap size, `d` any
candidate-distance function, `offers` any finite offer sequence (repetitions
allowed for the checked variants).
-/
namespace Pynn.C11
open Pynn
variable {P : Type} [LinearOrder P]

/-- The row reached from an empty `k`-slot heap by offering `offers` in order
(`c = true`: the checked variants, `c = false`: `simple_heap_push`). -/
def run (c : Bool) (top : P) (k : Nat) (d : Nat → P) (offers : List (Nat × Bool)) : Row P :=
  offers.foldl (fun h o => (push c h (d o.1) o.1 o.2).1) (mkRow top k)

/-- **Top-k, checked variants** (`checked_heap_push`, `checked_flagged_heap_push`):
after *any* offer sequence the row is a max-heap; every held candidate was
offered, is paired with its own distance and with a flag it was offered with,
and has finite distance; empty slots are `(-1, top)`; no candidate is held
twice; the row is full or holds every finite offer (`|H| = min k |O|`); and
every finite offer that is not held is at least as far as every held one. -/
theorem topk_checked (top : P) (htop : ∀ x : P, x ≤ top) (k : Nat) (d : Nat → P)
    (offers : List (Nat × Bool)) :
    let h := run true top k d offers
    h.size = k ∧ IsHeap h ∧
    (∀ e ∈ h, 0 ≤ e.idx → (e.idx.toNat, e.flag) ∈ offers ∧ e.prio = d e.idx.toNat ∧ e.prio < top) ∧
    (∀ e ∈ h, e.idx < 0 → e.idx = -1 ∧ e.prio = top) ∧
    ((h.toList.filter (fun e => 0 ≤ e.idx)).map (·.idx)).Nodup ∧
    ((∀ e ∈ h, 0 ≤ e.idx) ∨ (∀ o ∈ offers, d o.1 < top → ∃ e ∈ h, e.idx = (o.1 : Int))) ∧
    (∀ a ∈ h, 0 ≤ a.idx → ∀ o ∈ offers, d o.1 < top → (¬ ∃ e ∈ h, e.idx = (o.1 : Int)) →
        a.prio ≤ d o.1) := by
  have hinv := run_inv true top htop k d offers nofun
  exact ⟨run_size _ _ _ _ _, hinv.heap, hinv.real, hinv.sent, hinv.nodup, hinv.full_or_all htop,
         hinv.best⟩

/-- **Top-k, `simple_heap_push`**, under its caller's obligation that no
candidate is offered twice (the search marks vertices visited before pushing). -/
theorem topk_simple (top : P) (htop : ∀ x : P, x ≤ top) (k : Nat) (d : Nat → P)
    (offers : List (Nat × Bool)) (hdistinct : (offers.map (·.1)).Nodup) :
    let h := run false top k d offers
    h.size = k ∧ IsHeap h ∧
    (∀ e ∈ h, 0 ≤ e.idx → (e.idx.toNat, e.flag) ∈ offers ∧ e.prio = d e.idx.toNat ∧ e.prio < top) ∧
    (∀ e ∈ h, e.idx < 0 → e.idx = -1 ∧ e.prio = top) ∧
    ((h.toList.filter (fun e => 0 ≤ e.idx)).map (·.idx)).Nodup ∧
    ((∀ e ∈ h, 0 ≤ e.idx) ∨ (∀ o ∈ offers, d o.1 < top → ∃ e ∈ h, e.idx = (o.1 : Int))) ∧
    (∀ a ∈ h, 0 ≤ a.idx → ∀ o ∈ offers, d o.1 < top → (¬ ∃ e ∈ h, e.idx = (o.1 : Int)) →
        a.prio ≤ d o.1) := by
  have hinv := run_inv false top htop k d offers (fun _ => hdistinct)
  exact ⟨run_size _ _ _ _ _, hinv.heap, hinv.real, hinv.sent, hinv.nodup, hinv.full_or_all htop,
         hinv.best⟩

/-- An accepted push replaces the root (a current worst entry, by `isHeap_root_max`)
and moves *whole* entries: candidate, distance and flag stay together. -/
theorem push_accept_perm (c : Bool) (h : Row P) (p : P) (n : Int) (f : Bool)
    (hacc : (push c h p n f).2 = true) :
    (push c h p n f).1.Perm (h.setIfInBounds 0 ⟨p, n, f⟩) := push_perm c h p n f hacc

/-- A rejected push leaves the row untouched. -/
theorem push_reject_id (c : Bool) (h : Row P) (p : P) (n : Int) (f : Bool)
    (hrej : (push c h p n f).2 = false) : (push c h p n f).1 = h := push_reject c h p n f hrej

/-- **Final sort**: on a max-heap, `deheap_sort` returns the same entries
(a permutation of whole entries) in ascending priority order; consequently the
`(-1, top)` sentinels come last. -/
theorem deheapSort_spec (h : Row P) (hh : IsHeap h) :
    (deheapSort h).Perm h ∧
    (∀ i j (hi : i < (deheapSort h).size) (hj : j < (deheapSort h).size), i ≤ j →
        (deheapSort h)[i].prio ≤ (deheapSort h)[j].prio) :=
  ⟨deheapSort_perm h, deheapSort_sorted h hh⟩

/-- Non-vacuity: a concrete run with ties, a repeated candidate and an infinite offer
(`P = Nat` capped at `top = 100`).  The tie at distance 5 is resolved in favour of
candidate 0: candidate 2 becomes the root when pushed (`5 < 5` is false, no sift) and is
the entry evicted by candidate 4.  (`decide +kernel`: `sift` is a well-founded recursion,
which the elaborator's `decide` does not unfold; kernel evaluation adds no axioms.) -/
example : (run true (100 : Nat) 3 (fun n => [5, 1, 5, 9, 2, 7, 100].getD n 100)
    [(0, true), (1, false), (2, true), (0, false), (3, true), (4, false), (5, true), (6, false)]).toList.map (·.idx)
    = [0, 4, 1] := by decide +kernel

/-! ## The tie to the code as a theorem: the *translated* kernels refine the model

`Gen/Kernels.lean` is regenerated from the source text of `pynndescent/utils.py` on every run
(`harness/translate_kernels.py`: arrays with out-of-bounds = `none`, loops over fuel).  The theorems
below are about those generated definitions (`GenK.*`), for every input; `zip2` / `zip3` turn the
kernels' parallel arrays into the model's row.  `Q` is *any* type with decidable `≤`, `<` (no order
axioms: kernels and model do the same comparisons). -/

/-- **`utils.simple_heap_push` is the model's `push false`.**  For every non-empty row held in two
equal-sized arrays and `fuel ≥ size + 1`, the translated kernel stays inside both arrays, terminates,
returns `1` iff the model accepts (else `0`), and leaves exactly the model's row in the arrays. -/
theorem kernel_simple_heap_push_refines {Q : Type} [LE Q] [LT Q] [DecidableLE Q] [DecidableLT Q]
    (pr : Array Q) (ix : Array Int) (p : Q) (n : Int) (fuel : Nat)
    (hs : pr.size = ix.size) (hk : 0 < pr.size) (hf : pr.size + 1 ≤ fuel) :
    ∃ pr' ix', GenK.simple_heap_push fuel pr ix p n
        = some (pr', ix', if (push false (zip2 pr ix) p n false).2 then 1 else 0)
      ∧ pr'.size = pr.size ∧ ix'.size = ix.size
      ∧ zip2 pr' ix' = (push false (zip2 pr ix) p n false).1 :=
  simple_heap_push_refines pr ix p n fuel hs hk hf

/-- **`utils.checked_heap_push` is the model's `push true`** (duplicate scan over the whole row,
sentinels included, then the same hole sift). -/
theorem kernel_checked_heap_push_refines {Q : Type} [LE Q] [LT Q] [DecidableLE Q] [DecidableLT Q]
    (pr : Array Q) (ix : Array Int) (p : Q) (n : Int) (fuel : Nat)
    (hs : pr.size = ix.size) (hk : 0 < pr.size) (hf : pr.size + 1 ≤ fuel) :
    ∃ pr' ix', GenK.checked_heap_push fuel pr ix p n
        = some (pr', ix', if (push true (zip2 pr ix) p n false).2 then 1 else 0)
      ∧ pr'.size = pr.size ∧ ix'.size = ix.size
      ∧ zip2 pr' ix' = (push true (zip2 pr ix) p n false).1 :=
  checked_heap_push_refines pr ix p n fuel hs hk hf

/-- **`utils.checked_flagged_heap_push` is the model's `push true` with flags**: three equal-sized
arrays; the flag byte `f` is stored with the entry and moves with it (model flag = `f ≠ 0`). -/
theorem kernel_checked_flagged_heap_push_refines {Q : Type} [LE Q] [LT Q] [DecidableLE Q] [DecidableLT Q]
    (pr : Array Q) (ix fl : Array Int) (p : Q) (n f : Int) (fuel : Nat)
    (hs : pr.size = ix.size) (hs' : pr.size = fl.size) (hk : 0 < pr.size) (hf : pr.size + 1 ≤ fuel) :
    ∃ pr' ix' fl', GenK.checked_flagged_heap_push fuel pr ix fl p n f
        = some (pr', ix', fl', if (push true (zip3 pr ix fl) p n (f != 0)).2 then 1 else 0)
      ∧ pr'.size = pr.size ∧ ix'.size = ix.size ∧ fl'.size = fl.size
      ∧ zip3 pr' ix' fl' = (push true (zip3 pr ix fl) p n (f != 0)).1 :=
  checked_flagged_heap_push_refines pr ix fl p n f fuel hs hs' hk hf

/-- **`utils.siftdown` is the model's `siftdownSwap`** over the whole row (the prefix
`heap1[:j]` the callers pass *is* the array here), for every start position `elt ≥ 0`. -/
theorem kernel_siftdown_refines {Q : Type} [LE Q] [LT Q] [DecidableLE Q] [DecidableLT Q]
    (h1 : Array Q) (h2 : Array Int) (elt : Int) (fuel : Nat)
    (hs : h1.size = h2.size) (he : 0 ≤ elt) (hf : h1.size + 1 ≤ fuel) :
    ∃ h1' h2', GenK.siftdown fuel h1 h2 elt = some (h1', h2')
      ∧ h1'.size = h1.size ∧ h2'.size = h2.size
      ∧ zip2 h1' h2' = siftdownSwap (zip2 h1 h2) h1.size elt.toNat :=
  siftdown_refines h1 h2 elt fuel hs he hf

/-- The abstraction loses nothing: two equal-sized arrays are determined by their zipped row, so
"`zip2 pr' ix'` = the model's row" pins the kernel's output arrays down completely. -/
theorem kernel_arrays_determined {Q : Type} {pr pr' : Array Q} {ix ix' : Array Int}
    (h : pr.size = ix.size) (h' : pr'.size = ix'.size) (e : zip2 pr ix = zip2 pr' ix') :
    pr = pr' ∧ ix = ix' := zip2_inj h h' e

/-- **Memory safety of the heap kernels.**  numba compiles them without bounds checks; the translation
answers `none` for any load/store outside `0 ≤ i < len` and for fuel exhaustion.  With equal-sized
arrays, a non-empty row (pushes) and `fuel ≥ size + 1`, none of the four kernels ever does. -/
theorem kernel_pushes_memory_safe {Q : Type} [LE Q] [LT Q] [DecidableLE Q] [DecidableLT Q]
    (pr : Array Q) (ix fl : Array Int) (p : Q) (n f elt : Int) (fuel : Nat)
    (hs : pr.size = ix.size) (hs' : pr.size = fl.size) (hf : pr.size + 1 ≤ fuel) :
    (0 < pr.size →
      GenK.simple_heap_push fuel pr ix p n ≠ none ∧ GenK.checked_heap_push fuel pr ix p n ≠ none ∧
      GenK.checked_flagged_heap_push fuel pr ix fl p n f ≠ none) ∧
    (0 ≤ elt → GenK.siftdown fuel pr ix elt ≠ none) :=
  ⟨fun hk => ⟨simple_heap_push_safe pr ix p n fuel hs hk hf, checked_heap_push_safe pr ix p n fuel hs hk hf,
      checked_flagged_heap_push_safe pr ix fl p n f fuel hs hs' hk hf⟩,
   fun he => siftdown_safe pr ix elt fuel hs he hf⟩

/-- **The precondition is real**: on an empty row (`k = 0`) each push kernel reads `priorities[0]`
outside the array — undefined behaviour in the compiled code — whatever the fuel.  (The model answers
"rejected"; the two agree only on non-empty rows, which is what the theorems above assume.) -/
theorem kernel_push_empty_row_out_of_bounds {Q : Type} [LE Q] [LT Q] [DecidableLE Q] [DecidableLT Q]
    (pr : Array Q) (ix fl : Array Int) (p : Q) (n f : Int) (fuel : Nat) (h0 : pr.size = 0) :
    GenK.simple_heap_push fuel pr ix p n = none ∧ GenK.checked_heap_push fuel pr ix p n = none ∧
    GenK.checked_flagged_heap_push fuel pr ix fl p n f = none :=
  ⟨simple_heap_push_empty pr ix p n fuel h0, checked_heap_push_empty pr ix p n fuel h0,
   checked_flagged_heap_push_empty pr ix fl p n f fuel h0⟩

/-- **End to end on the generated kernel.**  Start from `make_heap`'s arrays (`k ≥ 1` slots
`(top, -1)`) and feed *any* sequence of candidates (repetitions allowed) through the translated
`checked_heap_push` with `fuel ≥ k + 1` (`kernelRun`).  No call leaves an array; the final arrays have
`k` slots and, read as a row, are the model's row — hence a max-heap in which every held candidate was
offered and sits next to its own distance, empty slots are `(-1, top)`, no candidate is held twice, the
row is full or holds every finite offer, and no finite offer that is absent is closer than a held one. -/
theorem kernel_checked_topk (top : P) (htop : ∀ x : P, x ≤ top) (k : Nat) (hk : 0 < k) (d : Nat → P)
    (offers : List Nat) (fuel : Nat) (hf : k + 1 ≤ fuel) :
    ∃ pr ix, kernelRun fuel d offers (Array.replicate k top) (Array.replicate k (-1)) = some (pr, ix) ∧
      pr.size = k ∧ ix.size = k ∧
      zip2 pr ix = run true top k d (offers.map (fun n => (n, false))) ∧
      IsHeap (zip2 pr ix) ∧
      (∀ j (hj : j < pr.size) (hj' : j < ix.size), 0 ≤ ix[j] →
          ix[j].toNat ∈ offers ∧ pr[j] = d ix[j].toNat ∧ pr[j] < top) ∧
      (∀ j (hj : j < pr.size) (hj' : j < ix.size), ix[j] < 0 → ix[j] = -1 ∧ pr[j] = top) ∧
      (((zip2 pr ix).toList.filter (fun e => 0 ≤ e.idx)).map (·.idx)).Nodup ∧
      ((∀ j (hj : j < ix.size), 0 ≤ ix[j]) ∨
        (∀ o ∈ offers, d o < top → ∃ j, ∃ hj : j < ix.size, ix[j] = (o : Int))) ∧
      (∀ j (hj : j < pr.size) (hj' : j < ix.size), 0 ≤ ix[j] → ∀ o ∈ offers, d o < top →
          (¬ ∃ j', ∃ hj' : j' < ix.size, ix[j'] = (o : Int)) → pr[j] ≤ d o) := by
  obtain ⟨pr, ix, hrun, s1, s2, hz⟩ := kernelRun_refines fuel d offers (Array.replicate k top)
    (Array.replicate k (-1)) (by simp) (by simpa using hk) (by simpa using hf)
  simp only [Array.size_replicate] at s1 s2
  have hs : pr.size = ix.size := by omega
  rw [zip2_replicate] at hz
  have hz' : zip2 pr ix = run true top k d (offers.map (fun n => (n, false))) := hz
  obtain ⟨_, t2, t3, t4, t5, t6, t7⟩ := topk_checked top htop k d (offers.map (fun n => (n, false)))
  simp only [← hz'] at t2 t3 t4 t5 t6 t7
  have hmem : ∀ j (hj : j < pr.size) (hj' : j < ix.size), (⟨pr[j], ix[j], false⟩ : Entry P) ∈ zip2 pr ix :=
    fun j hj hj' => (mem_zip2 pr ix hs _).mpr ⟨j, hj, rfl⟩
  have hoff : ∀ (m : Nat) (b : Bool), (m, b) ∈ offers.map (fun n => (n, false)) → m ∈ offers := by
    intro m b hm
    obtain ⟨a, ha, hab⟩ := List.mem_map.mp hm
    cases hab; exact ha
  have hex : ∀ o : Nat, (∃ e ∈ zip2 pr ix, e.idx = (o : Int)) ↔ ∃ j, ∃ hj : j < ix.size, ix[j] = (o : Int) := by
    intro o
    constructor
    · rintro ⟨e, he, heo⟩
      obtain ⟨j, hj, rfl⟩ := (mem_zip2 pr ix hs e).mp he
      exact ⟨j, by omega, heo⟩
    · rintro ⟨j, hj, hjo⟩
      exact ⟨_, hmem j (by omega) hj, hjo⟩
  refine ⟨pr, ix, hrun, s1, s2, hz', t2, ?_, ?_, t5, ?_, ?_⟩
  · intro j hj hj' h0
    obtain ⟨a, b, c⟩ := t3 _ (hmem j hj hj') h0
    exact ⟨hoff _ _ a, b, c⟩
  · intro j hj hj' h0
    exact t4 _ (hmem j hj hj') h0
  · rcases t6 with h | h
    · left; intro j hj; exact h _ (hmem j (by omega) hj)
    · right; intro o ho hfin
      exact (hex o).mp (h (o, false) (List.mem_map.mpr ⟨o, ho, rfl⟩) hfin)
  · intro j hj hj' h0 o ho hfin habs
    exact t7 _ (hmem j hj hj') h0 (o, false) (List.mem_map.mpr ⟨o, ho, rfl⟩) hfin
      (fun hh => habs ((hex o).mp hh))

/-- **End to end, `checked_flagged_heap_push`** (the kernel NN-descent fills its heaps with): any
sequence of `(candidate, new?)` offers, repetitions allowed, fed through the translated three-array
kernel from `make_heap`'s arrays stays in bounds, and the three arrays, read as a row, are the model's
row — so every clause of `topk_checked` holds of them, the flag of a held candidate being one it was
offered with. -/
theorem kernel_flagged_topk (top : P) (htop : ∀ x : P, x ≤ top) (k : Nat) (hk : 0 < k) (d : Nat → P)
    (offers : List (Nat × Bool)) (fuel : Nat) (hf : k + 1 ≤ fuel) :
    ∃ pr ix fl, kernelRunFlagged fuel d offers (Array.replicate k top) (Array.replicate k (-1))
        (Array.replicate k 0) = some (pr, ix, fl) ∧
      pr.size = k ∧ ix.size = k ∧ fl.size = k ∧
      zip3 pr ix fl = run true top k d offers ∧
      (let h := zip3 pr ix fl
       IsHeap h ∧
       (∀ e ∈ h, 0 ≤ e.idx → (e.idx.toNat, e.flag) ∈ offers ∧ e.prio = d e.idx.toNat ∧ e.prio < top) ∧
       (∀ e ∈ h, e.idx < 0 → e.idx = -1 ∧ e.prio = top) ∧
       ((h.toList.filter (fun e => 0 ≤ e.idx)).map (·.idx)).Nodup ∧
       ((∀ e ∈ h, 0 ≤ e.idx) ∨ (∀ o ∈ offers, d o.1 < top → ∃ e ∈ h, e.idx = (o.1 : Int))) ∧
       (∀ a ∈ h, 0 ≤ a.idx → ∀ o ∈ offers, d o.1 < top → (¬ ∃ e ∈ h, e.idx = (o.1 : Int)) →
          a.prio ≤ d o.1)) := by
  obtain ⟨pr, ix, fl, hrun, s1, s2, s3, hz⟩ := kernelRunFlagged_refines fuel d offers (Array.replicate k top)
    (Array.replicate k (-1)) (Array.replicate k 0) (by simp) (by simp) (by simpa using hk) (by simpa using hf)
  simp only [Array.size_replicate] at s1 s2 s3
  rw [zip3_replicate] at hz
  have hz' : zip3 pr ix fl = run true top k d offers := hz
  obtain ⟨_, t⟩ := topk_checked top htop k d offers
  exact ⟨pr, ix, fl, hrun, s1, s2, s3, hz', by rw [hz']; exact t⟩

/-- **End to end, `simple_heap_push`** (the search's result heap), under its caller's obligation that
no candidate is offered twice. -/
theorem kernel_simple_topk (top : P) (htop : ∀ x : P, x ≤ top) (k : Nat) (hk : 0 < k) (d : Nat → P)
    (offers : List Nat) (hdistinct : offers.Nodup) (fuel : Nat) (hf : k + 1 ≤ fuel) :
    ∃ pr ix, kernelRunSimple fuel d offers (Array.replicate k top) (Array.replicate k (-1)) = some (pr, ix) ∧
      pr.size = k ∧ ix.size = k ∧
      zip2 pr ix = run false top k d (offers.map (fun n => (n, false))) ∧
      (let h := zip2 pr ix
       IsHeap h ∧
       (∀ e ∈ h, 0 ≤ e.idx → e.idx.toNat ∈ offers ∧ e.prio = d e.idx.toNat ∧ e.prio < top) ∧
       (∀ e ∈ h, e.idx < 0 → e.idx = -1 ∧ e.prio = top) ∧
       ((h.toList.filter (fun e => 0 ≤ e.idx)).map (·.idx)).Nodup ∧
       ((∀ e ∈ h, 0 ≤ e.idx) ∨ (∀ o ∈ offers, d o < top → ∃ e ∈ h, e.idx = (o : Int))) ∧
       (∀ a ∈ h, 0 ≤ a.idx → ∀ o ∈ offers, d o < top → (¬ ∃ e ∈ h, e.idx = (o : Int)) →
          a.prio ≤ d o)) := by
  obtain ⟨pr, ix, hrun, s1, s2, hz⟩ := kernelRunSimple_refines fuel d offers (Array.replicate k top)
    (Array.replicate k (-1)) (by simp) (by simpa using hk) (by simpa using hf)
  simp only [Array.size_replicate] at s1 s2
  rw [zip2_replicate] at hz
  have hz' : zip2 pr ix = run false top k d (offers.map (fun n => (n, false))) := hz
  have hd : ((offers.map (fun n => (n, false))).map (·.1)).Nodup := by
    simpa [List.map_map, Function.comp_def] using hdistinct
  obtain ⟨_, t2, t3, t4, t5, t6, t7⟩ := topk_simple top htop k d (offers.map (fun n => (n, false))) hd
  refine ⟨pr, ix, hrun, s1, s2, hz', ?_⟩
  simp only [hz']
  refine ⟨t2, ?_, t4, t5, ?_, ?_⟩
  · intro e he h0
    obtain ⟨a, b, c⟩ := t3 e he h0
    obtain ⟨m, hm, hmb⟩ := List.mem_map.mp a
    have hm' : m = e.idx.toNat := congrArg Prod.fst hmb
    exact ⟨hm' ▸ hm, b, c⟩
  · rcases t6 with h | h
    · exact Or.inl h
    · exact Or.inr (fun o ho hfin => h (o, false) (List.mem_map.mpr ⟨o, ho, rfl⟩) hfin)
  · intro a ha h0 o ho hfin habs
    exact t7 a ha h0 (o, false) (List.mem_map.mpr ⟨o, ho, rfl⟩) hfin habs

/-- **Final sort with the generated `siftdown`.**  `deheap_sort`'s per-row loop (swap slots `0` and
`j`, then `siftdown(dist[i, :j], ind[i, :j], 0)`, for `j = k-1 … 1`), written out with the *translated*
`siftdown` running on the prefix views (`kernelDeheapSort`; the outer loop itself is a `prange` over
2-D arrays, outside the translated subset, and stays tied to the code by the bit-exact comparison):
on a max-heap row it never leaves the arrays, and returns the same (candidate, distance) pairs in
ascending distance order. -/
theorem kernel_deheap_sort_spec (pr : Array P) (ix : Array Int) (hs : pr.size = ix.size)
    (hh : IsHeap (zip2 pr ix)) (fuel : Nat) (hf : pr.size + 1 ≤ fuel) :
    ∃ pr' ix', kernelDeheapSort fuel pr ix = some (pr', ix') ∧ pr'.size = pr.size ∧ ix'.size = ix.size ∧
      zip2 pr' ix' = deheapSort (zip2 pr ix) ∧
      (zip2 pr' ix').Perm (zip2 pr ix) ∧
      (∀ i j (hi : i < pr'.size) (hj : j < pr'.size), i ≤ j → pr'[i] ≤ pr'[j]) := by
  obtain ⟨pr', ix', h1, s1, s2, hz⟩ := kernelDeheapSort_refines fuel pr ix hs hf
  obtain ⟨hp, hsort⟩ := deheapSort_spec (zip2 pr ix) hh
  refine ⟨pr', ix', h1, s1, s2, hz, by rw [hz]; exact hp, ?_⟩
  intro i j hi hj hij
  have hsz : (zip2 pr' ix').size = pr'.size := by simp; omega
  have := hsort i j (by rw [← hz]; omega) (by rw [← hz]; omega) hij
  simp only [← hz] at this
  simpa using this

/-- **`utils.deheap_sort` itself (translated: 2-D arrays, `A[i, :j]` views handed to the translated
`siftdown`) is the model's `deheapSort` on every row.**  For rectangular `n × k` arrays (any `n`, `k`,
including `0`) and `fuel ≥ n + k + 1` the translated kernel never leaves an array, returns its two arrays
(twice, as the Python does), keeps the shape, and row `r` of the result is `deheapSort` of row `r`. -/
theorem kernel_deheap_sort_refines {Q : Type} [LE Q] [LT Q] [DecidableLE Q] [DecidableLT Q]
    (I : Array (Array Int)) (D : Array (Array Q)) (k : Nat) (fuel : Nat)
    (hs : D.size = I.size) (hDk : ∀ r (h : r < D.size), D[r].size = k) (hIk : ∀ r (h : r < I.size), I[r].size = k)
    (hf : I.size + k + 1 ≤ fuel) :
    ∃ I' D', GenK.deheap_sort fuel I D = some (I', D', I', D') ∧ D'.size = D.size ∧ I'.size = I.size ∧
      ∀ r (h : r < D.size) (h' : r < I.size) (g : r < D'.size) (g' : r < I'.size),
        D'[r].size = k ∧ I'[r].size = k ∧ zip2 D'[r] I'[r] = deheapSort (zip2 D[r] I[r]) :=
  deheap_sort_refines I D k fuel hs hDk hIk hf

/-- **Final sort, on the generated `deheap_sort`**: if every row is a max-heap (which the push
theorems guarantee), every row of the result holds the same (candidate, distance) pairs in ascending
distance order. -/
theorem kernel_deheap_sort_sorts (I : Array (Array Int)) (D : Array (Array P)) (k : Nat) (fuel : Nat)
    (hs : D.size = I.size) (hDk : ∀ r (h : r < D.size), D[r].size = k) (hIk : ∀ r (h : r < I.size), I[r].size = k)
    (hheap : ∀ r (h : r < D.size) (h' : r < I.size), IsHeap (zip2 D[r] I[r]))
    (hf : I.size + k + 1 ≤ fuel) :
    ∃ I' D', GenK.deheap_sort fuel I D = some (I', D', I', D') ∧ D'.size = D.size ∧ I'.size = I.size ∧
      ∀ r (h : r < D.size) (h' : r < I.size) (g : r < D'.size) (g' : r < I'.size),
        (zip2 D'[r] I'[r]).Perm (zip2 D[r] I[r]) ∧
        ∀ a b (ha : a < D'[r].size) (hb : b < D'[r].size), a ≤ b → D'[r][a] ≤ D'[r][b] := by
  obtain ⟨I', D', h1, h2, h3, h4⟩ := deheap_sort_refines I D k fuel hs hDk hIk hf
  refine ⟨I', D', h1, h2, h3, ?_⟩
  intro r h h' g g'
  obtain ⟨q1, q2, q3⟩ := h4 r h h' g g'
  obtain ⟨hp, hsort⟩ := deheapSort_spec (zip2 D[r] I[r]) (hheap r h h')
  refine ⟨by rw [q3]; exact hp, ?_⟩
  intro a b ha hb hab
  have := hsort a b (by rw [← q3]; simp; omega) (by rw [← q3]; simp; omega) hab
  simp only [← q3] at this
  simpa using this

/-- Non-vacuity, generated kernels executed by the Lean kernel (`Nat` priorities): an accepted push
that sifts two levels down, a rejected far push, a duplicate rejected by the scan (and accepted by
`simple_heap_push`, which has none), the flag byte travelling with its entry, one `siftdown`, and the
out-of-bounds read on an empty row. -/
example : GenK.simple_heap_push 8 #[9, 7, 8, 3, 6, 2, 1] #[0, 1, 2, 3, 4, 5, 6] (4 : Nat) 10
    = some (#[8, 7, 4, 3, 6, 2, 1], #[2, 1, 10, 3, 4, 5, 6], 1) := by decide +kernel
example : GenK.simple_heap_push 8 #[9, 7, 8, 3, 6, 2, 1] #[0, 1, 2, 3, 4, 5, 6] (9 : Nat) 10
    = some (#[9, 7, 8, 3, 6, 2, 1], #[0, 1, 2, 3, 4, 5, 6], 0) := by decide +kernel
example : GenK.checked_heap_push 4 #[9, 7, 8] #[0, 1, 2] (4 : Nat) 2 = some (#[9, 7, 8], #[0, 1, 2], 0)
    ∧ GenK.simple_heap_push 4 #[9, 7, 8] #[0, 1, 2] (4 : Nat) 2 = some (#[8, 7, 4], #[2, 1, 2], 1) := by
  decide +kernel
example : GenK.checked_flagged_heap_push 4 #[9, 7, 8] #[0, 1, 2] #[0, 0, 1] (4 : Nat) 5 1
    = some (#[8, 7, 4], #[2, 1, 5], #[1, 0, 1], 1) := by decide +kernel
example : GenK.siftdown 6 #[1, 7, 8, 3, 6] #[0, 1, 2, 3, 4] (0 : Int)
    = some (#[8, 7, 1, 3, 6], #[2, 1, 0, 3, 4]) := by decide +kernel
example : GenK.simple_heap_push 100 (#[] : Array Nat) #[] 4 2 = none := by decide +kernel
/-- the end-to-end run on the generated kernel: same offers as the model example above, `k = 3` -/
example : (kernelRun 4 (fun n => [5, 1, 5, 9, 2, 7, 100].getD n 100) [0, 1, 2, 0, 3, 4, 5, 6]
    (Array.replicate 3 (100 : Nat)) (Array.replicate 3 (-1))) = some (#[5, 2, 1], #[0, 4, 1]) := by
  decide +kernel

example : (kernelRunFlagged 4 (fun n => [5, 1, 5, 9, 2, 7, 100].getD n 100)
    [(0, true), (1, false), (2, true), (0, false), (3, true), (4, false), (5, true), (6, false)]
    (Array.replicate 3 (100 : Nat)) (Array.replicate 3 (-1)) (Array.replicate 3 0))
    = some (#[5, 2, 1], #[0, 4, 1], #[1, 0, 0]) := by decide +kernel

example : kernelDeheapSort 6 #[9, 7, 8, 3, 6] #[0, 1, 2, 3, 4]
    = some (#[3, 6, 7, 8, 9], #[3, 4, 1, 2, 0]) := by decide +kernel

example : GenK.deheap_sort 6 #[#[0, 1, 2], #[5, 6, 7]] #[#[9, 7, 8], #[4, 4, (1 : Nat)]]
    = some (#[#[1, 2, 0], #[7, 6, 5]], #[#[7, 8, 9], #[1, 4, 4]], #[#[1, 2, 0], #[7, 6, 5]], #[#[7, 8, 9], #[1, 4, 4]]) := by
  decide +kernel

end Pynn.C11
