import PynnVerif.Proofs.Metrics
import PynnVerif.Proofs.MetricsBridge
import PynnVerif.Proofs.SparseMetrics
import PynnVerif.Gen.Tables
import PynnVerif.Proofs.GenMetrics

/-!
# C09 — surrogates preserve order and corrections invert

Property theorems only (model of the kernels: `Model/Metrics.lean`; helpers: `Proofs/Metrics.lean`).
Everything is over `ℝ`: the theorems are about the kernels' *arithmetic on exact numbers*; float
rounding is outside them (the harness compares the real float32 kernels / ufuncs with float64
references under a tolerance and sweeps the correction ufuncs over float32 bit patterns).

Vocabulary.  Each surrogate is `d = −log₂ s` (`surrogateOf s`) of a *similarity* `s` and is used on
the live range `s > 0`:

| metric        | `s`                                   | documented metric as a function of `s` |
|---------------|---------------------------------------|----------------------------------------|
| cosine        | `⟨x,y⟩/√(‖x‖²‖y‖²)` (`cosSim`)         | `1 − s`                                |
| dot           | `⟨x,y⟩` (unit-norm input)              | `1 − s`                                |
| true_angular  | `cosSim` (clamped `min(·,1)`)          | `1 − arccos s / π` (similarity-like)   |
| hellinger     | `Σ√(xᵢyᵢ)/√(Σx Σy)` (`hellSim`)        | `√(max(1 − s, 0))`                     |
| jaccard       | `|x∧y| / |x∨y|`                        | `1 − s`                                |
| euclidean, l2 | —                                     | `√(squared_euclidean)`                 |

For `s ≤ 0` (and for exactly one zero vector) the cosine / dot / hellinger surrogates return
`FLOAT32_MAX`; §3 states exactly what the corrections make of it.

What is NOT proved here (listed, no theorem):
* the *final expressions* of the sparse surrogate kernels (`sparse_alternative_cosine`,
  `sparse_alternative_dot`, `sparse_alternative_hellinger`, `sparse_alternative_jaccard`,
  `sparse_squared_euclidean`) are not modelled: they are the same real functions of their
  accumulators as the dense twins (`norm(data1)·norm(data2)` instead of `√(norm_x·norm_y)`, the
  merges instead of the coordinate loop).  That the accumulators agree with the dense ones is
  property C08's business and is imported here as `sparse_accumulators_are_dense` (§6).  What *differs* on the sparse
  side are the two correction ufuncs (`sparse_correct_alternative_cosine` / `_hellinger`: a dead
  band `|d| ≤ 10⁻⁷ → 0`), and these ARE modelled and proved (§4).  `sparse_alternative_jaccard`
  returns `FLOAT32_MAX` for disjoint supports — and so does the dense `alternative_jaccard` since
  repository commit d428a58 (`elif num_equal == 0.0: return FLOAT32_MAX`; before, it evaluated
  `−log₂ 0 = +∞`, which no heap push accepts): modelled, and proved in
  `alternative_jaccard_disjoint_finite` (§5) and `saturation_cosine` (§3);
* order preservation *across* the saturation boundary needs `s > 2^(−FLOAT32_MAX)` for the live
  candidate (`surrogate_lt_f32max_iff`); for float32 data this always holds (`s ≥ 2⁻¹⁴⁹·2⁻¹²⁸`),
  which is not a statement about `ℝ` and is left to the harness;
* float32 rounding of `pow`, `log2`, `arccos` (harness sweep), `fastmath`.
-/
namespace Pynn.C09
open Pynn.Metrics

/-! ## 1. scalar level: correction ∘ surrogate = metric, surrogate strictly decreasing in `s` -/

/-- cosine, dot: `1 − 2^(−(−log₂ s)) = 1 − s` for every similarity `s > 0`. -/
theorem correct_cosine_of_surrogate (s : ℝ) (hs : 0 < s) :
    correctAlternativeCosine (surrogateOf s) = 1 - s := by
  rw [correctAlternativeCosine_real, two_rpow_neg_surrogateOf hs]

/-- jaccard: the same identity for `correct_alternative_jaccard`. -/
theorem correct_jaccard_of_surrogate (s : ℝ) (hs : 0 < s) :
    correctAlternativeJaccard (surrogateOf s) = 1 - s := by
  rw [correctAlternativeJaccard_real, two_rpow_neg_surrogateOf hs]

/-- hellinger: `√(max(1 − 2^(−(−log₂ s)), 0)) = √(max(1 − s, 0))`, which is `√(1 − s)` on `s ≤ 1`
(and `0`, the clamp, if rounding pushed `s` above 1). -/
theorem correct_hellinger_of_surrogate (s : ℝ) (hs : 0 < s) :
    correctAlternativeHellinger (surrogateOf s) = Real.sqrt (max (1 - s) 0) ∧
    (s ≤ 1 → correctAlternativeHellinger (surrogateOf s) = Real.sqrt (1 - s)) ∧
    (1 ≤ s → correctAlternativeHellinger (surrogateOf s) = 0) := by
  have h : correctAlternativeHellinger (surrogateOf s) = Real.sqrt (max (1 - s) 0) := by
    rw [correctAlternativeHellinger_real, two_rpow_neg_surrogateOf hs]
  refine ⟨h, fun h1 => ?_, fun h1 => ?_⟩
  · rw [h, max_eq_left (by linarith)]
  · rw [h, max_eq_right (by linarith), Real.sqrt_zero]

/-- true_angular: `1 − arccos(min(2^(−(−log₂ s)), 1))/π = 1 − arccos(min(s,1))/π`, which is
`1 − arccos s/π` on `s ≤ 1`. -/
theorem true_angular_of_surrogate (s : ℝ) (hs : 0 < s) :
    trueAngularFromAltCosine (surrogateOf s) = 1 - Real.arccos (min s 1) / Real.pi ∧
    (s ≤ 1 → trueAngularFromAltCosine (surrogateOf s) = 1 - Real.arccos s / Real.pi) := by
  have h : trueAngularFromAltCosine (surrogateOf s) = 1 - Real.arccos (min s 1) / Real.pi := by
    rw [trueAngularFromAltCosine_real, two_rpow_neg_surrogateOf hs]
  exact ⟨h, fun h1 => by rw [h, min_eq_left h1]⟩

/-- `s ↦ −log₂ s` is strictly decreasing on the live range `s > 0` (strictly increasing in every
distance that is a decreasing function of `s`). -/
theorem surrogate_strictAnti : StrictAntiOn surrogateOf (Set.Ioi 0) :=
  fun _ hs _ ht hst => (surrogateOf_lt_iff ht hs).2 hst

/-- cosine / dot / jaccard (`metric = 1 − s`): the surrogate orders two candidates exactly as the
metric does. -/
theorem surrogate_order_one_minus (s t : ℝ) (hs : 0 < s) (ht : 0 < t) :
    (surrogateOf s ≤ surrogateOf t ↔ 1 - s ≤ 1 - t) ∧
    (surrogateOf s < surrogateOf t ↔ 1 - s < 1 - t) := by
  rw [surrogateOf_le_iff hs ht, surrogateOf_lt_iff hs ht]
  constructor <;> constructor <;> intro h <;> linarith

/-- hellinger (`metric = √(1 − s)`, `s ∈ (0,1]`). -/
theorem surrogate_order_hellinger (s t : ℝ) (hs : 0 < s) (ht : 0 < t) (hs1 : s ≤ 1) (ht1 : t ≤ 1) :
    (surrogateOf s ≤ surrogateOf t ↔ Real.sqrt (1 - s) ≤ Real.sqrt (1 - t)) ∧
    (surrogateOf s < surrogateOf t ↔ Real.sqrt (1 - s) < Real.sqrt (1 - t)) := by
  rw [surrogateOf_le_iff hs ht, surrogateOf_lt_iff hs ht,
    Real.sqrt_le_sqrt_iff (by linarith), Real.sqrt_lt_sqrt_iff (by linarith)]
  constructor <;> constructor <;> intro h <;> linarith

/-- true_angular (`metric = 1 − arccos s/π`, similarity-like, `s ∈ (0,1]`): a *smaller* surrogate
is a *larger* `true_angular` value. -/
theorem surrogate_order_true_angular (s t : ℝ) (hs : 0 < s) (ht : 0 < t) (hs1 : s ≤ 1) (ht1 : t ≤ 1) :
    (surrogateOf s ≤ surrogateOf t ↔
      1 - Real.arccos s / Real.pi ≥ 1 - Real.arccos t / Real.pi) ∧
    (surrogateOf s < surrogateOf t ↔
      1 - Real.arccos s / Real.pi > 1 - Real.arccos t / Real.pi) := by
  have hsI : s ∈ Set.Icc (-1 : ℝ) 1 := ⟨by linarith, hs1⟩
  have htI : t ∈ Set.Icc (-1 : ℝ) 1 := ⟨by linarith, ht1⟩
  have hle : Real.arccos s ≤ Real.arccos t ↔ t ≤ s := Real.strictAntiOn_arccos.le_iff_ge hsI htI
  have hlt : Real.arccos s < Real.arccos t ↔ t < s := Real.strictAntiOn_arccos.lt_iff_gt hsI htI
  rw [surrogateOf_le_iff hs ht, surrogateOf_lt_iff hs ht, ← hle, ← hlt, ge_iff_le, gt_iff_lt,
    sub_le_sub_iff_left, sub_lt_sub_iff_left, div_le_div_iff_of_pos_right Real.pi_pos,
    div_lt_div_iff_of_pos_right Real.pi_pos]
  exact ⟨Iff.rfl, Iff.rfl⟩

/-! ## 2. euclidean / l2: `squared_euclidean` with `np.sqrt` -/

/-- `np.sqrt(squared_euclidean(x, y)) = euclidean(x, y)`, and the argument of the square root is
non-negative. -/
theorem sqrt_squared_euclidean (x y : List ℝ) :
    Real.sqrt (squaredEuclidean x y) = euclidean x y ∧ 0 ≤ squaredEuclidean x y :=
  ⟨(euclidean_real x y).symm, squaredEuclidean_nonneg x y⟩

/-- the squared distance orders candidates exactly as the distance does. -/
theorem squared_euclidean_order (x y z : List ℝ) :
    (squaredEuclidean x y ≤ squaredEuclidean x z ↔ euclidean x y ≤ euclidean x z) ∧
    (squaredEuclidean x y < squaredEuclidean x z ↔ euclidean x y < euclidean x z) := by
  rw [euclidean_real, euclidean_real, Real.sqrt_le_sqrt_iff (squaredEuclidean_nonneg x z),
    Real.sqrt_lt_sqrt_iff (squaredEuclidean_nonneg x y)]
  exact ⟨Iff.rfl, Iff.rfl⟩

/-! ## 3. saturation: `FLOAT32_MAX` through the corrections -/

/-- cosine / dot / jaccard (dense `alternative_jaccard` — its `num_equal == 0.0` branch — and
sparse `sparse_alternative_jaccard` alike): the corrected saturation value is `1 − 2^(−FLOAT32_MAX)`, not
the far end `1`: it is below `1` by `2^(−FLOAT32_MAX)`, a positive real smaller than `2⁻¹⁰⁷⁵` — half
the smallest positive double (and far below half the smallest positive float32, `2⁻¹⁵⁰`), so
`pow(2.0, -FLOAT32_MAX)` evaluates to `0.0` and the *computed* value is exactly `1.0`. -/
theorem saturation_cosine :
    correctAlternativeCosine (Arith.f32max : ℝ) = 1 - (2 : ℝ) ^ (-(f32maxNat : ℝ)) ∧
    correctAlternativeJaccard (Arith.f32max : ℝ) = 1 - (2 : ℝ) ^ (-(f32maxNat : ℝ)) ∧
    (0 : ℝ) < (2 : ℝ) ^ (-(f32maxNat : ℝ)) ∧ (2 : ℝ) ^ (-(f32maxNat : ℝ)) < (2 : ℝ) ^ (-(1075 : ℝ)) :=
  ⟨by rw [correctAlternativeCosine_real]; rfl, by rw [correctAlternativeJaccard_real]; rfl,
   two_rpow_neg_f32max_pos, two_rpow_neg_f32max_lt⟩

/-- hellinger: the corrected saturation value is `√(1 − ε)` with `ε = 2^(−FLOAT32_MAX)`: strictly
below the far end `1`, at least `1 − ε`. -/
theorem saturation_hellinger :
    correctAlternativeHellinger (Arith.f32max : ℝ) = Real.sqrt (1 - (2 : ℝ) ^ (-(f32maxNat : ℝ))) ∧
    correctAlternativeHellinger (Arith.f32max : ℝ) < 1 ∧
    1 - (2 : ℝ) ^ (-(f32maxNat : ℝ)) ≤ correctAlternativeHellinger (Arith.f32max : ℝ) := by
  have hpos := two_rpow_neg_f32max_pos
  have hlt : (2 : ℝ) ^ (-(f32maxNat : ℝ)) < 1 :=
    lt_trans two_rpow_neg_f32max_lt (Real.rpow_lt_one_of_one_lt_of_neg (by norm_num) (by norm_num))
  have h : correctAlternativeHellinger (Arith.f32max : ℝ) =
      Real.sqrt (1 - (2 : ℝ) ^ (-(f32maxNat : ℝ))) := by
    rw [correctAlternativeHellinger_real, f32max_real, max_eq_left (by linarith)]
  refine ⟨h, ?_, ?_⟩
  · rw [h, Real.sqrt_lt' one_pos]; linarith
  · rw [h]
    apply Real.le_sqrt_of_sq_le
    nlinarith

/-- true_angular: similarity `≤ 0` is reported through the surrogate path as
`1 − arccos(ε)/π = 1/2 + arcsin(ε)/π` with `ε = 2^(−FLOAT32_MAX)`: within `ε/2` above `1/2`, the
value of a right angle (the clamped far end of the surrogate path: every angle `≥ 90°` reads `1/2`;
the named kernel `true_angular` itself returns the sentinel `FLOAT32_MAX` there — recorded finding). -/
theorem saturation_true_angular :
    trueAngularFromAltCosine (Arith.f32max : ℝ) =
      1 - Real.arccos ((2 : ℝ) ^ (-(f32maxNat : ℝ))) / Real.pi ∧
    1 / 2 < trueAngularFromAltCosine (Arith.f32max : ℝ) ∧
    trueAngularFromAltCosine (Arith.f32max : ℝ) ≤ 1 / 2 + (2 : ℝ) ^ (-(f32maxNat : ℝ)) / 2 := by
  have hpos := two_rpow_neg_f32max_pos
  have hlt : (2 : ℝ) ^ (-(f32maxNat : ℝ)) < 1 :=
    lt_trans two_rpow_neg_f32max_lt (Real.rpow_lt_one_of_one_lt_of_neg (by norm_num) (by norm_num))
  set ε := (2 : ℝ) ^ (-(f32maxNat : ℝ)) with hε
  have h : trueAngularFromAltCosine (Arith.f32max : ℝ) = 1 - Real.arccos ε / Real.pi := by
    rw [trueAngularFromAltCosine_real, f32max_real, min_eq_left hlt.le]
  have hpi := Real.pi_pos
  have hasin_pos : 0 < Real.arcsin ε := Real.arcsin_pos.2 hpos
  have hasin_le : Real.arcsin ε ≤ Real.pi / 2 := Real.arcsin_le_pi_div_two ε
  have hj := Real.mul_le_sin hasin_pos.le hasin_le
  rw [Real.sin_arcsin (by linarith) hlt.le] at hj
  have hval : 1 - Real.arccos ε / Real.pi = 1 / 2 + Real.arcsin ε / Real.pi := by
    rw [Real.arccos_eq_pi_div_two_sub_arcsin]; field_simp; ring
  refine ⟨h, ?_, ?_⟩
  · rw [h, hval]; have := div_pos hasin_pos hpi; linarith
  · rw [h, hval]
    have : Real.arcsin ε / Real.pi ≤ ε / 2 := by
      rw [div_le_iff₀ hpi]
      have : 2 / Real.pi * Real.arcsin ε * Real.pi = 2 * Real.arcsin ε := by field_simp
      nlinarith
    linarith

/-- A live candidate sorts strictly before every saturated one iff its similarity exceeds
`2^(−FLOAT32_MAX)`. -/
theorem surrogate_lt_f32max_iff (s : ℝ) (hs : 0 < s) :
    surrogateOf s < (f32maxNat : ℝ) ↔ (2 : ℝ) ^ (-(f32maxNat : ℝ)) < s := by
  have h2 : surrogateOf ((2 : ℝ) ^ (-(f32maxNat : ℝ))) = (f32maxNat : ℝ) := by
    unfold surrogateOf; rw [Real.logb_rpow (by norm_num) (by norm_num), neg_neg]
  rw [← h2, surrogateOf_lt_iff hs two_rpow_neg_f32max_pos, h2]

/-! ## 4. the corrections of `sparse.py`: a dead band around `d = 0` -/

/-- `sparse_correct_alternative_cosine` is `correct_alternative_cosine` for `d > 10⁻⁷`; it returns
`0` on `d ≤ 10⁻⁷` (the `isclose` dead band and every negative `d`), where the dense correction is
`1 − 2^(−d) ∈ [0, 10⁻⁷]` for `d ≥ 0`: the two differ by at most `10⁻⁷`, and only inside the band. -/
theorem sparse_correct_cosine (d : ℝ) :
    (1 / 10000000 < d → sparseCorrectAlternativeCosine d = correctAlternativeCosine d) ∧
    (d ≤ 1 / 10000000 → sparseCorrectAlternativeCosine d = 0) ∧
    (0 ≤ d → d ≤ 1 / 10000000 →
      0 ≤ correctAlternativeCosine d ∧ correctAlternativeCosine d ≤ 1 / 10000000) := by
  rw [sparseCorrectAlternativeCosine_real, correctAlternativeCosine_real]
  refine ⟨fun h => ?_, fun h => ?_, fun h0 h => ?_⟩
  · rw [if_neg]
    rintro (h1 | h1)
    · have := le_abs_self d; linarith
    · linarith
  · rw [if_pos]
    by_cases hd : d < 0
    · exact Or.inr hd
    · exact Or.inl (by rw [abs_of_nonneg (not_lt.1 hd)]; exact h)
  · exact ⟨sub_nonneg.2 (one_sub_two_rpow_neg_bounds h0).1, by
      have := (one_sub_two_rpow_neg_bounds h0).2; linarith⟩

/-- `sparse_correct_alternative_hellinger` is `correct_alternative_hellinger` for `d > 10⁻⁷` and `0`
on `d ≤ 10⁻⁷`, where the dense correction is `√(1 − 2^(−d)) ≤ √(10⁻⁷)` (`≈ 3.2·10⁻⁴`) for `d ≥ 0`. -/
theorem sparse_correct_hellinger (d : ℝ) :
    (1 / 10000000 < d → sparseCorrectAlternativeHellinger d = correctAlternativeHellinger d) ∧
    (d ≤ 1 / 10000000 → sparseCorrectAlternativeHellinger d = 0) ∧
    (0 ≤ d → d ≤ 1 / 10000000 →
      correctAlternativeHellinger d ≤ Real.sqrt (1 / 10000000)) := by
  rw [sparseCorrectAlternativeHellinger_real, correctAlternativeHellinger_real]
  refine ⟨fun h => ?_, fun h => ?_, fun h0 h => ?_⟩
  · rw [if_neg, max_eq_left (sub_nonneg.2 (one_sub_two_rpow_neg_bounds (by linarith)).1)]
    rintro (h1 | h1)
    · have := le_abs_self d; linarith
    · linarith
  · rw [if_pos]
    by_cases hd : d < 0
    · exact Or.inr hd
    · exact Or.inl (by rw [abs_of_nonneg (not_lt.1 hd)]; exact h)
  · apply Real.sqrt_le_sqrt
    rw [max_le_iff]
    exact ⟨by have := (one_sub_two_rpow_neg_bounds h0).2; linarith, by norm_num⟩

/-- The dead band contains no surrogate value a float32 kernel can produce other than `0`: the
surrogates are `log₂ r` of a float32 ratio `r`, and already the smallest float32 above `1`,
`r = 1 + 2⁻²³`, has `log₂ r > 10⁻⁷` (`≈ 1.72·10⁻⁷`); `r ≤ 1` gives `d ≤ 0`, which both families of
corrections map to `0` (the dense ones through `max(·, 0)` for hellinger; for cosine the dense
correction of a negative `d` is negative — rounding noise below zero that the sparse one clips). -/
theorem dead_band_below_first_float32 (r : ℝ) (hr : 1 + (2 : ℝ) ^ (-(23 : ℤ)) ≤ r) :
    1 / 10000000 < Real.logb 2 r := by
  have h1 : (1 : ℝ) / 10000000 < Real.logb 2 (1 + (2 : ℝ) ^ (-(23 : ℤ))) := by
    have hx : (0 : ℝ) < 1 + (2 : ℝ) ^ (-(23 : ℤ)) := by positivity
    have hlog := Real.one_sub_inv_le_log_of_pos hx
    have hl2 : Real.log 2 ≤ 1 := by
      have := Real.log_le_sub_one_of_pos (show (0 : ℝ) < 2 by norm_num); linarith
    have hl2p : (0 : ℝ) < Real.log 2 := Real.log_pos (by norm_num)
    unfold Real.logb
    rw [lt_div_iff₀ hl2p]
    have hv : (1 : ℝ) / 10000000 < 1 - (1 + (2 : ℝ) ^ (-(23 : ℤ)))⁻¹ := by
      norm_num
    nlinarith
  exact lt_of_lt_of_le h1
    ((Real.logb_le_logb (by norm_num) (by positivity) (lt_of_lt_of_le (by positivity) hr)).2 hr)

/-! ## 5. vector level: the modelled kernels -/

/-- **cosine.**  On the live range `⟨x,y⟩ > 0` the modelled `alternative_cosine` is `−log₂` of the
cosine similarity, the modelled `cosine` is `1 −` it, so the published correction reproduces the
documented metric *exactly*, and the value is below the clamp `1`. -/
theorem cosine_surrogate_live (x y : List ℝ) (h : 0 < dotProd x y) :
    alternativeCosine x y = surrogateOf (cosSim x y) ∧ cosine x y = 1 - cosSim x y ∧
    0 < cosSim x y ∧
    correctAlternativeCosine (alternativeCosine x y) = cosine x y ∧ cosine x y < 1 := by
  have hs := cosSim_pos h
  have hc := cosine_live (normSq_pos_left h).ne' (normSq_pos_right h).ne'
  refine ⟨alternativeCosine_live h, hc, hs, ?_, by rw [hc]; linarith⟩
  rw [alternativeCosine_live h, correct_cosine_of_surrogate _ hs, hc]

/-- **cosine, every branch.**  Two zero vectors: surrogate `0`, corrected `0 = cosine`.  Otherwise,
outside the live range (exactly one zero vector, or `⟨x,y⟩ ≤ 0`) the surrogate is `FLOAT32_MAX`, the
documented metric is `≥ 1` (clamped: `1`) and the corrected value is `1 − 2^(−FLOAT32_MAX)`
(see `saturation_cosine`).  Hence for ALL `x y`:
`0 ≤ min(cosine x y, 1) − correction(surrogate x y) ≤ 2^(−FLOAT32_MAX)`. -/
theorem cosine_surrogate_all (x y : List ℝ) :
    (normSq x = 0 ∧ normSq y = 0 →
      alternativeCosine x y = 0 ∧ correctAlternativeCosine (alternativeCosine x y) = cosine x y) ∧
    (¬ 0 < dotProd x y → ¬ (normSq x = 0 ∧ normSq y = 0) →
      alternativeCosine x y = (f32maxNat : ℝ) ∧ 1 ≤ cosine x y ∧
      correctAlternativeCosine (alternativeCosine x y) = 1 - (2 : ℝ) ^ (-(f32maxNat : ℝ))) ∧
    (0 ≤ min (cosine x y) 1 - correctAlternativeCosine (alternativeCosine x y) ∧
      min (cosine x y) 1 - correctAlternativeCosine (alternativeCosine x y)
        ≤ (2 : ℝ) ^ (-(f32maxNat : ℝ))) := by
  have hz : normSq x = 0 ∧ normSq y = 0 →
      alternativeCosine x y = 0 ∧ correctAlternativeCosine (alternativeCosine x y) = cosine x y := by
    intro h0
    have ha : alternativeCosine x y = 0 := by rw [alternativeCosine_real, if_pos h0]
    refine ⟨ha, ?_⟩
    rw [ha, correctAlternativeCosine_real, cosine_real, if_pos h0]; simp
  have hsat : ¬ 0 < dotProd x y → ¬ (normSq x = 0 ∧ normSq y = 0) →
      alternativeCosine x y = (f32maxNat : ℝ) ∧ 1 ≤ cosine x y ∧
      correctAlternativeCosine (alternativeCosine x y) = 1 - (2 : ℝ) ^ (-(f32maxNat : ℝ)) := by
    intro h h0
    have ha := alternativeCosine_saturated h h0
    exact ⟨ha, cosine_ge_one_of_saturated h h0, by rw [ha, correctAlternativeCosine_real]⟩
  refine ⟨hz, hsat, ?_⟩
  have hpos := two_rpow_neg_f32max_pos
  by_cases h0 : normSq x = 0 ∧ normSq y = 0
  · have hc : cosine x y = 0 := by rw [cosine_real, if_pos h0]
    rw [(hz h0).2, hc, min_eq_left (by norm_num)]
    exact ⟨by linarith, by linarith⟩
  · by_cases h : 0 < dotProd x y
    · obtain ⟨-, -, -, hcorr, hlt⟩ := cosine_surrogate_live x y h
      rw [hcorr, min_eq_left hlt.le]
      exact ⟨by linarith, by linarith⟩
    · obtain ⟨-, hge, hcorr⟩ := hsat h h0
      rw [hcorr, min_eq_right hge]
      exact ⟨by linarith, by linarith⟩

/-- **cosine, order.**  Two candidates `y z` in the live range of a query `x` are ordered by the
surrogate exactly as by the documented metric. -/
theorem cosine_surrogate_order (x y z : List ℝ) (hy : 0 < dotProd x y) (hz : 0 < dotProd x z) :
    (alternativeCosine x y ≤ alternativeCosine x z ↔ cosine x y ≤ cosine x z) ∧
    (alternativeCosine x y < alternativeCosine x z ↔ cosine x y < cosine x z) := by
  obtain ⟨hay, hcy, hsy, -, -⟩ := cosine_surrogate_live x y hy
  obtain ⟨haz, hcz, hsz, -, -⟩ := cosine_surrogate_live x z hz
  rw [hay, haz, hcy, hcz]
  exact surrogate_order_one_minus _ _ hsy hsz

/-- **true_angular** (same surrogate, correction `true_angular_from_alt_cosine`).  On the live range
the correction reproduces the modelled `true_angular` kernel exactly (both clamp with `min(·, 1)`),
the kernel is `1 − arccos(cosSim)/π` (Cauchy–Schwarz: the clamp is inactive over `ℝ`), and a smaller
surrogate means a *larger* `true_angular` value. -/
theorem true_angular_surrogate_live (x y : List ℝ) (hl : x.length = y.length) (h : 0 < dotProd x y) :
    trueAngularFromAltCosine (alternativeCosine x y) = trueAngular x y ∧
    trueAngular x y = 1 - Real.arccos (cosSim x y) / Real.pi := by
  have hs := cosSim_pos h
  have h1 := cosSim_le_one hl h
  rw [alternativeCosine_live h, (true_angular_of_surrogate _ hs).1, trueAngular_live h,
    min_eq_left h1]
  exact ⟨rfl, rfl⟩

theorem true_angular_surrogate_order (x y z : List ℝ) (hly : x.length = y.length)
    (hlz : x.length = z.length) (hy : 0 < dotProd x y) (hz : 0 < dotProd x z) :
    (alternativeCosine x y ≤ alternativeCosine x z ↔ trueAngular x y ≥ trueAngular x z) ∧
    (alternativeCosine x y < alternativeCosine x z ↔ trueAngular x y > trueAngular x z) := by
  rw [(true_angular_surrogate_live x y hly hy).2, (true_angular_surrogate_live x z hlz hz).2,
    alternativeCosine_live hy, alternativeCosine_live hz]
  exact surrogate_order_true_angular _ _ (cosSim_pos hy) (cosSim_pos hz)
    (cosSim_le_one hly hy) (cosSim_le_one hlz hz)

/-- true_angular, saturation of the surrogate path: for `⟨x,y⟩ ≤ 0` (not both vectors zero) the
surrogate is `FLOAT32_MAX`, whose correction is the value of `saturation_true_angular` (`≈ 1/2`),
while the named kernel returns `FLOAT32_MAX` itself — the two paths DISAGREE there (recorded finding,
excluded from the theorems above by the hypothesis `0 < ⟨x,y⟩`). -/
theorem true_angular_sentinel (x y : List ℝ) (h : ¬ 0 < dotProd x y)
    (h0 : ¬ (normSq x = 0 ∧ normSq y = 0)) :
    trueAngular x y = (f32maxNat : ℝ) ∧ alternativeCosine x y = (f32maxNat : ℝ) := by
  refine ⟨?_, alternativeCosine_saturated h h0⟩
  rw [trueAngular_real, if_neg h0]
  split_ifs <;> first | rfl | exact absurd (not_lt.1 h) ‹_›

/-- **dot** (`alternative_dot`, `correct_alternative_cosine`).  On the live range `⟨x,y⟩ > 0` the
surrogate is `−log₂⟨x,y⟩`, the kernel is `1 − ⟨x,y⟩`, the correction is exact, and the order is
preserved; for `⟨x,y⟩ ≤ 0` the kernel returns its clamp `1` and the surrogate `FLOAT32_MAX`
(corrected: `saturation_cosine`).  (The unit-norm assumption of `dot` is what makes `⟨x,y⟩ ≤ 1`
and `dot = cosine`; the identities here do not need it.) -/
theorem dot_surrogate (x y z : List ℝ) :
    (0 < dotProd x y →
      alternativeDot x y = surrogateOf (dotProd x y) ∧ dot x y = 1 - dotProd x y ∧
      correctAlternativeCosine (alternativeDot x y) = dot x y) ∧
    (0 < dotProd x y → 0 < dotProd x z →
      (alternativeDot x y ≤ alternativeDot x z ↔ dot x y ≤ dot x z) ∧
      (alternativeDot x y < alternativeDot x z ↔ dot x y < dot x z)) ∧
    (¬ 0 < dotProd x y → alternativeDot x y = (f32maxNat : ℝ) ∧ dot x y = 1) := by
  have live : ∀ w : List ℝ, 0 < dotProd x w →
      alternativeDot x w = surrogateOf (dotProd x w) ∧ dot x w = 1 - dotProd x w := by
    intro w h
    rw [alternativeDot_real, dot_real, if_neg (not_le.2 h), if_neg (not_le.2 h)]
    exact ⟨rfl, rfl⟩
  refine ⟨fun h => ?_, fun hy hz => ?_, fun h => ?_⟩
  · obtain ⟨ha, hd⟩ := live y h
    exact ⟨ha, hd, by rw [ha, correct_cosine_of_surrogate _ h, hd]⟩
  · rw [(live y hy).1, (live y hy).2, (live z hz).1, (live z hz).2]
    exact surrogate_order_one_minus _ _ hy hz
  · rw [alternativeDot_real, dot_real, if_pos (not_lt.1 h), if_pos (not_lt.1 h)]
    exact ⟨rfl, rfl⟩

/-- **hellinger.**  For non-negative vectors with `Σ√(xᵢyᵢ) > 0` (then both masses are positive) the
surrogate is `−log₂` of the Bhattacharyya coefficient `hellSim`, the kernel is
`√(max(1 − hellSim, 0))`, and the published correction (which has the same clamp) reproduces the
kernel exactly. -/
theorem hellinger_surrogate_live (x y : List ℝ) (hx : ∀ a ∈ x, 0 ≤ a) (hy : ∀ a ∈ y, 0 ≤ a)
    (h : 0 < hellingerSum x y) :
    alternativeHellinger x y = surrogateOf (hellSim x y) ∧
    hellinger x y = Real.sqrt (max (1 - hellSim x y) 0) ∧ 0 < hellSim x y ∧
    correctAlternativeHellinger (alternativeHellinger x y) = hellinger x y := by
  have hx' := l1_pos_left hx h; have hy' := l1_pos_right hy h
  have hs := hellSim_pos hx' hy' h
  have ha := alternativeHellinger_live hx' hy' h
  have hh := hellinger_live hx'.ne' hy'.ne'
  exact ⟨ha, hh, hs, by rw [ha, (correct_hellinger_of_surrogate _ hs).1, hh]⟩

/-- hellinger, order: for non-negative vectors of equal length two live candidates are ordered by
the surrogate exactly as by the kernel (Cauchy–Schwarz keeps the Bhattacharyya coefficient `≤ 1`, so
the clamp merges nothing over `ℝ`). -/
theorem hellinger_surrogate_order (x y z : List ℝ) (hly : x.length = y.length)
    (hlz : x.length = z.length) (hx : ∀ a ∈ x, 0 ≤ a) (hy : ∀ a ∈ y, 0 ≤ a)
    (hz : ∀ a ∈ z, 0 ≤ a) (hxy : 0 < hellingerSum x y) (hxz : 0 < hellingerSum x z) :
    (alternativeHellinger x y ≤ alternativeHellinger x z ↔ hellinger x y ≤ hellinger x z) ∧
    (alternativeHellinger x y < alternativeHellinger x z ↔ hellinger x y < hellinger x z) := by
  obtain ⟨hay, hhy, hsy, -⟩ := hellinger_surrogate_live x y hx hy hxy
  obtain ⟨haz, hhz, hsz, -⟩ := hellinger_surrogate_live x z hx hz hxz
  have h1 := hellSim_le_one hly hx hy (l1_pos_left hx hxy) (l1_pos_right hy hxy)
  have h2 := hellSim_le_one hlz hx hz (l1_pos_left hx hxz) (l1_pos_right hz hxz)
  rw [hay, haz, hhy, hhz, max_eq_left (by linarith), max_eq_left (by linarith)]
  exact surrogate_order_hellinger _ _ hsy hsz h1 h2

/-- hellinger, the other branches: two zero-mass vectors give surrogate `0`, corrected `0`, the
kernel's value; exactly one zero-mass vector gives `FLOAT32_MAX` where the kernel returns `1`
(corrected: `saturation_hellinger`). -/
theorem hellinger_surrogate_zero (x y : List ℝ) :
    (l1 x = 0 ∧ l1 y = 0 →
      alternativeHellinger x y = 0 ∧ correctAlternativeHellinger (alternativeHellinger x y) = hellinger x y) ∧
    (¬ (l1 x = 0 ∧ l1 y = 0) → (l1 x = 0 ∨ l1 y = 0) →
      alternativeHellinger x y = (f32maxNat : ℝ) ∧ hellinger x y = 1) := by
  refine ⟨fun h0 => ?_, fun h0 h1 => ?_⟩
  · have ha : alternativeHellinger x y = 0 := by rw [alternativeHellinger_real, if_pos h0]
    refine ⟨ha, ?_⟩
    rw [ha, correctAlternativeHellinger_real, hellinger_real, if_pos h0]; simp
  · rw [alternativeHellinger_real, hellinger_real, if_neg h0, if_neg h0, if_pos h1, if_pos h1]
    exact ⟨rfl, rfl⟩

/-- **jaccard**, over the two counts (`num_non_zero = |x∨y|`, `num_equal = |x∧y|`, any dimension):
with a non-empty intersection the surrogate is `−log₂(|x∧y|/|x∨y|)`, the kernel `1 −` that ratio,
the correction exact and the order preserved; two empty supports give `0` on both sides.  (Disjoint
non-empty supports, `e = 0 < n`: `alternative_jaccard_disjoint_finite` below.) -/
theorem jaccard_surrogate (n e n' e' : ℕ) (he : 0 < e) (hen : e ≤ n) (he' : 0 < e') (hen' : e' ≤ n') :
    alternativeJaccardOfCounts (n : ℝ) (e : ℝ) = surrogateOf ((e : ℝ) / n) ∧
    jaccardOfCounts (n : ℝ) (e : ℝ) = 1 - (e : ℝ) / n ∧
    correctAlternativeJaccard (alternativeJaccardOfCounts (n : ℝ) (e : ℝ)) = jaccardOfCounts (n : ℝ) (e : ℝ) ∧
    (alternativeJaccardOfCounts (n : ℝ) (e : ℝ) ≤ alternativeJaccardOfCounts (n' : ℝ) (e' : ℝ) ↔
      jaccardOfCounts (n : ℝ) (e : ℝ) ≤ jaccardOfCounts (n' : ℝ) (e' : ℝ)) ∧
    correctAlternativeJaccard (alternativeJaccardOfCounts (0 : ℝ) (0 : ℝ)) = jaccardOfCounts (0 : ℝ) (0 : ℝ) := by
  have live : ∀ n e : ℕ, 0 < e → e ≤ n →
      alternativeJaccardOfCounts (n : ℝ) (e : ℝ) = surrogateOf ((e : ℝ) / n) ∧
      jaccardOfCounts (n : ℝ) (e : ℝ) = 1 - (e : ℝ) / n ∧ (0 : ℝ) < (e : ℝ) / n := by
    intro n e he hen
    have hn : (0 : ℝ) < (n : ℝ) := by exact_mod_cast lt_of_lt_of_le he hen
    have he0 : (0 : ℝ) < (e : ℝ) := by exact_mod_cast he
    rw [alternativeJaccardOfCounts_real, jaccardOfCounts_real, if_neg hn.ne', if_neg he0.ne',
      if_neg hn.ne']
    refine ⟨rfl, ?_, div_pos he0 hn⟩
    field_simp
  obtain ⟨ha, hj, hs⟩ := live n e he hen
  obtain ⟨ha', hj', hs'⟩ := live n' e' he' hen'
  refine ⟨ha, hj, ?_, ?_, ?_⟩
  · rw [ha, correct_jaccard_of_surrogate _ hs, hj]
  · rw [ha, ha', hj, hj']
    exact (surrogate_order_one_minus _ _ hs hs').1
  · rw [alternativeJaccardOfCounts_real, jaccardOfCounts_real, if_pos rfl, if_pos rfl,
      correctAlternativeJaccard_real]
    simp

/-- **jaccard, disjoint non-empty supports** (`num_equal = 0 < num_non_zero`; the branch
`elif num_equal == 0.0: return FLOAT32_MAX` of the dense kernel, repository commit d428a58, which
its sparse twin always had).  The surrogate is the FINITE value `FLOAT32_MAX` — so a heap whose free
slots hold `+inf` accepts the candidate (`p < inf`), which `−log₂ 0 = +inf` never was: `connect_graph`
can join components of jaccard data with disjoint supports —; the named kernel gives `1`; the
correction gives `1 − 2^(−FLOAT32_MAX)`, i.e. it is off the documented value `1` by
`2^(−FLOAT32_MAX) < 2⁻¹⁰⁷⁵` only (computed: exactly `1.0`); and a live candidate (`0 < e' ≤ n'`)
sorts strictly before the saturated one iff its Jaccard index exceeds `2^(−FLOAT32_MAX)`. -/
theorem alternative_jaccard_disjoint_finite (n : ℕ) (hn : 0 < n) :
    alternativeJaccardOfCounts (n : ℝ) (0 : ℝ) = (Arith.f32max : ℝ) ∧
    jaccardOfCounts (n : ℝ) (0 : ℝ) = 1 ∧
    correctAlternativeJaccard (alternativeJaccardOfCounts (n : ℝ) (0 : ℝ))
      = 1 - (2 : ℝ) ^ (-(f32maxNat : ℝ)) ∧
    0 < jaccardOfCounts (n : ℝ) (0 : ℝ) - correctAlternativeJaccard (alternativeJaccardOfCounts (n : ℝ) (0 : ℝ)) ∧
    jaccardOfCounts (n : ℝ) (0 : ℝ) - correctAlternativeJaccard (alternativeJaccardOfCounts (n : ℝ) (0 : ℝ))
      < (2 : ℝ) ^ (-(1075 : ℝ)) ∧
    (∀ n' e' : ℕ, 0 < e' → e' ≤ n' →
      (alternativeJaccardOfCounts (n' : ℝ) (e' : ℝ) < alternativeJaccardOfCounts (n : ℝ) (0 : ℝ) ↔
        (2 : ℝ) ^ (-(f32maxNat : ℝ)) < (e' : ℝ) / n')) := by
  have hn' : (0 : ℝ) < (n : ℝ) := by exact_mod_cast hn
  have ha : alternativeJaccardOfCounts (n : ℝ) (0 : ℝ) = (f32maxNat : ℝ) := by
    rw [alternativeJaccardOfCounts_real, if_neg hn'.ne', if_pos rfl]
  have hj : jaccardOfCounts (n : ℝ) (0 : ℝ) = 1 := by
    rw [jaccardOfCounts_real, if_neg hn'.ne', sub_zero, div_self hn'.ne']
  have hc : correctAlternativeJaccard (alternativeJaccardOfCounts (n : ℝ) (0 : ℝ))
      = 1 - (2 : ℝ) ^ (-(f32maxNat : ℝ)) := by
    rw [ha]; exact saturation_cosine.2.1
  refine ⟨ha, hj, hc, ?_, ?_, ?_⟩
  · rw [hj, hc]; have := two_rpow_neg_f32max_pos; linarith
  · rw [hj, hc]; have := two_rpow_neg_f32max_lt; linarith
  · intro n' e' he' hen'
    have hn0 : (0 : ℝ) < (n' : ℝ) := by exact_mod_cast lt_of_lt_of_le he' hen'
    have he0 : (0 : ℝ) < (e' : ℝ) := by exact_mod_cast he'
    rw [ha, alternativeJaccardOfCounts_real, if_neg hn0.ne', if_neg he0.ne']
    exact surrogate_lt_f32max_iff _ (div_pos he0 hn0)

/-! ## 6. sparse data: the accumulators of the sparse surrogates are the dense ones (C08) -/

/-- The sparse surrogates of `pynndescent/sparse.py` are the same real functions as the dense ones
(`log₂(norm/result)`, `−log₂ result`, `Σ diff²`) of the accumulators `Σ sparse_mul`, `norm(data)²`,
`Σ data`, `Σ √sparse_mul`, `Σ sparse_diff²`; on CSR encodings of vectors of equal length these
accumulators ARE the accumulators `dotProd`, `normSq`, `l1`, `hellingerSum`, `squaredEuclidean` of the
dense kernels the theorems of §5 are about (C08's merge theorems, instantiated at `ℝ` and transported
along `Proofs/MetricsBridge.lean`). -/
theorem sparse_accumulators_are_dense (x y : List ℝ) (h : x.length = y.length) :
    Sparse.mulSum (Sparse.enc x) (Sparse.enc y) = dotProd x y ∧
    Sparse.normSq (Sparse.enc x) = normSq x ∧ Sparse.normSq (Sparse.enc y) = normSq y ∧
    Sparse.dataSum (Sparse.enc x) = l1 x ∧ Sparse.dataSum (Sparse.enc y) = l1 y ∧
    Sparse.hellingerSum Real.sqrt (Sparse.enc x) (Sparse.enc y) = hellingerSum x y ∧
    Sparse.sqEuclidean (Sparse.enc x) (Sparse.enc y) = squaredEuclidean x y :=
  ⟨(Sparse.mulSum_enc x y h).trans (dotProd_eq_dense x y).symm,
   (Sparse.normSq_enc x).trans (normSq_eq_dense x).symm,
   (Sparse.normSq_enc y).trans (normSq_eq_dense y).symm,
   (Sparse.dataSum_enc x).trans (l1_eq_dense x).symm,
   (Sparse.dataSum_enc y).trans (l1_eq_dense y).symm,
   (Sparse.hellingerSum_enc Real.sqrt Real.sqrt_zero x y h).trans (hellingerSum_eq_dense x y).symm,
   (Sparse.sqEuclidean_enc x y h).trans (squaredEuclidean_eq_dense x y).symm⟩

/-! ## 7. the registry obligation over the regenerated tables -/

/-- The (documented metric kernel, surrogate kernel, correction) triples — keyed by `__name__` — for
which the theorems above are proved.  The sparse rows stand for: *same real function of the same
accumulators as the dense surrogate* (C08) composed with the correction proved in §1/§4. -/
def registry : List (String × String × String) := [
  ("cosine", "alternative_cosine", "correct_alternative_cosine"),          -- cosine_surrogate_*
  ("dot", "alternative_dot", "correct_alternative_cosine"),                -- dot_surrogate
  ("euclidean", "squared_euclidean", "sqrt"),                              -- sqrt_squared_euclidean, _order
  ("hellinger", "alternative_hellinger", "correct_alternative_hellinger"), -- hellinger_surrogate_*
  ("jaccard", "alternative_jaccard", "correct_alternative_jaccard"),       -- jaccard_surrogate
  ("true_angular", "alternative_cosine", "true_angular_from_alt_cosine"),  -- true_angular_surrogate_*
  ("cosine", "sparse_alternative_cosine", "sparse_correct_alternative_cosine"),          -- + sparse_correct_cosine
  ("dot", "sparse_alternative_dot", "sparse_correct_alternative_cosine"),
  ("euclidean", "sparse_squared_euclidean", "sqrt"),
  ("hellinger", "sparse_alternative_hellinger", "sparse_correct_alternative_hellinger"), -- + sparse_correct_hellinger
  ("jaccard", "sparse_alternative_jaccard", "correct_alternative_jaccard")]

/-- the (surrogate, correction) pairs of `registry` -/
def registryPairs : List (String × String) := registry.map (·.2)

/-- the public name `e.1` denotes (in `named_distances`) a kernel `k` such that
`(k, surrogate, correction)` is registered -/
def chkEntry (e : String × String × String) : Bool :=
  Gen.namedDistances.any (fun n => n.1 == e.1 && registry.contains (n.2, e.2.1, e.2.2))

set_option maxRecDepth 100000 in
/-- Every entry of `distances.fast_distance_alternatives` (regenerated from the repository on every
run) pairs a public name whose documented kernel is `k` with a surrogate and a correction for which
the theorems of this file are proved *for that `k`*: re-wiring a metric to another surrogate or
correction breaks this proof. -/
theorem dense_alternatives_registered :
    ∀ e ∈ Gen.fastAlternatives,
      ∃ k, (e.1, k) ∈ Gen.namedDistances ∧ (k, e.2.1, e.2.2) ∈ registry := by
  have h : Gen.fastAlternatives.all chkEntry = true := by decide +kernel
  intro e he
  have := List.all_eq_true.mp h e he
  obtain ⟨n, hn, hc⟩ := List.any_eq_true.mp this
  rw [Bool.and_eq_true, beq_iff_eq, List.contains_iff_mem] at hc
  exact ⟨n.2, by rw [← hc.1]; exact hn, hc.2⟩

set_option maxRecDepth 100000 in
/-- The same for `sparse.sparse_fast_distance_alternatives` (the documented metric of a public name
is the dense kernel of `named_distances`; sparse = dense is C08). -/
theorem sparse_alternatives_registered :
    ∀ e ∈ Gen.sparseFastAlternatives,
      ∃ k, (e.1, k) ∈ Gen.namedDistances ∧ (k, e.2.1, e.2.2) ∈ registry := by
  have h : Gen.sparseFastAlternatives.all chkEntry = true := by decide +kernel
  intro e he
  have := List.all_eq_true.mp h e he
  obtain ⟨n, hn, hc⟩ := List.any_eq_true.mp this
  rw [Bool.and_eq_true, beq_iff_eq, List.contains_iff_mem] at hc
  exact ⟨n.2, by rw [← hc.1]; exact hn, hc.2⟩

set_option maxRecDepth 100000 in
/-- The pair form: every (surrogate `__name__`, correction `__name__`) of both tables is registered. -/
theorem alternatives_pairs_registered :
    (∀ e ∈ Gen.fastAlternatives, (e.2.1, e.2.2) ∈ registryPairs) ∧
    (∀ e ∈ Gen.sparseFastAlternatives, (e.2.1, e.2.2) ∈ registryPairs) := by
  have h1 : Gen.fastAlternatives.all (fun e => registryPairs.contains (e.2.1, e.2.2)) = true := by
    decide +kernel
  have h2 : Gen.sparseFastAlternatives.all (fun e => registryPairs.contains (e.2.1, e.2.2)) = true := by
    decide +kernel
  exact ⟨fun e he => List.contains_iff_mem.mp (List.all_eq_true.mp h1 e he),
         fun e he => List.contains_iff_mem.mp (List.all_eq_true.mp h2 e he)⟩

/-! ## 7. the same, on the translated source text of `distances.py`

`Gen/MetricKernels.lean` is regenerated from the source of `distances.py` on every run
(`harness/translate_metrics.py`) and `Proofs/GenMetrics.lean` proves each translated kernel equal
to the model (`Props/C07.lean`, `kernel_*_refines`); composing with the theorems above: -/

/-- **cosine, on the translated kernels**: on the live range `⟨x,y⟩ > 0` the translated
`alternative_cosine` followed by the translated ufunc `correct_alternative_cosine` returns exactly
what the translated `cosine` returns (all three without out-of-bounds access), and that value is
below the clamp `1` (`cosine_surrogate_live`). -/
theorem kernel_cosine_correction (x y : Array ℝ) (h : x.size = y.size) (fuel : Nat)
    (hf : x.size + 1 ≤ fuel) (hl : 0 < dotProd x.toList y.toList) :
    ∃ d c, GenMetric.alternative_cosine fuel x y = some d ∧
      GenMetric.correct_alternative_cosine fuel d = some c ∧
      GenMetric.cosine fuel x y = some c ∧ c < 1 := by
  have hs := cosine_surrogate_live x.toList y.toList hl
  refine ⟨_, _, GenMetricProofs.alternative_cosine_refines x y h fuel hf,
    GenMetricProofs.correct_alternative_cosine_refines fuel _, ?_, ?_⟩
  · rw [GenMetricProofs.cosine_refines x y h fuel hf, hs.2.2.2.1]
  · rw [hs.2.2.2.1]; exact hs.2.2.2.2

/-- **euclidean, on the translated kernels**: `np.sqrt` of the translated `squared_euclidean` is the
translated `euclidean`, and the two order candidates alike (`sqrt_squared_euclidean`,
`squared_euclidean_order`). -/
theorem kernel_squared_euclidean_correction (x y z : Array ℝ) (hy : x.size = y.size)
    (hz : x.size = z.size) (fuel : Nat) (hf : x.size + 1 ≤ fuel) :
    ∃ sy sz ey ez, GenMetric.squared_euclidean fuel x y = some sy ∧
      GenMetric.squared_euclidean fuel x z = some sz ∧
      GenMetric.euclidean fuel x y = some ey ∧ GenMetric.euclidean fuel x z = some ez ∧
      Real.sqrt sy = ey ∧ 0 ≤ sy ∧ (sy ≤ sz ↔ ey ≤ ez) :=
  ⟨_, _, _, _, GenMetricProofs.squared_euclidean_refines x y hy fuel hf,
    GenMetricProofs.squared_euclidean_refines x z hz fuel hf,
    GenMetricProofs.euclidean_refines x y hy fuel hf, GenMetricProofs.euclidean_refines x z hz fuel hf,
    (sqrt_squared_euclidean _ _).1, (sqrt_squared_euclidean _ _).2,
    (squared_euclidean_order _ _ _).1⟩

/-! ## non-vacuity -/

/-- the tables are not empty and contain the seven surrogate metrics -/
example : Gen.fastAlternatives.length = 7 ∧ Gen.sparseFastAlternatives.length = 6 := by decide +kernel

/-- the check rejects a re-wired entry (hellinger corrected with the cosine correction) -/
example : chkEntry ("hellinger", "alternative_hellinger", "correct_alternative_cosine") = false := by
  decide +kernel

/-- …and an entry whose public name denotes another kernel than the one the pair is proved for -/
example : chkEntry ("manhattan", "squared_euclidean", "sqrt") = false := by decide +kernel

/-- the live range is inhabited: `x = (1,0)`, `y = (1,1)` have `⟨x,y⟩ = 1 > 0` -/
example : 0 < dotProd ([1, 0] : List ℝ) [1, 1] := by
  rw [dotProd, sumBy_real]; norm_num

/-- …and so is hellinger's: `x = (1,0)`, `y = (1,1)` are non-negative with `Σ√(xᵢyᵢ) = 1 > 0` -/
example : 0 < hellingerSum ([1, 0] : List ℝ) [1, 1] ∧ (∀ a ∈ ([1, 0] : List ℝ), 0 ≤ a) ∧
    (∀ a ∈ ([1, 1] : List ℝ), 0 ≤ a) := by
  refine ⟨?_, by simp, by simp⟩
  rw [hellingerSum, sumBy_real]
  simp [sqrt_real]

/-- the dead band is a band: `d = 5·10⁻⁸` is inside, `d = 1` outside -/
example : sparseCorrectAlternativeCosine (1 / 20000000 : ℝ) = 0 ∧
    sparseCorrectAlternativeCosine (1 : ℝ) = 1 / 2 := by
  constructor
  · exact (sparse_correct_cosine _).2.1 (by norm_num)
  · rw [(sparse_correct_cosine 1).1 (by norm_num), correctAlternativeCosine_real,
      Real.rpow_neg_one]; norm_num

end Pynn.C09
