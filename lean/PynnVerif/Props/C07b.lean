import PynnVerif.Proofs.Metrics2

/-!
# C07 (continued) — the remaining dense metrics, and guardedness under rounding

Property theorems only; imported by `Props/C07.lean` (which cannot be imported here).  Models:
`Model/Metrics2.lean` (generic over `Arith α` + `Trig α`, following each kernel's loops and
branches; executed over `Float` by the driver, `Driver/Metrics2.lean`, against the numba kernels:
`harness/c07_model2.py`); helpers: `Proofs/Metrics2.lean`.

**Part A**, over `ℝ`, the four clauses of `Props/C07.lean` (`…_spec`, `…_symm`, `…_self`,
`…_defined`) for: standardised_euclidean, weighted_minkowski, mahalanobis, haversine (with the clamp
`min(result, 1.0)`), jensen_shannon_divergence, symmetric_kl_divergence (with the `FLOAT32_EPS`
smoothing), wasserstein_1d, bit_hamming, bit_jaccard (with the `denom == 0` branch), spearmanr (the
ranks as the RESULT of `rankdata`, not its steps), tsss.

**Part B**, for every carrier satisfying `RArith` (sign / order facts shared by `ℝ` and IEEE
arithmetic on finite values, stable under `fastmath`; NOT `a ≤ b → a / b ≤ 1`, no exact
cancellation): the kernels that contain a partial operation behind a guard or clamp, rewritten over
`safeSqrt` / `safeDiv` / `safeLog` / `safeArccos` / `safeArcsin` (`…G`), never return `none` on
their domain.  Two grades:

* `RArith` alone — the CLAMPS and the direct guards: `hellinger_clamp_guarded`,
  `correct_alternative_hellinger_guarded`, `tsss_clamp_guarded`, `true_angular_clamp_guarded`,
  `haversine_guarded`,
  `canberra_guarded`, `bray_curtis_guarded`, `bit_jaccard_guarded`;
* `RArithNU` (= `RArith` + "a product / quotient of positive values is positive", i.e. no UNDERFLOW)
  — the kernels that test the factors (`norm_x == 0`, `l1_norm_x == 0`) and then divide by the
  square root of their product: `hellinger_guarded`, `cosine_guarded`, `true_angular_guarded`,
  `tsss_guarded`, `bit_jaccard_log_guarded`.  The extra assumption is necessary: the real float32
  `hellinger` raises `ZeroDivisionError` on `x = y = [1e-23]`.

`guarded_agree`: the `…G` kernels compute the values of the plain kernels.  `instance : RArithNU ℝ`
(`Proofs/Metrics2.lean`) shows the axioms are consistent; the `example`s at the end exhibit a
carrier satisfying every axiom on which the PRE-repair shapes (`hellinger` without `max`,
`haversine` without `min`) return `none`.

NOT REACHED: `correlation` is guarded only modulo Cauchy–Schwarz (`correlation_guarded_partial`);
`mahalanobis` has no guardedness statement (positive semi-definiteness does not survive rounding);
the steps of `rankdata` (argsort, `obs`, `cumsum`, `count`) are not modelled; `kantorovich`,
`sinkhorn`, `circular_kantorovich` are not modelled (C10 / recorded findings); overflow to `±inf`
is outside `RArith`.
-/
namespace Pynn.C07b
open Pynn.Metrics

/-! ## standardised_euclidean -/

/-- `D(x,y) = √(Σ (xᵢ − yᵢ)² / vᵢ)` (the docstring; `sigma` is the per-coordinate variance `v`). -/
theorem standardised_euclidean_spec (x y σ : List ℝ) :
    standardisedEuclidean x y σ =
      Real.sqrt ((((x.zip y).zip σ).map (fun p => (p.1.1 - p.1.2) ^ 2 / p.2)).sum) := by
  unfold standardisedEuclidean
  rw [sumBy3_real]
  arith_norm
  congr 3
  funext p
  ring

theorem standardised_euclidean_symm (x y σ : List ℝ) :
    standardisedEuclidean x y σ = standardisedEuclidean y x σ := by
  unfold standardisedEuclidean
  rw [sumBy3_swap _ (fun a b c => by arith_norm; ring) x y σ]

theorem standardised_euclidean_self (x σ : List ℝ) : standardisedEuclidean x x σ = 0 := by
  unfold standardisedEuclidean
  rw [sumBy3_self_zero _ (fun a c => by arith_norm; simp) x σ]
  exact Real.sqrt_zero

/-- with positive variances every divisor is non-zero and the argument of `np.sqrt` is `≥ 0`. -/
theorem standardised_euclidean_defined (x y σ : List ℝ) (hσ : ∀ s ∈ σ, 0 < s) :
    (∀ s ∈ σ, s ≠ 0) ∧
    0 ≤ (((x.zip y).zip σ).map (fun p => (p.1.1 - p.1.2) ^ 2 / p.2)).sum := by
  refine ⟨fun s hs => (hσ s hs).ne', List.sum_nonneg ?_⟩
  intro v hv
  obtain ⟨p, hp, rfl⟩ := List.mem_map.1 hv
  exact div_nonneg (sq_nonneg _) (hσ _ (List.of_mem_zip hp).2).le

/-! ## weighted_minkowski -/

/-- `D(x,y) = (Σ wᵢ |xᵢ − yᵢ|^p)^(1/p)` (the docstring), real powers. -/
theorem weighted_minkowski_spec (x y w : List ℝ) (p : ℝ) :
    weightedMinkowski x y w p =
      (((x.zip y).zip w).map (fun q => q.2 * |q.1.1 - q.1.2| ^ p)).sum ^ (1 / p) := by
  unfold weightedMinkowski
  rw [sumBy3_real]
  arith_norm

theorem weighted_minkowski_symm (x y w : List ℝ) (p : ℝ) :
    weightedMinkowski x y w p = weightedMinkowski y x w p := by
  unfold weightedMinkowski
  rw [sumBy3_swap _ (fun a b c => by arith_norm; rw [abs_sub_comm]) x y w]

theorem weighted_minkowski_self (x w : List ℝ) (p : ℝ) (hp : p ≠ 0) :
    weightedMinkowski x x w p = 0 := by
  unfold weightedMinkowski
  rw [sumBy3_self_zero _ (fun a c => by arith_norm; simp [Real.zero_rpow hp]) x w]
  arith_norm
  exact Real.zero_rpow (one_div_ne_zero hp)

/-- with `w ≥ 0` (and `p ≠ 0`; documented `p ≥ 1`) both powers have a non-negative base and
`1.0 / p` is defined. -/
theorem weighted_minkowski_defined (x y w : List ℝ) (p : ℝ) (hw : ∀ s ∈ w, 0 ≤ s) :
    (∀ q ∈ (x.zip y).zip w, 0 ≤ |q.1.1 - q.1.2|) ∧
    0 ≤ (((x.zip y).zip w).map (fun q => q.2 * |q.1.1 - q.1.2| ^ p)).sum := by
  refine ⟨fun q _ => abs_nonneg _, List.sum_nonneg ?_⟩
  intro v hv
  obtain ⟨q, hq, rfl⟩ := List.mem_map.1 hv
  exact mul_nonneg (hw _ (List.of_mem_zip hq).2) (Real.rpow_nonneg (abs_nonneg _) _)

/-! ## mahalanobis -/

/-- `√((x − y)ᵀ V (x − y))` (what `test_mahalanobis` pins: scipy's `mahalanobis` with `VI = vinv`). -/
theorem mahalanobis_spec (x y : List ℝ) (V : List (List ℝ)) :
    mahalanobis x y V = Real.sqrt (quadFormSpec V (List.zipWith (fun a b => a - b) x y)) := by
  unfold mahalanobis quadFormSpec
  rw [quadForm_real, vecDiff_real]
  rfl

/-- symmetric in `x`, `y` for EVERY matrix (no symmetry of `vinv` needed: the form is even,
`(−d)ᵀV(−d) = dᵀVd`). -/
theorem mahalanobis_symm (x y : List ℝ) (V : List (List ℝ)) :
    mahalanobis x y V = mahalanobis y x V := by
  unfold mahalanobis
  rw [vecDiff_swap x y, quadForm_neg]

theorem mahalanobis_self (x : List ℝ) (V : List (List ℝ)) : mahalanobis x x V = 0 := by
  unfold mahalanobis
  rw [quadForm_zero V _ (vecDiff_self x)]
  exact Real.sqrt_zero

/-- for a positive semi-definite `vinv` of the vectors' dimension the argument of `np.sqrt` is `≥ 0`
(exact arithmetic; for a nearly singular matrix rounding can make it negative — the `_partial` case
of DESIGN C07, left to the harness). -/
theorem mahalanobis_defined (x y : List ℝ) (V : List (List ℝ)) (hV : PosSemidef V)
    (hl : x.length = y.length) (hn : x.length = V.length) :
    0 ≤ quadForm V (vecDiff x y) := by
  have := hV (vecDiff x y) (by rw [vecDiff_real, List.length_zipWith]; omega)
  unfold quadFormSpec at this
  rw [quadForm_real]
  exact this


/-! ## haversine (with the clamp `min(result, 1.0)`) -/

/-- For points `x = (φ₁, λ₁)`, `y = (φ₂, λ₂)` (latitude, longitude, radians) the value is the angle
between the two unit vectors, `arccos(sin φ₁ sin φ₂ + cos φ₁ cos φ₂ cos(λ₁ − λ₂))` — the great-circle
distance on the unit sphere; over `ℝ` the clamp is inactive.  Holds for all real arguments.  Any
other shape is the `ValueError`. -/
theorem haversine_spec (x0 x1 y0 y1 : ℝ) :
    haversine [x0, x1] [y0, y1] =
      some (Real.arccos (Real.sin x0 * Real.sin y0 + Real.cos x0 * Real.cos y0 * Real.cos (x1 - y1))) ∧
    (∀ x y : List ℝ, x.length ≠ 2 → haversine x y = none) := by
  constructor
  · obtain ⟨h0, h1⟩ := haversineRadicand_range x0 x1 y0 y1
    show some (haversineCore x0 x1 y0 y1) = _
    rw [haversineCore_real, min_eq_left (Real.sqrt_le_one.2 h1)]
    rw [haversineRadicand_eq] at h0 h1 ⊢
    rw [two_arcsin_sqrt_eq_arccos (by linarith) (by linarith)]
  · intro x y h
    unfold haversine
    split
    · simp at h
    · rfl

theorem haversine_symm (x y : List ℝ) : haversine x y = haversine y x := by
  have hc : ∀ a0 a1 b0 b1 : ℝ, haversineCore a0 a1 b0 b1 = haversineCore b0 b1 a0 a1 := by
    intro a0 a1 b0 b1
    rw [haversineCore_real, haversineCore_real, haversineRadicand_eq, haversineRadicand_eq,
      ← neg_sub b1 a1, Real.cos_neg, mul_comm (Real.sin a0), mul_comm (Real.cos a0)]
  rcases x with _ | ⟨x0, _ | ⟨x1, _ | ⟨x2, xs⟩⟩⟩ <;> rcases y with _ | ⟨y0, _ | ⟨y1, _ | ⟨y2, ys⟩⟩⟩ <;>
    simp [haversine, hc]

/-- identical points are at distance `0`. -/
theorem haversine_self (x0 x1 : ℝ) : haversine [x0, x1] [x0, x1] = some 0 := by
  show some (haversineCore x0 x1 x0 x1) = _
  rw [haversineCore_real, haversineRadicand_real]
  simp

/-- the argument of `np.sqrt` is in `[0, 1]` for all real inputs (exact arithmetic), and **the
clamp**: whatever non-negative value `r` the radicand takes after rounding (`1 + 6e-17` at antipodal
points made the unclamped kernel return NaN), the argument of `np.arcsin` is in `[0, 1] ⊆ [-1, 1]`. -/
theorem haversine_defined (x0 x1 y0 y1 : ℝ) :
    (0 ≤ haversineRadicand x0 x1 y0 y1 ∧ haversineRadicand x0 x1 y0 y1 ≤ 1) ∧
    (∀ r : ℝ, 0 ≤ r → 0 ≤ min (Real.sqrt r) 1 ∧ min (Real.sqrt r) 1 ≤ 1 ∧ -1 ≤ min (Real.sqrt r) 1) := by
  refine ⟨haversineRadicand_range x0 x1 y0 y1, fun r _ => ?_⟩
  have h : 0 ≤ min (Real.sqrt r) 1 := le_min (Real.sqrt_nonneg r) (by norm_num)
  exact ⟨h, min_le_right _ _, by linarith⟩

/-! ## jensen_shannon_divergence, symmetric_kl_divergence (with the `FLOAT32_EPS` smoothing) -/

/-- `ε = FLOAT32_EPS = 2⁻²³`.  With `pᵢ = (xᵢ + ε)/Σⱼ(xⱼ + ε)`, `qᵢ = (yᵢ + ε)/Σⱼ(yⱼ + ε)` (equal
lengths) and `mᵢ = (pᵢ + qᵢ)/2`: `JS = Σᵢ ½ (pᵢ ln(pᵢ/mᵢ) + qᵢ ln(qᵢ/mᵢ))` — the Jensen–Shannon
divergence (natural logarithm, not its square root) of the smoothed, normalised vectors. -/
theorem jensen_shannon_spec (x y : List ℝ) (hl : x.length = y.length) :
    jensenShannon x y =
      (List.zipWith
        (fun p q => 1 / 2 * (p * Real.log (p / (1 / 2 * (p + q))) + q * Real.log (q / (1 / 2 * (p + q)))))
        (x.map (fun v => (v + 1 / 8388608) / (x.map (fun v => v + 1 / 8388608)).sum))
        (y.map (fun v => (v + 1 / 8388608) / (y.map (fun v => v + 1 / 8388608)).sum))).sum := by
  unfold jensenShannon
  rw [sumBy_real, smoothedPdf_real, smoothedPdf_real, smoothed_mass x, hl, smoothed_mass y]
  rfl

theorem jensen_shannon_symm (x y : List ℝ) (hl : x.length = y.length) :
    jensenShannon x y = jensenShannon y x := by
  unfold jensenShannon
  rw [sumBy_comm jsTerm jsTerm_comm, hl]

theorem jensen_shannon_self (x : List ℝ) : jensenShannon x x = 0 := by
  unfold jensenShannon
  rw [sumBy_self]
  exact sum1_eq_zero _ _ (fun a _ => jsTerm_self a)

/-- on non-negative vectors of positive length `dim = x.shape[0]` both normalisers are positive (the divisions
are defined), every `np.log` is taken of a positive number (`pᵢ, qᵢ, mᵢ > 0`), and the value is
`≥ 0` — so `0` for identical inputs is the closest possible value. -/
theorem jensen_shannon_defined (x y : List ℝ) (hn : 0 < x.length)
    (hx : ∀ a ∈ x, 0 ≤ a) (hy : ∀ a ∈ y, 0 ≤ a) :
    0 < l1 x + 1 / 8388608 * (x.length : ℝ) ∧ 0 < l1 y + 1 / 8388608 * (x.length : ℝ) ∧
    (∀ pq ∈ (smoothedPdf x x.length).zip (smoothedPdf y x.length),
      0 < 1 / 2 * (pq.1 + pq.2) ∧ 0 < pq.1 / (1 / 2 * (pq.1 + pq.2)) ∧
      0 < pq.2 / (1 / 2 * (pq.1 + pq.2))) ∧
    0 ≤ jensenShannon x y := by
  refine ⟨smoothed_mass_pos hx hn, smoothed_mass_pos hy hn, fun pq hpq => ?_, ?_⟩
  · have hp := smoothedPdf_pos hx hn pq.1 (List.of_mem_zip hpq).1
    have hq := smoothedPdf_pos hy hn pq.2 (List.of_mem_zip hpq).2
    have hm : 0 < 1 / 2 * (pq.1 + pq.2) := by linarith
    exact ⟨hm, div_pos hp hm, div_pos hq hm⟩
  · unfold jensenShannon
    rw [sumBy_real]
    apply List.sum_nonneg
    intro v hv
    obtain ⟨pq, hpq, rfl⟩ := List.mem_map.1
      (List.map_uncurry_zip_eq_zipWith (f := (jsTerm : ℝ → ℝ → ℝ)) ▸ hv)
    exact jsTerm_nonneg (smoothedPdf_pos hx hn pq.1 (List.of_mem_zip hpq).1)
      (smoothedPdf_pos hy hn pq.2 (List.of_mem_zip hpq).2)

/-- `Σᵢ pᵢ ln(pᵢ/qᵢ) + qᵢ ln(qᵢ/pᵢ) = KL(p‖q) + KL(q‖p)` of the smoothed, normalised vectors. -/
theorem symmetric_kl_spec (x y : List ℝ) (hl : x.length = y.length) :
    symmetricKL x y =
      (List.zipWith (fun p q => p * Real.log (p / q) + q * Real.log (q / p))
        (x.map (fun v => (v + 1 / 8388608) / (x.map (fun v => v + 1 / 8388608)).sum))
        (y.map (fun v => (v + 1 / 8388608) / (y.map (fun v => v + 1 / 8388608)).sum))).sum := by
  unfold symmetricKL
  rw [sumBy_real, smoothedPdf_real, smoothedPdf_real, smoothed_mass x, hl, smoothed_mass y]
  rfl

theorem symmetric_kl_symm (x y : List ℝ) (hl : x.length = y.length) :
    symmetricKL x y = symmetricKL y x := by
  unfold symmetricKL
  rw [sumBy_comm sklTerm sklTerm_comm, hl]

theorem symmetric_kl_self (x : List ℝ) : symmetricKL x x = 0 := by
  unfold symmetricKL
  rw [sumBy_self]
  exact sum1_eq_zero _ _ (fun a _ => sklTerm_self a)

/-- on non-negative vectors of positive length `dim = x.shape[0]`: positive normalisers, every quotient inside
`np.log` positive (the smoothing is what makes `qᵢ ≠ 0`), and the value is `≥ 0` — so `0` for
identical inputs is the closest possible value. -/
theorem symmetric_kl_defined (x y : List ℝ) (hn : 0 < x.length)
    (hx : ∀ a ∈ x, 0 ≤ a) (hy : ∀ a ∈ y, 0 ≤ a) :
    0 < l1 x + 1 / 8388608 * (x.length : ℝ) ∧ 0 < l1 y + 1 / 8388608 * (x.length : ℝ) ∧
    (∀ pq ∈ (smoothedPdf x x.length).zip (smoothedPdf y x.length),
      0 < pq.1 / pq.2 ∧ 0 < pq.2 / pq.1) ∧
    0 ≤ symmetricKL x y := by
  refine ⟨smoothed_mass_pos hx hn, smoothed_mass_pos hy hn, fun pq hpq => ?_, ?_⟩
  · have hp := smoothedPdf_pos hx hn pq.1 (List.of_mem_zip hpq).1
    have hq := smoothedPdf_pos hy hn pq.2 (List.of_mem_zip hpq).2
    exact ⟨div_pos hp hq, div_pos hq hp⟩
  · unfold symmetricKL
    rw [sumBy_real]
    apply List.sum_nonneg
    intro v hv
    obtain ⟨pq, hpq, rfl⟩ := List.mem_map.1
      (List.map_uncurry_zip_eq_zipWith (f := (sklTerm : ℝ → ℝ → ℝ)) ▸ hv)
    exact sklTerm_nonneg (smoothedPdf_pos hx hn pq.1 (List.of_mem_zip hpq).1)
      (smoothedPdf_pos hy hn pq.2 (List.of_mem_zip hpq).2)

/-! ## wasserstein_1d -/

/-- `(Σᵢ |Fᵢ − Gᵢ|^p)^(1/p)` where `F`, `G` are the cumulative distribution functions of the
normalised inputs, `Fᵢ = (Σ_{j ≤ i} xⱼ)/Σ x` (the in-place running-sum loop computes the prefix sums). -/
theorem wasserstein_1d_spec (x y : List ℝ) (p : ℝ) :
    wasserstein1d x y p = (List.zipWith (fun a b => |a - b| ^ p) (cdf x) (cdf y)).sum ^ (1 / p) ∧
    cdf x = (List.range x.length).map (fun i => (x.take (i + 1)).sum / x.sum) :=
  ⟨wasserstein1d_real x y p, rfl⟩

theorem wasserstein_1d_symm (x y : List ℝ) (p : ℝ) : wasserstein1d x y p = wasserstein1d y x p := by
  rw [wasserstein1d_real, wasserstein1d_real,
    List.zipWith_comm_of_comm (fun a b => by rw [abs_sub_comm])]

theorem wasserstein_1d_self (x : List ℝ) (p : ℝ) (hp : p ≠ 0) : wasserstein1d x x p = 0 := by
  rw [wasserstein1d_real, List.zipWith_self]
  have : ((cdf x).map fun a => |a - a| ^ p).sum = 0 := by
    apply List.sum_eq_zero
    intro v hv
    obtain ⟨a, _, rfl⟩ := List.mem_map.1 hv
    simp [Real.zero_rpow hp]
  rw [this, Real.zero_rpow (one_div_ne_zero hp)]

/-- for non-negative vectors with positive mass the two divisors `x_sum`, `y_sum` are non-zero, the
normalised running sums are CDF values in `[0, 1]`, and (as for `minkowski`) both powers have a
non-negative base. -/
theorem wasserstein_1d_defined (x y : List ℝ) (p : ℝ)
    (hx : ∀ a ∈ x, 0 ≤ a) (hy : ∀ a ∈ y, 0 ≤ a) (hsx : 0 < x.sum) (hsy : 0 < y.sum) :
    l1 x ≠ 0 ∧ l1 y ≠ 0 ∧ (∀ v ∈ cdf x, 0 ≤ v ∧ v ≤ 1) ∧ (∀ v ∈ cdf y, 0 ≤ v ∧ v ≤ 1) ∧
    0 ≤ (List.zipWith (fun a b => |a - b| ^ p) (cdf x) (cdf y)).sum := by
  have h1 : ∀ z : List ℝ, l1 z = z.sum := by
    intro z; unfold l1; rw [sum1_real]; simp
  refine ⟨by rw [h1]; exact hsx.ne', by rw [h1]; exact hsy.ne', cdf_range hx hsx, cdf_range hy hsy, ?_⟩
  apply List.sum_nonneg
  intro v hv
  obtain ⟨q, _, rfl⟩ := List.mem_map.1
    (List.map_uncurry_zip_eq_zipWith (f := fun a b : ℝ => |a - b| ^ p) ▸ hv)
  exact Real.rpow_nonneg (abs_nonneg _) _


/-! ## bit_hamming, bit_jaccard (a byte is a `Nat < 256`) -/

/-- the table: `popcnt[b] = bin(b).count('1')` for every byte, and it is the number of set bits
among the 8 low bits. -/
theorem popcnt_table :
    (∀ b < 256, popcnt b = (Nat.toDigits 2 b).count '1') ∧
    (∀ b : ℕ, popcnt b = (List.range 8).countP (fun k => b.testBit k)) :=
  ⟨by decide +kernel, popcnt_eq⟩

/-- `bit_hamming` is the NUMBER of bit positions at which the two byte strings differ (what
`test_bit_hamming` pins; not divided by the length). -/
theorem bit_hamming_spec (x y : List ℕ) :
    (bitHamming x y : ℝ) =
      ((List.zipWith (fun a b => (List.range 8).countP (fun k => a.testBit k != b.testBit k)) x y).sum : ℕ) := by
  unfold bitHamming
  rw [bitXorCount_eq]
  rfl

theorem bit_hamming_symm (x y : List ℕ) : (bitHamming x y : ℝ) = bitHamming y x := by
  unfold bitHamming; rw [bitXorCount_comm]

theorem bit_hamming_self (x : List ℕ) : (bitHamming x x : ℝ) = 0 := by
  unfold bitHamming; rw [bitXorCount_self]; arith_norm; simp

/-- with `|x∧y|` / `|x∨y|` the numbers of bit positions set in both / in at least one string:
`−ln(|x∧y| / |x∨y|)` (what `test_bit_jaccard` pins: `−ln` of the Jaccard similarity), and `0` when
both strings are empty (`denom == 0`, the branch the repository now has). -/
theorem bit_jaccard_spec (x y : List ℕ) :
    bitAndCount x y =
      (List.zipWith (fun a b => (List.range 8).countP (fun k => a.testBit k && b.testBit k)) x y).sum ∧
    bitOrCount x y =
      (List.zipWith (fun a b => (List.range 8).countP (fun k => a.testBit k || b.testBit k)) x y).sum ∧
    (bitJaccard x y : ℝ) =
      if bitOrCount x y = 0 then 0 else -Real.log ((bitAndCount x y : ℝ) / (bitOrCount x y : ℝ)) := by
  refine ⟨bitAndCount_eq x y, bitOrCount_eq x y, ?_⟩
  unfold bitJaccard
  rw [bitJaccardOfCounts_real]
  arith_norm
  simp only [Nat.cast_eq_zero]

theorem bit_jaccard_symm (x y : List ℕ) : (bitJaccard x y : ℝ) = bitJaccard y x := by
  unfold bitJaccard; rw [bitAndCount_comm, bitOrCount_comm]

/-- identical inputs give `0`: through the `denom == 0` branch for the empty string, through
`−ln 1` otherwise. -/
theorem bit_jaccard_self (x : List ℕ) : (bitJaccard x x : ℝ) = 0 := by
  unfold bitJaccard
  rw [bitAndCount_self, bitJaccardOfCounts_real]
  split_ifs with h
  · rfl
  · rw [div_self h, Real.log_one, neg_zero]

/-- the division happens only with `denom ≠ 0`; always `|x∧y| ≤ |x∨y|`; and when the strings share
a set bit the argument of `np.log` is in `(0, 1]`, so the value is `≥ 0`.  (Disjoint non-empty
strings evaluate `−log(0) = +inf`: the documented far end, not modelled over `ℝ`.) -/
theorem bit_jaccard_defined (x y : List ℕ) :
    (bitOrCount x y ≠ 0 → ((bitOrCount x y : ℕ) : ℝ) ≠ 0) ∧
    bitAndCount x y ≤ bitOrCount x y ∧
    (0 < bitAndCount x y →
      0 < (bitAndCount x y : ℝ) / (bitOrCount x y : ℝ) ∧
      (bitAndCount x y : ℝ) / (bitOrCount x y : ℝ) ≤ 1 ∧ 0 ≤ (bitJaccard x y : ℝ)) := by
  have hle := bitAndCount_le_bitOrCount x y
  refine ⟨fun h => by exact_mod_cast h, hle, fun ha => ?_⟩
  have ha' : (0 : ℝ) < (bitAndCount x y : ℝ) := by exact_mod_cast ha
  have ho' : (0 : ℝ) < (bitOrCount x y : ℝ) := by exact_mod_cast lt_of_lt_of_le ha hle
  have hle' : (bitAndCount x y : ℝ) ≤ (bitOrCount x y : ℝ) := by exact_mod_cast hle
  have h1 : (bitAndCount x y : ℝ) / (bitOrCount x y : ℝ) ≤ 1 := (div_le_one ho').2 hle'
  refine ⟨div_pos ha' ho', h1, ?_⟩
  unfold bitJaccard
  rw [bitJaccardOfCounts_real]
  arith_norm
  rw [if_neg ho'.ne']
  have := Real.log_nonpos (div_pos ha' ho').le h1
  linarith

/-! ## spearmanr -/

/-- `1 − ρ` in the form the code computes it: `correlation` of the average ranks, the rank of `v`
in `a` being `(#{u ∈ a : u ≤ v} + #{u ∈ a : u < v} + 1)/2` (ties share the mean of their
positions).  `rankAverage` models the RESULT of `rankdata`, not its steps. -/
theorem spearmanr_spec (x y : List ℝ) :
    spearmanr x y = correlation (rankAverage x) (rankAverage y) ∧
    ∀ a : List ℝ, rankAverage a = a.map (fun v => 1 / 2 *
      ((a.countP (fun u => decide (u ≤ v)) + a.countP (fun u => decide (u < v)) + 1 : ℕ) : ℝ)) :=
  ⟨rfl, rankAverage_real⟩

theorem spearmanr_symm (x y : List ℝ) (hl : x.length = y.length) : spearmanr x y = spearmanr y x := by
  unfold spearmanr
  exact correlation_comm _ _ (by rw [rankAverage_length, rankAverage_length, hl])

theorem spearmanr_self (x : List ℝ) : spearmanr x x = 0 := correlation_self' _

/-! ## tsss -/

/-- On non-zero vectors of equal length: `(‖x‖‖y‖ sin θ / 2) · ((ED + MD)² θ)` with
`θ = arccos(⟨x,y⟩/(‖x‖‖y‖)) + 10°`, `ED = ‖x − y‖`, `MD = |‖x‖ − ‖y‖|` — the clamp of the cosine is
inactive over `ℝ` (Cauchy–Schwarz).  (The sector is `(ED+MD)²θ`, twice the paper's `π(ED+MD)²θ°/360`;
the code's scale is kept.) -/
theorem tsss_spec (x y : List ℝ) (hl : x.length = y.length) (hx : normSq x ≠ 0) (hy : normSq y ≠ 0) :
    tsss x y =
      (let nx := Real.sqrt (normSq x)
       let ny := Real.sqrt (normSq y)
       let ed := Real.sqrt (squaredEuclidean x y)
       let md := |nx - ny|
       let theta := Real.arccos (dotProd x y / (nx * ny)) + 10 * (Real.pi / 180)
       (nx * ny * Real.sin theta / 2) * ((ed + md) ^ 2 * theta)) := by
  have hx' : 0 < Real.sqrt (normSq x) :=
    Real.sqrt_pos.2 (lt_of_le_of_ne (normSq_nonneg x) hx.symm)
  have hy' : 0 < Real.sqrt (normSq y) :=
    Real.sqrt_pos.2 (lt_of_le_of_ne (normSq_nonneg y) hy.symm)
  have hp := mul_pos hx' hy'
  have habs := abs_dotProd_le x y hl
  have hc : |dotProd x y / (Real.sqrt (normSq x) * Real.sqrt (normSq y))| ≤ 1 := by
    rw [abs_div, abs_of_pos hp, div_le_one hp]; exact habs
  obtain ⟨h1, h2⟩ := abs_le.1 hc
  rw [tsss_real]
  simp only [clampCos_of_mem h1 h2, sq]

theorem tsss_symm (x y : List ℝ) : tsss x y = tsss y x := tsss_comm x y

/-- identical inputs give `0` (`ED = MD = 0`). -/
theorem tsss_self (x : List ℝ) : tsss x x = 0 := tsss_self' x

/-- for non-zero vectors the divisor `norm_x * norm_y` is non-zero and the three `np.sqrt` have
non-negative arguments; and **the clamp**: whatever value `c` the quotient takes after rounding, the
argument of `np.arccos` is in `[-1, 1]`.  (Zero vectors: the code divides by zero — D7g.) -/
theorem tsss_defined (x y : List ℝ) (hx : normSq x ≠ 0) (hy : normSq y ≠ 0) :
    Real.sqrt (normSq x) * Real.sqrt (normSq y) ≠ 0 ∧
    0 ≤ normSq x ∧ 0 ≤ normSq y ∧ 0 ≤ squaredEuclidean x y ∧
    ∀ c : ℝ, -1 ≤ clampCos c ∧ clampCos c ≤ 1 := by
  have hx' : 0 < Real.sqrt (normSq x) :=
    Real.sqrt_pos.2 (lt_of_le_of_ne (normSq_nonneg x) hx.symm)
  have hy' : 0 < Real.sqrt (normSq y) :=
    Real.sqrt_pos.2 (lt_of_le_of_ne (normSq_nonneg y) hy.symm)
  exact ⟨(mul_pos hx' hy').ne', normSq_nonneg x, normSq_nonneg y, squaredEuclidean_nonneg x y,
    clampCos_mem⟩


/-! # Guardedness under rounding -/
section Guarded
open RArith

/-- **hellinger, the clamp**: for every carrier and EVERY value `q` of the quotient
`result / √(l1_norm_x·l1_norm_y)`, `np.sqrt(max(1 - q, 0.0))` is defined. -/
theorem hellinger_clamp_guarded {α : Type} [RArith α] (q : α) :
    safeSqrt (Arith.max (1 - q) 0) ≠ none := by
  rw [safeSqrt_some (le_max_right _ _)]; simp

/-- `correct_alternative_hellinger` is defined for every `d`, whatever `pow(2.0, -d)` rounds to. -/
theorem correct_alternative_hellinger_guarded {α : Type} [RArith α] (d : α) :
    correctAlternativeHellingerG d ≠ none :=
  hellinger_clamp_guarded _

/-- **tsss, the clamp**: `np.arccos(min(max(c, -1.0), 1.0))` is defined for every `c`. -/
theorem tsss_clamp_guarded {α : Type} [RArith α] (c : α) : safeArccos (clampCos c) ≠ none := by
  rw [safeArccos_some (clampCos_memG c).1 (clampCos_memG c).2]; simp

/-- **true_angular, the clamp**: `np.arccos(min(q, 1.0))` is defined for every `q ≥ 0` (the branch
`result <= 0.0` having returned before). -/
theorem true_angular_clamp_guarded {α : Type} [RArith α] (q : α) (hq : 0 ≤ q) :
    safeArccos (Arith.min q 1) ≠ none := by
  rw [safeArccos_some (min_one_memG hq).1 (min_one_memG hq).2]; simp

/-- **haversine**: on latitudes whose cosine is `≥ 0` (the domain `[-π/2, π/2]`) the radicand is a
sum of non-negative terms, and the clamp `min(result, 1.0)` keeps the argument of `np.arcsin` in
`[-1, 1]` whatever the radicand rounds to. -/
theorem haversine_guarded {α : Type} [RArith α] (x0 x1 y0 y1 : α)
    (hx : 0 ≤ Trig.cos x0) (hy : 0 ≤ Trig.cos y0) : haversineG x0 x1 y0 y1 ≠ none := by
  have hr : 0 ≤ haversineRadicand x0 x1 y0 y1 :=
    add_nonneg (mul_self_nonneg _) (mul_nonneg (mul_nonneg hx hy) (mul_self_nonneg _))
  have hm := min_one_memG (sqrt_nonneg hr)
  unfold haversineG
  rw [safeSqrt_some hr]
  simp only [Option.bind_eq_bind, Option.bind_some]
  rw [safeArcsin_some hm.1 hm.2]
  simp

/-- **canberra**: every division is behind `denominator > 0`. -/
theorem canberra_guarded {α : Type} [RArith α] (x y : List α) : canberraG x y ≠ none :=
  canberra_fold_guarded (x.zip y) 0

/-- **bray_curtis**: the division is behind `denominator > 0.0`. -/
theorem bray_curtis_guarded {α : Type} [RArith α] (x y : List α) : brayCurtisG x y ≠ none := by
  unfold brayCurtisG
  simp only []
  split
  · rename_i h; rw [safeDiv_some _ (pos_ne_zero h)]; simp
  · simp

/-- **bit_jaccard**: the division is behind `denom == 0.0` (no axiom needed at all). -/
theorem bit_jaccard_guarded {α : Type} [RArith α] (r d : α) : bitJaccardQuotientG r d ≠ none := by
  unfold bitJaccardQuotientG safeDiv
  cases h : (d == 0) <;> simp

/-- the logarithm of `bit_jaccard` is unguarded: it is defined when the strings share a set bit
(`result > 0`), barring underflow of the quotient. -/
theorem bit_jaccard_log_guarded {α : Type} [RArithNU α] (r d : α) (hr : 0 < r) (hd : 0 ≤ d) :
    bitJaccardOfCountsG r d ≠ none := by
  unfold bitJaccardOfCountsG
  cases h : (d == 0)
  · have hd' := pos_of_nonneg_of_ne hd h
    simp only [Bool.false_eq_true, if_false, safeDiv_some _ h, Option.bind_eq_bind, Option.bind_some,
      safeLog_some (RArithNU.div_pos hr hd')]
    simp
  · simp

/-- **hellinger** (non-negative vectors): every inner `np.sqrt(x[i]*y[i])` has a non-negative
argument; the outer `np.sqrt` is behind the clamp (`RArith` alone); the division by
`√(l1_norm_x·l1_norm_y)` is behind `l1_norm_x == 0` / `l1_norm_y == 0`, which guard the FACTORS —
that step needs `RArithNU` (no underflow of the product: `hellinger([1e-23f], [1e-23f])` raises
`ZeroDivisionError` in the real kernel). -/
theorem hellinger_guarded {α : Type} [RArithNU α] (x y : List α)
    (hx : ∀ a ∈ x, 0 ≤ a) (hy : ∀ a ∈ y, 0 ≤ a) : hellingerG x y ≠ none := by
  obtain ⟨r, hr, _⟩ := sumByG_some (fun a b => safeSqrt (a * b)) x y (fun p hp => by
    have h := mul_nonneg (hx _ (List.of_mem_zip hp).1) (hy _ (List.of_mem_zip hp).2)
    exact ⟨_, safeSqrt_some h, sqrt_nonneg h⟩)
  unfold hellingerG
  rw [hr]
  simp only [Option.bind_eq_bind, Option.bind_some]
  split
  · simp
  · split
    · simp
    · rename_i _ h2
      obtain ⟨h3, h4⟩ := beq_false_of_not_or h2
      obtain ⟨h5, h6⟩ := sqrt_mul_pos (l1_nonnegG hx) (l1_nonnegG hy) h3 h4
      rw [safeSqrt_some h5]
      simp only [Option.bind_some, safeDiv_some _ (pos_ne_zero h6)]
      exact hellinger_clamp_guarded _

/-- **cosine**: the division by `√(norm_x·norm_y)` is behind `norm_x == 0.0` / `norm_y == 0.0`
(guards on the factors: `RArithNU`). -/
theorem cosine_guarded {α : Type} [RArithNU α] (x y : List α) : cosineG x y ≠ none := by
  unfold cosineG
  simp only []
  split
  · simp
  · split
    · simp
    · rename_i _ h2
      obtain ⟨h3, h4⟩ := beq_false_of_not_or h2
      obtain ⟨h5, h6⟩ := sqrt_mul_pos (normSq_nonnegG x) (normSq_nonnegG y) h3 h4
      rw [safeSqrt_some h5]
      simp [safeDiv_some _ (pos_ne_zero h6)]

/-- **true_angular**: as `cosine` for the division; the argument of `np.arccos` is `min(q, 1.0)` with
`q ≥ 0` (a quotient of a positive by a positive value, `result ≤ 0.0` having been excluded), hence
in `[-1, 1]` whatever `q` rounds to; `np.pi` is non-zero. -/
theorem true_angular_guarded {α : Type} [RArithNU α] (x y : List α) : trueAngularG x y ≠ none := by
  unfold trueAngularG
  simp only []
  split
  · simp
  · split
    · simp
    · split
      · simp
      · rename_i _ h2 h7
        obtain ⟨h3, h4⟩ := beq_false_of_not_or h2
        obtain ⟨h5, h6⟩ := sqrt_mul_pos (normSq_nonnegG x) (normSq_nonnegG y) h3 h4
        have hq : 0 ≤ dotProd x y / Arith.sqrt (normSq x * normSq y) :=
          div_nonneg (le_of_lt (lt_of_not_le h7)) h6
        have hm := min_one_memG hq
        rw [safeSqrt_some h5]
        simp [safeDiv_some _ (pos_ne_zero h6), safeArccos_some hm.1 hm.2,
          safeDiv_some _ (pos_ne_zero (pi_pos (α := α)))]

/-- **tsss** on vectors whose computed squared norms are non-zero (the code has NO guard for zero
vectors: D7g): the three `np.sqrt` have sums of squares as arguments, `np.arccos` is behind the clamp
(`tsss_clamp_guarded`, `RArith` alone), `2.0 ≠ 0`; the division by `norm_x * norm_y` needs
`RArithNU` (no underflow of the product). -/
theorem tsss_guarded {α : Type} [RArithNU α] (x y : List α)
    (hx : (normSq x == 0) = false) (hy : (normSq y == 0) = false) : tsssG x y ≠ none := by
  have hnx := normSq_nonnegG x
  have hny := normSq_nonnegG y
  have hsx := sqrt_pos (pos_of_nonneg_of_ne hnx hx)
  have hsy := sqrt_pos (pos_of_nonneg_of_ne hny hy)
  have hp := RArithNU.mul_pos hsx hsy
  have hed : 0 ≤ sumBy sqDiff x y := sumBy_nonnegG _ x y (fun p _ => mul_self_nonneg _)
  unfold tsssG
  simp [safeSqrt_some hnx, safeSqrt_some hny, safeDiv_some _ (pos_ne_zero hp),
    safeArccos_some (clampCos_memG _).1 (clampCos_memG _).2, safeSqrt_some hed,
    safeDiv_some _ (pos_ne_zero (ofNat_pos (α := α) (n := 2) (by decide)))]

/-- **correlation**, PARTIAL.  Full statement (not provable from `RArithNU`):
`∀ x y, x ≠ [] → correlationG x y ≠ none`.  The code guards the division by `√(norm_x·norm_y)` with
`dot_product == 0.0`, not with a test of the norms; that `dot_product ≠ 0` implies
`norm_x ≠ 0 ∧ norm_y ≠ 0` is Cauchy–Schwarz (`C07.correlation_defined`, exact arithmetic) and is
not a consequence of the sign axioms — it is the hypothesis `hgap` here. -/
theorem correlation_guarded_partial {α : Type} [RArithNU α] (x y : List α) (hn : 0 < x.length)
    (hgap : ∀ mx my : α, (sumBy (fun a b => (a - mx) * (b - my)) x y == 0) = false →
      (sum1 (fun v => (v - mx) * (v - mx)) x == 0) = false ∧
      (sum1 (fun v => (v - my) * (v - my)) y == 0) = false) :
    correlationG x y ≠ none := by
  unfold correlationG
  simp only [safeDiv_some _ (pos_ne_zero (ofNat_pos (α := α) hn)), Option.bind_eq_bind,
    Option.bind_some]
  split
  · simp
  · split
    · simp
    · rename_i _ h2
      obtain ⟨h3, h4⟩ := hgap _ _ (by simpa using h2)
      obtain ⟨h5, h6⟩ := sqrt_mul_pos
        (sum1_nonnegG _ x (fun v _ => mul_self_nonneg _)) (sum1_nonnegG _ y (fun v _ => mul_self_nonneg _))
        h3 h4
      rw [safeSqrt_some h5]
      simp [safeDiv_some _ (pos_ne_zero h6)]


/-- the guarded kernels are the SAME computations as the kernels of `Model/Metrics.lean` /
`Model/Metrics2.lean` (the ones the driver executes against numba): whenever a guarded kernel returns
`some v`, `v` is the value of the plain kernel. -/
theorem guarded_agree {α : Type} [RArith α] :
    (∀ (x y : List α) v, hellingerG x y = some v → v = hellinger x y) ∧
    (∀ (d v : α), correctAlternativeHellingerG d = some v → v = correctAlternativeHellinger d) ∧
    (∀ (x y : List α) v, cosineG x y = some v → v = cosine x y) ∧
    (∀ (x y : List α) v, trueAngularG x y = some v → v = trueAngular x y) ∧
    (∀ (x y : List α) v, correlationG x y = some v → v = correlation x y) ∧
    (∀ (x y : List α) v, tsssG x y = some v → v = tsss x y) ∧
    (∀ (x0 x1 y0 y1 v : α), haversineG x0 x1 y0 y1 = some v → v = haversineCore x0 x1 y0 y1) ∧
    (∀ (x y : List α) v, canberraG x y = some v → v = canberra x y) ∧
    (∀ (x y : List α) v, brayCurtisG x y = some v → v = brayCurtis x y) ∧
    (∀ (r d v : α), bitJaccardOfCountsG r d = some v → v = bitJaccardOfCounts r d) :=
  ⟨hellingerG_eq, correctAlternativeHellingerG_eq, cosineG_eq, trueAngularG_eq, correlationG_eq,
   tsssG_eq, haversineG_eq, canberraG_eq, brayCurtisG_eq, bitJaccardOfCountsG_eq⟩

end Guarded


/-! ## the PRE-repair shapes are not guarded

A cooked-up carrier satisfying every axiom of `RArithNU`: the integers, with a division that
rounds UP by one unit in the last place (`a / b := ⌊a / b⌋ + 1` — over `ℤ` the unit is `1`; it is
still true that a quotient of non-negative values is non-negative, which is all `RArith` asks of
`/`), `sqrt := id` (exact on `0` and `1`, and sign-preserving), and `sin = cos = 1` (nothing in the
shared axioms bounds `sin² + cos·cos·sin²` by `1`; in IEEE arithmetic the excess is a rounding
residue at antipodal points). -/

/-- the PRE-repair `hellinger` (`sqrt(1 - r/s)`, no `max`) is NOT guarded: on identical inputs the
quotient rounds above `1` and the square root is taken of a negative number … -/
example : @hellingerUnclampedG Int cookedRArith [1] [1] = none := by decide
/-- … while the repaired kernel is defined on the same carrier and input (as
`hellinger_guarded` says it must be). -/
example : @hellingerG Int cookedRArith [1] [1] = some 0 := by decide

/-- the PRE-repair `haversine` (`arcsin(result)`, no `min`) is NOT guarded: the radicand exceeds `1` … -/
example : @haversineUnclampedG Int cookedRArith 0 0 0 0 = none := by decide
/-- … while the repaired kernel is defined. -/
example : @haversineG Int cookedRArith 0 0 0 0 = some 0 := by decide

/-! ## non-vacuity -/

/-- two points on the equator, half a turn apart, are at distance `π`. -/
example : haversine ([0, 0] : List ℝ) [0, Real.pi] = some Real.pi := by
  rw [(haversine_spec 0 0 0 Real.pi).1]
  simp

example : (bitHamming [5] [3] : ℝ) = 2 := by
  have : bitXorCount [5] [3] = 2 := by decide
  unfold bitHamming; rw [this]; arith_norm

example : bitAndCount [255, 1] [15, 2] = 4 ∧ bitOrCount [255, 1] [15, 2] = 10 := by decide

example : PosSemidef [[1, 0], [0, 1]] := by
  intro d hd
  rcases d with _ | ⟨a, _ | ⟨b, _ | ⟨c, t⟩⟩⟩ <;> simp at hd
  unfold quadFormSpec
  simp
  nlinarith [mul_self_nonneg a, mul_self_nonneg b]

example : mahalanobis ([3, 0] : List ℝ) [0, 4] [[1, 0], [0, 1]] = 5 := by
  rw [mahalanobis_spec]
  unfold quadFormSpec
  have : (25 : ℝ) = 5 ^ 2 := by norm_num
  norm_num
  rw [this, Real.sqrt_sq (by norm_num)]

example : wasserstein1d ([1, 0] : List ℝ) [0, 1] 1 = 1 := by
  rw [(wasserstein_1d_spec _ _ _).1]
  unfold cdf
  norm_num [List.range_succ]

/-- the guardedness theorems are not vacuous: `ℝ` is an `RArithNU`. -/
example : hellingerG ([1, 2] : List ℝ) [2, 1] ≠ none :=
  hellinger_guarded _ _
    (by intro a ha; simp at ha; rcases ha with rfl | rfl <;> (show (0 : ℝ) ≤ _) <;> norm_num)
    (by intro a ha; simp at ha; rcases ha with rfl | rfl <;> (show (0 : ℝ) ≤ _) <;> norm_num)

end Pynn.C07b
