import PynnVerif.Model.Alias

/-!
# C17 — the caller's arrays are never modified

Over the alias model of `Model/Alias.lean`: for every input class (dtype, memory
layout, dense / sparse, CSR or not, sorted indices or not), every metric class
(plain, the normalising `dot`, bit-packed) and every history of prepare / update /
compress / pickle, no in-place write ever targets a buffer that is reachable from
an array the caller passed in.
-/
namespace Pynn.C17
open Pynn.Alias

/-- once the current buffer is index-owned and no caller buffer was written, every step keeps it so
(steps only copy or write the current buffer) -/
theorem owned_stays_safe (ops : List BufOp) (w : Bool) :
    (ops.foldl exec (false, w)).2 = w ∧ (ops.foldl exec (false, w)).1 = false := by
  induction ops generalizing w with
  | nil => simp
  | cons o rest ih => cases o <;> simpa [List.foldl, exec] using ih w

/-- a run never reports a caller write unless some write happened while the buffer was caller-reachable;
writes are safe after any copy -/
theorem write_after_copy_safe (pre post : List BufOp) :
    (run (pre ++ [BufOp.copy] ++ post)).2 = (run pre).2 := by
  unfold run
  rw [List.foldl_append, List.foldl_append]
  simp only [List.foldl, exec]
  exact (owned_stays_safe post _).1

/-- every life-cycle step copies before it writes: started from any state without a caller write, it
ends without one -/
theorem step_safe (s : Step) (r : Bool) : ((stepOps s).foldl exec (r, false)).2 = false := by
  cases s with
  | prepare t => cases t <;> simp [stepOps, prepareOps, exec]
  | update => simp [stepOps, updateOps, exec]
  | compress => simp [stepOps]
  | pickle => simp [stepOps]

theorem steps_safe (h : List Step) (r : Bool) : ((h.flatMap stepOps).foldl exec (r, false)).2 = false := by
  induction h generalizing r with
  | nil => simp
  | cons s rest ih =>
    simp only [List.flatMap_cons, List.foldl_append]
    have hs := step_safe s r
    generalize hq : (stepOps s).foldl exec (r, false) = q at hs
    obtain ⟨q1, q2⟩ := q
    simp only at hs; subst hs
    exact ih q1

/-- all 7 × 3 × 2⁴ input classes -/
def allClasses : List InClass :=
  [DType.f32, .f64, .f16, .i32, .i64, .u8, .bool].flatMap fun d =>
  [Layout.c, .f, .strided].flatMap fun l =>
  [true, false].flatMap fun sp => [true, false].flatMap fun cs => [true, false].map fun so =>
    ⟨d, l, sp, cs, so⟩

theorem allClasses_complete (c : InClass) : c ∈ allClasses := by
  obtain ⟨d, l, sp, cs, so⟩ := c
  cases d <;> cases l <;> cases sp <;> cases cs <;> cases so <;> decide

/-- construction never writes a caller-reachable buffer — in particular the normalising `dot`
metric writes only into a copy, for float32 C-contiguous input that the index would otherwise alias -/
theorem init_never_writes_caller (c : InClass) (m : MetricClass) : (run (initOps c m)).2 = false := by
  have h : allClasses.all (fun c => [MetricClass.plain, .dot, .bit].all (fun m => !(run (initOps c m)).2)) = true := by
    decide +kernel
  have h1 := List.all_eq_true.mp h c (allClasses_complete c)
  have h2 := List.all_eq_true.mp h1 m (by cases m <;> decide)
  simpa using h2

/-- **C17**: over every input class, metric class and history, no in-place write ever targets a
buffer reachable from the caller's data array. -/
theorem caller_buffers_unchanged (c : InClass) (m : MetricClass) (h : List Step) :
    (run (historyOps c m h)).2 = false := by
  unfold historyOps run
  rw [List.foldl_append]
  have hi := init_never_writes_caller c m
  unfold run at hi
  generalize hq : (initOps c m).foldl exec (true, false) = q at hi
  obtain ⟨q1, q2⟩ := q
  simp only at hi; subst hi
  exact steps_safe h q1

/-- query arrays are only read: no write at all occurs in `queryOps` -/
theorem query_never_writes (c : InClass) : (run (queryOps c)).2 = false := by
  have h : allClasses.all (fun c => !(run (queryOps c)).2) = true := by decide +kernel
  simpa using List.all_eq_true.mp h c (allClasses_complete c)

/-- when does the index keep sharing memory with the caller (so that the theorem above matters)?
exactly for input that needs no conversion, no index sort and no normalisation -/
theorem alias_iff (c : InClass) (m : MetricClass) :
    aliasAfterInit c m = (!(checkArrayCopies c (if m == .bit then .u8 else .f32)) &&
                          !(c.sparse && !c.sortedIdx) && !(m == .dot)) := by
  have h : allClasses.all (fun c => [MetricClass.plain, .dot, .bit].all (fun m =>
      aliasAfterInit c m == (!(checkArrayCopies c (if m == .bit then .u8 else .f32)) &&
                            !(c.sparse && !c.sortedIdx) && !(m == .dot)))) = true := by decide +kernel
  have h1 := List.all_eq_true.mp h c (allClasses_complete c)
  have h2 := List.all_eq_true.mp h1 m (by cases m <;> decide)
  simpa using h2

/-- Non-vacuity: float32 C input really is aliased, and the unsafe variants are rejected by the check:
`normalize(copy=False)` on aliased input, and the pre-repair in-place `sort_indices()`. -/
example : aliasAfterInit ⟨.f32, .c, false, false, true⟩ .plain = true := by decide
example : (run [BufOp.alias, BufOp.write]).2 = true := by decide
example : (run ([BufOp.alias] ++ [BufOp.write] ++ updateOps)).2 = true := by decide

end Pynn.C17
