import PynnVerif.Proofs.Search
import PynnVerif.Proofs.SearchReach
import PynnVerif.Proofs.GenVisited
import Mathlib.Data.Nat.Basic  -- `LinearOrder Nat` for the concrete examples

/-!
# C02 — query answers are true, in the caller's row order, and never fabricated

Property theorems only (helper lemmas live in `Proofs/Search.lean`, the model in
`Model/Search.lean`).  `P` is any linear order with greatest element `top`
(`np.inf`); the theorems hold for **every** search graph, distance table `dq`,
leaf, generator stream `draws` (hence for whatever a shared or racy generator
state delivers), `k`, `n_neighbors`, bound scaling `scale` (`(1+ε)·`, not even
assumed monotone) and fuel.
-/
namespace Pynn.C02
open Pynn
variable {P : Type} [LinearOrder P]

/-- What the theorems assume about the inputs of one query; the harness checks every
clause on the real arrays of every case.  `k_pos`, `indptr_size`, `indptr_le` are the
guards under which the model's total reads (`rootPrio`, `nbrs`) coincide with the code's
`heap_priorities[0]` and `indices[indptr[v] : indptr[v+1]]`; the proofs need the last four:
CSR entries are vertices (`_search_graph` is `n × n`), the leaf is a slice of a permutation,
generator values are reduced `% n`. -/
structure InputsOk (n k : Nat) (indptr indices : Array Nat) (leaf draws : List Nat) : Prop where
  k_pos : 1 ≤ k
  indptr_size : indptr.size = n + 1
  indptr_le : ∀ v (h : v < indptr.size), indptr[v] ≤ indices.size
  indices_lt : ∀ c ∈ indices, c < n
  leaf_nodup : leaf.Nodup
  leaf_lt : ∀ c ∈ leaf, c < n
  draws_lt : ∀ c ∈ draws, c < n

/-- **Soundness of one search** (any fuel — also a search cut short holds only truths).
The raw result row `h` has `k` slots and is a max-heap; every filled slot is a vertex
`v < n` that was visited, paired with its own distance `dq v`, which is finite; every
unfilled slot is exactly `(-1, top)`; no vertex is held twice — `simple_heap_push` has no
duplicate scan, the proof discharges its "never offered twice" obligation from the
`visited` table.  After `deheap_sort` the row `r` holds the same entries, ascending, hence
filled slots first and sentinels last. -/
theorem search_sound (top : P) (htop : ∀ x : P, x ≤ top) (scale : P → P) (n k nNeighbors : Nat)
    (indptr indices : Array Nat) (dq : Nat → P) (leaf draws : List Nat) (fuel : Nat)
    (hin : InputsOk n k indptr indices leaf draws) :
    let s := (search top scale n k nNeighbors indptr indices dq leaf draws fuel).1
    let h := s.heap
    let r := queryRow top scale n k nNeighbors indptr indices dq leaf draws fuel
    h.size = k ∧ IsHeap h ∧
    (∀ e ∈ h, 0 ≤ e.idx → e.idx.toNat < n ∧ visited s.vis e.idx.toNat = true ∧
        e.prio = dq e.idx.toNat ∧ e.prio < top) ∧
    (∀ e ∈ h, e.idx < 0 → e.idx = -1 ∧ e.prio = top) ∧
    ((h.toList.filter (fun e => 0 ≤ e.idx)).map (·.idx)).Nodup ∧
    r.Perm h ∧
    (∀ i j (hi : i < r.size) (hj : j < r.size), i ≤ j → r[i].prio ≤ r[j].prio) ∧
    (∀ i j (hi : i < r.size) (hj : j < r.size), i ≤ j → r[i].idx < 0 → r[j].idx < 0) := by
  intro s h r
  obtain ⟨offers, hinv⟩ := search_hinv top htop scale n k nNeighbors indptr indices dq leaf draws
    fuel hin.indices_lt hin.leaf_nodup hin.leaf_lt hin.draws_lt
  have hsz : h.size = k := search_heap_size top scale n k nNeighbors indptr indices dq leaf draws
    fuel hin.indices_lt hin.leaf_nodup hin.leaf_lt hin.draws_lt
  have hreal : ∀ e ∈ h, 0 ≤ e.idx → e.idx.toNat < n ∧ visited s.vis e.idx.toNat = true ∧
      e.prio = dq e.idx.toNat ∧ e.prio < top := by
    intro e he h0
    obtain ⟨h1, h2, h3⟩ := hinv.row.real e he h0
    obtain ⟨o, ho, heq⟩ := List.mem_map.mp h1
    have ho' : o = e.idx.toNat := congrArg Prod.fst heq
    rw [← ho']
    exact ⟨hinv.lt o ho, hinv.vis o ho, ho' ▸ h2, h3⟩
  have hperm : r.Perm h := deheapSort_perm h
  have hsorted : ∀ i j (hi : i < r.size) (hj : j < r.size), i ≤ j → r[i].prio ≤ r[j].prio :=
    deheapSort_sorted h hinv.row.heap
  refine ⟨hsz, hinv.row.heap, hreal, hinv.row.sent, hinv.row.nodup, hperm, hsorted, ?_⟩
  intro i j hi hj hij hneg
  have hmem : ∀ x, x ∈ r ↔ x ∈ h := fun x => by
    simp only [← Array.mem_toList_iff]
    exact (Array.perm_iff_toList_perm.mp hperm).mem_iff
  obtain ⟨_, hpi⟩ := hinv.row.sent _ ((hmem _).mp (Array.getElem_mem hi)) hneg
  apply Classical.byContradiction
  intro hnn
  obtain ⟨_, _, _, hlt⟩ := hreal _ ((hmem _).mp (Array.getElem_mem hj)) (by omega)
  have := hsorted i j hi hj hij
  rw [hpi] at this
  exact absurd (lt_of_le_of_lt this hlt) (lt_irrefl _)

/-- **The loop ends by its own condition**: with fuel `n` (a fortiori `n + 1`, what the
driver uses) the first `heappop` finds a seed (`k ≥ 1`, `n_neighbors ≥ 1`, the generator
delivers the `min(k, n_neighbors) − |leaf|` values asked for) and the `while` loop leaves
through `d_vertex ≥ distance_bound` or the empty seed set: every iteration pops one seed,
and a vertex becomes a seed at most once because it is marked visited when it does. -/
theorem search_terminates (top : P) (scale : P → P) (n k nNeighbors : Nat)
    (indptr indices : Array Nat) (dq : Nat → P) (leaf draws : List Nat) (fuel : Nat)
    (hin : InputsOk n k indptr indices leaf draws) (hnn : 1 ≤ nNeighbors)
    (hdr : min k nNeighbors - leaf.length ≤ draws.length) (hfuel : n ≤ fuel) :
    (search top scale n k nNeighbors indptr indices dq leaf draws fuel).2 = true := by
  have hne := init_seeds_nonempty top scale n k nNeighbors dq leaf draws hin.k_pos hnn hdr
  have hmu := (init_steps n k nNeighbors top scale dq leaf draws hin.leaf_nodup hin.leaf_lt
    hin.draws_lt).mu_le (by simp [emptyState])
  rw [empty_mu] at hmu
  unfold search
  simp only
  cases hp : popMin (initState top scale n k nNeighbors dq leaf draws).seeds with
  | none => exact absurd (popMin_none _ hp) hne
  | some xr =>
    obtain ⟨x, rest⟩ := xr
    have hlen := popMin_length _ _ _ hp
    simp only
    refine loop_terminates n top scale indptr indices dq hin.indices_lt fuel _ _ _ ?_ ?_
    · exact hmu.2
    have h1 := hmu.1
    simp only [mu] at h1 ⊢
    omega

/-- **More fuel changes nothing** once the loop has ended by its own condition.  Together
with `search_terminates`: for every `fuel ≥ n` the result is the result at fuel `n`. -/
theorem search_fuel_irrelevant (top : P) (scale : P → P) (n k nNeighbors : Nat)
    (indptr indices : Array Nat) (dq : Nat → P) (leaf draws : List Nat) (fuel fuel' : Nat)
    (hle : fuel ≤ fuel')
    (h : (search top scale n k nNeighbors indptr indices dq leaf draws fuel).2 = true) :
    search top scale n k nNeighbors indptr indices dq leaf draws fuel'
      = search top scale n k nNeighbors indptr indices dq leaf draws fuel := by
  unfold search at h ⊢
  simp only at h ⊢
  cases hp : popMin (initState top scale n k nNeighbors dq leaf draws).seeds with
  | none => rfl
  | some xr =>
    obtain ⟨x, rest⟩ := xr
    rw [hp] at h
    exact loop_fuel_mono top scale indptr indices dq fuel fuel' _ _ _ hle h

/-- **The seed set never holds a vertex twice** (at every loop head — take any fuel — and
at the end), every seed is a visited real vertex paired with its own distance.  Hence the
tuples `(d, v)` in the `heapq` are pairwise different and totally ordered by `seedLt`. -/
theorem seeds_distinct (top : P) (scale : P → P) (n k nNeighbors : Nat)
    (indptr indices : Array Nat) (dq : Nat → P) (leaf draws : List Nat) (fuel : Nat)
    (hin : InputsOk n k indptr indices leaf draws) :
    let s := (search top scale n k nNeighbors indptr indices dq leaf draws fuel).1
    (s.seeds.map (·.2)).Nodup ∧
    ∀ x ∈ s.seeds, x.2 < n ∧ x.1 = dq x.2 ∧ visited s.vis x.2 = true := by
  intro s
  have hinv := search_seedInv top scale n k nNeighbors indptr indices dq leaf draws fuel
    hin.indices_lt hin.leaf_nodup hin.leaf_lt hin.draws_lt
  exact ⟨hinv.nodup, fun x hx => ⟨hinv.lt x hx, hinv.dist x hx, hinv.vis x hx⟩⟩

/-- **`popMin` is `heappop`**: it removes one element (the rest is the same multiset) and
no remaining seed is smaller in the tuple order.  With `seeds_distinct` the least element
is unique, so the internal layout of the `heapq` list is unobservable. -/
theorem popMin_least (l : List (P × Nat)) (x : P × Nat) (rest : List (P × Nat))
    (h : popMin l = some (x, rest)) :
    l.Perm (x :: rest) ∧ ∀ y ∈ rest, seedLt y x = false :=
  ⟨popMin_perm l x rest h, Pynn.popMin_least l x rest h⟩

/-- **Sentinels stay sentinels, real rows stay real**: the (repaired) translation maps
`-1` to `-1`, never maps a negative index to a row number, and never maps an internal row
to a negative number. -/
theorem translate_sentinel (vo : Array Nat) :
    translate vo (-1) = -1 ∧ ∀ i : Int, (translate vo i < 0 ↔ i < 0) ∧ (i < 0 → translate vo i = -1) := by
  refine ⟨by simp [translate], fun i => ⟨?_, ?_⟩⟩
  · unfold translate
    by_cases h : i ≥ 0
    · rw [if_pos h]; constructor <;> intro h' <;> omega
    · rw [if_neg h]; constructor <;> intro _ <;> omega
  · intro h
    unfold translate
    rw [if_neg (by omega)]

omit [LinearOrder P] in
/-- **Caller's numbering**: if the internal array is the caller's data re-ordered by
`vo` (`raw[r] = data[vo[r]]`, what `_init_search_graph` establishes), a slot `(i, d)` whose
distance is the true distance to internal row `i` is answered as `(vo[i], d)` and `d` is
the true distance to the caller's row `vo[i]`. -/
theorem translate_truth {X : Type} (dist : X → X → P) (data raw : Nat → X) (q : X) (vo : Array Nat)
    (hraw : ∀ r (h : r < vo.size), raw r = data vo[r])
    (i : Int) (d : P) (hi0 : 0 ≤ i) (hi : i.toNat < vo.size) (hd : d = dist (raw i.toNat) q) :
    translate vo i = (vo[i.toNat] : Int) ∧ d = dist (data (translate vo i).toNat) q := by
  have h1 : translate vo i = (vo[i.toNat] : Int) := by
    unfold translate
    rw [if_pos hi0, Array.getElem?_eq_getElem hi]; rfl
  refine ⟨h1, ?_⟩
  rw [h1, hd, hraw _ hi]; rfl

/-- **Distinct internal rows are distinct caller rows** (`vo` is a permutation). -/
theorem translate_injective (vo : Array Nat) (hnd : vo.toList.Nodup) (i j : Int)
    (hi0 : 0 ≤ i) (hj0 : 0 ≤ j) (hi : i.toNat < vo.size) (hj : j.toNat < vo.size)
    (h : translate vo i = translate vo j) : i = j := by
  unfold translate at h
  rw [if_pos hi0, if_pos hj0, Array.getElem?_eq_getElem hi, Array.getElem?_eq_getElem hj] at h
  have h' : vo[i.toNat] = vo[j.toNat] := by
    simp only [Option.getD_some] at h; omega
  have := nodup_getElem_inj vo.toList hnd i.toNat j.toNat (by simpa using hi) (by simpa using hj)
    (by simpa using h')
  omega

/-- **C02, one row end to end**: `answerRow vo ∘ deheapSort ∘ search` with the distance
table of a query `q` against the internal array.  The answer has `k` slots; each filled
slot names a row `< n` of the *caller's* data together with the true (surrogate) distance
from `q` to that row, which is finite; no row is named twice; distances ascend; an unfilled
slot is `(-1, top)`, never a row number, and unfilled slots come last.  (`query` finally
applies the monotone distance correction to the second components — C09.) -/
theorem query_sound {X : Type} (top : P) (htop : ∀ x : P, x ≤ top) (scale : P → P)
    (n k nNeighbors : Nat) (indptr indices : Array Nat) (leaf draws : List Nat) (fuel : Nat)
    (dist : X → X → P) (data raw : Nat → X) (q : X) (vo : Array Nat)
    (hin : InputsOk n k indptr indices leaf draws)
    (hvo : vo.size = n) (hvo_lt : ∀ x ∈ vo, x < n) (hvo_nd : vo.toList.Nodup)
    (hraw : ∀ r (h : r < vo.size), raw r = data vo[r]) :
    let ans := answerRow vo
      (queryRow top scale n k nNeighbors indptr indices (fun v => dist (raw v) q) leaf draws fuel)
    ans.size = k ∧
    (∀ j (hj : j < ans.size), 0 ≤ ans[j].1 →
        ans[j].1.toNat < n ∧ ans[j].2 = dist (data ans[j].1.toNat) q ∧ ans[j].2 < top) ∧
    (∀ j (hj : j < ans.size), ans[j].1 < 0 → ans[j].1 = -1 ∧ ans[j].2 = top) ∧
    (∀ i j (hi : i < ans.size) (hj : j < ans.size), i < j → 0 ≤ ans[i].1 → ans[i].1 ≠ ans[j].1) ∧
    (∀ i j (hi : i < ans.size) (hj : j < ans.size), i ≤ j → ans[i].2 ≤ ans[j].2) ∧
    (∀ i j (hi : i < ans.size) (hj : j < ans.size), i ≤ j → ans[i].1 < 0 → ans[j].1 < 0) := by
  intro ans
  obtain ⟨hsz, _, hreal, hsent, hnd, hperm, hsorted, hlast⟩ :=
    search_sound top htop scale n k nNeighbors indptr indices (fun v => dist (raw v) q) leaf draws
      fuel hin
  have hansdef : ans = answerRow vo (queryRow top scale n k nNeighbors indptr indices
    (fun v => dist (raw v) q) leaf draws fuel) := rfl
  clear_value ans
  generalize queryRow top scale n k nNeighbors indptr indices (fun v => dist (raw v) q)
    leaf draws fuel = r at *
  generalize (search top scale n k nNeighbors indptr indices (fun v => dist (raw v) q)
    leaf draws fuel).1 = s at *
  subst hansdef
  have hmem : ∀ x, x ∈ r → x ∈ s.heap := fun x hx => by
    rw [← Array.mem_toList_iff] at hx ⊢
    exact (Array.perm_iff_toList_perm.mp hperm).mem_iff.mp hx
  have hrsz : r.size = k := hperm.size_eq.trans hsz
  have hasz : (answerRow vo r).size = r.size := by simp [answerRow]
  have hans : ∀ j (hj : j < (answerRow vo r).size), (answerRow vo r)[j] =
      (translate vo (r[j]'(by omega)).idx, (r[j]'(by omega)).prio) := by
    intro j hj; simp [answerRow]
  have hneg := (translate_sentinel vo).2
  refine ⟨by rw [hasz, hrsz], ?_, ?_, ?_, ?_, ?_⟩
  · intro j hj h0
    have hjr : j < r.size := by omega
    rw [hans j hj] at h0 ⊢
    have hi0 : 0 ≤ r[j].idx := by
      apply Classical.byContradiction; intro hc
      have := ((hneg r[j].idx).1).mpr (by omega)
      simp only at h0; omega
    obtain ⟨hlt, _, hd, hfin⟩ := hreal _ (hmem _ (Array.getElem_mem hjr)) hi0
    obtain ⟨h1, h2⟩ := translate_truth dist data raw q vo hraw r[j].idx r[j].prio hi0
      (by omega) hd
    refine ⟨?_, h2, hfin⟩
    simp only [h1, Int.toNat_natCast]
    exact hvo_lt _ (Array.getElem_mem _)
  · intro j hj hlt
    have hjr : j < r.size := by omega
    rw [hans j hj] at hlt ⊢
    have hi : r[j].idx < 0 := ((hneg r[j].idx).1).mp hlt
    obtain ⟨_, hp⟩ := hsent _ (hmem _ (Array.getElem_mem hjr)) hi
    exact ⟨(hneg r[j].idx).2 hi, hp⟩
  · intro i j hi hj hij h0 heq
    have hir : i < r.size := by omega
    have hjr : j < r.size := by omega
    rw [hans i hi] at h0 heq
    rw [hans j hj] at heq
    simp only at h0 heq
    have hi0 : 0 ≤ r[i].idx := by
      apply Classical.byContradiction; intro hc
      have := ((hneg r[i].idx).1).mpr (by omega)
      omega
    have hj0 : 0 ≤ r[j].idx := by
      apply Classical.byContradiction; intro hc
      have := ((hneg r[j].idx).1).mpr (by omega)
      omega
    obtain ⟨hil, _⟩ := hreal _ (hmem _ (Array.getElem_mem hir)) hi0
    obtain ⟨hjl, _⟩ := hreal _ (hmem _ (Array.getElem_mem hjr)) hj0
    have hidx := translate_injective vo hvo_nd _ _ hi0 hj0 (by omega) (by omega) heq
    have hnd' : ((r.toList.filter (fun e => 0 ≤ e.idx)).map (·.idx)).Nodup :=
      (((Array.perm_iff_toList_perm.mp hperm).filter _).map _).nodup_iff.mpr hnd
    exact real_idx_distinct r.toList hnd' i j (by simpa using hir) (by simpa using hjr) hij
      (by simpa using hi0) (by simpa using hidx)
  · intro i j hi hj hij
    rw [hans i hi, hans j hj]
    exact hsorted i j (by omega) (by omega) hij
  · intro i j hi hj hij hlt
    rw [hans i hi] at hlt
    rw [hans j hj]
    exact ((hneg _).1).mpr (hlast i j (by omega) (by omega) hij (((hneg _).1).mp hlt))

/-- **Serial and parallel batches**: the batch answer is the map of the per-row function
over the rows' own `(distance table, leaf, generator values)`; no row reads anything a
sibling wrote.  Whatever generator values a row receives — the serial loop threads one
state through the rows, the parallel loop derives `state + i` — `search_sound` /
`query_sound` apply to it, so both modes are sound (that the real `prange` body touches
only row `i` of `result` and private tables is C05's footprint check). -/
theorem batch_rows_independent (top : P) (scale : P → P) (n k nNeighbors : Nat)
    (indptr indices : Array Nat) (fuel : Nat) (rows : List ((Nat → P) × List Nat × List Nat))
    (i : Nat) :
    (queryBatch top scale n k nNeighbors indptr indices fuel rows)[i]? =
      rows[i]?.map (fun r => queryRow top scale n k nNeighbors indptr indices r.1 r.2.1 r.2.2 fuel) := by
  simp [queryBatch]

/-- **Every row of a batch is sound**, whatever generator values each row received. -/
theorem batch_sound (top : P) (htop : ∀ x : P, x ≤ top) (scale : P → P) (n k nNeighbors : Nat)
    (indptr indices : Array Nat) (fuel : Nat) (rows : List ((Nat → P) × List Nat × List Nat))
    (hin : ∀ r ∈ rows, InputsOk n k indptr indices r.2.1 r.2.2) (i : Nat) (hi : i < rows.length) :
    ∃ out, (queryBatch top scale n k nNeighbors indptr indices fuel rows)[i]? = some out ∧
      out.size = k ∧
      (∀ e ∈ out, 0 ≤ e.idx → e.idx.toNat < n ∧ e.prio = rows[i].1 e.idx.toNat ∧ e.prio < top) ∧
      (∀ e ∈ out, e.idx < 0 → e.idx = -1 ∧ e.prio = top) ∧
      ((out.toList.filter (fun e => 0 ≤ e.idx)).map (·.idx)).Nodup ∧
      (∀ a b (ha : a < out.size) (hb : b < out.size), a ≤ b → out[a].prio ≤ out[b].prio) := by
  refine ⟨queryRow top scale n k nNeighbors indptr indices rows[i].1 rows[i].2.1 rows[i].2.2 fuel,
    by rw [batch_rows_independent, List.getElem?_eq_getElem hi]; rfl, ?_⟩
  obtain ⟨hsz, _, hreal, hsent, hnd, hperm, hsorted, _⟩ :=
    search_sound top htop scale n k nNeighbors indptr indices rows[i].1 rows[i].2.1 rows[i].2.2
      fuel (hin _ (List.getElem_mem hi))
  have hl := Array.perm_iff_toList_perm.mp hperm
  have hmem : ∀ x, x ∈ queryRow top scale n k nNeighbors indptr indices rows[i].1 rows[i].2.1
      rows[i].2.2 fuel → x ∈ (search top scale n k nNeighbors indptr indices rows[i].1 rows[i].2.1
      rows[i].2.2 fuel).1.heap := fun x hx => by
    rw [← Array.mem_toList_iff] at hx ⊢
    exact hl.mem_iff.mp hx
  refine ⟨hperm.size_eq.trans hsz, ?_, ?_, ?_, hsorted⟩
  · intro e he h0
    obtain ⟨h1, _, h2, h3⟩ := hreal e (hmem e he) h0
    exact ⟨h1, h2, h3⟩
  · intro e he h0
    exact hsent e (hmem e he) h0
  · exact ((hl.filter _).map _).nodup_iff.mpr hnd

/-- **A skipped query stays unanswered**: the row of a zero-norm query under the dense
angular surrogates consists of `k` sentinels `(-1, top)`, which the translation keeps. -/
theorem skipped_row (top : P) (k : Nat) (vo : Array Nat) :
    (skippedRow top k).size = k ∧ (∀ e ∈ skippedRow top k, e.idx = -1 ∧ e.prio = top) ∧
    ∀ x ∈ answerRow vo (skippedRow top k), x = (-1, top) := by
  have hperm := deheapSort_perm (mkRow top k)
  have hall : ∀ e ∈ skippedRow top k, e.idx = -1 ∧ e.prio = top := by
    intro e he
    have : e ∈ mkRow top k := by
      rw [← Array.mem_toList_iff] at he ⊢
      exact (Array.perm_iff_toList_perm.mp hperm).mem_iff.mp he
    simp only [mkRow, Array.mem_replicate] at this
    rw [this.2]; exact ⟨rfl, rfl⟩
  refine ⟨by rw [skippedRow, hperm.size_eq]; simp [mkRow], hall, ?_⟩
  intro x hx
  simp only [answerRow, Array.mem_map] at hx
  obtain ⟨e, he, rfl⟩ := hx
  obtain ⟨h1, h2⟩ := hall e he
  rw [h1, h2, (translate_sentinel vo).1]

/-! ## The translation before the repair (D5) fabricates a neighbour

`indices = self._vertex_order[indices]` sends the sentinel `-1` to `vo[n-1]`.  Two data
points at internal positions `0, 1` with caller rows `vo = [1, 0]`, distances `1, 2` from
the query, `k = 3`: the third slot was never filled, yet the old translation reports the
caller's row `0` (at distance `top`). -/
example : translateOld #[1, 0] (-1) = 0 ∧ translate #[1, 0] (-1) = -1 := by decide

example : ¬ ∀ (vo : Array Nat) (i : Int), i < 0 → translateOld vo i < 0 :=
  fun h => absurd (h #[1, 0] (-1) (by decide)) (by decide)

example :
    let r := queryRow (100 : Nat) id 2 3 3 #[0, 1, 2] #[1, 0] (fun v => [1, 2].getD v 100) [0, 1] [] 3
    r.toList.map (fun e => (e.idx, e.prio)) = [(0, 1), (1, 2), (-1, 100)] ∧
    (r.toList.map (fun e => (translateOld #[1, 0] e.idx, e.prio)))[2]? = some (0, 100) ∧
    (answerRow #[1, 0] r).toList = [(1, 1), (0, 2), (-1, 100)] := by decide +kernel

/-- **Answers are reachable from the seeds.**  Every filled slot of the result names a vertex that is one of the
leaf candidates, one of the random candidates actually drawn, or reachable from one of them along edges of the
search graph (`Reach`).  (What a search can return at all is bounded by the component structure of the graph —
"truth, not recall".) -/
theorem search_answers_reachable (top : P) (htop : ∀ x : P, x ≤ top) (scale : P → P) (n k nNeighbors : Nat)
    (indptr indices : Array Nat) (dq : Nat → P) (leaf draws : List Nat) (fuel : Nat)
    (hin : InputsOk n k indptr indices leaf draws) :
    ∀ e ∈ (search top scale n k nNeighbors indptr indices dq leaf draws fuel).1.heap, 0 ≤ e.idx →
      Reach indptr indices (leaf ++ draws.take (min k nNeighbors - leaf.length)) e.idx.toNat := by
  intro e he h0
  have hs := search_sound top htop scale n k nNeighbors indptr indices dq leaf draws fuel hin
  simp only at hs
  obtain ⟨_, _, hreal, _⟩ := hs
  exact (search_rinv top scale n k nNeighbors indptr indices dq leaf draws fuel).vis _ (hreal e he h0).2.1

/-! ## Non-vacuity: a concrete run

Path graph `0 – 1 – 2 – 3 – 4` plus the isolated pair `5 – 6`; distances `9 7 5 3 1 0 8`
(`P = Nat`, `top = 100`), leaf `[0]`, `k = 2`, `n_neighbors = 2`, one random candidate
(`1`; the spare draw `6` must not be consumed), `scale = id` (ε = 0).  The search walks
down the path to vertex 4; vertex 5 (distance 0, the true nearest neighbour) is never
reached — C02 promises truth, not recall.  The loop ends by its own condition within
fuel 7 = n. -/
example :
    let out := search (100 : Nat) id 7 2 2 #[0, 1, 3, 5, 7, 8, 9, 10] #[1, 0, 2, 1, 3, 2, 4, 3, 6, 5]
      (fun v => [9, 7, 5, 3, 1, 0, 8].getD v 100) [0] [1, 6] 7
    out.2 = true ∧ out.1.heap.toList.map (fun e => (e.idx, e.prio)) = [(3, 3), (4, 1)] ∧
    out.1.vis.toList = [true, true, true, true, true, false, false] := by decide +kernel

/-- … and its inputs satisfy the hypotheses of the theorems. -/
example : InputsOk 7 2 #[0, 1, 3, 5, 7, 8, 9, 10] #[1, 0, 2, 1, 3, 2, 4, 3, 6, 5] [0] [1, 6] :=
  ⟨by decide, by decide, by decide, by decide, by decide, by decide, by decide⟩

/-- `Reach` on that graph: vertex 4 (returned) is reachable from the seeds `[0, 1]` along `1 → 2 → 3 → 4`;
the isolated pair `5 – 6` is not adjacent to anything on the path (`nbrs` of the path vertices never contain 5). -/
example : Reach #[0, 1, 3, 5, 7, 8, 9, 10] #[1, 0, 2, 1, 3, 2, 4, 3, 6, 5] [0, 1] 4 :=
  .edge (.edge (.edge (.seed (by decide)) (by decide : 2 ∈ nbrs _ _ 1)) (by decide : 3 ∈ nbrs _ _ 2))
    (by decide : 4 ∈ nbrs _ _ 3)
example : ∀ u < 5, 5 ∉ nbrs #[0, 1, 3, 5, 7, 8, 9, 10] #[1, 0, 2, 1, 3, 2, 4, 3, 6, 5] u := by decide

/-! ## The generated visited-table kernels

`utils.has_been_visited` / `utils.mark_visited` keep one bit per vertex in a byte array (`table[c >> 3]`, bit
`c & 7`).  `Gen/Kernels.lean` holds their translation (regenerated from the source on every run; `>>`, `<<`, `&`,
`|` on non-negative ints go through `Nat`, a negative operand is `none`).  `visOf table` is the model's
`Array Bool` table read off the bytes. -/

/-- **`has_been_visited` is the model's `visited`.**  For a vertex `c` whose byte exists (`c / 8 < len(table)`)
and a table of non-negative bytes, the translated kernel reads inside the table and returns a non-zero value
iff the model's table says "visited". -/
theorem kernel_has_been_visited_refines (table : Array Int) (c : Nat) (fuel : Nat) (hc : c / 8 < table.size)
    (hb : ∀ j (h : j < table.size), 0 ≤ table[j]) :
    ∃ r, GenK.has_been_visited fuel table (c : Int) = some r ∧ (r ≠ 0 ↔ visited (visOf table) c = true) := by
  obtain ⟨r, h1, h2⟩ := has_been_visited_refines table c fuel hc hb
  exact ⟨r, h1, by rw [visited_visOf]; exact h2⟩

/-- **`mark_visited` is the model's `mark`**: it stays inside the table, sets the bit of `c` and no other
(`visOf table' = mark (visOf table) c`), and bytes stay bytes (`< 2^8`, non-negative). -/
theorem kernel_mark_visited_refines (table : Array Int) (c : Nat) (fuel : Nat) (hc : c / 8 < table.size)
    (hb : ∀ j (h : j < table.size), 0 ≤ table[j]) (hB : ∀ j (h : j < table.size), table[j] < 2 ^ 8) :
    ∃ table', GenK.mark_visited fuel table (c : Int) = some table' ∧ table'.size = table.size ∧
      (∀ j (h : j < table'.size), 0 ≤ table'[j] ∧ table'[j] < 2 ^ 8) ∧
      visOf table' = mark (visOf table) c := by
  obtain ⟨t', h1, h2, h3, h4, h5⟩ := mark_visited_refines table c fuel hc hb
  exact ⟨t', h1, h2, fun j h => ⟨h3 j h, h4 8 hB (by omega) j h⟩, visOf_mark table t' c h2 hc h5⟩

/-- a vertex outside the table (`c / 8 ≥ len(table)`) makes both kernels read out of bounds: the search's
`visited = np.zeros((n // 8) + 1)` is what keeps every `c < n` inside -/
theorem kernel_visited_out_of_table (table : Array Int) (c : Nat) (fuel : Nat) (hc : table.size ≤ c / 8) :
    GenK.has_been_visited fuel table (c : Int) = none ∧ GenK.mark_visited fuel table (c : Int) = none := by
  have e3 : (3 : Int) = ((3 : Nat) : Int) := rfl
  have e7 : (7 : Int) = ((7 : Nat) : Int) := rfl
  have e1 : (1 : Int) = ((1 : Nat) : Int) := rfl
  have hs : c >>> 3 = c / 8 := by rw [Nat.shiftRight_eq_div_pow]
  have hr : GenK.rd table ((c / 8 : Nat) : Int) = none := by simp [GenK.rd]; omega
  constructor
  · unfold GenK.has_been_visited
    simp only [e3, e7, e1, shr_nat, shl_nat, band_nat, Option.bind_eq_bind, Option.bind_some, hs, hr, Option.bind_none]
  · unfold GenK.mark_visited
    simp only [e3, e7, e1, shr_nat, shl_nat, band_nat, Option.bind_eq_bind, Option.bind_some, hs, hr, Option.bind_none]

/-- generated kernels executed by the Lean kernel: vertex 10 is bit 2 of byte 1 -/
example : GenK.mark_visited 0 #[0, 0] 10 = some #[0, 4] ∧ GenK.has_been_visited 0 #[0, 4] 10 = some 4 ∧
    GenK.has_been_visited 0 #[0, 4] 11 = some 0 ∧ GenK.mark_visited 0 #[255, 4] 3 = some #[255, 4] ∧
    GenK.has_been_visited 0 #[0, 4] 16 = none := by decide +kernel

end Pynn.C02
