import PynnVerif.Proofs.Metrics
import PynnVerif.Props.C07b
import PynnVerif.Proofs.GenMetrics

/-!
# C07 — every dense metric computes its documented definition

Property theorems only (model of the kernels, following their loop and branch structure:
`Model/Metrics.lean`; helpers: `Proofs/Metrics.lean`).  Per metric, over `ℝ`:

* `…_spec`     the modelled kernel equals a declarative formula (list sums; `IsGreatest` for the
               maximum), on the documented domain, the explicit degenerate branches included;
* `…_symm`     the value is unchanged when the arguments are swapped;
* `…_self`     identical inputs give `0` (`1` for `true_angular` on a non-zero vector — it is
               similarity-like; the zero-vector branches are stated);
* `…_defined`  every partial operation the kernel reaches is used inside its domain: the divisor is
               non-zero, the argument of `sqrt` is `≥ 0`, of `arccos` in `[-1,1]` — established by
               the code's own branches / clamps (Mathlib totalises `x/0`, `√(-1)`, `arccos 2`; no
               theorem below relies on that).
Vectors are `List ℝ`; "equal length" (`x.length = y.length`) is stated where it is used.

The theorems are about the kernels' arithmetic on exact numbers.  Float rounding is outside them:
`harness/c07.py` compares the real numba kernels with float64 references under a tolerance, and
`harness/c07_model.py` ties this model (executed over `Float` by the driver) to the same kernels.

REACHED (all four clauses unless noted): euclidean, squared_euclidean, manhattan, chebyshev,
minkowski, cosine, dot, true_angular, correlation, hellinger, hamming, jaccard, dice, matching
(binary family: identities over the counts for every dimension + the count symmetries), canberra,
bray_curtis; the clamp of `hellinger` (`hellinger_clamp_defined`).

Also over the counts (formula, positive divisor under the guard, range, degenerate branch,
symmetry, identical inputs): kulsinski, rogers_tanimoto (= sokal_michener), sokal_sneath,
russellrao, yule.
NOT MODELLED (harness `c07.py` only): standardised_euclidean, weighted_minkowski, mahalanobis,
haversine, tsss, spearmanr, jensen_shannon, symmetric_kl, wasserstein_1d, circular_kantorovich,
kantorovich, sinkhorn, bit_hamming, bit_jaccard.
NOT DONE: the `RArith` "guardedness under rounding" formulation of DESIGN C07 (metrics returning
`Option α` over an axiomatised rounding arithmetic) — only the instance that matters most,
`hellinger_clamp_defined`, is stated (for *any* value of the quotient); the relation of
euclidean / manhattan / chebyshev to Mathlib's `dist` on `EuclideanSpace` / `PiLp` (the specs are
self-contained list formulas instead); `decide` over all 0/1 pairs of dim ≤ 4 for the count
extraction (the harness enumerates them on the real kernels).
Recorded finding kept as is: `true_angular` returns the sentinel `FLOAT32_MAX` for `⟨x,y⟩ ≤ 0`
(`true_angular_sentinel_region`); `true_angular_spec` excludes that region by hypothesis.
-/
namespace Pynn.C07
open Pynn.Metrics

/-! ## accumulators -/

/-- `Σ xᵢyᵢ`, `Σ xᵢ²`, `Σ xᵢ` — the loops are the sums they look like. -/
theorem accumulators_spec (x y : List ℝ) :
    dotProd x y = (List.zipWith (fun a b => a * b) x y).sum ∧
    normSq x = (x.map (fun v => v ^ 2)).sum ∧ l1 x = x.sum := by
  refine ⟨by unfold dotProd; rw [sumBy_real], ?_, ?_⟩
  · unfold normSq; rw [sum1_real]
    have : (fun v : ℝ => v ^ 2) = fun v => v * v := by funext v; ring
    rw [this]
  · unfold l1; rw [sum1_real]; simp

/-! ## euclidean, squared_euclidean -/

theorem squared_euclidean_spec (x y : List ℝ) :
    squaredEuclidean x y = (List.zipWith (fun a b => (a - b) ^ 2) x y).sum := by
  rw [squaredEuclidean_real]
  have : (fun a b : ℝ => (a - b) ^ 2) = fun a b => (a - b) * (a - b) := by funext a b; ring
  rw [this]

theorem squared_euclidean_symm (x y : List ℝ) : squaredEuclidean x y = squaredEuclidean y x :=
  sumBy_comm sqDiff (fun a b => by unfold sqDiff; arith_norm; ring) x y

theorem squared_euclidean_self (x : List ℝ) : squaredEuclidean x x = 0 := by
  unfold squaredEuclidean
  rw [sumBy_self]
  exact sum1_eq_zero _ x (fun a _ => by unfold sqDiff; arith_norm; ring)

/-- `D(x,y) = √(Σ (xᵢ − yᵢ)²)` (the docstring). -/
theorem euclidean_spec (x y : List ℝ) :
    euclidean x y = Real.sqrt ((List.zipWith (fun a b => (a - b) ^ 2) x y).sum) := by
  rw [euclidean_real, squared_euclidean_spec]

theorem euclidean_symm (x y : List ℝ) : euclidean x y = euclidean y x := by
  rw [euclidean_real, euclidean_real, squared_euclidean_symm]

theorem euclidean_self (x : List ℝ) : euclidean x x = 0 := by
  rw [euclidean_real, squared_euclidean_self, Real.sqrt_zero]

/-- the argument of `np.sqrt` is a sum of squares, `≥ 0`. -/
theorem euclidean_defined (x y : List ℝ) : 0 ≤ squaredEuclidean x y := squaredEuclidean_nonneg x y

/-! ## manhattan -/

/-- `D(x,y) = Σ |xᵢ − yᵢ|` (the docstring). -/
theorem manhattan_spec (x y : List ℝ) :
    manhattan x y = (List.zipWith (fun a b => |a - b|) x y).sum := manhattan_real x y

theorem manhattan_symm (x y : List ℝ) : manhattan x y = manhattan y x := by
  rw [manhattan_real, manhattan_real, List.zipWith_comm_of_comm (fun a b => abs_sub_comm a b)]

theorem manhattan_self (x : List ℝ) : manhattan x x = 0 := by
  rw [manhattan_real, List.zipWith_self]
  apply List.sum_eq_zero
  intro v hv
  obtain ⟨a, _, rfl⟩ := List.mem_map.1 hv
  simp

/-! ## chebyshev -/

/-- `D(x,y) = maxᵢ |xᵢ − yᵢ|` (the docstring; `0` for dimension 0): the running maximum from `0.0`
is the greatest element of `{0} ∪ {|xᵢ − yᵢ|}`. -/
theorem chebyshev_spec (x y : List ℝ) :
    IsGreatest (insert 0 {v | v ∈ List.zipWith (fun a b => |a - b|) x y}) (chebyshev x y) := by
  rw [chebyshev_real]
  constructor
  · rcases foldl_max_mem (List.zipWith (fun a b => |a - b|) x y) 0 with h | h
    · rw [h]; exact Set.mem_insert _ _
    · exact Set.mem_insert_of_mem _ h
  · rintro v (rfl | hv)
    · exact foldl_max_ge_init _ _
    · exact foldl_max_ge_mem _ _ v hv

theorem chebyshev_symm (x y : List ℝ) : chebyshev x y = chebyshev y x := by
  rw [chebyshev_real, chebyshev_real, List.zipWith_comm_of_comm (fun a b => abs_sub_comm a b)]

theorem chebyshev_self (x : List ℝ) : chebyshev x x = 0 := by
  rw [chebyshev_real, List.zipWith_self]
  rcases foldl_max_mem (x.map fun a => |a - a|) 0 with h | h
  · exact h
  · obtain ⟨a, _, ha⟩ := List.mem_map.1 h
    rw [← ha]; simp

/-! ## minkowski -/

/-- `D(x,y) = (Σ |xᵢ − yᵢ|^p)^(1/p)` (the docstring), real powers. -/
theorem minkowski_spec (x y : List ℝ) (p : ℝ) :
    minkowski x y p = (List.zipWith (fun a b => |a - b| ^ p) x y).sum ^ (1 / p) :=
  minkowski_real x y p

theorem minkowski_symm (x y : List ℝ) (p : ℝ) : minkowski x y p = minkowski y x p := by
  rw [minkowski_real, minkowski_real,
    List.zipWith_comm_of_comm (fun a b => by rw [abs_sub_comm])]

theorem minkowski_self (x : List ℝ) (p : ℝ) (hp : p ≠ 0) : minkowski x x p = 0 := by
  rw [minkowski_real, List.zipWith_self]
  have : ((x.map fun a => |a - a| ^ p)).sum = 0 := by
    apply List.sum_eq_zero
    intro v hv
    obtain ⟨a, _, rfl⟩ := List.mem_map.1 hv
    simp [Real.zero_rpow hp]
  rw [this, Real.zero_rpow (one_div_ne_zero hp)]

/-- with `p ≠ 0` (documented: `p ≥ 1`) the division `1.0 / p` is defined and both powers have a
non-negative base (no complex-valued `**`). -/
theorem minkowski_defined (x y : List ℝ) (p : ℝ) :
    (∀ v ∈ List.zipWith (fun a b => |a - b|) x y, 0 ≤ v) ∧
    0 ≤ (List.zipWith (fun a b => |a - b| ^ p) x y).sum := by
  constructor
  · intro v hv
    obtain ⟨q, _, rfl⟩ := List.mem_map.1
      (List.map_uncurry_zip_eq_zipWith (f := fun a b : ℝ => |a - b|) ▸ hv)
    exact abs_nonneg _
  · apply List.sum_nonneg
    intro v hv
    obtain ⟨q, _, rfl⟩ := List.mem_map.1
      (List.map_uncurry_zip_eq_zipWith (f := fun a b : ℝ => |a - b| ^ p) ▸ hv)
    exact Real.rpow_nonneg (abs_nonneg _) _

/-! ## cosine -/

/-- `1 − ⟨x,y⟩ / (‖x‖‖y‖)` for non-zero vectors; `0` for two zero vectors, `1` for exactly one. -/
theorem cosine_spec (x y : List ℝ) :
    (normSq x ≠ 0 → normSq y ≠ 0 →
      cosine x y = 1 - dotProd x y / (Real.sqrt (normSq x) * Real.sqrt (normSq y))) ∧
    (normSq x = 0 → normSq y = 0 → cosine x y = 0) ∧
    (normSq x = 0 → normSq y ≠ 0 → cosine x y = 1) ∧
    (normSq x ≠ 0 → normSq y = 0 → cosine x y = 1) := by
  refine ⟨fun hx hy => ?_, fun hx hy => ?_, fun hx hy => ?_, fun hx hy => ?_⟩
  · rw [cosine_live hx hy, cosSim, Real.sqrt_mul (normSq_nonneg x)]
  · rw [cosine_real, if_pos ⟨hx, hy⟩]
  · rw [cosine_real, if_neg (fun h => hy h.2), if_pos (Or.inl hx)]
  · rw [cosine_real, if_neg (fun h => hx h.1), if_pos (Or.inr hy)]

/-- for vectors of equal length the value lies in `[0, 2]` (Cauchy–Schwarz). -/
theorem cosine_range (x y : List ℝ) (hl : x.length = y.length) : 0 ≤ cosine x y ∧ cosine x y ≤ 2 := by
  rw [cosine_real]
  split_ifs with h0 h1
  · exact ⟨le_rfl, by norm_num⟩
  · exact ⟨by norm_num, by norm_num⟩
  · have hx : 0 < normSq x := lt_of_le_of_ne (normSq_nonneg x) (fun h => h1 (Or.inl h.symm))
    have hy : 0 < normSq y := lt_of_le_of_ne (normSq_nonneg y) (fun h => h1 (Or.inr h.symm))
    have hs := sqrt_norms_pos hx hy
    have hcs := dotProd_sq_le x y hl
    have habs : |dotProd x y| ≤ Real.sqrt (normSq x * normSq y) :=
      Real.abs_le_sqrt hcs
    have h2 : |dotProd x y / Real.sqrt (normSq x * normSq y)| ≤ 1 := by
      rw [abs_div, abs_of_pos hs, div_le_one hs]; exact habs
    have := abs_le.1 h2
    constructor <;> linarith

theorem cosine_symm (x y : List ℝ) : cosine x y = cosine y x := by
  have h1 : (normSq x = 0 ∧ normSq y = 0) ↔ (normSq y = 0 ∧ normSq x = 0) := and_comm
  have h2 : (normSq x = 0 ∨ normSq y = 0) ↔ (normSq y = 0 ∨ normSq x = 0) := or_comm
  rw [cosine_real, cosine_real, dotProd_comm x y, mul_comm (normSq x)]
  simp only [h1, h2]

/-- identical inputs give `0` — the zero vector through the first branch. -/
theorem cosine_self (x : List ℝ) : cosine x x = 0 := by
  rw [cosine_real]
  split_ifs with h0 h1
  · rfl
  · exact absurd ⟨h1.elim id id, h1.elim id id⟩ h0
  · have hx : 0 < normSq x := lt_of_le_of_ne (normSq_nonneg x) (fun h => h1 (Or.inl h.symm))
    rw [dotProd_self, Real.sqrt_mul_self hx.le, div_self hx.ne', sub_self]

/-- in the branch that divides, `norm_x * norm_y > 0`: the square root is of a positive number and
the divisor is non-zero. -/
theorem cosine_defined (x y : List ℝ) (h : ¬ (normSq x = 0 ∨ normSq y = 0)) :
    0 < normSq x * normSq y ∧ Real.sqrt (normSq x * normSq y) ≠ 0 := by
  have hx : 0 < normSq x := lt_of_le_of_ne (normSq_nonneg x) (fun h' => h (Or.inl h'.symm))
  have hy : 0 < normSq y := lt_of_le_of_ne (normSq_nonneg y) (fun h' => h (Or.inr h'.symm))
  exact ⟨mul_pos hx hy, (sqrt_norms_pos hx hy).ne'⟩

/-! ## dot (unit-norm input) -/

/-- `1 − max(⟨x,y⟩, 0)`: `1 − ⟨x,y⟩` clamped at `1`. -/
theorem dot_spec (x y : List ℝ) : dot x y = 1 - max (dotProd x y) 0 := by
  rw [dot_real]
  split_ifs with h
  · rw [max_eq_right h, sub_zero]
  · rw [max_eq_left (not_le.1 h).le]

theorem dot_symm (x y : List ℝ) : dot x y = dot y x := by
  rw [dot_real, dot_real, dotProd_comm]

/-- identical *unit-norm* inputs give `0` (the library normalises the data for this metric). -/
theorem dot_self (x : List ℝ) (h : normSq x = 1) : dot x x = 0 := by
  rw [dot_real, dotProd_self, h, if_neg (by norm_num), sub_self]

/-! ## true_angular (similarity-like) -/

/-- On `⟨x,y⟩ > 0`, equal lengths: `1 − θ/π` with `θ = arccos(⟨x,y⟩/(‖x‖‖y‖))` — the clamp
`min(·, 1)` is inactive over `ℝ` (Cauchy–Schwarz).  The region `⟨x,y⟩ ≤ 0` is excluded: there the
kernel returns the sentinel `FLOAT32_MAX` (`true_angular_sentinel_region`), a recorded finding. -/
theorem true_angular_spec (x y : List ℝ) (hl : x.length = y.length) (h : 0 < dotProd x y) :
    trueAngular x y =
      1 - Real.arccos (dotProd x y / (Real.sqrt (normSq x) * Real.sqrt (normSq y))) / Real.pi := by
  rw [trueAngular_live h, min_eq_left (cosSim_le_one hl h), cosSim, Real.sqrt_mul (normSq_nonneg x)]

/-- what the code does outside: two zero vectors `0`; otherwise (`⟨x,y⟩ ≤ 0`, which includes exactly
one zero vector) `FLOAT32_MAX`. -/
theorem true_angular_sentinel_region (x y : List ℝ) :
    (normSq x = 0 ∧ normSq y = 0 → trueAngular x y = 0) ∧
    (¬ (normSq x = 0 ∧ normSq y = 0) → dotProd x y ≤ 0 → trueAngular x y = (f32maxNat : ℝ)) := by
  refine ⟨fun h0 => by rw [trueAngular_real, if_pos h0], fun h0 h => ?_⟩
  rw [trueAngular_real, if_neg h0]
  split_ifs <;> rfl

theorem true_angular_symm (x y : List ℝ) : trueAngular x y = trueAngular y x := by
  have h1 : (normSq x = 0 ∧ normSq y = 0) ↔ (normSq y = 0 ∧ normSq x = 0) := and_comm
  have h2 : (normSq x = 0 ∨ normSq y = 0) ↔ (normSq y = 0 ∨ normSq x = 0) := or_comm
  rw [trueAngular_real, trueAngular_real, dotProd_comm x y, mul_comm (normSq x)]
  simp only [h1, h2]

/-- identical non-zero inputs give the closest value `1`; the zero vector gives `0`. -/
theorem true_angular_self (x : List ℝ) :
    (normSq x ≠ 0 → trueAngular x x = 1) ∧ (normSq x = 0 → trueAngular x x = 0) := by
  refine ⟨fun hx => ?_, fun hx => by rw [trueAngular_real, if_pos ⟨hx, hx⟩]⟩
  have hx' : 0 < normSq x := lt_of_le_of_ne (normSq_nonneg x) hx.symm
  have hd : 0 < dotProd x x := by rw [dotProd_self]; exact hx'
  rw [trueAngular_live hd, cosSim, dotProd_self, Real.sqrt_mul_self hx'.le, div_self hx,
    min_self, Real.arccos_one, zero_div, sub_zero]

/-- in the last branch the argument of `arccos` is in `[-1, 1]` whatever the quotient is
(`min(·, 1)` from above, `⟨x,y⟩ > 0` from below), the square root is of a positive number and the
two divisors (`√…`, `π`) are non-zero. -/
theorem true_angular_defined (x y : List ℝ) (h : 0 < dotProd x y) :
    0 < normSq x * normSq y ∧ Real.sqrt (normSq x * normSq y) ≠ 0 ∧ Real.pi ≠ 0 ∧
    -1 ≤ min (cosSim x y) 1 ∧ min (cosSim x y) 1 ≤ 1 := by
  have hx := normSq_pos_left h; have hy := normSq_pos_right h
  refine ⟨mul_pos hx hy, (sqrt_norms_pos hx hy).ne', Real.pi_ne_zero, ?_, min_le_right _ _⟩
  have := cosSim_pos h
  exact le_min (by linarith) (by norm_num)

/-! ## correlation -/

/-- `correlation x y` is `cosine` of the centred vectors (both means taken over `x.shape[0]`
coordinates): in particular `0` when both are constant and `1` when exactly one is (the branch
`dot_product == 0` covers it, because a constant vector centres to zero). -/
theorem correlation_spec (x y : List ℝ) :
    correlation x y =
      cosine (x.map (fun v => v - l1 x / (x.length : ℝ))) (y.map (fun v => v - l1 y / (x.length : ℝ))) := by
  rw [correlation_real, cosine_real]
  have hnx : ∀ (z : List ℝ) (m : ℝ),
      sum1 (fun v => (v - m) * (v - m)) z = normSq (z.map (fun v => v - m)) := by
    intro z m; unfold normSq; rw [sum1_real, sum1_real, List.map_map]; rfl
  have hd : ∀ (m m' : ℝ), sumBy (fun a b => (a - m) * (b - m')) x y =
      dotProd (x.map (fun v => v - m)) (y.map (fun v => v - m')) := by
    intro m m'; unfold dotProd; rw [sumBy_real, sumBy_real, List.zipWith_map]
  simp only [hnx, hd]
  set X := x.map (fun v => v - l1 x / (x.length : ℝ))
  set Y := y.map (fun v => v - l1 y / (x.length : ℝ))
  by_cases h0 : normSq X = 0 ∧ normSq Y = 0
  · rw [if_pos h0, if_pos h0]
  · rw [if_neg h0, if_neg h0]
    by_cases hdot : dotProd X Y = 0
    · rw [if_pos hdot]
      split_ifs
      · rfl
      · rw [hdot, zero_div, sub_zero]
    · rw [if_neg hdot, if_neg]
      rintro (h | h)
      · exact hdot (dotProd_eq_zero_of_normSq_left h)
      · exact hdot (dotProd_eq_zero_of_normSq_right h)

theorem correlation_symm (x y : List ℝ) (hl : x.length = y.length) :
    correlation x y = correlation y x := by
  rw [correlation_spec, correlation_spec, cosine_symm, hl]

theorem correlation_self (x : List ℝ) : correlation x x = 0 := by
  rw [correlation_spec, cosine_self]

/-- the branch that divides is reached only with `dot_product ≠ 0`, and then both centred norms are
positive: the guard `dot_product == 0.0` dominates the division (exact arithmetic). -/
theorem correlation_defined (x y : List ℝ) (mx my : ℝ)
    (h : sumBy (fun a b => (a - mx) * (b - my)) x y ≠ 0) :
    0 < sum1 (fun v => (v - mx) * (v - mx)) x * sum1 (fun v => (v - my) * (v - my)) y := by
  have hnx : ∀ (z : List ℝ) (m : ℝ),
      sum1 (fun v => (v - m) * (v - m)) z = normSq (z.map (fun v => v - m)) := by
    intro z m; unfold normSq; rw [sum1_real, sum1_real, List.map_map]; rfl
  have hd : sumBy (fun a b => (a - mx) * (b - my)) x y =
      dotProd (x.map (fun v => v - mx)) (y.map (fun v => v - my)) := by
    unfold dotProd; rw [sumBy_real, sumBy_real, List.zipWith_map]
  rw [hnx, hnx]
  rw [hd] at h
  apply mul_pos
  · exact lt_of_le_of_ne (normSq_nonneg _) (fun h0 => h (dotProd_eq_zero_of_normSq_left h0.symm))
  · exact lt_of_le_of_ne (normSq_nonneg _) (fun h0 => h (dotProd_eq_zero_of_normSq_right h0.symm))

/-! ## hellinger (non-negative vectors) -/

/-- `√(1 − Σ√(xᵢyᵢ)/√(Σx Σy))` for non-negative vectors of equal length with positive masses — the
clamp `max(·, 0)` is inactive over `ℝ` (Cauchy–Schwarz); `0` for two zero-mass vectors, `1` for
exactly one. -/
theorem hellinger_spec (x y : List ℝ) (hl : x.length = y.length)
    (hx : ∀ a ∈ x, 0 ≤ a) (hy : ∀ a ∈ y, 0 ≤ a) :
    (l1 x ≠ 0 → l1 y ≠ 0 →
      hellinger x y = Real.sqrt (1 - hellingerSum x y / Real.sqrt (l1 x * l1 y))) ∧
    (l1 x = 0 → l1 y = 0 → hellinger x y = 0) ∧
    (l1 x = 0 → l1 y ≠ 0 → hellinger x y = 1) ∧
    (l1 x ≠ 0 → l1 y = 0 → hellinger x y = 1) := by
  refine ⟨fun h1 h2 => ?_, fun h1 h2 => ?_, fun h1 h2 => ?_, fun h1 h2 => ?_⟩
  · rw [hellinger_live h1 h2, hellSim, max_eq_left]
    have hx' : 0 < l1 x := lt_of_le_of_ne (l1_nonneg hx) h1.symm
    have hy' : 0 < l1 y := lt_of_le_of_ne (l1_nonneg hy) h2.symm
    rw [sub_nonneg, div_le_one (Real.sqrt_pos.2 (mul_pos hx' hy'))]
    exact hellingerSum_le hl hx hy
  · rw [hellinger_real, if_pos ⟨h1, h2⟩]
  · rw [hellinger_real, if_neg (fun h => h2 h.2), if_pos (Or.inl h1)]
  · rw [hellinger_real, if_neg (fun h => h1 h.1), if_pos (Or.inr h2)]

theorem hellinger_symm (x y : List ℝ) : hellinger x y = hellinger y x := by
  have h1 : (l1 x = 0 ∧ l1 y = 0) ↔ (l1 y = 0 ∧ l1 x = 0) := and_comm
  have h2 : (l1 x = 0 ∨ l1 y = 0) ↔ (l1 y = 0 ∨ l1 x = 0) := or_comm
  rw [hellinger_real, hellinger_real, hellingerSum_comm x y, mul_comm (l1 x)]
  simp only [h1, h2]

theorem hellinger_self (x : List ℝ) (hx : ∀ a ∈ x, 0 ≤ a) : hellinger x x = 0 := by
  rw [hellinger_real]
  split_ifs with h0 h1
  · rfl
  · exact absurd ⟨h1.elim id id, h1.elim id id⟩ h0
  · have hx' : 0 < l1 x := lt_of_le_of_ne (l1_nonneg hx) (fun h => h1 (Or.inl h.symm))
    have hs : hellingerSum x x = l1 x := by
      unfold hellingerSum l1
      rw [sumBy_self, sum1_real, sum1_real]
      congr 1
      apply List.map_congr_left
      intro a ha
      arith_norm
      exact Real.sqrt_mul_self (hx a ha)
    rw [hs, Real.sqrt_mul_self hx'.le, div_self hx'.ne', sub_self, max_self, Real.sqrt_zero]

/-- **the clamp**: whatever value `q` the quotient `result / √(l1_norm_x·l1_norm_y)` takes (over `ℝ`
it is `≤ 1`; in float32 it can round above `1`, which made the unclamped kernel return NaN for
identical inputs), the argument of the outer `np.sqrt` is `≥ 0`; and for `q ≥ 1` the result is `0`. -/
theorem hellinger_clamp_defined (q : ℝ) :
    0 ≤ max (1 - q) 0 ∧ (1 ≤ q → Real.sqrt (max (1 - q) 0) = 0) :=
  ⟨le_max_right _ _, fun h => by rw [max_eq_right (by linarith), Real.sqrt_zero]⟩

/-- on non-negative vectors every inner `np.sqrt(x[i]*y[i])` has a non-negative argument, and in the
branch that divides `l1_norm_x * l1_norm_y > 0`. -/
theorem hellinger_defined (x y : List ℝ) (hx : ∀ a ∈ x, 0 ≤ a) (hy : ∀ a ∈ y, 0 ≤ a) :
    (∀ p ∈ x.zip y, 0 ≤ p.1 * p.2) ∧
    (¬ (l1 x = 0 ∨ l1 y = 0) → 0 < l1 x * l1 y ∧ Real.sqrt (l1 x * l1 y) ≠ 0) := by
  refine ⟨fun p hp => mul_nonneg (hx _ (List.of_mem_zip hp).1) (hy _ (List.of_mem_zip hp).2),
    fun h => ?_⟩
  have hx' : 0 < l1 x := lt_of_le_of_ne (l1_nonneg hx) (fun h' => h (Or.inl h'.symm))
  have hy' : 0 < l1 y := lt_of_le_of_ne (l1_nonneg hy) (fun h' => h (Or.inr h'.symm))
  exact ⟨mul_pos hx' hy', (Real.sqrt_pos.2 (mul_pos hx' hy')).ne'⟩

/-! ## canberra, bray_curtis -/

/-- `Σ |xᵢ − yᵢ| / (|xᵢ| + |yᵢ|)`, a `0/0` term counting `0` (the kernel's guard). -/
theorem canberra_spec (x y : List ℝ) : canberra x y =
    (List.zipWith (fun a b => if 0 < |a| + |b| then |a - b| / (|a| + |b|) else 0) x y).sum :=
  canberra_real x y

theorem canberra_symm (x y : List ℝ) : canberra x y = canberra y x := by
  rw [canberra_real, canberra_real,
    List.zipWith_comm_of_comm (fun a b => by rw [add_comm |a|, abs_sub_comm])]

theorem canberra_self (x : List ℝ) : canberra x x = 0 := by
  rw [canberra_real, List.zipWith_self]
  apply List.sum_eq_zero
  intro v hv
  obtain ⟨a, _, rfl⟩ := List.mem_map.1 hv
  simp

/-- `Σ|xᵢ − yᵢ| / Σ|xᵢ + yᵢ|`, `0` when the denominator is `0` (the kernel's guard; scipy: nan). -/
theorem bray_curtis_spec (x y : List ℝ) : brayCurtis x y =
    if 0 < (List.zipWith (fun a b => |a + b|) x y).sum
    then (List.zipWith (fun a b => |a - b|) x y).sum / (List.zipWith (fun a b => |a + b|) x y).sum
    else 0 := by
  rw [brayCurtis_real, sumBy_real, sumBy_real]

theorem bray_curtis_symm (x y : List ℝ) : brayCurtis x y = brayCurtis y x := by
  rw [brayCurtis_real, brayCurtis_real,
    sumBy_comm (fun a b => |a + b|) (fun a b => by rw [add_comm]) x y,
    sumBy_comm (fun a b => |a - b|) (fun a b => abs_sub_comm a b) x y]

theorem bray_curtis_self (x : List ℝ) : brayCurtis x x = 0 := by
  rw [brayCurtis_real]
  have : sumBy (fun a b => |a - b|) x x = 0 := by
    rw [sumBy_self]; exact sum1_eq_zero _ x (fun a _ => by simp)
  rw [this, zero_div, ite_self]

/-- both kernels divide only under their guard `denominator > 0` (`canberra`: per coordinate, see
`canberra_spec`; `bray_curtis`: once): the divisor is non-zero whenever a division happens. -/
theorem ratio_kernels_defined (d : ℝ) (h : 0 < d) : d ≠ 0 := h.ne'

/-! ## hamming and the binary family, over the counts (every dimension) -/

/-- `hamming`: the fraction of coordinates with `x[i] != y[i]`; in `[0,1]` for `dim > 0`, which is
also what makes the division defined. -/
theorem hamming_spec (x y : List ℝ) (hl : x.length = y.length) (hn : 0 < x.length) :
    hamming x y = (numDiffer x y : ℝ) / (x.length : ℝ) ∧ (x.length : ℝ) ≠ 0 ∧
    0 ≤ hamming x y ∧ hamming x y ≤ 1 := by
  have h : hamming x y = (numDiffer x y : ℝ) / (x.length : ℝ) := by
    unfold hamming hammingOfCounts; arith_norm
  have hn' : (0 : ℝ) < (x.length : ℝ) := by exact_mod_cast hn
  have hle : (numDiffer x y : ℝ) ≤ (x.length : ℝ) := by exact_mod_cast numDiffer_le_length x y hl
  refine ⟨h, hn'.ne', by rw [h]; positivity, by rw [h, div_le_one hn']; exact hle⟩

theorem hamming_symm (x y : List ℝ) (hl : x.length = y.length) : hamming x y = hamming y x := by
  unfold hamming; rw [numDiffer_comm x y, hl]

theorem hamming_self (x : List ℝ) : hamming x x = 0 := by
  unfold hamming hammingOfCounts; rw [numDiffer_self]; arith_norm; simp

/-- the counts are symmetric and, on identical inputs, `|x∧x| = |x∨x|`, `|x△x| = 0`; always
`|x∧y| ≤ |x∨y| = |x∧y| + |x△y|`. -/
theorem counts_symm_self (x y : List ℝ) :
    numNonZero y x = numNonZero x y ∧ numTrueTrue y x = numTrueTrue x y ∧
    numNotEqual y x = numNotEqual x y ∧
    numTrueTrue x x = numNonZero x x ∧ numNotEqual x x = 0 ∧
    numTrueTrue x y ≤ numNonZero x y ∧ numNonZero x y = numTrueTrue x y + numNotEqual x y :=
  ⟨numNonZero_comm x y, numTrueTrue_comm x y, numNotEqual_comm x y, numTrueTrue_self x,
   numNotEqual_self x, numTrueTrue_le_numNonZero x y, numNonZero_eq x y⟩

/-- `jaccard` over the counts `n = |x∨y|`, `e = |x∧y| ≤ n`: `1 − e/n` (in `[0,1]`) for a non-empty
union — the guard is exactly what the division needs —, `0` for two empty supports, `0` when
`e = n` (identical supports). -/
theorem jaccard_counts (n e : ℕ) (hen : e ≤ n) :
    (0 < n → jaccardOfCounts (n : ℝ) (e : ℝ) = 1 - (e : ℝ) / n ∧ (n : ℝ) ≠ 0 ∧
      0 ≤ jaccardOfCounts (n : ℝ) (e : ℝ) ∧ jaccardOfCounts (n : ℝ) (e : ℝ) ≤ 1) ∧
    jaccardOfCounts (0 : ℝ) (0 : ℝ) = 0 ∧ jaccardOfCounts (n : ℝ) (n : ℝ) = 0 := by
  refine ⟨fun hn => ?_, by rw [jaccardOfCounts_real, if_pos rfl], ?_⟩
  · have hn' : (0 : ℝ) < (n : ℝ) := by exact_mod_cast hn
    have he : (e : ℝ) ≤ (n : ℝ) := by exact_mod_cast hen
    have he0 : (0 : ℝ) ≤ (e : ℝ) := by positivity
    have h : jaccardOfCounts (n : ℝ) (e : ℝ) = 1 - (e : ℝ) / n := by
      rw [jaccardOfCounts_real, if_neg hn'.ne']; field_simp
    have h1 : (e : ℝ) / n ≤ 1 := by rw [div_le_one hn']; exact he
    have h2 : 0 ≤ (e : ℝ) / n := by positivity
    exact ⟨h, hn'.ne', by rw [h]; linarith, by rw [h]; linarith⟩
  · rw [jaccardOfCounts_real]; split_ifs <;> simp

theorem jaccard_symm (x y : List ℝ) : jaccard x y = jaccard y x := by
  unfold jaccard; rw [numNonZero_comm x y, numTrueTrue_comm x y]

theorem jaccard_self (x : List ℝ) : jaccard x x = 0 := by
  unfold jaccard; rw [numTrueTrue_self]; exact (jaccard_counts _ _ le_rfl).2.2

/-- `dice` over the counts `t = |x∧y|`, `d = |x△y|`: `d / (2t + d)` with a positive divisor when
`d > 0` (in `[0,1]`), `0` when `d = 0` (the guard). -/
theorem dice_counts (t d : ℕ) :
    (0 < d → diceOfCounts (t : ℝ) (d : ℝ) = (d : ℝ) / (2 * t + d) ∧ (0 : ℝ) < 2 * t + d ∧
      0 ≤ diceOfCounts (t : ℝ) (d : ℝ) ∧ diceOfCounts (t : ℝ) (d : ℝ) ≤ 1) ∧
    diceOfCounts (t : ℝ) (0 : ℝ) = 0 := by
  have hr : ∀ a b : ℝ, diceOfCounts a b = if b = 0 then 0 else b / (2 * a + b) := by
    intro a b; unfold diceOfCounts; arith_norm
  refine ⟨fun hd => ?_, by rw [hr, if_pos rfl]⟩
  have hd' : (0 : ℝ) < (d : ℝ) := by exact_mod_cast hd
  have ht : (0 : ℝ) ≤ (t : ℝ) := by positivity
  have hden : (0 : ℝ) < 2 * t + d := by linarith
  have h : diceOfCounts (t : ℝ) (d : ℝ) = (d : ℝ) / (2 * t + d) := by rw [hr, if_neg hd'.ne']
  exact ⟨h, hden, by rw [h]; positivity, by rw [h, div_le_one hden]; linarith⟩

theorem dice_symm (x y : List ℝ) : dice x y = dice y x := by
  unfold dice; rw [numTrueTrue_comm x y, numNotEqual_comm x y]

theorem dice_self (x : List ℝ) : dice x x = 0 := by
  unfold dice; rw [numNotEqual_self]
  show diceOfCounts ((numTrueTrue x x : ℕ) : ℝ) ((0 : ℕ) : ℝ) = 0
  rw [Nat.cast_zero]; exact (dice_counts _ 0).2

/-- `matching`: the fraction of coordinates whose non-zero-ness differs; in `[0,1]` for `dim > 0`. -/
theorem matching_spec (x y : List ℝ) (hl : x.length = y.length) (hn : 0 < x.length) :
    matching x y = (numNotEqual x y : ℝ) / (x.length : ℝ) ∧ (x.length : ℝ) ≠ 0 ∧
    0 ≤ matching x y ∧ matching x y ≤ 1 := by
  have h : matching x y = (numNotEqual x y : ℝ) / (x.length : ℝ) := by
    unfold matching matchingOfCounts; arith_norm
  have hn' : (0 : ℝ) < (x.length : ℝ) := by exact_mod_cast hn
  have hle : (numNotEqual x y : ℝ) ≤ (x.length : ℝ) := by
    exact_mod_cast numNotEqual_le_length x y hl
  exact ⟨h, hn'.ne', by rw [h]; positivity, by rw [h, div_le_one hn']; exact hle⟩

theorem matching_symm (x y : List ℝ) (hl : x.length = y.length) : matching x y = matching y x := by
  unfold matching; rw [numNotEqual_comm x y, hl]

theorem matching_self (x : List ℝ) : matching x x = 0 := by
  unfold matching matchingOfCounts; rw [numNotEqual_self]; arith_norm; simp

/-! ## the remaining binary kernels, over the counts

`t = |x∧y|`, `d = |x△y|`, `n = dim`; the vector-level symmetry and identical-input statements follow
from `counts_symm_self` exactly as for `jaccard` / `dice` / `matching`. -/

/-- `rogers_tanimoto` (and `sokal_michener`, the same body): `2d/(n + d)`, divisor positive for
`n > 0`, value in `[0,1]` as `d ≤ n`, `0` for `d = 0`. -/
theorem rogers_tanimoto_counts (d n : ℕ) (hn : 0 < n) (hd : d ≤ n) :
    rogersTanimotoOfCounts (d : ℝ) (n : ℝ) = 2 * d / (n + d) ∧ (0 : ℝ) < n + d ∧
    0 ≤ rogersTanimotoOfCounts (d : ℝ) (n : ℝ) ∧ rogersTanimotoOfCounts (d : ℝ) (n : ℝ) ≤ 1 ∧
    rogersTanimotoOfCounts (0 : ℝ) (n : ℝ) = 0 := by
  have hr : ∀ a b : ℝ, rogersTanimotoOfCounts a b = 2 * a / (b + a) := by
    intro a b; unfold rogersTanimotoOfCounts; arith_norm
  have hn' : (0 : ℝ) < (n : ℝ) := by exact_mod_cast hn
  have hd0 : (0 : ℝ) ≤ (d : ℝ) := by positivity
  have hd' : (d : ℝ) ≤ (n : ℝ) := by exact_mod_cast hd
  have hden : (0 : ℝ) < n + d := by linarith
  refine ⟨hr _ _, hden, by rw [hr]; positivity, by rw [hr, div_le_one hden]; linarith, ?_⟩
  rw [hr]; simp

theorem rogers_tanimoto_symm_self (x y : List ℝ) (hl : x.length = y.length) :
    rogersTanimoto x y = rogersTanimoto y x ∧ (0 < x.length → rogersTanimoto x x = 0) := by
  refine ⟨by unfold rogersTanimoto; rw [numNotEqual_comm x y, hl], fun hn => ?_⟩
  unfold rogersTanimoto; rw [numNotEqual_self]
  show rogersTanimotoOfCounts ((0 : ℕ) : ℝ) ((x.length : ℕ) : ℝ) = 0
  rw [Nat.cast_zero]; exact (rogers_tanimoto_counts 0 _ hn (Nat.zero_le _)).2.2.2.2

/-- `sokal_sneath`: `d/(t/2 + d)` with a positive divisor for `d > 0` (in `[0,1]`), `0` for `d = 0`. -/
theorem sokal_sneath_counts (t d : ℕ) :
    (0 < d → sokalSneathOfCounts (t : ℝ) (d : ℝ) = d / (1 / 2 * t + d) ∧ (0 : ℝ) < 1 / 2 * t + d ∧
      0 ≤ sokalSneathOfCounts (t : ℝ) (d : ℝ) ∧ sokalSneathOfCounts (t : ℝ) (d : ℝ) ≤ 1) ∧
    sokalSneathOfCounts (t : ℝ) (0 : ℝ) = 0 := by
  have hr : ∀ a b : ℝ, sokalSneathOfCounts a b = if b = 0 then 0 else b / (1 / 2 * a + b) := by
    intro a b; unfold sokalSneathOfCounts; arith_norm
  refine ⟨fun hd => ?_, by rw [hr, if_pos rfl]⟩
  have hd' : (0 : ℝ) < (d : ℝ) := by exact_mod_cast hd
  have ht : (0 : ℝ) ≤ (t : ℝ) := by positivity
  have hden : (0 : ℝ) < 1 / 2 * t + d := by linarith
  have h : sokalSneathOfCounts (t : ℝ) (d : ℝ) = d / (1 / 2 * t + d) := by rw [hr, if_neg hd'.ne']
  exact ⟨h, hden, by rw [h]; positivity, by rw [h, div_le_one hden]; linarith⟩

theorem sokal_sneath_symm_self (x y : List ℝ) :
    sokalSneath x y = sokalSneath y x ∧ sokalSneath x x = 0 := by
  refine ⟨by unfold sokalSneath; rw [numTrueTrue_comm x y, numNotEqual_comm x y], ?_⟩
  unfold sokalSneath; rw [numNotEqual_self]
  show sokalSneathOfCounts ((numTrueTrue x x : ℕ) : ℝ) ((0 : ℕ) : ℝ) = 0
  rw [Nat.cast_zero]; exact (sokal_sneath_counts _ 0).2

/-- `kulsinski`: `(d − t + n)/(d + n)` with a positive divisor for `d > 0`; in `[0,1]` because
`t ≤ n`; `0` for `d = 0` (identical supports — the code's convention, N6). -/
theorem kulsinski_counts (t d n : ℕ) (ht : t ≤ n) :
    (0 < d → kulsinskiOfCounts (t : ℝ) (d : ℝ) (n : ℝ) = (d - t + n) / (d + n) ∧ (0 : ℝ) < d + n ∧
      0 ≤ kulsinskiOfCounts (t : ℝ) (d : ℝ) (n : ℝ) ∧ kulsinskiOfCounts (t : ℝ) (d : ℝ) (n : ℝ) ≤ 1) ∧
    kulsinskiOfCounts (t : ℝ) (0 : ℝ) (n : ℝ) = 0 := by
  have hr : ∀ a b c : ℝ, kulsinskiOfCounts a b c = if b = 0 then 0 else (b - a + c) / (b + c) := by
    intro a b c; unfold kulsinskiOfCounts; arith_norm
  refine ⟨fun hd => ?_, by rw [hr, if_pos rfl]⟩
  have hd' : (0 : ℝ) < (d : ℝ) := by exact_mod_cast hd
  have ht0 : (0 : ℝ) ≤ (t : ℝ) := by positivity
  have hn0 : (0 : ℝ) ≤ (n : ℝ) := by positivity
  have ht' : (t : ℝ) ≤ (n : ℝ) := by exact_mod_cast ht
  have hden : (0 : ℝ) < (d : ℝ) + n := by linarith
  have h : kulsinskiOfCounts (t : ℝ) (d : ℝ) (n : ℝ) = (d - t + n) / (d + n) := by
    rw [hr, if_neg hd'.ne']
  refine ⟨h, hden, ?_, ?_⟩
  · rw [h]; exact div_nonneg (by linarith) hden.le
  · rw [h, div_le_one hden]; linarith

theorem kulsinski_symm_self (x y : List ℝ) (hl : x.length = y.length) :
    kulsinski x y = kulsinski y x ∧ kulsinski x x = 0 := by
  refine ⟨by unfold kulsinski; rw [numTrueTrue_comm x y, numNotEqual_comm x y, hl], ?_⟩
  unfold kulsinski; rw [numNotEqual_self]
  show kulsinskiOfCounts ((numTrueTrue x x : ℕ) : ℝ) ((0 : ℕ) : ℝ) ((x.length : ℕ) : ℝ) = 0
  have hr : ∀ a b c : ℝ, kulsinskiOfCounts a b c = if b = 0 then 0 else (b - a + c) / (b + c) := by
    intro a b c; unfold kulsinskiOfCounts; arith_norm
  rw [Nat.cast_zero, hr, if_pos rfl]

/-- `russellrao`: `(n − t)/n` for `n > 0` (in `[0,1]` as `t ≤ n`), except `0` when both supports
equal the intersection (identical supports — the code's convention, N6). -/
theorem russellrao_counts (t a b n : ℕ) (hn : 0 < n) (ht : t ≤ n) :
    (¬ (t = a ∧ t = b) → russellraoOfCounts (t : ℝ) (a : ℝ) (b : ℝ) (n : ℝ) = (n - t) / n ∧
      (n : ℝ) ≠ 0 ∧ 0 ≤ russellraoOfCounts (t : ℝ) (a : ℝ) (b : ℝ) (n : ℝ) ∧
      russellraoOfCounts (t : ℝ) (a : ℝ) (b : ℝ) (n : ℝ) ≤ 1) ∧
    russellraoOfCounts (t : ℝ) (t : ℝ) (t : ℝ) (n : ℝ) = 0 ∧
    russellraoOfCounts (t : ℝ) (a : ℝ) (b : ℝ) (n : ℝ) = russellraoOfCounts (t : ℝ) (b : ℝ) (a : ℝ) (n : ℝ) := by
  have hr : ∀ t a b n : ℝ, russellraoOfCounts t a b n = if t = a ∧ t = b then 0 else (n - t) / n := by
    intro t a b n; unfold russellraoOfCounts; arith_norm
  have hn' : (0 : ℝ) < (n : ℝ) := by exact_mod_cast hn
  have ht' : (t : ℝ) ≤ (n : ℝ) := by exact_mod_cast ht
  have ht0 : (0 : ℝ) ≤ (t : ℝ) := by positivity
  refine ⟨fun h => ?_, by rw [hr, if_pos ⟨rfl, rfl⟩], ?_⟩
  · have h' : ¬ ((t : ℝ) = a ∧ (t : ℝ) = b) := by
      rintro ⟨h1, h2⟩; exact h ⟨by exact_mod_cast h1, by exact_mod_cast h2⟩
    have hv : russellraoOfCounts (t : ℝ) (a : ℝ) (b : ℝ) (n : ℝ) = (n - t) / n := by rw [hr, if_neg h']
    exact ⟨hv, hn'.ne', by rw [hv]; exact div_nonneg (by linarith) hn'.le,
      by rw [hv, div_le_one hn']; linarith⟩
  · rw [hr, hr]
    have : ((t : ℝ) = a ∧ (t : ℝ) = b) ↔ ((t : ℝ) = b ∧ (t : ℝ) = a) := and_comm
    simp only [this]

theorem russellrao_symm_self (x y : List ℝ) (hl : x.length = y.length) :
    russellrao x y = russellrao y x ∧ russellrao x x = 0 := by
  have hr : ∀ t a b n : ℝ, russellraoOfCounts t a b n = if t = a ∧ t = b then 0 else (n - t) / n := by
    intro t a b n; unfold russellraoOfCounts; arith_norm
  constructor
  · unfold russellrao
    rw [numTrueTrue_comm x y, hl, hr, hr]
    exact if_congr and_comm rfl rfl
  · unfold russellrao
    rw [numTrueTrue_self_eq_support, hr, if_pos ⟨rfl, rfl⟩]

/-- `yule`: `2·tf·ft/(tt·ff + tf·ft)` with a positive divisor whenever the guard passes
(`tf > 0`, `ft > 0`, `ff = n − tt − tf − ft ≥ 0`); `0` when `tf = 0` or `ft = 0`; symmetric in
`(tf, ft)`. -/
theorem yule_counts (tt tf ft n : ℕ) (hp : tt + tf + ft ≤ n) :
    (0 < tf → 0 < ft →
      yuleOfCounts (tt : ℝ) (tf : ℝ) (ft : ℝ) (n : ℝ) =
        2 * tf * ft / (tt * ((n : ℝ) - tt - tf - ft) + tf * ft) ∧
      (0 : ℝ) < tt * ((n : ℝ) - tt - tf - ft) + tf * ft ∧
      0 ≤ yuleOfCounts (tt : ℝ) (tf : ℝ) (ft : ℝ) (n : ℝ)) ∧
    yuleOfCounts (tt : ℝ) (0 : ℝ) (ft : ℝ) (n : ℝ) = 0 ∧
    yuleOfCounts (tt : ℝ) (tf : ℝ) (0 : ℝ) (n : ℝ) = 0 ∧
    yuleOfCounts (tt : ℝ) (tf : ℝ) (ft : ℝ) (n : ℝ) = yuleOfCounts (tt : ℝ) (ft : ℝ) (tf : ℝ) (n : ℝ) := by
  have hr : ∀ a b c m : ℝ, yuleOfCounts a b c m =
      if b = 0 ∨ c = 0 then 0 else 2 * b * c / (a * (m - a - b - c) + b * c) := by
    intro a b c m; unfold yuleOfCounts; arith_norm
  refine ⟨fun h1 h2 => ?_, by rw [hr, if_pos (Or.inl rfl)], by rw [hr, if_pos (Or.inr rfl)], ?_⟩
  · have h1' : (0 : ℝ) < (tf : ℝ) := by exact_mod_cast h1
    have h2' : (0 : ℝ) < (ft : ℝ) := by exact_mod_cast h2
    have htt : (0 : ℝ) ≤ (tt : ℝ) := by positivity
    have hff : (0 : ℝ) ≤ (n : ℝ) - tt - tf - ft := by
      have : ((tt + tf + ft : ℕ) : ℝ) ≤ (n : ℝ) := by exact_mod_cast hp
      push_cast at this; linarith
    have hden : (0 : ℝ) < tt * ((n : ℝ) - tt - tf - ft) + tf * ft := by
      have := mul_nonneg htt hff; have := mul_pos h1' h2'; linarith
    have hv : yuleOfCounts (tt : ℝ) (tf : ℝ) (ft : ℝ) (n : ℝ) =
        2 * tf * ft / (tt * ((n : ℝ) - tt - tf - ft) + tf * ft) := by
      rw [hr, if_neg (by rintro (h | h) <;> linarith)]
    exact ⟨hv, hden, by rw [hv]; exact div_nonneg (by positivity) hden.le⟩
  · rw [hr, hr]
    have h1 : ((tf : ℝ) = 0 ∨ (ft : ℝ) = 0) ↔ ((ft : ℝ) = 0 ∨ (tf : ℝ) = 0) := or_comm
    have h2 : (n : ℝ) - tt - tf - ft = (n : ℝ) - tt - ft - tf := by ring
    have h3 : (2 : ℝ) * tf * ft = 2 * ft * tf := by ring
    have h4 : (tf : ℝ) * ft = ft * tf := by ring
    simp only [h1, h2, h3, h4]

theorem yule_symm_self (x y : List ℝ) (hl : x.length = y.length) :
    yule x y = yule y x ∧ yule x x = 0 := by
  constructor
  · unfold yule
    rw [numTrueTrue_comm x y, numTrueFalse_swap x y, numFalseTrue_swap x y, ← hl]
    exact (yule_counts _ _ _ _ (counts_partition x y hl)).2.2.2
  · unfold yule
    rw [numTrueFalse_self]
    have hr : ∀ a b c m : ℝ, yuleOfCounts a b c m =
        if b = 0 ∨ c = 0 then 0 else 2 * b * c / (a * (m - a - b - c) + b * c) := by
      intro a b c m; unfold yuleOfCounts; arith_norm
    rw [hr, if_pos (Or.inl (by arith_norm; simp))]

/-! ## the translated kernels (`Gen/MetricKernels.lean`) refine the model

`GenMetric.<kernel> fuel x y …` is the syntax-directed translation of the source text of
`pynndescent/distances.py` (`harness/translate_metrics.py`, re-run by `check` before every build),
over the SAME generic carrier `[Arith α]` as the model: `Option` monad, `none` = out-of-bounds
load or fuel exhausted.  Each theorem: for all `x y` with `x.size = y.size` and fuel
`≥ x.size + 1` the translated kernel is `some` of the model's value on `x.toList`, `y.toList` —
so every `…_spec / _symm / _self / _defined` theorem of this file (and of `Props/C07b.lean`,
`Props/C09.lean`) is a theorem about what `distances.py` says now.  No arithmetic law is used,
except by the counting kernels (`CountLaws`: `ofNat 0 = 0`, `ofNat (n+1) = ofNat n + 1`,
`a + 0 = a` — the code adds `1.0` / `0.0` to a float where the model counts in `ℕ`).
Helper lemmas: `Proofs/GenMetrics.lean`.  NOT translated: rankdata / spearmanr,
jensen_shannon_divergence, symmetric_kl_divergence, wasserstein_1d, kantorovich, sinkhorn,
circular_kantorovich, bit_hamming, bit_jaccard (array temporaries / whole-array numpy operations:
outside the translator's subset; tied by sampled comparison only). -/
section KernelTie
open Pynn.GenMetricProofs

/-- `distances.euclidean`: the translated source text = the model `Metrics.euclidean`, memory safe -/
theorem kernel_euclidean_refines {α : Type} [Arith α] (x y : Array α) (h : x.size = y.size) (fuel : Nat)
    (hf : x.size + 1 ≤ fuel) :
    GenMetric.euclidean fuel x y = some (Metrics.euclidean x.toList y.toList) :=
  euclidean_refines x y h fuel hf

/-- `distances.squared_euclidean`: the translated source text = the model `Metrics.squaredEuclidean`, memory safe -/
theorem kernel_squared_euclidean_refines {α : Type} [Arith α] (x y : Array α) (h : x.size = y.size) (fuel : Nat)
    (hf : x.size + 1 ≤ fuel) :
    GenMetric.squared_euclidean fuel x y = some (Metrics.squaredEuclidean x.toList y.toList) :=
  squared_euclidean_refines x y h fuel hf

/-- `distances.manhattan`: the translated source text = the model `Metrics.manhattan`, memory safe -/
theorem kernel_manhattan_refines {α : Type} [Arith α] (x y : Array α) (h : x.size = y.size) (fuel : Nat)
    (hf : x.size + 1 ≤ fuel) :
    GenMetric.manhattan fuel x y = some (Metrics.manhattan x.toList y.toList) :=
  manhattan_refines x y h fuel hf

/-- `distances.chebyshev`: the translated source text = the model `Metrics.chebyshev`, memory safe -/
theorem kernel_chebyshev_refines {α : Type} [Arith α] (x y : Array α) (h : x.size = y.size) (fuel : Nat)
    (hf : x.size + 1 ≤ fuel) :
    GenMetric.chebyshev fuel x y = some (Metrics.chebyshev x.toList y.toList) :=
  chebyshev_refines x y h fuel hf

/-- `distances.cosine`: the translated source text = the model `Metrics.cosine`, memory safe -/
theorem kernel_cosine_refines {α : Type} [Arith α] (x y : Array α) (h : x.size = y.size) (fuel : Nat)
    (hf : x.size + 1 ≤ fuel) :
    GenMetric.cosine fuel x y = some (Metrics.cosine x.toList y.toList) :=
  cosine_refines x y h fuel hf

/-- `distances.alternative_cosine`: the translated source text = the model `Metrics.alternativeCosine`, memory safe -/
theorem kernel_alternative_cosine_refines {α : Type} [Arith α] (x y : Array α) (h : x.size = y.size) (fuel : Nat)
    (hf : x.size + 1 ≤ fuel) :
    GenMetric.alternative_cosine fuel x y = some (Metrics.alternativeCosine x.toList y.toList) :=
  alternative_cosine_refines x y h fuel hf

/-- `distances.dot`: the translated source text = the model `Metrics.dot`, memory safe -/
theorem kernel_dot_refines {α : Type} [Arith α] (x y : Array α) (h : x.size = y.size) (fuel : Nat)
    (hf : x.size + 1 ≤ fuel) :
    GenMetric.dot fuel x y = some (Metrics.dot x.toList y.toList) :=
  dot_refines x y h fuel hf

/-- `distances.alternative_dot`: the translated source text = the model `Metrics.alternativeDot`, memory safe -/
theorem kernel_alternative_dot_refines {α : Type} [Arith α] (x y : Array α) (h : x.size = y.size) (fuel : Nat)
    (hf : x.size + 1 ≤ fuel) :
    GenMetric.alternative_dot fuel x y = some (Metrics.alternativeDot x.toList y.toList) :=
  alternative_dot_refines x y h fuel hf

/-- `distances.true_angular`: the translated source text = the model `Metrics.trueAngular`, memory safe -/
theorem kernel_true_angular_refines {α : Type} [Arith α] (x y : Array α) (h : x.size = y.size) (fuel : Nat)
    (hf : x.size + 1 ≤ fuel) :
    GenMetric.true_angular fuel x y = some (Metrics.trueAngular x.toList y.toList) :=
  true_angular_refines x y h fuel hf

/-- `distances.correlation`: the translated source text = the model `Metrics.correlation`, memory safe -/
theorem kernel_correlation_refines {α : Type} [Arith α] (x y : Array α) (h : x.size = y.size) (fuel : Nat)
    (hf : x.size + 1 ≤ fuel) :
    GenMetric.correlation fuel x y = some (Metrics.correlation x.toList y.toList) :=
  correlation_refines x y h fuel hf

/-- `distances.canberra`: the translated source text = the model `Metrics.canberra`, memory safe -/
theorem kernel_canberra_refines {α : Type} [Arith α] (x y : Array α) (h : x.size = y.size) (fuel : Nat)
    (hf : x.size + 1 ≤ fuel) :
    GenMetric.canberra fuel x y = some (Metrics.canberra x.toList y.toList) :=
  canberra_refines x y h fuel hf

/-- `distances.bray_curtis`: the translated source text = the model `Metrics.brayCurtis`, memory safe -/
theorem kernel_bray_curtis_refines {α : Type} [Arith α] (x y : Array α) (h : x.size = y.size) (fuel : Nat)
    (hf : x.size + 1 ≤ fuel) :
    GenMetric.bray_curtis fuel x y = some (Metrics.brayCurtis x.toList y.toList) :=
  bray_curtis_refines x y h fuel hf

/-- `distances.hellinger`: the translated source text = the model `Metrics.hellinger`, memory safe -/
theorem kernel_hellinger_refines {α : Type} [Arith α] (x y : Array α) (h : x.size = y.size) (fuel : Nat)
    (hf : x.size + 1 ≤ fuel) :
    GenMetric.hellinger fuel x y = some (Metrics.hellinger x.toList y.toList) :=
  hellinger_refines x y h fuel hf

/-- `distances.alternative_hellinger`: the translated source text = the model `Metrics.alternativeHellinger`, memory safe -/
theorem kernel_alternative_hellinger_refines {α : Type} [Arith α] (x y : Array α) (h : x.size = y.size) (fuel : Nat)
    (hf : x.size + 1 ≤ fuel) :
    GenMetric.alternative_hellinger fuel x y = some (Metrics.alternativeHellinger x.toList y.toList) :=
  alternative_hellinger_refines x y h fuel hf

/-- `distances.hamming`: the translated source text (a float accumulator to which `1.0` / `0.0` is
added) = the model `Metrics.hamming` (counts in `ℕ`, converted by `ofNat`) on every carrier with `CountLaws` -/
theorem kernel_hamming_refines {α : Type} [Arith α] (hc : CountLaws α) (x y : Array α)
    (h : x.size = y.size) (fuel : Nat) (hf : x.size + 1 ≤ fuel) :
    GenMetric.hamming fuel x y = some (Metrics.hamming x.toList y.toList) :=
  hamming_refines hc x y h fuel hf

/-- `distances.jaccard`: the translated source text (a float accumulator to which `1.0` / `0.0` is
added) = the model `Metrics.jaccard` (counts in `ℕ`, converted by `ofNat`) on every carrier with `CountLaws` -/
theorem kernel_jaccard_refines {α : Type} [Arith α] (hc : CountLaws α) (x y : Array α)
    (h : x.size = y.size) (fuel : Nat) (hf : x.size + 1 ≤ fuel) :
    GenMetric.jaccard fuel x y = some (Metrics.jaccard x.toList y.toList) :=
  jaccard_refines hc x y h fuel hf

/-- `distances.alternative_jaccard`: the translated source text (a float accumulator to which `1.0` / `0.0` is
added) = the model `Metrics.alternativeJaccard` (counts in `ℕ`, converted by `ofNat`) on every carrier with `CountLaws` -/
theorem kernel_alternative_jaccard_refines {α : Type} [Arith α] (hc : CountLaws α) (x y : Array α)
    (h : x.size = y.size) (fuel : Nat) (hf : x.size + 1 ≤ fuel) :
    GenMetric.alternative_jaccard fuel x y = some (Metrics.alternativeJaccard x.toList y.toList) :=
  alternative_jaccard_refines hc x y h fuel hf

/-- `distances.matching`: the translated source text (a float accumulator to which `1.0` / `0.0` is
added) = the model `Metrics.matching` (counts in `ℕ`, converted by `ofNat`) on every carrier with `CountLaws` -/
theorem kernel_matching_refines {α : Type} [Arith α] (hc : CountLaws α) (x y : Array α)
    (h : x.size = y.size) (fuel : Nat) (hf : x.size + 1 ≤ fuel) :
    GenMetric.matching fuel x y = some (Metrics.matching x.toList y.toList) :=
  matching_refines hc x y h fuel hf

/-- `distances.dice`: the translated source text (a float accumulator to which `1.0` / `0.0` is
added) = the model `Metrics.dice` (counts in `ℕ`, converted by `ofNat`) on every carrier with `CountLaws` -/
theorem kernel_dice_refines {α : Type} [Arith α] (hc : CountLaws α) (x y : Array α)
    (h : x.size = y.size) (fuel : Nat) (hf : x.size + 1 ≤ fuel) :
    GenMetric.dice fuel x y = some (Metrics.dice x.toList y.toList) :=
  dice_refines hc x y h fuel hf

/-- `distances.kulsinski`: the translated source text (a float accumulator to which `1.0` / `0.0` is
added) = the model `Metrics.kulsinski` (counts in `ℕ`, converted by `ofNat`) on every carrier with `CountLaws` -/
theorem kernel_kulsinski_refines {α : Type} [Arith α] (hc : CountLaws α) (x y : Array α)
    (h : x.size = y.size) (fuel : Nat) (hf : x.size + 1 ≤ fuel) :
    GenMetric.kulsinski fuel x y = some (Metrics.kulsinski x.toList y.toList) :=
  kulsinski_refines hc x y h fuel hf

/-- `distances.rogers_tanimoto`: the translated source text (a float accumulator to which `1.0` / `0.0` is
added) = the model `Metrics.rogersTanimoto` (counts in `ℕ`, converted by `ofNat`) on every carrier with `CountLaws` -/
theorem kernel_rogers_tanimoto_refines {α : Type} [Arith α] (hc : CountLaws α) (x y : Array α)
    (h : x.size = y.size) (fuel : Nat) (hf : x.size + 1 ≤ fuel) :
    GenMetric.rogers_tanimoto fuel x y = some (Metrics.rogersTanimoto x.toList y.toList) :=
  rogers_tanimoto_refines hc x y h fuel hf

/-- `distances.sokal_michener`: the translated source text (a float accumulator to which `1.0` / `0.0` is
added) = the model `Metrics.rogersTanimoto` (counts in `ℕ`, converted by `ofNat`) on every carrier with `CountLaws` -/
theorem kernel_sokal_michener_refines {α : Type} [Arith α] (hc : CountLaws α) (x y : Array α)
    (h : x.size = y.size) (fuel : Nat) (hf : x.size + 1 ≤ fuel) :
    GenMetric.sokal_michener fuel x y = some (Metrics.rogersTanimoto x.toList y.toList) :=
  sokal_michener_refines hc x y h fuel hf

/-- `distances.sokal_sneath`: the translated source text (a float accumulator to which `1.0` / `0.0` is
added) = the model `Metrics.sokalSneath` (counts in `ℕ`, converted by `ofNat`) on every carrier with `CountLaws` -/
theorem kernel_sokal_sneath_refines {α : Type} [Arith α] (hc : CountLaws α) (x y : Array α)
    (h : x.size = y.size) (fuel : Nat) (hf : x.size + 1 ≤ fuel) :
    GenMetric.sokal_sneath fuel x y = some (Metrics.sokalSneath x.toList y.toList) :=
  sokal_sneath_refines hc x y h fuel hf

/-- `distances.russellrao`: the translated source text (a float accumulator to which `1.0` / `0.0` is
added) = the model `Metrics.russellrao` (counts in `ℕ`, converted by `ofNat`) on every carrier with `CountLaws` -/
theorem kernel_russellrao_refines {α : Type} [Arith α] (hc : CountLaws α) (x y : Array α)
    (h : x.size = y.size) (fuel : Nat) (hf : x.size + 1 ≤ fuel) :
    GenMetric.russellrao fuel x y = some (Metrics.russellrao x.toList y.toList) :=
  russellrao_refines hc x y h fuel hf

/-- `distances.yule`: the translated source text (a float accumulator to which `1.0` / `0.0` is
added) = the model `Metrics.yule` (counts in `ℕ`, converted by `ofNat`) on every carrier with `CountLaws` -/
theorem kernel_yule_refines {α : Type} [Arith α] (hc : CountLaws α) (x y : Array α)
    (h : x.size = y.size) (fuel : Nat) (hf : x.size + 1 ≤ fuel) :
    GenMetric.yule fuel x y = some (Metrics.yule x.toList y.toList) :=
  yule_refines hc x y h fuel hf

/-- `distances.minkowski` (the default `p=2` is an explicit argument) -/
theorem kernel_minkowski_refines {α : Type} [Arith α] (p : α) (x y : Array α) (h : x.size = y.size)
    (fuel : Nat) (hf : x.size + 1 ≤ fuel) :
    GenMetric.minkowski fuel x y p = some (Metrics.minkowski x.toList y.toList p) :=
  minkowski_refines x y p h fuel hf

/-- `distances.standardised_euclidean` (`sigma` explicit, of the length of `x`) -/
theorem kernel_standardised_euclidean_refines {α : Type} [Arith α] (x y sigma : Array α)
    (h : x.size = y.size) (hs : x.size = sigma.size) (fuel : Nat) (hf : x.size + 1 ≤ fuel) :
    GenMetric.standardised_euclidean fuel x y sigma
      = some (Metrics.standardisedEuclidean x.toList y.toList sigma.toList) :=
  standardised_euclidean_refines x y sigma h hs fuel hf

/-- `distances.weighted_minkowski` (`w`, `p` explicit) -/
theorem kernel_weighted_minkowski_refines {α : Type} [Arith α] (x y w : Array α) (p : α)
    (h : x.size = y.size) (hs : x.size = w.size) (fuel : Nat) (hf : x.size + 1 ≤ fuel) :
    GenMetric.weighted_minkowski fuel x y w p
      = some (Metrics.weightedMinkowski x.toList y.toList w.toList p) :=
  weighted_minkowski_refines x y w p h hs fuel hf

/-- `distances.mahalanobis`: a local `np.empty` array filled by a first loop (stores in bounds, every cell
stored to before it is loaded), then the nested loop over the `n × n` matrix `vinv` (rows as arrays;
model: the list of its rows); fuel `≥ 2n + 2` -/
theorem kernel_mahalanobis_refines {α : Type} [Arith α] (x y : Array α) (vinv : Array (Array α))
    (h : x.size = y.size) (hv : vinv.size = x.size)
    (hr : ∀ i (hi : i < vinv.size), vinv[i].size = x.size) (fuel : Nat) (hf : 2 * x.size + 2 ≤ fuel) :
    GenMetric.mahalanobis fuel x y vinv
      = some (Metrics.mahalanobis x.toList y.toList (vinv.toList.map Array.toList)) :=
  mahalanobis_refines x y vinv h hv hr fuel hf

/-- `distances.tsss` -/
theorem kernel_tsss_refines {α : Type} [Arith α] [Trig α] (x y : Array α) (h : x.size = y.size)
    (fuel : Nat) (hf : x.size + 1 ≤ fuel) :
    GenMetric.tsss fuel x y = some (Metrics.tsss x.toList y.toList) :=
  tsss_refines x y h fuel hf

/-- `distances.haversine`: equal as `Option`s — `none` on both sides is the `ValueError` for
`x.shape[0] != 2`; for 2-vectors both are `some` of the same value (no out-of-bounds load) -/
theorem kernel_haversine_refines {α : Type} [Arith α] [Trig α] (x y : Array α) (h : x.size = y.size)
    (fuel : Nat) :
    GenMetric.haversine fuel x y = Metrics.haversine x.toList y.toList :=
  haversine_refines x y h fuel

/-- the four scalar corrections (`@numba.vectorize` ufuncs of `distances.py`; C09 is about them) -/
theorem kernel_corrections_refine {α : Type} [Arith α] (fuel : Nat) (d : α) :
    GenMetric.correct_alternative_cosine fuel d = some (Metrics.correctAlternativeCosine d) ∧
    GenMetric.true_angular_from_alt_cosine fuel d = some (Metrics.trueAngularFromAltCosine d) ∧
    GenMetric.correct_alternative_hellinger fuel d = some (Metrics.correctAlternativeHellinger d) ∧
    GenMetric.correct_alternative_jaccard fuel d = some (Metrics.correctAlternativeJaccard d) :=
  ⟨rfl, rfl, rfl, rfl⟩

/-- `ℝ` has the laws that relate the code's float counters to the model's `ℕ` counters -/
theorem countLaws_real : CountLaws ℝ :=
  ⟨by arith_norm; simp, fun n => by arith_norm; push_cast; ring, fun a => by arith_norm; ring⟩

/-! ### composed: theorems of this file, restated on the translated source text (over `ℝ`) -/

/-- **the translated `euclidean` returns `√(Σ (xᵢ − yᵢ)²)`** (`kernel_euclidean_refines` +
`euclidean_spec`), without out-of-bounds access, for all real vectors of equal length -/
theorem kernel_euclidean_spec (x y : Array ℝ) (h : x.size = y.size) (fuel : Nat)
    (hf : x.size + 1 ≤ fuel) :
    GenMetric.euclidean fuel x y
      = some (Real.sqrt ((List.zipWith (fun a b => (a - b) ^ 2) x.toList y.toList).sum)) := by
  rw [kernel_euclidean_refines x y h fuel hf, euclidean_spec]

/-- **the translated `cosine` is symmetric and lies in `[0, 2]`** (`cosine_symm`, `cosine_range`) -/
theorem kernel_cosine_symm_range (x y : Array ℝ) (h : x.size = y.size) (fuel : Nat)
    (hf : x.size + 1 ≤ fuel) :
    GenMetric.cosine fuel x y = GenMetric.cosine fuel y x ∧
    ∃ c, GenMetric.cosine fuel x y = some c ∧ 0 ≤ c ∧ c ≤ 2 := by
  rw [kernel_cosine_refines x y h fuel hf, kernel_cosine_refines y x h.symm fuel (h ▸ hf),
    cosine_symm]
  exact ⟨rfl, _, rfl, by
    have := cosine_range y.toList x.toList (by simpa using h.symm)
    exact this⟩

/-- **the translated `jaccard` over `ℝ`** needs no extra hypothesis (`countLaws_real`), is symmetric
and vanishes on identical inputs (`jaccard_symm`, `jaccard_self`) -/
theorem kernel_jaccard_real (x y : Array ℝ) (h : x.size = y.size) (fuel : Nat)
    (hf : x.size + 1 ≤ fuel) :
    GenMetric.jaccard fuel x y = some (Metrics.jaccard x.toList y.toList) ∧
    GenMetric.jaccard fuel x y = GenMetric.jaccard fuel y x ∧
    GenMetric.jaccard fuel x x = some 0 := by
  rw [kernel_jaccard_refines countLaws_real x y h fuel hf,
    kernel_jaccard_refines countLaws_real y x h.symm fuel (h ▸ hf),
    kernel_jaccard_refines countLaws_real x x rfl fuel hf, jaccard_symm, jaccard_self]
  exact ⟨rfl, rfl, rfl⟩

end KernelTie

/-! ## non-vacuity -/

example : euclidean ([3, 0] : List ℝ) [0, 4] = 5 := by
  rw [euclidean_spec]
  have : (List.zipWith (fun a b : ℝ => (a - b) ^ 2) [3, 0] [0, 4]).sum = 5 ^ 2 := by norm_num
  rw [this, Real.sqrt_sq (by norm_num)]

example : chebyshev ([3, 0] : List ℝ) [0, 4] = 4 := by
  rw [chebyshev_real]; norm_num

example : jaccardOfCounts (3 : ℝ) (1 : ℝ) = 2 / 3 := by
  rw [jaccardOfCounts_real]; norm_num

end Pynn.C07
