import PynnVerif.Proofs.SparseCorrelation
import PynnVerif.Proofs.GenMerge
import PynnVerif.Proofs.GenSparseMetrics
import PynnVerif.Proofs.Metrics

/-!
# C08 — sparse metrics agree with their dense counterparts

Property theorems only (helper lemmas: `Proofs/Sparse.lean`, `Proofs/SparseIndex.lean`,
`Proofs/SparseMetrics.lean`, `Proofs/SparseCorrelation.lean`; the model of
`pynndescent/sparse.py` and the reference copies of the dense kernels: `Model/Sparse.lean`).

* a CSR row `(ind, data)` is `a : SVec α = List (Nat × α)`; `decode a i` is the value of the
  dense vector it stands for at coordinate `i`; `enc x` is the CSR encoding of the dense
  vector `x : List α`; `WF a` = indices strictly increasing and no stored zero;
* the merge theorems are stated for **all** sorted rows `a b`, i.e. for every relation of the
  two supports (empty, identical, disjoint, nested, overlapping) at once;
* the carrier `α` is any ring / ordered ring / ordered field (`ℤ`, `ℚ`, `ℝ`): the theorems are
  about the kernels' *arithmetic on exact numbers*.  Float rounding is not modelled (the harness
  compares the real float32 kernels on exactly representable data and within tolerance), nor is
  the `uint16` width of two cursor variables (rows with ≥ 65536 stored entries, cf. D13);
* metrics that finish with `sqrt` are proved at the level of the `sqrt` argument
  (`sqEuclidean`, `minkowskiSum`, …) or with `sqrt` an arbitrary function satisfying `IsSqrt`
  (multiplicative and zero only at zero on non-negative arguments — `Real.sqrt` is one).

* **tie between model and code** for the four two-pointer kernels `sparse_sum`, `sparse_mul`,
  `sparse_dot_product`, `fast_intersection_size`: section "the translated kernels" below —
  theorems about `Pynn.GenK.*` (`Gen/Kernels.lean`, regenerated from the source text of
  `sparse.py` by `harness/translate_kernels.py` on every run): for **every** input the translated
  kernel performs no out-of-bounds access, terminates within the stated fuel and returns exactly
  what the hand-written model returns.  Helper lemmas: `Proofs/GenMerge.lean`.

NOT proved here (no model, no theorem — left to the differential harness `harness/c08.py`):
`sparse_kantorovich`, `sparse_wasserstein_1d`,
`sparse_hellinger` beyond its accumulators (`hellinger_sums_agree`), `sparse_minkowski` for
non-integer `p`, the bodies of `jensen_shannon_divergence` / `symmetric_kl_divergence`
(only the reduction `dense_union` is proved: `dense_union_spec`), the `alternative_*` kernels
and their correction ufuncs (not named sparse metrics; C09).
-/
namespace Pynn.C08
open Pynn.Sparse

/-! ## encoding -/
section Enc
variable {α : Type} [DecidableEq α] [Zero α]

omit [DecidableEq α] in
/-- `WF` is what it is said to be: the index array strictly increasing, no stored zero. -/
theorem wf_iff (a : SVec α) :
    WF a ↔ (inds a).Pairwise (· < ·) ∧ ∀ v ∈ vals a, v ≠ 0 := by
  unfold WF Sorted NoZero vals
  rw [sorted_iff_pairwise]
  constructor
  · rintro ⟨h1, h2⟩
    refine ⟨h1, fun v hv => ?_⟩
    obtain ⟨p, hp, rfl⟩ := List.mem_map.1 hv
    exact h2 p hp
  · rintro ⟨h1, h2⟩
    exact ⟨h1, fun p hp => h2 p.2 (List.mem_map.2 ⟨p, hp, rfl⟩)⟩

/-- The CSR encoding of a dense vector is well formed and its indices are coordinates of the
vector (so the precondition of every theorem below is met by what the library feeds the
kernels: `scipy.sparse` CSR rows with sorted indices and eliminated zeros). -/
theorem enc_wf (x : List α) : WF (enc x) ∧ Below x.length (enc x) :=
  ⟨⟨enc_sorted x, enc_noZero x⟩, by simpa [enc] using encFrom_below 0 x⟩

/-- Round trip: the encoding stands for the vector it was made from (0 beyond its length). -/
theorem decode_enc (x : List α) (i : Nat) : decode (enc x) i = x.getD i 0 :=
  Sparse.decode_enc x i

/-- Round trip, as lists. -/
theorem toDense_enc (x : List α) : toDense x.length (enc x) = x := Sparse.toDense_enc x

/-- Conversely every well-formed row with indices below `n` **is** the encoding of its
`n`-dimensional dense vector; hence each `…_agrees` theorem below, stated for `enc x`, `enc y`,
holds for all well-formed rows `a`, `b` with `x := toDense n a`, `y := toDense n b`. -/
theorem enc_toDense {n : Nat} {a : SVec α} (hw : WF a) (hb : Below n a) : enc (toDense n a) = a :=
  Sparse.enc_toDense hw.1 hw.2 hb

end Enc

/-! ## the merge kernels -/
section Merges
variable {α : Type} [DecidableEq α] [Ring α]

/-- **`sparse_sum`, `sparse_diff`, `sparse_mul` compute the pointwise sum, difference, product**
of the vectors their arguments stand for — for all rows with strictly increasing indices
(stored zeros allowed), every support relation at once. -/
theorem merge_decode {a b : SVec α} (ha : Sorted a) (hb : Sorted b) (i : Nat) :
    decode (sparseSum a b) i = decode a i + decode b i ∧
    decode (sparseDiff a b) i = decode a i - decode b i ∧
    decode (sparseMul a b) i = decode a i * decode b i :=
  ⟨decode_sparseSum a b 0 ha hb i, decode_sparseDiff ha hb i, decode_sparseMul a b 0 ha hb i⟩

/-- **The results are well-formed rows** (strictly increasing indices, *no stored zero* — also
when the inputs store zeros or the operation cancels), and no index is invented. -/
theorem merge_wf {a b : SVec α} (ha : Sorted a) (hb : Sorted b) :
    WF (sparseSum a b) ∧ WF (sparseDiff a b) ∧ WF (sparseMul a b) ∧
    ∀ n, Below n a → Below n b →
      Below n (sparseSum a b) ∧ Below n (sparseDiff a b) ∧ Below n (sparseMul a b) :=
  ⟨⟨sparseSum_sorted a b 0 ha hb, sparseSum_noZero a b⟩,
   ⟨sparseDiff_sorted ha hb, sparseDiff_noZero a b⟩,
   ⟨sparseMul_sorted a b 0 ha hb, sparseMul_noZero a b⟩,
   fun _ h1 h2 => ⟨sparseSum_below a b h1 h2, sparseDiff_below h1 h2, sparseMul_below a b h1⟩⟩

/-- Consequently, on encodings the merges return *exactly* the encoding of the dense result. -/
theorem merge_enc (x y : List α) (h : x.length = y.length) :
    sparseSum (enc x) (enc y) = enc (List.zipWith (· + ·) x y) ∧
    sparseDiff (enc x) (enc y) = enc (List.zipWith (· - ·) x y) ∧
    sparseMul (enc x) (enc y) = enc (List.zipWith (· * ·) x y) :=
  ⟨sparseSum_enc x y h, sparseDiff_enc x y h, sparseMul_enc x y h⟩

/-- **`sparse_dot_product` is the dense dot product** `Σ_i x[i]·y[i]` (`Dense.dot`: the loop
`for i in range(dim): result += x[i] * y[i]`) whenever both rows are non-empty; stored zeros are
irrelevant here. -/
theorem dot_product_agrees (x y : List α) (h : x.length = y.length)
    (hx : enc x ≠ []) (hy : enc y ≠ []) :
    sparseDotProduct (enc x) (enc y) = some (Dense.dot x y) := by
  rw [sparseDotProduct_eq hx hy, mulSum_enc x y h]

/-- The same for arbitrary well-formed rows of an `n`-dimensional space. -/
theorem dot_product_spec {n : Nat} {a b : SVec α} (ha : WF a) (hb : WF b)
    (hna : Below n a) (hnb : Below n b) (hae : a ≠ []) (hbe : b ≠ []) :
    sparseDotProduct a b = some (Dense.dot (toDense n a) (toDense n b)) := by
  have := dot_product_agrees (toDense n a) (toDense n b)
    (by rw [length_toDense, length_toDense])
  rw [Sparse.enc_toDense ha.1 ha.2 hna, Sparse.enc_toDense hb.1 hb.2 hnb] at this
  exact this hae hbe

omit [DecidableEq α] in
/-- **Guard**: with an empty row the kernel executes `ind[0]` on an empty array *before* any
length test — an out-of-bounds read (`none`), not the value `0`.  Reached from
`rp_trees.sparse_select_side` for an all-zero query row. -/
theorem dot_product_empty (a b : SVec α) :
    sparseDotProduct ([] : SVec α) b = none ∧ (a ≠ [] → sparseDotProduct a ([] : SVec α) = none) := by
  refine ⟨rfl, fun h => ?_⟩
  cases a with
  | nil => exact (h rfl).elim
  | cons p a => rfl

end Merges

/-! ## the index-array kernels -/
section Index
variable {α : Type} [DecidableEq α] [Zero α]

omit [DecidableEq α] [Zero α] in
/-- **`fast_intersection_size`** of the index arrays of two sorted rows is the number of common
indices. -/
theorem intersection_size_spec {a b : SVec α} (ha : Sorted a) (hb : Sorted b) :
    intersectionSize (inds a) (inds b) = ((inds a).filter (· ∈ inds b)).length :=
  intersectionSize_eq (incFrom_inds ha) (incFrom_inds hb)

/-- … i.e., for well-formed rows, the number of coordinates at which both vectors are non-zero. -/
theorem intersection_size_agrees (x y : List α) (h : x.length = y.length) :
    intersectionSize (inds (enc x)) (inds (enc y))
      = (x.zip y).countP (fun p => p.1 ≠ 0 ∧ p.2 ≠ 0) := by
  rw [intersection_size_spec (enc_sorted x) (enc_sorted y)]
  exact isect_count_encFrom 0 x y h

omit [DecidableEq α] [Zero α] in
/-- **`arr_union` / `arr_intersect`** of the index arrays of two sorted rows: strictly increasing,
and exactly the union / the intersection; `|union| + |intersection| = nnz₁ + nnz₂`. -/
theorem arr_union_intersect_spec {a b : SVec α} (ha : Sorted a) (hb : Sorted b) :
    (arrUnion (inds a) (inds b)).Pairwise (· < ·) ∧
    (∀ i, i ∈ arrUnion (inds a) (inds b) ↔ i ∈ inds a ∨ i ∈ inds b) ∧
    (arrIntersect (inds a) (inds b)).Pairwise (· < ·) ∧
    (∀ i, i ∈ arrIntersect (inds a) (inds b) ↔ i ∈ inds a ∧ i ∈ inds b) ∧
    (arrUnion (inds a) (inds b)).length + ((inds a).filter (· ∈ inds b)).length
      = a.length + b.length := by
  have pa := (incFrom_inds ha).pairwise
  have pb := (incFrom_inds hb).pairwise
  refine ⟨(arrUnion_spec pa pb).1, (arrUnion_spec pa pb).2, (arrIntersect_spec pa pb).1,
    (arrIntersect_spec pa pb).2, ?_⟩
  have := arrUnion_length pa pb
  simpa [inds] using this

/-- **`dense_union`** (the whole of what `sparse_jensen_shannon_divergence` and
`sparse_symmetric_kl_divergence` do before calling the *dense* kernels): it returns the two
dense vectors restricted to the coordinates where `x[i] + y[i] ≠ 0`; when the vectors never
cancel (in particular for the non-negative data these divergences are defined on) that is the
restriction to the union of the supports. -/
theorem dense_union_spec {β : Type} [DecidableEq β] [AddZeroClass β] (x y : List β)
    (h : x.length = y.length) :
    denseUnion (enc x) (enc y) = (x.zip y).filter (fun p => p.1 + p.2 ≠ 0) ∧
    ((∀ p ∈ x.zip y, p.1 + p.2 = 0 → p.1 = 0 ∧ p.2 = 0) →
      denseUnion (enc x) (enc y) = (x.zip y).filter (fun p => p.1 ≠ 0 ∨ p.2 ≠ 0)) :=
  ⟨by rw [enc, enc]; exact denseUnion_encFrom 0 x y h, denseUnion_enc_union x y h⟩

end Index

/-! ## metrics: Minkowski family, Hamming -/
section RingMetrics
variable {α : Type} [DecidableEq α] [Ring α]

/-- `sparse_squared_euclidean = squared_euclidean`; `sparse_euclidean` / `euclidean` are `sqrt`
of these two equal numbers. -/
theorem sqeuclidean_agrees (x y : List α) (h : x.length = y.length) :
    sqEuclidean (enc x) (enc y) = Dense.sqEuclidean x y := sqEuclidean_enc x y h

/-- `sparse_hamming(…, n_features) = hamming` with `n_features = dim`: the number of stored
entries of `sparse_diff` is the number of coordinates at which the vectors differ. -/
theorem hamming_agrees (x y : List α) (h : x.length = y.length) :
    hamming (enc x) (enc y) x.length = Dense.hamming x y := hamming_enc x y h

variable [LinearOrder α]

/-- the model's `np.abs` / `max` are the absolute value and maximum of the ordered ring -/
theorem absV_maxV_std [IsStrictOrderedRing α] (r v : α) : absV v = |v| ∧ maxV r v = max r v :=
  ⟨absV_eq_abs v, maxV_eq_max r v⟩

/-- `sparse_manhattan = manhattan` -/
theorem manhattan_agrees (x y : List α) (h : x.length = y.length) :
    manhattan (enc x) (enc y) = Dense.manhattan x y := manhattan_enc x y h

/-- `sparse_chebyshev = chebyshev` (skipping the implicit zeros is sound because the running
maximum starts at `0.0` and never becomes negative) -/
theorem chebyshev_agrees [IsStrictOrderedRing α] (x y : List α) (h : x.length = y.length) :
    chebyshev (enc x) (enc y) = Dense.chebyshev x y := chebyshev_enc x y h

/-- `sparse_minkowski = minkowski` for integer `p ≥ 1`, before the final `** (1/p)`
(for `p = 0` the implicit zeros would each contribute `0**0 = 1` to the dense sum only) -/
theorem minkowski_agrees {p : Nat} (hp : 1 ≤ p) (x y : List α) (h : x.length = y.length) :
    minkowskiSum p (enc x) (enc y) = Dense.minkowskiSum p x y := minkowskiSum_enc hp x y h

end RingMetrics

/-! ## metrics: binary (support) metrics with their closed-form corrections -/
section Binary
variable {α : Type} [DecidableEq α] [Zero α]

/-- The three counts every binary sparse metric is computed from equal the dense loop counts:
`num_true_true` (`fast_intersection_size`), `num_non_zero = nnz₁ + nnz₂ − num_true_true`,
`num_not_equal = num_non_zero − num_true_true`. -/
theorem counts_agree (x y : List α) (h : x.length = y.length) :
    numTrueTrue (enc x) (enc y) = Dense.numTrueTrue x y ∧
    numNonZero (enc x) (enc y) = Dense.numNonZero x y ∧
    numNotEqual (enc x) (enc y) = Dense.numNotEqual x y :=
  ⟨numTrueTrue_enc x y h, numNonZero_enc x y h, numNotEqual_enc x y h⟩

/-- `sparse_jaccard = jaccard` -/
theorem jaccard_agrees (x y : List α) (h : x.length = y.length) :
    jaccard (enc x) (enc y) = Dense.jaccard x y := jaccard_enc x y h
/-- `sparse_matching(…, n_features = dim) = matching` -/
theorem matching_agrees (x y : List α) (h : x.length = y.length) :
    matching (enc x) (enc y) x.length = Dense.matching x y := matching_enc x y h
/-- `sparse_dice = dice` -/
theorem dice_agrees (x y : List α) (h : x.length = y.length) :
    dice (enc x) (enc y) = Dense.dice x y := dice_enc x y h
/-- `sparse_kulsinski(…, n_features = dim) = kulsinski` -/
theorem kulsinski_agrees (x y : List α) (h : x.length = y.length) :
    kulsinski (enc x) (enc y) x.length = Dense.kulsinski x y := kulsinski_enc x y h
/-- `sparse_rogers_tanimoto(…, n_features = dim) = rogers_tanimoto` -/
theorem rogerstanimoto_agrees (x y : List α) (h : x.length = y.length) :
    rogersTanimoto (enc x) (enc y) x.length = Dense.rogersTanimoto x y := rogersTanimoto_enc x y h
/-- `sparse_russellrao(…, n_features = dim) = russellrao`, including the sparse kernel's extra
early return on identical index arrays (the dense kernel then takes its own `0.0` branch) -/
theorem russellrao_agrees (x y : List α) (h : x.length = y.length) :
    russellrao (enc x) (enc y) x.length = Dense.russellrao x y := russellrao_enc x y h
/-- `sparse_sokal_michener(…, n_features = dim) = sokal_michener` -/
theorem sokalmichener_agrees (x y : List α) (h : x.length = y.length) :
    sokalMichener (enc x) (enc y) x.length = Dense.sokalMichener x y := sokalMichener_enc x y h
/-- `sparse_sokal_sneath = sokal_sneath` -/
theorem sokalsneath_agrees (x y : List α) (h : x.length = y.length) :
    sokalSneath (enc x) (enc y) = Dense.sokalSneath x y := sokalSneath_enc x y h

end Binary

/-! ## metrics: cosine, Hellinger, Bray–Curtis, correlation -/
section Angular
variable {α : Type} [DecidableEq α]

/-- The three accumulators of `sparse_cosine` (`Σ sparse_mul`, `norm(data1)²`, `norm(data2)²`)
are those of `cosine` (`Σ x·y`, `Σ x²`, `Σ y²`). -/
theorem cosine_parts_agree [Ring α] (x y : List α) (h : x.length = y.length) :
    mulSum (enc x) (enc y) = Dense.dot x y ∧ normSq (enc x) = Dense.normSq x ∧
    normSq (enc y) = Dense.normSq y :=
  ⟨mulSum_enc x y h, normSq_enc x, normSq_enc y⟩

/-- The accumulators of `sparse_hellinger` (`Σ sqrt(x·y)` over `sparse_mul`, `Σ data1`,
`Σ data2`) are those of `hellinger`, for any function `sqrt` with `sqrt 0 = 0`. -/
theorem hellinger_sums_agree [Ring α] (sqrt : α → α) (h0 : sqrt 0 = 0) (x y : List α)
    (h : x.length = y.length) :
    hellingerSum sqrt (enc x) (enc y) = Dense.hellingerSum sqrt x y ∧
    dataSum (enc x) = Dense.sum x ∧ dataSum (enc y) = Dense.sum y :=
  ⟨hellingerSum_enc sqrt h0 x y h, dataSum_enc x, dataSum_enc y⟩

/-- **`sparse_correlation`'s accounting of the implicit coordinates is exact** (this is where
D17 lived): for *arbitrary* constants `mu_x`, `mu_y`, the four-part dot product
(common coordinates via `sparse_mul` of the shifted rows — dropped zero products included —,
coordinates stored only in row 1, only in row 2, and the `n_features − |arr_union|` coordinates
stored in neither, with `common` taken from `arr_intersect` of the index arrays) equals the dense
`Σ_i (x[i] − mu_x)(y[i] − mu_y)`, and `Σ shifted² + (n_features − nnz)·mu²` equals the dense
`Σ_i (x[i] − mu)²`.  In particular entries equal to the row mean (shifted value exactly 0) are
accounted once. -/
theorem correlation_accounting [CommRing α] (mx my : α) (x y : List α) (h : x.length = y.length) :
    corrDot mx my (enc x) (enc y) x.length
        = (x.zip y).foldl (fun r p => r + (p.1 - mx) * (p.2 - my)) 0 ∧
    corrNormSq mx (enc x) x.length = x.foldl (fun r u => r + (u - mx) * (u - mx)) 0 :=
  ⟨corrDot_enc mx my x y h, corrNormSq_enc mx x⟩

/-- The three accumulators of `sparse_correlation` (`dot_product`, `norm1²`, `norm2²`, with the
means `Σ data / n_features`) are those of `correlation`. -/
theorem correlation_parts_agree [Field α] (x y : List α) (h : x.length = y.length) :
    correlationParts (enc x) (enc y) x.length = Dense.correlationParts x y :=
  correlationParts_enc x y h

variable [Field α] [LinearOrder α] [IsStrictOrderedRing α]

/-- `sparse_cosine = cosine`, branches included (`1 − r/(√n₁·√n₂)` vs `1 − r/√(n₁·n₂)`). -/
theorem cosine_agrees {sqrt : α → α} (hs : IsSqrt sqrt) (x y : List α) (h : x.length = y.length) :
    cosine sqrt (enc x) (enc y) = Dense.cosine sqrt x y := cosine_enc hs x y h

/-- `sparse_bray_curtis = bray_curtis` (the sparse `denominator == 0` test against the dense
`denominator > 0`) -/
theorem braycurtis_agrees (x y : List α) (h : x.length = y.length) :
    brayCurtis (enc x) (enc y) = Dense.brayCurtis x y := brayCurtis_enc x y h

/-- `sparse_canberra = canberra`: `sparse_mul(|sparse_diff|, 1/sparse_sum(|data1|, |data2|))`
summed, against the dense loop with its `denominator > 0` guard -/
theorem canberra_agrees (x y : List α) (h : x.length = y.length) :
    canberra (enc x) (enc y) = Dense.canberra x y := canberra_enc x y h

/-- **`sparse_correlation(…, n_features = dim) = correlation`** whenever neither row is empty. -/
theorem correlation_agrees {sqrt : α → α} (hs : IsSqrt sqrt) (x y : List α)
    (h : x.length = y.length) (hx : enc x ≠ []) (hy : enc y ≠ []) :
    correlation sqrt (enc x) (enc y) x.length = Dense.correlation sqrt x y :=
  correlation_enc hs x y h hx hy

/-- **Both rows empty**: both kernels return `0`. -/
theorem correlation_agrees_both_empty {sqrt : α → α} (x y : List α) (hx : enc x = []) (hy : enc y = []) :
    correlation sqrt (enc x) (enc y) x.length = Dense.correlation sqrt x y :=
  correlation_both_empty x y hx hy

/-- **One row empty** (the second early return).  Exactly one empty:
`sparse_correlation` returns `1`; the dense kernel on the zero vector returns `1` unless the other
vector is constant (`norm_y = 0`), where it returns `0` — the two kernels then **disagree**
(finding D18: e.g. `x = (0,0)`, `y = (3,3)`, see the example below).
Full-strength statement `correlation (enc x) (enc y) n = Dense.correlation x y` is therefore
false in that corner; what holds is (row 1 empty; the case "row 2 empty" is the mirror image and
is not stated separately): -/
theorem correlation_empty_row_partial {sqrt : α → α} (x y : List α) (hx : enc x = []) :
    Dense.correlation sqrt x y = (if (Dense.correlationParts x y).2.2 = 0 then 0 else 1) ∧
    correlation sqrt (enc x) (enc y) x.length = (if enc y = [] then 0 else 1) := by
  refine ⟨dense_correlation_of_zero x y hx, ?_⟩
  unfold correlation
  rw [hx]
  cases hy : enc y <;> simp

end Angular

/-! ## the translated kernels (`Gen/Kernels.lean`) refine the model

`GenK.<kernel> fuel <arrays>` is the syntax-directed translation of the numba source: `Option`
monad, `none` = out-of-bounds load/store or fuel exhausted, integer cursors in `Int`.
A CSR row is a pair of parallel arrays `(ind : Array Int, data : Array α)`; `toSVec ind data` is
the model's row (`Int.toNat` on the indices, zipped with the data); `indArr a` / `valArr a` are the
arrays of a model row (`toSVec (indArr a) (valArr a) = a`).  Hypotheses: the two arrays of a row
have the same length and the indices are non-negative (`NonNeg`) — **no sortedness**: kernel and
model take the same branches on unsorted rows too.  The carrier `α` is arbitrary (`Zero`,
decidable equality, `+` / `*`): no arithmetic law is used, so the statements also cover a carrier
with float-like non-associative arithmetic (the comparison `val != 0` being decidable equality). -/
section KernelTie
open Pynn.GenMerge
variable {α : Type} [Zero α] [DecidableEq α]

/-- **`sparse_sum` (translated source) = `sparseSum` (model), and it is memory safe**: with
fuel `≥ n1 + n2 + 1` the kernel — `np.zeros(n1 + n2)` buffers, the `nnz` cursor, the main loop
with its three guarded stores, the two tail loops and the final `[:nnz]` slices — never loads or
stores out of bounds (invariant `nnz ≤ i1 + i2`) and returns the model's index and value lists. -/
theorem kernel_sparse_sum_refines [Add α] (ind1 ind2 : Array Int) (data1 data2 : Array α)
    (h1 : ind1.size = data1.size) (h2 : ind2.size = data2.size)
    (hn1 : NonNeg ind1) (hn2 : NonNeg ind2) (fuel : Nat) (hf : ind1.size + ind2.size + 1 ≤ fuel) :
    GenK.sparse_sum fuel ind1 data1 ind2 data2 =
      some (indArr (sparseSum (toSVec ind1 data1) (toSVec ind2 data2)),
            valArr (sparseSum (toSVec ind1 data1) (toSVec ind2 data2))) :=
  sparse_sum_refines ind1 ind2 data1 data2 h1 h2 hn1 hn2 fuel hf

/-- **`sparse_mul` (translated source) = `sparseMul` (model), memory safe**: the two typed lists
the kernel appends to are the model's index and value lists. -/
theorem kernel_sparse_mul_refines [Mul α] (ind1 ind2 : Array Int) (data1 data2 : Array α)
    (h1 : ind1.size = data1.size) (h2 : ind2.size = data2.size)
    (hn1 : NonNeg ind1) (hn2 : NonNeg ind2) (fuel : Nat) (hf : ind1.size + ind2.size + 1 ≤ fuel) :
    GenK.sparse_mul fuel ind1 data1 ind2 data2 =
      some (indArr (sparseMul (toSVec ind1 data1) (toSVec ind2 data2)),
            valArr (sparseMul (toSVec ind1 data1) (toSVec ind2 data2))) :=
  sparse_mul_refines ind1 ind2 data1 data2 h1 h2 hn1 hn2 fuel hf

/-- **`sparse_dot_product` (translated source) = `dotLoop 0` (model) on non-empty operands,
memory safe**, fuel `≥ n1 + n2`; hence (second part) it equals the model's `sparseDotProduct`. -/
theorem kernel_sparse_dot_product_refines [Add α] [Mul α] (ind1 ind2 : Array Int)
    (data1 data2 : Array α) (h1 : ind1.size = data1.size) (h2 : ind2.size = data2.size)
    (hn1 : NonNeg ind1) (hn2 : NonNeg ind2) (c1 : 0 < ind1.size) (c2 : 0 < ind2.size)
    (fuel : Nat) (hf : ind1.size + ind2.size ≤ fuel) :
    GenK.sparse_dot_product fuel ind1 data1 ind2 data2
        = some (dotLoop 0 (toSVec ind1 data1) (toSVec ind2 data2)) ∧
    GenK.sparse_dot_product fuel ind1 data1 ind2 data2
        = sparseDotProduct (toSVec ind1 data1) (toSVec ind2 data2) :=
  ⟨sparse_dot_product_refines ind1 ind2 data1 data2 h1 h2 hn1 hn2 c1 c2 fuel hf,
   sparse_dot_product_eq_model ind1 ind2 data1 data2 h1 h2 hn1 hn2 fuel hf⟩

omit [DecidableEq α] in
/-- **`sparse_dot_product` with an empty operand reads out of bounds** (`ind1[0]` / `ind2[0]`
before any length test): the translated kernel is `none` for every fuel, whatever the other
arrays hold — and so is the model (`dot_product_empty`). -/
theorem kernel_sparse_dot_product_empty_oob [Add α] [Mul α] (ind1 ind2 : Array Int)
    (data1 data2 : Array α) (fuel : Nat) (h : ind1.size = 0 ∨ ind2.size = 0) :
    GenK.sparse_dot_product fuel ind1 data1 ind2 data2 = none :=
  sparse_dot_product_empty_oob ind1 ind2 data1 data2 fuel h

omit [Zero α] [DecidableEq α] in
/-- **`fast_intersection_size` (translated source) = `intersectionSize` (model), memory safe**,
fuel `≥ n1 + n2`, for all index arrays with non-negative entries, sorted or not. -/
theorem kernel_fast_intersection_size_refines (ar1 ar2 : Array Int) (hn1 : NonNeg ar1)
    (hn2 : NonNeg ar2) (fuel : Nat) (hf : ar1.size + ar2.size ≤ fuel) :
    GenK.fast_intersection_size fuel ar1 ar2
      = some ((intersectionSize (toNats ar1) (toNats ar2) : Nat) : Int) :=
  fast_intersection_size_refines ar1 ar2 hn1 hn2 fuel hf

omit [Zero α] [DecidableEq α] in
/-- every model row is the abstraction of a pair of arrays the kernels accept (so the theorems
above are not vacuous for any model row, and the composed statements below can be phrased on
model rows) -/
theorem kernel_rows_exist (a : SVec α) :
    toSVec (indArr a) (valArr a) = a ∧ (indArr a).size = (valArr a).size ∧ NonNeg (indArr a) ∧
    toNats (indArr a) = inds a :=
  ⟨toSVec_indArr_valArr a, indArr_valArr_size a, nonNeg_indArr a, toNats_indArr a⟩

end KernelTie

/-! ### composed: the dense-agreement theorems, phrased on the translated source -/
section KernelComposed
open Pynn.GenMerge
variable {α : Type} [DecidableEq α] [Ring α]

/-- **The translated `sparse_sum` / `sparse_mul`, run on two rows with strictly increasing
indices, return (in bounds, fuel `≥ n1 + n2 + 1`) arrays that decode to the pointwise sum /
product** of the vectors the inputs stand for (`kernel_sparse_*_refines` + `merge_decode`). -/
theorem kernel_merge_decode (a b : SVec α) (ha : Sorted a) (hb : Sorted b) (fuel : Nat)
    (hf : a.length + b.length + 1 ≤ fuel) :
    ∃ si sv mi mv,
      GenK.sparse_sum fuel (indArr a) (valArr a) (indArr b) (valArr b) = some (si, sv) ∧
      GenK.sparse_mul fuel (indArr a) (valArr a) (indArr b) (valArr b) = some (mi, mv) ∧
      ∀ i, decode (toSVec si sv) i = decode a i + decode b i ∧
           decode (toSVec mi mv) i = decode a i * decode b i := by
  have hs := kernel_sparse_sum_refines (indArr a) (indArr b) (valArr a) (valArr b)
    (indArr_valArr_size a) (indArr_valArr_size b) (nonNeg_indArr a) (nonNeg_indArr b) fuel
    (by rw [indArr_size, indArr_size]; exact hf)
  have hm := kernel_sparse_mul_refines (indArr a) (indArr b) (valArr a) (valArr b)
    (indArr_valArr_size a) (indArr_valArr_size b) (nonNeg_indArr a) (nonNeg_indArr b) fuel
    (by rw [indArr_size, indArr_size]; exact hf)
  rw [toSVec_indArr_valArr, toSVec_indArr_valArr] at hs hm
  refine ⟨_, _, _, _, hs, hm, fun i => ?_⟩
  rw [toSVec_indArr_valArr, toSVec_indArr_valArr]
  exact ⟨(merge_decode ha hb i).1, (merge_decode ha hb i).2.2⟩

/-- **On the CSR encodings of two dense vectors of equal length the translated `sparse_sum` /
`sparse_mul` return exactly the encoding of `x + y` / `x * y`** (`merge_enc`), the translated
`sparse_dot_product` returns the dense dot product when neither encoding is empty
(`dot_product_agrees`), and the translated `fast_intersection_size` returns the number of
coordinates at which both vectors are non-zero (`intersection_size_agrees`). -/
theorem kernel_enc_agrees (x y : List α) (h : x.length = y.length) (fuel : Nat)
    (hf : x.length + y.length + 1 ≤ fuel) :
    GenK.sparse_sum fuel (indArr (enc x)) (valArr (enc x)) (indArr (enc y)) (valArr (enc y))
      = some (indArr (enc (List.zipWith (· + ·) x y)), valArr (enc (List.zipWith (· + ·) x y))) ∧
    GenK.sparse_mul fuel (indArr (enc x)) (valArr (enc x)) (indArr (enc y)) (valArr (enc y))
      = some (indArr (enc (List.zipWith (· * ·) x y)), valArr (enc (List.zipWith (· * ·) x y))) ∧
    (enc x ≠ [] → enc y ≠ [] →
      GenK.sparse_dot_product fuel (indArr (enc x)) (valArr (enc x)) (indArr (enc y)) (valArr (enc y))
        = some (Dense.dot x y)) ∧
    GenK.fast_intersection_size fuel (indArr (enc x)) (indArr (enc y))
      = some (((x.zip y).countP (fun p => p.1 ≠ 0 ∧ p.2 ≠ 0) : Nat) : Int) := by
  have lx : (enc x).length ≤ x.length := by
    rw [enc, length_encFrom]; exact List.countP_le_length
  have ly : (enc y).length ≤ y.length := by
    rw [enc, length_encFrom]; exact List.countP_le_length
  have hf' : (indArr (enc x)).size + (indArr (enc y)).size + 1 ≤ fuel := by
    rw [indArr_size, indArr_size]; omega
  have hs := kernel_sparse_sum_refines (indArr (enc x)) (indArr (enc y)) (valArr (enc x))
    (valArr (enc y)) (indArr_valArr_size _) (indArr_valArr_size _) (nonNeg_indArr _)
    (nonNeg_indArr _) fuel hf'
  have hm := kernel_sparse_mul_refines (indArr (enc x)) (indArr (enc y)) (valArr (enc x))
    (valArr (enc y)) (indArr_valArr_size _) (indArr_valArr_size _) (nonNeg_indArr _)
    (nonNeg_indArr _) fuel hf'
  have hi := kernel_fast_intersection_size_refines (indArr (enc x)) (indArr (enc y))
    (nonNeg_indArr _) (nonNeg_indArr _) fuel (by omega)
  rw [toSVec_indArr_valArr, toSVec_indArr_valArr] at hs hm
  rw [(merge_enc x y h).1] at hs
  rw [(merge_enc x y h).2.2] at hm
  rw [toNats_indArr, toNats_indArr, intersection_size_agrees x y h] at hi
  refine ⟨hs, hm, fun hx hy => ?_, hi⟩
  have c1 : 0 < (indArr (enc x)).size := by
    rw [indArr_size]; exact List.length_pos_iff.2 hx
  have c2 : 0 < (indArr (enc y)).size := by
    rw [indArr_size]; exact List.length_pos_iff.2 hy
  have hd := (kernel_sparse_dot_product_refines (indArr (enc x)) (indArr (enc y)) (valArr (enc x))
    (valArr (enc y)) (indArr_valArr_size _) (indArr_valArr_size _) (nonNeg_indArr _)
    (nonNeg_indArr _) c1 c2 fuel (by omega)).2
  rw [toSVec_indArr_valArr, toSVec_indArr_valArr, dot_product_agrees x y h hx hy] at hd
  exact hd

end KernelComposed

/-! ## the translated sparse METRIC kernels (`Gen/SparseMetricKernels.lean`)

`sparse_diff`, `sparse_squared_euclidean`, `sparse_euclidean`, `sparse_manhattan`,
`sparse_chebyshev` of `sparse.py`, translated from their source text on every run
(`harness/translate_sparsemetrics.py`): thin wrappers that CALL the translated `sparse_sum` of
`Gen/Kernels.lean` (on `-data2`) and loop once over the merged row.  Same hypotheses as
`kernel_sparse_sum_refines` (parallel arrays, non-negative indices, no sortedness), fuel
`≥ n1 + n2 + 1`; the carrier is arbitrary (`0`, decidable `=` / `<`, `+`, `-·`, `*`).
Helper lemmas: `Proofs/GenSparseMetrics.lean`.  NOT translated (tied by sampling only):
`sparse_minkowski`, `sparse_hamming`, `sparse_canberra`, `sparse_bray_curtis`, the binary family,
`sparse_cosine`, `sparse_dot`, `sparse_hellinger`, `sparse_correlation`, … (whole-array numpy
operations, mixed integer / float arithmetic, `norm`). -/
section KernelMetricTie
open Pynn.GenMerge Pynn.GenSparseMetricProofs
variable {α : Type} [Zero α] [DecidableEq α] [Add α] [Neg α]

/-- **`sparse_diff` (translated) = `sparseDiff` (model), memory safe**: the call
`sparse_sum(ind1, data1, ind2, -data2)` of the translated `sparse_sum`. -/
theorem kernel_sparse_diff_refines (ind1 ind2 : Array Int) (data1 data2 : Array α)
    (h1 : ind1.size = data1.size) (h2 : ind2.size = data2.size)
    (hn1 : NonNeg ind1) (hn2 : NonNeg ind2) (fuel : Nat) (hf : ind1.size + ind2.size + 1 ≤ fuel) :
    GenSM.sparse_diff fuel ind1 data1 ind2 data2 =
      some (indArr (sparseDiff (toSVec ind1 data1) (toSVec ind2 data2)),
            valArr (sparseDiff (toSVec ind1 data1) (toSVec ind2 data2))) :=
  sparse_diff_refines ind1 ind2 data1 data2 h1 h2 hn1 hn2 fuel hf

/-- **`sparse_squared_euclidean` (translated) = `sqEuclidean` (model), memory safe** -/
theorem kernel_sparse_squared_euclidean_refines [Mul α] (ind1 ind2 : Array Int) (data1 data2 : Array α)
    (h1 : ind1.size = data1.size) (h2 : ind2.size = data2.size)
    (hn1 : NonNeg ind1) (hn2 : NonNeg ind2) (fuel : Nat) (hf : ind1.size + ind2.size + 1 ≤ fuel) :
    GenSM.sparse_squared_euclidean fuel ind1 data1 ind2 data2
      = some (sqEuclidean (toSVec ind1 data1) (toSVec ind2 data2)) :=
  sparse_squared_euclidean_refines ind1 ind2 data1 data2 h1 h2 hn1 hn2 fuel hf

/-- **`sparse_euclidean` (translated) = `sqrt (sqEuclidean …)`** for whatever `sqrt` it is run with -/
theorem kernel_sparse_euclidean_refines [Mul α] (sqrt : α → α) (ind1 ind2 : Array Int)
    (data1 data2 : Array α) (h1 : ind1.size = data1.size) (h2 : ind2.size = data2.size)
    (hn1 : NonNeg ind1) (hn2 : NonNeg ind2) (fuel : Nat) (hf : ind1.size + ind2.size + 1 ≤ fuel) :
    GenSM.sparse_euclidean sqrt fuel ind1 data1 ind2 data2
      = some (sqrt (sqEuclidean (toSVec ind1 data1) (toSVec ind2 data2))) :=
  sparse_euclidean_refines sqrt ind1 ind2 data1 data2 h1 h2 hn1 hn2 fuel hf

/-- **`sparse_manhattan` (translated) = `manhattan` (model), memory safe** (`np.abs` = `absV`) -/
theorem kernel_sparse_manhattan_refines [Mul α] [LT α] [DecidableLT α] (ind1 ind2 : Array Int)
    (data1 data2 : Array α) (h1 : ind1.size = data1.size) (h2 : ind2.size = data2.size)
    (hn1 : NonNeg ind1) (hn2 : NonNeg ind2) (fuel : Nat) (hf : ind1.size + ind2.size + 1 ≤ fuel) :
    GenSM.sparse_manhattan fuel ind1 data1 ind2 data2
      = some (manhattan (toSVec ind1 data1) (toSVec ind2 data2)) :=
  sparse_manhattan_refines ind1 ind2 data1 data2 h1 h2 hn1 hn2 fuel hf

/-- **`sparse_chebyshev` (translated) = `chebyshev` (model), memory safe** (Python `max` = `maxV`) -/
theorem kernel_sparse_chebyshev_refines [Mul α] [LT α] [DecidableLT α] (ind1 ind2 : Array Int)
    (data1 data2 : Array α) (h1 : ind1.size = data1.size) (h2 : ind2.size = data2.size)
    (hn1 : NonNeg ind1) (hn2 : NonNeg ind2) (fuel : Nat) (hf : ind1.size + ind2.size + 1 ≤ fuel) :
    GenSM.sparse_chebyshev fuel ind1 data1 ind2 data2
      = some (chebyshev (toSVec ind1 data1) (toSVec ind2 data2)) :=
  sparse_chebyshev_refines ind1 ind2 data1 data2 h1 h2 hn1 hn2 fuel hf

end KernelMetricTie

/-! ### property C08 on BOTH regenerated kernels: translated sparse metric on the encodings =
translated dense metric on the vectors -/
section KernelBothSides
open Pynn.GenMerge

/-- on CSR encodings the translated sparse kernels return the model's DENSE reference values
(`sqeuclidean_agrees`, `manhattan_agrees`, `chebyshev_agrees` on the translated source) -/
theorem kernel_sparse_metrics_enc {α : Type} [DecidableEq α] [Ring α] [LinearOrder α]
    [IsStrictOrderedRing α] (x y : List α) (h : x.length = y.length) (fuel : Nat)
    (hf : x.length + y.length + 1 ≤ fuel) :
    GenSM.sparse_squared_euclidean fuel (indArr (enc x)) (valArr (enc x)) (indArr (enc y)) (valArr (enc y))
      = some (Dense.sqEuclidean x y) ∧
    GenSM.sparse_manhattan fuel (indArr (enc x)) (valArr (enc x)) (indArr (enc y)) (valArr (enc y))
      = some (Dense.manhattan x y) ∧
    GenSM.sparse_chebyshev fuel (indArr (enc x)) (valArr (enc x)) (indArr (enc y)) (valArr (enc y))
      = some (Dense.chebyshev x y) := by
  have lx : (enc x).length ≤ x.length := by
    rw [enc, length_encFrom]; exact List.countP_le_length
  have ly : (enc y).length ≤ y.length := by
    rw [enc, length_encFrom]; exact List.countP_le_length
  have hf' : (indArr (enc x)).size + (indArr (enc y)).size + 1 ≤ fuel := by
    rw [indArr_size, indArr_size]; omega
  have a1 := kernel_sparse_squared_euclidean_refines (indArr (enc x)) (indArr (enc y)) (valArr (enc x))
    (valArr (enc y)) (indArr_valArr_size _) (indArr_valArr_size _) (nonNeg_indArr _) (nonNeg_indArr _) fuel hf'
  have a2 := kernel_sparse_manhattan_refines (indArr (enc x)) (indArr (enc y)) (valArr (enc x))
    (valArr (enc y)) (indArr_valArr_size _) (indArr_valArr_size _) (nonNeg_indArr _) (nonNeg_indArr _) fuel hf'
  have a3 := kernel_sparse_chebyshev_refines (indArr (enc x)) (indArr (enc y)) (valArr (enc x))
    (valArr (enc y)) (indArr_valArr_size _) (indArr_valArr_size _) (nonNeg_indArr _) (nonNeg_indArr _) fuel hf'
  rw [toSVec_indArr_valArr, toSVec_indArr_valArr] at a1 a2 a3
  rw [sqeuclidean_agrees x y h] at a1
  rw [manhattan_agrees x y h] at a2
  rw [chebyshev_agrees x y h] at a3
  exact ⟨a1, a2, a3⟩

/-- **C08 stated on both regenerated kernels, over `ℝ`**: the translated `sparse_squared_euclidean` /
`sparse_manhattan` / `sparse_chebyshev` of `sparse.py`, run on the CSR encodings of two real vectors
of equal length, return exactly what the translated `squared_euclidean` / `manhattan` / `chebyshev`
of `distances.py` (`Gen/MetricKernels.lean`, `Props/C07.lean`) return on the vectors themselves —
all six runs without out-of-bounds access. -/
theorem kernel_sparse_eq_dense (x y : List ℝ) (h : x.length = y.length) (fs fd : Nat)
    (hfs : x.length + y.length + 1 ≤ fs) (hfd : x.length + 1 ≤ fd) :
    GenSM.sparse_squared_euclidean fs (indArr (enc x)) (valArr (enc x)) (indArr (enc y)) (valArr (enc y))
      = GenMetric.squared_euclidean fd x.toArray y.toArray ∧
    GenSM.sparse_manhattan fs (indArr (enc x)) (valArr (enc x)) (indArr (enc y)) (valArr (enc y))
      = GenMetric.manhattan fd x.toArray y.toArray ∧
    GenSM.sparse_chebyshev fs (indArr (enc x)) (valArr (enc x)) (indArr (enc y)) (valArr (enc y))
      = GenMetric.chebyshev fd x.toArray y.toArray := by
  obtain ⟨a1, a2, a3⟩ := kernel_sparse_metrics_enc x y h fs hfs
  have hs : x.toArray.size = y.toArray.size := by simpa using h
  have hd : x.toArray.size + 1 ≤ fd := by simpa using hfd
  rw [a1, a2, a3, GenMetricProofs.squared_euclidean_refines _ _ hs fd hd,
    GenMetricProofs.manhattan_refines _ _ hs fd hd, GenMetricProofs.chebyshev_refines _ _ hs fd hd]
  refine ⟨rfl, ?_, ?_⟩
  · congr 1
    unfold Dense.manhattan Metrics.manhattan Metrics.sumBy
    simp only [absV_eq_abs]; rfl
  · congr 1
    unfold Dense.chebyshev Metrics.chebyshev
    simp only [absV_eq_abs, maxV_eq_max]; rfl

end KernelBothSides

/-! ## non-vacuity: concrete runs of the model (`decide +kernel`: the merges are well-founded
recursions, which the elaborator's `decide` does not unfold; kernel evaluation adds no axioms) -/

/-- overlapping supports, a cancellation (index 2) and a stored zero in the input (index 9) -/
example : sparseSum ([(0, 1), (2, -2), (5, 3), (9, 0)] : SVec Int) [(1, 4), (2, 2), (7, 9)]
    = [(0, 1), (1, 4), (5, 3), (7, 9)] := by decide +kernel
example : sparseDiff ([(0, 1), (2, 2), (5, 3)] : SVec Int) [(0, 1), (2, 2), (5, 3)] = [] := by
  decide +kernel
example : sparseMul ([(0, 1), (2, -2), (5, 3)] : SVec Int) [(1, 4), (2, 2), (5, 0)] = [(2, -4)] := by
  decide +kernel
example : sparseDotProduct ([(0, 1), (2, -2), (5, 3)] : SVec Int) [(1, 4), (2, 2), (5, 2)] = some 2 := by
  decide +kernel
example : sparseDotProduct ([] : SVec Int) [(1, 4)] = none := by decide +kernel
example : arrUnion [1, 3, 5] [2, 3, 6] = [1, 2, 3, 5, 6] ∧ arrIntersect [1, 3, 5] [2, 3, 5] = [3, 5]
    ∧ intersectionSize [1, 3, 5] [2, 3, 5] = 2 := by decide +kernel
example : WF (enc ([0, 3, 0, -1] : List Int)) ∧ enc ([0, 3, 0, -1] : List Int) = [(1, 3), (3, -1)] := by
  decide +kernel
example : ¬ WF ([(1, 3), (1, 4)] : SVec Int) ∧ ¬ WF ([(1, 0)] : SVec Int) := by decide +kernel

/-- the D17 input `(1,2,3)` vs `(2,5,1)` (entry `2` equals its row mean): the current code's
accumulators are the dense ones, `dot = −1`, `‖·‖² = 2` and `26/3`
(so the distance is `1 + 1/√(52/3) ≈ 1.240`, not the `2.361` of the defective accounting) -/
example : correlationParts (enc ([1, 2, 3] : List Rat)) (enc [2, 5, 1]) 3 = (-1, 2, 26 / 3) ∧
    Dense.correlationParts ([1, 2, 3] : List Rat) [2, 5, 1] = (-1, 2, 26 / 3) := by decide +kernel

/-- D18, concretely (any `sqrt` with `sqrt 0 = 0`; here the identity): the empty row against a
constant row — sparse `1`, dense `0`. -/
example : correlation id (enc ([0, 0] : List Rat)) (enc [3, 3]) 2 = 1 ∧
    Dense.correlation id ([0, 0] : List Rat) [3, 3] = 0 := by decide +kernel

/-! non-vacuity of the kernel tie: the TRANSLATED kernels executed on small `Int` rows
(same rows as above, as parallel arrays) -/

/-- overlapping supports, a cancellation (index 2), a stored zero (index 9): all three loops and
the final slices run; result = the model's -/
example : GenK.sparse_sum 8 #[0, 2, 5, 9] #[(1 : Int), -2, 3, 0] #[1, 2, 7] #[4, 2, 9]
    = some (#[0, 1, 5, 7], #[1, 4, 3, 9]) := by decide +kernel
/-- one unit of fuel short of what this input needs: `none` (the fuel bound is not idle) -/
example : GenK.sparse_sum 3 #[0, 2, 5, 9] #[(1 : Int), -2, 3, 0] #[1, 2, 7] #[4, 2, 9] = none := by
  decide +kernel
example : GenK.sparse_mul 7 #[0, 2, 5] #[(1 : Int), -2, 3] #[1, 2, 5] #[4, 2, 0]
    = some (#[2], #[-4]) := by decide +kernel
example : GenK.sparse_dot_product 6 #[0, 2, 5] #[(1 : Int), -2, 3] #[1, 2, 5] #[4, 2, 2] = some 2 := by
  decide +kernel
example : GenK.sparse_dot_product 6 #[] (#[] : Array Int) #[1] #[4] = none := by decide +kernel
example : GenK.fast_intersection_size 6 #[1, 3, 5] #[2, 3, 5] = some 2 := by decide +kernel
/-- unsorted rows: kernel and model still agree (here both miss the common index 1) -/
example : GenK.fast_intersection_size 6 #[3, 1] #[1, 3] = some 1 ∧ intersectionSize [3, 1] [1, 3] = 1 := by
  decide +kernel
example : GenMerge.toSVec #[0, 2, 5] #[(1 : Int), -2, 3] = [(0, 1), (2, -2), (5, 3)] ∧
    GenMerge.NonNeg #[0, 2, 5] ∧ ¬ GenMerge.NonNeg #[0, -2] := by decide

/-- the translated sparse metric kernels executed (they call the translated `sparse_sum`): rows
`(0:1, 2:-2, 5:3)` and `(1:4, 2:2, 7:9)`, difference `(0:1, 1:-4, 2:-4, 5:3, 7:-9)` -/
example : GenSM.sparse_diff 7 #[0, 2, 5] #[(1 : Int), -2, 3] #[1, 2, 7] #[4, 2, 9]
    = some (#[0, 1, 2, 5, 7], #[1, -4, -4, 3, -9]) := by decide +kernel
example : GenSM.sparse_squared_euclidean 7 #[0, 2, 5] #[(1 : Int), -2, 3] #[1, 2, 7] #[4, 2, 9] = some 123 ∧
    GenSM.sparse_manhattan 7 #[0, 2, 5] #[(1 : Int), -2, 3] #[1, 2, 7] #[4, 2, 9] = some 21 ∧
    GenSM.sparse_chebyshev 7 #[0, 2, 5] #[(1 : Int), -2, 3] #[1, 2, 7] #[4, 2, 9] = some 9 := by
  decide +kernel

end Pynn.C08
