import PynnVerif.Gen.Tables

/-!
# C06 — serialisation round-trips preserve the index (metric re-selection part)

`Gen.selection` is regenerated on every run by executing the real selection
statements of `NNDescent.__init__` and the real `__setstate__` on a stub for
every public metric name and both data kinds.  A loaded index answers queries
with the distance function and correction that `__setstate__` installs; the
obligations below say these are *the same* as the ones construction chose, so
the compiled search closure of the loaded index computes the same priorities
and reports the same corrected distances.  (The rest of the round-trip — that
`__getstate__` drops only the build forest and that every other attribute is
carried by pickle unchanged — is exercised on real pickle/joblib round-trips by
the harness.)

The obligations are stated as Boolean checks over the generated table, decided by
kernel evaluation (`decide +kernel`, no axioms), and unfolded to the quantified
statements by `List.all_eq_true`.
-/
namespace Pynn.C06
open Pynn.Gen

abbrev Row := String × Bool × Outcome × Outcome
def Row.name (r : Row) := r.1
def Row.sparse (r : Row) := r.2.1
def Row.build (r : Row) := r.2.2.1
def Row.load (r : Row) := r.2.2.2

/-- load = build -/
def chkLoadEqBuild (r : Row) : Bool := r.load == r.build

/-- a CSR index runs a kernel from one of the two sparse tables -/
def chkSparseKernel (r : Row) : Bool :=
  !(r.sparse && r.build.ok) ||
    (sparseNamedDistances.any (fun e => e.2.1 == r.build.kernel) ||
     sparseFastAlternatives.any (fun e => e.2.1 == r.build.kernel))

/-- surrogate/correction pairing follows the alternatives table of the data kind -/
def chkPairing (r : Row) : Bool :=
  !r.build.ok ||
  (if r.sparse then
     (sparseFastAlternatives.contains (r.name, r.build.kernel, r.build.correction)) ||
     (sparseFastAlternatives.all (fun e => e.1 != r.name) &&
        sparseNamedDistances.any (fun e => e.1 == r.name && e.2.1 == r.build.kernel) &&
        r.build.correction == "none")
   else
     (fastAlternatives.contains (r.name, r.build.kernel, r.build.correction)) ||
     (fastAlternatives.all (fun e => e.1 != r.name) &&
        namedDistances.contains (r.name, r.build.kernel) && r.build.correction == "none"))

/-- `n_features` is supplied exactly to the sparse kernels that take it -/
def chkNFeatures (r : Row) : Bool :=
  !(r.sparse && r.build.ok) ||
    sparseNamedDistances.all (fun e => !(e.1 == r.name && e.2.1 == r.build.kernel) ||
      e.2.2 == r.build.needsNFeatures)

set_option maxRecDepth 100000 in
/-- After a pickle round-trip the index uses exactly the kernel, the correction and the
`n_features` convention chosen at construction — for every built-in metric name, dense
and CSR data alike (construction errors stay construction errors). -/
theorem select_load_eq_build : ∀ r ∈ Gen.selection, r.2.2.2 = r.2.2.1 := by
  have h : Gen.selection.all chkLoadEqBuild = true := by decide +kernel
  intro r hr
  have := List.all_eq_true.mp h r hr
  simpa [chkLoadEqBuild, Row.load, Row.build] using this

set_option maxRecDepth 100000 in
/-- A CSR index never runs a dense kernel (neither after construction nor after load). -/
theorem sparse_uses_sparse_kernel : ∀ r ∈ Gen.selection, chkSparseKernel r = true := by
  have h : Gen.selection.all chkSparseKernel = true := by decide +kernel
  exact fun r hr => List.all_eq_true.mp h r hr

set_option maxRecDepth 100000 in
/-- When the public name has an entry in the alternatives table of its data kind, the index
uses *that* surrogate with *that* correction; otherwise the named kernel and no correction. -/
theorem selection_matches_tables : ∀ r ∈ Gen.selection, chkPairing r = true := by
  have h : Gen.selection.all chkPairing = true := by decide +kernel
  exact fun r hr => List.all_eq_true.mp h r hr

set_option maxRecDepth 100000 in
theorem n_features_iff_kernel_takes_it : ∀ r ∈ Gen.selection, chkNFeatures r = true := by
  have h : Gen.selection.all chkNFeatures = true := by decide +kernel
  exact fun r hr => List.all_eq_true.mp h r hr

set_option maxRecDepth 100000 in
/-- Non-vacuity: the surrogate metrics are in the table, for both data kinds. -/
example : Gen.selection.any (fun r => r.1 == "cosine" && r.2.1 &&
    r.2.2.1 == ⟨true, "sparse_alternative_cosine", "sparse_correct_alternative_cosine", false⟩) = true := by
  decide +kernel

/-- …and the check rejects the pre-repair behaviour (a CSR index re-selecting the dense kernel on load). -/
example : chkLoadEqBuild ("cosine", true,
    ⟨true, "sparse_alternative_cosine", "sparse_correct_alternative_cosine", false⟩,
    ⟨true, "alternative_cosine", "correct_alternative_cosine", false⟩) = false := by decide +kernel

end Pynn.C06
