import PynnVerif.Proofs.Transformer

/-!
# C18 — `PyNNDescentTransformer.transform` / `fit_transform` return the query answer as a CSR matrix

Property: *`PyNNDescentTransformer.transform` returns a CSR matrix with one row per query and one
column per fitted sample whose stored entries are exactly the neighbors and distances the
underlying index's query returns for `n_neighbors`, and `fit_transform` returns the fitted data's
neighbor graph in the same layout with `n_neighbors + 1` entries per row.*

Model (`Model/Transformer.lean`): `inds : List (List Int)` / `dists : List (List D)` are the
`(indices, distances)` arrays the index returned (`query(X, k = n_neighbors)` in `transform(X)`,
`neighbor_graph` — built with `n_neighbors + 1` columns — in `fit_transform`, which is
`transform(X=None)`); `coo` is the masked COO assembly (`found = indices.ravel() >= 0`), `tocsr`
is scipy's `tocsr()` (canonical order, entries with equal coordinates are **summed**), and
`transform = tocsr ∘ coo`.  A stored entry is a triple `(row, col, value)`.  `D` is any value
type with an addition; no algebraic law is used.

What the theorems say for the code:

* the matrix stores exactly the answered slots — `transform_entries` — **provided no row of the
  answer names the same sample twice** (that is what C02 gives for a query answer);
* without that proviso `tocsr()` silently adds the two distances up (last section below): this
  was the symptom when a `-1` "not found" marker was translated to a real row number that also
  occurred in the same row.
-/
namespace Pynn.C18
open Pynn.Xf

variable {D : Type}

/-- The COO triples `transform` hands to `tocsr()` are exactly the slots `(i, j)` of the answer
whose index is non-negative, as `(i, indices[i][j], distances[i][j])`.  A slot holding a negative
index (the `-1` "no neighbour found" marker) contributes nothing, because `(c : Int)` with
`c : Nat` is never negative.  No hypothesis on the shapes is needed: the `zip` truncation of the
model agrees with both `[i]?` / `[j]?` look-ups being `some`. -/
theorem mem_coo (inds : List (List Int)) (dists : List (List D)) (i c : Nat) (d : D) :
    (i, c, d) ∈ coo inds dists ↔
      ∃ (ir : List Int) (dr : List D) (j : Nat), inds[i]? = some ir ∧ dists[i]? = some dr ∧
        ir[j]? = some (c : Int) ∧ dr[j]? = some d :=
  Pynn.Xf.mem_coo inds dists i c d

/-- `tocsr()` on triples with pairwise distinct coordinates only reorders them: no value is
altered (nothing is summed), none is lost, none is invented. -/
theorem tocsr_perm_of_nodup [Add D] (es : List (Nat × Nat × D))
    (hnd : (es.map (fun e => (e.1, e.2.1))).Nodup) : (tocsr es).Perm es :=
  Pynn.Xf.tocsr_perm_of_nodup es hnd

/-- The coordinates of `tocsr es` are strictly increasing in (row, col) lexicographic order —
always, so the result is in canonical CSR form and never stores a coordinate twice. -/
theorem tocsr_sorted [Add D] (es : List (Nat × Nat × D)) :
    ((tocsr es).map (fun e => (e.1, e.2.1))).Pairwise (fun a b => keyLt a b = true) ∧
    ((tocsr es).map (fun e => (e.1, e.2.1))).Nodup :=
  ⟨Pynn.Xf.tocsr_sorted es, Pynn.Xf.tocsr_keys_nodup es⟩

/-- `tocsr()` stores exactly the coordinates that occur in its input (whether or not some occur
twice). -/
theorem tocsr_coords [Add D] (es : List (Nat × Nat × D)) (k : Nat × Nat) :
    k ∈ (tocsr es).map (fun e => (e.1, e.2.1)) ↔ k ∈ es.map (fun e => (e.1, e.2.1)) :=
  Pynn.Xf.mem_keys_tocsr es k

/-- If in every row of the answer the non-negative indices are pairwise distinct (what C02
guarantees for a query answer; several `-1` markers in a row are allowed), the COO triples have
pairwise distinct coordinates — so `tocsr()` has nothing to sum. -/
theorem coo_keys_nodup (inds : List (List Int)) (dists : List (List D))
    (hdistinct : ∀ r ∈ inds, (r.filter (fun c => decide (0 ≤ c))).Nodup) :
    ((coo inds dists).map (fun e => (e.1, e.2.1))).Nodup :=
  Pynn.Xf.coo_keys_nodup inds dists hdistinct

/-- Shape `(#queries, n_fit)`, unconditionally: every stored row number is a query number, and if
all returned indices are `< nFit` every stored column number is `< nFit`. -/
theorem transform_shape [Add D] (inds : List (List Int)) (dists : List (List D)) (nFit : Nat) :
    (∀ e ∈ transform inds dists, e.1 < inds.length) ∧
    ((∀ r ∈ inds, ∀ c ∈ r, c < (nFit : Int)) → ∀ e ∈ transform inds dists, e.2.1 < nFit) := by
  have key : ∀ e ∈ transform inds dists, ∃ (ir : List Int) (j : Nat),
      inds[e.1]? = some ir ∧ ir[j]? = some (e.2.1 : Int) := by
    intro e he
    have hk : (e.1, e.2.1) ∈ (tocsr (coo inds dists)).map (fun e => (e.1, e.2.1)) :=
      List.mem_map.mpr ⟨e, he, rfl⟩
    rw [tocsr_coords, List.mem_map] at hk
    obtain ⟨⟨i, c, d⟩, hmem, heq⟩ := hk
    simp only [Prod.mk.injEq] at heq
    obtain ⟨ir, dr, j, h1, _, h3, _⟩ := (mem_coo inds dists i c d).mp hmem
    rw [← heq.1, ← heq.2]
    exact ⟨ir, j, h1, h3⟩
  refine ⟨?_, ?_⟩
  · intro e he
    obtain ⟨ir, j, h1, _⟩ := key e he
    exact (List.getElem?_eq_some_iff.mp h1).1
  · intro hlt e he
    obtain ⟨ir, j, h1, h2⟩ := key e he
    have := hlt ir (List.mem_of_getElem? h1) _ (List.mem_of_getElem? h2)
    omega

/-- **C18 (`transform`)**.  Let `(inds, dists)` be the answer of the index's query, of equal
shapes, such that no row names the same sample twice.  Then the matrix `transform` returns

1. stores `(i, c, d)` iff some slot `j` of query `i` holds neighbour `c ≥ 0` at distance `d`
   (exactly the neighbours and distances the query returned; `-1` slots are not stored);
2. stores as many entries as there are slots with an index `≥ 0` (so nothing was merged);
3. has only row numbers `< #queries`, and only column numbers `< nFit` when the query's indices
   are `< nFit`: shape `(#queries, n_fit)`;
4. is in canonical CSR order (strictly increasing (row, col), no coordinate twice).

Parts 1 and 2 are false without `hdistinct` (see the last section); part 2 also needs `hshape`
because the model's `zip` would drop the surplus slots of a longer `inds` row. -/
theorem transform_entries [Add D] (inds : List (List Int)) (dists : List (List D)) (nFit : Nat)
    (hshape : inds.map List.length = dists.map List.length)
    (hdistinct : ∀ r ∈ inds, (r.filter (fun c => decide (0 ≤ c))).Nodup) :
    (∀ (i c : Nat) (d : D), (i, c, d) ∈ transform inds dists ↔
      ∃ (ir : List Int) (dr : List D) (j : Nat), inds[i]? = some ir ∧ dists[i]? = some dr ∧
        ir[j]? = some (c : Int) ∧ dr[j]? = some d) ∧
    (transform inds dists).length = inds.flatten.countP (fun c => decide (0 ≤ c)) ∧
    (∀ e ∈ transform inds dists, e.1 < inds.length) ∧
    ((∀ r ∈ inds, ∀ c ∈ r, c < (nFit : Int)) → ∀ e ∈ transform inds dists, e.2.1 < nFit) ∧
    ((transform inds dists).map (fun e => (e.1, e.2.1))).Pairwise (fun a b => keyLt a b = true) := by
  have hperm : (transform inds dists).Perm (coo inds dists) :=
    tocsr_perm_of_nodup _ (coo_keys_nodup inds dists hdistinct)
  refine ⟨?_, ?_, (transform_shape inds dists nFit).1, (transform_shape inds dists nFit).2,
    (tocsr_sorted (coo inds dists)).1⟩
  · intro i c d
    rw [hperm.mem_iff]
    exact mem_coo inds dists i c d
  · rw [hperm.length_eq]
    exact Pynn.Xf.coo_length inds dists hshape

/-- Row `i` of the returned matrix stores one entry per slot of query `i` with an index `≥ 0`
(same hypotheses as `transform_entries`). -/
theorem transform_row_count [Add D] (inds : List (List Int)) (dists : List (List D))
    (hshape : inds.map List.length = dists.map List.length)
    (hdistinct : ∀ r ∈ inds, (r.filter (fun c => decide (0 ≤ c))).Nodup)
    (i : Nat) (ir : List Int) (hi : inds[i]? = some ir) :
    (transform inds dists).countP (fun e => e.1 == i) = ir.countP (fun c => decide (0 ≤ c)) := by
  have hperm : (transform inds dists).Perm (coo inds dists) :=
    tocsr_perm_of_nodup _ (coo_keys_nodup inds dists hdistinct)
  rw [hperm.countP_eq]
  exact Pynn.Xf.coo_countP_row i inds dists hshape ir hi

/-- **C18 (`fit_transform`)**.  `fit_transform(X)` is `transform` applied to the index's own
`neighbor_graph`, which was built with `n_neighbors + 1 = k + 1` columns.  If every row of that
graph has exactly `k + 1` entries, all non-negative and pairwise distinct, every row of the
returned matrix stores exactly `k + 1` entries (and, by `transform_entries`, they are that row's
neighbours and distances). -/
theorem fit_transform_row_count [Add D] (inds : List (List Int)) (dists : List (List D)) (k : Nat)
    (hshape : inds.map List.length = dists.map List.length)
    (hrows : ∀ r ∈ inds, r.length = k + 1 ∧ r.Nodup ∧ ∀ c ∈ r, 0 ≤ c)
    (i : Nat) (hi : i < inds.length) :
    (transform inds dists).countP (fun e => e.1 == i) = k + 1 := by
  have hdistinct : ∀ r ∈ inds, (r.filter (fun c => decide (0 ≤ c))).Nodup :=
    fun r hr => (hrows r hr).2.1.sublist List.filter_sublist
  have hget : inds[i]? = some inds[i] := List.getElem?_eq_getElem hi
  rw [transform_row_count inds dists hshape hdistinct i inds[i] hget]
  obtain ⟨hlen, _, hnn⟩ := hrows inds[i] (List.getElem_mem hi)
  rw [← hlen, List.countP_eq_length]
  intro c hc
  simpa using hnn c hc

/-! ## Non-vacuity: concrete answers (`D = Nat`)

A 2-query answer over 4 fitted samples in which the second query found only two neighbours
(`-1` in its last slot): the hypotheses of `transform_entries` hold and the matrix is the
expected one; the `-1` slot (distance `99`) is not stored. -/

example : transform [[2, 0, 3], [1, 3, -1]] [[5, 7, 9], [4, 6, 99]] =
    [(0, 0, 7), (0, 2, 5), (0, 3, 9), (1, 1, 4), (1, 3, 6)] := by decide

example : ∀ r ∈ [[2, 0, 3], [1, 3, -1]], (r.filter (fun c : Int => decide (0 ≤ c))).Nodup := by
  decide

example : ([[2, 0, 3], [1, 3, -1]] : List (List Int)).map List.length =
    ([[5, 7, 9], [4, 6, 99]] : List (List Nat)).map List.length := by decide

example : (transform [[2, 0, 3], [1, 3, -1]] [[5, 7, 9], [4, 6, 99]]).length =
    ([[2, 0, 3], [1, 3, -1]] : List (List Int)).flatten.countP (fun c => decide (0 ≤ c)) := by
  decide

/-- a neighbour graph with `k + 1 = 3` columns: the hypothesis of `fit_transform_row_count` holds
and every row stores 3 entries, the diagonal (distance 0) among them -/
example : (∀ r ∈ ([[0, 2, 1], [1, 0, 2], [2, 1, 0]] : List (List Int)),
      r.length = 2 + 1 ∧ r.Nodup ∧ ∀ c ∈ r, 0 ≤ c) ∧
    transform [[0, 2, 1], [1, 0, 2], [2, 1, 0]] [[0, 3, 4], [0, 4, 5], [0, 3, 5]] =
      [(0, 0, 0), (0, 1, 4), (0, 2, 3), (1, 0, 4), (1, 1, 0), (1, 2, 5),
       (2, 0, 5), (2, 1, 3), (2, 2, 0)] := by decide

/-! ## The failure the hypothesis excludes

Pre-repair symptom: the search answered `[3, -1]` (one neighbour found) and the `-1` was then
translated through the vertex-order table into the real row number `3`, which is already in the
row.  The answer `[3, 3]` with distances `[2, 9]` violates `hdistinct`, its COO triples have a
duplicate coordinate, and `tocsr()` **sums** the two distances: the matrix stores `11`, a value
the query never returned, in one entry instead of two. -/

/-- duplicate coordinate ⇒ the two distances `2` and `9` are summed to `11` -/
example : transform [[3, 3]] [[2, 9]] = [(0, 3, 11)] := by decide

example : ¬ ∀ r ∈ ([[3, 3]] : List (List Int)), (r.filter (fun c => decide (0 ≤ c))).Nodup := by
  decide

example : ¬ ((coo [[3, 3]] [[2, 9]]).map (fun e => (e.1, e.2.1))).Nodup := by decide

/-- both conclusions 1 and 2 of `transform_entries` fail on it: the returned pair `(3, 2)` is not
stored, and 1 entry is stored for 2 found slots -/
example : (0, 3, 2) ∉ transform [[3, 3]] [[2, 9]] ∧ (0, 3, 2) ∈ coo [[3, 3]] [[2, 9]] ∧
    (transform [[3, 3]] [[2, 9]]).length = 1 ∧
    ([[3, 3]] : List (List Int)).flatten.countP (fun c => decide (0 ≤ c)) = 2 := by decide

/-- with the marker left in place (the repaired behaviour) the same answer is stored faithfully -/
example : transform [[3, -1]] [[2, 9]] = [(0, 3, 2)] := by decide

end Pynn.C18
