import PynnVerif.Proofs.RowWise
import PynnVerif.Proofs.LowHigh
import PynnVerif.Proofs.GenApply
import PynnVerif.Proofs.GenApplyHigh
import Mathlib.Data.Nat.Basic  -- `LinearOrder Nat` for the concrete examples at the end

/-!
# C12 — low-memory and high-memory NN-descent compute the same graph

`apply_graph_updates_low_memory` (every thread scans all updates and pushes into the rows it owns)
and `apply_graph_updates_high_memory` (sequential, with the per-row record `in_graph` of everything
that was ever in the row, and pushes of recorded candidates skipped) return the same graph and the
same change count; hence `nn_descent(low_memory=True)` and `nn_descent(low_memory=False)` return
the same graph and leave the generator in the same state.

`P` is any linear order of distances, `dist` any symmetric function on row numbers.  Of the
well-formedness invariant `GraphInv` only two parts are used: every row is a max-heap, and stored
distances are true (`HeapTruth`, `GraphInv.heapTruth`).
-/
namespace Pynn.C12
open Pynn
variable {P : Type} [LinearOrder P]

/-- **The thread count is irrelevant** for `apply_graph_updates_low_memory` (graph and change
count): row `r` is touched only by thread `r % T`, in update order, and pushes into different rows
commute.  The common value is the sequential application `applySeq`. -/
theorem low_memory_thread_count_irrelevant (T T' : Nat) (hT : 0 < T) (hT' : 0 < T') (g : Graph P)
    (ups : List (Upd P)) :
    applyLow T g ups = applyLow T' g ups ∧ applyLow T g ups = applySeq g ups ∧
    (applyLow T g ups).1 = ups.foldl applyBoth g :=
  ⟨Pynn.applyLow_threads_irrelevant T T' hT hT' g ups, applyLow_eq_applySeq T hT g ups,
   applyLow_fst T hT g ups⟩

/-- **Row-wise form of the low-memory result**: row `r` is its old content fed with the offers
addressed to it, and the change count is the sum over the rows of the number of offers the row's
feed accepts. -/
theorem applyLow_rowwise (T : Nat) (hT : 0 < T) (g : Graph P) (ups : List (Upd P)) :
    (∀ r, (applyLow T g ups).1[r]? = g[r]?.map (fun row => feed row (offersFor r ups))) ∧
    (applyLow T g ups).2 =
      ((List.range g.size).map (fun r =>
        (g[r]?.map (fun row => feedCount row (offersFor r ups))).getD 0)).sum :=
  ⟨applyLow_row T hT g ups, applyLow_count T hT g ups⟩

/-- **The initial record** `in_graph[i] = set(current_graph[0][i])` satisfies the record
invariant: every recorded candidate is held. -/
theorem initial_record_valid (dist : Nat → Nat → P) (g : Graph P) :
    InGraphInv dist g (initInGraph g) := Pynn.initInGraph_inv dist g

/-- **A skipped push loses nothing.**  If candidate `q` is recorded for row `p`, pushing it
(with its true distance) is rejected and leaves the graph unchanged: `q` is still held (duplicate
scan), or it has been evicted and is at least as far as the current root. -/
theorem recorded_push_rejected (dist : Nat → Nat → P) (g : Graph P) (s : InGraph)
    (hI : InGraphInv dist g s) (p q : Nat) (hrec : s.has p (q : Int) = true) :
    pushInto g p (dist p q) (q : Int) true = (g, false) := pushInto_recorded hI p q hrec true

/-- **Recording an accepted push keeps the record invariant**, for all rows: the evicted entry was
the root, so its true distance is the old root, which bounds the new root; other rows are
unchanged.  A rejected push changes nothing. -/
theorem push_keeps_record_inv (top : P) (n k : Nat) (dist : Nat → Nat → P) (g : Graph P)
    (s : InGraph) (hG : GraphInv top n k dist g) (hI : InGraphInv dist g s) (r q : Nat) (d : P) :
    ((pushInto g r d (q : Int) true).2 = true →
      InGraphInv dist (pushInto g r d (q : Int) true).1 (s.add r (q : Int))) ∧
    ((pushInto g r d (q : Int) true).2 = false → (pushInto g r d (q : Int) true).1 = g) :=
  ⟨pushInto_inGraphInv_accept hG.heapTruth hI r q d, pushInto_reject g r d q true⟩

/-- **One application: high = low** (graph *and* change count), for every positive thread count,
on a well-formed graph with a valid record and truthful updates of a symmetric distance; the
record invariant holds again afterwards.  (No range hypothesis on the updates is needed: a push
into a row that does not exist is the identity in both paths.) -/
theorem applyHigh_eq_applyLow (T : Nat) (hT : 0 < T) (top : P) (n k : Nat) (dist : Nat → Nat → P)
    (hsymm : ∀ a b, dist a b = dist b a) (g : Graph P) (s : InGraph) (ups : List (Upd P))
    (hG : GraphInv top n k dist g) (hI : InGraphInv dist g s) (hTr : Truthful dist ups) :
    (applyHigh g ups s).1 = applyLow T g ups ∧
    InGraphInv dist (applyHigh g ups s).1.1 (applyHigh g ups s).2 := by
  obtain ⟨h1, _, h3⟩ := applyHigh_eq_applyLow_ht hsymm T hT g ups s hG.heapTruth hI hTr
  exact ⟨h1, h3⟩

/-- the same from the two parts of `GraphInv` that are used -/
theorem applyHigh_eq_applyLow_of_heapTruth (T : Nat) (hT : 0 < T) (dist : Nat → Nat → P)
    (hsymm : ∀ a b, dist a b = dist b a) (g : Graph P) (s : InGraph) (ups : List (Upd P))
    (hH : HeapTruth dist g) (hI : InGraphInv dist g s) (hTr : Truthful dist ups) :
    (applyHigh g ups s).1 = applyLow T g ups ∧
    HeapTruth dist (applyHigh g ups s).1.1 ∧
    InGraphInv dist (applyHigh g ups s).1.1 (applyHigh g ups s).2 :=
  applyHigh_eq_applyLow_ht hsymm T hT g ups s hH hI hTr

section whole
variable {C : Type} [LE C] [LT C] [DecidableLE C] [DecidableLT C]

/-- **`nn_descent` is mode-independent.**  For every configuration, every generator `draw` of the
candidate priorities, every stop test, leaf array and seed: the low-memory and the high-memory run
return the same (sorted) graph and the same generator state — provided the distance is symmetric,
there is at least one thread, and a supplied initial heap is a heap with true distances.
(Nothing is assumed about `top` or the leaf array: out-of-range leaf entries are pushes into rows
that do not exist, the identity in both modes.) -/
theorem descent_low_eq_high (top : P) (ctop : C) (draw : RngState → C × RngState)
    (dist : Nat → Nat → P) (hsymm : ∀ a b, dist a b = dist b a) (n : Nat) (cfg : Cfg)
    (hT : 0 < cfg.nThreads) (stop : Nat → Bool) (rng : RngState) (init : Option (Graph P))
    (hinit : ∀ g, init = some g → HeapTruth dist g) (rpTreeInit : Bool)
    (leafArray : List (List Int)) :
    nnDescent top ctop draw dist n { cfg with lowMemory := true } stop rng init rpTreeInit leafArray =
      nnDescent top ctop draw dist n { cfg with lowMemory := false } stop rng init rpTreeInit leafArray :=
  nnDescent_low_high top ctop draw hsymm n cfg hT stop rng init hinit rpTreeInit leafArray

/-- the same with the supplied heap required to satisfy the full `GraphInv` -/
theorem descent_low_eq_high_of_graphInv (top : P) (ctop : C) (draw : RngState → C × RngState)
    (dist : Nat → Nat → P) (hsymm : ∀ a b, dist a b = dist b a) (n : Nat) (cfg : Cfg)
    (hT : 0 < cfg.nThreads) (stop : Nat → Bool) (rng : RngState) (init : Option (Graph P))
    (hinit : ∀ g, init = some g → GraphInv top n cfg.k dist g) (rpTreeInit : Bool)
    (leafArray : List (List Int)) :
    nnDescent top ctop draw dist n { cfg with lowMemory := true } stop rng init rpTreeInit leafArray =
      nnDescent top ctop draw dist n { cfg with lowMemory := false } stop rng init rpTreeInit leafArray :=
  nnDescent_low_high top ctop draw hsymm n cfg hT stop rng init
    (fun g hg => (hinit g hg).heapTruth) rpTreeInit leafArray

end whole

/-! ## The same about the *generated* low-memory applier

`Gen/Kernels.lean` is regenerated on every run from the source text of `utils.py`
(`harness/translate_kernels.py`); `GenK.apply_graph_updates_low_memory fuel indices priorities flags updates
n_threads` is the translation of `apply_graph_updates_low_memory` (three nested loops over thread number,
update block and entry; `(p, q, d) = updates[i][j]`; `continue` on `p == -1 or q == -1`; `p % n_threads == n`;
two calls of the translated `checked_flagged_heap_push` on the rows with write-back).  `zipGraph D I F` reads
the three 2-D arrays as the model's graph; `updsOf updates` is the model's update list: the blocks
concatenated in order, every triple with `p = -1` or `q = -1` dropped, `(p, q, d) ↦ ⟨p.toNat, q.toNat, d⟩`. -/

/-- **`utils.apply_graph_updates_low_memory` is the model's `applyLow`.**  For a rectangular graph (`n` rows
of `k ≥ 1` slots in all three arrays), `n_threads = T > 0`, update blocks of at most `M` triples each of which
is a placeholder (`p = -1` or `q = -1`) or names two rows (`0 ≤ p, q < n`), and
`fuel ≥ T + #blocks + M + k + 3`: the translated kernel never reads or writes outside an array (result
`some`), keeps the shape of the three arrays, returns the model's change count, and row for row the arrays
are the model's graph.  No order axioms are used (`Q` is any type with decidable `≤`, `<`). -/
theorem kernel_apply_graph_updates_low_memory_refines {Q : Type} [LE Q] [LT Q] [DecidableLE Q] [DecidableLT Q]
    (k : Nat) (hk : 0 < k) (I : Array (Array Int)) (D : Array (Array Q)) (F : Array (Array Int))
    (updates : Array (Array (Int × Int × Q))) (T M : Nat) (hT : 0 < T)
    (hI : I.size = D.size) (hF : F.size = D.size)
    (hrect : ∀ r (h : r < D.size), D[r].size = k ∧ (I[r]'(by omega)).size = k ∧ (F[r]'(by omega)).size = k)
    (hM : ∀ b ∈ updates.toList, b.size ≤ M)
    (hok : ∀ b ∈ updates.toList, ∀ x ∈ b.toList, OkTriple D.size x)
    (fuel : Nat) (hf : T + updates.size + M + k + 3 ≤ fuel) :
    ∃ I' D' F', GenK.apply_graph_updates_low_memory fuel I D F updates (T : Int)
        = some (I', D', F', (((applyLow T (zipGraph D I F) (updsOf updates)).2 : Nat) : Int)) ∧
      D'.size = D.size ∧ I'.size = D.size ∧ F'.size = D.size ∧
      (∀ r (h : r < D'.size) (h' : r < I'.size) (h'' : r < F'.size),
        D'[r].size = k ∧ I'[r].size = k ∧ F'[r].size = k ∧
        (applyLow T (zipGraph D I F) (updsOf updates)).1[r]? = some (zip3 D'[r] I'[r] F'[r])) ∧
      zipGraph D' I' F' = (applyLow T (zipGraph D I F) (updsOf updates)).1 :=
  apply_graph_updates_low_memory_refines' k hk I D F updates T M hT hI hF hrect hM hok fuel hf

/-- **The thread count does not matter — for the generated kernel.**  Run the translated
`apply_graph_updates_low_memory` on the same arrays and updates with any two positive thread counts: both
runs stay in bounds, and they return the same graph (all rows, entries with their flags) and the same
change count, namely the sequential application `applySeq`. -/
theorem kernel_low_memory_thread_count_irrelevant (k : Nat) (hk : 0 < k) (I : Array (Array Int))
    (D : Array (Array P)) (F : Array (Array Int)) (updates : Array (Array (Int × Int × P)))
    (T T' M : Nat) (hT : 0 < T) (hT' : 0 < T') (hI : I.size = D.size) (hF : F.size = D.size)
    (hrect : ∀ r (h : r < D.size), D[r].size = k ∧ (I[r]'(by omega)).size = k ∧ (F[r]'(by omega)).size = k)
    (hM : ∀ b ∈ updates.toList, b.size ≤ M)
    (hok : ∀ b ∈ updates.toList, ∀ x ∈ b.toList, OkTriple D.size x)
    (fuel : Nat) (hf : T + updates.size + M + k + 3 ≤ fuel) (hf' : T' + updates.size + M + k + 3 ≤ fuel) :
    ∃ I1 D1 F1 I2 D2 F2 c,
      GenK.apply_graph_updates_low_memory fuel I D F updates (T : Int) = some (I1, D1, F1, c) ∧
      GenK.apply_graph_updates_low_memory fuel I D F updates (T' : Int) = some (I2, D2, F2, c) ∧
      zipGraph D1 I1 F1 = zipGraph D2 I2 F2 ∧
      (zipGraph D1 I1 F1, c) = ((applySeq (zipGraph D I F) (updsOf updates)).1,
                                (((applySeq (zipGraph D I F) (updsOf updates)).2 : Nat) : Int)) := by
  obtain ⟨I1, D1, F1, h1, _, _, _, _, z1⟩ :=
    apply_graph_updates_low_memory_refines' k hk I D F updates T M hT hI hF hrect hM hok fuel hf
  obtain ⟨I2, D2, F2, h2, _, _, _, _, z2⟩ :=
    apply_graph_updates_low_memory_refines' k hk I D F updates T' M hT' hI hF hrect hM hok fuel hf'
  obtain ⟨e1, e2, _⟩ := low_memory_thread_count_irrelevant T T' hT hT' (zipGraph D I F) (updsOf updates)
  refine ⟨I1, D1, F1, I2, D2, F2, _, h1, ?_, ?_, ?_⟩
  · rw [h2, e1]
  · rw [z1, z2, e1]
  · rw [z1, e2]

/-- **High-memory model = generated low-memory kernel.**  On a well-formed graph held in the three
arrays, with a valid `in_graph` record and truthful updates of a symmetric distance, what the translated
`apply_graph_updates_low_memory` leaves in the arrays and returns is exactly the graph and change count of
the (modelled) `apply_graph_updates_high_memory`, for every positive thread count. -/
theorem kernel_low_memory_eq_high_memory (k : Nat) (hk : 0 < k) (I : Array (Array Int))
    (D : Array (Array P)) (F : Array (Array Int)) (updates : Array (Array (Int × Int × P)))
    (T M : Nat) (hT : 0 < T) (hI : I.size = D.size) (hF : F.size = D.size)
    (hrect : ∀ r (h : r < D.size), D[r].size = k ∧ (I[r]'(by omega)).size = k ∧ (F[r]'(by omega)).size = k)
    (hM : ∀ b ∈ updates.toList, b.size ≤ M)
    (hok : ∀ b ∈ updates.toList, ∀ x ∈ b.toList, OkTriple D.size x)
    (fuel : Nat) (hf : T + updates.size + M + k + 3 ≤ fuel)
    (dist : Nat → Nat → P) (hsymm : ∀ a b, dist a b = dist b a) (s : InGraph)
    (hH : HeapTruth dist (zipGraph D I F)) (hS : InGraphInv dist (zipGraph D I F) s)
    (hTr : Truthful dist (updsOf updates)) :
    ∃ I' D' F' c, GenK.apply_graph_updates_low_memory fuel I D F updates (T : Int) = some (I', D', F', c) ∧
      zipGraph D' I' F' = (applyHigh (zipGraph D I F) (updsOf updates) s).1.1 ∧
      c = (((applyHigh (zipGraph D I F) (updsOf updates) s).1.2 : Nat) : Int) := by
  obtain ⟨I', D', F', h1, _, _, _, _, z1⟩ :=
    apply_graph_updates_low_memory_refines' k hk I D F updates T M hT hI hF hrect hM hok fuel hf
  obtain ⟨e, _, _⟩ := applyHigh_eq_applyLow_of_heapTruth T hT dist hsymm (zipGraph D I F) s (updsOf updates) hH hS hTr
  exact ⟨I', D', F', _, h1, by rw [z1, e], by rw [e]⟩

/-- **`utils.apply_graph_updates_high_memory` is the model's `applyHigh`.**  The translation keeps `in_graph` (a
list of sets, used only through `x in in_graph[r]` and `in_graph[r].add(x)`) as `Array (List Int)` — `add` conses,
`in` is list membership — which *is* the model's `InGraph`.  For a rectangular graph (`n` rows of `k ≥ 1` slots),
one recorded set per row, update blocks of at most `M` triples each a placeholder or naming two rows, and
`fuel ≥ #blocks + M + k + 2`: the translated kernel never leaves an array, keeps the shape, and returns exactly
the model's record, change count and (row for row) graph.  No order axioms. -/
theorem kernel_apply_graph_updates_high_memory_refines {Q : Type} [LE Q] [LT Q] [DecidableLE Q] [DecidableLT Q]
    (k : Nat) (hk : 0 < k) (I : Array (Array Int)) (D : Array (Array Q)) (F : Array (Array Int))
    (updates : Array (Array (Int × Int × Q))) (s : InGraph) (M : Nat)
    (hI : I.size = D.size) (hF : F.size = D.size) (hS : s.size = D.size)
    (hrect : ∀ r (h : r < D.size), D[r].size = k ∧ (I[r]'(by omega)).size = k ∧ (F[r]'(by omega)).size = k)
    (hM : ∀ b ∈ updates.toList, b.size ≤ M)
    (hok : ∀ b ∈ updates.toList, ∀ x ∈ b.toList, OkTriple D.size x)
    (fuel : Nat) (hf : updates.size + M + k + 2 ≤ fuel) :
    ∃ I' D' F', GenK.apply_graph_updates_high_memory fuel I D F updates s
        = some (I', D', F', (applyHigh (zipGraph D I F) (updsOf updates) s).2,
                (((applyHigh (zipGraph D I F) (updsOf updates) s).1.2 : Nat) : Int)) ∧
      D'.size = D.size ∧ I'.size = D.size ∧ F'.size = D.size ∧
      (∀ r (h : r < D'.size) (h' : r < I'.size) (h'' : r < F'.size),
        D'[r].size = k ∧ I'[r].size = k ∧ F'[r].size = k) ∧
      zipGraph D' I' F' = (applyHigh (zipGraph D I F) (updsOf updates) s).1.1 :=
  apply_graph_updates_high_memory_refines' k hk I D F updates s M hI hF hS hrect hM hok fuel hf

/-- **C12 on the two regenerated kernels.**  On a graph with heap order and true distances held in the three
arrays, a valid `in_graph` record with one set per row, and truthful updates of a symmetric distance: the
*translated* `apply_graph_updates_high_memory` and the *translated* `apply_graph_updates_low_memory` (any
positive thread count) both stay in bounds and return the same graph (every row, entries with flags) and the
same change count. -/
theorem kernel_high_memory_eq_low_memory (k : Nat) (hk : 0 < k) (I : Array (Array Int))
    (D : Array (Array P)) (F : Array (Array Int)) (updates : Array (Array (Int × Int × P))) (s : InGraph)
    (T M : Nat) (hT : 0 < T) (hI : I.size = D.size) (hF : F.size = D.size) (hS : s.size = D.size)
    (hrect : ∀ r (h : r < D.size), D[r].size = k ∧ (I[r]'(by omega)).size = k ∧ (F[r]'(by omega)).size = k)
    (hM : ∀ b ∈ updates.toList, b.size ≤ M)
    (hok : ∀ b ∈ updates.toList, ∀ x ∈ b.toList, OkTriple D.size x)
    (fuel : Nat) (hf : T + updates.size + M + k + 3 ≤ fuel)
    (dist : Nat → Nat → P) (hsymm : ∀ a b, dist a b = dist b a)
    (hH : HeapTruth dist (zipGraph D I F)) (hInv : InGraphInv dist (zipGraph D I F) s)
    (hTr : Truthful dist (updsOf updates)) :
    ∃ Ih Dh Fh sh Il Dl Fl c,
      GenK.apply_graph_updates_high_memory fuel I D F updates s = some (Ih, Dh, Fh, sh, c) ∧
      GenK.apply_graph_updates_low_memory fuel I D F updates (T : Int) = some (Il, Dl, Fl, c) ∧
      zipGraph Dh Ih Fh = zipGraph Dl Il Fl ∧
      InGraphInv dist (zipGraph Dh Ih Fh) sh := by
  obtain ⟨Ih, Dh, Fh, h1, _, _, _, _, zh⟩ :=
    apply_graph_updates_high_memory_refines' k hk I D F updates s M hI hF hS hrect hM hok fuel (by omega)
  obtain ⟨Il, Dl, Fl, h2, _, _, _, _, zl⟩ :=
    apply_graph_updates_low_memory_refines' k hk I D F updates T M hT hI hF hrect hM hok fuel hf
  obtain ⟨e, _, hinv⟩ := applyHigh_eq_applyLow_of_heapTruth T hT dist hsymm (zipGraph D I F) s (updsOf updates) hH hInv hTr
  refine ⟨Ih, Dh, Fh, _, Il, Dl, Fl, _, h1, ?_, ?_, ?_⟩
  · rw [h2, e]
  · rw [zh, zl, e]
  · rw [zh]; exact hinv

/-! ## non-vacuity -/

/-- distance on a line -/
private def lineDist : Nat → Nat → Nat := fun a b => if a ≤ b then b - a else a - b

/-- Three points on a line, one slot per row.  `(0,2,2)` fills rows 0 and 2; `(0,1,1)` evicts
candidate 2 from row 0; when `(0,2,2)` arrives again the high-memory path finds `2 ∈ in_graph[0]`
(although row 0 no longer holds 2) and `0 ∈ in_graph[2]` and skips both pushes; the low-memory
path performs them and the heap rejects both (too far / duplicate).  Same graph, same count. -/
example :
    let g := mkGraph (100 : Nat) 3 1
    let ups : List (Upd Nat) := [⟨0, 2, 2⟩, ⟨0, 1, 1⟩, ⟨0, 2, 2⟩]
    let mid := applyHigh g (ups.take 2) (initInGraph g)
    -- before the third update: 2 is recorded for row 0 but not held by it
    mid.2.has 0 2 = true ∧ (mid.1.1.map (fun r => r.toList.map (·.idx))).toList = [[1], [0], [0]] ∧
    -- the third update is skipped entirely
    applyHigh mid.1.1 (ups.drop 2) mid.2 = ((mid.1.1, 0), mid.2) ∧
    -- and the two modes agree on graph and count (3 threads / 1 thread)
    (applyHigh g ups (initInGraph g)).1 = applyLow 3 g ups ∧
    (applyHigh g ups (initInGraph g)).1 = applyLow 1 g ups ∧
    (applyLow 3 g ups).2 = 4 := by decide +kernel

/-- the hypotheses of `applyHigh_eq_applyLow` are satisfiable on that input -/
example : Truthful lineDist [⟨0, 2, 2⟩, ⟨0, 1, 1⟩, ⟨0, 2, 2⟩] ∧ (∀ a b, lineDist a b = lineDist b a) := by
  refine ⟨by unfold Truthful; decide, ?_⟩
  intro a b
  simp only [lineDist]
  split <;> split <;> omega

private def exI : Array (Array Int) := #[#[-1], #[-1], #[-1]]
private def exD : Array (Array Nat) := #[#[100], #[100], #[100]]
private def exF : Array (Array Int) := #[#[0], #[0], #[0]]
private def exUps : Array (Array (Int × Int × Nat)) :=
  #[#[(-1, -1, 100), (0, 2, 2), (0, 1, 1)], #[(-1, -1, 100), (0, 2, 2)]]

/-- The generated low-memory applier executed by the Lean kernel on the three-point example above (one slot
per row, two update blocks each starting with the `(-1, -1, ·)` placeholder `nn_descent` puts there): with 3
threads and with 1 thread it returns the same arrays and 4 changes, and the arrays zip to the model's
`applyLow`; an update naming row 3 of a 3-row graph makes it read outside `priorities` (`none`) — the range
hypothesis `OkTriple` of the refinement theorem is a real precondition of the kernel. -/
example : GenK.apply_graph_updates_low_memory 12 exI exD exF exUps 3
    = some (#[#[1], #[0], #[0]], #[#[1], #[1], #[2]], #[#[1], #[1], #[1]], 4) := by decide +kernel
example : GenK.apply_graph_updates_low_memory 12 exI exD exF exUps 1
    = GenK.apply_graph_updates_low_memory 12 exI exD exF exUps 3 := by decide +kernel
example : (updsOf exUps).map (fun u => (u.p, u.q, u.d)) = [(0, 2, 2), (0, 1, 1), (0, 2, 2)] := by decide +kernel
example : zipGraph #[#[1], #[1], #[2]] #[#[1], #[0], #[0]] #[#[1], #[1], #[1]]
    = (applyLow 3 (zipGraph exD exI exF) (updsOf exUps)).1 := by decide +kernel
example : (applyLow 3 (zipGraph exD exI exF) (updsOf exUps)).2 = 4 := by decide +kernel
example : GenK.apply_graph_updates_low_memory 12 exI exD exF #[#[(0, 3, 2)]] 1 = none := by decide +kernel

/-- the generated high-memory applier on the same input, from the initial record `in_graph[i] = set(indices[i])`: same
arrays and count as the generated low-memory applier; the record gains the accepted candidates -/
example : (GenK.apply_graph_updates_high_memory 12 exI exD exF exUps #[[-1], [-1], [-1]]).map (fun r => (r.1, r.2.1, r.2.2.1))
    = some (#[#[1], #[0], #[0]], #[#[1], #[1], #[2]], #[#[1], #[1], #[1]]) := by decide +kernel
example : (GenK.apply_graph_updates_high_memory 12 exI exD exF exUps #[[-1], [-1], [-1]]).map (fun r => r.2.2.2)
    = some (#[[1, 2, -1], [0, -1], [0, -1]], 4) := by decide +kernel
example : (GenK.apply_graph_updates_high_memory 12 exI exD exF exUps #[[-1], [-1]]).isSome = false := by decide +kernel

/-- the hypotheses of `kernel_apply_graph_updates_low_memory_refines` hold of that input (`k = 1`, `M = 3`) -/
example : (∀ b ∈ exUps.toList, b.size ≤ 3) ∧ (∀ b ∈ exUps.toList, ∀ x ∈ b.toList, OkTriple 3 x) := by
  refine ⟨by decide, ?_⟩
  intro b hb x hx
  simp only [exUps, List.mem_cons, List.not_mem_nil, or_false] at hb
  rcases hb with rfl | rfl <;> simp only [List.mem_cons, List.not_mem_nil, or_false] at hx <;>
    rcases hx with rfl | rfl | rfl <;> simp [OkTriple]

/-- candidate priorities for the concrete run: the Tausworthe stream reduced mod 1000 -/
private def drawN (s : RngState) : Nat × RngState := ((tauRandInt s).1.natAbs % 1000, (tauRandInt s).2)

/-- a whole `nn_descent` run (six points on a line, two leaves, `k = 2`, three candidates, two
threads, real `tau_rand_int` stream) evaluated in both modes by the kernel: identical results.
Every row holds the point itself (distance 0, from the `(p, p, 0)` self pair) and a nearest other
point. -/
private def runBoth (low : Bool) : Graph Nat × RngState :=
  nnDescent (100 : Nat) (1000 : Nat) drawN lineDist 6
    { k := 2, maxCand := 3, nIters := 3, nThreads := 2, lowMemory := low }
    (fun c => c == 0) (RngState.ofInts 1234 5678 91011) none true [[0, 1, 2, -1], [3, 4, 5, -1]]

example : runBoth true = runBoth false ∧
    ((runBoth false).1.map (fun r => r.toList.map (·.idx))).toList
      = [[0, 1], [1, 0], [2, 1], [3, 4], [4, 3], [5, 4]] := by decide +kernel

/-- the hypotheses of `descent_low_eq_high` are satisfiable: any configuration with a thread, any
candidate generator, stop test, seed and leaf array, from an empty heap -/
example (cfg : Cfg) (hT : 0 < cfg.nThreads) (draw : RngState → Nat × RngState) (stop : Nat → Bool)
    (rng : RngState) (leafArray : List (List Int)) :
    nnDescent (100 : Nat) (1000 : Nat) draw lineDist 6 { cfg with lowMemory := true } stop rng none true leafArray =
      nnDescent (100 : Nat) (1000 : Nat) draw lineDist 6 { cfg with lowMemory := false } stop rng none true leafArray :=
  descent_low_eq_high _ _ _ _ (by intro a b; simp only [lineDist]; split <;> split <;> omega) 6 cfg hT
    stop rng none (fun _ h => nomatch h) true leafArray

/-- The second branch as it was before the repair: it pushed `(d, q)` into row `p` *again*
instead of `(d, p)` into row `q`. -/
private def applyHighBuggy (g : Graph Nat) (ups : List (Upd Nat)) (s : InGraph) : (Graph Nat × Nat) × InGraph :=
  ups.foldl (fun (acc : (Graph Nat × Nat) × InGraph) u =>
    let g := acc.1.1; let c := acc.1.2; let s := acc.2
    let p : Int := u.p; let q : Int := u.q
    if s.has u.p q && s.has u.q p then acc else
      let acc1 : (Graph Nat × Nat) × InGraph :=
        if s.has u.p q then acc else
          let r := pushInto g u.p u.d q true
          if r.2 then ((r.1, c + 1), s.add u.p q) else ((r.1, c), s)
      let g := acc1.1.1; let c := acc1.1.2; let s := acc1.2
      if u.p = u.q || s.has u.q p then acc1 else
        let r := pushInto g u.p u.d q true      -- the defect: row `p`, candidate `q`
        if r.2 then ((r.1, c + 1), s.add u.p q) else ((r.1, c), s)) ((g, 0), s)

/-- Two points, one update `(0,1,1)`: the pre-repair code never tells row 1 about point 0, so the
high-memory graph differs from the low-memory one — the equality above is a property of the
repaired code, not of any code of this shape. -/
example :
    let g := mkGraph (100 : Nat) 2 1
    let ups : List (Upd Nat) := [⟨0, 1, 1⟩]
    ((applyHighBuggy g ups (initInGraph g)).1.1.map (fun r => r.toList.map (·.idx))).toList = [[1], [-1]] ∧
    ((applyLow 1 g ups).1.map (fun r => r.toList.map (·.idx))).toList = [[1], [0]] ∧
    (applyHighBuggy g ups (initInGraph g)).1 ≠ applyLow 1 g ups ∧
    (applyHigh g ups (initInGraph g)).1 = applyLow 1 g ups := by decide +kernel

end Pynn.C12
