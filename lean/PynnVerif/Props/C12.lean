import PynnVerif.Proofs.RowWise
import PynnVerif.Proofs.LowHigh
import Mathlib.Data.Nat.Basic  -- `LinearOrder Nat` for the concrete examples at the end

/-!
# C12 — low-memory and high-memory NN-descent compute the same graph

`apply_graph_updates_low_memory` (every thread scans all updates and pushes into the rows it owns)
and `apply_graph_updates_high_memory` (sequential, with the per-row record `in_graph` of everything
that was ever in the row, and pushes of recorded candidates skipped) return the same graph and the
same change count; hence `nn_descent(low_memory=True)` and `nn_descent(low_memory=False)` return
the same graph and leave the generator in the same state.

`P` is any linear order of distances, `dist` any symmetric function on row numbers.  Of the
well-formedness invariant `GraphInv` only two parts are used: every row is a max-heap, and stored
distances are true (`HeapTruth`, `GraphInv.heapTruth`).
-/
namespace Pynn.C12
open Pynn
variable {P : Type} [LinearOrder P]

/-- **The thread count is irrelevant** for `apply_graph_updates_low_memory` (graph and change
count): row `r` is touched only by thread `r % T`, in update order, and pushes into different rows
commute.  The common value is the sequential application `applySeq`. -/
theorem low_memory_thread_count_irrelevant (T T' : Nat) (hT : 0 < T) (hT' : 0 < T') (g : Graph P)
    (ups : List (Upd P)) :
    applyLow T g ups = applyLow T' g ups ∧ applyLow T g ups = applySeq g ups ∧
    (applyLow T g ups).1 = ups.foldl applyBoth g :=
  ⟨Pynn.applyLow_threads_irrelevant T T' hT hT' g ups, applyLow_eq_applySeq T hT g ups,
   applyLow_fst T hT g ups⟩

/-- **Row-wise form of the low-memory result**: row `r` is its old content fed with the offers
addressed to it, and the change count is the sum over the rows of the number of offers the row's
feed accepts. -/
theorem applyLow_rowwise (T : Nat) (hT : 0 < T) (g : Graph P) (ups : List (Upd P)) :
    (∀ r, (applyLow T g ups).1[r]? = g[r]?.map (fun row => feed row (offersFor r ups))) ∧
    (applyLow T g ups).2 =
      ((List.range g.size).map (fun r =>
        (g[r]?.map (fun row => feedCount row (offersFor r ups))).getD 0)).sum :=
  ⟨applyLow_row T hT g ups, applyLow_count T hT g ups⟩

/-- **The initial record** `in_graph[i] = set(current_graph[0][i])` satisfies the record
invariant: every recorded candidate is held. -/
theorem initial_record_valid (dist : Nat → Nat → P) (g : Graph P) :
    InGraphInv dist g (initInGraph g) := Pynn.initInGraph_inv dist g

/-- **A skipped push loses nothing.**  If candidate `q` is recorded for row `p`, pushing it
(with its true distance) is rejected and leaves the graph unchanged: `q` is still held (duplicate
scan), or it has been evicted and is at least as far as the current root. -/
theorem recorded_push_rejected (dist : Nat → Nat → P) (g : Graph P) (s : InGraph)
    (hI : InGraphInv dist g s) (p q : Nat) (hrec : s.has p (q : Int) = true) :
    pushInto g p (dist p q) (q : Int) true = (g, false) := pushInto_recorded hI p q hrec true

/-- **Recording an accepted push keeps the record invariant**, for all rows: the evicted entry was
the root, so its true distance is the old root, which bounds the new root; other rows are
unchanged.  A rejected push changes nothing. -/
theorem push_keeps_record_inv (top : P) (n k : Nat) (dist : Nat → Nat → P) (g : Graph P)
    (s : InGraph) (hG : GraphInv top n k dist g) (hI : InGraphInv dist g s) (r q : Nat) (d : P) :
    ((pushInto g r d (q : Int) true).2 = true →
      InGraphInv dist (pushInto g r d (q : Int) true).1 (s.add r (q : Int))) ∧
    ((pushInto g r d (q : Int) true).2 = false → (pushInto g r d (q : Int) true).1 = g) :=
  ⟨pushInto_inGraphInv_accept hG.heapTruth hI r q d, pushInto_reject g r d q true⟩

/-- **One application: high = low** (graph *and* change count), for every positive thread count,
on a well-formed graph with a valid record and truthful updates of a symmetric distance; the
record invariant holds again afterwards.  (No range hypothesis on the updates is needed: a push
into a row that does not exist is the identity in both paths.) -/
theorem applyHigh_eq_applyLow (T : Nat) (hT : 0 < T) (top : P) (n k : Nat) (dist : Nat → Nat → P)
    (hsymm : ∀ a b, dist a b = dist b a) (g : Graph P) (s : InGraph) (ups : List (Upd P))
    (hG : GraphInv top n k dist g) (hI : InGraphInv dist g s) (hTr : Truthful dist ups) :
    (applyHigh g ups s).1 = applyLow T g ups ∧
    InGraphInv dist (applyHigh g ups s).1.1 (applyHigh g ups s).2 := by
  obtain ⟨h1, _, h3⟩ := applyHigh_eq_applyLow_ht hsymm T hT g ups s hG.heapTruth hI hTr
  exact ⟨h1, h3⟩

/-- the same from the two parts of `GraphInv` that are used -/
theorem applyHigh_eq_applyLow_of_heapTruth (T : Nat) (hT : 0 < T) (dist : Nat → Nat → P)
    (hsymm : ∀ a b, dist a b = dist b a) (g : Graph P) (s : InGraph) (ups : List (Upd P))
    (hH : HeapTruth dist g) (hI : InGraphInv dist g s) (hTr : Truthful dist ups) :
    (applyHigh g ups s).1 = applyLow T g ups ∧
    HeapTruth dist (applyHigh g ups s).1.1 ∧
    InGraphInv dist (applyHigh g ups s).1.1 (applyHigh g ups s).2 :=
  applyHigh_eq_applyLow_ht hsymm T hT g ups s hH hI hTr

section whole
variable {C : Type} [LE C] [LT C] [DecidableLE C] [DecidableLT C]

/-- **`nn_descent` is mode-independent.**  For every configuration, every generator `draw` of the
candidate priorities, every stop test, leaf array and seed: the low-memory and the high-memory run
return the same (sorted) graph and the same generator state — provided the distance is symmetric,
there is at least one thread, and a supplied initial heap is a heap with true distances.
(Nothing is assumed about `top` or the leaf array: out-of-range leaf entries are pushes into rows
that do not exist, the identity in both modes.) -/
theorem descent_low_eq_high (top : P) (ctop : C) (draw : RngState → C × RngState)
    (dist : Nat → Nat → P) (hsymm : ∀ a b, dist a b = dist b a) (n : Nat) (cfg : Cfg)
    (hT : 0 < cfg.nThreads) (stop : Nat → Bool) (rng : RngState) (init : Option (Graph P))
    (hinit : ∀ g, init = some g → HeapTruth dist g) (rpTreeInit : Bool)
    (leafArray : List (List Int)) :
    nnDescent top ctop draw dist n { cfg with lowMemory := true } stop rng init rpTreeInit leafArray =
      nnDescent top ctop draw dist n { cfg with lowMemory := false } stop rng init rpTreeInit leafArray :=
  nnDescent_low_high top ctop draw hsymm n cfg hT stop rng init hinit rpTreeInit leafArray

/-- the same with the supplied heap required to satisfy the full `GraphInv` -/
theorem descent_low_eq_high_of_graphInv (top : P) (ctop : C) (draw : RngState → C × RngState)
    (dist : Nat → Nat → P) (hsymm : ∀ a b, dist a b = dist b a) (n : Nat) (cfg : Cfg)
    (hT : 0 < cfg.nThreads) (stop : Nat → Bool) (rng : RngState) (init : Option (Graph P))
    (hinit : ∀ g, init = some g → GraphInv top n cfg.k dist g) (rpTreeInit : Bool)
    (leafArray : List (List Int)) :
    nnDescent top ctop draw dist n { cfg with lowMemory := true } stop rng init rpTreeInit leafArray =
      nnDescent top ctop draw dist n { cfg with lowMemory := false } stop rng init rpTreeInit leafArray :=
  nnDescent_low_high top ctop draw hsymm n cfg hT stop rng init
    (fun g hg => (hinit g hg).heapTruth) rpTreeInit leafArray

end whole

/-! ## non-vacuity -/

/-- distance on a line -/
private def lineDist : Nat → Nat → Nat := fun a b => if a ≤ b then b - a else a - b

/-- Three points on a line, one slot per row.  `(0,2,2)` fills rows 0 and 2; `(0,1,1)` evicts
candidate 2 from row 0; when `(0,2,2)` arrives again the high-memory path finds `2 ∈ in_graph[0]`
(although row 0 no longer holds 2) and `0 ∈ in_graph[2]` and skips both pushes; the low-memory
path performs them and the heap rejects both (too far / duplicate).  Same graph, same count. -/
example :
    let g := mkGraph (100 : Nat) 3 1
    let ups : List (Upd Nat) := [⟨0, 2, 2⟩, ⟨0, 1, 1⟩, ⟨0, 2, 2⟩]
    let mid := applyHigh g (ups.take 2) (initInGraph g)
    -- before the third update: 2 is recorded for row 0 but not held by it
    mid.2.has 0 2 = true ∧ (mid.1.1.map (fun r => r.toList.map (·.idx))).toList = [[1], [0], [0]] ∧
    -- the third update is skipped entirely
    applyHigh mid.1.1 (ups.drop 2) mid.2 = ((mid.1.1, 0), mid.2) ∧
    -- and the two modes agree on graph and count (3 threads / 1 thread)
    (applyHigh g ups (initInGraph g)).1 = applyLow 3 g ups ∧
    (applyHigh g ups (initInGraph g)).1 = applyLow 1 g ups ∧
    (applyLow 3 g ups).2 = 4 := by decide +kernel

/-- the hypotheses of `applyHigh_eq_applyLow` are satisfiable on that input -/
example : Truthful lineDist [⟨0, 2, 2⟩, ⟨0, 1, 1⟩, ⟨0, 2, 2⟩] ∧ (∀ a b, lineDist a b = lineDist b a) := by
  refine ⟨by unfold Truthful; decide, ?_⟩
  intro a b
  simp only [lineDist]
  split <;> split <;> omega

/-- candidate priorities for the concrete run: the Tausworthe stream reduced mod 1000 -/
private def drawN (s : RngState) : Nat × RngState := ((tauRandInt s).1.natAbs % 1000, (tauRandInt s).2)

/-- a whole `nn_descent` run (six points on a line, two leaves, `k = 2`, three candidates, two
threads, real `tau_rand_int` stream) evaluated in both modes by the kernel: identical results.
Every row holds the point itself (distance 0, from the `(p, p, 0)` self pair) and a nearest other
point. -/
private def runBoth (low : Bool) : Graph Nat × RngState :=
  nnDescent (100 : Nat) (1000 : Nat) drawN lineDist 6
    { k := 2, maxCand := 3, nIters := 3, nThreads := 2, lowMemory := low }
    (fun c => c == 0) (RngState.ofInts 1234 5678 91011) none true [[0, 1, 2, -1], [3, 4, 5, -1]]

example : runBoth true = runBoth false ∧
    ((runBoth false).1.map (fun r => r.toList.map (·.idx))).toList
      = [[0, 1], [1, 0], [2, 1], [3, 4], [4, 3], [5, 4]] := by decide +kernel

/-- the hypotheses of `descent_low_eq_high` are satisfiable: any configuration with a thread, any
candidate generator, stop test, seed and leaf array, from an empty heap -/
example (cfg : Cfg) (hT : 0 < cfg.nThreads) (draw : RngState → Nat × RngState) (stop : Nat → Bool)
    (rng : RngState) (leafArray : List (List Int)) :
    nnDescent (100 : Nat) (1000 : Nat) draw lineDist 6 { cfg with lowMemory := true } stop rng none true leafArray =
      nnDescent (100 : Nat) (1000 : Nat) draw lineDist 6 { cfg with lowMemory := false } stop rng none true leafArray :=
  descent_low_eq_high _ _ _ _ (by intro a b; simp only [lineDist]; split <;> split <;> omega) 6 cfg hT
    stop rng none (fun _ h => nomatch h) true leafArray

/-- The second branch as it was before the repair: it pushed `(d, q)` into row `p` *again*
instead of `(d, p)` into row `q`. -/
private def applyHighBuggy (g : Graph Nat) (ups : List (Upd Nat)) (s : InGraph) : (Graph Nat × Nat) × InGraph :=
  ups.foldl (fun (acc : (Graph Nat × Nat) × InGraph) u =>
    let g := acc.1.1; let c := acc.1.2; let s := acc.2
    let p : Int := u.p; let q : Int := u.q
    if s.has u.p q && s.has u.q p then acc else
      let acc1 : (Graph Nat × Nat) × InGraph :=
        if s.has u.p q then acc else
          let r := pushInto g u.p u.d q true
          if r.2 then ((r.1, c + 1), s.add u.p q) else ((r.1, c), s)
      let g := acc1.1.1; let c := acc1.1.2; let s := acc1.2
      if u.p = u.q || s.has u.q p then acc1 else
        let r := pushInto g u.p u.d q true      -- the defect: row `p`, candidate `q`
        if r.2 then ((r.1, c + 1), s.add u.p q) else ((r.1, c), s)) ((g, 0), s)

/-- Two points, one update `(0,1,1)`: the pre-repair code never tells row 1 about point 0, so the
high-memory graph differs from the low-memory one — the equality above is a property of the
repaired code, not of any code of this shape. -/
example :
    let g := mkGraph (100 : Nat) 2 1
    let ups : List (Upd Nat) := [⟨0, 1, 1⟩]
    ((applyHighBuggy g ups (initInGraph g)).1.1.map (fun r => r.toList.map (·.idx))).toList = [[1], [-1]] ∧
    ((applyLow 1 g ups).1.map (fun r => r.toList.map (·.idx))).toList = [[1], [0]] ∧
    (applyHighBuggy g ups (initInGraph g)).1 ≠ applyLow 1 g ups ∧
    (applyHigh g ups (initInGraph g)).1 = applyLow 1 g ups := by decide +kernel

end Pynn.C12
