import PynnVerif.Proofs.Index

/-!
# C04 — the index is an index over the current logical dataset, after any history

Property text: *after any sequence of prepare, query, update (appending rows, replacing rows, or
both), compress and serialisation round-trips, the index behaves as an index over the current logical
dataset: the original rows with replacements applied, followed by appended rows in the order they were
added.  Its neighbor graph has exactly one row per logical point, and both the graph and every query
answer satisfy C01 and C02 against that logical dataset, with no trace of replaced rows.*

What is proved here is the *bookkeeping* half, on the life-cycle model `Model/Index.lean` (which
`harness/c04.py` compares with the real object after every operation of random histories): rows carry
a tag `(id, version)`, replacing a row bumps its version, and the invariant `Inv` says that every tag
stored anywhere (`_raw_data`, graph owners, graph neighbours, the rows the compiled search closure was
built over) is the *current* one and sits where `_vertex_order` says.  `Inv` holds after `build` and is
preserved by every operation, for every vertex order the forest may yield and every neighbour set
NN-descent may find (both are universally quantified oracle inputs).  The metric half (C01/C02 of
the rows, given that they are computed from current data) is checked on the real code by the harness.

Definitions used in the statements (`Proofs/Index.lean`, pinned below by `Iff.rfl` / `rfl` examples):

* `OpOk s op` — the vertex order an operation *consults* is a permutation of the row numbers its
  (re)prepare sees; nothing is asked of orders that are never looked at, of `replaced`, of `found`;
* `OpsOk s ops` — `OpOk` along a history, each at the state it is applied to;
* `spec ops pts` — the logical dataset the property text prescribes, defined without `step`.

Changes to `Inv` w.r.t. its first version (all three conjuncts hold on every reachable state, which
is what `history_inv` proves): `logical[i].id = i`; the closure exists iff `_vertex_order` exists;
a compressed index has no graph.  Without the first two the predicate is not inductive (examples at
the end).

DEFECTS FOUND while proving `step_inv` (both repaired in `/repo` by "fix: update() validates
updated_indices before touching the index"; the model describes the repaired code):
* a replaced row number `≥ n` raised `IndexError` only *after* `update` had executed
  `self._raw_data = self._raw_data[original_order, :]` and the earlier `_raw_data[i] = x` writes, while
  `_vertex_order` and the search structures stayed; `stepPreRepair` below models that and `Inv` breaks
  on `[prepare, update … [0, 7] …]`;
* a negative row number replaced the row it addresses but reset neither its graph row nor the
  references to it (outside the `Nat`-indexed model; now refused like any other bad row number).
-/
namespace Pynn.C04
open Pynn.Idx

/-! ## 1. restoring caller order: `_raw_data[np.argsort(_vertex_order)]` -/

/-- **`xs[p][argsort p] = xs`** for every list of rows `xs` and every permutation `p` of
`0 .. len(xs)-1`: indexing the stored rows by `np.argsort(self._vertex_order)`, the first thing
`update` does, gives back the rows in caller order. -/
theorem perm_roundtrip {α : Type} (xs : List α) (p : List Nat) (h : isPerm p xs.length = true) :
    permute (permute xs p) (argsort p) = xs :=
  Idx.perm_roundtrip xs p h

/-- reordering by a permutation keeps the number of rows (no row is dropped by the totalised
indexing `xs[i]?` of the model) -/
theorem permute_length {α : Type} (xs : List α) (p : List Nat) (h : isPerm p xs.length = true) :
    (permute xs p).length = xs.length :=
  Idx.permute_length xs p h

/-- … and is a rearrangement of the same rows -/
theorem permute_perm {α : Type} (xs : List α) (p : List Nat) (h : isPerm p xs.length = true) :
    (permute xs p).Perm xs :=
  Idx.permute_perm xs p h

/-- `np.argsort` of a permutation of `0..n-1` is a permutation of `0..n-1` -/
theorem argsort_is_perm (p : List Nat) (n : Nat) (h : isPerm p n = true) :
    isPerm (argsort p) n = true :=
  Idx.argsort_isPerm h

/-- `isPerm p n` is what it says: `n` entries, pairwise distinct, exactly the numbers below `n` -/
theorem isPerm_spec (p : List Nat) (n : Nat) :
    isPerm p n = true ↔ p.length = n ∧ p.Nodup ∧ ∀ i, i ∈ p ↔ i < n := by
  constructor
  · intro h
    exact ⟨isPerm_length h, isPerm_nodup h, fun i => ⟨isPerm_lt h i, fun hi => isPerm_mem h hi⟩⟩
  · rintro ⟨hl, _, hm⟩
    exact isPerm_iff.2 ⟨hl, fun i hi => (hm i).2 hi⟩

/-! ## 2. oracle side-conditions (definitions pinned) -/

example (s : St) (vo : List Nat) :
    OpOk s (.prepare vo) ↔ (s.searchRows = none → isPerm vo s.logical.length = true) := Iff.rfl
example (s : St) (vo : List Nat) :
    OpOk s (.pickle vo) ↔ (s.searchRows = none → isPerm vo s.logical.length = true) := Iff.rfl
example (s : St) (vo : List Nat) :
    OpOk s (.compress vo) ↔ (s.searchRows = none → isPerm vo s.logical.length = true) := Iff.rfl
example (s : St) : OpOk s .query ↔ True := Iff.rfl
example (s : St) (nFresh : Nat) (replaced : List Nat) (found : List (List Nat)) (vo : List Nat) :
    OpOk s (.update nFresh replaced found vo) ↔
      (s.graph ≠ none → (∀ i ∈ replaced, i < s.logical.length) → s.searchRows ≠ none →
        isPerm vo (s.logical.length + nFresh) = true) := Iff.rfl
example (s : St) : OpsOk s [] ↔ True := Iff.rfl
example (s : St) (op : Op) (ops : List Op) :
    OpsOk s (op :: ops) ↔ (OpOk s op ∧ OpsOk (step s op).1 ops) := Iff.rfl

/-- The plain reading of the side-condition — *every* supplied order is a permutation of the rows
the (re)prepare would see (`s.logical.length`, for `update`: `s.logical.length + nFresh`), looked at
or not — implies `OpOk`.  (`OpOk` is weaker because the harness passes the order the real object has
*after* the operation, which is stale or absent exactly when the operation does not consult it.) -/
theorem opOk_of_perm (s : St) (op : Op) (h : OpPerm s op) : OpOk s op :=
  opOk_of_opPerm h

example (s : St) (nFresh : Nat) (replaced : List Nat) (found : List (List Nat)) (vo : List Nat) :
    OpPerm s (.update nFresh replaced found vo) ↔ isPerm vo (s.logical.length + nFresh) = true := Iff.rfl
example (s : St) (vo : List Nat) : OpPerm s (.prepare vo) ↔ isPerm vo s.logical.length = true := Iff.rfl

/-! ## 3. the invariant holds after every history -/

/-- **A freshly built index satisfies the invariant**, whatever neighbours NN-descent found. -/
theorem build_inv (n : Nat) (found : List (List Nat)) : Inv (build n found) = true :=
  (inv_iff _).2 (build_invP n found)

/-- **Every operation preserves the invariant** — `prepare`, `query`, `update` (append, replace,
both, refused, bad row number), `compress_index`, pickle round-trip — for every vertex order that is a
permutation when it is consulted and every `found`. -/
theorem step_inv (s : St) (op : Op) (h : Inv s = true) (hop : OpOk s op) :
    Inv (step s op).1 = true :=
  (inv_iff _).2 (step_invP ((inv_iff s).1 h) hop)

/-- **The invariant holds after any history** on any freshly built index. -/
theorem history_inv (n : Nat) (found : List (List Nat)) (ops : List Op)
    (hops : OpsOk (build n found) ops) : Inv (run (build n found) ops).1 = true :=
  (inv_iff _).2 (run_invP (build_invP n found) hops)

/-- the same from any state satisfying the invariant (e.g. an unpickled index) -/
theorem run_inv (s : St) (ops : List Op) (h : Inv s = true) (hops : OpsOk s ops) :
    Inv (run s ops).1 = true :=
  (inv_iff _).2 (run_invP ((inv_iff s).1 h) hops)

/-! ## 4. what the invariant says -/

/-- **`_raw_data` is the logical dataset in vertex order**: `raw = logical[_vertex_order]` when the
attribute exists (and then it is a permutation of the row numbers), `raw = logical` otherwise.  In
particular `_raw_data` has one row per logical point and holds exactly the current rows. -/
theorem raw_is_logical_in_vertex_order (s : St) (h : Inv s = true) :
    (∀ v, s.vo = some v → isPerm v s.logical.length = true ∧ s.raw = permute s.logical v) ∧
    (s.vo = none → s.raw = s.logical) ∧
    s.raw.length = s.logical.length ∧ s.raw.Perm s.logical := by
  have hP := (inv_iff s).1 h
  refine ⟨hP.raw_some, hP.raw_none, ?_, ?_⟩
  · cases hv : s.vo with
    | none => rw [hP.raw_none hv]
    | some v => obtain ⟨hp, hr⟩ := hP.raw_some v hv; rw [hr, Idx.permute_length _ _ hp]
  · cases hv : s.vo with
    | none => rw [hP.raw_none hv]
    | some v => obtain ⟨hp, hr⟩ := hP.raw_some v hv; rw [hr]; exact Idx.permute_perm _ _ hp

/-- **Identities are row numbers and every logical point occurs once**: the tag of logical point `i`
has identity `i`, so "`q` is an element of `logical`" means "`q` is the *current* version of point
`q.id`" (`s.logical[q.id]? = some q`). -/
theorem logical_ids (s : St) (h : Inv s = true) :
    (∀ (i : Nat) (p : Pt), s.logical[i]? = some p → p.id = i) ∧ s.logical.Nodup ∧
    (∀ q ∈ s.logical, s.logical[q.id]? = some q) := by
  have hP := (inv_iff s).1 h
  exact ⟨hP.ids, idsOk_nodup hP.ids, fun q hq => mem_current hP.ids hq⟩

/-- **One graph row per logical point**: the neighbour graph, while it exists, has exactly
`len(logical)` rows and row `i` is owned by the current version of logical point `i` (rows are in
caller numbering: appended points own the last rows, in the order they were added; the row of a
replaced point is owned by the replacement). -/
theorem graph_one_row_per_point (s : St) (h : Inv s = true) (g : List GRow) (hg : s.graph = some g) :
    g.length = s.logical.length ∧
    ∀ (i : Nat) (hi : i < g.length) (hi' : i < s.logical.length), g[i].owner = s.logical[i] := by
  obtain ⟨_, hl, hrows⟩ := ((inv_iff s).1 h).graph.1 g hg
  exact ⟨hl, fun i hi hi' =>
    (hrows i g[i] s.logical[i] (List.getElem?_eq_getElem hi) (List.getElem?_eq_getElem hi')).1⟩

/-- **No trace of replaced rows**: every tag in the graph — the owner of each row and every
neighbour entry — is the current version of a logical point.  An entry whose distance was computed
against a value that has since been replaced would carry the old version and cannot occur. -/
theorem no_trace_of_replaced_rows (s : St) (h : Inv s = true) (g : List GRow) (hg : s.graph = some g) :
    ∀ row ∈ g, s.logical[row.owner.id]? = some row.owner ∧
      ∀ q ∈ row.nbrs, s.logical[q.id]? = some q := by
  have hP := (inv_iff s).1 h
  obtain ⟨_, hl, hrows⟩ := hP.graph.1 g hg
  intro row hrow
  obtain ⟨i, hi, rfl⟩ := List.mem_iff_getElem.1 hrow
  have hi' : i < s.logical.length := hl ▸ hi
  obtain ⟨hown, hn⟩ :=
    hrows i g[i] s.logical[i] (List.getElem?_eq_getElem hi) (List.getElem?_eq_getElem hi')
  refine ⟨?_, fun q hq => mem_current hP.ids (hn q hq)⟩
  rw [hown]; exact mem_current hP.ids (List.getElem_mem hi')

/-- **The search structures are current**: a compiled search closure exists iff `_vertex_order`
exists, and it was built over exactly the rows `_raw_data` holds now (so a query searches the current
logical dataset, in the current vertex order; answers are translated back by the same order). -/
theorem search_structures_current (s : St) (h : Inv s = true) :
    (∀ r, s.searchRows = some r → r = s.raw) ∧ s.searchRows.isSome = s.vo.isSome := by
  have hP := (inv_iff s).1 h
  refine ⟨fun r hr => (hP.search_some r hr).1, ?_⟩
  cases hs : s.searchRows with
  | none => simp [hP.search_none hs]
  | some r => simp [(hP.search_some r hs).2]

/-- **A compressed index has no neighbour graph and vice versa** -/
theorem compressed_iff_no_graph (s : St) (h : Inv s = true) : s.compressed = true ↔ s.graph = none := by
  have hG := ((inv_iff s).1 h).graph
  constructor
  · intro hc
    cases hg : s.graph with
    | none => rfl
    | some g => have := (hG.1 g hg).1; simp [hc] at this
  · exact hG.2

/-! ### the logical dataset is the one the property text prescribes -/

example (nFresh : Nat) (replaced : List Nat) (pts : List Pt) :
    specUpdate nFresh replaced pts =
      pts.mapIdx (fun i p => if i ∈ replaced then ⟨p.id, p.ver + 1⟩ else p) ++
      (List.range nFresh).map (fun j => ⟨pts.length + j, 0⟩) := rfl
example (ops : List Op) (pts : List Pt) : spec ops pts = specGo false ops pts := rfl
example (c : Bool) (pts : List Pt) : specGo c [] pts = pts := rfl
example (c : Bool) (vo : List Nat) (ops : List Op) (pts : List Pt) :
    specGo c (.compress vo :: ops) pts = specGo true ops pts := rfl
example (c : Bool) (k : Nat) (r : List Nat) (f : List (List Nat)) (vo : List Nat) (ops : List Op) (pts : List Pt) :
    specGo c (.update k r f vo :: ops) pts =
      if c = true ∨ ∃ i ∈ r, pts.length ≤ i then specGo c ops pts
      else specGo c ops (specUpdate k r pts) := rfl
example (c : Bool) (vo : List Nat) (ops : List Op) (pts : List Pt) :
    specGo c (.prepare vo :: ops) pts = specGo c ops pts := rfl
example (c : Bool) (ops : List Op) (pts : List Pt) : specGo c (.query :: ops) pts = specGo c ops pts := rfl
example (c : Bool) (vo : List Nat) (ops : List Op) (pts : List Pt) :
    specGo c (.pickle vo :: ops) pts = specGo c ops pts := rfl

/-- **The logical dataset after a history** is the original rows with replacements applied in place
(each replacement bumps the version of that row and nothing else), followed by the appended rows in
the order they were added; updates that fail (compressed index, row number out of range) change
nothing; no other operation changes it.  `spec` is defined by recursion on the history alone. -/
theorem logical_dataset_spec (n : Nat) (found : List (List Nat)) (ops : List Op)
    (hops : OpsOk (build n found) ops) :
    (run (build n found) ops).1.logical = spec ops ((List.range n).map (fun i => (⟨i, 0⟩ : Pt))) :=
  run_logical (build_invP n found) hops

/-- the same from any state satisfying the invariant -/
theorem logical_dataset_spec_from (s : St) (ops : List Op) (h : Inv s = true) (hops : OpsOk s ops) :
    (run s ops).1.logical = specGo s.graph.isNone ops s.logical :=
  run_logical ((inv_iff s).1 h) hops

/-- **A successful `update`, written out**: it succeeds whenever the graph exists and the replaced
row numbers are in range; the logical dataset becomes `specUpdate`; `_raw_data` is that dataset in
caller order if the index was never prepared, and in the *new* vertex order if it was (the index is
re-prepared); the graph is kept. -/
theorem update_result (s : St) (h : Inv s = true) (g : List GRow) (hg : s.graph = some g)
    (nFresh : Nat) (replaced : List Nat) (hr : ∀ i ∈ replaced, i < s.logical.length)
    (found : List (List Nat)) (vo : List Nat) :
    let s' := (step s (.update nFresh replaced found vo)).1
    (step s (.update nFresh replaced found vo)).2 = .ok ∧
    s'.logical = specUpdate nFresh replaced s.logical ∧
    s'.raw = (if s.searchRows.isSome then permute s'.logical vo else s'.logical) ∧
    s'.vo = (if s.searchRows.isSome then some vo else none) ∧
    s'.graph.isSome = true ∧ s'.searchRows.isSome = s.searchRows.isSome :=
  Idx.update_result ((inv_iff s).1 h) hg nFresh hr found vo

/-! ## 5. a compressed index refuses `update` before touching anything -/

/-- **Refused before anything is touched**: without a neighbour graph (`compress_index` was called)
`update` raises `ValueError` and the state is *identical* — in particular `_raw_data` keeps the
vertex order the search structures were built for.  (The code before the repair restored caller
order, wrote replacements and appended rows, and only then failed on the missing graph.) -/
theorem update_refused_leaves_state (s : St) (hg : s.graph = none) (nFresh : Nat)
    (replaced : List Nat) (found : List (List Nat)) (vo : List Nat) :
    step s (.update nFresh replaced found vo) = (s, .err "ValueError:compressed") :=
  step_update_none hg nFresh replaced found vo

/-- the pre-repair behaviour: `_raw_data` is restored to caller order, replacements written, rows
appended, *then* the missing `_neighbor_graph` raises -/
def stepBuggy (s : St) : Op → St × Out
  | .update nFresh replaced found vo =>
    match s.graph with
    | none =>
      let restored := match s.vo with
        | some v => permute s.raw (argsort v)
        | none => s.raw
      let fresh := (List.range nFresh).map (fun i => (⟨restored.length + i, 0⟩ : Pt))
      ({ s with raw := bump replaced restored ++ fresh }, .err "AttributeError")
    | some _ => step s (.update nFresh replaced found vo)
  | op => step s op

/-- with the pre-repair `update`, `[compress, update]` leaves `_raw_data` in caller order (plus a
row nobody accepted) under search structures built for the vertex order: `Inv` is false -/
example :
    let s1 := (stepBuggy (build 3 []) (.compress [2, 0, 1])).1
    let s2 := (stepBuggy s1 (.update 1 [] [] [])).1
    Inv s1 = true ∧ s1.raw = [⟨2, 0⟩, ⟨0, 0⟩, ⟨1, 0⟩] ∧
    Inv s2 = false ∧ s2.raw = [⟨0, 0⟩, ⟨1, 0⟩, ⟨2, 0⟩, ⟨3, 0⟩] ∧ s2.logical = s1.logical ∧
    (step s1 (.update 1 [] [] [])).1 = s1 := by
  decide +kernel

/-- **A bad row number is refused before anything is touched**: if some replaced row number is not
a row of the current data, `update` raises `ValueError` and the state is *identical* (no reordering of
`_raw_data`, none of the other replacements written, nothing appended). -/
theorem update_bad_index_leaves_state (s : St) (g : List GRow) (hg : s.graph = some g) (nFresh : Nat)
    (replaced : List Nat) (i : Nat) (hi : i ∈ replaced) (hbad : s.logical.length ≤ i)
    (found : List (List Nat)) (vo : List Nat) :
    step s (.update nFresh replaced found vo) = (s, .err "ValueError:index-range") :=
  step_update_oor hg nFresh (List.any_eq_true.2 ⟨i, hi, by simpa using hbad⟩) found vo

/-- … and these are the only two ways an `update` fails: with a graph and all replaced row numbers in
range the outcome is `ok` (`update_result`). -/
theorem update_fails_iff (s : St) (h : Inv s = true) (nFresh : Nat) (replaced : List Nat)
    (found : List (List Nat)) (vo : List Nat) :
    (step s (.update nFresh replaced found vo)).2 ≠ .ok ↔
      (s.graph = none ∨ ∃ i ∈ replaced, s.logical.length ≤ i) := by
  constructor
  · intro hne
    cases hg : s.graph with
    | none => exact Or.inl rfl
    | some g =>
      right
      apply Classical.byContradiction
      intro hno
      have hr : ∀ i ∈ replaced, i < s.logical.length := fun i hi =>
        Nat.lt_of_not_le (fun hle => hno ⟨i, hi, hle⟩)
      exact hne (Idx.update_result ((inv_iff s).1 h) hg nFresh hr found vo).1
  · rintro (hg | ⟨i, hi, hbad⟩)
    · rw [step_update_none hg]; simp
    · cases hg : s.graph with
      | none => rw [step_update_none hg]; simp
      | some g => rw [update_bad_index_leaves_state s g hg nFresh replaced i hi hbad]; simp

/-- the pre-repair behaviour for a replaced row number out of range: `_raw_data` has been put in
caller order and the replacements *before* the offending one written when numpy raises `IndexError`;
`_vertex_order` and the search structures stay -/
def stepPreRepair (s : St) : Op → St × Out
  | .update nFresh replaced found vo =>
    match s.graph with
    | none => step s (.update nFresh replaced found vo)
    | some _ =>
      if replaced.any (fun i => i ≥ s.logical.length) then
        let restored := match s.vo with
          | some v => permute s.raw (argsort v)
          | none => s.raw
        let written := replaced.takeWhile (fun i => i < s.logical.length)
        ({ s with raw := bump written restored }, .err "IndexError")
      else step s (.update nFresh replaced found vo)
  | op => step s op

/-- `[prepare, update replacing rows 0 and 7 of 3]`: now the state is unchanged; before the repair
`_raw_data` ended in caller order with row 0 already replaced while the caller's update had failed —
`Inv` is false, and the next successful `update` applied `argsort(_vertex_order)` to rows that were no
longer in vertex order (reproduced on the real code: 60 untruthful graph entries on a 40-point index). -/
example :
    let s1 := (step (build 3 []) (.prepare [2, 0, 1])).1
    let s2 := (stepPreRepair s1 (.update 0 [0, 7] [] [2, 0, 1])).1
    Inv s1 = true ∧ s1.raw = [⟨2, 0⟩, ⟨0, 0⟩, ⟨1, 0⟩] ∧
    step s1 (.update 0 [0, 7] [] [2, 0, 1]) = (s1, .err "ValueError:index-range") ∧
    Inv s2 = false ∧ s2.raw = [⟨0, 1⟩, ⟨1, 0⟩, ⟨2, 0⟩] ∧ s2.logical = s1.logical := by
  decide +kernel

/-! ## 6. caller order is restored iff `_vertex_order` exists -/

/-- **The data-preparation step of `update` yields the logical dataset in caller order**, always:
`updRestored s` is the model's `self._raw_data[original_order]`, i.e. `raw[argsort vo]` when
`_vertex_order` exists and `raw` itself (the all-true mask) when it does not. -/
theorem update_restores_caller_order (s : St) (h : Inv s = true) :
    updRestored s = s.logical ∧
    (∀ v, s.vo = some v → updRestored s = permute s.raw (argsort v)) ∧
    (s.vo = none → updRestored s = s.raw) := by
  refine ⟨restored_eq ((inv_iff s).1 h), ?_, ?_⟩
  · intro v hv; simp [updRestored, hv]
  · intro hv; simp [updRestored, hv]

/-- **Never prepared: nothing to restore** — without `_vertex_order` the stored rows already are in
caller order, and `update` leaves their order alone. -/
theorem update_without_vo_keeps_order (s : St) (h : Inv s = true) (hv : s.vo = none) :
    s.raw = s.logical ∧ updRestored s = s.raw :=
  ⟨((inv_iff s).1 h).raw_none hv, by simp [updRestored, hv]⟩

/-- **Prepared: restoring is necessary unless the vertex order is the identity** — with
`_vertex_order = v` the stored rows are in caller order iff `v = [0, 1, …, n-1]`; for every other
order, skipping the `argsort` step would write replacements into the wrong rows. -/
theorem stored_order_is_caller_order_iff (s : St) (h : Inv s = true) (v : List Nat) (hv : s.vo = some v) :
    s.raw = s.logical ↔ v = List.range s.logical.length := by
  have hP := (inv_iff s).1 h
  obtain ⟨hp, hr⟩ := hP.raw_some v hv
  rw [hr]
  exact permute_eq_self_iff hP.ids hp

/-- the `update` of the model is built from `updRestored` (pins the name used above to `step`) -/
example (s : St) (g : List GRow) (hg : s.graph = some g) (nFresh : Nat) (replaced : List Nat)
    (hr : replaced.any (fun i => i ≥ s.logical.length) = false) (found : List (List Nat)) (vo : List Nat) :
    step s (.update nFresh replaced found vo) =
      match s.searchRows with
      | some _ => (doPrepare { updState s g nFresh replaced found with searchRows := none } vo, .ok)
      | none => (updState s g nFresh replaced found, .ok) :=
  step_update_ok hg nFresh hr found vo
example (s : St) (g : List GRow) (k : Nat) (r : List Nat) (f : List (List Nat)) :
    (updState s g k r f).raw = bump r (updRestored s) ++ updFresh (updRestored s).length k := rfl

/-! ## 7. non-vacuity: a concrete history -/

/-- the stored rows and the outcome after each operation of a history -/
def trace (s : St) : List Op → List (List Pt × Bool)
  | [] => []
  | op :: ops => let r := step s op; (r.1.raw, r.2 == .ok) :: trace r.1 ops

/-- 3 rows; neighbours found at build time -/
def s0 : St := build 3 [[1, 2], [0], [1, 0]]

/-- prepare with a non-identity order; replace row 0 and append one row (the re-prepare yields another
order; NN-descent re-finds row 0 for rows 1 and 3); pickle; compress; an update that is refused;
a second pickle -/
def hist : List Op :=
  [.prepare [2, 0, 1],
   .update 1 [0] [[1], [0], [], [0, 2]] [3, 1, 0, 2],
   .pickle [],
   .query,
   .compress [],
   .update 1 [1] [] [0, 1, 2, 3, 4],
   .pickle [9, 9]]

/-- the oracles of `hist` are OK (the orders of the no-op prepares are never consulted, so `[]`,
`[9, 9]` and the 5-element order of the refused update are fine) -/
example : OpsOk s0 hist := by decide +kernel

/-- `_raw_data` after each step: vertex order `[2,0,1]`; caller order restored, row 0 replaced
(`0.1`), row 3 appended, new vertex order `[3,1,0,2]`; unchanged by pickle, query, compress, by the
refused update (outcome `false`) and by the last pickle -/
example : trace s0 hist =
    [([⟨2, 0⟩, ⟨0, 0⟩, ⟨1, 0⟩], true),
     ([⟨3, 0⟩, ⟨1, 0⟩, ⟨0, 1⟩, ⟨2, 0⟩], true),
     ([⟨3, 0⟩, ⟨1, 0⟩, ⟨0, 1⟩, ⟨2, 0⟩], true),
     ([⟨3, 0⟩, ⟨1, 0⟩, ⟨0, 1⟩, ⟨2, 0⟩], true),
     ([⟨3, 0⟩, ⟨1, 0⟩, ⟨0, 1⟩, ⟨2, 0⟩], true),
     ([⟨3, 0⟩, ⟨1, 0⟩, ⟨0, 1⟩, ⟨2, 0⟩], false),
     ([⟨3, 0⟩, ⟨1, 0⟩, ⟨0, 1⟩, ⟨2, 0⟩], true)] := by decide +kernel

/-- the graph after the update (before `compress` deletes it): row 0 was reset and is owned by the
replacement `0.1`; the stale references `0.0` in rows 1 and 2 are gone; what NN-descent re-found is
tagged with the current versions; row 3 is the appended point -/
example : (run s0 (hist.take 2)).1.graph =
    some [⟨⟨0, 1⟩, [⟨1, 0⟩]⟩, ⟨⟨1, 0⟩, [⟨0, 1⟩]⟩, ⟨⟨2, 0⟩, [⟨1, 0⟩]⟩, ⟨⟨3, 0⟩, [⟨0, 1⟩, ⟨2, 0⟩]⟩] := by
  decide +kernel

/-- final state: logical dataset as specified, invariant true, compressed, no graph, outcomes -/
example :
    (run s0 hist).1.logical = [⟨0, 1⟩, ⟨1, 0⟩, ⟨2, 0⟩, ⟨3, 0⟩] ∧
    spec hist s0.logical = [⟨0, 1⟩, ⟨1, 0⟩, ⟨2, 0⟩, ⟨3, 0⟩] ∧
    Inv (run s0 hist).1 = true ∧ (run s0 hist).1.graph = none ∧ (run s0 hist).1.compressed = true ∧
    (run s0 hist).1.vo = some [3, 1, 0, 2] ∧
    (run s0 hist).2 = [.ok, .ok, .ok, .ok, .ok, .err "ValueError:compressed", .ok] := by
  decide +kernel

/-- the hypothesis of `step_inv` is needed: an order that is not a permutation (here a row number
repeated, so a row is duplicated and another lost) breaks the invariant -/
example : Inv (step s0 (.prepare [0, 0, 1])).1 = false ∧ ¬ OpOk s0 (.prepare [0, 0, 1]) := by
  decide +kernel

/-! ### the first version of `Inv` was not inductive -/

/-- `Inv` as first written (no `id = row number`, no "closure iff vertex order", no
"compressed ⇒ no graph") -/
def origInv (s : St) : Bool :=
  (match s.vo with
   | some v => isPerm v s.logical.length && s.raw == permute s.logical v
   | none => s.raw == s.logical) &&
  (match s.graph with
   | some g => g.length == s.logical.length &&
       (g.zip s.logical).all (fun (row, p) => row.owner == p && row.nbrs.all (fun q => s.logical.contains q))
   | none => s.compressed) &&
  (match s.searchRows with
   | some r => r == s.raw
   | none => true)

/-- every state satisfying `Inv` satisfies the first version -/
theorem inv_implies_origInv (s : St) (h : Inv s = true) : origInv s = true := by
  simp only [Idx.Inv, Bool.and_eq_true] at h
  obtain ⟨⟨⟨_, h2⟩, h3⟩, h4⟩ := h
  simp only [origInv, Bool.and_eq_true]
  refine ⟨⟨h2, ?_⟩, ?_⟩
  · cases hg : s.graph with
    | none => simpa [hg] using h3
    | some g =>
      simp only [hg, Bool.and_eq_true] at h3 ⊢
      exact ⟨h3.1.2, h3.2⟩
  · cases hs : s.searchRows with
    | none => rfl
    | some r => simp only [hs, Bool.and_eq_true] at h4 ⊢; exact h4.1

/-- identities that are not row numbers (unreachable): `update` filters references by `q.id`, keeps
the reference to the replaced row, and the first version is violated after one step -/
example :
    let s : St := { logical := [⟨1, 0⟩, ⟨0, 0⟩], raw := [⟨1, 0⟩, ⟨0, 0⟩], vo := none,
                    graph := some [⟨⟨1, 0⟩, [⟨0, 0⟩]⟩, ⟨⟨0, 0⟩, []⟩], searchRows := none, compressed := false }
    origInv s = true ∧ OpOk s (.update 0 [1] [] []) ∧ origInv (step s (.update 0 [1] [] [])).1 = false ∧
    Inv s = false := by
  decide +kernel

/-- a vertex order without search structures (unreachable): `prepare` permutes the already permuted
rows again, and the first version is violated after one step -/
example :
    let s : St := { logical := [⟨0, 0⟩, ⟨1, 0⟩, ⟨2, 0⟩], raw := [⟨1, 0⟩, ⟨2, 0⟩, ⟨0, 0⟩], vo := some [1, 2, 0],
                    graph := some [⟨⟨0, 0⟩, []⟩, ⟨⟨1, 0⟩, []⟩, ⟨⟨2, 0⟩, []⟩], searchRows := none,
                    compressed := false }
    origInv s = true ∧ OpOk s (.prepare [1, 2, 0]) ∧ origInv (step s (.prepare [1, 2, 0])).1 = false ∧
    Inv s = false := by
  decide +kernel

end Pynn.C04
