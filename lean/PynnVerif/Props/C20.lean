import PynnVerif.Proofs.Connect
import PynnVerif.Proofs.AltSeen
import PynnVerif.Proofs.Search
import PynnVerif.Proofs.SearchReach
import PynnVerif.Props.C02

/-!
# C20 — `connect_graph` terminates and returns a connected supergraph

Property theorems only (helper lemmas live in `Proofs/Connect.lean`, the executable model in
`Model/Connect.lean`, the exact generator in `Model/Rng.lean`).

* `rejectionSampleG next n pool fuel s` is `utils.rejection_sample(n, pool, rng_state)` over any
  generator (`next s` = one `tau_rand_int` draw and the next state); `none` means "more than `fuel`
  draws were needed", i.e. the kernel's `while` loop is still running after `fuel` draws.
  `rejectionSample draw …` reads an abstract stream `draw : Nat → Nat`; `rejectionSampleRng` runs the
  exact Tausworthe generator and is what the driver compares with the numba kernel.
* `pool = 0` makes the kernel raise `ZeroDivisionError`; the theorems state `0 < pool`
  (a component is never empty).
-/
namespace Pynn.C20
open Pynn Pynn.Connect

/-! ## `rejection_sample` -/

/-- **Specification.** Whenever `rejection_sample` returns — for every generator, hence for the
abstract streams and for the exact generator alike — the samples are pairwise different, lie in
`[0, pool_size)`, and there are exactly `n_samples` of them. -/
theorem rejection_sample_spec {σ : Type} (next : σ → Int × σ) (nSamples pool fuel : Nat) (s : σ)
    (hpool : 0 < pool) (out : List Nat) (s' : σ)
    (h : rejectionSampleG next nSamples pool fuel s = some (out, s')) :
    out.Nodup ∧ (∀ x ∈ out, x < pool) ∧ out.length = nSamples :=
  rejectionSampleG_spec next hpool fuel s out s' h

/-- The same for an abstract stream of draws (the form used by `rejection_sample_terminates`). -/
theorem rejection_sample_spec_stream (draw : Nat → Nat) (nSamples pool fuel : Nat) (hpool : 0 < pool)
    (out : List Nat) (h : rejectionSample draw nSamples pool fuel = some out) :
    out.Nodup ∧ (∀ x ∈ out, x < pool) ∧ out.length = nSamples := by
  unfold rejectionSample at h
  cases hr : rejectionSampleG (streamNext draw) nSamples pool fuel 0 with
  | none => simp [hr] at h
  | some r =>
    obtain ⟨o, p⟩ := r
    simp only [hr, Option.map_some, Option.some.injEq] at h
    subst h
    exact rejectionSampleG_spec _ hpool fuel 0 o p hr

/-- **Divergence (D11).** Asked for more distinct samples than the pool holds,
`rejection_sample` never returns: for every generator, every start state and every number of
draws the loop is still running (pigeonhole on the specification).  This is the call the pinned
tree made for every component smaller than `search_size`. -/
theorem rejection_sample_diverges {σ : Type} (next : σ → Int × σ) (nSamples pool : Nat)
    (hpool : 0 < pool) (hlt : pool < nSamples) :
    ∀ (fuel : Nat) (s : σ), rejectionSampleG next nSamples pool fuel s = none :=
  fun fuel s => rejectionSampleG_none next hpool hlt fuel s

/-- In particular over every abstract stream and over the exact generator. -/
theorem rejection_sample_diverges_stream (draw : Nat → Nat) (nSamples pool : Nat)
    (hpool : 0 < pool) (hlt : pool < nSamples) (fuel : Nat) :
    rejectionSample draw nSamples pool fuel = none ∧
    ∀ s : RngState, rejectionSampleRng nSamples pool fuel s = none := by
  refine ⟨?_, fun s => rejectionSampleG_none _ hpool hlt fuel s⟩
  unfold rejectionSample
  rw [rejectionSampleG_none _ hpool hlt fuel 0]; rfl

/-- **Termination.** If `n_samples ≤ pool_size` and the stream of draws is *fair* for the pool —
every residue modulo `pool_size` occurs again after every position (`Fair`) — then a finite number
of draws suffices: there are `draws` and `out` such that with every fuel `≥ draws` the model
returns exactly `out`, which has `n_samples` entries, no duplicates, all in range. -/
theorem rejection_sample_terminates (draw : Nat → Nat) (nSamples pool : Nat)
    (hle : nSamples ≤ pool) (hfair : Fair draw pool) :
    ∃ draws out, (∀ fuel, draws ≤ fuel → rejectionSample draw nSamples pool fuel = some out) ∧
      out.length = nSamples ∧ out.Nodup ∧ ∀ x ∈ out, x < pool := by
  obtain ⟨out, pos', _, hrun⟩ := rejLoop_stream draw hfair nSamples [] 0 (by simpa using hle)
  have hrun' : ∀ fuel, pos' ≤ fuel → rejectionSample draw nSamples pool fuel = some out := by
    intro fuel hf
    unfold rejectionSample rejectionSampleG
    rw [hrun fuel (by omega)]; rfl
  refine ⟨pos', out, hrun', ?_⟩
  rcases Nat.eq_zero_or_pos pool with hp | hp
  · subst hp
    have hn : nSamples = 0 := by omega
    subst hn
    have := hrun pos' (by omega)
    simp only [rejLoop, Option.some.injEq, Prod.mk.injEq] at this
    obtain ⟨rfl, _⟩ := this
    simp
  · obtain ⟨h1, h2, h3⟩ := rejection_sample_spec_stream draw nSamples pool pos' hp out (hrun' pos' (Nat.le_refl _))
    exact ⟨h3, h1, h2⟩

/-- The fairness hypothesis is satisfiable (the identity stream is fair for every pool) … -/
theorem fair_id (pool : Nat) : Fair (fun p => p) pool := by
  intro r hr N
  refine ⟨N * pool + r, ?_, ?_⟩
  · have : N ≤ N * pool := Nat.le_mul_of_pos_right N (by omega)
    omega
  · simp only
    rw [Nat.mul_comm, Nat.mul_add_mod, Nat.mod_eq_of_lt hr]

/-- … and it cannot be dropped: over a constant stream (what the generator produces from a
degenerate state such as `[1, 2, 3]`, whose words vanish under the masks) a request for two or
more samples never finishes, although `n_samples ≤ pool_size`. -/
theorem rejection_sample_constant_stream_diverges (c nSamples pool : Nat) (h2 : 2 ≤ nSamples) :
    ∀ fuel, rejectionSample (fun _ => c) nSamples pool fuel = none := by
  have hslot : ∀ fuel pos, drawSlot (streamNext (fun _ => c)) pool [c % pool] fuel pos = none := by
    intro fuel
    induction fuel with
    | zero => intro pos; rfl
    | succ f ih => intro pos; simp [drawSlot, streamNext, residue_natCast, ih]
  intro fuel
  obtain ⟨m, rfl⟩ : ∃ m, nSamples = m + 2 := ⟨nSamples - 2, by omega⟩
  unfold rejectionSample rejectionSampleG
  cases fuel with
  | zero => simp [rejLoop, drawSlot]
  | succ f => simp [rejLoop, drawSlot, streamNext, residue_natCast, hslot]

/-- **The clamp.** `min(search_size, |component|) ≤ |component|`: the sample size
`find_component_connection_edge` now passes meets the precondition of
`rejection_sample_terminates` … -/
theorem clamped_sample_size_le (searchSize componentSize : Nat) :
    clampedSamples searchSize componentSize ≤ componentSize := Nat.min_le_right _ _

/-- … so the seed sampling of every component, of any size ≥ 1, finishes over a fair stream and
yields `min(search_size, |component|)` distinct positions inside the component. -/
theorem clamped_call_terminates (draw : Nat → Nat) (searchSize componentSize : Nat)
    (hfair : Fair draw componentSize) :
    ∃ draws out, (∀ fuel, draws ≤ fuel →
        rejectionSample draw (clampedSamples searchSize componentSize) componentSize fuel = some out) ∧
      out.length = min searchSize componentSize ∧ out.Nodup ∧ ∀ x ∈ out, x < componentSize :=
  rejection_sample_terminates draw _ componentSize (clamped_sample_size_le _ _) hfair

/-- The unclamped call of the pinned tree, `rejection_sample(search_size, |component|)`, never
returns when the component is smaller than `search_size`. -/
theorem unclamped_call_diverges {σ : Type} (next : σ → Int × σ) (searchSize componentSize : Nat)
    (hne : 0 < componentSize) (hsmall : componentSize < searchSize) (fuel : Nat) (s : σ) :
    rejectionSampleG next searchSize componentSize fuel s = none :=
  rejectionSampleG_none next hne hsmall fuel s

/-! ## The graph returned by `connect_graph` -/

section Graph
variable {V : Type}

/-- **Connectedness, as `connect_graph` achieves it.**  `G` = the input graph (any relation; it is read
undirected, `Sym G`, as `scipy.sparse.csgraph.connected_components` does), `comp` = the component
labels `0 … nComp-1` (every label class is connected inside the input), `E` = the output.  The code
runs `find_component_connection_edge` for *every* unordered pair of labels —
`combinations(range(n_components), 2)`, i.e. all `c1 < c2` — and inserts the edge found in both
directions.  If the output contains the input, is symmetric and, for every `c1 < c2`, contains an
edge from label `c1` to label `c2`, then every vertex reaches every vertex. -/
theorem connect_spec (G E : V → V → Prop) (comp : V → Nat) (nComp : Nat)
    (hlab : ∀ v, comp v < nComp)
    (hcomp : ∀ u v, comp u = comp v → Reachable (Sym G) u v)
    (hsub : ∀ a b, G a b → E a b) (hsym : ∀ a b, E a b → E b a)
    (hpairs : ∀ c1 c2, c1 < c2 → c2 < nComp → ∃ a b, comp a = c1 ∧ comp b = c2 ∧ E a b) :
    ∀ u v, Reachable E u v := by
  refine connected_of_label_connected G E comp hcomp hsub hsym ?_
  intro u v
  rcases Nat.lt_trichotomy (comp u) (comp v) with h | h | h
  · exact Reachable.single (hpairs _ _ h (hlab v))
  · rw [h]; exact Reachable.refl _
  · obtain ⟨a, b, ha, hb, hab⟩ := hpairs _ _ h (hlab u)
    exact Reachable.single ⟨b, a, hb, ha, hsym _ _ hab⟩

/-- **Weaker hypothesis (what would suffice).**  One edge per *pair* is more than connectedness
needs: it is enough that the label graph — labels adjacent when some output edge joins them — is
connected, e.g. the `nComp - 1` edges of a spanning tree of the components.  (`connect_graph` does
not exploit this; it adds `nComp·(nComp-1)/2` edges.) -/
theorem connect_spec_spanning (G E : V → V → Prop) (comp : V → Nat)
    (hcomp : ∀ u v, comp u = comp v → Reachable (Sym G) u v)
    (hsub : ∀ a b, G a b → E a b) (hsym : ∀ a b, E a b → E b a)
    (hlabels : ∀ u v, Reachable (LabelAdj E comp) (comp u) (comp v)) :
    ∀ u v, Reachable E u v :=
  connected_of_label_connected G E comp hcomp hsub hsym hlabels

/-- **The insertion loop, literally.**  `M` = the input matrix (an entry is an edge iff it is not the
zero `z`), symmetric, with edges only inside label classes, every class connected; `new` = the list
`(i, j, d)` returned by the searches, one for every `c1 < c2` with `i` in `c1` and `j` in `c2`, every
entry joining two different classes with a **non-zero** weight.  Then the matrix after
`result[i, j] = d; result[j, i] = d` for all of them is symmetric, agrees with the input on every
input edge, is connected, every added edge joins two different classes, and its weight is the `d` of
a returned triple for exactly these endpoints.  The guard `d ≠ z` is needed: writing `0.0` into a
sparse matrix stores nothing, so a connecting edge of length 0 (duplicate points in different
components) would not connect. -/
theorem connect_graph_model {W : Type} [DecidableEq V] (z : W) (M : V → V → W) (comp : V → Nat) (nComp : Nat)
    (new : List (V × V × W))
    (hMsym : ∀ a b, M a b = M b a)
    (hMcomp : ∀ a b, M a b ≠ z → comp a = comp b)
    (hlab : ∀ v, comp v < nComp)
    (hcomp : ∀ u v, comp u = comp v → Reachable (Sym (IsEdge z M)) u v)
    (hnew : ∀ e ∈ new, e.2.2 ≠ z ∧ comp e.1 ≠ comp e.2.1)
    (hpairs : ∀ c1 c2, c1 < c2 → c2 < nComp → ∃ e ∈ new, comp e.1 = c1 ∧ comp e.2.1 = c2) :
    let R := addEdges M new
    (∀ a b, R a b = R b a) ∧
    (∀ a b, M a b ≠ z → R a b = M a b) ∧
    (∀ u v, Reachable (IsEdge z R) u v) ∧
    (∀ a b, M a b = z → R a b ≠ z → comp a ≠ comp b ∧
        ∃ e ∈ new, R a b = e.2.2 ∧ ((e.1 = a ∧ e.2.1 = b) ∨ (e.1 = b ∧ e.2.1 = a))) := by
  intro R
  have hsame : ∀ a b, comp a = comp b → R a b = M a b :=
    fun a b h => addEdges_same_label comp new (fun e he => (hnew e he).2) M a b h
  have hsym : ∀ a b, R a b = R b a := addEdges_symm new M hMsym
  have hkeep : ∀ a b, M a b ≠ z → R a b = M a b := fun a b h => hsame a b (hMcomp a b h)
  refine ⟨hsym, hkeep, ?_, ?_⟩
  · refine connect_spec (IsEdge z M) (IsEdge z R) comp nComp hlab hcomp ?_ ?_ ?_
    · intro a b h; unfold IsEdge at *; rw [hkeep a b h]; exact h
    · intro a b h; unfold IsEdge at *; rw [← hsym a b]; exact h
    · intro c1 c2 h1 h2
      obtain ⟨e, he, hc1, hc2⟩ := hpairs c1 c2 h1 h2
      exact ⟨e.1, e.2.1, hc1, hc2, addEdges_written z new (fun e he => (hnew e he).1) M e he⟩
  · intro a b hz hr
    have hne : comp a ≠ comp b := by
      intro h; rw [hsame a b h] at hr; exact hr hz
    refine ⟨hne, ?_⟩
    rcases addEdges_value new M a b with h | h
    · have h' : R a b = M a b := h
      rw [h'] at hr; exact absurd hz hr
    · exact h

end Graph

/-! ## The alternating loop of `find_component_connection_edge` -/

/-
The loop as it stands in /repo (since the repair of D30) carries a cycle guard:

    seen_states = set()
    while changed[0] or changed[1]:
        state = (query_side, indices[0].tobytes(), indices[1].tobytes(), bool(changed[0]), bool(changed[1]))
        if state in seen_states: break
        seen_states.add(state)
        ...

`altLoopSeen srch fuel idx0 idx1` is that loop for an ARBITRARY deterministic restricted search
`srch side queries candidates` (= the column `inds[:, 0]` of what `custom_search_closure` returns):
approximate, seeded with the other side's current points, ties broken by heap position — nothing is
assumed about it except that it returns point numbers (`< N`).  The result is the loop key at exit,
whether the guard fired, and the number of searches performed.  harness/c20.py replays the real
loop's rounds against this function (same states round by round, same number of rounds, same
best edge).
-/

/-- **Termination of the alternating loop — full statement.**  Whatever the restricted search returns
(any deterministic function of the loop state into point numbers `< N`), the loop of
`find_component_connection_edge` exits, after at most `(altUniv N idx0 idx1).length` searches. -/
theorem alternating_loop_terminates (srch : Bool → List Nat → List Nat → List Nat) (N : Nat)
    (hs : ∀ side q c, ∀ x ∈ srch side q c, x < N) (idx0 idx1 : List Nat) :
    ∃ r, altLoopSeen srch (altUniv N idx0 idx1).length idx0 idx1 = some r :=
  altLoopSeen_terminates srch N hs idx0 idx1

/-- **The guard is transparent.**  On every input on which the loop *without* the guard exits, the loop
with the guard exits in the same state after the same number of searches, and not through the guard:
the repair changes no result that existed before it. -/
theorem cycle_guard_transparent (srch : Bool → List Nat → List Nat → List Nat) (fuel : Nat)
    (idx0 idx1 : List Nat) (k' : AltKey)
    (h : plainLoop (altKeyStep srch) altKeyCont fuel (⟨idx0, idx1, false, true, true⟩, true, true) = some k') :
    ∃ n ≤ fuel, ∀ fuel' ≥ n, altLoopSeen srch fuel' idx0 idx1 = some (k', false, n) :=
  seenLoop_transparent fuel _ k' h

/-- **The guard fires only on divergence.**  If the loop leaves through `break`, the unguarded loop
would never have exited (the justification given in the `fix:` commit, proved). -/
theorem cycle_guard_fires_only_on_divergence (srch : Bool → List Nat → List Nat → List Nat) (fuel : Nat)
    (idx0 idx1 : List Nat) (k : AltKey) (r : Nat)
    (h : altLoopSeen srch fuel idx0 idx1 = some (k, true, r)) :
    ∀ fuel', plainLoop (altKeyStep srch) altKeyCont fuel' (⟨idx0, idx1, false, true, true⟩, true, true) = none :=
  seenLoop_break_sound fuel _ k r h

/-- **The exit state is the state after `r` searches**; every earlier state had a `changed` flag set, and on
a normal exit both flags are clear. -/
theorem alternating_loop_exit_state (srch : Bool → List Nat → List Nat → List Nat) (fuel : Nat)
    (idx0 idx1 : List Nat) (k : AltKey) (fired : Bool) (r : Nat)
    (h : altLoopSeen srch fuel idx0 idx1 = some (k, fired, r)) :
    k = (altKeyStep srch)^[r] (⟨idx0, idx1, false, true, true⟩, true, true) ∧
    (∀ i < r, altKeyCont ((altKeyStep srch)^[i] (⟨idx0, idx1, false, true, true⟩, true, true)) = true) ∧
    (fired = false → k.1.ch0 = false ∧ k.1.ch1 = false) := by
  obtain ⟨h1, h2, h3⟩ := seenLoop_on_path fuel _ k fired r h
  refine ⟨h1, h2, fun hf => ?_⟩
  have := h3 hf
  simpa [altKeyCont] using this

/-- **Exact search without ties: the guard never fires.**  Under the hypotheses of
`alternating_loop_terminates_partial` the repaired loop exits normally, in the state the unguarded loop
reaches. -/
theorem exact_search_guard_silent (nn : Bool → Nat → Nat) (d : Nat → Nat → Nat)
    (A B : Nat → Prop) (hnn : ExactNN nn d A B) (idx0 idx1 : List Nat) (h0 : ∀ a ∈ idx0, A a) :
    ∃ n k', ∀ fuel' ≥ n, altLoopSeen (nnSearch nn) fuel' idx0 idx1 = some (k', false, n) := by
  obtain ⟨fuel, st', hst⟩ := altLoop_terminates hnn ⟨idx0, idx1, false, true, true⟩
    (by simpa [AltState.q, dom] using h0)
  rw [altLoop_eq_plainLoop nn fuel _ true true] at hst
  cases hp : plainLoop (altKeyStep (nnSearch nn)) altKeyCont fuel (⟨idx0, idx1, false, true, true⟩, true, true) with
  | none => simp [hp] at hst
  | some k' =>
    obtain ⟨n, _, hn⟩ := cycle_guard_transparent (nnSearch nn) fuel idx0 idx1 k' hp
    exact ⟨n, k', hn⟩

/-- **The restricted search never leaves the component of its candidates.**  `custom_search_closure` is the search of
C02 (`Model/Search.lean`; compared with the real closure bit for bit by harness/c20.py) started from
`candidate_indices` as its leaf with no random samples.  If every edge of the search graph joins two points with the
same label (the search graph is a subgraph of the symmetrised neighbour graph, C16, whose connected components the
labels are) and every candidate has label `L`, then every filled slot of the result has label `L` — the hypotheses
`hcl0` / `hcl1` of `alternating_loop_stays_in_components` and, with `best_edge_joins`, `hnew` of
`connect_graph_model`. -/
theorem restricted_search_stays_in_component {P : Type} [LinearOrder P] (top : P) (htop : ∀ x : P, x ≤ top)
    (scale : P → P) (n k : Nat) (indptr indices : Array Nat) (dq : Nat → P) (cands : List Nat) (fuel : Nat)
    (hin : Pynn.C02.InputsOk n k indptr indices cands []) (comp : Nat → Nat) (L : Nat)
    (hedge : ∀ u c, c ∈ nbrs indptr indices u → comp c = comp u) (hc : ∀ c ∈ cands, comp c = L) :
    ∀ e ∈ (search top scale n k 0 indptr indices dq cands [] fuel).1.heap, 0 ≤ e.idx → comp e.idx.toNat = L := by
  intro e he h0
  have hr := Pynn.C02.search_answers_reachable top htop scale n k 0 indptr indices dq cands [] fuel hin e he h0
  simp only [List.take_nil, List.append_nil] at hr
  generalize e.idx.toNat = v at hr
  induction hr with
  | seed hv => exact hc _ hv
  | edge _ hcn ih => rw [hedge _ _ hcn]; exact ih

/-- **The index sets never leave their components.**  If the restricted search answers points of one component with
points of the other (it walks the search graph from seeds inside that component, C16), then at every iteration
`indices[0]` lies in the first and `indices[1]` in the second component. -/
theorem alternating_loop_stays_in_components (srch : Bool → List Nat → List Nat → List Nat) (A B : Nat → Prop)
    (hcl0 : ∀ q c, (∀ x ∈ q, A x) → ∀ y ∈ srch false q c, B y)
    (hcl1 : ∀ q c, (∀ x ∈ q, B x) → ∀ y ∈ srch true q c, A y)
    (idx0 idx1 : List Nat) (h0 : ∀ x ∈ idx0, A x) (h1 : ∀ x ∈ idx1, B x) (n : Nat) :
    (∀ x ∈ ((altKeyStep srch)^[n] (⟨idx0, idx1, false, true, true⟩, true, true)).1.idx0, A x) ∧
    (∀ x ∈ ((altKeyStep srch)^[n] (⟨idx0, idx1, false, true, true⟩, true, true)).1.idx1, B x) :=
  altKey_iter_in_components srch A B hcl0 hcl1 _ h0 h1 n

/-- **The recorded edge joins the two components** (hypothesis `hnew` of `connect_graph_model`): whatever holds of the
initial pair `(indices[0][0], indices[1][0])` and of every `(query point, result)` pair of a round holds of `best_edge`
after the round — in particular "the endpoints lie in different components". -/
theorem best_edge_joins {P : Type} [LT P] [DecidableLT P] (Q : Int → Int → Prop)
    (rows : List (Int × List (Int × P))) (b : Best P) (hb : Q b.a b.b) (hrows : ∀ r ∈ rows, ∀ e ∈ r.2, Q r.1 e.1) :
    Q (bestRound rows b).a (bestRound rows b).b :=
  bestRound_pred Q rows b hb hrows

/-- **Best-edge bookkeeping of one round** (`if dists[i, j] < best_dist: …`): the recorded edge is the previous
one or `(query point, result)` of an entry of this round with exactly that entry's distance; the recorded
distance bounds the previous best and every distance of the round from below (no NaN: a linear order). -/
theorem best_edge_round {P : Type} [LinearOrder P] (rows : List (Int × List (Int × P))) (b : Best P) :
    let b' := bestRound rows b
    (b' = b ∨ ∃ r ∈ rows, ∃ e ∈ r.2, b' = ⟨e.2, r.1, e.1⟩) ∧ b'.dist ≤ b.dist ∧
      ∀ r ∈ rows, ∀ e ∈ r.2, b'.dist ≤ e.2 :=
  bestRound_spec rows b

/-- **Termination of the alternating loop, exact search, no ties** (`…_partial`: the real search is
approximate and breaks ties by heap position).  `A`, `B` = the two components, `d a b` = the
distance (ranked into `Nat`), `nn false a` = the point of `B` strictly nearest to `a`, `nn true b` =
the point of `A` strictly nearest to `b` (`ExactNN`: nearest and *strictly* closer than every other
candidate, i.e. no ties).  From the loop's initial state — any seeds `idx0 ⊆ A`, any `idx1`,
`query_side = 0`, `changed = [True, True]` — the loop exits after finitely many rounds.
(Each round every chain `a ↦ nn a ↦ nn (nn a) …` strictly decreases its distance until it reaches a
mutually nearest pair; once all chains have, both index sets repeat and both flags go false.) -/
theorem alternating_loop_terminates_partial (nn : Bool → Nat → Nat) (d : Nat → Nat → Nat)
    (A B : Nat → Prop) (hnn : ExactNN nn d A B) (idx0 idx1 : List Nat) (h0 : ∀ a ∈ idx0, A a) :
    ∃ fuel st', altLoop nn fuel ⟨idx0, idx1, false, true, true⟩ = some st' :=
  altLoop_terminates hnn ⟨idx0, idx1, false, true, true⟩ (by simpa [AltState.q, dom] using h0)

/-- **Ties break it.**  Four mutually equidistant points (two per component — e.g. duplicates),
ties resolved as `0 ↦ 10 ↦ 1 ↦ 11 ↦ 0`: the loop never exits, whatever the fuel.  The real code
shows exactly this period-4 cycle on duplicate points. -/
theorem alternating_loop_tie_cycle :
    ∃ (nn : Bool → Nat → Nat) (s0 : AltState), s0.ch0 = true ∧ s0.ch1 = true ∧ s0.side = false ∧
      ∀ fuel, altLoop nn fuel s0 = none := by
  let nn : Bool → Nat → Nat := fun side x =>
    if side then (if x = 10 then 1 else 0) else (if x = 0 then 10 else 11)
  refine ⟨nn, ⟨[0], [10], false, true, true⟩, rfl, rfl, rfl, ?_⟩
  have e3 : altStep nn ⟨[1], [11], true, true, true⟩ = ⟨[0], [11], false, true, true⟩ := by decide
  have e4 : altStep nn ⟨[0], [11], false, true, true⟩ = ⟨[0], [10], true, true, true⟩ := by decide
  have e5 : altStep nn ⟨[0], [10], true, true, true⟩ = ⟨[1], [10], false, true, true⟩ := by decide
  have e6 : altStep nn ⟨[1], [10], false, true, true⟩ = ⟨[1], [11], true, true, true⟩ := by decide
  have cyc : ∀ fuel, altLoop nn fuel ⟨[1], [11], true, true, true⟩ = none ∧
      altLoop nn fuel ⟨[0], [11], false, true, true⟩ = none ∧
      altLoop nn fuel ⟨[0], [10], true, true, true⟩ = none ∧
      altLoop nn fuel ⟨[1], [10], false, true, true⟩ = none := by
    intro fuel
    induction fuel with
    | zero => simp [altLoop]
    | succ f ih =>
      obtain ⟨i3, i4, i5, i6⟩ := ih
      refine ⟨?_, ?_, ?_, ?_⟩
      · simp only [altLoop, Bool.or_self, if_true, e3, i4]
      · simp only [altLoop, Bool.or_self, if_true, e4, i5]
      · simp only [altLoop, Bool.or_self, if_true, e5, i6]
      · simp only [altLoop, Bool.or_self, if_true, e6, i3]
  have e0 : altStep nn ⟨[0], [10], false, true, true⟩ = ⟨[0], [10], true, true, false⟩ := by decide
  have e1 : altStep nn ⟨[0], [10], true, true, false⟩ = ⟨[1], [10], false, true, false⟩ := by decide
  have e2 : altStep nn ⟨[1], [10], false, true, false⟩ = ⟨[1], [11], true, true, true⟩ := by decide
  intro fuel
  match fuel with
  | 0 => simp [altLoop]
  | 1 => simp [altLoop, e0]
  | 2 => simp [altLoop, e0, e1]
  | f + 3 => simp [altLoop, e0, e1, e2, (cyc f).1]

/-! ## Non-vacuity -/

/-- a concrete stream with rejections: slots 3, (3 rejected) 1, (3 rejected) 0 — five draws -/
example : rejectionSample (fun p => [3, 7, 1, 3, 4, 1, 2].getD p 0) 3 4 5 = some [3, 1, 0] := by decide
/-- one draw short: still running -/
example : rejectionSample (fun p => [3, 7, 1, 3, 4, 1, 2].getD p 0) 3 4 4 = none := by decide
/-- `n_samples = pool_size`: a permutation of the pool -/
example : rejectionSample (fun p => 2 * p + 1) 3 3 10 = some [1, 0, 2] := by decide
/-- more samples than the pool holds: not finished after 200 draws (and never, by the theorem) -/
example : rejectionSample (fun p => p) 4 3 200 = none := by decide
/-- negative draws use Python's `%`: `-7 % 5 = 3` -/
example : residue (-7) 5 = 3 := by decide
/-- the exact generator from a state with negative words (the driver prints the same line) -/
example : (rejectionSampleRng 3 10 100 (RngState.ofInts (-7) 8 (-9))).map (·.1) = some [4, 8, 9] := by
  decide +kernel

/-- `connect_spec` on a concrete graph: components `{0,1}`, `{2,3}`, `{4}`; one edge per pair. -/
example : ∀ u v : Fin 5, Reachable
    (fun a b : Fin 5 => (a.val, b.val) ∈ [(0, 1), (1, 0), (2, 3), (3, 2), (1, 2), (2, 1), (0, 4), (4, 0), (3, 4), (4, 3)]) u v := by
  refine connect_spec (fun a b : Fin 5 => (a.val, b.val) ∈ [(0, 1), (1, 0), (2, 3), (3, 2)]) _
    (fun v => v.val / 2) 3 (by decide) ?_ (by decide) (by decide) ?_
  · intro u v h
    have key : u = v ∨ (u.val, v.val) ∈ [(0, 1), (1, 0), (2, 3), (3, 2)] := by revert h; revert u v; decide
    rcases key with rfl | hk
    · exact .refl _
    · exact .single (Or.inl hk)
  · intro c1 c2 h1 h2
    have : (c1 = 0 ∧ c2 = 1) ∨ (c1 = 0 ∧ c2 = 2) ∨ (c1 = 1 ∧ c2 = 2) := by omega
    rcases this with ⟨rfl, rfl⟩ | ⟨rfl, rfl⟩ | ⟨rfl, rfl⟩
    · exact ⟨1, 2, by decide, by decide, by decide⟩
    · exact ⟨0, 4, by decide, by decide, by decide⟩
    · exact ⟨3, 4, by decide, by decide, by decide⟩

/-- `ExactNN` is satisfiable: `A = {0, 1}`, `B = {10, 11}`, `d 0 10 = 5, d 0 11 = 3, d 1 10 = 4,
d 1 11 = 2` (no ties); both points of `A` are nearest to `11`, both points of `B` to `1` … -/
example : ExactNN (fun side _ => if side then 1 else 11)
    (fun a b => if a = 0 then (if b = 10 then 5 else 3) else (if b = 10 then 4 else 2))
    (fun a => a = 0 ∨ a = 1) (fun b => b = 10 ∨ b = 11) := by
  constructor
  · intro a _; simp
  · intro b _; simp
  · rintro a b (rfl | rfl) (rfl | rfl) <;> simp
  · rintro b a (rfl | rfl) (rfl | rfl) <;> simp
/-- … and the loop really exits on it, at the mutually nearest pair `(1, 11)`. -/
example : altLoop (fun side _ => if side then 1 else 11) 6 ⟨[0, 1], [10, 11], false, true, true⟩
    = some ⟨[1], [11], false, false, false⟩ := by decide

/-- the tie cycle of `alternating_loop_tie_cycle` under the repaired loop: the key of the 4th search recurs
at the 8th, the guard fires after 7 searches -/
example : (altLoopSeen (nnSearch (fun side x =>
      if side then (if x = 10 then 1 else 0) else (if x = 0 then 10 else 11))) 20 [0] [10]).map (fun r => (r.2.1, r.2.2))
    = some (true, 7) := by decide
/-- the tie-free example exits normally after the same 4 searches as the unguarded loop -/
example : (altLoopSeen (nnSearch (fun side _ => if side then 1 else 11)) 20 [0, 1] [10, 11]).map (fun r => (r.1.1, r.2.1, r.2.2))
    = some (⟨[1], [11], false, false, false⟩, false, 4) := by decide
/-- best-edge bookkeeping on a concrete round: strict `<` keeps the first of two equal minima -/
example : (bestRound [((5 : Int), [((7 : Int), (3 : Nat)), (8, 2)]), (6, [(9, 2), (4, 6)])] ⟨10, -1, -1⟩ : Best Nat).b = 8 := by decide

end Pynn.C20
