import PynnVerif.Proofs.Diversify
import PynnVerif.Proofs.GenSearchGraph
import Mathlib.Data.Nat.Basic  -- `LinearOrder Nat` for the concrete examples at the end

/-!
# C15 — diversification removes exactly the long edges of triangles

Property theorems only (helper lemmas live in `Proofs/Diversify.lean`).

The four kernels of the code are two loops:

* the **list-append form** `Div.diversifyList` = `pynndescent_.diversify` = `sparse.diversify`
  (one stored row of the neighbour graph, visited in storage order, `break` at the first `-1`);
* the **argsort form** `Div.diversifyCsr` = `pynndescent_.diversify_csr` = `sparse.diversify_csr`
  (one CSR row in any storage order; the visiting order `order` returned by `np.argsort` is an
  argument, so every way of breaking ties is covered).

The dense and the sparse kernel of each form run the *same* loop; they differ only in how
`dist` is evaluated (`dist(data[a], data[b])` on dense rows, `dist(ind_a, data_a, ind_b, data_b)` on
CSR slices).  Here `dist : Int → Int → P` is an arbitrary table between point numbers — no
symmetry, no triangle inequality, no relation to the lengths is assumed — so "dense = sparse" is
the statement that both evaluate the same table (checked bit-for-bit by `harness/c15.py`), and
"forward = reverse" is `kernels_agree`: the two forms take identical decisions when they visit
the entries in the same order.

`P` is any linear order, `eps : P` models `FLOAT32_EPS`; `nbr j`, `len j` are the neighbour index
and the length stored at position `j`.  `draw c` is the outcome of the `c`-th evaluation of
`tau_rand(local_rng_state) < prune_probability` in the row: probability 1 is `fun _ => true`
(`tau_rand` returning exactly `1.0`, probability 3e-8 per draw, is excluded by this hypothesis),
probability 0 is `fun _ => false`.
-/
namespace Pynn.C15
open Pynn Pynn.Div
variable {P : Type} [LinearOrder P]

/-- **The rule** (argsort form, every visiting order).  With probability 1 the retained set
`R = {j | retained[j] = 1}` of a row satisfies: `j ∈ R` iff no `l ∈ R` visited before `j`
(`l ∈ pre` where `order = pre ++ j :: post`) has `eps < len l` and `dist (nbr j) (nbr l) < len j`.
`order.Nodup`: `argsort` returns every position once. -/
theorem occlude_is_rule (eps : P) (dist : Int → Int → P) (nbr : Nat → Int) (len : Nat → P)
    (order : List Nat) (hnd : order.Nodup) :
    ∀ pre j post, order = pre ++ j :: post →
      (diversifyCsr eps dist (fun _ => true) nbr len order j = true ↔
        ¬ ∃ l ∈ pre, diversifyCsr eps dist (fun _ => true) nbr len order l = true ∧
            eps < len l ∧ dist (nbr j) (nbr l) < len j) :=
  diversifyCsr_rule eps dist nbr len order hnd

/-- **The rule determines the retained set** (induction on the visiting position): two sets that
both satisfy the rule for the same visiting order agree on every visited position. -/
theorem rule_unique (eps : P) (dist : Int → Int → P) (nbr : Nat → Int) (len : Nat → P)
    (order : List Nat) (R R' : Nat → Prop)
    (h : Rule eps dist nbr len order R) (h' : Rule eps dist nbr len order R') :
    ∀ j ∈ order, (R j ↔ R' j) :=
  rule_unique_mem eps dist nbr len order R R' h h'

/-- **The nearest neighbour is always retained**: the first visited position keeps
`retained = 1` whatever the generator says. -/
theorem first_retained (eps : P) (dist : Int → Int → P) (draw : Nat → Bool) (nbr : Nat → Int)
    (len : Nat → P) (o : Nat) (rest : List Nat) (hnd : (o :: rest).Nodup) :
    diversifyCsr eps dist draw nbr len (o :: rest) o = true :=
  diversifyCsr_first eps dist draw nbr len o rest hnd

/-- **Probability 0 removes nothing** (argsort form): every position keeps `retained = 1`. -/
theorem prob_zero_retains_all (eps : P) (dist : Int → Int → P) (nbr : Nat → Int) (len : Nat → P)
    (order : List Nat) (j : Nat) :
    diversifyCsr eps dist (fun _ => false) nbr len order j = true :=
  diversifyCsr_prob_zero eps dist nbr len order j

/-- **Every `prune_probability`: only occluded entries are removed** (argsort form, every visiting
order, every draw stream — the half of the rule that does not depend on the generator): a position
that is not retained has a *retained* position `l` visited before it with `eps < len l` and
`dist (nbr j) (nbr l) < len j`.  (The converse is `occlude_is_rule` and needs the draws to say
"prune".)  Together with `kernels_agree` the same holds for the list-append form. -/
theorem removed_is_occluded (eps : P) (dist : Int → Int → P) (draw : Nat → Bool) (nbr : Nat → Int)
    (len : Nat → P) (order : List Nat) (hnd : order.Nodup) :
    ∀ pre j post, order = pre ++ j :: post →
      diversifyCsr eps dist draw nbr len order j = false →
        ∃ l ∈ pre, diversifyCsr eps dist draw nbr len order l = true ∧
            eps < len l ∧ dist (nbr j) (nbr l) < len j :=
  fun pre j post hsplit h => diversifyCsr_false_occ eps dist draw nbr len order hnd pre j post hsplit h

/-- **The two forms take identical decisions** (hence dense = sparse and forward = "reverse"):
given the entries `(nbr i, len i)` in visiting order `order`, the list-append form returns exactly
the keep-flags of the argsort form (`.2`, position by position) and appends to `new_*` exactly the
entries the argsort form retains (`.1`) — for *every* draw stream, so also for every
`prune_probability` and generator state.  `hreal`: no `-1` after the first entry (a CSR row holds
none; for padded list rows see `list_stops_at_sentinel`). -/
theorem kernels_agree (eps : P) (dist : Int → Int → P) (draw : Nat → Bool) (nbr : Nat → Int)
    (len : Nat → P) (order : List Nat) (hnd : order.Nodup) (hreal : ∀ x ∈ order.tail, 0 ≤ nbr x) :
    (diversifyList eps dist draw (order.map (fun i => (nbr i, len i)))).2 =
        order.map (diversifyCsr eps dist draw nbr len order) ∧
    (diversifyList eps dist draw (order.map (fun i => (nbr i, len i)))).1 =
        (order.filter (diversifyCsr eps dist draw nbr len order)).map (fun i => (nbr i, len i)) :=
  diversifyList_eq_csr eps dist draw nbr len order hnd hreal

/-- **Idempotence** (note N8: `_init_search_graph` runs a second pass over the forward rows and
relies on this): a second pass with probability 1 over the retained entries, visited in the same
order, retains all of them. -/
theorem occlude_idempotent (eps : P) (dist : Int → Int → P) (nbr : Nat → Int) (len : Nat → P)
    (order : List Nat) (hnd : order.Nodup) :
    ∀ j ∈ order.filter (diversifyCsr eps dist (fun _ => true) nbr len order),
      diversifyCsr eps dist (fun _ => true) nbr len
        (order.filter (diversifyCsr eps dist (fun _ => true) nbr len order)) j = true :=
  diversifyCsr_idempotent eps dist nbr len order hnd

/-- **`-1` padding** (list form): the entries from the first `-1` on (after position 0) are neither
looked at nor kept; the kernel behaves as on the live prefix `Div.live row`. -/
theorem list_stops_at_sentinel (eps : P) (dist : Int → Int → P) (draw : Nat → Bool) (row : List (Ent P)) :
    (diversifyList eps dist draw row).1 = (diversifyList eps dist draw (live row)).1 ∧
    (diversifyList eps dist draw row).2 = (diversifyList eps dist draw (live row)).2 ++
      List.replicate (row.length - (live row).length) false ∧
    (∀ e ∈ (live row).tail, 0 ≤ e.1) :=
  ⟨(diversifyList_live eps dist draw row).1, (diversifyList_live eps dist draw row).2, live_tail_real row⟩

/-- **The rule, list form** (visiting order = storage order, by position): on a row without a `-1`
after its first entry there is a keep-flag vector `R` such that the kernel's output is the entries
with `R j`, and `R j` iff no earlier `l` with `R l` has `eps < len l ∧ dist (nbr j) (nbr l) < len j`. -/
theorem occlude_is_rule_list (eps : P) (dist : Int → Int → P) (row : List (Ent P))
    (hreal : ∀ e ∈ row.tail, 0 ≤ e.1) :
    ∃ R : Nat → Bool,
      (diversifyList eps dist (fun _ => true) row).2 = (List.range row.length).map R ∧
      (diversifyList eps dist (fun _ => true) row).1 =
        ((List.range row.length).filter R).map (fun j => (nbrOf row j, lenOf eps row j)) ∧
      ∀ j, j < row.length →
        (R j = true ↔ ¬ ∃ l, l < j ∧ R l = true ∧ eps < lenOf eps row l ∧
            dist (nbrOf row j) (nbrOf row l) < lenOf eps row j) := by
  have hnd : (List.range row.length).Nodup := List.nodup_range
  have hag := diversifyList_eq_csr eps dist (fun _ => true) (nbrOf row) (lenOf eps row)
    (List.range row.length) hnd (nbrOf_tail_real row hreal)
  rw [← row_eq_map eps row] at hag
  refine ⟨diversifyCsr eps dist (fun _ => true) (nbrOf row) (lenOf eps row) (List.range row.length),
    hag.1, hag.2, ?_⟩
  intro j hj
  exact rule_range eps dist (nbrOf row) (lenOf eps row) row.length _
    (diversifyCsr_rule eps dist (nbrOf row) (lenOf eps row) _ hnd) j hj

/-- **The nearest neighbour is always retained, list form**: `new_*` starts with the first stored
entry (whatever the generator says) and its keep-flag is set. -/
theorem first_retained_list (eps : P) (dist : Int → Int → P) (draw : Nat → Bool) (e : Ent P)
    (rest : List (Ent P)) :
    (diversifyList eps dist draw (e :: rest)).1.head? = some e ∧
    (diversifyList eps dist draw (e :: rest)).2.head? = some true := by
  obtain ⟨ext, h⟩ := divLoop_prefix eps dist draw rest [e] 0
  simp [diversifyList, h]

/-- **Probability 0 removes nothing, list form**: the output is the live prefix of the row. -/
theorem prob_zero_retains_all_list (eps : P) (dist : Int → Int → P) (row : List (Ent P)) :
    (diversifyList eps dist (fun _ => false) row).1 = live row := by
  rw [(diversifyList_live eps dist _ row).1]
  have hnd : (List.range (live row).length).Nodup := List.nodup_range
  have hag := diversifyList_eq_csr eps dist (fun _ => false) (nbrOf (live row)) (lenOf eps (live row))
    (List.range (live row).length) hnd (nbrOf_tail_real (live row) (live_tail_real row))
  rw [← row_eq_map eps (live row)] at hag
  rw [hag.2]
  have : (List.range (live row).length).filter
      (diversifyCsr eps dist (fun _ => false) (nbrOf (live row)) (lenOf eps (live row))
        (List.range (live row).length)) = List.range (live row).length := by
    apply List.filter_eq_self.mpr
    intro j _
    exact diversifyCsr_prob_zero _ _ _ _ _ _
  rw [this]
  exact (row_eq_map eps (live row)).symm

/-! ## non-vacuity: concrete rows over `P = Nat`, `eps = 0`

Five points on a line at `0, 1, 2, 10, 1` (point 4 is an exact duplicate of point 1),
`dist a b = |x a - x b|`. -/

/-- the coordinates -/
def xs : List Nat := [0, 1, 2, 10, 1]
/-- `|x a - x b|` -/
def lineDist (a b : Int) : Nat :=
  let p := xs.getD a.toNat 0; let q := xs.getD b.toNat 0
  if p ≤ q then q - p else p - q

/-- The row of point 0 (self at length 0, then 1, 4 (tie), 2, 3) padded with `-1`:
self (length `≤ eps`) occludes nothing, point 1 is kept, its duplicate 4 is removed
(`dist 4 1 = 0 < 1`), as are 2 (`1 < 2`) and 3 (`9 < 10`); the padding is not looked at. -/
example : diversifyList 0 lineDist (fun _ => true)
      [(0, 0), (1, 1), (4, 1), (2, 2), (3, 10), (-1, 99)]
    = ([(0, 0), (1, 1)], [true, true, false, false, false, false]) := by decide

/-- Probability 0 keeps the live prefix. -/
example : (diversifyList 0 lineDist (fun _ => false)
      [(0, 0), (1, 1), (4, 1), (2, 2), (3, 10), (-1, 99)]).1
    = [(0, 0), (1, 1), (4, 1), (2, 2), (3, 10)] := by decide

/-- The same row as a CSR row stored in column order `[0,1,2,3,4]` with lengths `[0,1,2,10,1]`.
Visiting order `[0,1,4,2,3]` (tie 1 before 4) retains positions `{0,1}`; the other ascending
order `[0,4,1,2,3]` retains `{0,4}` instead: an unstable argsort changes *which* of two tied
entries survives, which the rule (stated relative to the visiting order) allows. -/
example : (List.range 5).map (diversifyCsr 0 lineDist (fun _ => true)
      (fun j => (j : Int)) (fun j => [0, 1, 2, 10, 1].getD j 0) [0, 1, 4, 2, 3])
    = [true, true, false, false, false] := by decide
example : (List.range 5).map (diversifyCsr 0 lineDist (fun _ => true)
      (fun j => (j : Int)) (fun j => [0, 1, 2, 10, 1].getD j 0) [0, 4, 1, 2, 3])
    = [true, false, false, false, true] := by decide

/-- A draw stream that refuses the first pruning: entry 4 survives the test against 1 (draw 0 is
`false`), the later ones are pruned (the generator is consulted only on successful tests). -/
example : diversifyList 0 lineDist (fun c => decide (0 < c))
      [(0, 0), (1, 1), (4, 1), (2, 2), (3, 10)]
    = ([(0, 0), (1, 1), (4, 1)], [true, true, true, false, false]) := by decide

/-- `removed_is_occluded` on that stream: the removed position 3 (point 2, length 2) is occluded by
the retained position 1 (point 1), the removed position 4 by the retained position 1 as well. -/
example : (List.range 5).map (diversifyCsr 0 lineDist (fun c => decide (0 < c))
      (fun j => [0, 1, 4, 2, 3].getD j 0) (fun j => [0, 1, 1, 2, 10].getD j 0) [0, 1, 2, 3, 4])
    = [true, true, true, false, false] := by decide

/-! ## the translated dense `diversify` (`Gen/SearchGraphKernels.lean`), row level

`GenSG.diversify` is the syntax-directed translation of the source text of `pynndescent_.diversify`
(`harness/translate_searchgraph.py`, re-run by `check` before every build): `prange` as `range`, the
typed lists as arrays with `push`, `break` / `flag`, the write-back loop with `-1` / `np.inf`.
UNINTERPRETED (class `DivParams`): `FLOAT32_EPS`, `np.inf`, `dist(data[a], data[b])` as a function
of the two point numbers (the loads from `data` are not translated — the model's `dist` is the same
kind of table), and the outcome of the `c`-th test `tau_rand(rng_state + i) < prune_probability` of
row `i` as `draw i c` (the generator is private to the row and consulted only at these tests, so
the counter advances exactly there).  Helper lemmas: `Proofs/GenSearchGraph.lean`
(`diversify_loop2` = `scanNew`, `diversify_loop1` = `divLoop`).

FULL STATEMENT, NOT PROVED (time): for every rectangular `indices`, `distances` of width `≥ 1`, every
`DivParams` and enough fuel, `GenSG.diversify fuel indices distances … = some (I', D', I', D')` with
row `i` of `(I', D')` = `diversifyRow top eps dist (draw i) (row i of (indices, distances))`.
MISSING for it: the write-back loop `diversify.loop3` (the `(-1, inf)` padding through `wr2`) and the
outer loop over the rows (that row `i` is read before and independently of the stores into rows
`< i`).  What IS proved, for every row, every `dist`, every draw stream: the two inner loops, i.e.
the `new_indices` / `new_distances` the kernel builds for the row. -/
section KernelTie
open Pynn.GenSearchGraphProofs Pynn.GenSG

/-- **`diversify` (translated source), row `i`: the lists `new_indices` / `new_distances` it builds
are the model's** `(diversifyList eps dist (draw i) row).1`, without out-of-bounds access, for every
row of width `W ≥ 1` (indices and distances of the same width), every `DivParams` (so: every `dist`,
every draw stream, every `eps`) and fuel `≥ 2W + 2`: the candidate loop as the kernel enters it
(`new_* = [entry 0]`, `j = 1`, fresh generator) — scan loop with `break` / `flag`, the `-1` sentinel
`break`, the appends. -/
theorem kernel_diversify_row_refines_partial [OfNat P 0] [SortFn P] [DivParams P]
    (indices : Array (Array Int)) (distances : Array (Array P)) (data : Array (Array P))
    (i : Nat) (hi : i < indices.size) (hd : i < distances.size) (hw : indices[i].size = distances[i].size)
    (h0 : 0 < indices[i].size) (fuel : Nat) (hf : 2 * indices[i].size + 2 ≤ fuel) :
    ∃ (c' j' : Int) (ni' : Array Int) (nd' : Array P),
      diversify.loop1 indices distances data () (i : Int) (indices[i].size : Int) fuel 0
          #[indices[i][0]] #[distances[i][0]'(hw ▸ h0)] 1
        = some (.next (c', ni', nd', j')) ∧ ni'.size = nd'.size ∧ ni'.size ≤ indices[i].size ∧
      ents ni' nd' = (diversifyList DivParams.eps DivParams.dist (drawOf P i)
        (ents indices[i] distances[i])).1 :=
  diversify_row_new indices distances data i hi hd hw h0 fuel hf

/-- **`first_retained` / `prob_zero_retains_all` on the translated kernel** (`first_retained_list`,
`prob_zero_retains_all_list`): the lists the translated kernel builds for a row start with the
row's first entry whatever the generator says, and when no test of the row prunes
(`prune_probability = 0`) they are the live prefix of the row. -/
theorem kernel_diversify_first_and_prob_zero [OfNat P 0] [SortFn P] [DivParams P]
    (indices : Array (Array Int)) (distances : Array (Array P)) (data : Array (Array P))
    (i : Nat) (hi : i < indices.size) (hd : i < distances.size) (hw : indices[i].size = distances[i].size)
    (h0 : 0 < indices[i].size) (fuel : Nat) (hf : 2 * indices[i].size + 2 ≤ fuel) :
    ∃ (c' j' : Int) (ni' : Array Int) (nd' : Array P),
      diversify.loop1 indices distances data () (i : Int) (indices[i].size : Int) fuel 0
          #[indices[i][0]] #[distances[i][0]'(hw ▸ h0)] 1
        = some (.next (c', ni', nd', j')) ∧
      (ents ni' nd').head? = some (indices[i][0], distances[i][0]'(hw ▸ h0)) ∧
      ((∀ c, DivParams.draw P (i : Int) c = false) →
        ents ni' nd' = live (ents indices[i] distances[i])) := by
  obtain ⟨c', j', ni', nd', h1, _, _, h4⟩ :=
    kernel_diversify_row_refines_partial indices distances data i hi hd hw h0 fuel hf
  have e := ents_drop_lt indices[i] distances[i] hw 0 h0
  rw [List.drop_zero] at e
  refine ⟨c', j', ni', nd', h1, ?_, ?_⟩
  · rw [h4, e]; exact (first_retained_list _ _ _ _ _).1
  · intro hz
    have : drawOf P i = fun _ => false := by funext c; exact hz _
    rw [h4, this]; exact prob_zero_retains_all_list _ _ _

end KernelTie

end Pynn.C15
