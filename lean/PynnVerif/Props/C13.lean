import PynnVerif.Proofs.DescentInv
import PynnVerif.Proofs.GenInit
import Mathlib.Order.Fin.Basic  -- `LinearOrder (Fin 10)` for the concrete examples at the end

/-!
# C13 — neighbour lists only improve

Everything the modelled `nn_descent` (and `init_rp_tree`, `init_random`) does to a row of the
graph heap is a heap push or a flag change.  A push replaces the root by a strictly closer
entry or does nothing; hence, **for every threshold `t`, the number of entries of a row
within `t` never decreases**.  No well-formedness of the heap, no truthfulness of the updates,
no symmetry of `dist` is needed for this chain: it holds for *arbitrary* graphs and update
lists.  `countLe row t = #{e ∈ row | e.prio ≤ t}` (`Proofs/GraphInv.lean`);
`RankLe g g'` (`Proofs/DescentInv.lean`) says: same number of rows, row sizes equal, and
`countLe g[r] t ≤ countLe g'[r] t` for every row `r` and threshold `t`.
-/
namespace Pynn.C13
open Pynn
variable {P : Type} [LinearOrder P]
variable {C : Type} [LE C] [LT C] [DecidableLE C] [DecidableLT C]

/-- **One push never makes a row worse** (`simple_heap_push`, `checked_heap_push`,
`checked_flagged_heap_push`; accepted or rejected; any row, heap or not): for every threshold
`t` the number of entries within `t` does not decrease.

Equivalence with order statistics: write `a₍₀₎ ≤ a₍₁₎ ≤ …` for the sorted priorities of a row.
`a₍ⱼ₎ ≤ t ↔ countLe a t > j`, so "`countLe a t ≤ countLe b t` for all `t`" is the same as
"`b₍ⱼ₎ ≤ a₍ⱼ₎` for all `j`" (take `t = a₍ⱼ₎` for `→`; for `←` the first `countLe a t` sorted
entries of `b` are `≤ t`).  Both directions are proved for ascending rows below
(`rank_le_iff_count_le`). -/
theorem push_rank_le (c : Bool) (h : Row P) (p : P) (n : Int) (f : Bool) (t : P) :
    countLe h t ≤ countLe (push c h p n f).1 t :=
  push_countLe c h p n f t

/-- **Counts within thresholds = order statistics**: for two ascending rows of the same size,
`b` holds at least as many entries within every threshold as `a` iff the `j`-th smallest
priority of `b` is at most the `j`-th smallest of `a`, for every `j`. -/
theorem rank_le_iff_count_le (a b : Row P) (hsize : b.size = a.size)
    (ha : ∀ i j (hi : i < a.size) (hj : j < a.size), i ≤ j → a[i].prio ≤ a[j].prio)
    (hb : ∀ i j (hi : i < b.size) (hj : j < b.size), i ≤ j → b[i].prio ≤ b[j].prio) :
    (∀ t, countLe a t ≤ countLe b t) ↔
      (∀ j (hja : j < a.size) (hjb : j < b.size), b[j].prio ≤ a[j].prio) :=
  ⟨sorted_rank_le_of_countLe ha hb, countLe_le_of_sorted_rank_le hsize ha⟩

/-- **`pushInto` on a graph**: the pushed row keeps its size and no count decreases; every
other row is untouched; out-of-range row numbers do nothing. -/
theorem pushInto_rank_le (g : Graph P) (r : Nat) (d : P) (q : Int) (f : Bool) (t : P) :
    ∀ (r' : Nat) (row : Row P), g[r']? = some row →
      ∃ row', (pushInto g r d q f).1[r']? = some row' ∧ countLe row t ≤ countLe row' t :=
  pushInto_count g r d q f t

/-- **NN-descent never makes a supplied row worse.**  For *every* supplied initial heap `g0`
(no well-formedness assumed: duplicates, wrong distances, broken heap order are all allowed),
every configuration (iterations, `max_candidates`, threads, low/high memory, block size), stop
test, generator state, draw function and `dist` (symmetric or not): the output has the shape
of `g0`, and every row holds, for every threshold `t`, at least as many entries within `t` as
the supplied row did.  This includes the final `deheap_sort` (a permutation of each row). -/
theorem descent_rank_le (top : P) (ctop : C) (draw : RngState → C × RngState)
    (dist : Nat → Nat → P) (n : Nat) (cfg : Cfg) (stop : Nat → Bool) (rng : RngState)
    (g0 : Graph P) (rp : Bool) (leafArray : List (List Int)) :
    let out := (nnDescent top ctop draw dist n cfg stop rng (some g0) rp leafArray).1
    out.size = g0.size ∧ ∀ p (h0 : p < g0.size) (h1 : p < out.size),
      out[p].size = g0[p].size ∧ ∀ t, countLe g0[p] t ≤ countLe out[p] t := by
  intro out
  have h : RankLe g0 out := nnDescent_rankLe top ctop draw dist n cfg stop rng g0 rp leafArray
  exact ⟨h.1, fun p h0 h1 => ⟨(h.getElem p h0 h1 top).1, fun t => (h.getElem p h0 h1 t).2⟩⟩

/-- **Rank-wise form** (what the API-level oracle compares): if the supplied rows are
max-heaps (as `make_heap` + pushes always are), every output row is ascending and its `j`-th
entry is at most the `j`-th smallest priority of the supplied row (`deheapSort g0[p]` is the
supplied row sorted). -/
theorem descent_rank_le_sorted (top : P) (ctop : C) (draw : RngState → C × RngState)
    (dist : Nat → Nat → P) (n : Nat) (cfg : Cfg) (stop : Nat → Bool) (rng : RngState)
    (g0 : Graph P) (hheap : ∀ p (hp : p < g0.size), IsHeap g0[p]) (rp : Bool)
    (leafArray : List (List Int)) :
    let out := (nnDescent top ctop draw dist n cfg stop rng (some g0) rp leafArray).1
    ∀ p (h0 : p < g0.size) (h1 : p < out.size) j (hj : j < out[p].size)
      (hj0 : j < (deheapSort g0[p]).size), out[p][j].prio ≤ (deheapSort g0[p])[j].prio := by
  intro out p h0 h1 j hj hj0
  have h : RankLe g0 out := nnDescent_rankLe top ctop draw dist n cfg stop rng g0 rp leafArray
  have hall : AllHeap g0 := by
    intro r row hr
    obtain ⟨hlt, rfl⟩ := Array.getElem?_eq_some_iff.mp hr
    exact hheap r hlt
  have hsorted := nnDescent_sorted top ctop draw dist n cfg stop rng g0 hall rp leafArray p out[p]
    (Array.getElem?_eq_getElem h1)
  have hperm := deheapSort_perm g0[p]
  refine sorted_rank_le_of_countLe (deheapSort_sorted g0[p] (hheap p h0)) hsorted ?_ j hj0 hj
  intro t
  rw [countLe_perm hperm]
  exact (h.getElem p h0 h1 t).2

/-- **One more iteration never makes any row worse** (loop body =
`new_build_candidates`, flag clearing, local join over all blocks; any graph, any `in_graph`
record). -/
theorem iteration_rank_le (top : P) (ctop : C) (draw : RngState → C × RngState)
    (dist : Nat → Nat → P) (cfg : Cfg) (rng : RngState) (g : Graph P) (s : InGraph) :
    RankLe g (descentIter top ctop draw dist cfg rng g s).1.1 :=
  descentIter_rankLe top ctop draw dist cfg rng g s

/-- **The loop is prefix-closed and monotone in `n_iters`**: with the same seed, the state
after `it + 1` allowed iterations is the state after `it` — when the stop test fired — or
exactly one more loop body applied to it; in both cases it is rank-wise at least as good.
(`new_build_candidates` receives the *same* generator state in every iteration — `rng_state + n`
builds a fresh array, the index-wide state is never advanced inside `nn_descent` — which is
what makes runs with different `n_iters` comparable.) -/
theorem more_iterations_rank_le (top : P) (ctop : C) (draw : RngState → C × RngState)
    (dist : Nat → Nat → P) (cfg : Cfg) (stop : Nat → Bool) (rng : RngState) (it : Nat)
    (g : Graph P) (s : InGraph) :
    (descentLoop top ctop draw dist cfg stop rng (it + 1) g s =
          descentLoop top ctop draw dist cfg stop rng it g s ∨
      ∃ s', descentLoop top ctop draw dist cfg stop rng (it + 1) g s =
          (descentIter top ctop draw dist cfg rng
            (descentLoop top ctop draw dist cfg stop rng it g s) s').1.1) ∧
    RankLe (descentLoop top ctop draw dist cfg stop rng it g s)
      (descentLoop top ctop draw dist cfg stop rng (it + 1) g s) :=
  ⟨descentLoop_succ_cases top ctop draw dist cfg stop rng it g s,
   descentLoop_succ_rankLe top ctop draw dist cfg stop rng it g s⟩

/-- **`n_iters = t + 1` is rank-wise at least as good as `n_iters = t`** for the whole
`nn_descent` (same seed, same initialisation — tree, random or supplied —, sorted outputs). -/
theorem niters_rank_le (top : P) (ctop : C) (draw : RngState → C × RngState)
    (dist : Nat → Nat → P) (n : Nat) (cfg : Cfg) (stop : Nat → Bool) (rng : RngState)
    (init : Option (Graph P)) (rp : Bool) (leafArray : List (List Int)) :
    RankLe (nnDescent top ctop draw dist n cfg stop rng init rp leafArray).1
      (nnDescent top ctop draw dist n { cfg with nIters := cfg.nIters + 1 } stop rng init rp
        leafArray).1 :=
  nnDescent_niters_rankLe top ctop draw dist n cfg stop rng init rp leafArray

/-- **Initialisation never makes a row worse either**: `init_rp_tree` and `init_random` on any
heap (used with the empty heap, where every count within `t < top` starts at 0). -/
theorem init_rank_le (top : P) (dist : Nat → Nat → P) (k n : Nat) (g : Graph P)
    (leafArray : List (List Int)) (blockSize : Nat) (rng : RngState) :
    RankLe g (initRpTree top dist g leafArray blockSize) ∧
    RankLe g (initRandom k n dist g rng).1 :=
  ⟨initRpTree_rankLe top dist g leafArray blockSize, initRandom_rankLe k n dist g rng⟩

/-- **Re-insertion reproduces a well-formed row.**  Push the entries of a duplicate-free
well-formed row (real entries `0 ≤ idx` with `prio < top`, sentinels `(-1, top)`) — in the
order they are stored, sorted or not — into an empty heap of the same size with
`checked_flagged_heap_push(…, flag)` as `init_from_neighbor_graph` does: the result holds the
same multiset of `(index, distance)` pairs.  Sentinels are rejected because `top ≥ top`; every
real entry is accepted because the heap still has a `top` root while fewer than `k` real
entries are in, and the scan finds no duplicate.  (Sortedness is not needed; the flags of the
result are all `flag`.) -/
theorem reinsert_eq (top : P) (htop : ∀ x : P, x ≤ top) (flag : Bool) (row : Row P)
    (hnodup : ((row.toList.filter (fun e => 0 ≤ e.idx)).map (·.idx)).Nodup)
    (hwf : ∀ e ∈ row, (e.idx = -1 ∧ e.prio = top) ∨ (0 ≤ e.idx ∧ e.prio < top)) :
    ((row.toList.foldl (fun h e => (pushFlagged h e.prio e.idx flag).1)
        (mkRow top row.size)).toList.map (fun e => (e.idx, e.prio))).Perm
      (row.toList.map (fun e => (e.idx, e.prio))) :=
  reinsert_keys_perm htop flag row hnodup hwf

/-- **`update()` starts from the old lists**: `init_from_neighbor_graph` on an empty heap with
`n'` rows, given the index and distance arrays of an old graph whose rows are well-formed
(C01), returns every old row as the same multiset of `(index, distance)` pairs and leaves the
appended rows `old.size ≤ r < n'` empty. -/
theorem update_reinsert (top : P) (htop : ∀ x : P, x ≤ top) (old : Graph P) (n' k : Nat)
    (hold : ∀ (r : Nat) (row : Row P), old[r]? = some row → row.size = k ∧
      ((row.toList.filter (fun e => 0 ≤ e.idx)).map (·.idx)).Nodup ∧
      (∀ e ∈ row, (e.idx = -1 ∧ e.prio = top) ∨ (0 ≤ e.idx ∧ e.prio < top))) :
    ∀ r, r < n' → ∃ row',
      (initFromNeighborGraph (mkGraph top n' k) (idxRows old) (prioRows old))[r]? = some row' ∧
      match old[r]? with
      | some row => (row'.toList.map (fun e => (e.idx, e.prio))).Perm
                      (row.toList.map (fun e => (e.idx, e.prio)))
      | none => row' = mkRow top k :=
  initFromNeighborGraph_reinsert htop old n' k hold

/-! ## The generated `init_from_neighbor_graph`

`Gen/Kernels.lean` (regenerated from `pynndescent_.py` on every run by `harness/translate_kernels.py`) contains
the translation of `init_from_neighbor_graph`: two nested loops over `indices` / `distances`, every entry pushed
with flag `0` — without looking at the index — into row `p` of the heap by the translated
`checked_flagged_heap_push`, with write-back. -/

/-- **`pynndescent_.init_from_neighbor_graph` is the model's `initFromNeighborGraph`.**  For a rectangular heap
(`n` rows of `k ≥ 1` slots in the three arrays), `m ≤ n` rows of `w` entries in `indices` and `distances`, and
`fuel ≥ m + w + k + 2`, the translated kernel never leaves an array, keeps the heap's shape, and the arrays it
returns are, row for row, the model's graph.  No order axioms (`Q`: any type with decidable `≤`, `<`). -/
theorem kernel_init_from_neighbor_graph_refines {Q : Type} [LE Q] [LT Q] [DecidableLE Q] [DecidableLT Q]
    (k : Nat) (hk : 0 < k) (I : Array (Array Int)) (D : Array (Array Q)) (F : Array (Array Int))
    (indices : Array (Array Int)) (distances : Array (Array Q)) (w : Nat)
    (hI : I.size = D.size) (hF : F.size = D.size)
    (hrect : ∀ r (h : r < D.size), D[r].size = k ∧ (I[r]'(by omega)).size = k ∧ (F[r]'(by omega)).size = k)
    (hsz : distances.size = indices.size) (hn : indices.size ≤ D.size)
    (hw : ∀ r (h : r < indices.size), indices[r].size = w ∧ (distances[r]'(by omega)).size = w)
    (fuel : Nat) (hf : indices.size + w + k + 2 ≤ fuel) :
    ∃ I' D' F', GenK.init_from_neighbor_graph fuel I D F indices distances = some (I', D', F') ∧
      D'.size = D.size ∧ I'.size = D.size ∧ F'.size = D.size ∧
      (∀ r (h : r < D'.size) (h' : r < I'.size) (h'' : r < F'.size),
        D'[r].size = k ∧ I'[r].size = k ∧ F'[r].size = k) ∧
      zipGraph D' I' F' = initFromNeighborGraph (zipGraph D I F) (indices.toList.map (·.toList))
        (distances.toList.map (·.toList)) :=
  init_from_neighbor_graph_refines k hk I D F indices distances w hI hF hrect hsz hn hw fuel hf

/-- **`update()` starts from the old lists — on the generated kernel.**  Run the translated
`init_from_neighbor_graph` on `make_heap(n', k)`'s arrays with the index and distance arrays of an old graph
whose rows are well-formed (C01): it stays in bounds, and the arrays it returns hold every old row as the same
multiset of `(index, distance)` pairs, the appended rows staying empty. -/
theorem kernel_update_reinsert (top : P) (htop : ∀ x : P, x ≤ top) (old : Graph P) (n' k : Nat) (hk : 0 < k)
    (hold : ∀ (r : Nat) (row : Row P), old[r]? = some row → row.size = k ∧
      ((row.toList.filter (fun e => 0 ≤ e.idx)).map (·.idx)).Nodup ∧
      (∀ e ∈ row, (e.idx = -1 ∧ e.prio = top) ∨ (0 ≤ e.idx ∧ e.prio < top)))
    (indices : Array (Array Int)) (distances : Array (Array P))
    (hIdx : indices.toList.map (·.toList) = idxRows old) (hPr : distances.toList.map (·.toList) = prioRows old)
    (hn : old.size ≤ n') (fuel : Nat) (hf : old.size + k + k + 2 ≤ fuel) :
    ∃ I' D' F', GenK.init_from_neighbor_graph fuel (Array.replicate n' (Array.replicate k (-1)))
        (Array.replicate n' (Array.replicate k top)) (Array.replicate n' (Array.replicate k 0)) indices distances
        = some (I', D', F') ∧
      ∀ r, r < n' → ∃ row', (zipGraph D' I' F')[r]? = some row' ∧
        match old[r]? with
        | some row => (row'.toList.map (fun e => (e.idx, e.prio))).Perm
                        (row.toList.map (fun e => (e.idx, e.prio)))
        | none => row' = mkRow top k := by
  have hm1 : indices.size = old.size := by
    have := congrArg List.length hIdx; simpa [idxRows] using this
  have hm2 : distances.size = old.size := by
    have := congrArg List.length hPr; simpa [prioRows] using this
  have hw : ∀ r (h : r < indices.size), indices[r].size = k ∧ (distances[r]'(by omega)).size = k := by
    intro r h
    have hr : r < old.size := by omega
    have e1 := congrArg (fun l => (l[r]?).map List.length) hIdx
    have e2 := congrArg (fun l => (l[r]?).map List.length) hPr
    have hk' := (hold r old[r] (by simp [hr])).1
    simp [idxRows, prioRows, h, hr, hk', show r < distances.size by omega] at e1 e2
    exact ⟨e1, e2⟩
  obtain ⟨I', D', F', h1, _, _, _, _, hz⟩ := init_from_neighbor_graph_refines k hk
    (Array.replicate n' (Array.replicate k (-1))) (Array.replicate n' (Array.replicate k top))
    (Array.replicate n' (Array.replicate k 0)) indices distances k (by simp) (by simp)
    (by intro r h; simp) (by omega) (by simp; omega) hw fuel (by omega)
  refine ⟨I', D', F', h1, ?_⟩
  rw [hz, zipGraph_replicate, hIdx, hPr]
  exact update_reinsert top htop old n' k hold

/-! ## non-vacuity -/

/-- the generated `init_from_neighbor_graph` executed by the Lean kernel: two rows of two slots re-seeded from a sorted
old graph (`Nat` priorities, `top = 100`); the `-1` sentinel of row 1 is offered too and rejected (`100 ≥ 100`);
a third row of `indices` for a two-row heap makes the kernel read outside the heap (`none`) -/
example : GenK.init_from_neighbor_graph 8 #[#[-1, -1], #[-1, -1]] #[#[(100 : Nat), 100], #[100, 100]] #[#[0, 0], #[0, 0]]
    #[#[1, 0], #[0, -1]] #[#[2, 5], #[3, 100]]
    = some (#[#[0, 1], #[-1, 0]], #[#[5, 2], #[100, 3]], #[#[0, 0], #[0, 0]]) := by decide +kernel
example : (GenK.init_from_neighbor_graph 8 #[#[-1], #[-1]] #[#[(100 : Nat)], #[100]] #[#[0], #[0]]
    #[#[1], #[0], #[0]] #[#[2], #[3], #[4]]).isSome = false := by decide +kernel


/-- `|p − q| mod 9` in `Fin 10`, `top = 9` -/
def dist5 : Nat → Nat → Fin 10 := fun p q =>
  if p ≤ q then ⟨(q - p) % 9, by omega⟩ else ⟨(p - q) % 9, by omega⟩

def drawNat : RngState → Nat × RngState := fun s => let r := tauRandInt s; (r.1.natAbs, r.2)

def cfg5 : Cfg := { k := 2, maxCand := 3, nIters := 1, nThreads := 2, lowMemory := true }

/-- a supplied heap that is *not* well-formed: row 0 stores distance 1 for point 4 (true: 4)
and 5 for point 3 (true: 3), row 2 stores distance 7 for its neighbour 4 (true: 2) -/
def bad : Graph (Fin 10) :=
  #[#[⟨5, 3, true⟩, ⟨1, 4, true⟩], #[⟨9, -1, false⟩, ⟨1, 2, true⟩], #[⟨7, 4, true⟩, ⟨1, 1, true⟩],
    #[⟨9, -1, false⟩, ⟨9, -1, false⟩], #[⟨2, 2, true⟩, ⟨1, 3, true⟩]]

/-- one iteration from `bad`: every row improves rank-wise; the too-small wrong entry of row 0,
`(4, 1)`, survives (it even keeps the true neighbour `(1, 1)` out: `1 ≥ 1` is rejected) — C13
promises "never worse", not "correct" (that is C01, which needs the invariant). -/
example : (nnDescent (9 : Fin 10) (10 ^ 12 : Nat) drawNat dist5 5 cfg5 (fun _ => false)
      (RngState.ofInts 1 2 3) (some bad) false []).1.toList.map
        (fun r => r.toList.map (fun e => (e.idx, e.prio)))
    = [[(0, 0), (4, 1)], [(1, 0), (2, 1)], [(2, 0), (1, 1)], [(3, 0), (4, 1)], [(4, 0), (3, 1)]] := by
  decide +kernel

/-- the counts within `t = 1` before and after that run: nowhere smaller, mostly larger -/
example :
    (bad.toList.map (fun r => countLe r (1 : Fin 10)),
     (nnDescent (9 : Fin 10) (10 ^ 12 : Nat) drawNat dist5 5 cfg5 (fun _ => false)
      (RngState.ofInts 1 2 3) (some bad) false []).1.toList.map (fun r => countLe r (1 : Fin 10)))
    = ([1, 1, 1, 0, 1], [2, 2, 2, 2, 2]) := by
  decide +kernel

/-- `reinsert_eq` on a sorted row with a sentinel: the heap layout differs, the pairs agree -/
example : ((#[⟨1, 4, true⟩, ⟨3, 0, false⟩, ⟨3, 7, true⟩, ⟨9, -1, false⟩] : Row (Fin 10)).toList.foldl
      (fun h e => (pushFlagged h e.prio e.idx false).1) (mkRow 9 4)).toList.map
        (fun e => (e.idx, e.prio))
    = [(-1, 9), (0, 3), (7, 3), (4, 1)] := by
  decide +kernel

/-- the hypothesis `prio < top` of `reinsert_eq` is needed: a real neighbour stored at distance
`top` (an `inf` distance) is rejected like a sentinel and is lost by the re-insertion -/
example : ((#[⟨1, 4, true⟩, ⟨9, 6, true⟩] : Row (Fin 10)).toList.foldl
      (fun h e => (pushFlagged h e.prio e.idx false).1) (mkRow 9 2)).toList.map
        (fun e => (e.idx, e.prio))
    = [(-1, 9), (4, 1)] := by
  decide +kernel

/-- `push_rank_le` is about *all* thresholds at once: an accepted push strictly increases the
count at the pushed priority when the evicted root was farther -/
example : (countLe (#[⟨8, 3, true⟩, ⟨5, 2, true⟩] : Row (Fin 10)) 6,
           countLe (push true (#[⟨8, 3, true⟩, ⟨5, 2, true⟩] : Row (Fin 10)) 6 1 true).1 6)
    = (1, 2) := by
  decide +kernel

end Pynn.C13
