import PynnVerif.Proofs.Heap

/-! # `deheap_sort`: swap-based sift-down and the final sort of a heap row -/
namespace Pynn
variable {P : Type} [LinearOrder P]

@[simp] theorem sds_size (a : Row P) (n e : Nat) : (siftdownSwap a n e).size = a.size := by
  fun_induction siftdownSwap a n e <;> simp_all

theorem sds_perm (a : Row P) (n e : Nat) : (siftdownSwap a n e).Perm a := by
  fun_induction siftdownSwap a n e
  all_goals first
    | exact Array.Perm.refl _
    | (rename_i ih; exact ih.trans (Array.swap_perm _ _))

/-- `siftdownSwap a n _` does not touch positions `≥ n`. -/
theorem sds_frame (a : Row P) (n e : Nat) (k : Nat) (hk : n ≤ k) :
    (siftdownSwap a n e)[k]? = a[k]? := by
  fun_induction siftdownSwap a n e
  all_goals first
    | rfl
    | (rename_i ih
       rw [ih]
       simp only [Array.getElem?_swap]
       split <;> (try split) <;> first | rfl | omega)

/-- Every entry of the length-`n` prefix of the result comes from the length-`n` prefix
of the input. -/
theorem swap_prefix {α} (a : Array α) (i j : Nat) (hi : i < a.size) (hj : j < a.size) (n : Nat)
    (hin : i < n) (hjn : j < n) (x : Nat) (hx : x < n) :
    ∃ x', x' < n ∧ (a.swap i j)[x]? = a[x']? := by
  simp only [Array.getElem?_swap]
  split
  · exact ⟨i, hin, (Array.getElem?_eq_getElem _).symm⟩
  · split
    · exact ⟨j, hjn, (Array.getElem?_eq_getElem _).symm⟩
    · exact ⟨x, hx, rfl⟩

theorem sds_prefix (a : Row P) (n e : Nat) (x : Nat) (hx : x < n) :
    ∃ x', x' < n ∧ (siftdownSwap a n e)[x]? = a[x']? := by
  fun_induction siftdownSwap a n e
  all_goals first
    | exact ⟨x, hx, rfl⟩
    | (rename_i ih
       obtain ⟨x', hx', heq⟩ := ih
       rw [heq]
       exact swap_prefix _ _ _ _ _ n (by omega) (by omega) x' hx')

/-- Max-heap property restricted to the prefix of length `n`. -/
def HeapOn (a : Row P) (n : Nat) : Prop :=
  ∀ j (hj : j < n) (hn : n ≤ a.size), 0 < j → a[j].prio ≤ (a[(j-1)/2]'(by omega)).prio

structure SwapInv (a : Row P) (n e : Nat) : Prop where
  away : ∀ j (hj : j < n) (hn : n ≤ a.size), 0 < j → (j-1)/2 ≠ e →
            a[j].prio ≤ (a[(j-1)/2]'(by omega)).prio
  gp   : ∀ (_ : 0 < e) (he : e < n) c (hc : c < n) (hn : n ≤ a.size), (c-1)/2 = e → 0 < c →
            a[c].prio ≤ (a[(e-1)/2]'(by omega)).prio

theorem sds_heap (a : Row P) (n e : Nat) (he : e < n) (hn : n ≤ a.size)
    (h : SwapInv a n e) : HeapOn (siftdownSwap a n e) n := by
  fun_induction siftdownSwap a n e
  case case1 a e hcond hr h1 h2 ih =>
    apply ih (by omega) (by simpa using hn)
    obtain ⟨aw, gp⟩ := h
    refine ⟨?_, ?_⟩
    · intro j hj hn' hj0 hne
      have hn'' : n ≤ a.size := by simpa using hn'
      have hpj : (j-1)/2 < a.size := by omega
      have hjs : j < a.size := by omega
      simp only [Array.getElem_swap]
      grind
    · intro h0 he' c hc hn' hcp hc0
      have hn'' : n ≤ a.size := by simpa using hn'
      simp only [Array.getElem_swap]
      grind
  case case2 a e hcond hr h1 h2 ih =>
    apply ih (by omega) (by simpa using hn)
    obtain ⟨aw, gp⟩ := h
    refine ⟨?_, ?_⟩
    · intro j hj hn' hj0 hne
      have hn'' : n ≤ a.size := by simpa using hn'
      have hpj : (j-1)/2 < a.size := by omega
      have hjs : j < a.size := by omega
      simp only [Array.getElem_swap]
      grind
    · intro h0 he' c hc hn' hcp hc0
      have hn'' : n ≤ a.size := by simpa using hn'
      simp only [Array.getElem_swap]
      grind
  case case3 a e hcond hr h1 h2 ih =>
    apply ih (by omega) (by simpa using hn)
    obtain ⟨aw, gp⟩ := h
    refine ⟨?_, ?_⟩
    · intro j hj hn' hj0 hne
      have hn'' : n ≤ a.size := by simpa using hn'
      have hpj : (j-1)/2 < a.size := by omega
      have hjs : j < a.size := by omega
      simp only [Array.getElem_swap]
      grind
    · intro h0 he' c hc hn' hcp hc0
      have hn'' : n ≤ a.size := by simpa using hn'
      simp only [Array.getElem_swap]
      grind
  case case4 a e hcond hr h1 h2 =>
    obtain ⟨aw, gp⟩ := h
    intro j hj hn' hj0
    by_cases hpe : (j-1)/2 = e
    · have : j = 2*e+1 ∨ j = 2*e+2 := by omega
      grind
    · exact aw j hj hn' hj0 hpe
  case case5 a e hcond hr h1 ih =>
    apply ih (by omega) (by simpa using hn)
    obtain ⟨aw, gp⟩ := h
    refine ⟨?_, ?_⟩
    · intro j hj hn' hj0 hne
      have hn'' : n ≤ a.size := by simpa using hn'
      have hpj : (j-1)/2 < a.size := by omega
      have hjs : j < a.size := by omega
      simp only [Array.getElem_swap]
      grind
    · intro h0 he' c hc hn' hcp hc0
      have hn'' : n ≤ a.size := by simpa using hn'
      simp only [Array.getElem_swap]
      grind
  case case6 a e hcond hr h1 =>
    obtain ⟨aw, gp⟩ := h
    intro j hj hn' hj0
    by_cases hpe : (j-1)/2 = e
    · have : j = 2*e+1 ∨ j = 2*e+2 := by omega
      grind
    · exact aw j hj hn' hj0 hpe
  case case7 a e hcond =>
    obtain ⟨aw, gp⟩ := h
    intro j hj hn' hj0
    by_cases hpe : (j-1)/2 = e
    · have : j = 2*e+1 ∨ j = 2*e+2 := by omega
      grind
    · exact aw j hj hn' hj0 hpe

/-- In a prefix heap the root is a maximum of the prefix. -/
theorem heapOn_root_max (a : Row P) (n : Nat) (hn : n ≤ a.size) (h : HeapOn a n) :
    ∀ j (hj : j < n), a[j].prio ≤ (a[0]'(by omega)).prio := by
  intro j
  induction j using Nat.strongRecOn with
  | _ j ih =>
    intro hj
    by_cases h0 : j = 0
    · subst h0; exact le_refl _
    · have hp := h j hj hn (by omega)
      have := ih ((j-1)/2) (by omega) (by omega)
      exact le_trans hp this

@[simp] theorem deheapLoop_size (a : Row P) (j : Nat) : (deheapLoop a j).size = a.size := by
  induction j generalizing a with
  | zero => rfl
  | succ j ih =>
    unfold deheapLoop
    split
    · rw [ih]; simp
    · rfl

theorem deheapLoop_perm (a : Row P) (j : Nat) : (deheapLoop a j).Perm a := by
  induction j generalizing a with
  | zero => exact Array.Perm.refl _
  | succ j ih =>
    unfold deheapLoop
    split
    · exact (ih _).trans ((sds_perm _ _ _).trans (Array.swap_perm _ _))
    · exact Array.Perm.refl _

/-- `deheap_sort` returns a permutation of whole entries. -/
theorem deheapSort_perm (h : Row P) : (deheapSort h).Perm h := deheapLoop_perm h _

/-- Loop invariant of `deheapLoop a j`: the prefix `[0, j]` is a heap, the suffix
`(j, size)` is ascending, and the prefix is bounded by the suffix. -/
structure LoopInv (a : Row P) (j : Nat) : Prop where
  heap : HeapOn a (j+1)
  sorted : ∀ x y (hx : x < a.size) (hy : y < a.size), j < x → x ≤ y → a[x].prio ≤ a[y].prio
  le : ∀ x y (hx : x < a.size) (hy : y < a.size), x ≤ j → j < y → a[x].prio ≤ a[y].prio

theorem loopInv_step (a : Row P) (j : Nat) (hj : j + 1 < a.size) (inv : LoopInv a (j+1)) :
    LoopInv (siftdownSwap (a.swap 0 (j+1)) (j+1) 0) j := by
  obtain ⟨hheap, hsorted, hle⟩ := inv
  have hroot := heapOn_root_max a (j+2) (by omega) hheap
  -- frame: positions > j of the result
  have hframe : ∀ y (hy : y < a.size), j < y →
      ((siftdownSwap (a.swap 0 (j+1)) (j+1) 0)[y]'(by simpa using hy))
        = (a.swap 0 (j+1))[y]'(by simpa using hy) := by
    intro y hy hjy
    have := sds_frame (a.swap 0 (j+1)) (j+1) 0 y (by omega)
    rw [Array.getElem?_eq_getElem (by simpa using hy),
        Array.getElem?_eq_getElem (by simpa using hy)] at this
    exact Option.some.inj this
  -- prefix: positions ≤ j of the result come from positions ≤ j+1 of `a`
  have hprefix : ∀ x (hx : x < a.size), x ≤ j → ∃ x', ∃ (hx' : x' < a.size), x' ≤ j + 1 ∧
      ((siftdownSwap (a.swap 0 (j+1)) (j+1) 0)[x]'(by simpa using hx)) = a[x'] := by
    intro x hx hxj
    obtain ⟨x', hx', heq⟩ := sds_prefix (a.swap 0 (j+1)) (j+1) 0 x (by omega)
    rw [Array.getElem?_eq_getElem (by simpa using hx),
        Array.getElem?_eq_getElem (by simp; omega)] at heq
    have heq := Option.some.inj heq
    by_cases h0 : x' = 0
    · exact ⟨j+1, hj, by omega, heq.trans (by subst h0; simp)⟩
    · exact ⟨x', by omega, by omega, heq.trans (by grind)⟩
  refine ⟨?_, ?_, ?_⟩
  · apply sds_heap _ _ _ (by omega) (by simp; omega)
    refine ⟨?_, ?_⟩
    · intro i hi hn hi0 hne
      have h1 := hheap i (by omega) (by omega) hi0
      simp only [Array.getElem_swap]
      have : (i-1)/2 < j + 1 := by omega
      grind
    · intro h0; omega
  · intro x y hx hy hjx hxy
    simp only [sds_size, Array.size_swap] at hx hy
    rw [hframe x hx hjx, hframe y hy (by omega)]
    simp only [Array.getElem_swap]
    by_cases hx1 : x = j + 1
    · by_cases hy1 : y = j + 1
      · grind
      · have := hle 0 y (by omega) hy (by omega) (by omega)
        grind
    · have := hsorted x y hx hy (by omega) hxy
      grind
  · intro x y hx hy hxj hjy
    simp only [sds_size, Array.size_swap] at hx hy
    obtain ⟨x', hx', hx'j, heq⟩ := hprefix x hx hxj
    rw [heq, hframe y hy hjy]
    simp only [Array.getElem_swap]
    by_cases hy1 : y = j + 1
    · have := hroot x' (by omega)
      grind
    · have := hle x' y hx' hy hx'j (by omega)
      grind

theorem deheapLoop_sorted (a : Row P) (j : Nat) (hj : j < a.size) (inv : LoopInv a j) :
    ∀ x y (hx : x < (deheapLoop a j).size) (hy : y < (deheapLoop a j).size), x ≤ y →
      (deheapLoop a j)[x].prio ≤ (deheapLoop a j)[y].prio := by
  induction j generalizing a with
  | zero =>
    intro x y hx hy hxy
    simp only [deheapLoop] at hx hy ⊢
    by_cases hx0 : x = 0
    · by_cases hy0 : y = 0
      · subst hx0 hy0; exact le_refl _
      · exact inv.le x y hx hy (by omega) (by omega)
    · exact inv.sorted x y hx hy (by omega) hxy
  | succ j ih =>
    have hstep := loopInv_step a j hj inv
    have := ih (siftdownSwap (a.swap 0 (j+1)) (j+1) 0) (by simp; omega) hstep
    intro x y hx hy hxy
    have hunf : deheapLoop a (j+1) = deheapLoop (siftdownSwap (a.swap 0 (j+1)) (j+1) 0) j := by
      rw [deheapLoop]; simp [hj]
    simp only [hunf] at hx hy ⊢
    exact this x y hx hy hxy

/-- On a max-heap, `deheap_sort` returns the entries in ascending priority order. -/
theorem deheapSort_sorted (h : Row P) (hh : IsHeap h) :
    ∀ i j (hi : i < (deheapSort h).size) (hj : j < (deheapSort h).size), i ≤ j →
      (deheapSort h)[i].prio ≤ (deheapSort h)[j].prio := by
  intro i j hi hj hij
  have hsz : 0 < h.size := by
    simp only [deheapSort, deheapLoop_size] at hi; omega
  unfold deheapSort at hi hj ⊢
  apply deheapLoop_sorted h (h.size - 1) (by omega) ?_ i j hi hj hij
  refine ⟨?_, ?_, ?_⟩
  · intro x hx hn hx0
    exact hh x (by omega) hx0
  · intro x y hx hy hlt; omega
  · intro x y hx hy _ hlt; omega

end Pynn
