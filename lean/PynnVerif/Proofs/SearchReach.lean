import PynnVerif.Proofs.Search

/-!
# Everything a search touches is reachable from its seeds through the search graph

`Reach indptr indices S v`: `v` is one of the seed vertices `S` (leaf candidates and random
candidates) or can be reached from one by following CSR edges `c ∈ indices[indptr[u] : indptr[u+1]]`.
Invariant of `search`: every marked vertex and every vertex in the seed set is reachable.  With
`C02.search_sound` (every filled slot of the result is a marked vertex) the answers of a search are
reachable from its seeds — for the restricted search of `graph_utils.create_component_search`
(leaf = `candidate_indices`, no random samples) they lie in the connected component of the
candidates.
-/
set_option linter.unusedSectionVars false
namespace Pynn

variable {P : Type} [LinearOrder P]

inductive Reach (indptr indices : Array Nat) (S : List Nat) : Nat → Prop
  | seed {v : Nat} : v ∈ S → Reach indptr indices S v
  | edge {u c : Nat} : Reach indptr indices S u → c ∈ nbrs indptr indices u → Reach indptr indices S c

/-- marked vertices and seed-set vertices are reachable -/
structure RInv (indptr indices : Array Nat) (S : List Nat) (s : SState P) : Prop where
  vis : ∀ v, visited s.vis v = true → Reach indptr indices S v
  seeds : ∀ x ∈ s.seeds, Reach indptr indices S x.2

theorem leafStep_rinv (indptr indices : Array Nat) (S : List Nat) (dq : Nat → P) (s : SState P) (c : Nat)
    (hc : Reach indptr indices S c) (h : RInv indptr indices S s) :
    RInv indptr indices S (leafStep dq s c) := by
  constructor
  · intro v hv
    simp only [leafStep] at hv
    rw [visited_mark] at hv
    rcases hv with ⟨rfl, _⟩ | hv
    · exact hc
    · exact h.vis v hv
  · intro x hx
    simp only [leafStep, List.mem_cons] at hx
    rcases hx with rfl | hx
    · exact hc
    · exact h.seeds x hx

theorem randStep_rinv (indptr indices : Array Nat) (S : List Nat) (dq : Nat → P) (s : SState P) (c : Nat)
    (hc : Reach indptr indices S c) (h : RInv indptr indices S s) :
    RInv indptr indices S (randStep dq s c) := by
  unfold randStep
  split
  · exact h
  · exact leafStep_rinv indptr indices S dq s c hc h

theorem expandStep_rinv (indptr indices : Array Nat) (S : List Nat) (top : P) (scale : P → P) (dq : Nat → P)
    (s : SState P) (c : Nat) (hc : Reach indptr indices S c) (h : RInv indptr indices S s) :
    RInv indptr indices S (expandStep top scale dq s c) := by
  unfold expandStep
  split
  · exact h
  · split
    · constructor
      · intro v hv
        simp only at hv
        rw [visited_mark] at hv
        rcases hv with ⟨rfl, _⟩ | hv
        · exact hc
        · exact h.vis v hv
      · intro x hx
        simp only [List.mem_cons] at hx
        rcases hx with rfl | hx
        · exact hc
        · exact h.seeds x hx
    · constructor
      · intro v hv
        simp only at hv
        rw [visited_mark] at hv
        rcases hv with ⟨rfl, _⟩ | hv
        · exact hc
        · exact h.vis v hv
      · exact h.seeds

theorem foldl_rinv (indptr indices : Array Nat) (S : List Nat) (f : SState P → Nat → SState P)
    (hf : ∀ s c, Reach indptr indices S c → RInv indptr indices S s → RInv indptr indices S (f s c)) :
    ∀ (cs : List Nat) (s : SState P), (∀ c ∈ cs, Reach indptr indices S c) → RInv indptr indices S s →
      RInv indptr indices S (cs.foldl f s) := by
  intro cs
  induction cs with
  | nil => intro s _ h; exact h
  | cons c cs ih =>
    intro s hcs h
    rw [List.foldl_cons]
    exact ih _ (fun x hx => hcs x (by simp [hx])) (hf s c (hcs c (by simp)) h)

theorem loop_rinv (indptr indices : Array Nat) (S : List Nat) (top : P) (scale : P → P) (dq : Nat → P) :
    ∀ (fuel : Nat) (s : SState P) (dv : P) (v : Nat), Reach indptr indices S v → RInv indptr indices S s →
      RInv indptr indices S (searchLoop top scale indptr indices dq fuel s dv v).1 := by
  intro fuel
  induction fuel with
  | zero => intro s dv v _ h; exact h
  | succ fuel ih =>
    intro s dv v hv h
    unfold searchLoop
    by_cases hb : dv < s.bound
    · rw [if_pos hb]
      have h1 : RInv indptr indices S ((nbrs indptr indices v).foldl (expandStep top scale dq) s) :=
        foldl_rinv indptr indices S _ (fun s c hc hs => expandStep_rinv indptr indices S top scale dq s c hc hs)
          _ s (fun c hc => Reach.edge hv hc) h
      simp only
      cases hp : popMin ((nbrs indptr indices v).foldl (expandStep top scale dq) s).seeds with
      | none => exact h1
      | some xr =>
        obtain ⟨x, rest⟩ := xr
        have hperm := popMin_perm _ _ _ hp
        refine ih _ _ _ (h1.seeds x (hperm.symm.subset (by simp))) ⟨h1.vis, ?_⟩
        intro y hy
        exact h1.seeds y (hperm.symm.subset (by simp [hy]))
    · rw [if_neg hb]; exact h

theorem search_rinv_gen (top : P) (scale : P → P) (n k nNeighbors : Nat) (indptr indices : Array Nat)
    (dq : Nat → P) (leaf draws : List Nat) (fuel : Nat) (S : List Nat) (hl : ∀ c ∈ leaf, c ∈ S)
    (hd : ∀ c ∈ draws.take (min k nNeighbors - leaf.length), c ∈ S) :
    RInv indptr indices S (search top scale n k nNeighbors indptr indices dq leaf draws fuel).1 := by
  have h0 : RInv indptr indices S (emptyState top n k : SState P) :=
    ⟨fun v hv => by rw [visited_empty] at hv; exact absurd hv (by simp), fun x hx => by simp [emptyState] at hx⟩
  have h1 : RInv indptr indices S (leaf.foldl (leafStep dq) (emptyState top n k)) :=
    foldl_rinv indptr indices S _ (fun s c hc hs => leafStep_rinv indptr indices S dq s c hc hs) _ _
      (fun c hc => Reach.seed (hl c hc)) h0
  have h2 : RInv indptr indices S ((draws.take (min k nNeighbors - leaf.length)).foldl (randStep dq)
      (leaf.foldl (leafStep dq) (emptyState top n k))) :=
    foldl_rinv indptr indices S _ (fun s c hc hs => randStep_rinv indptr indices S dq s c hc hs) _ _
      (fun c hc => Reach.seed (hd c hc)) h1
  have h3 : RInv indptr indices S (initState top scale n k nNeighbors dq leaf draws) :=
    ⟨h2.vis, h2.seeds⟩
  unfold search
  simp only
  cases hp : popMin (initState top scale n k nNeighbors dq leaf draws).seeds with
  | none => exact h3
  | some xr =>
    obtain ⟨x, rest⟩ := xr
    have hperm := popMin_perm _ _ _ hp
    refine loop_rinv indptr indices S top scale dq fuel _ _ _ (h3.seeds x (hperm.symm.subset (by simp))) ⟨h3.vis, ?_⟩
    intro y hy
    exact h3.seeds y (hperm.symm.subset (by simp [hy]))

/-- **Invariant of a whole search**: whatever the fuel, every marked vertex and every remaining seed is reachable
from the leaf candidates and the random candidates the search was started with. -/
theorem search_rinv (top : P) (scale : P → P) (n k nNeighbors : Nat) (indptr indices : Array Nat)
    (dq : Nat → P) (leaf draws : List Nat) (fuel : Nat) :
    RInv indptr indices (leaf ++ draws.take (min k nNeighbors - leaf.length))
      (search top scale n k nNeighbors indptr indices dq leaf draws fuel).1 :=
  search_rinv_gen top scale n k nNeighbors indptr indices dq leaf draws fuel _
    (fun c hc => List.mem_append_left _ hc) (fun c hc => List.mem_append_right _ hc)

end Pynn
