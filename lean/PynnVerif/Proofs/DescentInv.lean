import PynnVerif.Proofs.GraphInv
import PynnVerif.Proofs.TopK
import PynnVerif.Proofs.HeapSort
import PynnVerif.Proofs.Rank

/-!
# NN-descent preserves the graph invariant, and never makes a row worse

Everything the modelled `nn_descent` does to the graph is a `pushInto` (one
`checked_flagged_heap_push`) or a `clearFlags`.  This file proves (the model in
`Model/Descent.lean` is used as it is; awkward definitions get characterisation lemmas)

* row level: `pushInto_getElem?` (one push touches one row; out of range = nothing);
  `push_rowOk` / `pushInto_inv`: one truthful in-range push preserves `RowOk` / `GraphInv`;
  `push_countLe`: any push, truthful or not, never decreases `countLe`;
* `clearFlags` changes flags only (`clearFlags_getElem?`, `clearFlags_inv`, `clearFlags_count`);
* candidate heaps (any priority type `C`, no order laws needed) hold `-1` or row numbers `< n`
  (`CandsValid`, `pushCand_valid`, `buildThread_valid`, `newBuildCandidates_valid`);
* `joinUpdates_truthful`, `leafUpdates_truthful`: generated updates carry `dist p q` and their
  endpoints are non-negative entries of the candidate / leaf rows;
* a *generic lift* (`PushClosed I ok`): a graph predicate `I` preserved by every push that
  satisfies `ok row d idx` is preserved by `applyLow`, `applyHigh`, the `applyBoth` fold,
  `initRpTree`, `initRandom`, `processBlocks` and `descentLoop`, provided the update lists
  contain only `ok` updates (`…_lift`);
* instance 1, `I = GraphInv …`, `ok = TruePush` (in range and truthful; the push `(row q, d, p)`
  is truthful by symmetry of `dist`): `applyLow_inv`, `applyHigh_inv`, `initRpTree_inv`,
  `initRandom_inv`, `processBlocks_inv`, `descentLoop_inv`, `nnDescent_heap_inv`,
  `initFromIndices_inv`, `initFromNeighborGraph_inv`;
* instance 2, `I = RankLe g0`, `ok = True` (no invariant, arbitrary graphs and updates):
  `pushInto_rankLe`, `applyLow_rankLe`, …, `descentLoop_rankLe`, `nnDescent_rankLe`; the loop is
  prefix-closed (`descentLoop_succ_cases`), so `nnDescent_niters_rankLe`;
* instance 3, `I = AllHeap`: rows stay max-heaps, so output rows are ascending (`nnDescent_sorted`);
* `sorted_rank_le_of_countLe` / `countLe_le_of_sorted_rank_le`: counts within thresholds are
  order statistics;
* re-insertion (`reinsert_keys_perm`, `initFromNeighborGraph_reinsert`).
-/
set_option linter.unusedSectionVars false
namespace Pynn
variable {P : Type} [LinearOrder P]
variable {C : Type} [LE C] [LT C] [DecidableLE C] [DecidableLT C]

/-! ## generic helpers -/

theorem foldl_inv {α β : Type _} (J : β → Prop) (f : β → α → β) (l : List α) (b : β) (hb : J b)
    (hf : ∀ b a, a ∈ l → J b → J (f b a)) : J (l.foldl f b) := by
  induction l generalizing b with
  | nil => exact hb
  | cons a l ih =>
    exact ih (f b a) (hf b a (by simp) hb) (fun b' a' ha' => hf b' a' (by simp [ha']))

theorem chunks_mem {α : Type} (size : Nat) (l : List α) :
    ∀ b ∈ chunks size l, ∀ x ∈ b, x ∈ l := by
  fun_induction chunks size l
  case case1 h => intro b hb; simp at hb
  case case2 l h hl =>
    intro b hb x hx
    simp only [List.mem_singleton] at hb; subst hb; exact hx
  case case3 l h ih =>
    intro b hb x hx
    rcases List.mem_cons.mp hb with rfl | hb'
    · exact List.mem_of_mem_take hx
    · exact List.mem_of_mem_drop (ih b hb' x hx)

/-! ## `pushInto`: size, frame, out-of-bounds -/

omit [LinearOrder P] in
theorem pushInto_oob [LE P] [LT P] [DecidableLE P] [DecidableLT P]
    (g : Graph P) (r : Nat) (d : P) (q : Int) (f : Bool) (h : g.size ≤ r) :
    pushInto g r d q f = (g, false) := by
  unfold pushInto; rw [dif_neg (by omega)]

@[simp] theorem pushInto_size (g : Graph P) (r : Nat) (d : P) (q : Int) (f : Bool) :
    (pushInto g r d q f).1.size = g.size := by
  unfold pushInto; split <;> simp

/-- `pushInto` touches row `r` only, and there it is one `checked_flagged_heap_push`
(out of bounds: `g[r]? = none`, nothing happens). -/
theorem pushInto_getElem? (g : Graph P) (r : Nat) (d : P) (q : Int) (f : Bool) (r' : Nat) :
    (pushInto g r d q f).1[r']? =
      if r' = r then g[r]?.map (fun row => (pushFlagged row d q f).1) else g[r']? := by
  unfold pushInto
  split
  · rename_i h
    simp only [Array.getElem?_set]
    by_cases hr : r = r'
    · subst hr; simp [h]
    · simp [hr, Ne.symm hr]
  · rename_i h
    by_cases hr : r' = r
    · subst hr; simp [Array.getElem?_eq_none (Nat.le_of_not_lt h)]
    · simp [hr]

theorem pushInto_other (g : Graph P) (r : Nat) (d : P) (q : Int) (f : Bool) (r' : Nat)
    (hne : r' ≠ r) : (pushInto g r d q f).1[r']? = g[r']? := by
  rw [pushInto_getElem?, if_neg hne]

/-! ## the row-level invariant -/

/-- what `GraphInv` says about row `r` -/
structure RowOk (top : P) (n k : Nat) (dist : Nat → Nat → P) (r : Nat) (row : Row P) : Prop where
  size : row.size = k
  heap : IsHeap row
  nodup : ((row.toList.filter (fun e => 0 ≤ e.idx)).map (·.idx)).Nodup
  range : ∀ e ∈ row, (e.idx = -1 ∧ e.prio = top) ∨ (0 ≤ e.idx ∧ e.idx < (n : Int) ∧ e.prio < top)
  truth : ∀ e ∈ row, 0 ≤ e.idx → e.prio = dist r e.idx.toNat

theorem graphInv_iff {top : P} {n k : Nat} {dist : Nat → Nat → P} {g : Graph P} :
    GraphInv top n k dist g ↔
      g.size = n ∧ ∀ r row, g[r]? = some row → RowOk top n k dist r row := by
  constructor
  · intro h
    refine ⟨h.size, fun r row hr => ?_⟩
    obtain ⟨hlt, rfl⟩ := Array.getElem?_eq_some_iff.mp hr
    exact ⟨h.rowSize r hlt, h.heap r hlt, h.nodup r hlt, h.range r hlt, h.truth r hlt⟩
  · intro h
    have hr : ∀ r (hlt : r < g.size), RowOk top n k dist r g[r] :=
      fun r hlt => h.2 r g[r] (Array.getElem?_eq_getElem hlt)
    exact ⟨h.1, fun r hlt => (hr r hlt).size, fun r hlt => (hr r hlt).heap,
      fun r hlt => (hr r hlt).nodup, fun r hlt => (hr r hlt).range, fun r hlt => (hr r hlt).truth⟩

/-- One `checked_flagged_heap_push` of an in-range candidate with its true distance keeps the
row well-formed.  Accepted: a permutation of the row with the root replaced, the new entry has
`d < root ≤ top` and is not a duplicate (the scan); rejected: unchanged. -/
theorem push_rowOk {top : P} (htop : ∀ x : P, x ≤ top) {n k : Nat} {dist : Nat → Nat → P}
    {r : Nat} {row : Row P} (hrow : RowOk top n k dist r row) {q : Int} (hq0 : 0 ≤ q)
    (hqn : q < (n : Int)) {d : P} (hd : d = dist r q.toNat) (f : Bool) :
    RowOk top n k dist r (pushFlagged row d q f).1 := by
  by_cases hacc : (push true row d q f).2 = true
  · have hperm := push_perm true row d q f hacc
    obtain ⟨hk, hlt, hscan⟩ := (push_accept_iff true row d q f).mp hacc
    have hmem := mem_of_perm_set (x := ⟨d, q, f⟩) hk hperm
    refine ⟨by rw [push_size]; exact hrow.size, push_heap true row d q f hrow.heap, ?_, ?_, ?_⟩
    · have hl := Array.perm_iff_toList_perm.mp hperm
      rw [((hl.filter (fun e => 0 ≤ e.idx)).map (·.idx)).nodup_iff]
      exact nodup_set_root row ⟨d, q, f⟩ hq0 hrow.nodup (hscan rfl)
    · intro e he
      rcases (hmem e).mp he with rfl | ⟨j, hj, _, rfl⟩
      · exact Or.inr ⟨hq0, hqn, lt_of_lt_of_le hlt (htop _)⟩
      · exact hrow.range _ (Array.getElem_mem hj)
    · intro e he hidx
      rcases (hmem e).mp he with rfl | ⟨j, hj, _, rfl⟩
      · exact hd
      · exact hrow.truth _ (Array.getElem_mem hj) hidx
  · have hrej : (push true row d q f).2 = false := by simpa using hacc
    show RowOk top n k dist r (push true row d q f).1
    rw [push_reject true row d q f hrej]
    exact hrow

/-- **A.1** one truthful in-range push preserves the graph invariant. -/
theorem pushInto_inv {top : P} (htop : ∀ x : P, x ≤ top) {n k : Nat} {dist : Nat → Nat → P}
    {g : Graph P} (hg : GraphInv top n k dist g) {r : Nat} (_hr : r < n) {q : Int} (hq0 : 0 ≤ q)
    (hqn : q < (n : Int)) {d : P} (hd : d = dist r q.toNat) (f : Bool) :
    GraphInv top n k dist (pushInto g r d q f).1 := by
  rw [graphInv_iff] at hg ⊢
  refine ⟨by rw [pushInto_size]; exact hg.1, fun r' row' hr' => ?_⟩
  rw [pushInto_getElem?] at hr'
  split at hr'
  · rename_i heq
    subst heq
    cases hrow : g[r']? with
    | none => rw [hrow] at hr'; simp at hr'
    | some row =>
      rw [hrow] at hr'
      simp only [Option.map_some, Option.some.injEq] at hr'
      subst hr'
      exact push_rowOk htop (hg.2 r' row hrow) hq0 hqn hd f
  · exact hg.2 r' row' hr'


/-! ## `clearFlags` only changes flags -/

/-- `φ` keeps priority and index of every entry (it may change the flag) -/
def KeepsKey (φ : Entry P → Entry P) : Prop := ∀ e, (φ e).prio = e.prio ∧ (φ e).idx = e.idx

theorem clearFlags_size (g : Graph P) (c : Cands C) : (clearFlags g c).size = g.size := by
  unfold clearFlags; simp

/-- every row of `clearFlags g c` is the old row with a key-preserving map applied -/
theorem clearFlags_getElem? (g : Graph P) (c : Cands C) (i : Nat) :
    ∃ φ : Entry P → Entry P, KeepsKey φ ∧ (clearFlags g c)[i]? = g[i]?.map (fun row => row.map φ) := by
  unfold clearFlags
  rw [Array.getElem?_mapIdx]
  cases hc : c[i]? with
  | none =>
    refine ⟨id, fun e => ⟨rfl, rfl⟩, ?_⟩
    cases g[i]? <;> simp
  | some crow =>
    refine ⟨fun e => if crow.any (fun c => c.idx == e.idx) then { e with flag := false } else e, ?_, ?_⟩
    · intro e; dsimp only; split <;> exact ⟨rfl, rfl⟩
    · cases g[i]? <;> simp

theorem map_keepsKey_filter_idx (φ : Entry P → Entry P) (hφ : KeepsKey φ) (l : List (Entry P)) :
    ((l.map φ).filter (fun e => 0 ≤ e.idx)).map (·.idx) = (l.filter (fun e => 0 ≤ e.idx)).map (·.idx) := by
  induction l with
  | nil => rfl
  | cons a l ih =>
    simp only [List.map_cons, List.filter_cons, (hφ a).2]
    split <;> simp [ih, (hφ a).2]

theorem countLe_map_keepsKey (φ : Entry P → Entry P) (hφ : KeepsKey φ) (row : Row P) (t : P) :
    countLe (row.map φ) t = countLe row t := by
  unfold countLe
  rw [Array.toList_map]
  induction row.toList with
  | nil => rfl
  | cons a l ih =>
    simp only [List.map_cons, List.filter_cons, (hφ a).1]
    split <;> simp [ih]

theorem rowOk_map_keepsKey {top : P} {n k : Nat} {dist : Nat → Nat → P} {r : Nat} {row : Row P}
    (φ : Entry P → Entry P) (hφ : KeepsKey φ) (h : RowOk top n k dist r row) :
    RowOk top n k dist r (row.map φ) := by
  refine ⟨by simpa using h.size, ?_, ?_, ?_, ?_⟩
  · intro j hj hj0
    simp only [Array.size_map] at hj
    simp only [Array.getElem_map, (hφ _).1]
    exact h.heap j hj hj0
  · rw [Array.toList_map, map_keepsKey_filter_idx φ hφ]; exact h.nodup
  · intro e he
    obtain ⟨e0, he0, rfl⟩ := Array.mem_map.mp he
    rw [(hφ e0).1, (hφ e0).2]; exact h.range e0 he0
  · intro e he
    obtain ⟨e0, he0, rfl⟩ := Array.mem_map.mp he
    rw [(hφ e0).1, (hφ e0).2]; exact h.truth e0 he0

/-- **A.2** -/
theorem clearFlags_inv {top : P} {n k : Nat} {dist : Nat → Nat → P} {g : Graph P}
    (hg : GraphInv top n k dist g) (c : Cands C) : GraphInv top n k dist (clearFlags g c) := by
  rw [graphInv_iff] at hg ⊢
  refine ⟨by rw [clearFlags_size]; exact hg.1, fun r row' hr' => ?_⟩
  obtain ⟨φ, hφ, heq⟩ := clearFlags_getElem? g c r
  rw [heq] at hr'
  cases hrow : g[r]? with
  | none => rw [hrow] at hr'; simp at hr'
  | some row =>
    rw [hrow] at hr'
    simp only [Option.map_some, Option.some.injEq] at hr'
    subst hr'
    exact rowOk_map_keepsKey φ hφ (hg.2 r row hrow)

/-! ## the empty graph -/

theorem mkRow_rowOk (top : P) (n k : Nat) (dist : Nat → Nat → P) (r : Nat) :
    RowOk top n k dist r (mkRow top k) := by
  have hm : ∀ e ∈ mkRow top k, e = ⟨top, -1, false⟩ := by
    intro e he
    simp only [mkRow, Array.mem_replicate] at he
    exact he.2
  refine ⟨by simp [mkRow], (mkRow_inv top k (fun _ => top)).heap, (mkRow_inv top k (fun _ => top)).nodup, ?_, ?_⟩
  · intro e he; rw [hm e he]; exact Or.inl ⟨rfl, rfl⟩
  · intro e he hidx; rw [hm e he] at hidx; simp at hidx

theorem mkGraph_inv (top : P) (n k : Nat) (dist : Nat → Nat → P) :
    GraphInv top n k dist (mkGraph top n k) := by
  rw [graphInv_iff]
  refine ⟨by simp [mkGraph], fun r row hr => ?_⟩
  simp only [mkGraph, Array.getElem?_replicate] at hr
  split at hr
  · simp only [Option.some.injEq] at hr; subst hr; exact mkRow_rowOk top n k dist r
  · simp at hr


/-! ## candidate heaps hold only `-1` or row numbers (any priority type, no order laws) -/

theorem sift_mem_gen (a : Row C) (e : Entry C) (i : Nat) :
    ∀ x ∈ sift a e i, x = e ∨ x ∈ a := by
  fun_induction sift a e i
  case case1 a i h1 h2 h3 h4 ih =>
    intro x hx
    rcases ih x hx with h | h
    · exact Or.inl h
    · rcases Array.mem_or_eq_of_mem_setIfInBounds h with h | h
      · exact Or.inr h
      · exact Or.inr (h ▸ Array.getElem_mem _)
  case case2 a i h1 h2 h3 h4 =>
    intro x hx
    rcases Array.mem_or_eq_of_mem_setIfInBounds hx with h | h
    · exact Or.inr h
    · exact Or.inl h
  case case3 a i h1 h2 h3 h4 ih =>
    intro x hx
    rcases ih x hx with h | h
    · exact Or.inl h
    · rcases Array.mem_or_eq_of_mem_setIfInBounds h with h | h
      · exact Or.inr h
      · exact Or.inr (h ▸ Array.getElem_mem _)
  case case4 a i h1 h2 h3 h4 =>
    intro x hx
    rcases Array.mem_or_eq_of_mem_setIfInBounds hx with h | h
    · exact Or.inr h
    · exact Or.inl h
  case case5 a i h1 h2 h3 ih =>
    intro x hx
    rcases ih x hx with h | h
    · exact Or.inl h
    · rcases Array.mem_or_eq_of_mem_setIfInBounds h with h | h
      · exact Or.inr h
      · exact Or.inr (h ▸ Array.getElem_mem _)
  case case6 a i h1 h2 h3 =>
    intro x hx
    rcases Array.mem_or_eq_of_mem_setIfInBounds hx with h | h
    · exact Or.inr h
    · exact Or.inl h
  case case7 a i h1 =>
    intro x hx
    rcases Array.mem_or_eq_of_mem_setIfInBounds hx with h | h
    · exact Or.inr h
    · exact Or.inl h

theorem push_mem_gen (c : Bool) (h : Row C) (p : C) (n : Int) (f : Bool) :
    ∀ x ∈ (push c h p n f).1, x = ⟨p, n, f⟩ ∨ x ∈ h := by
  intro x hx
  unfold push at hx
  split at hx
  · split at hx
    · exact Or.inr hx
    · split at hx
      · exact Or.inr hx
      · exact sift_mem_gen h _ 0 x hx
  · exact Or.inr hx

/-- **A.3** every entry of every candidate row is the empty mark `-1` or a row number `< n` -/
def CandsValid (n : Nat) (c : Cands C) : Prop :=
  ∀ row ∈ c, ∀ e ∈ row, e.idx = -1 ∨ (0 ≤ e.idx ∧ e.idx < (n : Int))

theorem pushCand_valid {n : Nat} {c : Cands C} (hc : CandsValid n c) (r : Nat) (d : C) {q : Int}
    (hq : q = -1 ∨ (0 ≤ q ∧ q < (n : Int))) : CandsValid n (pushCand c r d q) := by
  unfold pushCand
  split
  · intro row hrow e he
    rcases Array.mem_or_eq_of_mem_set hrow with h | h
    · exact hc row h e he
    · subst h
      rcases push_mem_gen true _ d q false e he with h | h
      · subst h; exact hq
      · exact hc _ (Array.getElem_mem _) e h
  · exact hc

theorem emptyCands_valid (n m maxCand : Nat) (ctop : C) :
    CandsValid n (Array.replicate m (mkRow ctop maxCand) : Cands C) := by
  intro row hrow e he
  simp only [Array.mem_replicate] at hrow
  rw [hrow.2] at he
  simp only [mkRow, Array.mem_replicate] at he
  left; rw [he.2]

/-- rows of `g` hold only `-1` or row numbers `< n`, and `g` has at most `n` rows -/
def IdxBounded (n : Nat) (g : Graph P) : Prop :=
  g.size ≤ n ∧ ∀ (i : Nat) (row : Row P), g[i]? = some row → ∀ e ∈ row, e.idx < (n : Int)

theorem buildThread_valid {n : Nat} (draw : RngState → C × RngState) (g : Graph P)
    (hg : IdxBounded n g) (T t : Nat) (st : Cands C × Cands C × RngState)
    (h1 : CandsValid n st.1) (h2 : CandsValid n st.2.1) :
    CandsValid n (buildThread draw g T t st).1 ∧ CandsValid n (buildThread draw g T t st).2.1 := by
  unfold buildThread
  apply foldl_inv (fun st : Cands C × Cands C × RngState => CandsValid n st.1 ∧ CandsValid n st.2.1)
    _ _ _ ⟨h1, h2⟩
  intro st i hi hst
  have hin : (i : Int) < (n : Int) := by
    have := List.mem_range.mp hi
    have := hg.1
    omega
  dsimp only
  split
  · exact hst
  · rename_i row hrow
    have hrow' : ∀ e ∈ row.toList, e.idx < (n : Int) :=
      fun e he => hg.2 i row hrow e (Array.mem_toList_iff.mp he)
    apply foldl_inv (fun st : Cands C × Cands C × RngState => CandsValid n st.1 ∧ CandsValid n st.2.1)
      _ _ _ hst
    intro st e he hst
    have hen := hrow' e he
    split
    · exact hst
    · rename_i hneg
      have he0 : 0 ≤ e.idx := by omega
      have hq1 : e.idx = -1 ∨ (0 ≤ e.idx ∧ e.idx < (n : Int)) := Or.inr ⟨he0, hen⟩
      have hq2 : (i : Int) = -1 ∨ (0 ≤ (i : Int) ∧ (i : Int) < (n : Int)) := Or.inr ⟨by omega, hin⟩
      split
      · refine ⟨?_, hst.2⟩
        dsimp only
        split <;> split <;>
          first
            | exact pushCand_valid (pushCand_valid hst.1 _ _ hq1) _ _ hq2
            | exact pushCand_valid hst.1 _ _ hq1
            | exact pushCand_valid hst.1 _ _ hq2
            | exact hst.1
      · refine ⟨hst.1, ?_⟩
        dsimp only
        split <;> split <;>
          first
            | exact pushCand_valid (pushCand_valid hst.2 _ _ hq1) _ _ hq2
            | exact pushCand_valid hst.2 _ _ hq1
            | exact pushCand_valid hst.2 _ _ hq2
            | exact hst.2

theorem newBuildCandidates_valid {n : Nat} (ctop : C) (draw : RngState → C × RngState)
    (g : Graph P) (hg : IdxBounded n g) (maxCand : Nat) (rng : RngState) (T : Nat) :
    (∀ row ∈ (newBuildCandidates ctop draw g maxCand rng T).1.1, ∀ x ∈ row,
        x = -1 ∨ (0 ≤ x ∧ x < (n : Int))) ∧
    (∀ row ∈ (newBuildCandidates ctop draw g maxCand rng T).1.2, ∀ x ∈ row,
        x = -1 ∨ (0 ≤ x ∧ x < (n : Int))) := by
  unfold newBuildCandidates
  dsimp only
  have key : CandsValid n ((List.range T).foldl (fun (acc : Cands C × Cands C) t =>
        let r := buildThread draw g T t (acc.1, acc.2, rng.add (t : Int))
        (r.1, r.2.1)) (Array.replicate g.size (mkRow ctop maxCand),
          Array.replicate g.size (mkRow ctop maxCand))).1 ∧
      CandsValid n ((List.range T).foldl (fun (acc : Cands C × Cands C) t =>
        let r := buildThread draw g T t (acc.1, acc.2, rng.add (t : Int))
        (r.1, r.2.1)) (Array.replicate g.size (mkRow ctop maxCand),
          Array.replicate g.size (mkRow ctop maxCand))).2 := by
    apply foldl_inv (fun acc : Cands C × Cands C => CandsValid n acc.1 ∧ CandsValid n acc.2) _ _ _
      ⟨emptyCands_valid n _ _ ctop, emptyCands_valid n _ _ ctop⟩
    intro acc t _ hacc
    exact buildThread_valid draw g hg T t _ hacc.1 hacc.2
  constructor
  · intro row hrow x hx
    obtain ⟨crow, hcrow, rfl⟩ := List.mem_map.mp hrow
    obtain ⟨e, he, rfl⟩ := List.mem_map.mp hx
    exact key.1 crow (Array.mem_toList_iff.mp hcrow) e (Array.mem_toList_iff.mp he)
  · intro row hrow x hx
    obtain ⟨crow, hcrow, rfl⟩ := List.mem_map.mp hrow
    obtain ⟨e, he, rfl⟩ := List.mem_map.mp hx
    exact key.2 crow (Array.mem_toList_iff.mp hcrow) e (Array.mem_toList_iff.mp he)

theorem GraphInv.idxBounded {top : P} {n k : Nat} {dist : Nat → Nat → P} {g : Graph P}
    (hg : GraphInv top n k dist g) : IdxBounded n g := by
  rw [graphInv_iff] at hg
  refine ⟨by omega, fun i row hrow e he => ?_⟩
  rcases (hg.2 i row hrow).range e he with h | h
  · omega
  · exact h.2.1


/-! ## generated updates are truthful and come from the candidate rows (A.4) -/

theorem mem_validC {l : List Int} {x : Nat} (h : x ∈ validC l) : (x : Int) ∈ l := by
  unfold validC at h
  obtain ⟨y, hy, rfl⟩ := List.mem_map.mp h
  have := List.mem_filter.mp hy
  have h0 : 0 ≤ y := by simpa using this.2
  rw [Int.toNat_of_nonneg h0]; exact this.1

theorem joinUpdates_go_spec (dist : Nat → Nat → P) (oldRow : List Int)
    (test : Nat → Nat → Option (Upd P))
    (htest : ∀ p q u, test p q = some u → u.p = p ∧ u.q = q ∧ u.d = dist p q)
    (newRow : List Int) :
    ∀ u ∈ joinUpdates.go oldRow test newRow,
      u.d = dist u.p u.q ∧ (u.p : Int) ∈ newRow ∧ ((u.q : Int) ∈ newRow ∨ (u.q : Int) ∈ oldRow) := by
  induction newRow with
  | nil => intro u hu; simp [joinUpdates.go] at hu
  | cons pj rest ih =>
    intro u hu
    simp only [joinUpdates.go] at hu
    split at hu
    · obtain ⟨h1, h2, h3⟩ := ih u hu
      exact ⟨h1, List.mem_cons_of_mem _ h2, h3.imp (List.mem_cons_of_mem _) id⟩
    · rename_i hneg
      have hp : ((pj.toNat : Nat) : Int) = pj := Int.toNat_of_nonneg (by omega)
      rcases List.mem_append.mp hu with hu | hu
      · rcases List.mem_append.mp hu with hu | hu
        · obtain ⟨q, hq, hqu⟩ := List.mem_filterMap.mp hu
          obtain ⟨e1, e2, e3⟩ := htest _ _ _ hqu
          refine ⟨by rw [e3, e1, e2], by rw [e1, hp]; exact List.mem_cons_self, Or.inl ?_⟩
          rw [e2]; exact mem_validC hq
        · obtain ⟨q, hq, hqu⟩ := List.mem_filterMap.mp hu
          obtain ⟨e1, e2, e3⟩ := htest _ _ _ hqu
          refine ⟨by rw [e3, e1, e2], by rw [e1, hp]; exact List.mem_cons_self, Or.inr ?_⟩
          rw [e2]; exact mem_validC hq
      · obtain ⟨h1, h2, h3⟩ := ih u hu
        exact ⟨h1, List.mem_cons_of_mem _ h2, h3.imp (List.mem_cons_of_mem _) id⟩

/-- **A.4** every update generated by the local join carries the true distance of its pair,
and both endpoints are (non-negative) entries of the candidate rows -/
theorem joinUpdates_truthful (thr : Nat → P) (dist : Nat → Nat → P) (newRow oldRow : List Int) :
    ∀ u ∈ joinUpdates thr dist newRow oldRow,
      u.d = dist u.p u.q ∧ (u.p : Int) ∈ newRow ∧ ((u.q : Int) ∈ newRow ∨ (u.q : Int) ∈ oldRow) := by
  unfold joinUpdates
  apply joinUpdates_go_spec dist oldRow
  intro p q u h
  dsimp only at h
  split at h
  · simp only [Option.some.injEq] at h; subst h; exact ⟨rfl, rfl, rfl⟩
  · simp at h

theorem mem_takeValid {l : List Int} {x : Nat} (h : x ∈ takeValid l) : (x : Int) ∈ l := by
  unfold takeValid at h
  obtain ⟨y, hy, rfl⟩ := List.mem_map.mp h
  have h0 : 0 ≤ y := by
    have := List.all_eq_true.mp (List.all_takeWhile (l := l) (p := fun x => decide (0 ≤ x))) y hy
    simpa using this
  rw [Int.toNat_of_nonneg h0]
  exact (List.takeWhile_sublist _).subset hy

theorem mem_pairsLt {l : List Nat} {pq : Nat × Nat} (h : pq ∈ pairsLt l) : pq.1 ∈ l ∧ pq.2 ∈ l := by
  induction l with
  | nil => simp [pairsLt] at h
  | cons p rest ih =>
    simp only [pairsLt] at h
    rcases List.mem_append.mp h with h | h
    · obtain ⟨q, hq, rfl⟩ := List.mem_map.mp h
      exact ⟨List.mem_cons_self, List.mem_cons_of_mem _ hq⟩
    · exact ⟨List.mem_cons_of_mem _ (ih h).1, List.mem_cons_of_mem _ (ih h).2⟩

theorem leafUpdates_truthful (thr : Nat → P) (dist : Nat → Nat → P) (row : List Int) :
    ∀ u ∈ leafUpdates thr dist row,
      u.d = dist u.p u.q ∧ (u.p : Int) ∈ row ∧ (u.q : Int) ∈ row := by
  intro u hu
  unfold leafUpdates at hu
  obtain ⟨pq, hpq, h⟩ := List.mem_filterMap.mp hu
  dsimp only at h
  split at h
  · simp only [Option.some.injEq] at h; subst h
    exact ⟨rfl, mem_takeValid (mem_pairsLt hpq).1, mem_takeValid (mem_pairsLt hpq).2⟩
  · simp at h


/-! ## the generic lift -/

/-- `I` is preserved by every push that satisfies `ok row dist idx` -/
def PushClosed (I : Graph P → Prop) (ok : Nat → P → Int → Prop) : Prop :=
  ∀ g r d q f, I g → ok r d q → I (pushInto g r d q f).1

/-- both pushes an update `(p, q, d)` can cause are `ok` -/
def UpdOk (ok : Nat → P → Int → Prop) (u : Upd P) : Prop :=
  ok u.p u.d (u.q : Int) ∧ ok u.q u.d (u.p : Int)

variable {I : Graph P → Prop} {ok : Nat → P → Int → Prop}

theorem applyBoth_lift (hI : PushClosed I ok) (g : Graph P) (u : Upd P) (hu : UpdOk ok u)
    (hg : I g) : I (applyBoth g u) :=
  hI _ _ _ _ _ (hI _ _ _ _ _ hg hu.1) hu.2

theorem applyBoth_fold_lift (hI : PushClosed I ok) (g : Graph P) (ups : List (Upd P))
    (hu : ∀ u ∈ ups, UpdOk ok u) (hg : I g) : I (ups.foldl applyBoth g) :=
  foldl_inv I _ _ _ hg (fun b u hu' hb => applyBoth_lift hI b u (hu u hu') hb)

theorem applyLow_lift (hI : PushClosed I ok) (T : Nat) (g : Graph P) (ups : List (Upd P))
    (hu : ∀ u ∈ ups, UpdOk ok u) (hg : I g) : I (applyLow T g ups).1 := by
  unfold applyLow
  apply foldl_inv (fun acc : Graph P × Nat => I acc.1) _ _ _ hg
  intro acc t _ hacc
  apply foldl_inv (fun acc : Graph P × Nat => I acc.1) _ _ _ hacc
  intro acc u hu' hacc
  have hok := hu u hu'
  by_cases hp : u.p % T = t <;> by_cases hq : u.q % T = t <;>
    simp only [hp, hq, if_true, if_false]
  · exact hI _ _ _ _ _ (hI _ _ _ _ _ hacc hok.1) hok.2
  · exact hI _ _ _ _ _ hacc hok.1
  · exact hI _ _ _ _ _ hacc hok.2
  · exact hacc

theorem applyHigh_lift (hI : PushClosed I ok) (g : Graph P) (ups : List (Upd P)) (s : InGraph)
    (hu : ∀ u ∈ ups, UpdOk ok u) (hg : I g) : I (applyHigh g ups s).1.1 := by
  unfold applyHigh
  apply foldl_inv (fun acc : (Graph P × Nat) × InGraph => I acc.1.1) _ _ _ hg
  intro acc u hu' hacc
  have hok := hu u hu'
  dsimp only
  repeat' split
  all_goals first
    | exact hacc
    | exact hI _ _ _ _ _ hacc hok.1
    | exact hI _ _ _ _ _ hacc hok.2
    | exact hI _ _ _ _ _ (hI _ _ _ _ _ hacc hok.1) hok.2


theorem initRpTree_lift (hI : PushClosed I ok) (top : P) (dist : Nat → Nat → P) (g : Graph P)
    (leafArray : List (List Int)) (blockSize : Nat)
    (hu : ∀ thr : Nat → P, ∀ row ∈ leafArray, ∀ u ∈ leafUpdates thr dist row, UpdOk ok u)
    (hg : I g) : I (initRpTree top dist g leafArray blockSize) := by
  unfold initRpTree
  apply foldl_inv I _ _ _ hg
  intro g' block hblock hg'
  apply applyBoth_fold_lift hI _ _ _ hg'
  intro u hmem
  obtain ⟨row, hrow, hurow⟩ := List.mem_flatMap.mp hmem
  exact hu _ row (chunks_mem _ _ block hblock row hrow) u hurow

theorem processBlocks_lift (hI : PushClosed I ok) (top : P) (dist : Nat → Nat → P) (cfg : Cfg)
    (g : Graph P) (newC oldC : List (List Int)) (s : InGraph)
    (hu : ∀ thr : Nat → P, ∀ no ∈ newC.zip oldC, ∀ u ∈ joinUpdates thr dist no.1 no.2, UpdOk ok u)
    (hg : I g) : I (processBlocks top dist cfg g newC oldC s).1.1 := by
  unfold processBlocks
  apply foldl_inv (fun acc : (Graph P × Nat) × InGraph => I acc.1.1) _ _ _ hg
  intro acc block hblock hacc
  have hups : ∀ u ∈ block.flatMap (fun no => joinUpdates (threshold top acc.1.1) dist no.1 no.2),
      UpdOk ok u := by
    intro u hmem
    obtain ⟨no, hno, huno⟩ := List.mem_flatMap.mp hmem
    exact hu _ no (chunks_mem _ _ block hblock no hno) u huno
  dsimp only
  split
  · exact applyLow_lift hI _ _ _ hups hacc
  · exact applyHigh_lift hI _ _ _ hups hacc

theorem randIndex_lt (r : Int) (n : Nat) (hn : 0 < n) : randIndex r n < n := by
  unfold randIndex
  show ((if (r == -2147483648) = true then r else (r.natAbs : Int)) % (n : Int)).toNat < n
  have h1 := Int.emod_lt_of_pos (if (r == -2147483648) = true then r else (r.natAbs : Int))
    (show (0 : Int) < (n : Int) by omega)
  have h2 := Int.emod_nonneg (if (r == -2147483648) = true then r else (r.natAbs : Int))
    (show (n : Int) ≠ 0 by omega)
  omega

theorem initRandom_lift (hI : PushClosed I ok) (k n : Nat) (dist : Nat → Nat → P) (g : Graph P)
    (rng : RngState) (hok : ∀ i idx, i < n → idx < n → ok i (dist idx i) (idx : Int))
    (hg : I g) : I (initRandom k n dist g rng).1 := by
  unfold initRandom
  apply foldl_inv (fun acc : Graph P × RngState => I acc.1) _ _ _ hg
  intro acc i hi hacc
  have hin : i < n := List.mem_range.mp hi
  dsimp only
  split
  · exact hacc
  · split
    · exact hacc
    · split
      · apply foldl_inv (fun acc : Graph P × RngState => I acc.1) _ _ _ hacc
        intro acc' _ _ hacc'
        exact hI _ _ _ _ _ hacc' (hok i _ hin (randIndex_lt _ n (by omega)))
      · exact hacc

omit [LinearOrder P] in
theorem newBuildCandidates_snd [LE P] [LT P] [DecidableLE P] [DecidableLT P]
    (ctop : C) (draw : RngState → C × RngState) (g : Graph P) (maxCand : Nat)
    (rng : RngState) (T : Nat) :
    ∃ nc : Cands C, (newBuildCandidates ctop draw g maxCand rng T).2 = clearFlags g nc := by
  unfold newBuildCandidates
  exact ⟨_, rfl⟩

theorem descentLoop_lift (hI : PushClosed I ok) (top : P) (ctop : C)
    (draw : RngState → C × RngState) (dist : Nat → Nat → P) (cfg : Cfg) (stop : Nat → Bool)
    (rng : RngState)
    (hclear : ∀ g (c : Cands C), I g → I (clearFlags g c))
    (hjoin : ∀ g, I g → ∀ thr : Nat → P,
      ∀ no ∈ (newBuildCandidates ctop draw g cfg.maxCand rng cfg.nThreads).1.1.zip
              (newBuildCandidates ctop draw g cfg.maxCand rng cfg.nThreads).1.2,
      ∀ u ∈ joinUpdates thr dist no.1 no.2, UpdOk ok u)
    (it : Nat) (g : Graph P) (s : InGraph) (hg : I g) :
    I (descentLoop top ctop draw dist cfg stop rng it g s) := by
  induction it generalizing g s with
  | zero => exact hg
  | succ it ih =>
    unfold descentLoop
    dsimp only
    have h2 : I (newBuildCandidates ctop draw g cfg.maxCand rng cfg.nThreads).2 := by
      obtain ⟨nc, hnc⟩ := newBuildCandidates_snd ctop draw g cfg.maxCand rng cfg.nThreads
      rw [hnc]; exact hclear g nc hg
    have h3 := processBlocks_lift hI top dist cfg _ _ _ s (hjoin g hg) h2
    split
    · exact h3
    · exact ih _ _ h3


/-! ## instance 1: `GraphInv` under truthful in-range pushes (A.5) -/

/-- the push `(row r, d, q)` is in range and carries the true distance -/
def TruePush (n : Nat) (dist : Nat → Nat → P) (r : Nat) (d : P) (q : Int) : Prop :=
  r < n ∧ 0 ≤ q ∧ q < (n : Int) ∧ d = dist r q.toNat

theorem graphInv_pushClosed {top : P} (htop : ∀ x : P, x ≤ top) (n k : Nat)
    (dist : Nat → Nat → P) : PushClosed (GraphInv top n k dist) (TruePush n dist) :=
  fun _ _ _ _ f hg hok => pushInto_inv htop hg hok.1 hok.2.1 hok.2.2.1 hok.2.2.2 f

/-- an update `(p, q, dist p q)` with both endpoints `< n` causes two truthful pushes; the
second one, `(row q, d, p)`, is truthful *because the metric is symmetric* -/
theorem updOk_of_truthful {n : Nat} {dist : Nat → Nat → P} (hsymm : ∀ p q, dist p q = dist q p)
    {u : Upd P} (hp : u.p < n) (hq : u.q < n) (hd : u.d = dist u.p u.q) :
    UpdOk (TruePush n dist) u := by
  refine ⟨⟨hp, by omega, by omega, ?_⟩, ⟨hq, by omega, by omega, ?_⟩⟩
  · rw [Int.toNat_natCast]; exact hd
  · rw [Int.toNat_natCast, hsymm]; exact hd

section Inv
variable {top : P} (htop : ∀ x : P, x ≤ top) {n k : Nat} {dist : Nat → Nat → P}
  (hsymm : ∀ p q, dist p q = dist q p)
include htop hsymm

theorem applyBoth_fold_inv {g : Graph P} (hg : GraphInv top n k dist g) (ups : List (Upd P))
    (hu : ∀ u ∈ ups, u.p < n ∧ u.q < n ∧ u.d = dist u.p u.q) :
    GraphInv top n k dist (ups.foldl applyBoth g) :=
  applyBoth_fold_lift (graphInv_pushClosed htop n k dist) g ups
    (fun u h => updOk_of_truthful hsymm (hu u h).1 (hu u h).2.1 (hu u h).2.2) hg

theorem applyLow_inv {g : Graph P} (hg : GraphInv top n k dist g) (T : Nat) (ups : List (Upd P))
    (hu : ∀ u ∈ ups, u.p < n ∧ u.q < n ∧ u.d = dist u.p u.q) :
    GraphInv top n k dist (applyLow T g ups).1 :=
  applyLow_lift (graphInv_pushClosed htop n k dist) T g ups
    (fun u h => updOk_of_truthful hsymm (hu u h).1 (hu u h).2.1 (hu u h).2.2) hg

theorem applyHigh_inv {g : Graph P} (hg : GraphInv top n k dist g) (ups : List (Upd P))
    (s : InGraph) (hu : ∀ u ∈ ups, u.p < n ∧ u.q < n ∧ u.d = dist u.p u.q) :
    GraphInv top n k dist (applyHigh g ups s).1.1 :=
  applyHigh_lift (graphInv_pushClosed htop n k dist) g ups s
    (fun u h => updOk_of_truthful hsymm (hu u h).1 (hu u h).2.1 (hu u h).2.2) hg

omit htop in
theorem leafUpdates_ok (thr : Nat → P) (row : List Int) (hrow : ∀ x ∈ row, x < (n : Int)) :
    ∀ u ∈ leafUpdates thr dist row, UpdOk (TruePush n dist) u := by
  intro u hu
  obtain ⟨h1, h2, h3⟩ := leafUpdates_truthful thr dist row u hu
  have := hrow _ h2
  have := hrow _ h3
  exact updOk_of_truthful hsymm (by omega) (by omega) h1

omit htop in
theorem joinUpdates_ok (thr : Nat → P) (newRow oldRow : List Int)
    (hnew : ∀ x ∈ newRow, x < (n : Int)) (hold : ∀ x ∈ oldRow, x < (n : Int)) :
    ∀ u ∈ joinUpdates thr dist newRow oldRow, UpdOk (TruePush n dist) u := by
  intro u hu
  obtain ⟨h1, h2, h3⟩ := joinUpdates_truthful thr dist newRow oldRow u hu
  have := hnew _ h2
  have : (u.q : Int) < (n : Int) := h3.elim (hnew _) (hold _)
  exact updOk_of_truthful hsymm (by omega) (by omega) h1

/-- `init_rp_tree`: leaf entries are `< n` (negative entries are padding) -/
theorem initRpTree_inv {g : Graph P} (hg : GraphInv top n k dist g) (leafArray : List (List Int))
    (blockSize : Nat) (hleaf : ∀ row ∈ leafArray, ∀ x ∈ row, x < (n : Int)) :
    GraphInv top n k dist (initRpTree top dist g leafArray blockSize) :=
  initRpTree_lift (graphInv_pushClosed htop n k dist) top dist g leafArray blockSize
    (fun thr row hrow => leafUpdates_ok hsymm thr row (hleaf row hrow)) hg

/-- `init_random` (`randIndex r n < n`; the loop body only runs when `0 < n`) -/
theorem initRandom_inv {g : Graph P} (hg : GraphInv top n k dist g) (rng : RngState) :
    GraphInv top n k dist (initRandom k n dist g rng).1 :=
  initRandom_lift (graphInv_pushClosed htop n k dist) k n dist g rng
    (fun i idx hi hidx => ⟨hi, by omega, by omega, by rw [Int.toNat_natCast]; exact hsymm idx i⟩) hg

theorem processBlocks_inv {g : Graph P} (hg : GraphInv top n k dist g) (cfg : Cfg)
    (newC oldC : List (List Int)) (s : InGraph)
    (hnew : ∀ row ∈ newC, ∀ x ∈ row, x < (n : Int)) (hold : ∀ row ∈ oldC, ∀ x ∈ row, x < (n : Int)) :
    GraphInv top n k dist (processBlocks top dist cfg g newC oldC s).1.1 :=
  processBlocks_lift (graphInv_pushClosed htop n k dist) top dist cfg g newC oldC s
    (fun thr no hno => joinUpdates_ok hsymm thr no.1 no.2
      (hnew _ (List.of_mem_zip hno).1) (hold _ (List.of_mem_zip hno).2)) hg

theorem descentLoop_inv (ctop : C) (draw : RngState → C × RngState) (cfg : Cfg)
    (stop : Nat → Bool) (rng : RngState) (it : Nat) {g : Graph P} (s : InGraph)
    (hg : GraphInv top n k dist g) :
    GraphInv top n k dist (descentLoop top ctop draw dist cfg stop rng it g s) := by
  apply descentLoop_lift (graphInv_pushClosed htop n k dist) top ctop draw dist cfg stop rng
    (fun g c hg => clearFlags_inv hg c) _ it g s hg
  intro g hg thr no hno
  obtain ⟨h1, h2⟩ := newBuildCandidates_valid ctop draw g hg.idxBounded cfg.maxCand rng cfg.nThreads
  have lt_of_valid : ∀ x : Int, (x = -1 ∨ (0 ≤ x ∧ x < (n : Int))) → x < (n : Int) := by
    intro x hx; omega
  exact joinUpdates_ok hsymm thr no.1 no.2
    (fun x hx => lt_of_valid x (h1 _ (List.of_mem_zip hno).1 x hx))
    (fun x hx => lt_of_valid x (h2 _ (List.of_mem_zip hno).2 x hx))

end Inv

/-! ## the final `deheap_sort` -/

theorem countLe_perm {a b : Row P} (h : a.Perm b) (t : P) : countLe a t = countLe b t := by
  unfold countLe
  exact ((Array.perm_iff_toList_perm.mp h).filter _).length_eq

/-- the sorted output row: as `RowOk`, with "heap" replaced by "ascending" -/
theorem deheapSort_rowOk {top : P} {n k : Nat} {dist : Nat → Nat → P} {r : Nat} {row : Row P}
    (h : RowOk top n k dist r row) :
    (deheapSort row).size = k ∧
    (∀ i j (hi : i < (deheapSort row).size) (hj : j < (deheapSort row).size), i ≤ j →
        (deheapSort row)[i].prio ≤ (deheapSort row)[j].prio) ∧
    (((deheapSort row).toList.filter (fun e => 0 ≤ e.idx)).map (·.idx)).Nodup ∧
    (∀ e ∈ deheapSort row,
        (e.idx = -1 ∧ e.prio = top) ∨ (0 ≤ e.idx ∧ e.idx < (n : Int) ∧ e.prio < top)) ∧
    (∀ e ∈ deheapSort row, 0 ≤ e.idx → e.prio = dist r e.idx.toNat) := by
  have hperm := deheapSort_perm row
  refine ⟨by rw [hperm.size_eq]; exact h.size, deheapSort_sorted row h.heap, ?_, ?_, ?_⟩
  · have hl := Array.perm_iff_toList_perm.mp hperm
    rw [((hl.filter (fun e => 0 ≤ e.idx)).map (·.idx)).nodup_iff]
    exact h.nodup
  · intro e he; exact h.range e (hperm.mem_iff.mp he)
  · intro e he; exact h.truth e (hperm.mem_iff.mp he)


/-! ## instance 2: no row ever gets worse (A.6) — no invariant, arbitrary graphs and updates -/

/-- One push of any variant never decreases the number of entries within any threshold.
(`push_count_le` without its — unused — heap hypothesis, phrased with `countLe`.) -/
theorem push_countLe (c : Bool) (h : Row P) (p : P) (n : Int) (f : Bool) (t : P) :
    countLe h t ≤ countLe (push c h p n f).1 t := by
  unfold countLe
  by_cases hacc : (push c h p n f).2 = true
  · have hperm := push_perm c h p n f hacc
    obtain ⟨hk, hlt, _⟩ := (push_accept_iff c h p n f).mp hacc
    have hl := (Array.perm_iff_toList_perm.mp hperm).filter (fun e => e.prio ≤ t)
    rw [hl.length_eq]
    exact count_set_root_le h ⟨p, n, f⟩ t hk hlt
  · have hrej : (push c h p n f).2 = false := by simpa using hacc
    rw [push_reject c h p n f hrej]
    exact Nat.le_refl _

/-- `g'` has the same shape as `g` and every row of `g'` is rank-wise at least as good as the
row of `g`: for every threshold `t` it holds at least as many entries within `t`. -/
def RankLe (g g' : Graph P) : Prop :=
  g'.size = g.size ∧ ∀ (r : Nat) (row : Row P), g[r]? = some row →
    ∃ row', g'[r]? = some row' ∧ row'.size = row.size ∧ ∀ t, countLe row t ≤ countLe row' t

theorem RankLe.refl (g : Graph P) : RankLe g g :=
  ⟨rfl, fun _ row h => ⟨row, h, rfl, fun _ => Nat.le_refl _⟩⟩

theorem RankLe.trans {g1 g2 g3 : Graph P} (h12 : RankLe g1 g2) (h23 : RankLe g2 g3) :
    RankLe g1 g3 := by
  refine ⟨h23.1.trans h12.1, fun r row hr => ?_⟩
  obtain ⟨row2, h2, hs2, hc2⟩ := h12.2 r row hr
  obtain ⟨row3, h3, hs3, hc3⟩ := h23.2 r row2 h2
  exact ⟨row3, h3, hs3.trans hs2, fun t => Nat.le_trans (hc2 t) (hc3 t)⟩

/-- **A.6** `pushInto`, any arguments: every row keeps its size and no count decreases. -/
theorem pushInto_rankLe (g : Graph P) (r : Nat) (d : P) (q : Int) (f : Bool) :
    RankLe g (pushInto g r d q f).1 := by
  refine ⟨pushInto_size g r d q f, fun r' row hr' => ?_⟩
  rw [pushInto_getElem?]
  split
  · rename_i heq
    subst heq
    rw [hr']
    exact ⟨_, rfl, push_size _ _ _ _ _, fun t => push_countLe true row d q f t⟩
  · exact ⟨row, hr', rfl, fun _ => Nat.le_refl _⟩

/-- the `[r']?`-style statement asked for -/
theorem pushInto_count (g : Graph P) (r : Nat) (d : P) (q : Int) (f : Bool) (t : P) :
    ∀ (r' : Nat) (row : Row P), g[r']? = some row →
      ∃ row', (pushInto g r d q f).1[r']? = some row' ∧ countLe row t ≤ countLe row' t := by
  intro r' row hr'
  obtain ⟨row', h1, _, h3⟩ := (pushInto_rankLe g r d q f).2 r' row hr'
  exact ⟨row', h1, h3 t⟩

/-- `clearFlags` keeps every count *equal*. -/
theorem clearFlags_count (g : Graph P) (c : Cands C) (t : P) :
    ∀ (r' : Nat) (row : Row P), g[r']? = some row →
      ∃ row', (clearFlags g c)[r']? = some row' ∧ row'.size = row.size ∧
        countLe row' t = countLe row t := by
  intro r' row hr'
  obtain ⟨φ, hφ, heq⟩ := clearFlags_getElem? g c r'
  rw [heq, hr']
  exact ⟨_, rfl, by simp, countLe_map_keepsKey φ hφ row t⟩

theorem clearFlags_rankLe (g : Graph P) (c : Cands C) : RankLe g (clearFlags g c) := by
  refine ⟨clearFlags_size g c, fun r' row hr' => ?_⟩
  obtain ⟨φ, hφ, heq⟩ := clearFlags_getElem? g c r'
  rw [heq, hr']
  exact ⟨_, rfl, by simp, fun t => Nat.le_of_eq (countLe_map_keepsKey φ hφ row t).symm⟩

theorem rankLe_pushClosed (g0 : Graph P) : PushClosed (RankLe g0) (fun _ _ _ => True) :=
  fun g r d q f hg _ => hg.trans (pushInto_rankLe g r d q f)

theorem updOk_true (u : Upd P) : UpdOk (fun _ _ _ => True) u := ⟨trivial, trivial⟩

theorem applyBoth_fold_rankLe (g : Graph P) (ups : List (Upd P)) : RankLe g (ups.foldl applyBoth g) :=
  applyBoth_fold_lift (rankLe_pushClosed g) g ups (fun u _ => updOk_true u) (RankLe.refl g)

theorem applyLow_rankLe (T : Nat) (g : Graph P) (ups : List (Upd P)) : RankLe g (applyLow T g ups).1 :=
  applyLow_lift (rankLe_pushClosed g) T g ups (fun u _ => updOk_true u) (RankLe.refl g)

theorem applyHigh_rankLe (g : Graph P) (ups : List (Upd P)) (s : InGraph) :
    RankLe g (applyHigh g ups s).1.1 :=
  applyHigh_lift (rankLe_pushClosed g) g ups s (fun u _ => updOk_true u) (RankLe.refl g)

theorem initRpTree_rankLe (top : P) (dist : Nat → Nat → P) (g : Graph P)
    (leafArray : List (List Int)) (blockSize : Nat) :
    RankLe g (initRpTree top dist g leafArray blockSize) :=
  initRpTree_lift (rankLe_pushClosed g) top dist g leafArray blockSize
    (fun _ _ _ u _ => updOk_true u) (RankLe.refl g)

theorem initRandom_rankLe (k n : Nat) (dist : Nat → Nat → P) (g : Graph P) (rng : RngState) :
    RankLe g (initRandom k n dist g rng).1 :=
  initRandom_lift (rankLe_pushClosed g) k n dist g rng (fun _ _ _ _ => trivial) (RankLe.refl g)

theorem processBlocks_rankLe (top : P) (dist : Nat → Nat → P) (cfg : Cfg) (g : Graph P)
    (newC oldC : List (List Int)) (s : InGraph) :
    RankLe g (processBlocks top dist cfg g newC oldC s).1.1 :=
  processBlocks_lift (rankLe_pushClosed g) top dist cfg g newC oldC s
    (fun _ _ _ u _ => updOk_true u) (RankLe.refl g)

theorem descentLoop_rankLe (top : P) (ctop : C) (draw : RngState → C × RngState)
    (dist : Nat → Nat → P) (cfg : Cfg) (stop : Nat → Bool) (rng : RngState) (it : Nat)
    (g : Graph P) (s : InGraph) :
    RankLe g (descentLoop top ctop draw dist cfg stop rng it g s) :=
  descentLoop_lift (rankLe_pushClosed g) top ctop draw dist cfg stop rng
    (fun g' c hg' => hg'.trans (clearFlags_rankLe g' c))
    (fun _ _ _ _ _ u _ => updOk_true u) it g s (RankLe.refl g)

/-- `deheap_sort` permutes each row: counts are unchanged, in both directions -/
theorem RankLe.map_deheapSort {g g' : Graph P} (h : RankLe g g') :
    RankLe (g.map deheapSort) (g'.map deheapSort) := by
  refine ⟨by simpa using h.1, fun r row hr => ?_⟩
  rw [Array.getElem?_map] at hr
  cases hrow : g[r]? with
  | none => rw [hrow] at hr; simp at hr
  | some row0 =>
    rw [hrow] at hr
    simp only [Option.map_some, Option.some.injEq] at hr
    subst hr
    obtain ⟨row', h1, h2, h3⟩ := h.2 r row0 hrow
    refine ⟨deheapSort row', by rw [Array.getElem?_map, h1]; rfl, ?_, fun t => ?_⟩
    · rw [(deheapSort_perm row').size_eq, (deheapSort_perm row0).size_eq, h2]
    · rw [countLe_perm (deheapSort_perm row0), countLe_perm (deheapSort_perm row')]; exact h3 t

theorem rankLe_map_deheapSort (g : Graph P) : RankLe g (g.map deheapSort) := by
  refine ⟨by simp, fun r row hr => ?_⟩
  refine ⟨deheapSort row, by rw [Array.getElem?_map, hr]; rfl, (deheapSort_perm row).size_eq,
    fun t => Nat.le_of_eq (countLe_perm (deheapSort_perm row) t).symm⟩

/-- `RankLe` with explicit bounds -/
theorem RankLe.getElem {g g' : Graph P} (h : RankLe g g') (p : Nat) (hp : p < g.size)
    (hp' : p < g'.size) (t : P) : g'[p].size = g[p].size ∧ countLe g[p] t ≤ countLe g'[p] t := by
  obtain ⟨row', h1, h2, h3⟩ := h.2 p g[p] (Array.getElem?_eq_getElem hp)
  obtain ⟨_, rfl⟩ := Array.getElem?_eq_some_iff.mp h1
  exact ⟨h2, h3 t⟩


/-! ## the iteration loop is prefix-closed -/

/-- one iteration of the loop body: candidates, flag clearing, local join over all blocks -/
def descentIter (top : P) (ctop : C) (draw : RngState → C × RngState) (dist : Nat → Nat → P)
    (cfg : Cfg) (rng : RngState) (g : Graph P) (s : InGraph) : (Graph P × Nat) × InGraph :=
  let r := newBuildCandidates ctop draw g cfg.maxCand rng cfg.nThreads
  processBlocks top dist cfg r.2 r.1.1 r.1.2 s

theorem descentLoop_succ_eq (top : P) (ctop : C) (draw : RngState → C × RngState)
    (dist : Nat → Nat → P) (cfg : Cfg) (stop : Nat → Bool) (rng : RngState) (it : Nat)
    (g : Graph P) (s : InGraph) :
    descentLoop top ctop draw dist cfg stop rng (it + 1) g s =
      if stop (descentIter top ctop draw dist cfg rng g s).1.2
      then (descentIter top ctop draw dist cfg rng g s).1.1
      else descentLoop top ctop draw dist cfg stop rng it
        (descentIter top ctop draw dist cfg rng g s).1.1 (descentIter top ctop draw dist cfg rng g s).2 := by
  rw [descentLoop]; rfl

/-- The loop is prefix-closed (the generator state handed to `new_build_candidates` is the
same in every iteration, and nothing else is carried over but the graph and `in_graph`):
`it + 1` iterations give what `it` iterations give — when the stop test fired before — or
exactly one more iteration applied to it. -/
theorem descentLoop_succ_cases (top : P) (ctop : C) (draw : RngState → C × RngState)
    (dist : Nat → Nat → P) (cfg : Cfg) (stop : Nat → Bool) (rng : RngState) (it : Nat)
    (g : Graph P) (s : InGraph) :
    descentLoop top ctop draw dist cfg stop rng (it + 1) g s =
        descentLoop top ctop draw dist cfg stop rng it g s ∨
    ∃ s', descentLoop top ctop draw dist cfg stop rng (it + 1) g s =
        (descentIter top ctop draw dist cfg rng
          (descentLoop top ctop draw dist cfg stop rng it g s) s').1.1 := by
  induction it generalizing g s with
  | zero =>
    right
    refine ⟨s, ?_⟩
    rw [descentLoop_succ_eq]
    simp only [descentLoop]
    split <;> rfl
  | succ it ih =>
    have e1 := descentLoop_succ_eq top ctop draw dist cfg stop rng (it + 1) g s
    have e2 := descentLoop_succ_eq top ctop draw dist cfg stop rng it g s
    by_cases hstop : stop (descentIter top ctop draw dist cfg rng g s).1.2 = true
    · rw [if_pos hstop] at e1 e2
      left; rw [e1, e2]
    · rw [if_neg hstop] at e1 e2
      rw [e1, e2]
      exact ih _ _

theorem descentIter_rankLe (top : P) (ctop : C) (draw : RngState → C × RngState)
    (dist : Nat → Nat → P) (cfg : Cfg) (rng : RngState) (g : Graph P) (s : InGraph) :
    RankLe g (descentIter top ctop draw dist cfg rng g s).1.1 := by
  unfold descentIter
  dsimp only
  obtain ⟨nc, hnc⟩ := newBuildCandidates_snd ctop draw g cfg.maxCand rng cfg.nThreads
  refine RankLe.trans ?_ (processBlocks_rankLe top dist cfg _ _ _ s)
  rw [hnc]; exact clearFlags_rankLe g nc

theorem descentLoop_succ_rankLe (top : P) (ctop : C) (draw : RngState → C × RngState)
    (dist : Nat → Nat → P) (cfg : Cfg) (stop : Nat → Bool) (rng : RngState) (it : Nat)
    (g : Graph P) (s : InGraph) :
    RankLe (descentLoop top ctop draw dist cfg stop rng it g s)
      (descentLoop top ctop draw dist cfg stop rng (it + 1) g s) := by
  rcases descentLoop_succ_cases top ctop draw dist cfg stop rng it g s with h | ⟨s', h⟩
  · rw [h]; exact RankLe.refl _
  · rw [h]; exact descentIter_rankLe ..

/-! ## counts within thresholds vs. order statistics -/

theorem countLe_ge_of_prefix (l : List (Entry P)) (t : P) (j : Nat) (hj : j < l.length)
    (h : ∀ i (hi : i < l.length), i ≤ j → l[i].prio ≤ t) :
    j + 1 ≤ (l.filter (fun e => e.prio ≤ t)).length := by
  have hsplit := List.take_append_drop (j + 1) l
  rw [← hsplit, List.filter_append, List.length_append]
  have : (l.take (j + 1)).filter (fun e => decide (e.prio ≤ t)) = l.take (j + 1) := by
    rw [List.filter_eq_self]
    intro a ha
    obtain ⟨i, hi, rfl⟩ := List.mem_take_iff_getElem.mp ha
    have : i < j + 1 := by omega
    simpa using h i (by omega) (by omega)
  rw [this, List.length_take]
  omega

theorem countLe_le_of_suffix (l : List (Entry P)) (t : P) (j : Nat)
    (h : ∀ i (hi : i < l.length), j ≤ i → t < l[i].prio) :
    (l.filter (fun e => e.prio ≤ t)).length ≤ j := by
  have hsplit := List.take_append_drop j l
  rw [← hsplit, List.filter_append, List.length_append]
  have : (l.drop j).filter (fun e => decide (e.prio ≤ t)) = [] := by
    rw [List.filter_eq_nil_iff]
    intro a ha
    obtain ⟨i, hi, rfl⟩ := List.mem_drop_iff_getElem.mp ha
    have := h (j + i) (by omega) (by omega)
    simpa using this
  rw [this]
  have := List.length_filter_le (fun e => decide (e.prio ≤ t)) (l.take j)
  rw [List.length_take] at this
  simp only [List.length_nil]
  omega

/-- For two ascending rows of the same size, "for every threshold `t`, `b` holds at least as
many entries within `t` as `a`" says exactly that every order statistic of `b` is at most
the one of `a` (the direction used by C13; the converse is immediate). -/
theorem sorted_rank_le_of_countLe {a b : Row P}
    (ha : ∀ i j (hi : i < a.size) (hj : j < a.size), i ≤ j → a[i].prio ≤ a[j].prio)
    (hb : ∀ i j (hi : i < b.size) (hj : j < b.size), i ≤ j → b[i].prio ≤ b[j].prio)
    (hc : ∀ t, countLe a t ≤ countLe b t) :
    ∀ j (hja : j < a.size) (hjb : j < b.size), b[j].prio ≤ a[j].prio := by
  intro j hja hjb
  by_contra hlt
  have hlt : a[j].prio < b[j].prio := not_le.mp hlt
  have h1 : j + 1 ≤ countLe a a[j].prio := by
    unfold countLe
    apply countLe_ge_of_prefix a.toList _ j (by simpa using hja)
    intro i hi hij
    simp only [Array.getElem_toList]
    exact ha i j (by simpa using hi) hja hij
  have h2 : countLe b a[j].prio ≤ j := by
    unfold countLe
    apply countLe_le_of_suffix b.toList _ j
    intro i hi hji
    simp only [Array.getElem_toList]
    exact lt_of_lt_of_le hlt (hb j i hjb (by simpa using hi) hji)
  have := hc a[j].prio
  omega

/-- the converse: order statistics give counts -/
theorem countLe_le_of_sorted_rank_le {a b : Row P} (hsize : b.size = a.size)
    (ha : ∀ i j (hi : i < a.size) (hj : j < a.size), i ≤ j → a[i].prio ≤ a[j].prio)
    (hr : ∀ j (hja : j < a.size) (hjb : j < b.size), b[j].prio ≤ a[j].prio) :
    ∀ t, countLe a t ≤ countLe b t := by
  intro t
  -- let m = countLe a t; entries a[0..m) are ≤ t (sorted), hence b[0..m) ≤ t
  by_contra hlt
  have hlt : countLe b t < countLe a t := Nat.lt_of_not_le hlt
  have hm : countLe a t ≤ a.size := by
    unfold countLe
    have := List.length_filter_le (fun e => decide (e.prio ≤ t)) a.toList
    simpa using this
  -- the entry of `a` at position `countLe a t - 1` is within `t`
  have hpos : 0 < countLe a t := by omega
  have hlast : a[countLe a t - 1].prio ≤ t := by
    by_contra hgt
    have hgt : t < a[countLe a t - 1].prio := not_le.mp hgt
    have : countLe a t ≤ countLe a t - 1 := by
      conv => lhs; unfold countLe
      apply countLe_le_of_suffix a.toList t
      intro i hi hji
      simp only [Array.getElem_toList]
      exact lt_of_lt_of_le hgt (ha _ i (by omega) (by simpa using hi) hji)
    omega
  have : countLe a t - 1 + 1 ≤ countLe b t := by
    conv => rhs; unfold countLe
    apply countLe_ge_of_prefix b.toList t (countLe a t - 1) (by simp; omega)
    intro i hi hij
    simp only [Array.getElem_toList]
    have hi' : i < b.size := by simpa using hi
    exact le_trans (hr i (by omega) hi') (le_trans (ha i _ (by omega) (by omega) hij) hlast)
  omega


/-! ## re-inserting a well-formed row into an empty heap reproduces it -/

/-- the `(index, distance)` pair of an entry (what `init_from_neighbor_graph` is given) -/
def keyOf (e : Entry P) : Int × P := (e.idx, e.prio)

/-- state of the re-insertion after the real entries `R` have been offered -/
structure ReInv (top : P) (k : Nat) (R : List (Entry P)) (h : Row P) : Prop where
  heap : IsHeap h
  size : h.size = k
  keys : (h.toList.map keyOf).Perm (R.map keyOf ++ List.replicate (k - R.length) ((-1 : Int), top))

theorem reInv_mkRow (top : P) (k : Nat) : ReInv top k [] (mkRow top k) := by
  refine ⟨(mkRow_inv top k (fun _ => top)).heap, by simp [mkRow], ?_⟩
  simp [mkRow, keyOf]

/-- a sentinel `(-1, top)` is always rejected: `top ≥` the root -/
theorem push_sentinel_reject {top : P} (htop : ∀ x : P, x ≤ top) (c : Bool) (h : Row P) (n : Int)
    (f : Bool) : (push c h top n f).1 = h := by
  apply push_reject
  by_contra hacc
  have hacc : (push c h top n f).2 = true := by simpa using hacc
  obtain ⟨hk, hlt, _⟩ := (push_accept_iff c h top n f).mp hacc
  exact absurd (htop h[0].prio) (not_le.mpr hlt)

/-- a real entry (`prio < top`, index not yet held) is accepted while the heap still holds a
sentinel, and it replaces a sentinel -/
theorem reInv_push_real {top : P} (htop : ∀ x : P, x ≤ top) {k : Nat} {R : List (Entry P)}
    {h : Row P} (hinv : ReInv top k R h) (hR : ∀ r ∈ R, r.prio < top) (hlen : R.length < k)
    (e : Entry P) (he0 : 0 ≤ e.idx) (hep : e.prio < top) (hnew : ∀ r ∈ R, r.idx ≠ e.idx) (f : Bool) :
    ReInv top k (R ++ [e]) (pushFlagged h e.prio e.idx f).1 := by
  have hk : 0 < h.size := by rw [hinv.size]; omega
  -- classification of the held keys
  have hcls : ∀ x ∈ h, keyOf x = ((-1 : Int), top) ∨ ∃ r ∈ R, keyOf x = keyOf r := by
    intro x hx
    have : keyOf x ∈ h.toList.map keyOf := List.mem_map.mpr ⟨x, Array.mem_toList_iff.mpr hx, rfl⟩
    rcases List.mem_append.mp (hinv.keys.mem_iff.mp this) with hm | hm
    · obtain ⟨r, hr, heq⟩ := List.mem_map.mp hm
      exact Or.inr ⟨r, hr, heq.symm⟩
    · exact Or.inl (List.mem_replicate.mp hm).2
  -- a sentinel is held, so the root has priority `top`
  have hsent : ((-1 : Int), top) ∈ h.toList.map keyOf := by
    apply hinv.keys.mem_iff.mpr
    apply List.mem_append_right
    exact List.mem_replicate.mpr ⟨by omega, rfl⟩
  obtain ⟨x, hx, hxkey⟩ := List.mem_map.mp hsent
  obtain ⟨i, hi, rfl⟩ := Array.mem_iff_getElem.mp (Array.mem_toList_iff.mp hx)
  have hxp : h[i].prio = top := congrArg Prod.snd hxkey
  have hroot : h[0].prio = top :=
    le_antisymm (htop _) (hxp ▸ isHeap_root_max h hinv.heap i hi)
  have hrootkey : keyOf h[0] = ((-1 : Int), top) := by
    rcases hcls h[0] (Array.getElem_mem hk) with h0 | ⟨r, hr, h0⟩
    · exact h0
    · have : h[0].prio = r.prio := congrArg Prod.snd h0
      exact absurd (hR r hr) (by rw [← this, hroot]; exact lt_irrefl _)
  -- accepted
  have hacc : (push true h e.prio e.idx f).2 = true := by
    rw [push_accept_iff]
    refine ⟨hk, by rw [hroot]; exact hep, fun _ x hx heq => ?_⟩
    rcases hcls x hx with h0 | ⟨r, hr, h0⟩
    · have : x.idx = -1 := congrArg Prod.fst h0
      omega
    · have : x.idx = r.idx := congrArg Prod.fst h0
      exact hnew r hr (by rw [← this, heq])
  have hperm := push_perm true h e.prio e.idx f hacc
  refine ⟨push_heap true h e.prio e.idx f hinv.heap, by rw [push_size]; exact hinv.size, ?_⟩
  have hl := (Array.perm_iff_toList_perm.mp hperm).map keyOf
  refine hl.trans ?_
  rw [Array.toList_setIfInBounds]
  -- the old row is `root :: rest`
  obtain ⟨l⟩ := h
  cases l with
  | nil => simp at hk
  | cons r0 rest =>
    have hr0 : keyOf r0 = ((-1 : Int), top) := by simpa using hrootkey
    have hkeys := hinv.keys
    simp only [List.map_cons, hr0] at hkeys
    have hrep : List.replicate (k - R.length) ((-1 : Int), top)
        = ((-1 : Int), top) :: List.replicate (k - (R ++ [e]).length) ((-1 : Int), top) := by
      rw [← List.replicate_succ]; congr 1
      simp only [List.length_append, List.length_singleton]; omega
    rw [hrep] at hkeys
    have hrest := (hkeys.trans List.perm_middle).cons_inv
    simp only [List.set_cons_zero, List.map_cons, List.map_append, List.map_nil]
    have hek : keyOf (⟨e.prio, e.idx, f⟩ : Entry P) = keyOf e := rfl
    rw [hek]
    refine (List.Perm.cons _ hrest).trans ?_
    rw [List.append_assoc]
    exact List.perm_middle.symm

/-- feeding a list of well-formed entries (flag `f`) to a heap that has already taken `R` -/
theorem reinsert_fold {top : P} (htop : ∀ x : P, x ≤ top) (k : Nat) (f : Bool)
    (es : List (Entry P)) (R : List (Entry P)) (h : Row P) (hinv : ReInv top k R h)
    (hR : ∀ r ∈ R, r.prio < top)
    (hlen : (R ++ es.filter (fun e => 0 ≤ e.idx)).length ≤ k)
    (hnodup : ((R ++ es.filter (fun e => 0 ≤ e.idx)).map (·.idx)).Nodup)
    (hwf : ∀ e ∈ es, (e.idx = -1 ∧ e.prio = top) ∨ (0 ≤ e.idx ∧ e.prio < top)) :
    ReInv top k (R ++ es.filter (fun e => 0 ≤ e.idx))
      (es.foldl (fun h e => (pushFlagged h e.prio e.idx f).1) h) := by
  induction es generalizing R h with
  | nil => simpa using hinv
  | cons e es ih =>
    rw [List.foldl_cons]
    rcases hwf e (by simp) with ⟨hi, hp⟩ | ⟨hi, hp⟩
    · -- sentinel: rejected
      have hfil : (e :: es).filter (fun e => 0 ≤ e.idx) = es.filter (fun e => 0 ≤ e.idx) := by
        rw [List.filter_cons_of_neg]; simp [hi]
      rw [hfil] at hlen hnodup ⊢
      have : (pushFlagged h e.prio e.idx f).1 = h := by
        rw [hp]; exact push_sentinel_reject htop true h _ f
      rw [this]
      exact ih R h hinv hR hlen hnodup (fun e' he' => hwf e' (by simp [he']))
    · -- real: accepted
      have hfil : (e :: es).filter (fun e => 0 ≤ e.idx) = e :: es.filter (fun e => 0 ≤ e.idx) := by
        rw [List.filter_cons_of_pos]; simpa using hi
      rw [hfil] at hlen hnodup ⊢
      have hassoc : R ++ e :: es.filter (fun e => 0 ≤ e.idx)
          = (R ++ [e]) ++ es.filter (fun e => 0 ≤ e.idx) := by simp
      rw [hassoc] at hlen hnodup ⊢
      have hlt : R.length < k := by
        simp only [List.length_append, List.length_singleton] at hlen; omega
      have hnew : ∀ r ∈ R, r.idx ≠ e.idx := by
        intro r hr heq
        rw [List.map_append, List.map_append, List.append_assoc] at hnodup
        have := (List.nodup_append.mp hnodup).2.2 r.idx (List.mem_map.mpr ⟨r, hr, rfl⟩) e.idx
          (by simp)
        exact this heq
      have hstep := reInv_push_real htop hinv hR hlt e hi hp hnew f
      refine ih (R ++ [e]) _ hstep ?_ hlen hnodup (fun e' he' => hwf e' (by simp [he']))
      intro r hr
      rcases List.mem_append.mp hr with hr | hr
      · exact hR r hr
      · simp only [List.mem_singleton] at hr; subst hr; exact hp

/-- **re-insertion**: offering the entries of a duplicate-free well-formed row (real entries
with `prio < top`, sentinels `(-1, top)`), in any order, to an empty heap of the same size
reproduces the same multiset of `(index, distance)` pairs. -/
theorem reinsert_keys_perm {top : P} (htop : ∀ x : P, x ≤ top) (f : Bool) (row : Row P)
    (hnodup : ((row.toList.filter (fun e => 0 ≤ e.idx)).map (·.idx)).Nodup)
    (hwf : ∀ e ∈ row, (e.idx = -1 ∧ e.prio = top) ∨ (0 ≤ e.idx ∧ e.prio < top)) :
    ((row.toList.foldl (fun h e => (pushFlagged h e.prio e.idx f).1)
        (mkRow top row.size)).toList.map keyOf).Perm (row.toList.map keyOf) := by
  have hfl : (row.toList.filter (fun e => 0 ≤ e.idx)).length ≤ row.size := by
    have := List.length_filter_le (fun e : Entry P => decide (0 ≤ e.idx)) row.toList
    simpa using this
  have hres := reinsert_fold htop row.size f row.toList [] (mkRow top row.size)
    (reInv_mkRow top row.size) (by simp) (by simpa using hfl) (by simpa using hnodup)
    (fun e he => hwf e (Array.mem_toList_iff.mp he))
  refine hres.keys.trans ?_
  simp only [List.nil_append]
  -- the sentinels of `row` are exactly `size − #real` copies of `(-1, top)`
  have hsplit := (List.filter_append_perm (fun e : Entry P => decide (0 ≤ e.idx)) row.toList).map keyOf
  refine List.Perm.trans ?_ hsplit
  rw [List.map_append]
  have hrep : (row.toList.filter (fun x => !decide (0 ≤ x.idx))).map keyOf
      = List.replicate (row.size - (row.toList.filter (fun e => 0 ≤ e.idx)).length) ((-1 : Int), top) := by
    rw [List.eq_replicate_iff]
    constructor
    · have := (List.filter_append_perm (fun e : Entry P => decide (0 ≤ e.idx)) row.toList).length_eq
      simp only [List.length_append, Array.length_toList] at this
      rw [List.length_map]; omega
    · intro b hb
      obtain ⟨e, he, rfl⟩ := List.mem_map.mp hb
      have hm := List.mem_filter.mp he
      rcases hwf e (Array.mem_toList_iff.mp hm.1) with ⟨hi, hp⟩ | ⟨hi, _⟩
      · simp [keyOf, hi, hp]
      · have := hm.2; simp [hi] at this
  rw [hrep]


/-! ## `nn_descent` as a whole -/

/-- the heap `nn_descent` starts its iterations from -/
def startGraph (top : P) (dist : Nat → Nat → P) (n : Nat) (cfg : Cfg) (rng : RngState)
    (init : Option (Graph P)) (rpTreeInit : Bool) (leafArray : List (List Int)) : Graph P × RngState :=
  match init with
  | some g => (g, rng)
  | none =>
    initRandom cfg.k n dist
      (if rpTreeInit then initRpTree top dist (mkGraph top n cfg.k) leafArray else mkGraph top n cfg.k) rng

/-- `nn_descent` = start heap, iteration loop, `deheap_sort` of every row -/
theorem nnDescent_fst (top : P) (ctop : C) (draw : RngState → C × RngState) (dist : Nat → Nat → P)
    (n : Nat) (cfg : Cfg) (stop : Nat → Bool) (rng : RngState) (init : Option (Graph P))
    (rp : Bool) (leafArray : List (List Int)) :
    (nnDescent top ctop draw dist n cfg stop rng init rp leafArray).1 =
      (descentLoop top ctop draw dist cfg stop (startGraph top dist n cfg rng init rp leafArray).2
        cfg.nIters (startGraph top dist n cfg rng init rp leafArray).1
        (if cfg.lowMemory then (#[] : InGraph)
         else initInGraph (startGraph top dist n cfg rng init rp leafArray).1)).map deheapSort := by
  unfold nnDescent startGraph
  cases init <;> rfl

theorem startGraph_inv {top : P} (htop : ∀ x : P, x ≤ top) {dist : Nat → Nat → P}
    (hsymm : ∀ p q, dist p q = dist q p) (n : Nat) (cfg : Cfg) (rng : RngState)
    (init : Option (Graph P)) (hinit : ∀ g, init = some g → GraphInv top n cfg.k dist g)
    (rp : Bool) (leafArray : List (List Int))
    (hleaf : ∀ row ∈ leafArray, ∀ x ∈ row, x < (n : Int)) :
    GraphInv top n cfg.k dist (startGraph top dist n cfg rng init rp leafArray).1 := by
  unfold startGraph
  cases init with
  | some g => exact hinit g rfl
  | none =>
    dsimp only
    apply initRandom_inv htop hsymm
    split
    · exact initRpTree_inv htop hsymm (mkGraph_inv top n cfg.k dist) leafArray _ hleaf
    · exact mkGraph_inv top n cfg.k dist

/-- the heap handed to `deheap_sort` satisfies the invariant -/
theorem nnDescent_heap_inv {top : P} (htop : ∀ x : P, x ≤ top) (ctop : C)
    (draw : RngState → C × RngState) {dist : Nat → Nat → P}
    (hsymm : ∀ p q, dist p q = dist q p) (n : Nat) (cfg : Cfg) (stop : Nat → Bool) (rng : RngState)
    (init : Option (Graph P)) (hinit : ∀ g, init = some g → GraphInv top n cfg.k dist g)
    (rp : Bool) (leafArray : List (List Int))
    (hleaf : ∀ row ∈ leafArray, ∀ x ∈ row, x < (n : Int)) :
    ∃ g, GraphInv top n cfg.k dist g ∧
      (nnDescent top ctop draw dist n cfg stop rng init rp leafArray).1 = g.map deheapSort :=
  ⟨_, descentLoop_inv htop hsymm ctop draw cfg stop _ cfg.nIters _
        (startGraph_inv htop hsymm n cfg rng init hinit rp leafArray hleaf),
    nnDescent_fst top ctop draw dist n cfg stop rng init rp leafArray⟩

theorem startGraph_some (top : P) (dist : Nat → Nat → P) (n : Nat) (cfg : Cfg) (rng : RngState)
    (g0 : Graph P) (rp : Bool) (leafArray : List (List Int)) :
    (startGraph top dist n cfg rng (some g0) rp leafArray).1 = g0 := rfl

/-- whatever the configuration, the output is rank-wise at least as good as the supplied heap -/
theorem nnDescent_rankLe (top : P) (ctop : C) (draw : RngState → C × RngState)
    (dist : Nat → Nat → P) (n : Nat) (cfg : Cfg) (stop : Nat → Bool) (rng : RngState)
    (g0 : Graph P) (rp : Bool) (leafArray : List (List Int)) :
    RankLe g0 (nnDescent top ctop draw dist n cfg stop rng (some g0) rp leafArray).1 := by
  rw [nnDescent_fst]
  exact (descentLoop_rankLe top ctop draw dist cfg stop _ cfg.nIters g0 _).trans
    (rankLe_map_deheapSort _)

/-- the loop does not read `cfg.nIters` (the caller passes the count) -/
theorem descentLoop_cfg_nIters (top : P) (ctop : C) (draw : RngState → C × RngState)
    (dist : Nat → Nat → P) (cfg : Cfg) (m : Nat) (stop : Nat → Bool) (rng : RngState) (it : Nat)
    (g : Graph P) (s : InGraph) :
    descentLoop top ctop draw dist { cfg with nIters := m } stop rng it g s =
      descentLoop top ctop draw dist cfg stop rng it g s := by
  induction it generalizing g s with
  | zero => rfl
  | succ it ih =>
    rw [descentLoop_succ_eq, descentLoop_succ_eq]
    have : descentIter top ctop draw dist { cfg with nIters := m } rng g s
        = descentIter top ctop draw dist cfg rng g s := rfl
    rw [this]
    split
    · rfl
    · exact ih _ _

/-- one more allowed iteration (same seed, same everything else) is rank-wise at least as good -/
theorem nnDescent_niters_rankLe (top : P) (ctop : C) (draw : RngState → C × RngState)
    (dist : Nat → Nat → P) (n : Nat) (cfg : Cfg) (stop : Nat → Bool) (rng : RngState)
    (init : Option (Graph P)) (rp : Bool) (leafArray : List (List Int)) :
    RankLe (nnDescent top ctop draw dist n cfg stop rng init rp leafArray).1
      (nnDescent top ctop draw dist n { cfg with nIters := cfg.nIters + 1 } stop rng init rp leafArray).1 := by
  rw [nnDescent_fst, nnDescent_fst]
  apply RankLe.map_deheapSort
  have hs : startGraph top dist n { cfg with nIters := cfg.nIters + 1 } rng init rp leafArray
      = startGraph top dist n cfg rng init rp leafArray := rfl
  rw [hs]
  show RankLe _ (descentLoop top ctop draw dist { cfg with nIters := cfg.nIters + 1 } stop _
    (cfg.nIters + 1) _ (if cfg.lowMemory then _ else _))
  rw [descentLoop_cfg_nIters top ctop draw dist cfg (cfg.nIters + 1)]
  exact descentLoop_succ_rankLe top ctop draw dist cfg stop _ cfg.nIters _ _


/-! ## instance 3: every row stays a max-heap (any pushes) — so the output rows are ascending -/

def AllHeap (g : Graph P) : Prop := ∀ (r : Nat) (row : Row P), g[r]? = some row → IsHeap row

theorem isHeap_map_keepsKey (φ : Entry P → Entry P) (hφ : KeepsKey φ) {row : Row P}
    (h : IsHeap row) : IsHeap (row.map φ) := by
  intro j hj hj0
  simp only [Array.size_map] at hj
  simp only [Array.getElem_map, (hφ _).1]
  exact h j hj hj0

theorem allHeap_pushClosed : PushClosed (AllHeap (P := P)) (fun _ _ _ => True) := by
  intro g r d q f hg _ r' row' hr'
  rw [pushInto_getElem?] at hr'
  split at hr'
  · rename_i heq
    subst heq
    cases hrow : g[r']? with
    | none => rw [hrow] at hr'; simp at hr'
    | some row =>
      rw [hrow] at hr'
      simp only [Option.map_some, Option.some.injEq] at hr'
      subst hr'
      exact push_heap true row d q f (hg r' row hrow)
  · exact hg r' row' hr'

theorem clearFlags_allHeap {g : Graph P} (hg : AllHeap g) (c : Cands C) :
    AllHeap (clearFlags g c) := by
  intro r row' hr'
  obtain ⟨φ, hφ, heq⟩ := clearFlags_getElem? g c r
  rw [heq] at hr'
  cases hrow : g[r]? with
  | none => rw [hrow] at hr'; simp at hr'
  | some row =>
    rw [hrow] at hr'
    simp only [Option.map_some, Option.some.injEq] at hr'
    subst hr'
    exact isHeap_map_keepsKey φ hφ (hg r row hrow)

theorem descentLoop_allHeap (top : P) (ctop : C) (draw : RngState → C × RngState)
    (dist : Nat → Nat → P) (cfg : Cfg) (stop : Nat → Bool) (rng : RngState) (it : Nat)
    {g : Graph P} (s : InGraph) (hg : AllHeap g) :
    AllHeap (descentLoop top ctop draw dist cfg stop rng it g s) :=
  descentLoop_lift allHeap_pushClosed top ctop draw dist cfg stop rng
    (fun _ c hg' => clearFlags_allHeap hg' c) (fun _ _ _ _ _ u _ => updOk_true u) it g s hg

/-- supplied heap rows that are max-heaps: every output row is ascending -/
theorem nnDescent_sorted (top : P) (ctop : C) (draw : RngState → C × RngState)
    (dist : Nat → Nat → P) (n : Nat) (cfg : Cfg) (stop : Nat → Bool) (rng : RngState)
    (g0 : Graph P) (hg0 : AllHeap g0) (rp : Bool) (leafArray : List (List Int)) :
    ∀ (p : Nat) (row : Row P),
      (nnDescent top ctop draw dist n cfg stop rng (some g0) rp leafArray).1[p]? = some row →
      ∀ i j (hi : i < row.size) (hj : j < row.size), i ≤ j → row[i].prio ≤ row[j].prio := by
  intro p row hrow
  rw [nnDescent_fst, Array.getElem?_map] at hrow
  have hall := descentLoop_allHeap top ctop draw dist cfg stop
    (startGraph top dist n cfg rng (some g0) rp leafArray).2 cfg.nIters
    (g := (startGraph top dist n cfg rng (some g0) rp leafArray).1)
    (if cfg.lowMemory then (#[] : InGraph)
      else initInGraph (startGraph top dist n cfg rng (some g0) rp leafArray).1) hg0
  revert hrow
  generalize descentLoop top ctop draw dist cfg stop _ cfg.nIters _ _ = gfin at hall ⊢
  intro hrow
  cases hr : gfin[p]? with
  | none => rw [hr] at hrow; simp at hrow
  | some row0 =>
    rw [hr] at hrow
    simp only [Option.map_some, Option.some.injEq] at hrow
    subst hrow
    exact deheapSort_sorted row0 (hall p row0 hr)

/-! ## `init_from_neighbor_graph` row by row -/

theorem foldl_pushInto_row (g : Graph P) (r : Nat) (f : Bool) (l : List (Int × P)) (r' : Nat) :
    (l.foldl (fun g qd => (pushInto g r qd.2 qd.1 f).1) g)[r']? =
      if r' = r then
        g[r]?.map (fun row => l.foldl (fun h qd => (pushFlagged h qd.2 qd.1 f).1) row)
      else g[r']? := by
  induction l generalizing g with
  | nil => split <;> simp_all
  | cons qd l ih =>
    rw [List.foldl_cons, ih]
    split
    · rename_i heq
      rw [pushInto_getElem?, if_pos rfl]
      cases g[r]? <;> simp
    · rename_i hne
      rw [pushInto_getElem?, if_neg hne]

theorem foldl_zipIdx_rows (F : List (Int × P) → Row P → Row P)
    (l : List (List Int × List P)) (k : Nat) (g : Graph P) (r : Nat)
    (step : Graph P → (List Int × List P) × Nat → Graph P)
    (hstep : ∀ g rowi r', (step g rowi)[r']? =
      if r' = rowi.2 then g[rowi.2]?.map (F (rowi.1.1.zip rowi.1.2)) else g[r']?) :
    ((l.zipIdx k).foldl step g)[r]? =
      g[r]?.map (fun row => if k ≤ r then
        match l[r - k]? with
        | some isds => F (isds.1.zip isds.2) row
        | none => row else row) := by
  induction l generalizing k g with
  | nil =>
    simp only [List.zipIdx_nil, List.foldl_nil]
    cases g[r]? <;> simp
  | cons x l ih =>
    rw [List.zipIdx_cons, List.foldl_cons, ih (k + 1), hstep]
    by_cases hrk : r = k
    · subst hrk
      simp only [if_true, Nat.le_refl, Nat.sub_self, List.getElem?_cons_zero]
      have : ¬ (r + 1 ≤ r) := by omega
      simp only [this, if_false]
      cases g[r]? <;> simp
    · simp only [hrk, if_false]
      by_cases hle : k + 1 ≤ r
      · have hle' : k ≤ r := by omega
        have : r - k = (r - (k + 1)) + 1 := by omega
        simp only [hle, hle', if_true, this, List.getElem?_cons_succ]
      · have hle' : ¬ k ≤ r := by omega
        simp only [hle, hle', if_false]

/-- `init_from_neighbor_graph` feeds row `r` of the heap with row `r` of the supplied
index/distance arrays (flag 0) and touches nothing else -/
theorem initFromNeighborGraph_getElem? (g : Graph P) (indices : List (List Int))
    (dists : List (List P)) (r : Nat) :
    (initFromNeighborGraph g indices dists)[r]? =
      g[r]?.map (fun row =>
        match (indices.zip dists)[r]? with
        | some isds => (isds.1.zip isds.2).foldl (fun h qd => (pushFlagged h qd.2 qd.1 false).1) row
        | none => row) := by
  unfold initFromNeighborGraph
  let F : List (Int × P) → Row P → Row P :=
    fun l row => l.foldl (fun h qd => (pushFlagged h qd.2 qd.1 false).1) row
  let step : Graph P → (List Int × List P) × Nat → Graph P :=
    fun g rowi => (rowi.1.1.zip rowi.1.2).foldl (fun g qd => (pushInto g rowi.2 qd.2 qd.1 false).1) g
  have hstep : ∀ g rowi r', (step g rowi)[r']? =
      if r' = rowi.2 then g[rowi.2]?.map (F (rowi.1.1.zip rowi.1.2)) else g[r']? :=
    fun g rowi r' => foldl_pushInto_row g rowi.2 false (rowi.1.1.zip rowi.1.2) r'
  have := foldl_zipIdx_rows F (indices.zip dists) 0 g r step hstep
  show (((indices.zip dists).zipIdx 0).foldl step g)[r]? = _
  rw [this]
  simp only [Nat.zero_le, if_true, Nat.sub_zero, F]


/-- the index / distance arrays of a sorted graph, as `update()` hands them back to
`init_from_neighbor_graph` -/
def idxRows (g : Graph P) : List (List Int) := g.toList.map (fun row => row.toList.map (·.idx))
def prioRows (g : Graph P) : List (List P) := g.toList.map (fun row => row.toList.map (·.prio))

/-- **re-insertion, graph level**: starting from an empty heap with `n' ≥` old rows,
`init_from_neighbor_graph` with the old index/distance arrays gives every old row back as a
multiset of `(index, distance)` pairs, and leaves the appended rows empty. -/
theorem initFromNeighborGraph_reinsert {top : P} (htop : ∀ x : P, x ≤ top) (old : Graph P)
    (n' k : Nat)
    (hold : ∀ (r : Nat) (row : Row P), old[r]? = some row → row.size = k ∧
      ((row.toList.filter (fun e => 0 ≤ e.idx)).map (·.idx)).Nodup ∧
      (∀ e ∈ row, (e.idx = -1 ∧ e.prio = top) ∨ (0 ≤ e.idx ∧ e.prio < top))) :
    ∀ r, r < n' → ∃ row',
      (initFromNeighborGraph (mkGraph top n' k) (idxRows old) (prioRows old))[r]? = some row' ∧
      match old[r]? with
      | some row => (row'.toList.map keyOf).Perm (row.toList.map keyOf)
      | none => row' = mkRow top k := by
  intro r hr
  rw [initFromNeighborGraph_getElem?]
  have hmk : (mkGraph top n' k)[r]? = some (mkRow top k) := by
    simp [mkGraph, hr]
  have hzip : (idxRows old).zip (prioRows old)
      = old.toList.map (fun row => (row.toList.map (·.idx), row.toList.map (·.prio))) := by
    unfold idxRows prioRows; rw [List.zip_map']
  rw [hmk, hzip, List.getElem?_map, Array.getElem?_toList]
  cases hrow : old[r]? with
  | none => exact ⟨_, rfl, rfl⟩
  | some row =>
    refine ⟨_, rfl, ?_⟩
    obtain ⟨hsz, hnd, hwf⟩ := hold r row hrow
    simp only [Option.map_some]
    rw [List.zip_map', List.foldl_map, ← hsz]
    exact reinsert_keys_perm htop false row hnd hwf


/-! ## heaps built from a supplied `init_graph` satisfy the invariant -/

/-- a push at distance `top` (an `inf` distance, in particular a `(-1, inf)` hole) is a no-op -/
theorem pushInto_top {top : P} (htop : ∀ x : P, x ≤ top) (g : Graph P) (r : Nat) (q : Int)
    (f : Bool) : (pushInto g r top q f).1 = g := by
  unfold pushInto
  split
  · rename_i h
    show g.set r (push true g[r] top q f).1 = g
    rw [push_sentinel_reject htop true g[r] q f]
    exact Array.set_getElem_self h
  · rfl

/-- `initalize_heap_from_graph_indices` (distances computed with `dist`; `j < 0` skipped):
if the supplied indices are `< n`, the heap satisfies the invariant -/
theorem initFromIndices_inv {top : P} (htop : ∀ x : P, x ≤ top) {n k : Nat}
    {dist : Nat → Nat → P} {g : Graph P} (hg : GraphInv top n k dist g)
    (indices : List (List Int)) (hidx : ∀ row ∈ indices, ∀ j ∈ row, j < (n : Int)) :
    GraphInv top n k dist (initFromIndices g indices dist) := by
  unfold initFromIndices
  apply foldl_inv (GraphInv top n k dist) _ _ _ hg
  intro g' rowi hrowi hg'
  have hrow : rowi.1 ∈ indices := List.fst_mem_of_mem_zipIdx hrowi
  apply foldl_inv (GraphInv top n k dist) _ _ _ hg'
  intro g'' j hj hg''
  split
  · rename_i h0
    by_cases hr : rowi.2 < n
    · exact pushInto_inv htop hg'' hr h0 (hidx _ hrow j hj) rfl true
    · rw [pushInto_oob _ _ _ _ _ (by rw [hg''.size]; omega)]; exact hg''
  · exact hg''

/-- `init_from_neighbor_graph` / `initalize_heap_from_graph_indices_and_distances` with a
**truthful** `init_dist`: every supplied pair is at distance `top` (a hole, rejected) or an
in-range index with its true distance.  (Without the truthfulness hypothesis the supplied
distances simply stay in the heap: see C13's example.) -/
theorem initFromNeighborGraph_inv {top : P} (htop : ∀ x : P, x ≤ top) {n k : Nat}
    {dist : Nat → Nat → P} {g : Graph P} (hg : GraphInv top n k dist g)
    (indices : List (List Int)) (dists : List (List P))
    (htrue : ∀ (r : Nat) (isds : List Int × List P), (indices.zip dists)[r]? = some isds →
      ∀ qd ∈ isds.1.zip isds.2,
        qd.2 = top ∨ (0 ≤ qd.1 ∧ qd.1 < (n : Int) ∧ qd.2 = dist r qd.1.toNat)) :
    GraphInv top n k dist (initFromNeighborGraph g indices dists) := by
  unfold initFromNeighborGraph
  apply foldl_inv (GraphInv top n k dist) _ _ _ hg
  intro g' rowi hrowi hg'
  have hrow := List.mem_zipIdx_iff_getElem?.mp hrowi
  apply foldl_inv (GraphInv top n k dist) _ _ _ hg'
  intro g'' qd hqd hg''
  rcases htrue rowi.2 rowi.1 hrow qd hqd with h | ⟨h0, hn, hd⟩
  · rw [h, pushInto_top htop]; exact hg''
  · by_cases hr : rowi.2 < n
    · exact pushInto_inv htop hg'' hr h0 hn hd false
    · rw [pushInto_oob _ _ _ _ _ (by rw [hg''.size]; omega)]; exact hg''

end Pynn
