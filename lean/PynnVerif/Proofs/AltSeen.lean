import PynnVerif.Proofs.Connect
import PynnVerif.Proofs.SeenLoop
import Mathlib.Data.List.Sublists
import Mathlib.Order.Basic

/-!
# The repaired alternating loop of `find_component_connection_edge` (cycle guard) over ANY search

* the loop keys reachable from the initial seeds form a finite set (`altUniv`): every later index array is
  `np.unique` of point numbers `< N`, i.e. a sublist of `range N`;
* hence `altLoopSeen` exits (`altLoopSeen_terminates`) whatever the restricted search returns — approximate,
  tie-breaking by heap position, anything deterministic;
* the old exact-nearest-neighbour abstraction `altLoop nn` is the unguarded loop for the search
  `fun side q _ => q.map (nn side)` (`altLoop_eq_plainLoop`);
* best-edge bookkeeping (`bestRound_spec`).
-/
set_option linter.unusedSectionVars false
set_option linter.unusedSimpArgs false
namespace Pynn.Connect

/-! ## strictly ascending bounded lists are sublists of `range` -/

theorem sublist_range'_of_sorted : ∀ (n a : Nat) (l : List Nat), l.Pairwise (· < ·) →
    (∀ x ∈ l, a ≤ x ∧ x < a + n) → l.Sublist (List.range' a n) := by
  intro n
  induction n with
  | zero =>
    intro a l _ hb
    cases l with
    | nil => simp
    | cons x xs => have := hb x (by simp); omega
  | succ n ih =>
    intro a l hs hb
    cases l with
    | nil => simp
    | cons x xs =>
      rw [List.range'_succ]
      rw [List.pairwise_cons] at hs
      have hx := hb x (by simp)
      by_cases hxa : x = a
      · subst hxa
        refine List.Sublist.cons_cons _ (ih (x + 1) xs hs.2 ?_)
        intro y hy
        have h1 := hs.1 y hy
        have h2 := hb y (by simp [hy])
        omega
      · refine List.Sublist.cons _ (ih (a + 1) (x :: xs) (List.pairwise_cons.mpr hs) ?_)
        intro y hy
        rcases List.mem_cons.mp hy with rfl | hy'
        · omega
        · have h1 := hs.1 y hy'
          have h2 := hb y (by simp [hy'])
          omega

theorem uniq_mem_sublists (N : Nat) (l : List Nat) (hb : ∀ x ∈ l, x < N) :
    uniq l ∈ (List.range N).sublists := by
  rw [List.mem_sublists, List.range_eq_range']
  refine sublist_range'_of_sorted N 0 (uniq l) (sorted_uniq l) ?_
  intro x hx
  have := hb x ((mem_uniq x l).mp hx)
  omega

/-! ## the finite key space -/

def bools : List Bool := [false, true]

theorem mem_bools (b : Bool) : b ∈ bools := by cases b <;> simp [bools]

/-- every key the loop can reach from the seeds `i0`, `i1` when the search returns point numbers `< N` -/
def altUniv (N : Nat) (i0 i1 : List Nat) : List AltKey :=
  (i0 :: (List.range N).sublists).flatMap fun a =>
  (i1 :: (List.range N).sublists).flatMap fun b =>
  bools.flatMap fun sd => bools.flatMap fun c0 => bools.flatMap fun c1 =>
  bools.flatMap fun t0 => bools.map fun t1 => ((⟨a, b, sd, c0, c1⟩ : AltState), t0, t1)

theorem mem_altUniv (N : Nat) (i0 i1 : List Nat) (k : AltKey)
    (h0 : k.1.idx0 = i0 ∨ k.1.idx0 ∈ (List.range N).sublists)
    (h1 : k.1.idx1 = i1 ∨ k.1.idx1 ∈ (List.range N).sublists) : k ∈ altUniv N i0 i1 := by
  obtain ⟨⟨a, b, sd, c0, c1⟩, t0, t1⟩ := k
  simp only [altUniv, List.mem_flatMap, List.mem_map, List.mem_cons]
  refine ⟨a, ?_, b, ?_, sd, mem_bools _, c0, mem_bools _, c1, mem_bools _, t0, mem_bools _, t1, mem_bools _, rfl⟩
  · simpa using h0
  · simpa using h1

theorem altUniv_idx (N : Nat) (i0 i1 : List Nat) (k : AltKey) (h : k ∈ altUniv N i0 i1) :
    (k.1.idx0 = i0 ∨ k.1.idx0 ∈ (List.range N).sublists) ∧
    (k.1.idx1 = i1 ∨ k.1.idx1 ∈ (List.range N).sublists) := by
  simp only [altUniv, List.mem_flatMap, List.mem_map, List.mem_cons] at h
  obtain ⟨a, ha, b, hb, sd, _, c0, _, c1, _, t0, _, t1, _, rfl⟩ := h
  exact ⟨ha, hb⟩

theorem altUniv_closed (srch : Bool → List Nat → List Nat → List Nat) (N : Nat)
    (hs : ∀ side q c, ∀ x ∈ srch side q c, x < N) (i0 i1 : List Nat) :
    ∀ k ∈ altUniv N i0 i1, altKeyStep srch k ∈ altUniv N i0 i1 := by
  intro k hk
  obtain ⟨h0, h1⟩ := altUniv_idx N i0 i1 k hk
  refine mem_altUniv N i0 i1 _ ?_ ?_
  · simp only [altKeyStep, altStepG]
    split
    · exact h0
    · exact Or.inr (uniq_mem_sublists N _ (hs _ _ _))
  · simp only [altKeyStep, altStepG]
    split
    · exact Or.inr (uniq_mem_sublists N _ (hs _ _ _))
    · exact h1

/-- **Termination of the repaired loop, any search.** -/
theorem altLoopSeen_terminates (srch : Bool → List Nat → List Nat → List Nat) (N : Nat)
    (hs : ∀ side q c, ∀ x ∈ srch side q c, x < N) (idx0 idx1 : List Nat) :
    ∃ r, altLoopSeen srch (altUniv N idx0 idx1).length idx0 idx1 = some r := by
  unfold altLoopSeen
  exact seenLoop_terminates (altKeyStep srch) altKeyCont (altUniv N idx0 idx1)
    (altUniv_closed srch N hs idx0 idx1) _ (mem_altUniv N idx0 idx1 _ (Or.inl rfl) (Or.inl rfl))

/-! ## the exact-nearest-neighbour abstraction is an instance -/

/-- the search of the abstraction: every query point is answered with its `nn`, the seeds are ignored -/
def nnSearch (nn : Bool → Nat → Nat) : Bool → List Nat → List Nat → List Nat := fun side q _ => q.map (nn side)

theorem altStepG_nnSearch (nn : Bool → Nat → Nat) (st : AltState) : altStepG (nnSearch nn) st = altStep nn st := by
  unfold altStepG altStep nnSearch
  split <;> rfl

theorem altLoop_eq_plainLoop (nn : Bool → Nat → Nat) :
    ∀ (fuel : Nat) (st : AltState) (t0 t1 : Bool),
      altLoop nn fuel st = (plainLoop (altKeyStep (nnSearch nn)) altKeyCont fuel (st, t0, t1)).map (·.1) := by
  intro fuel
  induction fuel with
  | zero =>
    intro st t0 t1
    by_cases hc : (st.ch0 || st.ch1) = true
    · have hk : altKeyCont (st, t0, t1) = true := hc
      simp only [altLoop, plainLoop, hc, hk, if_true, Option.map_none]
    · have hk : ¬ (altKeyCont (st, t0, t1) = true) := hc
      simp [altLoop, plainLoop, hc, hk]
  | succ f ih =>
    intro st t0 t1
    by_cases hc : (st.ch0 || st.ch1) = true
    · have hk : altKeyCont (st, t0, t1) = true := hc
      simp only [altLoop, plainLoop, hc, hk, if_true]
      have hstep : altKeyStep (nnSearch nn) (st, t0, t1) =
          (altStep nn st, if st.side = false then (t0, false) else (false, t1)) := by
        simp only [altKeyStep, altStepG_nnSearch]
      rw [hstep]
      exact ih _ _ _
    · have hk : ¬ (altKeyCont (st, t0, t1) = true) := hc
      simp [altLoop, plainLoop, hc, hk]

/-! ## best-edge bookkeeping -/

section Best
variable {P : Type} [LinearOrder P]

theorem bestRow_spec (q : Int) : ∀ (row : List (Int × P)) (b : Best P),
    let b' := bestRow q row b
    (b' = b ∨ ∃ e ∈ row, b' = ⟨e.2, q, e.1⟩) ∧ b'.dist ≤ b.dist ∧ ∀ e ∈ row, b'.dist ≤ e.2 := by
  intro row
  induction row with
  | nil => intro b; simp [bestRow]
  | cons e rest ih =>
    intro b
    obtain ⟨v, d⟩ := e
    simp only [bestRow]
    by_cases hlt : d < b.dist
    · simp only [hlt, if_true]
      obtain ⟨h1, h2, h3⟩ := ih ⟨d, q, v⟩
      refine ⟨?_, le_trans h2 (le_of_lt hlt), ?_⟩
      · rcases h1 with h | ⟨e, he, h⟩
        · exact Or.inr ⟨(v, d), by simp, h⟩
        · exact Or.inr ⟨e, by simp [he], h⟩
      · intro e he
        rcases List.mem_cons.mp he with rfl | he'
        · exact h2
        · exact h3 e he'
    · simp only [hlt, if_false]
      obtain ⟨h1, h2, h3⟩ := ih b
      refine ⟨?_, h2, ?_⟩
      · rcases h1 with h | ⟨e, he, h⟩
        · exact Or.inl h
        · exact Or.inr ⟨e, by simp [he], h⟩
      · intro e he
        rcases List.mem_cons.mp he with rfl | he'
        · exact le_trans h2 (not_lt.mp hlt)
        · exact h3 e he'

/-- **Best-edge bookkeeping of one round.**  Afterwards the recorded edge is either the previous one or
`(query point, result)` of an entry of this round carrying exactly that entry's distance, and the recorded
distance is a lower bound of the previous best and of every distance of the round. -/
theorem bestRound_spec : ∀ (rows : List (Int × List (Int × P))) (b : Best P),
    let b' := bestRound rows b
    (b' = b ∨ ∃ r ∈ rows, ∃ e ∈ r.2, b' = ⟨e.2, r.1, e.1⟩) ∧ b'.dist ≤ b.dist ∧
      ∀ r ∈ rows, ∀ e ∈ r.2, b'.dist ≤ e.2 := by
  intro rows
  induction rows with
  | nil => intro b; simp [bestRound]
  | cons r rest ih =>
    intro b
    obtain ⟨q, row⟩ := r
    simp only [bestRound]
    obtain ⟨g1, g2, g3⟩ := bestRow_spec q row b
    obtain ⟨h1, h2, h3⟩ := ih (bestRow q row b)
    refine ⟨?_, le_trans h2 g2, ?_⟩
    · rcases h1 with h | ⟨r, hr, e, he, h⟩
      · rcases g1 with g | ⟨e, he, g⟩
        · exact Or.inl (h.trans g)
        · exact Or.inr ⟨(q, row), by simp, e, he, h.trans g⟩
      · exact Or.inr ⟨r, by simp [hr], e, he, h⟩
    · intro r hr e he
      rcases List.mem_cons.mp hr with rfl | hr'
      · exact le_trans h2 (g3 e he)
      · exact h3 r hr' e he

end Best

/-! ## the index sets stay inside their components; the recorded edge joins the two components -/

theorem altKey_iter_in_components (srch : Bool → List Nat → List Nat → List Nat) (A B : Nat → Prop)
    (hcl0 : ∀ q c, (∀ x ∈ q, A x) → ∀ y ∈ srch false q c, B y)
    (hcl1 : ∀ q c, (∀ x ∈ q, B x) → ∀ y ∈ srch true q c, A y)
    (k0 : AltKey) (h0 : ∀ x ∈ k0.1.idx0, A x) (h1 : ∀ x ∈ k0.1.idx1, B x) :
    ∀ n, (∀ x ∈ ((altKeyStep srch)^[n] k0).1.idx0, A x) ∧ (∀ x ∈ ((altKeyStep srch)^[n] k0).1.idx1, B x) := by
  intro n
  induction n with
  | zero => exact ⟨h0, h1⟩
  | succ n ih =>
    rw [Function.iterate_succ_apply']
    obtain ⟨i0, i1⟩ := ih
    generalize (altKeyStep srch)^[n] k0 = k at i0 i1
    simp only [altKeyStep, altStepG]
    split
    · exact ⟨i0, fun x hx => hcl0 _ _ i0 x ((mem_uniq x _).mp hx)⟩
    · exact ⟨fun x hx => hcl1 _ _ i1 x ((mem_uniq x _).mp hx), i1⟩

section BestCross
variable {P : Type} [LT P] [DecidableLT P]

theorem bestRow_pred (Q : Int → Int → Prop) (q : Int) : ∀ (row : List (Int × P)) (b : Best P),
    Q b.a b.b → (∀ e ∈ row, Q q e.1) → Q (bestRow q row b).a (bestRow q row b).b := by
  intro row
  induction row with
  | nil => intro b hb _; simpa [bestRow] using hb
  | cons e rest ih =>
    intro b hb hrow
    obtain ⟨v, d⟩ := e
    simp only [bestRow]
    refine ih _ ?_ (fun e he => hrow e (by simp [he]))
    split
    · exact hrow (v, d) (by simp)
    · exact hb

/-- any relation that holds of the initial edge and of every (query point, result) pair offered holds of the recorded edge -/
theorem bestRound_pred (Q : Int → Int → Prop) : ∀ (rows : List (Int × List (Int × P))) (b : Best P),
    Q b.a b.b → (∀ r ∈ rows, ∀ e ∈ r.2, Q r.1 e.1) → Q (bestRound rows b).a (bestRound rows b).b := by
  intro rows
  induction rows with
  | nil => intro b hb _; simpa [bestRound] using hb
  | cons r rest ih =>
    intro b hb hrows
    obtain ⟨q, row⟩ := r
    simp only [bestRound]
    exact ih _ (bestRow_pred Q q row b hb (fun e he => hrows (q, row) (by simp) e he))
      (fun r hr e he => hrows r (by simp [hr]) e he)

end BestCross

end Pynn.Connect
