import PynnVerif.Proofs.SparseMetrics
import Mathlib.Algebra.Field.Defs
import Mathlib.Tactic.Ring

/-! # `sparse_correlation`'s accounting of the implicit zeros equals the dense centred sums
(helpers for C08; this is where defect D17 lived) -/
set_option linter.unusedSectionVars false
namespace Pynn.Sparse
variable {α : Type} [DecidableEq α]

/-! ### generic fold / sum plumbing -/
section Plumbing

theorem foldl_add_eq [AddMonoid α] {γ : Type} (t : γ → α) (l : List γ) (r0 : α) :
    l.foldl (fun r p => r + t p) r0 = r0 + (l.map t).sum := by
  induction l generalizing r0 with
  | nil => simp
  | cons p l ih => rw [List.foldl_cons, ih, List.map_cons, List.sum_cons, add_assoc]

theorem sum_map_add [AddCommMonoid α] {γ : Type} (f g : γ → α) (l : List γ) :
    (l.map f).sum + (l.map g).sum = (l.map (fun p => f p + g p)).sum := by
  induction l with
  | nil => simp
  | cons p l ih =>
    simp only [List.map_cons, List.sum_cons, ← ih]
    rw [add_add_add_comm]

theorem sum_map_ite_const [NonAssocSemiring α] {γ : Type} (q : γ → Bool) (c : α) (l : List γ) :
    (l.map (fun p => if q p then c else 0)).sum = c * ((l.countP q : Nat) : α) := by
  induction l with
  | nil => simp
  | cons p l ih =>
    rw [List.map_cons, List.sum_cons, ih, List.countP_cons]
    by_cases hq : q p
    · simp [hq, mul_add, add_comm]
    · simp [hq]

theorem foldl_zip_swap {β γ δ : Type} (g : δ → β → γ → δ) (x : List γ) (y : List β) (r0 : δ) :
    (y.zip x).foldl (fun r p => g r p.1 p.2) r0 = (x.zip y).foldl (fun r p => g r p.2 p.1) r0 := by
  induction x generalizing y r0 with
  | nil => cases y <;> rfl
  | cons u s ih =>
    cases y with
    | nil => rfl
    | cons v t => exact ih t _

variable [Zero α]

/-- a loop over the stored entries of `enc z` against the dense loop over `z`, when the dense
body does nothing on a zero entry and agrees with the sparse body on non-zero ones -/
theorem foldl_encFrom' {β : Type} (gs gd : β → α → β) (h0 : ∀ r, gd r 0 = r)
    (hs : ∀ r v, v ≠ 0 → gs r v = gd r v) (k : Nat) (z : List α) (r0 : β) :
    (encFrom k z).foldl (fun r p => gs r p.2) r0 = z.foldl gd r0 := by
  induction z generalizing k r0 with
  | nil => rfl
  | cons v t ih =>
    show (keep k v (encFrom (k + 1) t)).foldl _ r0 = _
    unfold keep; split
    · subst_vars; rw [List.foldl_cons, h0]; exact ih _ _
    · rename_i hv; rw [List.foldl_cons, List.foldl_cons, hs _ _ hv]; exact ih _ _

/-- the same with a body that looks at the *index* of the stored entry (`ind[i] in common`):
at coordinate `k + j` the sparse body must agree with the dense body on `(x[j], y[j])` -/
theorem foldl_encFrom_zip {β γ : Type} (gs : β → Nat → α → β) (gd : β → α → γ → β)
    (h0 : ∀ r w, gd r 0 w = r) (k : Nat) (x : List α) (y : List γ) (hlen : x.length = y.length)
    (hs : ∀ r j (hx : j < x.length) (hy : j < y.length), x[j] ≠ 0 → gs r (k + j) x[j] = gd r x[j] y[j])
    (r0 : β) :
    (encFrom k x).foldl (fun r p => gs r p.1 p.2) r0 = (x.zip y).foldl (fun r p => gd r p.1 p.2) r0 := by
  induction x generalizing y k r0 with
  | nil => rfl
  | cons u s ih =>
    cases y with
    | nil => simp at hlen
    | cons v t =>
      have hs' : ∀ r j (hx : j < s.length) (hy : j < t.length), s[j] ≠ 0 →
          gs r (k + 1 + j) s[j] = gd r s[j] t[j] := by
        intro r j hx hy hne
        have := hs r (j + 1) (by simpa using hx) (by simpa using hy) (by simpa using hne)
        simpa [Nat.add_assoc, Nat.add_comm 1 j] using this
      have hhead : u ≠ 0 → ∀ r, gs r k u = gd r u v := by
        intro hu r
        have := hs r 0 (by simp) (by simp) (by simpa using hu)
        simpa using this
      show (keep k u (encFrom (k + 1) s)).foldl _ r0 = _
      rw [List.zip_cons_cons, List.foldl_cons]
      unfold keep; split
      · subst_vars; rw [h0]; exact ih (k + 1) t (by simpa using hlen) hs' _
      · rename_i hu
        rw [List.foldl_cons, hhead hu]
        exact ih (k + 1) t (by simpa using hlen) hs' _

end Plumbing

/-! ### `sparse_mul` on the shifted rows -/
section ShiftMul
variable [Ring α]

theorem shiftV_keep (m : α) (k : Nat) (u : α) (rest : SVec α) :
    shiftV m (keep k u rest) = if u = 0 then shiftV m rest else (k, u - m) :: shiftV m rest := by
  unfold keep shiftV; split <;> rfl

theorem sortedFrom_shiftV {lo : Nat} {a : SVec α} (m : α) (h : SortedFrom lo a) :
    SortedFrom lo (shiftV m a) := by
  induction a generalizing lo with
  | nil => trivial
  | cons p t ih => exact ⟨h.1, ih h.2⟩

theorem sparseMul_nil_right (a : SVec α) : sparseMul a [] = [] := by
  cases a <;> simp [sparseMul]

theorem sparseMul_cons_lt {k : Nat} {u : α} {A B : SVec α} (hB : SortedFrom (k + 1) B) :
    sparseMul ((k, u) :: A) B = sparseMul A B := by
  cases B with
  | nil => rw [sparseMul_nil_right, sparseMul_nil_right]
  | cons q B =>
    obtain ⟨j, w⟩ := q
    have := hB.1
    rw [sparseMul, if_neg (by omega), if_pos (by omega)]

theorem sparseMul_lt_cons {k : Nat} {v : α} {A B : SVec α} (hA : SortedFrom (k + 1) A) :
    sparseMul A ((k, v) :: B) = sparseMul A B := by
  cases A with
  | nil => simp [sparseMul]
  | cons p A =>
    obtain ⟨j, w⟩ := p
    have := hA.1
    rw [sparseMul, if_neg (by omega), if_neg (by omega)]

/-- the sum over `sparse_mul(shifted1, shifted2)` is the sum of the centred products over the
coordinates stored in *both* rows -/
theorem mulSum_shift_encFrom (mx my : α) (k : Nat) (x y : List α) (h : x.length = y.length) (r0 : α) :
    (sparseMul (shiftV mx (encFrom k x)) (shiftV my (encFrom k y))).foldl (fun r p => r + p.2) r0
      = (x.zip y).foldl
          (fun r p => r + (if p.1 ≠ 0 ∧ p.2 ≠ 0 then (p.1 - mx) * (p.2 - my) else 0)) r0 := by
  induction x generalizing y k r0 with
  | nil =>
    cases y with
    | nil => simp [encFrom, shiftV, sparseMul]
    | cons _ _ => simp at h
  | cons u s ih =>
    cases y with
    | nil => simp at h
    | cons v t =>
      have hlen : s.length = t.length := by simpa using h
      have hA := sortedFrom_shiftV mx (encFrom_sorted (k + 1) s)
      have hB := sortedFrom_shiftV my (encFrom_sorted (k + 1) t)
      show (sparseMul (shiftV mx (keep k u (encFrom (k + 1) s)))
        (shiftV my (keep k v (encFrom (k + 1) t)))).foldl _ r0 = _
      rw [shiftV_keep, shiftV_keep, List.zip_cons_cons, List.foldl_cons]
      by_cases hu : u = 0
      · by_cases hv : v = 0
        · rw [if_pos hu, if_pos hv, ih (k + 1) t hlen]; simp [hu]
        · rw [if_pos hu, if_neg hv, sparseMul_lt_cons hA, ih (k + 1) t hlen]; simp [hu]
      · by_cases hv : v = 0
        · rw [if_neg hu, if_pos hv, sparseMul_cons_lt hB, ih (k + 1) t hlen]; simp [hv]
        · rw [if_neg hu, if_neg hv, sparseMul, if_pos rfl, foldl_keep_add, ih (k + 1) t hlen]
          simp [hu, hv]

end ShiftMul

/-! ### index bookkeeping: `common`, `|arr_union|`, `n_features − nnz` -/
section Bookkeeping

theorem length_filter_add_not {γ : Type} (q : γ → Bool) (l : List γ) :
    (l.filter q).length + (l.filter (fun p => !q p)).length = l.length := by
  induction l with
  | nil => rfl
  | cons p l ih =>
    by_cases hq : q p <;> simp [hq] <;> omega

theorem countP_add_countP_not {γ : Type} (q : γ → Bool) (l : List γ) :
    l.countP q + l.countP (fun p => !q p) = l.length := by
  induction l with
  | nil => rfl
  | cons p l ih =>
    by_cases hq : q p <;> simp [hq] <;> omega

/-- `|arr_union| + |common| = nnz1 + nnz2` on strictly increasing index arrays -/
theorem arrUnion_length {a b : List Nat} (ha : a.Pairwise (· < ·)) (hb : b.Pairwise (· < ·)) :
    (arrUnion a b).length + (a.filter (· ∈ b)).length = a.length + b.length := by
  have hna : a.Nodup := ha.imp (fun h => Nat.ne_of_lt h)
  have hnb : b.Nodup := hb.imp (fun h => Nat.ne_of_lt h)
  obtain ⟨hU, hmU⟩ := arrUnion_spec ha hb
  have hnU : (arrUnion a b).Nodup := hU.imp (fun h => Nat.ne_of_lt h)
  -- the union, listed as `a` followed by the elements of `b` not in `a`
  have hnL : (a ++ b.filter (fun i => !decide (i ∈ a))).Nodup := by
    rw [List.nodup_append]
    refine ⟨hna, hnb.filter _, ?_⟩
    intro i hi j hj hij
    subst hij
    have := (List.mem_filter.1 hj).2
    simp [hi] at this
  have hperm : (arrUnion a b).Perm (a ++ b.filter (fun i => !decide (i ∈ a))) := by
    rw [List.perm_ext_iff_of_nodup hnU hnL]
    intro i
    rw [hmU, List.mem_append, List.mem_filter]
    by_cases hia : i ∈ a <;> simp [hia]
  have hsym : (b.filter (· ∈ a)).length = (a.filter (· ∈ b)).length := by
    apply List.Perm.length_eq
    rw [List.perm_ext_iff_of_nodup (hnb.filter _) (hna.filter _)]
    intro i; simp only [List.mem_filter, decide_eq_true_eq]; tauto
  have := length_filter_add_not (fun i => decide (i ∈ a)) b
  rw [hperm.length_eq, List.length_append]
  omega

variable [Zero α]

theorem mem_common_enc (x y : List α) (j : Nat) :
    j ∈ arrIntersect (inds (enc x)) (inds (enc y)) ↔ x.getD j 0 ≠ 0 ∧ y.getD j 0 ≠ 0 := by
  rw [(arrIntersect_spec (incFrom_inds (enc_sorted x)).pairwise (incFrom_inds (enc_sorted y)).pairwise).2,
    mem_inds_iff (enc_sorted x) (enc_noZero x), mem_inds_iff (enc_sorted y) (enc_noZero y),
    decode_enc, decode_enc]

/-- `n_features − |arr_union(ind1, ind2)|` is the number of coordinates implicit in both rows -/
theorem implicit_both_enc (x y : List α) (h : x.length = y.length) :
    ((x.length : Int) - ((arrUnion (inds (enc x)) (inds (enc y))).length : Int))
      = (((x.zip y).countP (fun p => decide (p.1 = 0 ∧ p.2 = 0)) : Nat) : Int) := by
  have h1 := arrUnion_length (incFrom_inds (enc_sorted x)).pairwise (incFrom_inds (enc_sorted y)).pairwise
  have h2 : ((inds (enc x)).filter (· ∈ inds (enc y))).length
      = (x.zip y).countP (fun p => p.1 ≠ 0 ∧ p.2 ≠ 0) := isect_count_encFrom 0 x y h
  have h3 := (countP_zip_identities x y h).1
  have h4 : (inds (enc x)).length = x.countP (· ≠ 0) := by
    rw [inds, List.length_map, enc, length_encFrom]
  have h5 : (inds (enc y)).length = y.countP (· ≠ 0) := by
    rw [inds, List.length_map, enc, length_encFrom]
  have h6 := countP_add_countP_not (fun p : α × α => decide (p.1 ≠ 0 ∨ p.2 ≠ 0)) (x.zip y)
  have h7 : (x.zip y).countP (fun p => !decide (p.1 ≠ 0 ∨ p.2 ≠ 0))
      = (x.zip y).countP (fun p => decide (p.1 = 0 ∧ p.2 = 0)) := by
    apply List.countP_congr
    intro p _
    by_cases h1 : p.1 = 0 <;> by_cases h2 : p.2 = 0 <;> simp [h1, h2]
  have h8 : (x.zip y).length = x.length := by simp [h]
  omega

/-- `n_features − nnz` is the number of implicit coordinates of the row -/
theorem implicit_enc (x : List α) :
    ((x.length : Int) - ((enc x).length : Int)) = ((x.countP (fun u => decide (u = 0)) : Nat) : Int) := by
  have h6 := countP_add_countP_not (fun u : α => decide (u ≠ 0)) x
  have h7 : x.countP (fun u => !decide (u ≠ 0)) = x.countP (fun u => decide (u = 0)) := by
    apply List.countP_congr
    intro u _
    by_cases h1 : u = 0 <;> simp [h1]
  rw [enc, length_encFrom]
  omega

end Bookkeeping

/-! ### the three accumulators -/
section Accumulators
variable [CommRing α]

/-- **`norm ** 2`**: shifted stored entries plus `(n_features − nnz)·mu²` is the dense centred
sum of squares — for every constant `mu` -/
theorem corrNormSq_enc (mu : α) (x : List α) :
    corrNormSq mu (enc x) x.length = x.foldl (fun r u => r + (u - mu) * (u - mu)) 0 := by
  unfold corrNormSq normSq shiftV
  rw [List.foldl_map, implicit_enc, Int.cast_natCast]
  have h1 := foldl_encFrom' (fun r v => r + (v - mu) * (v - mu))
    (fun r u => r + (if u = 0 then 0 else (u - mu) * (u - mu)))
    (by intro r; simp) (by intro r v hv; simp [hv]) 0 x (0 : α)
  rw [enc, h1, foldl_add_eq, foldl_add_eq, zero_add, zero_add, mul_comm,
    ← sum_map_ite_const (fun u => decide (u = 0)) (mu * mu) x, sum_map_add]
  congr 1
  apply List.map_congr_left
  intro u _
  by_cases hu : u = 0
  · subst hu; simp
  · simp [hu]

set_option linter.unnecessarySeqFocus false in
/-- **`dot_product`**: the code's four-part accounting (common coordinates; coordinates stored
only in row 1; only in row 2; `n_features − |union|` coordinates stored in neither) is the dense
centred dot product — for all constants `mu_x`, `mu_y` -/
theorem corrDot_enc (mx my : α) (x y : List α) (h : x.length = y.length) :
    corrDot mx my (enc x) (enc y) x.length
      = (x.zip y).foldl (fun r p => r + (p.1 - mx) * (p.2 - my)) 0 := by
  unfold corrDot mulSum
  simp only []
  rw [implicit_both_enc x y h, Int.cast_natCast]
  -- the common coordinates
  rw [enc, enc, mulSum_shift_encFrom mx my 0 x y h 0]
  -- the two correction loops
  have hd1 : ∀ r0 : α,
      (shiftV mx (encFrom 0 x)).foldl
        (fun r p => if p.1 ∈ arrIntersect (inds (encFrom 0 x)) (inds (encFrom 0 y)) then r else r - p.2 * my) r0
      = (x.zip y).foldl (fun r p => r + (if p.1 = 0 then 0 else if p.2 ≠ 0 then 0 else -((p.1 - mx) * my))) r0 := by
    intro r0
    unfold shiftV
    rw [List.foldl_map]
    refine foldl_encFrom_zip
      (fun r i v => if i ∈ arrIntersect (inds (encFrom 0 x)) (inds (encFrom 0 y)) then r else r - (v - mx) * my)
      (fun r u w => r + (if u = 0 then 0 else if w ≠ 0 then 0 else -((u - mx) * my)))
      (by intro r w; simp) 0 x y h ?_ r0
    intro r j hx hy hne
    have hm := mem_common_enc x y j
    rw [List.getD_eq_getElem?_getD, List.getD_eq_getElem?_getD, List.getElem?_eq_getElem hx,
      List.getElem?_eq_getElem hy] at hm
    simp only [Option.getD_some, enc] at hm
    simp only [Nat.zero_add, hm]
    by_cases hw : y[j] = 0 <;> simp [hne, hw, sub_eq_add_neg]
  have hd2 : ∀ r0 : α,
      (shiftV my (encFrom 0 y)).foldl
        (fun r p => if p.1 ∈ arrIntersect (inds (encFrom 0 x)) (inds (encFrom 0 y)) then r else r - p.2 * mx) r0
      = (x.zip y).foldl (fun r p => r + (if p.2 = 0 then 0 else if p.1 ≠ 0 then 0 else -((p.2 - my) * mx))) r0 := by
    intro r0
    unfold shiftV
    rw [List.foldl_map]
    have := foldl_encFrom_zip
      (fun r i v => if i ∈ arrIntersect (inds (encFrom 0 x)) (inds (encFrom 0 y)) then r else r - (v - my) * mx)
      (fun r u w => r + (if u = 0 then 0 else if w ≠ 0 then 0 else -((u - my) * mx)))
      (by intro r w; simp) 0 y x h.symm ?_ r0
    · rw [this]
      exact foldl_zip_swap (fun r u w => r + (if u = 0 then 0 else if w ≠ 0 then 0 else -((u - my) * mx))) x y r0
    · intro r j hy hx hne
      have hm := mem_common_enc x y j
      rw [List.getD_eq_getElem?_getD, List.getD_eq_getElem?_getD, List.getElem?_eq_getElem hx,
        List.getElem?_eq_getElem hy] at hm
      simp only [Option.getD_some, enc] at hm
      simp only [Nat.zero_add, hm]
      by_cases hw : x[j] = 0 <;> simp [hne, hw, sub_eq_add_neg]
  rw [hd1, hd2, foldl_add_eq, foldl_add_eq, foldl_add_eq, foldl_add_eq, zero_add, zero_add,
    ← sum_map_ite_const (fun p : α × α => decide (p.1 = 0 ∧ p.2 = 0)) (mx * my) (x.zip y),
    sum_map_add, sum_map_add, sum_map_add]
  congr 1
  apply List.map_congr_left
  intro p _
  by_cases h1 : p.1 = 0 <;> by_cases h2 : p.2 = 0 <;> simp [h1, h2] <;> ring

end Accumulators

/-- **the three accumulators of `sparse_correlation` are those of the dense `correlation`** -/
theorem correlationParts_enc [Field α] (x y : List α) (h : x.length = y.length) :
    correlationParts (enc x) (enc y) x.length = Dense.correlationParts x y := by
  unfold correlationParts Dense.correlationParts
  simp only [dataSum_enc]
  rw [corrDot_enc _ _ x y h, corrNormSq_enc, h, corrNormSq_enc]

/-! ### the returned values, the square root being any function that is multiplicative and
vanishes only at 0 on non-negative arguments (e.g. `Real.sqrt`) -/
section Final
variable [Field α] [LinearOrder α] [IsStrictOrderedRing α]

/-- what is used of `sqrt` -/
structure IsSqrt (s : α → α) : Prop where
  mul : ∀ u v : α, 0 ≤ u → 0 ≤ v → s (u * v) = s u * s v
  eq_zero : ∀ u : α, 0 ≤ u → (s u = 0 ↔ u = 0)

theorem foldl_sq_nonneg {γ : Type} (f : γ → α) (l : List γ) (r0 : α) (h0 : 0 ≤ r0) :
    0 ≤ l.foldl (fun r p => r + f p * f p) r0 := by
  induction l generalizing r0 with
  | nil => exact h0
  | cons p l ih => exact ih _ (add_nonneg h0 (mul_self_nonneg _))

theorem cosine_enc {s : α → α} (hs : IsSqrt s) (x y : List α) (h : x.length = y.length) :
    cosine s (enc x) (enc y) = Dense.cosine s x y := by
  have hx : 0 ≤ Dense.normSq x := foldl_sq_nonneg (fun v => v) x 0 le_rfl
  have hy : 0 ≤ Dense.normSq y := foldl_sq_nonneg (fun v => v) y 0 le_rfl
  unfold cosine Dense.cosine
  simp only [mulSum_enc x y h, normSq_enc, hs.eq_zero _ hx, hs.eq_zero _ hy, hs.mul _ _ hx hy]

theorem encFrom_eq_nil {k : Nat} {x : List α} (h : encFrom k x = []) : ∀ u ∈ x, u = 0 := by
  have := length_encFrom k x
  rw [h, List.length_nil] at this
  intro u hu
  by_contra hne
  have hpos : 0 < x.countP (· ≠ 0) := List.countP_pos_iff.2 ⟨u, hu, by simpa using hne⟩
  omega

theorem foldl_zero_of_all_zero {γ : Type} (f : γ → α) (l : List γ) (h : ∀ p ∈ l, f p = 0) :
    l.foldl (fun r p => r + f p) 0 = 0 := by
  induction l with
  | nil => rfl
  | cons p l ih =>
    rw [List.foldl_cons, h p (List.mem_cons_self ..), add_zero]
    exact ih (fun q hq => h q (List.mem_cons_of_mem _ hq))

/-- **`sparse_correlation` = dense `correlation`** when neither row is empty -/
theorem correlation_enc {s : α → α} (hs : IsSqrt s) (x y : List α) (h : x.length = y.length)
    (hx : enc x ≠ []) (hy : enc y ≠ []) :
    correlation s (enc x) (enc y) x.length = Dense.correlation s x y := by
  unfold correlation Dense.correlation
  rw [correlationParts_enc x y h]
  have h1 : (enc x).isEmpty = false := by cases hh : enc x <;> simp_all
  have h2 : (enc y).isEmpty = false := by cases hh : enc y <;> simp_all
  have n1 : 0 ≤ (Dense.correlationParts x y).2.1 :=
    foldl_sq_nonneg (fun u => u - Dense.sum x / (x.length : α)) x 0 le_rfl
  have n2 : 0 ≤ (Dense.correlationParts x y).2.2 :=
    foldl_sq_nonneg (fun v => v - Dense.sum y / (x.length : α)) y 0 le_rfl
  simp only [h1, h2, Bool.false_eq_true, false_and, false_or, if_false,
    hs.eq_zero _ n1, hs.eq_zero _ n2, hs.mul _ _ n1 n2]

/-- the early returns of `sparse_correlation` on an empty row against the dense kernel on the
corresponding zero vector: the dense kernel has `dot_product = 0` and `norm_x = 0`, hence returns
`0` if the other vector is constant (`norm_y = 0`) and `1` otherwise -/
theorem dense_correlation_of_zero {s : α → α} (x y : List α) (hx : enc x = []) :
    Dense.correlation s x y = if (Dense.correlationParts x y).2.2 = 0 then 0 else 1 := by
  have hz := encFrom_eq_nil (k := 0) hx
  have hsum : Dense.sum x = 0 := foldl_zero_of_all_zero (fun v => v) x hz
  have hdot : (Dense.correlationParts x y).1 = 0 := by
    unfold Dense.correlationParts
    simp only [hsum, zero_div]
    apply foldl_zero_of_all_zero (fun p : α × α => (p.1 - 0) * (p.2 - Dense.sum y / (x.length : α)))
    intro p hp
    rw [hz p.1 (List.of_mem_zip hp).1]; simp
  have hnx : (Dense.correlationParts x y).2.1 = 0 := by
    unfold Dense.correlationParts
    simp only [hsum, zero_div]
    apply foldl_zero_of_all_zero (fun u : α => (u - 0) * (u - 0))
    intro u hu
    rw [hz u hu]; simp
  unfold Dense.correlation
  generalize Dense.correlationParts x y = parts at hdot hnx ⊢
  obtain ⟨d, nx, ny⟩ := parts
  simp only at hdot hnx ⊢
  subst hdot hnx
  by_cases hny : ny = 0 <;> simp [hny]

theorem dense_normSq_of_zero (y : List α) (c : α) (hy : enc y = []) :
    y.foldl (fun r v => r + (v - Dense.sum y / c) * (v - Dense.sum y / c)) 0 = 0 := by
  have hz := encFrom_eq_nil (k := 0) hy
  have hsum : Dense.sum y = 0 := foldl_zero_of_all_zero (fun v => v) y hz
  simp only [hsum, zero_div]
  apply foldl_zero_of_all_zero (fun u : α => (u - 0) * (u - 0))
  intro u hu
  rw [hz u hu]; simp

/-- both rows empty: both kernels return `0` -/
theorem correlation_both_empty {s : α → α} (x y : List α) (hx : enc x = []) (hy : enc y = []) :
    correlation s (enc x) (enc y) x.length = Dense.correlation s x y := by
  rw [dense_correlation_of_zero x y hx]
  have : (Dense.correlationParts x y).2.2 = 0 := dense_normSq_of_zero y _ hy
  rw [if_pos this]
  unfold correlation
  simp [hx, hy]

theorem foldl_absV_nonneg {γ : Type} (f : γ → α) (l : List γ) (r0 : α) (h0 : 0 ≤ r0) :
    0 ≤ l.foldl (fun r p => r + absV (f p)) r0 := by
  induction l generalizing r0 with
  | nil => exact h0
  | cons p l ih => exact ih _ (add_nonneg h0 (absV_nonneg _))

theorem brayCurtis_enc (x y : List α) (h : x.length = y.length) :
    brayCurtis (enc x) (enc y) = Dense.brayCurtis x y := by
  unfold brayCurtis Dense.brayCurtis
  simp only [List.foldl_map, List.isEmpty_map]
  rw [sparseSum_enc x y h, sparseDiff_enc x y h,
    foldl_enc (fun r d => r + absV d) (by intro r; simp [absV_zero]),
    foldl_enc (fun r d => r + absV d) (by intro r; simp [absV_zero]),
    ← foldl_zip (fun r d => r + absV d) (· + ·) x y 0,
    ← foldl_zip (fun r d => r + absV d) (· - ·) x y 0]
  have hden : 0 ≤ (x.zip y).foldl (fun r p => r + absV (p.1 + p.2)) 0 :=
    foldl_absV_nonneg (fun p : α × α => p.1 + p.2) _ 0 le_rfl
  by_cases hE : (enc (List.zipWith (· + ·) x y)).isEmpty
  · -- no stored sum: every `x[i] + y[i]` is 0, the dense denominator is 0
    rw [if_pos hE]
    have hz := encFrom_eq_nil (k := 0) (List.isEmpty_iff.1 hE)
    have : (x.zip y).foldl (fun r p => r + absV (p.1 + p.2)) 0 = 0 := by
      rw [foldl_zip (fun r d => r + absV d) (· + ·) x y 0]
      exact foldl_zero_of_all_zero (fun d => absV d) _ (fun d hd => by rw [hz d hd, absV_zero])
    rw [this, if_neg (lt_irrefl 0)]
  · rw [if_neg hE]
    by_cases hd : (x.zip y).foldl (fun r p => r + absV (p.1 + p.2)) 0 = 0
    · rw [if_pos hd, hd, if_neg (lt_irrefl 0)]
    · rw [if_neg hd, if_pos (lt_of_le_of_ne hden (Ne.symm hd))]

theorem absV_eq_zero_iff (v : α) : absV v = 0 ↔ v = 0 := by
  rw [absV_eq_abs, abs_eq_zero]

theorem canberra_lists (x y : List α) :
    List.zipWith (· * ·) ((List.zipWith (· - ·) x y).map absV)
        ((List.zipWith (· + ·) (x.map absV) (y.map absV)).map (fun d => 1 / d))
      = (x.zip y).map (fun p => absV (p.1 - p.2) * (1 / (absV p.1 + absV p.2))) := by
  induction x generalizing y with
  | nil => simp
  | cons u s ih =>
    cases y with
    | nil => simp
    | cons v t => simp only [List.zipWith_cons_cons, List.map_cons, List.zip_cons_cons, ih]

theorem map_enc (f : α → α) (hf : ∀ v, f v = 0 ↔ v = 0) (z : List α) :
    (enc z).map (fun p => (p.1, f p.2)) = enc (z.map f) := map_encFrom f hf 0 z

theorem canberra_enc (x y : List α) (h : x.length = y.length) :
    canberra (enc x) (enc y) = Dense.canberra x y := by
  unfold canberra Dense.canberra
  simp only []
  rw [map_enc absV absV_eq_zero_iff x, map_enc absV absV_eq_zero_iff y,
    sparseSum_enc _ _ (by simpa using h), sparseDiff_enc x y h,
    map_enc (fun d => 1 / d) (by intro v; simp), map_enc absV absV_eq_zero_iff,
    sparseMul_enc _ _ (by simp [h]), foldl_enc (fun r d => r + d) (by intro r; simp),
    canberra_lists, List.foldl_map]
  congr 1
  funext r p
  have hd : 0 ≤ absV p.1 + absV p.2 := add_nonneg (absV_nonneg _) (absV_nonneg _)
  by_cases hpos : 0 < absV p.1 + absV p.2
  · rw [if_pos hpos, mul_one_div]
  · have : absV p.1 + absV p.2 = 0 := le_antisymm (not_lt.1 hpos) hd
    rw [if_neg hpos, this]; simp

end Final

end Pynn.Sparse
