import PynnVerif.Proofs.Sparse

/-! # Index-array kernels: `fast_intersection_size`, `arr_union`, `arr_intersect` (helpers for C08) -/
set_option linter.unusedSectionVars false
namespace Pynn.Sparse

/-- strictly increasing, first element at least `lo` -/
def IncFrom (lo : Nat) : List Nat → Prop
  | [] => True
  | i :: t => lo ≤ i ∧ IncFrom (i + 1) t

theorem IncFrom.mono {lo lo' : Nat} {l : List Nat} (h : IncFrom lo l) (hl : lo' ≤ lo) : IncFrom lo' l := by
  cases l with
  | nil => trivial
  | cons i t => exact ⟨Nat.le_trans hl h.1, h.2⟩

theorem IncFrom.lb {lo : Nat} {l : List Nat} (h : IncFrom lo l) : ∀ x ∈ l, lo ≤ x := by
  induction l generalizing lo with
  | nil => intro x hx; cases hx
  | cons i t ih =>
    intro x hx
    rcases List.mem_cons.1 hx with rfl | hx
    · exact h.1
    · have := ih h.2 x hx; have := h.1; omega

theorem IncFrom.pairwise {lo : Nat} {l : List Nat} (h : IncFrom lo l) : l.Pairwise (· < ·) := by
  induction l generalizing lo with
  | nil => exact List.Pairwise.nil
  | cons i t ih =>
    exact List.Pairwise.cons (fun x hx => by have := h.2.lb x hx; omega) (ih h.2)

theorem incFrom_of_pairwise {lo : Nat} {l : List Nat} (hp : l.Pairwise (· < ·)) (hl : ∀ x ∈ l, lo ≤ x) :
    IncFrom lo l := by
  induction l generalizing lo with
  | nil => trivial
  | cons i t ih =>
    rw [List.pairwise_cons] at hp
    exact ⟨hl i (List.mem_cons_self ..), ih hp.2 (fun x hx => hp.1 x hx)⟩

theorem IncFrom.nodup {lo : Nat} {l : List Nat} (h : IncFrom lo l) : l.Nodup :=
  h.pairwise.imp (fun hlt => Nat.ne_of_lt hlt)

theorem incFrom_inds {α : Type} {lo : Nat} {a : SVec α} (h : SortedFrom lo a) : IncFrom lo (inds a) := by
  induction a generalizing lo with
  | nil => trivial
  | cons p t ih => exact ⟨h.1, ih h.2⟩

theorem sortedFrom_of_incFrom {α : Type} {lo : Nat} {a : SVec α} (h : IncFrom lo (inds a)) :
    SortedFrom lo a := by
  induction a generalizing lo with
  | nil => trivial
  | cons p t ih => exact ⟨h.1, ih h.2⟩

/-- `Sorted` says: the index array is strictly increasing -/
theorem sorted_iff_pairwise {α : Type} (a : SVec α) : SortedFrom 0 a ↔ (inds a).Pairwise (· < ·) :=
  ⟨fun h => (incFrom_inds h).pairwise,
   fun h => sortedFrom_of_incFrom (incFrom_of_pairwise h (fun _ _ => Nat.zero_le _))⟩

/-! ### `fast_intersection_size` -/

theorem isectLoop_eq (r : Nat) (a b : List Nat) :
    ∀ lo, IncFrom lo a → IncFrom lo b → isectLoop r a b = r + (a.filter (· ∈ b)).length := by
  fun_induction isectLoop r a b with
  | case1 r a j b r1 hA =>
    intro lo _ _
    obtain rfl : a = [] := List.isEmpty_iff.1 hA
    simp [r1]
  | case2 r a j b r1 hA hB =>
    intro lo ha _
    obtain rfl : b = [] := List.isEmpty_iff.1 hB
    have : a.filter (· ∈ [j]) = [] := by
      rw [List.filter_eq_nil_iff]
      intro x hx; have := ha.2.lb x hx; simp; omega
    rw [List.filter_cons_of_pos (by simp), this]; rfl
  | case3 r a j b r1 hA hB ih =>
    intro lo ha hb
    rw [ih (j + 1) ha.2 hb.2]
    have : a.filter (· ∈ j :: b) = a.filter (· ∈ b) := by
      apply List.filter_congr
      intro x hx; have := ha.2.lb x hx
      simp only [List.mem_cons, decide_eq_decide]
      constructor
      · rintro (h | h)
        · omega
        · exact h
      · exact Or.inr
    rw [List.filter_cons_of_pos (by simp), this, List.length_cons]; simp only [r1]; omega
  | case4 r j1 a j2 b hne hlt ih =>
    intro lo ha hb
    rw [ih (j1 + 1) ha.2 ⟨hlt.1, hb.2⟩]
    have : ¬ j1 ∈ j2 :: b := by
      intro hm
      have := IncFrom.lb (lo := j2) (l := j2 :: b) ⟨Nat.le_refl _, hb.2⟩ j1 hm
      omega
    rw [List.filter_cons_of_neg (by simpa using this)]
  | case5 r j1 a j2 b hne h1 h2 ih =>
    intro lo ha hb
    have ha' : IncFrom (j2 + 1) (j1 :: a) := ⟨h2.1, ha.2⟩
    rw [ih (j2 + 1) ha' hb.2]
    congr 2
    apply List.filter_congr
    intro x hx; have := ha'.lb x hx
    simp only [List.mem_cons, decide_eq_decide]
    constructor
    · exact Or.inr
    · rintro (h | h)
      · omega
      · exact h
  | case6 r j1 a j2 b hne h1 h2 =>
    intro lo ha hb
    have : (j1 :: a).filter (· ∈ j2 :: b) = [] := by
      rw [List.filter_eq_nil_iff]
      intro x hx hm
      have hm : x ∈ j2 :: b := by simpa using hm
      rcases Nat.lt_or_gt_of_ne hne with hlt | hgt
      · have hA : a = [] := by
          cases a with
          | nil => rfl
          | cons _ _ => exact (h1 ⟨hlt, by simp⟩).elim
        subst hA
        have hx : x = j1 := by simpa using hx
        have := IncFrom.lb (lo := j2) (l := j2 :: b) ⟨Nat.le_refl _, hb.2⟩ x hm
        omega
      · have hB : b = [] := by
          cases b with
          | nil => rfl
          | cons _ _ => exact (h2 ⟨hgt, by simp⟩).elim
        subst hB
        have hx2 : x = j2 := by simpa using hm
        have := IncFrom.lb (lo := j1) (l := j1 :: a) ⟨Nat.le_refl _, ha.2⟩ x hx
        omega
    rw [this]; rfl
  | case7 r a b hx =>
    intro lo _ _
    cases a with
    | nil => simp
    | cons p a =>
      cases b with
      | nil => simp
      | cons q b => exact (hx _ _ _ _ rfl rfl).elim

/-- `fast_intersection_size` on strictly increasing arrays counts the common elements -/
theorem intersectionSize_eq {lo : Nat} {a b : List Nat} (ha : IncFrom lo a) (hb : IncFrom lo b) :
    intersectionSize a b = (a.filter (· ∈ b)).length := by
  unfold intersectionSize
  split
  · rename_i h
    rcases h with h | h
    · rw [List.isEmpty_iff.1 h]; rfl
    · rw [List.isEmpty_iff.1 h]
      have : a.filter (· ∈ ([] : List Nat)) = [] := List.filter_eq_nil_iff.2 (by simp)
      rw [this]; rfl
  · rw [isectLoop_eq 0 a b lo ha hb, Nat.zero_add]

/-! ### sort-based kernels -/

theorem insertSorted_perm (x : Nat) (l : List Nat) : (insertSorted x l).Perm (x :: l) := by
  induction l with
  | nil => exact List.Perm.refl _
  | cons y t ih =>
    unfold insertSorted; split
    · exact List.Perm.refl _
    · exact (List.Perm.cons y ih).trans (List.Perm.swap x y t)

theorem sortNat_perm (l : List Nat) : (sortNat l).Perm l := by
  induction l with
  | nil => exact List.Perm.refl _
  | cons x t ih => exact (insertSorted_perm x _).trans (List.Perm.cons x ih)

theorem insertSorted_sorted (x : Nat) (l : List Nat) (h : l.Pairwise (· ≤ ·)) :
    (insertSorted x l).Pairwise (· ≤ ·) := by
  induction l with
  | nil => exact List.pairwise_singleton _ _
  | cons y t ih =>
    obtain ⟨h1, h2⟩ := List.pairwise_cons.1 h
    unfold insertSorted; split
    · rename_i hxy
      refine List.Pairwise.cons (fun w hw => ?_) h
      rcases List.mem_cons.1 hw with rfl | hw
      · exact hxy
      · exact Nat.le_trans hxy (h1 w hw)
    · rename_i hxy
      refine List.Pairwise.cons (fun w hw => ?_) (ih h2)
      rcases List.mem_cons.1 ((insertSorted_perm x t).mem_iff.1 hw) with rfl | hw
      · omega
      · exact h1 w hw

theorem sorted_mergeSort' (l : List Nat) : (sortNat l).Pairwise (· ≤ ·) := by
  induction l with
  | nil => exact List.Pairwise.nil
  | cons x t ih => exact insertSorted_sorted x _ ih

theorem mem_uniqAdj (l : List Nat) (x : Nat) : x ∈ uniqAdj l ↔ x ∈ l := by
  fun_induction uniqAdj l with
  | case1 => rfl
  | case2 y => rfl
  | case3 y t ih => rw [ih]; simp
  | case4 y z t hne ih => rw [List.mem_cons, ih, List.mem_cons (a := x) (b := y)]

theorem uniqAdj_inc (l : List Nat) : l.Pairwise (· ≤ ·) → (uniqAdj l).Pairwise (· < ·) := by
  fun_induction uniqAdj l with
  | case1 => intro _; exact List.Pairwise.nil
  | case2 y => intro _; exact List.pairwise_singleton _ _
  | case3 y t ih => intro h; exact ih (List.pairwise_cons.1 h).2
  | case4 y z t hne ih =>
    intro h
    obtain ⟨h1, h2⟩ := List.pairwise_cons.1 h
    refine List.Pairwise.cons (fun w hw => ?_) (ih h2)
    rw [mem_uniqAdj] at hw
    have hyz : y ≤ z := h1 z (List.mem_cons_self ..)
    have hzw : z ≤ w := by
      rcases List.mem_cons.1 hw with rfl | hw
      · exact Nat.le_refl _
      · exact (List.pairwise_cons.1 h2).1 w hw
    omega

/-- `arr_unique` returns the distinct elements in increasing order -/
theorem arrUnique_spec (l : List Nat) :
    (arrUnique l).Pairwise (· < ·) ∧ ∀ x, x ∈ arrUnique l ↔ x ∈ l := by
  refine ⟨uniqAdj_inc _ (sorted_mergeSort' l), fun x => ?_⟩
  unfold arrUnique
  rw [mem_uniqAdj, (sortNat_perm l).mem_iff]

/-- `arr_union` of two strictly increasing arrays: strictly increasing, and exactly the union -/
theorem arrUnion_spec {a b : List Nat} (ha : a.Pairwise (· < ·)) (hb : b.Pairwise (· < ·)) :
    (arrUnion a b).Pairwise (· < ·) ∧ ∀ x, x ∈ arrUnion a b ↔ x ∈ a ∨ x ∈ b := by
  unfold arrUnion
  split
  · rename_i h; rw [List.isEmpty_iff.1 h]; exact ⟨hb, by simp⟩
  · split
    · rename_i h; rw [List.isEmpty_iff.1 h]; exact ⟨ha, by simp⟩
    · exact ⟨(arrUnique_spec _).1, fun x => by rw [(arrUnique_spec _).2, List.mem_append]⟩

/-- in a sorted list, an element occurs among the "equal to the successor" ones one time less
than in the list -/
theorem count_dupAdj (l : List Nat) (x : Nat) : l.Pairwise (· ≤ ·) →
    (dupAdj l).count x = l.count x - 1 := by
  fun_induction dupAdj l with
  | case1 z t ih =>
    intro h
    have h2 := (List.pairwise_cons.1 h).2
    rw [List.count_cons, ih h2, List.count_cons (a := x) (b := z) (l := z :: t)]
    have : 0 < (z :: t).count z := List.count_pos_iff.2 (List.mem_cons_self ..)
    by_cases hzx : z = x
    · subst hzx; simp
    · simp [hzx]
  | case2 y z t hne' ih =>
    intro h
    have hne : y ≠ z := fun e => hne' e.symm
    obtain ⟨h1, h2⟩ := List.pairwise_cons.1 h
    rw [ih h2, List.count_cons (a := x) (b := y)]
    by_cases hyx : y = x
    · subst hyx
      -- `y` does not occur in `z :: t`: everything there is `≥ z > y`
      have hcnt : (z :: t).count y = 0 := by
        rw [List.count_eq_zero]
        intro hm
        have hyz : y ≤ z := h1 z (List.mem_cons_self ..)
        rcases List.mem_cons.1 hm with rfl | hm
        · exact hne rfl
        · have := (List.pairwise_cons.1 h2).1 y hm; omega
      simp [hcnt]
    · simp [hyx]
  | case3 l hl =>
    intro _
    match l, hl with
    | [], _ => simp
    | [y], _ => by_cases h : y = x <;> simp [h]
    | y :: z :: t, hl => exact (hl y z t rfl).elim

/-- `arr_intersect` of two strictly increasing arrays: strictly increasing, and exactly the
common elements -/
theorem arrIntersect_spec {a b : List Nat} (ha : a.Pairwise (· < ·)) (hb : b.Pairwise (· < ·)) :
    (arrIntersect a b).Pairwise (· < ·) ∧ ∀ x, x ∈ arrIntersect a b ↔ x ∈ a ∧ x ∈ b := by
  have hna : a.Nodup := ha.imp (fun h => Nat.ne_of_lt h)
  have hnb : b.Nodup := hb.imp (fun h => Nat.ne_of_lt h)
  have hs := sorted_mergeSort' (a ++ b)
  have hcount : ∀ x, (arrIntersect a b).count x = a.count x + b.count x - 1 := by
    intro x
    unfold arrIntersect
    rw [count_dupAdj _ x hs, (sortNat_perm _).count_eq, List.count_append]
  have hle : ∀ x, a.count x ≤ 1 ∧ b.count x ≤ 1 := fun x =>
    ⟨List.nodup_iff_count.1 hna x, List.nodup_iff_count.1 hnb x⟩
  have hmem : ∀ x, x ∈ arrIntersect a b ↔ x ∈ a ∧ x ∈ b := by
    intro x
    rw [← List.count_pos_iff, hcount, ← List.count_pos_iff, ← List.count_pos_iff]
    have := hle x; omega
  refine ⟨?_, hmem⟩
  -- sorted (sublist of a sorted list) and without repetition
  have hsub : (arrIntersect a b).Pairwise (· ≤ ·) := by
    unfold arrIntersect
    have : ∀ l : List Nat, (dupAdj l).Sublist l := by
      intro l
      fun_induction dupAdj l with
      | case1 z t ih => exact ih.cons_cons _
      | case2 y z t hne ih => exact ih.cons _
      | case3 l hl => exact List.nil_sublist _
    exact hs.sublist (this _)
  have hnd : (arrIntersect a b).Nodup := by
    rw [List.nodup_iff_count]
    intro x; rw [hcount]; have := hle x; omega
  have := hsub.and hnd
  exact this.imp (fun ⟨h1, h2⟩ => Nat.lt_of_le_of_ne h1 h2)

end Pynn.Sparse
