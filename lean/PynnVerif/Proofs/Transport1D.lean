import PynnVerif.Proofs.Transport
import Mathlib.Order.Interval.Finset.Fin
import Mathlib.Algebra.Order.BigOperators.Ring.Finset

/-!
# The transport LP on the line: ground cost `|i - j|`

`w1 a b = Σ_k |F k - G k|` (the value `distances.wasserstein_1d(p=1)` computes from the two
normalised cumulative sums) is a lower bound for the cost of *every* plan (each threshold `k`
is crossed by at least `|F k - G k|` mass, and `|i - j|` counts the thresholds between `i` and
`j`), and it is attained by the comonotone coupling
`g i j = Δ_i Δ_j min (A i) (B j)` (`A`, `B` the partial sums).
-/
namespace Pynn.Transport
open Finset BigOperators
variable {n : ℕ}

/-- ground cost `|i - j|` -/
def absCost : Fin n → Fin n → ℚ := fun i j => |((i : ℕ) : ℚ) - ((j : ℕ) : ℚ)|
/-- cumulative distribution `F k = Σ_{i ≤ k} a i` -/
def cdf (a : Fin n → ℚ) (k : Fin n) : ℚ := ∑ i, if i ≤ k then a i else 0
/-- the 1-D closed form `Σ_k |F k - G k|` -/
def w1 (a b : Fin n → ℚ) : ℚ := ∑ k, |cdf a k - cdf b k|

/-- does threshold `k` separate `i` and `j`? -/
def cut (k i j : Fin n) : ℚ := if (i ≤ k ∧ k < j) ∨ (j ≤ k ∧ k < i) then 1 else 0

theorem cut_eq_abs_ind (k i j : Fin n) :
    cut k i j = |(if i ≤ k then (1:ℚ) else 0) - (if j ≤ k then 1 else 0)| := by
  unfold cut
  by_cases h1 : i ≤ k <;> by_cases h2 : j ≤ k <;> simp [h1, h2, not_le.mp, not_lt.mpr]

theorem absCost_eq_sum_cut (i j : Fin n) : absCost i j = ∑ k, cut k i j := by
  unfold absCost cut
  rw [Finset.sum_boole]
  rcases le_total i j with h | h
  · have : (Finset.univ.filter fun k : Fin n => (i ≤ k ∧ k < j) ∨ (j ≤ k ∧ k < i)) = Finset.Ico i j := by
      ext k; simp only [Finset.mem_filter, Finset.mem_univ, true_and, Finset.mem_Ico]
      constructor
      · rintro (h' | h')
        · exact h'
        · exact absurd (lt_of_le_of_lt h'.1 h'.2) (not_lt.mpr h)
      · exact fun h' => Or.inl h'
    rw [this, Fin.card_Ico, Nat.cast_sub h, abs_sub_comm, abs_of_nonneg]
    have : ((i:ℕ):ℚ) ≤ ((j:ℕ):ℚ) := by exact_mod_cast h
    linarith
  · have : (Finset.univ.filter fun k : Fin n => (i ≤ k ∧ k < j) ∨ (j ≤ k ∧ k < i)) = Finset.Ico j i := by
      ext k; simp only [Finset.mem_filter, Finset.mem_univ, true_and, Finset.mem_Ico]
      constructor
      · rintro (h' | h')
        · exact absurd (lt_of_le_of_lt h'.1 h'.2) (not_lt.mpr h)
        · exact h'
      · exact fun h' => Or.inr h'
    rw [this, Fin.card_Ico, Nat.cast_sub h, abs_of_nonneg]
    have : ((j:ℕ):ℚ) ≤ ((i:ℕ):ℚ) := by exact_mod_cast h
    linarith

theorem cost_abs_eq_sum_cut (g : Fin n → Fin n → ℚ) :
    cost absCost g = ∑ k, ∑ i, ∑ j, cut k i j * g i j := by
  unfold cost
  simp only [absCost_eq_sum_cut, Finset.sum_mul]
  calc ∑ i, ∑ j, ∑ k, cut k i j * g i j = ∑ i, ∑ k, ∑ j, cut k i j * g i j := by
        apply Finset.sum_congr rfl; intro i _; exact Finset.sum_comm
    _ = ∑ k, ∑ i, ∑ j, cut k i j * g i j := Finset.sum_comm

theorem cdf_diff_eq {a b : Fin n → ℚ} {g : Fin n → Fin n → ℚ} (hg : Feasible a b g) (k : Fin n) :
    cdf a k - cdf b k
      = ∑ i, ∑ j, ((if i ≤ k then (1:ℚ) else 0) - (if j ≤ k then 1 else 0)) * g i j := by
  have h1 : cdf a k = ∑ i, ∑ j, (if i ≤ k then (1:ℚ) else 0) * g i j := by
    unfold cdf; apply Finset.sum_congr rfl; intro i _
    rw [← Finset.mul_sum, hg.row i]; split_ifs <;> simp
  have h2 : cdf b k = ∑ i, ∑ j, (if j ≤ k then (1:ℚ) else 0) * g i j := by
    unfold cdf; rw [Finset.sum_comm]; apply Finset.sum_congr rfl; intro j _
    rw [← Finset.mul_sum, hg.col j]; split_ifs <;> simp
  rw [h1, h2, ← Finset.sum_sub_distrib]
  apply Finset.sum_congr rfl; intro i _
  rw [← Finset.sum_sub_distrib]
  apply Finset.sum_congr rfl; intro j _
  ring

/-- every plan pays at least `|F k - G k|` across threshold `k` -/
theorem cut_lower {a b : Fin n → ℚ} {g : Fin n → Fin n → ℚ} (hg : Feasible a b g) (k : Fin n) :
    |cdf a k - cdf b k| ≤ ∑ i, ∑ j, cut k i j * g i j := by
  rw [cdf_diff_eq hg k]
  refine (Finset.abs_sum_le_sum_abs _ _).trans (Finset.sum_le_sum fun i _ => ?_)
  refine (Finset.abs_sum_le_sum_abs _ _).trans (Finset.sum_le_sum fun j _ => ?_)
  rw [abs_mul, abs_of_nonneg (hg.nonneg i j), cut_eq_abs_ind]

theorem w1_le_cost {a b : Fin n → ℚ} {g : Fin n → Fin n → ℚ} (hg : Feasible a b g) :
    w1 a b ≤ cost absCost g := by
  rw [cost_abs_eq_sum_cut]
  exact Finset.sum_le_sum fun k _ => cut_lower hg k


/-- partial sums `A s = Σ_{i<s} a i` (`s : ℕ`) -/
def psum (a : Fin n → ℚ) (s : ℕ) : ℚ := ∑ i : Fin n, if (i : ℕ) < s then a i else 0

theorem psum_zero (a : Fin n → ℚ) : psum a 0 = 0 := by simp [psum]
theorem psum_n (a : Fin n → ℚ) : psum a n = ∑ i, a i := by simp [psum]
theorem cdf_eq_psum (a : Fin n → ℚ) (k : Fin n) : cdf a k = psum a (k + 1) := by
  unfold cdf psum
  apply Finset.sum_congr rfl; intro i _
  simp only [Fin.le_def, Nat.lt_succ_iff]
theorem psum_mono (a : Fin n → ℚ) (ha : ∀ i, 0 ≤ a i) {s t : ℕ} (h : s ≤ t) :
    psum a s ≤ psum a t := by
  unfold psum
  apply Finset.sum_le_sum; intro i _
  by_cases h1 : (i : ℕ) < s
  · have h2 : (i : ℕ) < t := lt_of_lt_of_le h1 h
    simp [h1, h2]
  · by_cases h2 : (i : ℕ) < t <;> simp [h1, h2, ha]
theorem psum_nonneg (a : Fin n → ℚ) (ha : ∀ i, 0 ≤ a i) (s : ℕ) : 0 ≤ psum a s := by
  rw [← psum_zero a]; exact psum_mono a ha (Nat.zero_le s)
theorem psum_le_total (a : Fin n → ℚ) (ha : ∀ i, 0 ≤ a i) (s : ℕ) : psum a s ≤ ∑ i, a i := by
  unfold psum
  apply Finset.sum_le_sum; intro i _
  split_ifs <;> simp [ha]

theorem psum_telescope (F : ℕ → ℚ) (s : ℕ) (hs : s ≤ n) :
    psum (fun i : Fin n => F (i + 1) - F i) s = F s - F 0 := by
  unfold psum
  rw [Fin.sum_univ_eq_sum_range (fun i => if i < s then F (i + 1) - F i else 0) n,
    ← Finset.sum_filter]
  have : (Finset.range n).filter (· < s) = Finset.range s := by
    ext i; simp only [Finset.mem_filter, Finset.mem_range]; omega
  rw [this, Finset.sum_range_sub]

theorem psum_succ_sub (a : Fin n → ℚ) (i : Fin n) : psum a (i + 1) - psum a i = a i := by
  unfold psum
  rw [← Finset.sum_sub_distrib, Finset.sum_eq_single i]
  · simp
  · intro k _ hk
    have hne : (k : ℕ) ≠ i := fun h => hk (Fin.ext h)
    by_cases h1 : (k : ℕ) < i
    · have h2 : (k : ℕ) < i + 1 := by omega
      simp [h1, h2]
    · have h2 : ¬ (k : ℕ) < i + 1 := by omega
      simp [h1, h2]
  · simp

/-- the comonotone (north-west corner) coupling, as the mixed difference of `min (A s) (B t)` -/
def mono (a b : Fin n → ℚ) (i j : Fin n) : ℚ :=
  min (psum a (i + 1)) (psum b (j + 1)) - min (psum a i) (psum b (j + 1))
    - min (psum a (i + 1)) (psum b j) + min (psum a i) (psum b j)

theorem min_supermodular {x x' y y' : ℚ} (hx : x ≤ x') (hy : y ≤ y') :
    0 ≤ min x' y' - min x y' - min x' y + min x y := by
  simp only [min_def]; split_ifs <;> linarith

theorem mono_nonneg (a b : Fin n → ℚ) (ha : ∀ i, 0 ≤ a i) (hb : ∀ j, 0 ≤ b j) (i j : Fin n) :
    0 ≤ mono a b i j :=
  min_supermodular (psum_mono a ha (Nat.le_succ _)) (psum_mono b hb (Nat.le_succ _))

/-- partial row sums of the coupling -/
theorem mono_psum_row (a b : Fin n → ℚ) (_hb : ∀ j, 0 ≤ b j) (ha : ∀ i, 0 ≤ a i) (i : Fin n) (t : ℕ)
    (ht : t ≤ n) :
    psum (mono a b i) t = min (psum a (i + 1)) (psum b t) - min (psum a i) (psum b t) := by
  have h := psum_telescope (n := n) (fun t => min (psum a (i + 1)) (psum b t) - min (psum a i) (psum b t)) t ht
  have e : mono a b i = fun j : Fin n =>
      (fun t => min (psum a (i + 1)) (psum b t) - min (psum a i) (psum b t)) (j + 1)
        - (fun t => min (psum a (i + 1)) (psum b t) - min (psum a i) (psum b t)) j := by
    funext j; simp only [mono]; ring
  rw [e, h, psum_zero, min_eq_right (psum_nonneg a ha _), min_eq_right (psum_nonneg a ha _)]
  ring

theorem mono_psum_both (a b : Fin n → ℚ) (ha : ∀ i, 0 ≤ a i) (hb : ∀ j, 0 ≤ b j) (s t : ℕ)
    (hs : s ≤ n) (ht : t ≤ n) :
    psum (fun i => psum (mono a b i) t) s = min (psum a s) (psum b t) := by
  have h := psum_telescope (n := n) (fun s => min (psum a s) (psum b t)) s hs
  have e : (fun i : Fin n => psum (mono a b i) t) = fun i : Fin n =>
      (fun s => min (psum a s) (psum b t)) (i + 1) - (fun s => min (psum a s) (psum b t)) i := by
    funext i; exact mono_psum_row a b hb ha i t ht
  rw [e, h, psum_zero, min_eq_left (psum_nonneg b hb _)]
  ring

theorem mono_symm (a b : Fin n → ℚ) (i j : Fin n) : mono a b i j = mono b a j i := by
  simp only [mono, min_comm (psum a _) (psum b _)]; ring

theorem mono_feasible (a b : Fin n → ℚ) (ha : ∀ i, 0 ≤ a i) (hb : ∀ j, 0 ≤ b j)
    (hab : ∑ i, a i = ∑ j, b j) : Feasible a b (mono a b) := by
  refine ⟨mono_nonneg a b ha hb, ?_, ?_⟩
  · intro i
    rw [← psum_n (mono a b i), mono_psum_row a b hb ha i n le_rfl, psum_n, ← hab,
      min_eq_left (psum_le_total a ha _), min_eq_left (psum_le_total a ha _), psum_succ_sub]
  · intro j
    have e : ∀ i, mono a b i j = mono b a j i := fun i => mono_symm a b i j
    simp only [e]
    rw [← psum_n (mono b a j), mono_psum_row b a ha hb j n le_rfl, psum_n, hab,
      min_eq_left (psum_le_total b hb _), min_eq_left (psum_le_total b hb _), psum_succ_sub]

theorem cut_eq_ind (k i j : Fin n) :
    cut k i j = (if i ≤ k then (1:ℚ) else 0) + (if j ≤ k then 1 else 0)
      - 2 * ((if i ≤ k then (1:ℚ) else 0) * (if j ≤ k then 1 else 0)) := by
  unfold cut
  by_cases h1 : i ≤ k <;> by_cases h2 : j ≤ k <;> simp [h1, h2, not_le.mp, not_lt.mpr]
  norm_num

theorem cut_mass {a b : Fin n → ℚ} {g : Fin n → Fin n → ℚ} (hg : Feasible a b g) (k : Fin n) :
    ∑ i, ∑ j, cut k i j * g i j
      = cdf a k + cdf b k - 2 * psum (fun i => psum (g i) (k + 1)) (k + 1) := by
  have h1 : cdf a k = ∑ i, ∑ j, (if i ≤ k then (1:ℚ) else 0) * g i j := by
    unfold cdf; apply Finset.sum_congr rfl; intro i _
    rw [← Finset.mul_sum, hg.row i]; split_ifs <;> simp
  have h2 : cdf b k = ∑ i, ∑ j, (if j ≤ k then (1:ℚ) else 0) * g i j := by
    unfold cdf; rw [Finset.sum_comm]; apply Finset.sum_congr rfl; intro j _
    rw [← Finset.mul_sum, hg.col j]; split_ifs <;> simp
  have h3 : psum (fun i => psum (g i) (k + 1)) (k + 1)
      = ∑ i, ∑ j, ((if i ≤ k then (1:ℚ) else 0) * (if j ≤ k then 1 else 0)) * g i j := by
    unfold psum
    apply Finset.sum_congr rfl; intro i _
    by_cases hi : i ≤ k
    · have hi' : (i : ℕ) < k + 1 := Nat.lt_succ_iff.mpr hi
      simp only [hi, hi', if_true, one_mul]
      apply Finset.sum_congr rfl; intro j _
      by_cases hj : j ≤ k
      · have hj' : (j : ℕ) < k + 1 := Nat.lt_succ_iff.mpr hj
        simp [hj, hj']
      · have hj' : ¬ (j : ℕ) < k + 1 := fun h => hj (Nat.lt_succ_iff.mp h)
        simp [hj, hj']
    · have hi' : ¬ (i : ℕ) < k + 1 := fun h => hi (Nat.lt_succ_iff.mp h)
      simp [hi, hi']
  rw [h1, h2, h3, Finset.mul_sum, ← Finset.sum_add_distrib, ← Finset.sum_sub_distrib]
  apply Finset.sum_congr rfl; intro i _
  rw [Finset.mul_sum, ← Finset.sum_add_distrib, ← Finset.sum_sub_distrib]
  apply Finset.sum_congr rfl; intro j _
  rw [cut_eq_ind]; ring

theorem add_sub_two_min (x y : ℚ) : x + y - 2 * min x y = |x - y| := by
  rcases le_total x y with h | h
  · rw [min_eq_left h, abs_of_nonpos (by linarith)]; ring
  · rw [min_eq_right h, abs_of_nonneg (by linarith)]; ring

theorem cost_mono (a b : Fin n → ℚ) (ha : ∀ i, 0 ≤ a i) (hb : ∀ j, 0 ≤ b j)
    (hab : ∑ i, a i = ∑ j, b j) : cost absCost (mono a b) = w1 a b := by
  rw [cost_abs_eq_sum_cut]
  unfold w1
  apply Finset.sum_congr rfl; intro k _
  rw [cut_mass (mono_feasible a b ha hb hab) k,
    mono_psum_both a b ha hb _ _ (Nat.succ_le_of_lt k.isLt) (Nat.succ_le_of_lt k.isLt),
    cdf_eq_psum, cdf_eq_psum, add_sub_two_min]


end Pynn.Transport
