import PynnVerif.Model.Sparse
import Mathlib.Algebra.Ring.Defs
import Mathlib.Algebra.Group.Basic

/-! # The sparse merge kernels compute the pointwise operations (helper lemmas for C08) -/
set_option linter.unusedSectionVars false
namespace Pynn.Sparse
variable {α : Type} [DecidableEq α]

/-! ### `decode`, `SortedFrom`, `keep` -/
section Basic
variable [Zero α]

@[simp] theorem decode_nil (i : Nat) : decode ([] : SVec α) i = 0 := rfl

theorem decode_cons (j : Nat) (v : α) (t : SVec α) (i : Nat) :
    decode ((j, v) :: t) i = if j = i then v else decode t i := by
  unfold decode; simp only [lookup]; split <;> rfl

theorem SortedFrom.mono {lo lo' : Nat} {a : SVec α} (h : SortedFrom lo a) (hl : lo' ≤ lo) :
    SortedFrom lo' a := by
  cases a with
  | nil => trivial
  | cons p t => exact ⟨Nat.le_trans hl h.1, h.2⟩

/-- below its first index a sorted row decodes to 0 -/
theorem decode_lt {lo : Nat} {a : SVec α} (h : SortedFrom lo a) {i : Nat} (hi : i < lo) :
    decode a i = 0 := by
  induction a generalizing lo with
  | nil => rfl
  | cons p t ih =>
    obtain ⟨j, v⟩ := p
    rw [decode_cons, if_neg (by have := h.1; omega)]
    exact ih h.2 (by have := h.1; omega)

theorem lookup_lt {lo : Nat} {a : SVec α} (h : SortedFrom lo a) {i : Nat} (hi : i < lo) :
    lookup a i = none := by
  induction a generalizing lo with
  | nil => rfl
  | cons p t ih =>
    obtain ⟨j, v⟩ := p
    simp only [lookup]
    rw [if_neg (by have := h.1; omega)]
    exact ih h.2 (by have := h.1; omega)

theorem sortedFrom_keep {lo i : Nat} (v : α) {rest : SVec α} (hl : lo ≤ i)
    (h : SortedFrom (i + 1) rest) : SortedFrom lo (keep i v rest) := by
  unfold keep; split
  · exact h.mono (by omega)
  · exact ⟨hl, h⟩

theorem noZero_keep {i : Nat} {v : α} {rest : SVec α} (h : NoZero rest) :
    NoZero (keep i v rest) := by
  unfold keep; split
  · exact h
  · intro p hp
    rcases List.mem_cons.1 hp with rfl | hp
    · assumption
    · exact h p hp

theorem decode_keep {i : Nat} (v : α) {rest : SVec α} (h : SortedFrom (i + 1) rest) (j : Nat) :
    decode (keep i v rest) j = if i = j then v else decode rest j := by
  unfold keep; split
  · split
    · subst_vars; exact decode_lt h (Nat.lt_succ_self _)
    · rfl
  · exact decode_cons ..

theorem below_keep {n i : Nat} {v : α} {rest : SVec α} (hi : i < n) (h : Below n rest) :
    Below n (keep i v rest) := by
  unfold keep; split
  · exact h
  · intro p hp
    rcases List.mem_cons.1 hp with rfl | hp
    · exact hi
    · exact h p hp

/-! ### tail loops -/

theorem sortedFrom_tailLoop {lo : Nat} {a : SVec α} (h : SortedFrom lo a) :
    SortedFrom lo (tailLoop a) := by
  induction a generalizing lo with
  | nil => trivial
  | cons p t ih => exact sortedFrom_keep _ h.1 (ih h.2)

theorem noZero_tailLoop (a : SVec α) : NoZero (tailLoop a) := by
  induction a with
  | nil => intro p hp; cases hp
  | cons p t ih => exact noZero_keep ih

theorem decode_tailLoop {lo : Nat} {a : SVec α} (h : SortedFrom lo a) (j : Nat) :
    decode (tailLoop a) j = decode a j := by
  induction a generalizing lo with
  | nil => rfl
  | cons p t ih =>
    obtain ⟨i, v⟩ := p
    show decode (keep i v (tailLoop t)) j = _
    rw [decode_keep _ (sortedFrom_tailLoop h.2), decode_cons, ih h.2]

theorem below_tailLoop {n : Nat} {a : SVec α} (h : Below n a) : Below n (tailLoop a) := by
  induction a with
  | nil => exact h
  | cons p t ih =>
    exact below_keep (h p (List.mem_cons_self ..)) (ih (fun q hq => h q (List.mem_cons_of_mem _ hq)))

end Basic

/-! ### `sparse_sum` -/
section Sum
variable [AddZeroClass α]

theorem sparseSum_sorted (a b : SVec α) :
    ∀ lo, SortedFrom lo a → SortedFrom lo b → SortedFrom lo (sparseSum a b) := by
  fun_induction sparseSum a b with
  | case1 b => intro lo _ hb; exact sortedFrom_tailLoop hb
  | case2 p a => intro lo ha _; exact sortedFrom_tailLoop ha
  | case3 v1 a i1 v2 b ih =>
    intro lo ha hb
    exact sortedFrom_keep _ ha.1 (ih _ ha.2 hb.2)
  | case4 i1 v1 a i2 v2 b hne hlt ih =>
    intro lo ha hb
    exact sortedFrom_keep _ ha.1 (ih _ ha.2 ⟨hlt, hb.2⟩)
  | case5 i1 v1 a i2 v2 b hne hlt ih =>
    intro lo ha hb
    exact sortedFrom_keep _ hb.1 (ih _ ⟨by omega, ha.2⟩ hb.2)

theorem sparseSum_noZero (a b : SVec α) : NoZero (sparseSum a b) := by
  fun_induction sparseSum a b with
  | case1 b => exact noZero_tailLoop _
  | case2 p a => exact noZero_tailLoop _
  | case3 v1 a i1 v2 b ih => exact noZero_keep ih
  | case4 i1 v1 a i2 v2 b hne hlt ih => exact noZero_keep ih
  | case5 i1 v1 a i2 v2 b hne hlt ih => exact noZero_keep ih

theorem decode_sparseSum (a b : SVec α) :
    ∀ lo, SortedFrom lo a → SortedFrom lo b → ∀ j,
      decode (sparseSum a b) j = decode a j + decode b j := by
  fun_induction sparseSum a b with
  | case1 b => intro lo _ hb j; rw [decode_tailLoop hb, decode_nil, zero_add]
  | case2 p a => intro lo ha _ j; rw [decode_tailLoop ha, decode_nil, add_zero]
  | case3 v1 a i1 v2 b ih =>
    intro lo ha hb j
    rw [decode_keep _ (sparseSum_sorted a b _ ha.2 hb.2), decode_cons, decode_cons, ih _ ha.2 hb.2]
    split <;> rfl
  | case4 i1 v1 a i2 v2 b hne hlt ih =>
    intro lo ha hb j
    have hb' : SortedFrom (i1 + 1) ((i2, v2) :: b) := ⟨hlt, hb.2⟩
    rw [decode_keep _ (sparseSum_sorted _ _ _ ha.2 hb'), decode_cons, ih _ ha.2 hb']
    split
    · subst_vars; rw [decode_lt hb' (Nat.lt_succ_self _), add_zero]
    · rfl
  | case5 i1 v1 a i2 v2 b hne hlt ih =>
    intro lo ha hb j
    have ha' : SortedFrom (i2 + 1) ((i1, v1) :: a) := ⟨by omega, ha.2⟩
    rw [decode_keep _ (sparseSum_sorted _ _ _ ha' hb.2), decode_cons (v := v2), ih _ ha' hb.2]
    split
    · subst_vars; rw [decode_lt ha' (Nat.lt_succ_self _), zero_add]
    · rfl

theorem sparseSum_below {n : Nat} (a b : SVec α) :
    Below n a → Below n b → Below n (sparseSum a b) := by
  fun_induction sparseSum a b with
  | case1 b => intro _ hb; exact below_tailLoop hb
  | case2 p a => intro ha _; exact below_tailLoop ha
  | case3 v1 a i1 v2 b ih =>
    intro ha hb
    exact below_keep (ha _ (List.mem_cons_self ..))
      (ih (fun q hq => ha q (List.mem_cons_of_mem _ hq)) (fun q hq => hb q (List.mem_cons_of_mem _ hq)))
  | case4 i1 v1 a i2 v2 b hne hlt ih =>
    intro ha hb
    exact below_keep (ha _ (List.mem_cons_self ..)) (ih (fun q hq => ha q (List.mem_cons_of_mem _ hq)) hb)
  | case5 i1 v1 a i2 v2 b hne hlt ih =>
    intro ha hb
    exact below_keep (hb _ (List.mem_cons_self ..)) (ih ha (fun q hq => hb q (List.mem_cons_of_mem _ hq)))

end Sum

/-! ### `sparse_diff` -/
section Diff
variable [AddGroup α]

theorem sortedFrom_negate {lo : Nat} {b : SVec α} (h : SortedFrom lo b) : SortedFrom lo (negate b) := by
  induction b generalizing lo with
  | nil => trivial
  | cons p t ih => exact ⟨h.1, ih h.2⟩

theorem decode_negate (b : SVec α) (j : Nat) : decode (negate b) j = - decode b j := by
  induction b with
  | nil => simp [negate]
  | cons p t ih =>
    obtain ⟨i, v⟩ := p
    show decode ((i, -v) :: negate t) j = _
    rw [decode_cons, decode_cons, ih]; split <;> rfl

theorem below_negate {n : Nat} {b : SVec α} (h : Below n b) : Below n (negate b) := by
  intro p hp
  obtain ⟨q, hq, rfl⟩ := List.mem_map.1 hp
  exact h q hq

theorem sparseDiff_sorted {lo : Nat} {a b : SVec α} (ha : SortedFrom lo a) (hb : SortedFrom lo b) :
    SortedFrom lo (sparseDiff a b) := sparseSum_sorted _ _ _ ha (sortedFrom_negate hb)

theorem sparseDiff_noZero (a b : SVec α) : NoZero (sparseDiff a b) := sparseSum_noZero _ _

theorem decode_sparseDiff {lo : Nat} {a b : SVec α} (ha : SortedFrom lo a) (hb : SortedFrom lo b)
    (j : Nat) : decode (sparseDiff a b) j = decode a j - decode b j := by
  unfold sparseDiff
  rw [decode_sparseSum _ _ _ ha (sortedFrom_negate hb), decode_negate, sub_eq_add_neg]

theorem sparseDiff_below {n : Nat} {a b : SVec α} (ha : Below n a) (hb : Below n b) :
    Below n (sparseDiff a b) := sparseSum_below _ _ ha (below_negate hb)

end Diff

/-! ### `sparse_mul` -/
section Mul
variable [MulZeroClass α]

theorem sparseMul_sorted (a b : SVec α) :
    ∀ lo, SortedFrom lo a → SortedFrom lo b → SortedFrom lo (sparseMul a b) := by
  fun_induction sparseMul a b with
  | case1 b => intro lo _ _; trivial
  | case2 p a => intro lo _ _; trivial
  | case3 v1 a i1 v2 b ih =>
    intro lo ha hb
    exact sortedFrom_keep _ ha.1 (ih _ ha.2 hb.2)
  | case4 i1 v1 a i2 v2 b hne hlt ih =>
    intro lo ha hb
    exact (ih _ ha.2 ⟨hlt, hb.2⟩).mono (by have := ha.1; omega)
  | case5 i1 v1 a i2 v2 b hne hlt ih =>
    intro lo ha hb
    exact (ih _ ⟨by omega, ha.2⟩ hb.2).mono (by have := hb.1; omega)

theorem sparseMul_noZero (a b : SVec α) : NoZero (sparseMul a b) := by
  fun_induction sparseMul a b with
  | case1 b => intro p hp; cases hp
  | case2 p a => intro p hp; cases hp
  | case3 v1 a i1 v2 b ih => exact noZero_keep ih
  | case4 i1 v1 a i2 v2 b hne hlt ih => exact ih
  | case5 i1 v1 a i2 v2 b hne hlt ih => exact ih

theorem decode_sparseMul (a b : SVec α) :
    ∀ lo, SortedFrom lo a → SortedFrom lo b → ∀ j,
      decode (sparseMul a b) j = decode a j * decode b j := by
  fun_induction sparseMul a b with
  | case1 b => intro lo _ _ j; rw [decode_nil, zero_mul]
  | case2 p a => intro lo _ _ j; rw [decode_nil, mul_zero]
  | case3 v1 a i1 v2 b ih =>
    intro lo ha hb j
    rw [decode_keep _ (sparseMul_sorted a b _ ha.2 hb.2), decode_cons, decode_cons, ih _ ha.2 hb.2]
    split <;> rfl
  | case4 i1 v1 a i2 v2 b hne hlt ih =>
    intro lo ha hb j
    have hb' : SortedFrom (i1 + 1) ((i2, v2) :: b) := ⟨hlt, hb.2⟩
    rw [ih _ ha.2 hb', decode_cons i1 v1 a j]
    split
    · subst_vars; rw [decode_lt hb' (Nat.lt_succ_self _), mul_zero, mul_zero]
    · rfl
  | case5 i1 v1 a i2 v2 b hne hlt ih =>
    intro lo ha hb j
    have ha' : SortedFrom (i2 + 1) ((i1, v1) :: a) := ⟨by omega, ha.2⟩
    rw [ih _ ha' hb.2, decode_cons i2 v2 b j]
    split
    · subst_vars; rw [decode_lt ha' (Nat.lt_succ_self _), zero_mul, zero_mul]
    · rfl

theorem sparseMul_below {n : Nat} (a b : SVec α) : Below n a → Below n (sparseMul a b) := by
  fun_induction sparseMul a b with
  | case1 b => intro _ p hp; cases hp
  | case2 p a => intro _ p hp; cases hp
  | case3 v1 a i1 v2 b ih =>
    intro ha
    exact below_keep (ha _ (List.mem_cons_self ..)) (ih (fun q hq => ha q (List.mem_cons_of_mem _ hq)))
  | case4 i1 v1 a i2 v2 b hne hlt ih =>
    intro ha; exact ih (fun q hq => ha q (List.mem_cons_of_mem _ hq))
  | case5 i1 v1 a i2 v2 b hne hlt ih => intro ha; exact ih ha

end Mul

/-! ### `sparse_dot_product` -/
section Dot
variable [NonUnitalNonAssocSemiring α]

theorem foldl_keep_add (i : Nat) (v : α) (rest : SVec α) (r : α) :
    (keep i v rest).foldl (fun r p => r + p.2) r = rest.foldl (fun r p => r + p.2) (r + v) := by
  unfold keep; split
  · subst_vars; rw [add_zero]
  · rfl

/-- the loop of `sparse_dot_product` accumulates exactly the values `sparse_mul` would store -/
theorem dotLoop_eq (r : α) (a b : SVec α) :
    dotLoop r a b = (sparseMul a b).foldl (fun r p => r + p.2) r := by
  fun_induction dotLoop r a b with
  | case1 r v1 a i v2 b r1 hA =>
    obtain rfl : a = [] := List.isEmpty_iff.1 hA
    rw [sparseMul, if_pos rfl, foldl_keep_add]; simp [sparseMul, r1]
  | case2 r v1 a i v2 b r1 hA hB =>
    obtain rfl : b = [] := List.isEmpty_iff.1 hB
    rw [sparseMul, if_pos rfl, foldl_keep_add]
    cases a <;> simp [sparseMul, r1]
  | case3 r v1 a i v2 b r1 hA hB ih =>
    rw [sparseMul, if_pos rfl, foldl_keep_add]; exact ih
  | case4 r i1 v1 a i2 v2 b hne hlt hA =>
    obtain rfl : a = [] := List.isEmpty_iff.1 hA
    rw [sparseMul, if_neg hne, if_pos hlt]; simp [sparseMul]
  | case5 r i1 v1 a i2 v2 b hne hlt hA ih =>
    rw [sparseMul, if_neg hne, if_pos hlt]; exact ih
  | case6 r i1 v1 a i2 v2 b hne hlt hB =>
    obtain rfl : b = [] := List.isEmpty_iff.1 hB
    rw [sparseMul, if_neg hne, if_neg hlt]; simp [sparseMul]
  | case7 r i1 v1 a i2 v2 b hne hlt hB ih =>
    rw [sparseMul, if_neg hne, if_neg hlt]; exact ih
  | case8 r a b hx =>
    cases a with
    | nil => simp [sparseMul]
    | cons p a =>
      cases b with
      | nil => simp [sparseMul]
      | cons q b => exact (hx _ _ _ _ _ _ rfl rfl).elim

theorem sparseDotProduct_eq {a b : SVec α} (ha : a ≠ []) (hb : b ≠ []) :
    sparseDotProduct a b = some (mulSum a b) := by
  cases a with
  | nil => exact (ha rfl).elim
  | cons p a =>
    cases b with
    | nil => exact (hb rfl).elim
    | cons q b => simp only [sparseDotProduct, mulSum, dotLoop_eq]

end Dot

/-! ### `enc`: well-formed, round trip, canonical -/
section Enc
variable [Zero α]

theorem encFrom_sorted (k : Nat) (x : List α) : SortedFrom k (encFrom k x) := by
  induction x generalizing k with
  | nil => trivial
  | cons v t ih => exact sortedFrom_keep _ (Nat.le_refl _) (ih (k + 1))

theorem encFrom_noZero (k : Nat) (x : List α) : NoZero (encFrom k x) := by
  induction x generalizing k with
  | nil => intro p hp; cases hp
  | cons v t ih => exact noZero_keep (ih (k + 1))

theorem encFrom_below (k : Nat) (x : List α) : Below (k + x.length) (encFrom k x) := by
  induction x generalizing k with
  | nil => intro p hp; cases hp
  | cons v t ih =>
    refine below_keep (by simp) ?_
    have := ih (k + 1)
    simpa [Nat.add_assoc, Nat.add_comm 1] using this

theorem decode_encFrom (k : Nat) (x : List α) (i : Nat) :
    decode (encFrom k x) i = if k ≤ i then x.getD (i - k) 0 else 0 := by
  induction x generalizing k with
  | nil => simp [encFrom]
  | cons v t ih =>
    show decode (keep k v (encFrom (k + 1) t)) i = _
    rw [decode_keep _ (encFrom_sorted _ _), ih]
    by_cases h1 : k = i
    · subst h1; simp
    · rw [if_neg h1]
      by_cases h2 : k ≤ i
      · have h3 : k + 1 ≤ i := by omega
        rw [if_pos h2, if_pos h3]
        obtain ⟨m, hm⟩ : ∃ m, i - k = m + 1 := ⟨i - k - 1, by omega⟩
        rw [hm, show i - (k + 1) = m by omega]; rfl
      · rw [if_neg h2, if_neg (by omega)]

theorem enc_sorted (x : List α) : SortedFrom 0 (enc x) := encFrom_sorted 0 x
theorem enc_noZero (x : List α) : NoZero (enc x) := encFrom_noZero 0 x
theorem decode_enc (x : List α) (i : Nat) : decode (enc x) i = x.getD i 0 := by
  simp [enc, decode_encFrom]

/-- two sorted rows without stored zeros that decode to the same vector are equal -/
theorem wf_ext (a b : SVec α) : ∀ lo, SortedFrom lo a → NoZero a → SortedFrom lo b → NoZero b →
    (∀ i, decode a i = decode b i) → a = b := by
  induction a generalizing b with
  | nil =>
    intro lo _ _ hb hzb h
    cases b with
    | nil => rfl
    | cons q t =>
      obtain ⟨j, w⟩ := q
      have := h j
      rw [decode_nil, decode_cons, if_pos rfl] at this
      exact (hzb (j, w) (List.mem_cons_self ..) this.symm).elim
  | cons p a ih =>
    obtain ⟨i, v⟩ := p
    intro lo ha hza hb hzb h
    have hv : v ≠ 0 := hza (i, v) (List.mem_cons_self ..)
    cases b with
    | nil =>
      have := h i
      rw [decode_nil, decode_cons, if_pos rfl] at this
      exact (hv this).elim
    | cons q b =>
      obtain ⟨j, w⟩ := q
      have hw : w ≠ 0 := hzb (j, w) (List.mem_cons_self ..)
      have hij : i = j := by
        rcases Nat.lt_trichotomy i j with hlt | heq | hgt
        · have := h i
          rw [decode_cons, if_pos rfl, decode_lt (lo := j) (a := (j, w) :: b) ⟨Nat.le_refl _, hb.2⟩ hlt] at this
          exact (hv this).elim
        · exact heq
        · have := h j
          rw [decode_cons j, if_pos rfl, decode_lt (lo := i) (a := (i, v) :: a) ⟨Nat.le_refl _, ha.2⟩ hgt] at this
          exact (hw this.symm).elim
      subst hij
      have hvw : v = w := by
        have := h i
        rwa [decode_cons, decode_cons, if_pos rfl, if_pos rfl] at this
      subst hvw
      have htl : a = b := by
        refine ih b (i + 1) ha.2 (fun p hp => hza p (List.mem_cons_of_mem _ hp)) hb.2
          (fun p hp => hzb p (List.mem_cons_of_mem _ hp)) (fun k => ?_)
        by_cases hk : k < i + 1
        · rw [decode_lt ha.2 hk, decode_lt hb.2 hk]
        · have := h k
          rwa [decode_cons, decode_cons, if_neg (by omega), if_neg (by omega)] at this
      rw [htl]

/-- a loop over the stored values of `enc z` whose body does nothing on a zero is the loop over
all of `z` (an invariant `Inv` of the accumulator may be assumed) -/
theorem foldl_encFrom {β : Type} (g : β → α → β) (Inv : β → Prop)
    (hstep : ∀ r v, Inv r → Inv (g r v)) (hzero : ∀ r, Inv r → g r 0 = r)
    (k : Nat) (z : List α) (r0 : β) (h0 : Inv r0) :
    (encFrom k z).foldl (fun r p => g r p.2) r0 = z.foldl g r0 := by
  induction z generalizing k r0 with
  | nil => rfl
  | cons v t ih =>
    show (keep k v (encFrom (k + 1) t)).foldl _ r0 = _
    unfold keep; split
    · subst_vars; rw [List.foldl_cons, hzero r0 h0]; exact ih _ _ h0
    · rw [List.foldl_cons, List.foldl_cons]; exact ih _ _ (hstep _ _ h0)

theorem length_encFrom (k : Nat) (z : List α) : (encFrom k z).length = z.countP (· ≠ 0) := by
  induction z generalizing k with
  | nil => rfl
  | cons v t ih =>
    show (keep k v (encFrom (k + 1) t)).length = _
    unfold keep; split
    · rw [List.countP_cons_of_neg (by simpa), ih]
    · rw [List.countP_cons_of_pos (by simpa), List.length_cons, ih]

theorem map_encFrom (f : α → α) (hf : ∀ v, f v = 0 ↔ v = 0) (k : Nat) (z : List α) :
    (encFrom k z).map (fun p => (p.1, f p.2)) = encFrom k (z.map f) := by
  induction z generalizing k with
  | nil => rfl
  | cons v t ih =>
    show (keep k v (encFrom (k + 1) t)).map _ = keep k (f v) (encFrom (k + 1) (t.map f))
    unfold keep
    by_cases hv : v = 0
    · rw [if_pos hv, if_pos ((hf v).2 hv)]; exact ih _
    · rw [if_neg hv, if_neg (fun h => hv ((hf v).1 h)), List.map_cons, ih]

/-- `i` is a stored index of a well-formed row iff the row is non-zero there -/
theorem mem_inds_iff {lo : Nat} {a : SVec α} (hs : SortedFrom lo a) (hz : NoZero a) (i : Nat) :
    i ∈ inds a ↔ decode a i ≠ 0 := by
  induction a generalizing lo with
  | nil => simp [inds]
  | cons p t ih =>
    obtain ⟨j, v⟩ := p
    have hv : v ≠ 0 := hz (j, v) (List.mem_cons_self ..)
    have iht := ih hs.2 (fun p hp => hz p (List.mem_cons_of_mem _ hp))
    simp only [inds, List.map_cons, List.mem_cons] at iht ⊢
    rw [decode_cons]
    by_cases hji : j = i
    · subst hji; simp [hv]
    · rw [if_neg hji, ← iht]
      constructor
      · rintro (h | h)
        · exact (hji h.symm).elim
        · exact h
      · exact Or.inr

theorem getD_zipWith {β γ : Type} (f : α → β → γ) (x : List α) (y : List β) (hxy : x.length = y.length)
    (dx : α) (dy : β) (dz : γ) (hd : f dx dy = dz) (i : Nat) :
    (List.zipWith f x y).getD i dz = f (x.getD i dx) (y.getD i dy) := by
  induction x generalizing y i with
  | nil =>
    cases y with
    | nil => simp [hd]
    | cons _ _ => simp at hxy
  | cons u s ih =>
    cases y with
    | nil => simp at hxy
    | cons w t =>
      cases i with
      | zero => simp
      | succ i => simpa using ih t (by simpa using hxy) i

end Enc

/-! ### the merges on encodings are the encodings of the pointwise operations -/
section Canon

theorem sparseSum_enc [AddZeroClass α] (x y : List α) (h : x.length = y.length) :
    sparseSum (enc x) (enc y) = enc (List.zipWith (· + ·) x y) := by
  refine wf_ext _ _ 0 (sparseSum_sorted _ _ _ (enc_sorted x) (enc_sorted y))
    (sparseSum_noZero _ _) (enc_sorted _) (enc_noZero _) (fun i => ?_)
  rw [decode_sparseSum _ _ _ (enc_sorted x) (enc_sorted y), decode_enc, decode_enc, decode_enc]
  exact (getD_zipWith (· + ·) x y h 0 0 0 (add_zero 0) i).symm

theorem sparseDiff_enc [AddGroup α] (x y : List α) (h : x.length = y.length) :
    sparseDiff (enc x) (enc y) = enc (List.zipWith (· - ·) x y) := by
  refine wf_ext _ _ 0 (sparseDiff_sorted (enc_sorted x) (enc_sorted y))
    (sparseDiff_noZero _ _) (enc_sorted _) (enc_noZero _) (fun i => ?_)
  rw [decode_sparseDiff (enc_sorted x) (enc_sorted y), decode_enc, decode_enc, decode_enc]
  exact (getD_zipWith (· - ·) x y h 0 0 0 (sub_zero 0) i).symm

theorem sparseMul_enc [MulZeroClass α] (x y : List α) (h : x.length = y.length) :
    sparseMul (enc x) (enc y) = enc (List.zipWith (· * ·) x y) := by
  refine wf_ext _ _ 0 (sparseMul_sorted _ _ _ (enc_sorted x) (enc_sorted y))
    (sparseMul_noZero _ _) (enc_sorted _) (enc_noZero _) (fun i => ?_)
  rw [decode_sparseMul _ _ _ (enc_sorted x) (enc_sorted y), decode_enc, decode_enc, decode_enc]
  exact (getD_zipWith (· * ·) x y h 0 0 0 (mul_zero 0) i).symm

/-- a dense loop over `x[i], y[i]` that only uses `f x[i] y[i]` is a loop over `zipWith f x y` -/
theorem foldl_zip {β γ δ : Type} (g : δ → γ → δ) (f : α → β → γ) (x : List α) (y : List β) (r0 : δ) :
    (x.zip y).foldl (fun r p => g r (f p.1 p.2)) r0 = (List.zipWith f x y).foldl g r0 := by
  induction x generalizing y r0 with
  | nil => rfl
  | cons u s ih =>
    cases y with
    | nil => rfl
    | cons w t => exact ih t _

/-- the loop of a metric that accumulates `g r (stored value)` over a sparse row `enc z` -/
theorem foldl_enc {β : Type} [Zero α] (g : β → α → β) (hzero : ∀ r, g r 0 = r) (z : List α) (r0 : β) :
    (enc z).foldl (fun r p => g r p.2) r0 = z.foldl g r0 :=
  foldl_encFrom g (fun _ => True) (fun _ _ _ => trivial) (fun r _ => hzero r) 0 z r0 trivial

end Canon

/-! ### every well-formed row is the encoding of its dense vector -/
section ToDense
variable [Zero α]

theorem decode_of_not_mem {a : SVec α} {i : Nat} (h : i ∉ inds a) : decode a i = 0 := by
  induction a with
  | nil => rfl
  | cons p t ih =>
    obtain ⟨j, v⟩ := p
    simp only [inds, List.map_cons, List.mem_cons, not_or] at h
    rw [decode_cons, if_neg (fun e => h.1 e.symm)]
    exact ih h.2

theorem decode_of_below {n : Nat} {a : SVec α} (hb : Below n a) {i : Nat} (hi : n ≤ i) :
    decode a i = 0 := by
  apply decode_of_not_mem
  intro hm
  obtain ⟨p, hp, rfl⟩ := List.mem_map.1 hm
  have := hb p hp; omega

theorem getD_toDense (n : Nat) (a : SVec α) (i : Nat) :
    (toDense n a).getD i 0 = if i < n then decode a i else 0 := by
  unfold toDense
  rw [List.getD_eq_getElem?_getD, List.getElem?_map]
  by_cases h : i < n
  · rw [List.getElem?_range h, if_pos h]; rfl
  · rw [List.getElem?_eq_none (by simpa using h), if_neg h]; rfl

theorem length_toDense (n : Nat) (a : SVec α) : (toDense n a).length = n := by
  simp [toDense]

/-- a well-formed row with indices below `n` *is* the encoding of its `n`-dimensional dense vector -/
theorem enc_toDense {n : Nat} {a : SVec α} (hs : SortedFrom 0 a) (hz : NoZero a) (hb : Below n a) :
    enc (toDense n a) = a := by
  refine wf_ext _ _ 0 (enc_sorted _) (enc_noZero _) hs hz (fun i => ?_)
  rw [decode_enc, getD_toDense]
  split
  · rfl
  · exact (decode_of_below hb (by omega)).symm

theorem toDense_enc (x : List α) : toDense x.length (enc x) = x := by
  apply List.ext_getElem
  · exact length_toDense _ _
  · intro i h1 h2
    have := getD_toDense x.length (enc x) i
    rw [if_pos h2, decode_enc, List.getD_eq_getElem?_getD, List.getD_eq_getElem?_getD,
      List.getElem?_eq_getElem h1, List.getElem?_eq_getElem h2] at this
    simpa using this

end ToDense

end Pynn.Sparse
