import PynnVerif.Proofs.Metrics
import PynnVerif.Model.Sparse

/-!
# `Model/Metrics.lean` and the reference copies `Sparse.Dense.*` of `Model/Sparse.lean` agree

C08 (`Props/C08.lean`) proves `sparse kernel (enc x) (enc y) = Sparse.Dense.kernel x y`.  The lemmas
below identify those reference copies, at `ℝ`, with the accumulators / kernels of the generic model
`Model/Metrics.lean` that C07 and C09 are about, so the two developments compose: the sparse
surrogates of `pynndescent/sparse.py` are functions of `mulSum`, `normSq`, `dataSum`,
`hellingerSum`, `sqEuclidean`, `numTrueTrue`/`numNonZero`, which C08 equates with the right-hand
sides here.
-/
namespace Pynn.Metrics
open Pynn.Sparse

theorem dotProd_eq_dense (x y : List ℝ) : dotProd x y = Dense.dot x y := rfl
theorem normSq_eq_dense (x : List ℝ) : normSq x = Dense.normSq x := rfl
theorem l1_eq_dense (x : List ℝ) : l1 x = Dense.sum x := rfl
theorem squaredEuclidean_eq_dense (x y : List ℝ) : squaredEuclidean x y = Dense.sqEuclidean x y := rfl
theorem hellingerSum_eq_dense (x y : List ℝ) : hellingerSum x y = Dense.hellingerSum Real.sqrt x y := rfl

theorem cosine_eq_dense (x y : List ℝ) : cosine x y = Dense.cosine Real.sqrt x y := by
  rw [cosine_real]
  unfold Dense.cosine
  by_cases h0 : Dense.normSq x = 0 ∧ Dense.normSq y = 0
  · rw [if_pos (show normSq x = 0 ∧ normSq y = 0 from h0)]
    simp only [if_pos h0]
  · rw [if_neg (show ¬ (normSq x = 0 ∧ normSq y = 0) from h0)]
    by_cases h1 : Dense.normSq x = 0 ∨ Dense.normSq y = 0
    · rw [if_pos (show normSq x = 0 ∨ normSq y = 0 from h1)]
      simp only [if_neg h0, if_pos h1]
    · rw [if_neg (show ¬ (normSq x = 0 ∨ normSq y = 0) from h1)]
      simp only [if_neg h0, if_neg h1]
      rfl

theorem isTrue_real (v : ℝ) : isTrue v = decide (v ≠ 0) := by
  unfold isTrue
  rw [Bool.eq_iff_iff, bne_real]
  simp

theorem numTrueTrue_eq_dense (x y : List ℝ) : (numTrueTrue x y : Int) = Dense.numTrueTrue x y := by
  unfold numTrueTrue Dense.numTrueTrue
  congr 2
  funext p
  rw [Bool.eq_iff_iff]
  simp only [Bool.and_eq_true, isTrue_real, decide_eq_true_eq]

theorem numNonZero_eq_dense (x y : List ℝ) : (numNonZero x y : Int) = Dense.numNonZero x y := by
  unfold numNonZero Dense.numNonZero
  congr 2
  funext p
  rw [Bool.eq_iff_iff]
  simp only [Bool.or_eq_true, isTrue_real, decide_eq_true_eq]

end Pynn.Metrics
