import PynnVerif.Gen.SparseMetricKernels
import PynnVerif.Proofs.GenMerge
import PynnVerif.Proofs.GenMetrics

/-! # The translated sparse metric kernels (wrappers over the merges) refine the model

`Gen/SparseMetricKernels.lean` (namespace `Pynn.GenSM`) is regenerated from the source text of
`pynndescent/sparse.py` by `harness/translate_sparsemetrics.py`; its kernels CALL the translated
`sparse_sum` of `Gen/Kernels.lean`.  Here: for every pair of rows (parallel arrays of equal length,
non-negative indices; no sortedness) and fuel `≥ n1 + n2 + 1` each translated kernel is `some` (no
out-of-bounds access in the callee or in its own loop, enough fuel) of what the model of
`Model/Sparse.lean` computes on `toSVec ind1 data1`, `toSVec ind2 data2` — over every carrier with
`0`, decidable `=` / `<`, `+`, `-·`, `*` (no arithmetic law). -/
set_option linter.unusedSectionVars false
set_option linter.unusedVariables false
set_option linter.unusedSimpArgs false
namespace Pynn.GenSparseMetricProofs
open Pynn.Sparse Pynn.GenK Pynn.GenSM Pynn.GenMerge
open Pynn.GenMetricProofs (fold1 fold1_lt fold1_ge)

section
variable {α : Type} [Zero α] [DecidableEq α] [Add α] [Neg α]

theorem toSVec_negArr (ind : Array Int) (data : Array α) :
    toSVec ind (negArr data) = negate (toSVec ind data) := by
  simp [toSVec, negArr, negate, List.zip_map_right]

theorem negArr_size (data : Array α) : (negArr data).size = data.size := by simp [negArr]

theorem length_keep_le (i : Nat) (v : α) (rest : SVec α) : (keep i v rest).length ≤ rest.length + 1 := by
  unfold keep; split <;> simp

theorem length_tailLoop_le (a : SVec α) : (tailLoop a).length ≤ a.length := by
  induction a with
  | nil => simp [tailLoop]
  | cons p t ih =>
    obtain ⟨i, v⟩ := p
    have := length_keep_le i v (tailLoop t)
    simp only [tailLoop, List.length_cons]; omega

theorem length_sparseSum_le (a b : SVec α) : (sparseSum a b).length ≤ a.length + b.length := by
  fun_induction sparseSum a b with
  | case1 b => have := length_tailLoop_le b; simpa using this
  | case2 p a => have := length_tailLoop_le (p :: a); simpa using this
  | case3 v1 a i1 v2 b ih =>
    have := length_keep_le i1 (v1 + v2) (sparseSum a b); simp only [List.length_cons]; omega
  | case4 i1 v1 a i2 v2 b hne hlt ih =>
    have := length_keep_le i1 v1 (sparseSum a ((i2, v2) :: b)); simp only [List.length_cons] at *; omega
  | case5 i1 v1 a i2 v2 b hne hlt ih =>
    have := length_keep_le i2 v2 (sparseSum ((i1, v1) :: a) b); simp only [List.length_cons] at *; omega

/-- **`sparse_diff` (translated: `sparse_sum` on the negated second data array) = `sparseDiff`**,
memory safe, fuel `≥ n1 + n2 + 1` -/
theorem sparse_diff_refines (ind1 ind2 : Array Int) (data1 data2 : Array α)
    (h1 : ind1.size = data1.size) (h2 : ind2.size = data2.size)
    (hn1 : NonNeg ind1) (hn2 : NonNeg ind2) (fuel : Nat) (hf : ind1.size + ind2.size + 1 ≤ fuel) :
    GenSM.sparse_diff fuel ind1 data1 ind2 data2 =
      some (indArr (sparseDiff (toSVec ind1 data1) (toSVec ind2 data2)),
            valArr (sparseDiff (toSVec ind1 data1) (toSVec ind2 data2))) := by
  have := sparse_sum_refines ind1 ind2 data1 (negArr data2) h1 (by rw [negArr_size]; exact h2) hn1 hn2
    fuel hf
  rw [toSVec_negArr] at this
  simp only [GenSM.sparse_diff, this, Option.bind_eq_bind, Option.bind_some, Option.pure_def]
  rfl

theorem toSVec_length' (ind : Array Int) (data : Array α) (h : ind.size = data.size) :
    (toSVec ind data).length = ind.size := toSVec_length ind data h

theorem sparseDiff_length_le (ind1 ind2 : Array Int) (data1 data2 : Array α)
    (h1 : ind1.size = data1.size) (h2 : ind2.size = data2.size) :
    (valArr (sparseDiff (toSVec ind1 data1) (toSVec ind2 data2))).size ≤ ind1.size + ind2.size := by
  have := length_sparseSum_le (toSVec ind1 data1) (negate (toSVec ind2 data2))
  rw [valArr_size]
  simp only [sparseDiff]
  rw [toSVec_length ind1 data1 h1] at this
  have e : (negate (toSVec ind2 data2)).length = ind2.size := by
    simp [negate, toSVec_length ind2 data2 h2]
  omega

end

/-- the uniform proof of a loop lemma over ONE array
`∀ fuel k, k ≤ a.size → a.size - k + 1 ≤ fuel → ∀ acc, <loop> a ↑a.size fuel acc ↑k = some (.next (fold1 g a k acc, ↑a.size))` -/
syntax "sm_loop " ident " with " ident : tactic
macro_rules
  | `(tactic| sm_loop $eqn with $a) => `(tactic| (
      intro fuel
      induction fuel with
      | zero => intro k hk hf; omega
      | succ fuel ih =>
        intro k hk hf
        intros
        rw [$eqn:ident]
        by_cases c : k < Array.size $a
        · have c' : (k : Int) < ((Array.size $a : Nat) : Int) := Int.ofNat_lt.2 c
          have ek : (k : Int) + 1 = ((k + 1 : Nat) : Int) := by omega
          simp only [c', if_true, Pynn.GenMerge.rd_lt _ k c, Option.bind_eq_bind, Option.bind_some, ek,
            Option.pure_def, fold1_lt _ _ k _ c]
          exact ih (k + 1) (by omega) (by omega) ..
        · have c' : ¬ (k : Int) < ((Array.size $a : Nat) : Int) := by omega
          have e : k = Array.size $a := by omega
          subst e
          simp only [c', if_false, Option.pure_def, fold1_ge _ _ _ _ (Nat.le_refl _)])
      )

section Kernels
variable {α : Type} [Zero α] [DecidableEq α] [Add α] [Neg α] [Mul α]

theorem e0 : ((0 : Nat) : Int) = 0 := rfl

theorem fold1_valArr {β : Type} (g : β → α → β) (S : SVec α) (b : β) :
    fold1 g (valArr S) 0 b = S.foldl (fun r p => g r p.2) b := by
  simp [fold1, valArr, vals, List.foldl_map]

theorem sqeuclidean_loop (a : Array α) :
    ∀ (fuel k : Nat), k ≤ a.size → a.size - k + 1 ≤ fuel → ∀ (r : α),
      sparse_squared_euclidean.loop0 a (a.size : Int) fuel r (k : Int)
        = some (.next (fold1 (fun r v => r + v * v) a k r, (a.size : Int))) := by
  sm_loop sparse_squared_euclidean.loop0 with a

theorem euclidean_loop (a : Array α) :
    ∀ (fuel k : Nat), k ≤ a.size → a.size - k + 1 ≤ fuel → ∀ (r : α),
      sparse_euclidean.loop0 a (a.size : Int) fuel r (k : Int)
        = some (.next (fold1 (fun r v => r + v * v) a k r, (a.size : Int))) := by
  sm_loop sparse_euclidean.loop0 with a

/-- **`sparse_squared_euclidean` (translated) = `Sparse.sqEuclidean`**, memory safe -/
theorem sparse_squared_euclidean_refines (ind1 ind2 : Array Int) (data1 data2 : Array α)
    (h1 : ind1.size = data1.size) (h2 : ind2.size = data2.size)
    (hn1 : NonNeg ind1) (hn2 : NonNeg ind2) (fuel : Nat) (hf : ind1.size + ind2.size + 1 ≤ fuel) :
    GenSM.sparse_squared_euclidean fuel ind1 data1 ind2 data2
      = some (sqEuclidean (toSVec ind1 data1) (toSVec ind2 data2)) := by
  have hd := sparse_diff_refines ind1 ind2 data1 data2 h1 h2 hn1 hn2 fuel hf
  have hl := sparseDiff_length_le ind1 ind2 data1 data2 h1 h2
  have L := sqeuclidean_loop (valArr (sparseDiff (toSVec ind1 data1) (toSVec ind2 data2))) fuel 0
    (by omega) (by omega)
  rw [e0] at L
  simp only [GenSM.sparse_squared_euclidean, hd, L, Option.bind_eq_bind, Option.bind_some,
    Option.pure_def, fold1_valArr]
  rfl

/-- **`sparse_euclidean` (translated) = `sqrt (Sparse.sqEuclidean …)`** for the `sqrt` it is given -/
theorem sparse_euclidean_refines (sqrt : α → α) (ind1 ind2 : Array Int) (data1 data2 : Array α)
    (h1 : ind1.size = data1.size) (h2 : ind2.size = data2.size)
    (hn1 : NonNeg ind1) (hn2 : NonNeg ind2) (fuel : Nat) (hf : ind1.size + ind2.size + 1 ≤ fuel) :
    GenSM.sparse_euclidean sqrt fuel ind1 data1 ind2 data2
      = some (sqrt (sqEuclidean (toSVec ind1 data1) (toSVec ind2 data2))) := by
  have hd := sparse_diff_refines ind1 ind2 data1 data2 h1 h2 hn1 hn2 fuel hf
  have hl := sparseDiff_length_le ind1 ind2 data1 data2 h1 h2
  have L := euclidean_loop (valArr (sparseDiff (toSVec ind1 data1) (toSVec ind2 data2))) fuel 0
    (by omega) (by omega)
  rw [e0] at L
  simp only [GenSM.sparse_euclidean, hd, L, Option.bind_eq_bind, Option.bind_some,
    Option.pure_def, fold1_valArr]
  rfl

variable [LT α] [DecidableLT α]

theorem manhattan_loop (a : Array α) :
    ∀ (fuel k : Nat), k ≤ a.size → a.size - k + 1 ≤ fuel → ∀ (r : α),
      sparse_manhattan.loop0 a (a.size : Int) fuel r (k : Int)
        = some (.next (fold1 (fun r v => r + absV v) a k r, (a.size : Int))) := by
  sm_loop sparse_manhattan.loop0 with a

theorem chebyshev_loop (a : Array α) :
    ∀ (fuel k : Nat), k ≤ a.size → a.size - k + 1 ≤ fuel → ∀ (r : α),
      sparse_chebyshev.loop0 a (a.size : Int) fuel r (k : Int)
        = some (.next (fold1 (fun r v => maxV r (absV v)) a k r, (a.size : Int))) := by
  sm_loop sparse_chebyshev.loop0 with a

/-- **`sparse_manhattan` (translated) = `Sparse.manhattan`**, memory safe -/
theorem sparse_manhattan_refines (ind1 ind2 : Array Int) (data1 data2 : Array α)
    (h1 : ind1.size = data1.size) (h2 : ind2.size = data2.size)
    (hn1 : NonNeg ind1) (hn2 : NonNeg ind2) (fuel : Nat) (hf : ind1.size + ind2.size + 1 ≤ fuel) :
    GenSM.sparse_manhattan fuel ind1 data1 ind2 data2
      = some (manhattan (toSVec ind1 data1) (toSVec ind2 data2)) := by
  have hd := sparse_diff_refines ind1 ind2 data1 data2 h1 h2 hn1 hn2 fuel hf
  have hl := sparseDiff_length_le ind1 ind2 data1 data2 h1 h2
  have L := manhattan_loop (valArr (sparseDiff (toSVec ind1 data1) (toSVec ind2 data2))) fuel 0
    (by omega) (by omega)
  rw [e0] at L
  simp only [GenSM.sparse_manhattan, hd, L, Option.bind_eq_bind, Option.bind_some,
    Option.pure_def, fold1_valArr]
  rfl

/-- **`sparse_chebyshev` (translated) = `Sparse.chebyshev`**, memory safe -/
theorem sparse_chebyshev_refines (ind1 ind2 : Array Int) (data1 data2 : Array α)
    (h1 : ind1.size = data1.size) (h2 : ind2.size = data2.size)
    (hn1 : NonNeg ind1) (hn2 : NonNeg ind2) (fuel : Nat) (hf : ind1.size + ind2.size + 1 ≤ fuel) :
    GenSM.sparse_chebyshev fuel ind1 data1 ind2 data2
      = some (chebyshev (toSVec ind1 data1) (toSVec ind2 data2)) := by
  have hd := sparse_diff_refines ind1 ind2 data1 data2 h1 h2 hn1 hn2 fuel hf
  have hl := sparseDiff_length_le ind1 ind2 data1 data2 h1 h2
  have L := chebyshev_loop (valArr (sparseDiff (toSVec ind1 data1) (toSVec ind2 data2))) fuel 0
    (by omega) (by omega)
  rw [e0] at L
  simp only [GenSM.sparse_chebyshev, hd, L, Option.bind_eq_bind, Option.bind_some,
    Option.pure_def, fold1_valArr]
  rfl

end Kernels
end Pynn.GenSparseMetricProofs
