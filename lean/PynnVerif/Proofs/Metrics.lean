import PynnVerif.Model.Metrics
import Mathlib.Analysis.SpecialFunctions.Log.Base
import Mathlib.Analysis.SpecialFunctions.Pow.Real
import Mathlib.Analysis.SpecialFunctions.Trigonometric.Inverse
import Mathlib.Analysis.SpecialFunctions.Trigonometric.Bounds
import Mathlib.Analysis.Real.Sqrt

/-!
# The dense kernels over `ℝ` (helpers for C07 and C09)

* the `ℝ` instance of `Metrics.Arith` (`Real.sqrt`, `Real.logb 2`, `Real.rpow`, `Real.arccos`, …);
* `arith_norm`: rewrites the operations of the generic model into the standard `ℝ` operations;
* `foldl`-loops as `List.sum`s, symmetry / identical-input / sign lemmas of the accumulators;
* the scalar facts about `d = −log₂ s` and the corrections (C09).

Reminder: over `ℝ` the partial operations are totalised by Mathlib (`x / 0 = 0`, `√x = 0` for `x < 0`,
`logb 2 x = logb 2 |x|`, `logb 2 0 = 0`, `arccos` clamped outside `[-1, 1]`).  No theorem of the
Props files relies on these conventions: each states the guard under which the operation is used
inside its domain (the `…_defined` theorems say that the code's branches establish the guard).
-/
namespace Pynn.Metrics

/-- `FLOAT32_MAX = (2²⁴ − 1)·2¹⁰⁴` -/
def f32maxNat : Nat := 340282346638528859811704183484516925440

example : f32maxNat = (2 ^ 24 - 1) * 2 ^ 104 := by decide +kernel

noncomputable instance instArithReal : Arith ℝ where
  beq := fun a b => decide (a = b)
  decLt := fun _ _ => Classical.propDecidable _
  decLe := fun _ _ => Classical.propDecidable _
  abs := fun a => |a|
  max := fun a b => Max.max a b
  min := fun a b => Min.min a b
  ofNat := fun n => (n : ℝ)
  sqrt := Real.sqrt
  log2 := Real.logb 2
  log := Real.log
  pow := fun a b => a ^ b
  arccos := Real.arccos
  pi := Real.pi
  f32max := (f32maxNat : ℝ)

/-! ### `arith_norm`: from the operations of the generic model to the standard ones of `ℝ` -/
section Norm
variable (a b : ℝ)
theorem zero_real : @OfNat.ofNat ℝ 0 (@Zero.toOfNat0 ℝ (@Arith.toZero ℝ instArithReal)) = 0 := rfl
theorem one_real : @OfNat.ofNat ℝ 1 (@One.toOfNat1 ℝ (@Arith.toOne ℝ instArithReal)) = 1 := rfl
theorem add_real : @HAdd.hAdd ℝ ℝ ℝ (@instHAdd ℝ (@Arith.toAdd ℝ instArithReal)) a b = a + b := rfl
theorem sub_real : @HSub.hSub ℝ ℝ ℝ (@instHSub ℝ (@Arith.toSub ℝ instArithReal)) a b = a - b := rfl
theorem mul_real : @HMul.hMul ℝ ℝ ℝ (@instHMul ℝ (@Arith.toMul ℝ instArithReal)) a b = a * b := rfl
theorem div_real : @HDiv.hDiv ℝ ℝ ℝ (@instHDiv ℝ (@Arith.toDiv ℝ instArithReal)) a b = a / b := rfl
theorem neg_real : @Neg.neg ℝ (@Arith.toNeg ℝ instArithReal) a = -a := rfl
theorem lt_real : @LT.lt ℝ (@Arith.toLT ℝ instArithReal) a b = (a < b) := rfl
theorem le_real : @LE.le ℝ (@Arith.toLE ℝ instArithReal) a b = (a ≤ b) := rfl
theorem beq_real : ((a == b) = true) = (a = b) := by
  show (decide (a = b) = true) = (a = b)
  simp
theorem bne_real : ((!(a == b)) = true) = (a ≠ b) := by
  show ((!decide (a = b)) = true) = (a ≠ b)
  simp
theorem abs_real : Arith.abs a = |a| := rfl
theorem max_real : Arith.max a b = max a b := rfl
theorem min_real : Arith.min a b = min a b := rfl
theorem ofNat_real (n : Nat) : (Arith.ofNat n : ℝ) = (n : ℝ) := rfl
theorem sqrt_real : Arith.sqrt a = Real.sqrt a := rfl
theorem log2_real : Arith.log2 a = Real.logb 2 a := rfl
theorem log_real : Arith.log a = Real.log a := rfl
theorem pow_real : Arith.pow a b = a ^ b := rfl
theorem arccos_real : Arith.arccos a = Real.arccos a := rfl
theorem pi_real : (Arith.pi : ℝ) = Real.pi := rfl
theorem f32max_real : (Arith.f32max : ℝ) = (f32maxNat : ℝ) := rfl
end Norm

/-- rewrite the generic model's operations at `ℝ` into Mathlib's -/
macro "arith_norm" : tactic =>
  `(tactic| simp only [zero_real, one_real, add_real, sub_real, mul_real, div_real, neg_real,
      lt_real, le_real, beq_real, bne_real, abs_real, max_real, min_real, ofNat_real, sqrt_real,
      log2_real, log_real, pow_real, arccos_real, pi_real, f32max_real, Bool.and_eq_true,
      Bool.or_eq_true, decide_eq_true_eq, Nat.cast_ofNat])

/-! ### loops as sums -/

theorem foldl_add_eq {β : Type} (g : β → ℝ) (l : List β) (a : ℝ) :
    l.foldl (fun r p => r + g p) a = a + (l.map g).sum := by
  induction l generalizing a with
  | nil => simp
  | cons h t ih => simp [ih, add_assoc]

/-- `sumBy` is the sum of the coordinate-wise terms -/
theorem sumBy_real (f : ℝ → ℝ → ℝ) (x y : List ℝ) : sumBy f x y = (List.zipWith f x y).sum := by
  unfold sumBy
  arith_norm
  rw [foldl_add_eq (fun p : ℝ × ℝ => f p.1 p.2), zero_add]
  congr 1
  exact List.map_uncurry_zip_eq_zipWith (f := f)

theorem sum1_real (f : ℝ → ℝ) (x : List ℝ) : sum1 f x = (x.map f).sum := by
  unfold sum1
  arith_norm
  rw [foldl_add_eq f, zero_add]

theorem sumBy_comm (f : ℝ → ℝ → ℝ) (hf : ∀ a b, f a b = f b a) (x y : List ℝ) :
    sumBy f x y = sumBy f y x := by
  rw [sumBy_real, sumBy_real, List.zipWith_comm_of_comm hf]

theorem sumBy_swap (f g : ℝ → ℝ → ℝ) (hf : ∀ a b, f a b = g b a) (x y : List ℝ) :
    sumBy f x y = sumBy g y x := by
  have h : (fun b a => f a b) = g := by funext b a; exact hf a b
  rw [sumBy_real, sumBy_real, List.zipWith_comm, h]

theorem sumBy_self (f : ℝ → ℝ → ℝ) (x : List ℝ) : sumBy f x x = sum1 (fun a => f a a) x := by
  rw [sumBy_real, sum1_real, List.zipWith_self]

theorem sumBy_nonneg (f : ℝ → ℝ → ℝ) (hf : ∀ a b, 0 ≤ f a b) (x y : List ℝ) : 0 ≤ sumBy f x y := by
  rw [sumBy_real]
  apply List.sum_nonneg
  intro v hv
  obtain ⟨p, _, rfl⟩ := List.mem_map.1 (List.map_uncurry_zip_eq_zipWith (f := f) ▸ hv)
  exact hf _ _

theorem sum1_nonneg (f : ℝ → ℝ) (x : List ℝ) (hf : ∀ a ∈ x, 0 ≤ f a) : 0 ≤ sum1 f x := by
  rw [sum1_real]
  apply List.sum_nonneg
  intro v hv
  obtain ⟨a, ha, rfl⟩ := List.mem_map.1 hv
  exact hf a ha

theorem sum1_eq_zero (f : ℝ → ℝ) (x : List ℝ) (hf : ∀ a ∈ x, f a = 0) : sum1 f x = 0 := by
  rw [sum1_real]
  apply List.sum_eq_zero
  intro v hv
  obtain ⟨a, ha, rfl⟩ := List.mem_map.1 hv
  exact hf a ha

/-! ### the corrections over `ℝ` -/

theorem correctAlternativeCosine_real (d : ℝ) : correctAlternativeCosine d = 1 - (2 : ℝ) ^ (-d) := by
  unfold correctAlternativeCosine; arith_norm

theorem correctAlternativeJaccard_real (d : ℝ) : correctAlternativeJaccard d = 1 - (2 : ℝ) ^ (-d) := by
  unfold correctAlternativeJaccard; arith_norm

theorem correctAlternativeHellinger_real (d : ℝ) :
    correctAlternativeHellinger d = Real.sqrt (max (1 - (2 : ℝ) ^ (-d)) 0) := by
  unfold correctAlternativeHellinger; arith_norm

theorem trueAngularFromAltCosine_real (d : ℝ) :
    trueAngularFromAltCosine d = 1 - Real.arccos (min ((2 : ℝ) ^ (-d)) 1) / Real.pi := by
  unfold trueAngularFromAltCosine; arith_norm

/-- `isclose(abs(d), 0.0, atol=1e-7)` is `|d| ≤ 10⁻⁷` -/
theorem iscloseZero_real (d : ℝ) : iscloseZero d = true ↔ |d| ≤ 1 / 10000000 := by
  unfold iscloseZero atol7; arith_norm
  simp

theorem sparseCorrectAlternativeCosine_real (d : ℝ) :
    sparseCorrectAlternativeCosine d = if |d| ≤ 1 / 10000000 ∨ d < 0 then 0 else 1 - (2 : ℝ) ^ (-d) := by
  unfold sparseCorrectAlternativeCosine
  simp only [Bool.or_eq_true, iscloseZero_real]
  arith_norm

theorem sparseCorrectAlternativeHellinger_real (d : ℝ) :
    sparseCorrectAlternativeHellinger d =
      if |d| ≤ 1 / 10000000 ∨ d < 0 then 0 else Real.sqrt (1 - (2 : ℝ) ^ (-d)) := by
  unfold sparseCorrectAlternativeHellinger
  simp only [Bool.or_eq_true, iscloseZero_real]
  arith_norm

/-! ### `d = −log₂ s` -/

/-- the surrogate value as a function of the similarity `s` (cosine of the angle, inner product of
unit vectors, Bhattacharyya coefficient, Jaccard index): `d = −log₂ s`. -/
noncomputable def surrogateOf (s : ℝ) : ℝ := -Real.logb 2 s

theorem two_rpow_neg_surrogateOf {s : ℝ} (hs : 0 < s) : (2 : ℝ) ^ (-surrogateOf s) = s := by
  unfold surrogateOf
  rw [neg_neg, Real.rpow_logb (by norm_num) (by norm_num) hs]

theorem surrogateOf_lt_iff {s t : ℝ} (hs : 0 < s) (ht : 0 < t) :
    surrogateOf s < surrogateOf t ↔ t < s := by
  unfold surrogateOf
  rw [neg_lt_neg_iff, Real.logb_lt_logb_iff (by norm_num) ht hs]

theorem surrogateOf_le_iff {s t : ℝ} (hs : 0 < s) (ht : 0 < t) :
    surrogateOf s ≤ surrogateOf t ↔ t ≤ s := by
  unfold surrogateOf
  rw [neg_le_neg_iff, Real.logb_le_logb (by norm_num) ht hs]

theorem surrogateOf_one : surrogateOf 1 = 0 := by simp [surrogateOf]

theorem surrogateOf_nonneg {s : ℝ} (hs : 0 < s) (h1 : s ≤ 1) : 0 ≤ surrogateOf s := by
  rw [← surrogateOf_one, surrogateOf_le_iff one_pos hs]; exact h1

/-- `np.log2(norm / result)` is `−log₂ (result / norm)` -/
theorem logb_div_eq_surrogateOf (n r : ℝ) : Real.logb 2 (n / r) = surrogateOf (r / n) := by
  unfold surrogateOf
  rw [← Real.logb_inv, inv_div]

/-! ### `2^(−FLOAT32_MAX)` -/

theorem f32max_pos : (0 : ℝ) < (f32maxNat : ℝ) := by
  have : 0 < f32maxNat := by decide +kernel
  exact_mod_cast this

/-- `2^(−FLOAT32_MAX)` is positive (so the corrected saturation value is *not* the far end `1`)… -/
theorem two_rpow_neg_f32max_pos : (0 : ℝ) < (2 : ℝ) ^ (-(f32maxNat : ℝ)) :=
  Real.rpow_pos_of_pos (by norm_num) _

/-- …but smaller than `2⁻¹⁰⁷⁵`, half the smallest positive double (a fortiori half the smallest
positive float32, `2⁻¹⁵⁰`): `pow(2.0, -FLOAT32_MAX)` evaluates to `0.0` in both formats. -/
theorem two_rpow_neg_f32max_lt : (2 : ℝ) ^ (-(f32maxNat : ℝ)) < (2 : ℝ) ^ (-(1075 : ℝ)) := by
  apply Real.rpow_lt_rpow_of_exponent_lt (by norm_num)
  have : 1075 < f32maxNat := by decide +kernel
  have : (1075 : ℝ) < (f32maxNat : ℝ) := by exact_mod_cast this
  linarith

/-- for `d ≥ 0`: `0 ≤ 1 − 2^(−d) ≤ d` -/
theorem one_sub_two_rpow_neg_bounds {d : ℝ} (h : 0 ≤ d) :
    (2 : ℝ) ^ (-d) ≤ 1 ∧ 1 - (2 : ℝ) ^ (-d) ≤ d := by
  constructor
  · exact Real.rpow_le_one_of_one_le_of_nonpos (by norm_num) (by linarith)
  · rw [Real.rpow_def_of_pos (by norm_num)]
    have h1 := Real.add_one_le_exp (Real.log 2 * -d)
    have hl : Real.log 2 ≤ 1 := by
      have := Real.log_le_sub_one_of_pos (show (0 : ℝ) < 2 by norm_num); linarith
    nlinarith

/-! ### the accumulators -/

theorem dotProd_comm (x y : List ℝ) : dotProd x y = dotProd y x :=
  sumBy_comm _ (fun a b => by arith_norm; exact mul_comm a b) x y

theorem dotProd_self (x : List ℝ) : dotProd x x = normSq x := sumBy_self _ x

theorem normSq_nonneg (x : List ℝ) : 0 ≤ normSq x :=
  sum1_nonneg _ x (fun a _ => by arith_norm; exact mul_self_nonneg a)

theorem hellingerSum_comm (x y : List ℝ) : hellingerSum x y = hellingerSum y x :=
  sumBy_comm _ (fun a b => by arith_norm; rw [mul_comm]) x y

theorem hellingerSum_nonneg (x y : List ℝ) : 0 ≤ hellingerSum x y :=
  sumBy_nonneg _ (fun a b => by arith_norm; exact Real.sqrt_nonneg _) x y

/-! ### the kernels over `ℝ`, branch by branch -/

theorem squaredEuclidean_real (x y : List ℝ) :
    squaredEuclidean x y = (List.zipWith (fun a b => (a - b) * (a - b)) x y).sum := by
  unfold squaredEuclidean; rw [sumBy_real]; rfl

theorem euclidean_real (x y : List ℝ) : euclidean x y = Real.sqrt (squaredEuclidean x y) := rfl

theorem squaredEuclidean_nonneg (x y : List ℝ) : 0 ≤ squaredEuclidean x y :=
  sumBy_nonneg _ (fun a b => by unfold sqDiff; arith_norm; exact mul_self_nonneg _) x y

theorem cosine_real (x y : List ℝ) : cosine x y =
    if normSq x = 0 ∧ normSq y = 0 then 0
    else if normSq x = 0 ∨ normSq y = 0 then 1
    else 1 - dotProd x y / Real.sqrt (normSq x * normSq y) := by
  unfold cosine; arith_norm

theorem alternativeCosine_real (x y : List ℝ) : alternativeCosine x y =
    if normSq x = 0 ∧ normSq y = 0 then 0
    else if normSq x = 0 ∨ normSq y = 0 then (f32maxNat : ℝ)
    else if dotProd x y ≤ 0 then (f32maxNat : ℝ)
    else Real.logb 2 (Real.sqrt (normSq x * normSq y) / dotProd x y) := by
  unfold alternativeCosine; arith_norm

theorem trueAngular_real (x y : List ℝ) : trueAngular x y =
    if normSq x = 0 ∧ normSq y = 0 then 0
    else if normSq x = 0 ∨ normSq y = 0 then (f32maxNat : ℝ)
    else if dotProd x y ≤ 0 then (f32maxNat : ℝ)
    else 1 - Real.arccos (min (dotProd x y / Real.sqrt (normSq x * normSq y)) 1) / Real.pi := by
  unfold trueAngular; arith_norm

theorem dot_real (x y : List ℝ) : dot x y = if dotProd x y ≤ 0 then 1 else 1 - dotProd x y := by
  unfold dot; arith_norm

theorem alternativeDot_real (x y : List ℝ) :
    alternativeDot x y = if dotProd x y ≤ 0 then (f32maxNat : ℝ) else -Real.logb 2 (dotProd x y) := by
  unfold alternativeDot; arith_norm

theorem hellinger_real (x y : List ℝ) : hellinger x y =
    if l1 x = 0 ∧ l1 y = 0 then 0
    else if l1 x = 0 ∨ l1 y = 0 then 1
    else Real.sqrt (max (1 - hellingerSum x y / Real.sqrt (l1 x * l1 y)) 0) := by
  unfold hellinger; arith_norm

theorem alternativeHellinger_real (x y : List ℝ) : alternativeHellinger x y =
    if l1 x = 0 ∧ l1 y = 0 then 0
    else if l1 x = 0 ∨ l1 y = 0 then (f32maxNat : ℝ)
    else if hellingerSum x y ≤ 0 then (f32maxNat : ℝ)
    else Real.logb 2 (Real.sqrt (l1 x * l1 y) / hellingerSum x y) := by
  unfold alternativeHellinger; arith_norm

theorem jaccardOfCounts_real (n e : ℝ) :
    jaccardOfCounts n e = if n = 0 then 0 else (n - e) / n := by
  unfold jaccardOfCounts; arith_norm

theorem alternativeJaccardOfCounts_real (n e : ℝ) :
    alternativeJaccardOfCounts n e =
      if n = 0 then 0 else if e = 0 then (f32maxNat : ℝ) else -Real.logb 2 (e / n) := by
  unfold alternativeJaccardOfCounts; arith_norm

/-! ### sums of non-negative terms, Cauchy–Schwarz on lists -/

theorem list_sum_eq_zero_of_nonneg (l : List ℝ) (h0 : ∀ a ∈ l, 0 ≤ a) (hs : l.sum = 0) :
    ∀ a ∈ l, a = 0 := by
  induction l with
  | nil => simp
  | cons h t ih =>
    have hh : 0 ≤ h := h0 h (by simp)
    have ht : 0 ≤ t.sum := List.sum_nonneg (fun a ha => h0 a (by simp [ha]))
    rw [List.sum_cons] at hs
    intro a ha
    rcases List.mem_cons.1 ha with rfl | ha
    · linarith
    · exact ih (fun a ha => h0 a (by simp [ha])) (by linarith) a ha

/-- `Σ v² = 0` only for the zero vector -/
theorem normSq_eq_zero {x : List ℝ} (h : normSq x = 0) : ∀ a ∈ x, a = 0 := by
  unfold normSq at h
  rw [sum1_real] at h
  intro a ha
  have := list_sum_eq_zero_of_nonneg _ (by
    intro v hv
    obtain ⟨b, _, rfl⟩ := List.mem_map.1 hv
    arith_norm; exact mul_self_nonneg b) h (a * a) (List.mem_map.2 ⟨a, ha, by arith_norm⟩)
  exact mul_self_eq_zero.1 this

theorem sumBy_eq_zero_left (f : ℝ → ℝ → ℝ) (x y : List ℝ) (hx : ∀ a ∈ x, a = 0)
    (hf : ∀ b, f 0 b = 0) : sumBy f x y = 0 := by
  rw [sumBy_real]
  apply List.sum_eq_zero
  intro v hv
  obtain ⟨p, hp, rfl⟩ := List.mem_map.1 (List.map_uncurry_zip_eq_zipWith (f := f) ▸ hv)
  have := hx p.1 (List.of_mem_zip hp).1
  simp [Function.uncurry, this, hf]

theorem sumBy_eq_zero_right (f : ℝ → ℝ → ℝ) (x y : List ℝ) (hy : ∀ b ∈ y, b = 0)
    (hf : ∀ a, f a 0 = 0) : sumBy f x y = 0 := by
  rw [sumBy_real]
  apply List.sum_eq_zero
  intro v hv
  obtain ⟨p, hp, rfl⟩ := List.mem_map.1 (List.map_uncurry_zip_eq_zipWith (f := f) ▸ hv)
  have := hy p.2 (List.of_mem_zip hp).2
  simp [Function.uncurry, this, hf]

theorem dotProd_eq_zero_of_normSq_left {x y : List ℝ} (h : normSq x = 0) : dotProd x y = 0 :=
  sumBy_eq_zero_left _ x y (normSq_eq_zero h) (fun b => by arith_norm; exact zero_mul b)

theorem dotProd_eq_zero_of_normSq_right {x y : List ℝ} (h : normSq y = 0) : dotProd x y = 0 :=
  sumBy_eq_zero_right _ x y (normSq_eq_zero h) (fun b => by arith_norm; exact mul_zero b)

/-- Cauchy–Schwarz for two real functions summed over a list -/
theorem list_cauchy_schwarz {β : Type} (f g : β → ℝ) (l : List β) :
    (l.map (fun p => f p * g p)).sum ^ 2 ≤
      (l.map (fun p => f p * f p)).sum * (l.map (fun p => g p * g p)).sum := by
  induction l with
  | nil => simp
  | cons h t ih =>
    simp only [List.map_cons, List.sum_cons]
    set D := (t.map (fun p => f p * g p)).sum
    set A := (t.map (fun p => f p * f p)).sum with hA
    set B := (t.map (fun p => g p * g p)).sum with hB
    have hA0 : 0 ≤ A := List.sum_nonneg (by
      intro v hv; obtain ⟨b, _, rfl⟩ := List.mem_map.1 hv; exact mul_self_nonneg _)
    have hB0 : 0 ≤ B := List.sum_nonneg (by
      intro v hv; obtain ⟨b, _, rfl⟩ := List.mem_map.1 hv; exact mul_self_nonneg _)
    set a := f h
    set b := g h
    have hc : 0 ≤ a * a * B + b * b * A :=
      add_nonneg (mul_nonneg (mul_self_nonneg a) hB0) (mul_nonneg (mul_self_nonneg b) hA0)
    have h1 : (2 * a * b * D) ^ 2 ≤ (a * a * B + b * b * A) ^ 2 := by
      have h2 : 0 ≤ 4 * (a * a) * (b * b) :=
        mul_nonneg (mul_nonneg (by norm_num) (mul_self_nonneg a)) (mul_self_nonneg b)
      nlinarith [mul_le_mul_of_nonneg_left ih h2, sq_nonneg (a * a * B - b * b * A)]
    have h3 : 2 * a * b * D ≤ a * a * B + b * b * A :=
      le_trans (le_abs_self _) (abs_le_of_sq_le_sq h1 hc)
    nlinarith [h3, ih]

/-- `⟨x,y⟩² ≤ ‖x‖²‖y‖²` for vectors of the same length -/
theorem dotProd_sq_le (x y : List ℝ) (h : x.length = y.length) :
    dotProd x y ^ 2 ≤ normSq x * normSq y := by
  have hx : normSq x = ((x.zip y).map (fun p => p.1 * p.1)).sum := by
    unfold normSq; rw [sum1_real]
    have : (x.zip y).map (fun p => p.1 * p.1) = ((x.zip y).map Prod.fst).map (fun v => v * v) := by
      simp [List.map_map, Function.comp_def]
    rw [this, List.map_fst_zip (by omega)]
  have hy : normSq y = ((x.zip y).map (fun p => p.2 * p.2)).sum := by
    unfold normSq; rw [sum1_real]
    have : (x.zip y).map (fun p => p.2 * p.2) = ((x.zip y).map Prod.snd).map (fun v => v * v) := by
      simp [List.map_map, Function.comp_def]
    rw [this, List.map_snd_zip (by omega)]
  have hd : dotProd x y = ((x.zip y).map (fun p => p.1 * p.2)).sum := by
    unfold dotProd; rw [sumBy_real, ← List.map_uncurry_zip_eq_zipWith]; rfl
  rw [hx, hy, hd]
  exact list_cauchy_schwarz Prod.fst Prod.snd (x.zip y)

/-! ### the live range of the angular surrogates: `⟨x,y⟩ > 0` -/

/-- the cosine of the angle between `x` and `y` -/
noncomputable def cosSim (x y : List ℝ) : ℝ := dotProd x y / Real.sqrt (normSq x * normSq y)

theorem normSq_pos_left {x y : List ℝ} (h : 0 < dotProd x y) : 0 < normSq x :=
  lt_of_le_of_ne (normSq_nonneg x) (fun h0 => by
    rw [dotProd_eq_zero_of_normSq_left h0.symm] at h; exact lt_irrefl _ h)

theorem normSq_pos_right {x y : List ℝ} (h : 0 < dotProd x y) : 0 < normSq y :=
  lt_of_le_of_ne (normSq_nonneg y) (fun h0 => by
    rw [dotProd_eq_zero_of_normSq_right h0.symm] at h; exact lt_irrefl _ h)

theorem sqrt_norms_pos {x y : List ℝ} (hx : 0 < normSq x) (hy : 0 < normSq y) :
    0 < Real.sqrt (normSq x * normSq y) := Real.sqrt_pos.2 (mul_pos hx hy)

theorem cosSim_pos {x y : List ℝ} (h : 0 < dotProd x y) : 0 < cosSim x y :=
  div_pos h (sqrt_norms_pos (normSq_pos_left h) (normSq_pos_right h))

/-- Cauchy–Schwarz: the cosine is at most 1 -/
theorem cosSim_le_one {x y : List ℝ} (hl : x.length = y.length) (h : 0 < dotProd x y) :
    cosSim x y ≤ 1 := by
  unfold cosSim
  rw [div_le_one (sqrt_norms_pos (normSq_pos_left h) (normSq_pos_right h))]
  exact Real.le_sqrt_of_sq_le (dotProd_sq_le x y hl)

theorem alternativeCosine_live {x y : List ℝ} (h : 0 < dotProd x y) :
    alternativeCosine x y = surrogateOf (cosSim x y) := by
  have hx := normSq_pos_left h; have hy := normSq_pos_right h
  rw [alternativeCosine_real, if_neg (fun hh => hx.ne' hh.1),
    if_neg (fun hh => hh.elim hx.ne' hy.ne'), if_neg (not_le.2 h), logb_div_eq_surrogateOf]
  rfl

theorem cosine_live {x y : List ℝ} (hx : normSq x ≠ 0) (hy : normSq y ≠ 0) :
    cosine x y = 1 - cosSim x y := by
  rw [cosine_real, if_neg (fun hh => hx hh.1), if_neg (fun hh => hh.elim hx hy)]
  rfl

theorem trueAngular_live {x y : List ℝ} (h : 0 < dotProd x y) :
    trueAngular x y = 1 - Real.arccos (min (cosSim x y) 1) / Real.pi := by
  have hx := normSq_pos_left h; have hy := normSq_pos_right h
  rw [trueAngular_real, if_neg (fun hh => hx.ne' hh.1),
    if_neg (fun hh => hh.elim hx.ne' hy.ne'), if_neg (not_le.2 h)]
  rfl

/-- outside the live range and away from the two-zero-vectors branch the surrogate saturates -/
theorem alternativeCosine_saturated {x y : List ℝ} (h : ¬ 0 < dotProd x y)
    (h0 : ¬ (normSq x = 0 ∧ normSq y = 0)) : alternativeCosine x y = (f32maxNat : ℝ) := by
  rw [alternativeCosine_real, if_neg h0]
  split_ifs <;> first | rfl | exact absurd (not_lt.1 h) ‹_›

theorem cosine_ge_one_of_saturated {x y : List ℝ} (h : ¬ 0 < dotProd x y)
    (h0 : ¬ (normSq x = 0 ∧ normSq y = 0)) : 1 ≤ cosine x y := by
  rw [cosine_real, if_neg h0]
  split_ifs
  · exact le_refl _
  · have : dotProd x y / Real.sqrt (normSq x * normSq y) ≤ 0 :=
      div_nonpos_of_nonpos_of_nonneg (not_lt.1 h) (Real.sqrt_nonneg _)
    linarith

/-! ### Hellinger: non-negative vectors with positive mass -/

/-- the Bhattacharyya coefficient of the normalised vectors -/
noncomputable def hellSim (x y : List ℝ) : ℝ := hellingerSum x y / Real.sqrt (l1 x * l1 y)

theorem l1_nonneg {x : List ℝ} (hx : ∀ a ∈ x, 0 ≤ a) : 0 ≤ l1 x := sum1_nonneg _ x hx

theorem l1_eq_zero {x : List ℝ} (hx : ∀ a ∈ x, 0 ≤ a) (h : l1 x = 0) : ∀ a ∈ x, a = 0 := by
  unfold l1 at h
  rw [sum1_real] at h
  intro a ha
  exact list_sum_eq_zero_of_nonneg _ (by simpa using hx) h a (by simpa using ha)

theorem l1_pos_left {x y : List ℝ} (hx : ∀ a ∈ x, 0 ≤ a) (h : 0 < hellingerSum x y) : 0 < l1 x :=
  lt_of_le_of_ne (l1_nonneg hx) (fun h0 => by
    rw [hellingerSum, sumBy_eq_zero_left _ x y (l1_eq_zero hx h0.symm)
      (fun b => by arith_norm; simp)] at h
    exact lt_irrefl _ h)

theorem l1_pos_right {x y : List ℝ} (hy : ∀ a ∈ y, 0 ≤ a) (h : 0 < hellingerSum x y) : 0 < l1 y :=
  lt_of_le_of_ne (l1_nonneg hy) (fun h0 => by
    rw [hellingerSum, sumBy_eq_zero_right _ x y (l1_eq_zero hy h0.symm)
      (fun b => by arith_norm; simp)] at h
    exact lt_irrefl _ h)

theorem alternativeHellinger_live {x y : List ℝ} (hx : 0 < l1 x) (hy : 0 < l1 y)
    (h : 0 < hellingerSum x y) : alternativeHellinger x y = surrogateOf (hellSim x y) := by
  rw [alternativeHellinger_real, if_neg (fun hh => hx.ne' hh.1),
    if_neg (fun hh => hh.elim hx.ne' hy.ne'), if_neg (not_le.2 h), logb_div_eq_surrogateOf]
  rfl

theorem hellinger_live {x y : List ℝ} (hx : l1 x ≠ 0) (hy : l1 y ≠ 0) :
    hellinger x y = Real.sqrt (max (1 - hellSim x y) 0) := by
  rw [hellinger_real, if_neg (fun hh => hx hh.1), if_neg (fun hh => hh.elim hx hy)]
  rfl

theorem hellSim_pos {x y : List ℝ} (hx : 0 < l1 x) (hy : 0 < l1 y) (h : 0 < hellingerSum x y) :
    0 < hellSim x y := div_pos h (Real.sqrt_pos.2 (mul_pos hx hy))

/-- Cauchy–Schwarz for the Bhattacharyya sum: `Σ√(xᵢyᵢ) ≤ √(Σx Σy)` on non-negative vectors of
equal length -/
theorem hellingerSum_le {x y : List ℝ} (hl : x.length = y.length)
    (hx : ∀ a ∈ x, 0 ≤ a) (hy : ∀ a ∈ y, 0 ≤ a) :
    hellingerSum x y ≤ Real.sqrt (l1 x * l1 y) := by
  apply Real.le_sqrt_of_sq_le
  have hs : hellingerSum x y =
      ((x.zip y).map (fun p => Real.sqrt p.1 * Real.sqrt p.2)).sum := by
    unfold hellingerSum
    rw [sumBy_real, ← List.map_uncurry_zip_eq_zipWith]
    congr 1
    apply List.map_congr_left
    intro p hp
    show Arith.sqrt (p.1 * p.2) = _
    arith_norm
    exact Real.sqrt_mul (hx _ (List.of_mem_zip hp).1) _
  have h1 : l1 x = ((x.zip y).map (fun p => Real.sqrt p.1 * Real.sqrt p.1)).sum := by
    unfold l1; rw [sum1_real]
    have : (x.zip y).map (fun p => Real.sqrt p.1 * Real.sqrt p.1) = (x.zip y).map Prod.fst := by
      apply List.map_congr_left
      intro p hp
      exact Real.mul_self_sqrt (hx _ (List.of_mem_zip hp).1)
    rw [this, List.map_fst_zip (by omega)]; simp
  have h2 : l1 y = ((x.zip y).map (fun p => Real.sqrt p.2 * Real.sqrt p.2)).sum := by
    unfold l1; rw [sum1_real]
    have : (x.zip y).map (fun p => Real.sqrt p.2 * Real.sqrt p.2) = (x.zip y).map Prod.snd := by
      apply List.map_congr_left
      intro p hp
      exact Real.mul_self_sqrt (hy _ (List.of_mem_zip hp).2)
    rw [this, List.map_snd_zip (by omega)]; simp
  rw [hs, h1, h2]
  exact list_cauchy_schwarz (fun p => Real.sqrt p.1) (fun p => Real.sqrt p.2) (x.zip y)

theorem hellSim_le_one {x y : List ℝ} (hl : x.length = y.length)
    (hx : ∀ a ∈ x, 0 ≤ a) (hy : ∀ a ∈ y, 0 ≤ a) (hx' : 0 < l1 x) (hy' : 0 < l1 y) :
    hellSim x y ≤ 1 := by
  unfold hellSim
  rw [div_le_one (Real.sqrt_pos.2 (mul_pos hx' hy'))]
  exact hellingerSum_le hl hx hy

/-! ### C07 helpers: the remaining kernels over `ℝ` -/

theorem manhattan_real (x y : List ℝ) :
    manhattan x y = (List.zipWith (fun a b => |a - b|) x y).sum := by
  unfold manhattan; rw [sumBy_real]; rfl

theorem minkowski_real (x y : List ℝ) (p : ℝ) :
    minkowski x y p = (List.zipWith (fun a b => |a - b| ^ p) x y).sum ^ (1 / p) := by
  unfold minkowski; rw [sumBy_real]; rfl

/-- the running maximum of `chebyshev` -/
theorem chebyshev_real (x y : List ℝ) :
    chebyshev x y = (List.zipWith (fun a b => |a - b|) x y).foldl max 0 := by
  unfold chebyshev
  rw [← List.map_uncurry_zip_eq_zipWith, List.foldl_map]
  rfl

theorem foldl_max_ge_init (l : List ℝ) (a : ℝ) : a ≤ l.foldl max a := by
  induction l generalizing a with
  | nil => simp
  | cons h t ih => exact le_trans (le_max_left a h) (ih _)

theorem foldl_max_ge_mem (l : List ℝ) (a : ℝ) : ∀ v ∈ l, v ≤ l.foldl max a := by
  induction l generalizing a with
  | nil => simp
  | cons h t ih =>
    intro v hv
    rcases List.mem_cons.1 hv with rfl | hv
    · exact le_trans (le_max_right a v) (foldl_max_ge_init t _)
    · exact ih _ v hv

theorem foldl_max_mem (l : List ℝ) (a : ℝ) : l.foldl max a = a ∨ l.foldl max a ∈ l := by
  induction l generalizing a with
  | nil => simp
  | cons h t ih =>
    simp only [List.foldl_cons]
    rcases ih (max a h) with h1 | h1
    · rcases max_choice a h with h2 | h2
      · left; rw [h1, h2]
      · right; rw [h1, h2]; exact List.mem_cons_self
    · right; exact List.mem_cons_of_mem _ h1

theorem correlation_real (x y : List ℝ) : correlation x y =
    (let mu_x := l1 x / (x.length : ℝ)
     let mu_y := l1 y / (x.length : ℝ)
     let norm_x := sum1 (fun v => (v - mu_x) * (v - mu_x)) x
     let norm_y := sum1 (fun v => (v - mu_y) * (v - mu_y)) y
     let dot_product := sumBy (fun a b => (a - mu_x) * (b - mu_y)) x y
     if norm_x = 0 ∧ norm_y = 0 then 0
     else if dot_product = 0 then 1
     else 1 - dot_product / Real.sqrt (norm_x * norm_y)) := by
  unfold correlation; arith_norm

theorem canberra_real (x y : List ℝ) : canberra x y =
    (List.zipWith (fun a b => if 0 < |a| + |b| then |a - b| / (|a| + |b|) else 0) x y).sum := by
  unfold canberra
  arith_norm
  have h : ∀ (r : ℝ) (p : ℝ × ℝ),
      (if 0 < |p.1| + |p.2| then r + |p.1 - p.2| / (|p.1| + |p.2|) else r) =
      r + (fun p : ℝ × ℝ => if 0 < |p.1| + |p.2| then |p.1 - p.2| / (|p.1| + |p.2|) else 0) p := by
    intro r p; dsimp only; split_ifs <;> simp
  simp only [h]
  rw [foldl_add_eq, zero_add, ← List.map_uncurry_zip_eq_zipWith]
  rfl

theorem brayCurtis_real (x y : List ℝ) : brayCurtis x y =
    if 0 < sumBy (fun a b => |a + b|) x y
    then sumBy (fun a b => |a - b|) x y / sumBy (fun a b => |a + b|) x y else 0 := by
  unfold brayCurtis; arith_norm

/-! ### counting kernels: symmetry and identical inputs -/

theorem countP_zip_swap (q : ℝ × ℝ → Bool) (x y : List ℝ) :
    (y.zip x).countP q = (x.zip y).countP (fun p => q (p.2, p.1)) := by
  rw [← List.zip_swap x y, List.countP_map]
  rfl

theorem countP_zip_self (q : ℝ × ℝ → Bool) (x : List ℝ) :
    (x.zip x).countP q = x.countP (fun a => q (a, a)) := by
  rw [List.zip_eq_zipWith, List.zipWith_self, List.countP_map]
  rfl

theorem numDiffer_comm (x y : List ℝ) : numDiffer y x = numDiffer x y := by
  unfold numDiffer
  rw [countP_zip_swap]
  congr 1; funext p
  show (!(p.2 == p.1)) = (!(p.1 == p.2))
  rw [Bool.eq_iff_iff, bne_real, bne_real]
  exact ne_comm

theorem numNonZero_comm (x y : List ℝ) : numNonZero y x = numNonZero x y := by
  unfold numNonZero; rw [countP_zip_swap]; congr 1; funext p; exact Bool.or_comm _ _

theorem numTrueTrue_comm (x y : List ℝ) : numTrueTrue y x = numTrueTrue x y := by
  unfold numTrueTrue; rw [countP_zip_swap]; congr 1; funext p; exact Bool.and_comm _ _

theorem numNotEqual_comm (x y : List ℝ) : numNotEqual y x = numNotEqual x y := by
  unfold numNotEqual; rw [countP_zip_swap]; congr 1; funext p
  cases isTrue p.1 <;> cases isTrue p.2 <;> rfl

theorem numDiffer_self (x : List ℝ) : numDiffer x x = 0 := by
  unfold numDiffer
  rw [countP_zip_self, List.countP_eq_zero]
  intro a _
  rw [bne_real]
  simp

theorem numNotEqual_self (x : List ℝ) : numNotEqual x x = 0 := by
  unfold numNotEqual
  rw [countP_zip_self, List.countP_eq_zero]
  intro a _; simp

theorem numTrueTrue_self (x : List ℝ) : numTrueTrue x x = numNonZero x x := by
  unfold numTrueTrue numNonZero
  rw [countP_zip_self, countP_zip_self]
  congr 1; funext a; simp

/-- `|x∧y| ≤ |x∨y|` -/
theorem numTrueTrue_le_numNonZero (x y : List ℝ) : numTrueTrue x y ≤ numNonZero x y := by
  unfold numTrueTrue numNonZero
  apply List.countP_mono_left
  intro p _ h
  simp only [Bool.and_eq_true] at h
  simp [h.1]

/-- `|x∨y| = |x∧y| + |x△y|` -/
theorem numNonZero_eq (x y : List ℝ) : numNonZero x y = numTrueTrue x y + numNotEqual x y := by
  unfold numNonZero numTrueTrue numNotEqual
  induction x.zip y with
  | nil => rfl
  | cons p t ih =>
    simp only [List.countP_cons, ih]
    cases isTrue p.1 <;> cases isTrue p.2 <;> simp <;> omega

theorem numDiffer_le_length (x y : List ℝ) (h : x.length = y.length) : numDiffer x y ≤ x.length := by
  unfold numDiffer
  calc _ ≤ (x.zip y).length := List.countP_le_length
    _ = x.length := by simp [h]

theorem numNotEqual_le_length (x y : List ℝ) (h : x.length = y.length) :
    numNotEqual x y ≤ x.length := by
  unfold numNotEqual
  calc _ ≤ (x.zip y).length := List.countP_le_length
    _ = x.length := by simp [h]

theorem numTrueFalse_swap (x y : List ℝ) : numTrueFalse y x = numFalseTrue x y := by
  unfold numTrueFalse numFalseTrue; rw [countP_zip_swap]; congr 1; funext p; exact Bool.and_comm _ _

theorem numFalseTrue_swap (x y : List ℝ) : numFalseTrue y x = numTrueFalse x y := by
  unfold numTrueFalse numFalseTrue; rw [countP_zip_swap]; congr 1; funext p; exact Bool.and_comm _ _

theorem numTrueFalse_self (x : List ℝ) : numTrueFalse x x = 0 := by
  unfold numTrueFalse
  rw [countP_zip_self, List.countP_eq_zero]
  intro a _; simp

theorem numTrueTrue_self_eq_support (x : List ℝ) : numTrueTrue x x = x.countP isTrue := by
  unfold numTrueTrue
  rw [countP_zip_self]
  congr 1; funext a; simp

/-- the four counts partition the coordinates -/
theorem counts_partition (x y : List ℝ) (h : x.length = y.length) :
    numTrueTrue x y + numTrueFalse x y + numFalseTrue x y ≤ x.length := by
  have hl : (x.zip y).length = x.length := by simp [h]
  rw [← hl]
  unfold numTrueTrue numTrueFalse numFalseTrue
  induction x.zip y with
  | nil => simp
  | cons p t ih =>
    simp only [List.countP_cons, List.length_cons]
    cases isTrue p.1 <;> cases isTrue p.2 <;> simp <;> omega

end Pynn.Metrics
