import PynnVerif.Gen.Kernels
import PynnVerif.Model.Sparse
import PynnVerif.Proofs.Sparse

/-! # The translated two-pointer kernels of `sparse.py` refine the hand-written model -/
set_option linter.unusedSectionVars false
set_option linter.unusedVariables false
namespace Pynn.GenMerge
open Pynn.Sparse Pynn.GenK

/-! ### `rd` / `wr` at natural-number cursors -/

theorem rd_nat {β : Type} (a : Array β) (k : Nat) : rd a (k : Int) = a[k]? := by
  simp [rd]

theorem rd_lt {β : Type} (a : Array β) (k : Nat) (h : k < a.size) : rd a (k : Int) = some a[k] := by
  simp [rd, h]

theorem rd_ge {β : Type} (a : Array β) (k : Nat) (h : a.size ≤ k) : rd a (k : Int) = none := by
  simp [rd, h]

theorem wr_lt {β : Type} (a : Array β) (k : Nat) (v : β) (h : k < a.size) :
    wr a (k : Int) v = some (a.setIfInBounds k v) := by
  simp [wr, h]

/-! ### the abstraction: parallel arrays ↦ list of pairs -/

/-- the CSR row `(ind, data)` as the model sees it -/
def toSVec {α : Type} (ind : Array Int) (data : Array α) : SVec α :=
  (ind.toList.map Int.toNat).zip data.toList

/-- an index array as the model sees it -/
def toNats (ar : Array Int) : List Nat := ar.toList.map Int.toNat

/-- all stored indices are non-negative (they are coordinates) -/
def NonNeg (ind : Array Int) : Prop := ∀ k (h : k < ind.size), 0 ≤ ind[k]

theorem nonNeg_iff (ind : Array Int) : NonNeg ind ↔ ∀ j ∈ ind.toList, 0 ≤ j := by
  constructor
  · intro h j hj
    obtain ⟨k, hk, rfl⟩ := List.getElem_of_mem hj
    simpa using h k (by simpa using hk)
  · intro h k hk
    exact h _ (by simp)

instance (ind : Array Int) : Decidable (NonNeg ind) := decidable_of_iff _ (nonNeg_iff ind).symm

section
variable {α : Type}

theorem toSVec_length (ind : Array Int) (data : Array α) (h : ind.size = data.size) :
    (toSVec ind data).length = ind.size := by
  simp [toSVec, h]

theorem toSVec_drop_lt (ind : Array Int) (data : Array α) (h : ind.size = data.size) (k : Nat)
    (hk : k < ind.size) :
    (toSVec ind data).drop k = (ind[k].toNat, data[k]'(h ▸ hk)) :: (toSVec ind data).drop (k + 1) := by
  have hl : k < (toSVec ind data).length := by rw [toSVec_length ind data h]; exact hk
  rw [List.drop_eq_getElem_cons hl]
  simp [toSVec]

theorem toSVec_drop_ge (ind : Array Int) (data : Array α) (h : ind.size = data.size) (k : Nat)
    (hk : ind.size ≤ k) : (toSVec ind data).drop k = [] := by
  apply List.drop_eq_nil_of_le
  rw [toSVec_length ind data h]; exact hk

/-- the index array of a model row, as the kernel receives it (`int32[]`) -/
def indArr (a : SVec α) : Array Int := ((inds a).map Int.ofNat).toArray
/-- the data array of a model row -/
def valArr (a : SVec α) : Array α := (vals a).toArray

theorem indArr_size (a : SVec α) : (indArr a).size = a.length := by simp [indArr, inds]
theorem valArr_size (a : SVec α) : (valArr a).size = a.length := by simp [valArr, vals]
theorem indArr_valArr_size (a : SVec α) : (indArr a).size = (valArr a).size := by
  rw [indArr_size, valArr_size]

theorem nonNeg_indArr (a : SVec α) : NonNeg (indArr a) := by
  intro k h
  simp [indArr]

/-- `toSVec` is a left inverse of `(indArr, valArr)`: every model row is the abstraction of a
pair of arrays -/
theorem toSVec_indArr_valArr (a : SVec α) : toSVec (indArr a) (valArr a) = a := by
  induction a with
  | nil => rfl
  | cons p t ih =>
    simp only [toSVec, indArr, valArr, inds, vals] at ih ⊢
    simp only [List.map_cons, List.zip_cons_cons]
    rw [ih]
    rfl

theorem toNats_indArr (a : SVec α) : toNats (indArr a) = inds a := by
  simp [toNats, indArr, Function.comp_def]

theorem toSVec_drop_isEmpty (ind : Array Int) (data : Array α) (h : ind.size = data.size) (k : Nat) :
    ((toSVec ind data).drop k).isEmpty = decide (ind.size ≤ k) := by
  by_cases hk : k < ind.size
  · rw [toSVec_drop_lt ind data h k hk]; simp; omega
  · rw [toSVec_drop_ge ind data h k (by omega)]; simp; omega

end

section Mul
variable {α : Type} [Zero α] [DecidableEq α] [Mul α]

theorem mul_loop0 (ind1 ind2 : Array Int) (data1 data2 : Array α)
    (h1 : ind1.size = data1.size) (h2 : ind2.size = data2.size)
    (hn1 : NonNeg ind1) (hn2 : NonNeg ind2) :
    ∀ (fuel k1 k2 : Nat) (ri : Array Int) (rv : Array α), k1 ≤ ind1.size → k2 ≤ ind2.size →
      (ind1.size - k1) + (ind2.size - k2) + 1 ≤ fuel →
      ∃ i1' i2' ri' rv',
        sparse_mul.loop0 ind1 data1 ind2 data2 fuel k1 k2 ri rv = some (.next (i1', i2', ri', rv')) ∧
        ri'.toList = ri.toList ++
          (inds (sparseMul ((toSVec ind1 data1).drop k1) ((toSVec ind2 data2).drop k2))).map Int.ofNat ∧
        rv'.toList = rv.toList ++
          vals (sparseMul ((toSVec ind1 data1).drop k1) ((toSVec ind2 data2).drop k2)) := by
  intro fuel
  induction fuel with
  | zero => intro k1 k2 ri rv _ _ hf; omega
  | succ fuel ih =>
    intro k1 k2 ri rv hk1 hk2 hf
    rw [sparse_mul.loop0]
    by_cases c1 : k1 < ind1.size
    · by_cases c2 : k2 < ind2.size
      · rw [toSVec_drop_lt ind1 data1 h1 k1 c1, toSVec_drop_lt ind2 data2 h2 k2 c2]
        have c1' : (k1 : Int) < (ind1.size : Int) := Int.ofNat_lt.2 c1
        have c2' : (k2 : Int) < (ind2.size : Int) := Int.ofNat_lt.2 c2
        simp only [c1', c2', if_true, rd_lt ind1 k1 c1, rd_lt ind2 k2 c2,
          rd_lt data1 k1 (h1 ▸ c1), rd_lt data2 k2 (h2 ▸ c2)]
        have n1 := hn1 k1 c1
        have n2 := hn2 k2 c2
        have ek1 : (k1 : Int) + 1 = ((k1 + 1 : Nat) : Int) := by omega
        have ek2 : (k2 : Int) + 1 = ((k2 + 1 : Nat) : Int) := by omega
        simp only [Option.bind_eq_bind, Option.bind_some, ek1, ek2]
        rw [sparseMul]
        by_cases e : ind1[k1] = ind2[k2]
        · have e' : ind1[k1].toNat = ind2[k2].toNat := by omega
          rw [if_pos e, if_pos e']
          by_cases z : data1[k1]'(h1 ▸ c1) * data2[k2]'(h2 ▸ c2) = 0
          · obtain ⟨i1', i2', ri', rv', hL, hI, hV⟩ :=
              ih (k1 + 1) (k2 + 1) ri rv (by omega) (by omega) (by omega)
            refine ⟨i1', i2', ri', rv', ?_, ?_, ?_⟩
            · simpa [z] using hL
            · simpa [keep, z] using hI
            · simpa [keep, z] using hV
          · obtain ⟨i1', i2', ri', rv', hL, hI, hV⟩ :=
              ih (k1 + 1) (k2 + 1) (ri.push ind1[k1]) (rv.push (data1[k1]'(h1 ▸ c1) * data2[k2]'(h2 ▸ c2)))
                (by omega) (by omega) (by omega)
            refine ⟨i1', i2', ri', rv', ?_, ?_, ?_⟩
            · simpa [z] using hL
            · simpa [keep, z, inds, Int.toNat_of_nonneg n1] using hI
            · simpa [keep, z, vals] using hV
        · have e' : ¬ ind1[k1].toNat = ind2[k2].toNat := by omega
          rw [if_neg e, if_neg e']
          by_cases l : ind1[k1] < ind2[k2]
          · have l' : ind1[k1].toNat < ind2[k2].toNat := by omega
            rw [if_pos l, if_pos l']
            have := ih (k1 + 1) k2 ri rv (by omega) (by omega) (by omega)
            rw [toSVec_drop_lt ind2 data2 h2 k2 c2] at this
            exact this
          · have l' : ¬ ind1[k1].toNat < ind2[k2].toNat := by omega
            rw [if_neg l, if_neg l']
            have := ih k1 (k2 + 1) ri rv (by omega) (by omega) (by omega)
            rw [toSVec_drop_lt ind1 data1 h1 k1 c1] at this
            exact this
      · have c2' : ¬ (k2 : Int) < (ind2.size : Int) := by omega
        have c1' : (k1 : Int) < (ind1.size : Int) := by omega
        rw [if_pos c1', if_neg c2', toSVec_drop_ge ind2 data2 h2 k2 (by omega)]
        refine ⟨_, _, ri, rv, rfl, ?_, ?_⟩
        · cases (toSVec ind1 data1).drop k1 <;> simp [sparseMul, inds]
        · cases (toSVec ind1 data1).drop k1 <;> simp [sparseMul, vals]
    · have c1' : ¬ (k1 : Int) < (ind1.size : Int) := by omega
      rw [if_neg c1', toSVec_drop_ge ind1 data1 h1 k1 (by omega)]
      exact ⟨_, _, ri, rv, rfl, by simp [sparseMul, inds], by simp [sparseMul, vals]⟩

/-- **`sparse_mul`, generated kernel = model**, with memory safety (`some`): for every pair of
rows (parallel arrays of equal length, non-negative indices; no sortedness needed) and fuel
`≥ n1 + n2 + 1` the translated kernel returns the index list and the value list of the model's
`sparseMul`. -/
theorem sparse_mul_refines (ind1 ind2 : Array Int) (data1 data2 : Array α)
    (h1 : ind1.size = data1.size) (h2 : ind2.size = data2.size)
    (hn1 : NonNeg ind1) (hn2 : NonNeg ind2) (fuel : Nat) (hf : ind1.size + ind2.size + 1 ≤ fuel) :
    sparse_mul fuel ind1 data1 ind2 data2 =
      some (((inds (sparseMul (toSVec ind1 data1) (toSVec ind2 data2))).map Int.ofNat).toArray,
            (vals (sparseMul (toSVec ind1 data1) (toSVec ind2 data2))).toArray) := by
  obtain ⟨i1', i2', ri', rv', hL, hI, hV⟩ :=
    mul_loop0 ind1 ind2 data1 data2 h1 h2 hn1 hn2 fuel 0 0 #[] #[] (by omega) (by omega) (by omega)
  have e0 : ((0 : Nat) : Int) = 0 := rfl
  simp only [e0, List.drop_zero, List.nil_append] at hL hI hV
  unfold sparse_mul
  simp only [hL, Option.bind_eq_bind, Option.bind_some, Option.pure_def]
  rw [← hI, ← hV]

end Mul
/-! ### `sparse_sum`: `np.zeros` buffers with an `nnz` cursor -/
section Sum
variable {α : Type} [Zero α] [DecidableEq α] [Add α]

theorem take_set_succ {β : Type} (l : List β) (m : Nat) (v : β) (h : m < l.length) :
    (l.set m v).take (m + 1) = l.take m ++ [v] := by
  induction l generalizing m with
  | nil => simp at h
  | cons x t ih =>
    cases m with
    | zero => simp
    | succ m => simpa using ih m (by simpa using h)

/-- the output buffers hold the ghost row `out` in their first `m` slots -/
structure Buf (N : Nat) (ri : Array Int) (rv : Array α) (m : Nat) (out : SVec α) : Prop where
  si : ri.size = N
  sv : rv.size = N
  pi : ri.toList.take m = (inds out).map Int.ofNat
  pv : rv.toList.take m = vals out

theorem Buf.push {N : Nat} {ri : Array Int} {rv : Array α} {m : Nat} {out : SVec α}
    (hb : Buf N ri rv m out) (hm : m < N) (j : Int) (hj : 0 ≤ j) (v : α) :
    Buf N (ri.setIfInBounds m j) (rv.setIfInBounds m v) (m + 1) (out ++ [(j.toNat, v)]) := by
  refine ⟨by simpa using hb.si, by simpa using hb.sv, ?_, ?_⟩
  · rw [Array.toList_setIfInBounds, take_set_succ _ _ _ (by simpa [hb.si] using hm), hb.pi]
    simp [inds, Int.toNat_of_nonneg hj]
  · rw [Array.toList_setIfInBounds, take_set_succ _ _ _ (by simpa [hb.sv] using hm), hb.pv]
    simp [vals]

/-- first tail loop -/
theorem sum_loop1 (N : Nat) (ind1 : Array Int) (data1 : Array α) (h1 : ind1.size = data1.size)
    (hn1 : NonNeg ind1) :
    ∀ (fuel k1 m : Nat) (ri : Array Int) (rv : Array α) (out : SVec α), k1 ≤ ind1.size →
      m + (ind1.size - k1) ≤ N → Buf N ri rv m out → (ind1.size - k1) + 1 ≤ fuel →
      ∃ (m' : Nat) (ri' : Array Int) (rv' : Array α),
        sparse_sum.loop1 ind1 data1 fuel k1 m ri rv
          = some (.next ((ind1.size : Int), (m' : Int), ri', rv')) ∧
        m' ≤ m + (ind1.size - k1) ∧
        Buf N ri' rv' m' (out ++ tailLoop ((toSVec ind1 data1).drop k1)) := by
  intro fuel
  induction fuel with
  | zero => intro k1 m ri rv out _ _ _ hf; omega
  | succ fuel ih =>
    intro k1 m ri rv out hk1 hm hb hf
    rw [sparse_sum.loop1]
    by_cases c1 : k1 < ind1.size
    · have c1' : (k1 : Int) < (ind1.size : Int) := Int.ofNat_lt.2 c1
      have n1 := hn1 k1 c1
      have ek1 : (k1 : Int) + 1 = ((k1 + 1 : Nat) : Int) := by omega
      have em : (m : Int) + 1 = ((m + 1 : Nat) : Int) := by omega
      rw [toSVec_drop_lt ind1 data1 h1 k1 c1, tailLoop]
      simp only [c1', if_true, rd_lt ind1 k1 c1, rd_lt data1 k1 (h1 ▸ c1), Option.bind_eq_bind,
        Option.bind_some, ek1]
      by_cases z : data1[k1]'(h1 ▸ c1) = 0
      · obtain ⟨m', ri', rv', hL, hm', hB⟩ :=
          ih (k1 + 1) m ri rv out (by omega) (by omega) hb (by omega)
        refine ⟨m', ri', rv', ?_, by omega, ?_⟩
        · simpa [z] using hL
        · simpa [keep, z] using hB
      · have hm1 : m < N := by omega
        obtain ⟨m', ri', rv', hL, hm', hB⟩ :=
          ih (k1 + 1) (m + 1) _ _ _ (by omega) (by omega)
            (hb.push hm1 ind1[k1] n1 (data1[k1]'(h1 ▸ c1))) (by omega)
        refine ⟨m', ri', rv', ?_, by omega, ?_⟩
        · simp only [ne_eq, z, not_false_eq_true, if_true, wr_lt ri m _ (by rw [hb.si]; exact hm1),
            wr_lt rv m _ (by rw [hb.sv]; exact hm1), Option.bind_some, em]
          exact hL
        · simpa [keep, z] using hB
    · have c1' : ¬ (k1 : Int) < (ind1.size : Int) := by omega
      have e : k1 = ind1.size := by omega
      rw [if_neg c1', toSVec_drop_ge ind1 data1 h1 k1 (by omega)]
      refine ⟨m, ri, rv, by rw [e]; rfl, by omega, by simpa [tailLoop] using hb⟩

/-- second tail loop -/
theorem sum_loop2 (N : Nat) (ind1 : Array Int) (data1 : Array α) (h1 : ind1.size = data1.size)
    (hn1 : NonNeg ind1) :
    ∀ (fuel k1 m : Nat) (ri : Array Int) (rv : Array α) (out : SVec α), k1 ≤ ind1.size →
      m + (ind1.size - k1) ≤ N → Buf N ri rv m out → (ind1.size - k1) + 1 ≤ fuel →
      ∃ (m' : Nat) (ri' : Array Int) (rv' : Array α),
        sparse_sum.loop2 ind1 data1 fuel k1 m ri rv
          = some (.next ((ind1.size : Int), (m' : Int), ri', rv')) ∧
        m' ≤ m + (ind1.size - k1) ∧
        Buf N ri' rv' m' (out ++ tailLoop ((toSVec ind1 data1).drop k1)) := by
  intro fuel
  induction fuel with
  | zero => intro k1 m ri rv out _ _ _ hf; omega
  | succ fuel ih =>
    intro k1 m ri rv out hk1 hm hb hf
    rw [sparse_sum.loop2]
    by_cases c1 : k1 < ind1.size
    · have c1' : (k1 : Int) < (ind1.size : Int) := Int.ofNat_lt.2 c1
      have n1 := hn1 k1 c1
      have ek1 : (k1 : Int) + 1 = ((k1 + 1 : Nat) : Int) := by omega
      have em : (m : Int) + 1 = ((m + 1 : Nat) : Int) := by omega
      rw [toSVec_drop_lt ind1 data1 h1 k1 c1, tailLoop]
      simp only [c1', if_true, rd_lt ind1 k1 c1, rd_lt data1 k1 (h1 ▸ c1), Option.bind_eq_bind,
        Option.bind_some, ek1]
      by_cases z : data1[k1]'(h1 ▸ c1) = 0
      · obtain ⟨m', ri', rv', hL, hm', hB⟩ :=
          ih (k1 + 1) m ri rv out (by omega) (by omega) hb (by omega)
        refine ⟨m', ri', rv', ?_, by omega, ?_⟩
        · simpa [z] using hL
        · simpa [keep, z] using hB
      · have hm1 : m < N := by omega
        obtain ⟨m', ri', rv', hL, hm', hB⟩ :=
          ih (k1 + 1) (m + 1) _ _ _ (by omega) (by omega)
            (hb.push hm1 ind1[k1] n1 (data1[k1]'(h1 ▸ c1))) (by omega)
        refine ⟨m', ri', rv', ?_, by omega, ?_⟩
        · simp only [ne_eq, z, not_false_eq_true, if_true, wr_lt ri m _ (by rw [hb.si]; exact hm1),
            wr_lt rv m _ (by rw [hb.sv]; exact hm1), Option.bind_some, em]
          exact hL
        · simpa [keep, z] using hB
    · have c1' : ¬ (k1 : Int) < (ind1.size : Int) := by omega
      have e : k1 = ind1.size := by omega
      rw [if_neg c1', toSVec_drop_ge ind1 data1 h1 k1 (by omega)]
      refine ⟨m, ri, rv, by rw [e]; rfl, by omega, by simpa [tailLoop] using hb⟩


theorem sparseSum_nil_right (a : SVec α) : sparseSum a [] = tailLoop a := by
  cases a <;> simp [sparseSum]

theorem sparseSum_nil_left (b : SVec α) : sparseSum [] b = tailLoop b := by
  simp [sparseSum]

/-- main loop: runs until one cursor reaches its end; `m + (n1-k1) + (n2-k2) ≤ N` (equivalently
`nnz ≤ i1 + i2` for `N = n1 + n2`) keeps every store in bounds -/
theorem sum_loop0 (N : Nat) (ind1 ind2 : Array Int) (data1 data2 : Array α)
    (h1 : ind1.size = data1.size) (h2 : ind2.size = data2.size)
    (hn1 : NonNeg ind1) (hn2 : NonNeg ind2) :
    ∀ (fuel k1 k2 m : Nat) (ri : Array Int) (rv : Array α) (out : SVec α),
      k1 ≤ ind1.size → k2 ≤ ind2.size →
      m + (ind1.size - k1) + (ind2.size - k2) ≤ N → Buf N ri rv m out →
      (ind1.size - k1) + (ind2.size - k2) + 1 ≤ fuel →
      ∃ (k1' k2' m' : Nat) (ri' : Array Int) (rv' : Array α) (out' : SVec α),
        sparse_sum.loop0 ind1 data1 ind2 data2 fuel k1 k2 m ri rv
          = some (.next ((k1' : Int), (k2' : Int), (m' : Int), ri', rv')) ∧
        k1' ≤ ind1.size ∧ k2' ≤ ind2.size ∧ (k1' = ind1.size ∨ k2' = ind2.size) ∧
        m' + (ind1.size - k1') + (ind2.size - k2') ≤ N ∧ Buf N ri' rv' m' out' ∧
        out ++ sparseSum ((toSVec ind1 data1).drop k1) ((toSVec ind2 data2).drop k2)
          = out' ++ sparseSum ((toSVec ind1 data1).drop k1') ((toSVec ind2 data2).drop k2') := by
  intro fuel
  induction fuel with
  | zero => intro k1 k2 m ri rv out _ _ _ _ hf; omega
  | succ fuel ih =>
    intro k1 k2 m ri rv out hk1 hk2 hm hb hf
    rw [sparse_sum.loop0]
    by_cases c1 : k1 < ind1.size
    · by_cases c2 : k2 < ind2.size
      · have c1' : (k1 : Int) < (ind1.size : Int) := Int.ofNat_lt.2 c1
        have c2' : (k2 : Int) < (ind2.size : Int) := Int.ofNat_lt.2 c2
        have n1 := hn1 k1 c1
        have n2 := hn2 k2 c2
        have ek1 : (k1 : Int) + 1 = ((k1 + 1 : Nat) : Int) := by omega
        have ek2 : (k2 : Int) + 1 = ((k2 + 1 : Nat) : Int) := by omega
        have em : (m : Int) + 1 = ((m + 1 : Nat) : Int) := by omega
        have hm1 : m < N := by omega
        have wi : ∀ j, wr ri (m : Int) j = some (ri.setIfInBounds m j) :=
          fun j => wr_lt ri m j (by rw [hb.si]; exact hm1)
        have wv : ∀ v, wr rv (m : Int) v = some (rv.setIfInBounds m v) :=
          fun v => wr_lt rv m v (by rw [hb.sv]; exact hm1)
        rw [toSVec_drop_lt ind1 data1 h1 k1 c1, toSVec_drop_lt ind2 data2 h2 k2 c2]
        simp only [c1', c2', if_true, rd_lt ind1 k1 c1, rd_lt ind2 k2 c2,
          rd_lt data1 k1 (h1 ▸ c1), rd_lt data2 k2 (h2 ▸ c2), Option.bind_eq_bind,
          Option.bind_some, ek1, ek2]
        rw [sparseSum]
        by_cases e : ind1[k1] = ind2[k2]
        · have e' : ind1[k1].toNat = ind2[k2].toNat := by omega
          rw [if_pos e, if_pos e']
          by_cases z : data1[k1]'(h1 ▸ c1) + data2[k2]'(h2 ▸ c2) = 0
          · obtain ⟨k1', k2', m', ri', rv', out', hL, g1, g2, g3, g4, g5, g6⟩ :=
              ih (k1 + 1) (k2 + 1) m ri rv out (by omega) (by omega) (by omega) hb (by omega)
            refine ⟨k1', k2', m', ri', rv', out', ?_, g1, g2, g3, g4, g5, ?_⟩
            · simpa [z] using hL
            · simpa [keep, z] using g6
          · obtain ⟨k1', k2', m', ri', rv', out', hL, g1, g2, g3, g4, g5, g6⟩ :=
              ih (k1 + 1) (k2 + 1) (m + 1) _ _ _ (by omega) (by omega) (by omega)
                (hb.push hm1 ind1[k1] n1 (data1[k1]'(h1 ▸ c1) + data2[k2]'(h2 ▸ c2))) (by omega)
            refine ⟨k1', k2', m', ri', rv', out', ?_, g1, g2, g3, g4, g5, ?_⟩
            · simp only [ne_eq, z, not_false_eq_true, if_true, wi, wv, Option.bind_some, em]
              exact hL
            · simpa [keep, z] using g6
        · have e' : ¬ ind1[k1].toNat = ind2[k2].toNat := by omega
          rw [if_neg e, if_neg e']
          by_cases l : ind1[k1] < ind2[k2]
          · have l' : ind1[k1].toNat < ind2[k2].toNat := by omega
            rw [if_pos l, if_pos l']
            by_cases z : data1[k1]'(h1 ▸ c1) = 0
            · obtain ⟨k1', k2', m', ri', rv', out', hL, g1, g2, g3, g4, g5, g6⟩ :=
                ih (k1 + 1) k2 m ri rv out (by omega) (by omega) (by omega) hb (by omega)
              rw [toSVec_drop_lt ind2 data2 h2 k2 c2] at g6
              refine ⟨k1', k2', m', ri', rv', out', ?_, g1, g2, g3, g4, g5, ?_⟩
              · simpa [z] using hL
              · simpa [keep, z] using g6
            · obtain ⟨k1', k2', m', ri', rv', out', hL, g1, g2, g3, g4, g5, g6⟩ :=
                ih (k1 + 1) k2 (m + 1) _ _ _ (by omega) (by omega) (by omega)
                  (hb.push hm1 ind1[k1] n1 (data1[k1]'(h1 ▸ c1))) (by omega)
              rw [toSVec_drop_lt ind2 data2 h2 k2 c2] at g6
              refine ⟨k1', k2', m', ri', rv', out', ?_, g1, g2, g3, g4, g5, ?_⟩
              · simp only [ne_eq, z, not_false_eq_true, if_true, wi, wv, Option.bind_some, em]
                exact hL
              · simpa [keep, z] using g6
          · have l' : ¬ ind1[k1].toNat < ind2[k2].toNat := by omega
            rw [if_neg l, if_neg l']
            by_cases z : data2[k2]'(h2 ▸ c2) = 0
            · obtain ⟨k1', k2', m', ri', rv', out', hL, g1, g2, g3, g4, g5, g6⟩ :=
                ih k1 (k2 + 1) m ri rv out (by omega) (by omega) (by omega) hb (by omega)
              rw [toSVec_drop_lt ind1 data1 h1 k1 c1] at g6
              refine ⟨k1', k2', m', ri', rv', out', ?_, g1, g2, g3, g4, g5, ?_⟩
              · simpa [z] using hL
              · simpa [keep, z] using g6
            · obtain ⟨k1', k2', m', ri', rv', out', hL, g1, g2, g3, g4, g5, g6⟩ :=
                ih k1 (k2 + 1) (m + 1) _ _ _ (by omega) (by omega) (by omega)
                  (hb.push hm1 ind2[k2] n2 (data2[k2]'(h2 ▸ c2))) (by omega)
              rw [toSVec_drop_lt ind1 data1 h1 k1 c1] at g6
              refine ⟨k1', k2', m', ri', rv', out', ?_, g1, g2, g3, g4, g5, ?_⟩
              · simp only [ne_eq, z, not_false_eq_true, if_true, wi, wv, Option.bind_some, em]
                exact hL
              · simpa [keep, z] using g6
      · have c2' : ¬ (k2 : Int) < (ind2.size : Int) := by omega
        have c1' : (k1 : Int) < (ind1.size : Int) := by omega
        rw [if_pos c1', if_neg c2']
        exact ⟨k1, k2, m, ri, rv, out, rfl, by omega, by omega, Or.inr (by omega), hm, hb, rfl⟩
    · have c1' : ¬ (k1 : Int) < (ind1.size : Int) := by omega
      rw [if_neg c1']
      exact ⟨k1, k2, m, ri, rv, out, rfl, by omega, by omega, Or.inl (by omega), hm, hb, rfl⟩

/-- **`sparse_sum`, generated kernel = model**, with memory safety: for every pair of rows
(parallel arrays of equal length, non-negative indices; no sortedness needed) and fuel
`≥ n1 + n2 + 1`, the translated kernel (zero-filled buffers of size `n1 + n2`, `nnz` cursor,
main loop and two tail loops, final `[:nnz]` slices) performs no out-of-bounds access and returns
the index list and the value list of the model's `sparseSum`. -/
theorem sparse_sum_refines (ind1 ind2 : Array Int) (data1 data2 : Array α)
    (h1 : ind1.size = data1.size) (h2 : ind2.size = data2.size)
    (hn1 : NonNeg ind1) (hn2 : NonNeg ind2) (fuel : Nat) (hf : ind1.size + ind2.size + 1 ≤ fuel) :
    sparse_sum fuel ind1 data1 ind2 data2 =
      some (((inds (sparseSum (toSVec ind1 data1) (toSVec ind2 data2))).map Int.ofNat).toArray,
            (vals (sparseSum (toSVec ind1 data1) (toSVec ind2 data2))).toArray) := by
  have hz : ((ind1.size : Int) + (ind2.size : Int)).toNat = ind1.size + ind2.size := by omega
  have hb0 : Buf (ind1.size + ind2.size) (zeros ((ind1.size : Int) + (ind2.size : Int)) : Array Int)
      (zeros ((ind1.size : Int) + (ind2.size : Int)) : Array α) 0 [] :=
    ⟨by simp [zeros, hz], by simp [zeros, hz], by simp [inds], by simp [vals]⟩
  obtain ⟨k1, k2, m, ri, rv, out, hL0, g1, g2, g3, g4, g5, g6⟩ :=
    sum_loop0 (ind1.size + ind2.size) ind1 ind2 data1 data2 h1 h2 hn1 hn2 fuel 0 0 0 _ _ [] (by omega)
      (by omega) (by omega) hb0 (by omega)
  obtain ⟨m1, ri1, rv1, hL1, g7, g8⟩ :=
    sum_loop1 (ind1.size + ind2.size) ind1 data1 h1 hn1 fuel k1 m ri rv out g1 (by omega) g5 (by omega)
  obtain ⟨m2, ri2, rv2, hL2, g9, g10⟩ :=
    sum_loop2 (ind1.size + ind2.size) ind2 data2 h2 hn2 fuel k2 m1 ri1 rv1 _ g2 (by omega) g8 (by omega)
  have e0 : ((0 : Nat) : Int) = 0 := rfl
  simp only [e0, List.drop_zero, List.nil_append] at hL0 g6
  have hS : sparseSum (toSVec ind1 data1) (toSVec ind2 data2)
      = out ++ tailLoop ((toSVec ind1 data1).drop k1) ++ tailLoop ((toSVec ind2 data2).drop k2) := by
    rw [g6]
    rcases g3 with e | e
    · rw [toSVec_drop_ge ind1 data1 h1 k1 (by omega), sparseSum_nil_left]; simp [tailLoop]
    · rw [toSVec_drop_ge ind2 data2 h2 k2 (by omega), sparseSum_nil_right]; simp [tailLoop]
  have t1 : take ri2 (m2 : Int) = some (ri2.extract 0 m2) := by
    simp [take, g10.si]; omega
  have t2 : take rv2 (m2 : Int) = some (rv2.extract 0 m2) := by
    simp [take, g10.sv]; omega
  unfold sparse_sum
  simp only [hL0, hL1, hL2, t1, t2, Option.bind_eq_bind, Option.bind_some, Option.pure_def]
  rw [hS]
  congr 1
  refine Prod.ext ?_ ?_
  · apply Array.toList_inj.1
    simpa using g10.pi
  · apply Array.toList_inj.1
    simpa using g10.pv

end Sum

/-! ### `sparse_dot_product` -/
section Dot
variable {α : Type} [Zero α] [DecidableEq α] [Add α] [Mul α]

/-- the `while True` loop, entered with both cursors in range and `j1`, `j2` loaded; it always
leaves by `return` -/
theorem dot_loop0 (ind1 ind2 : Array Int) (data1 data2 : Array α)
    (h1 : ind1.size = data1.size) (h2 : ind2.size = data2.size)
    (hn1 : NonNeg ind1) (hn2 : NonNeg ind2) :
    ∀ (fuel k1 k2 : Nat) (r : α) (c1 : k1 < ind1.size) (c2 : k2 < ind2.size),
      (ind1.size - k1) + (ind2.size - k2) ≤ fuel + 1 →
      sparse_dot_product.loop0 ind1 data1 ind2 data2 (ind1.size : Int) (ind2.size : Int) fuel r
          (k1 : Int) (k2 : Int) ind1[k1] ind2[k2]
        = some (.ret (dotLoop r ((toSVec ind1 data1).drop k1) ((toSVec ind2 data2).drop k2))) := by
  intro fuel
  induction fuel with
  | zero => intro k1 k2 r c1 c2 hf; omega
  | succ fuel ih =>
    intro k1 k2 r c1 c2 hf
    rw [sparse_dot_product.loop0]
    have n1 := hn1 k1 c1
    have n2 := hn2 k2 c2
    have ek1 : (k1 : Int) + 1 = ((k1 + 1 : Nat) : Int) := by omega
    have ek2 : (k2 : Int) + 1 = ((k2 + 1 : Nat) : Int) := by omega
    rw [toSVec_drop_lt ind1 data1 h1 k1 c1, toSVec_drop_lt ind2 data2 h2 k2 c2, dotLoop]
    simp only [rd_lt data1 k1 (h1 ▸ c1), rd_lt data2 k2 (h2 ▸ c2), Option.bind_eq_bind,
      Option.bind_some, ek1, ek2, toSVec_drop_isEmpty ind1 data1 h1, toSVec_drop_isEmpty ind2 data2 h2]
    by_cases e : ind1[k1] = ind2[k2]
    · have e' : ind1[k1].toNat = ind2[k2].toNat := by omega
      rw [if_pos e, if_pos e']
      by_cases d1 : k1 + 1 < ind1.size
      · have d1' : ¬ ((k1 + 1 : Nat) : Int) ≥ (ind1.size : Int) := by omega
        have d1'' : ¬ ind1.size ≤ k1 + 1 := by omega
        by_cases d2 : k2 + 1 < ind2.size
        · have d2' : ¬ ((k2 + 1 : Nat) : Int) ≥ (ind2.size : Int) := by omega
          have d2'' : ¬ ind2.size ≤ k2 + 1 := by omega
          simp only [d1', d2', d1'', d2'', if_false, decide_false, rd_lt ind1 (k1 + 1) d1,
            rd_lt ind2 (k2 + 1) d2, Option.bind_some]
          exact ih (k1 + 1) (k2 + 1) _ d1 d2 (by omega)
        · have d2' : ((k2 + 1 : Nat) : Int) ≥ (ind2.size : Int) := by omega
          have d2'' : ind2.size ≤ k2 + 1 := by omega
          simp only [d1', if_false, rd_lt ind1 (k1 + 1) d1, Option.bind_some]
          rw [if_pos d2']
          simp [d1'', d2'']
      · have d1' : ((k1 + 1 : Nat) : Int) ≥ (ind1.size : Int) := by omega
        have d1'' : ind1.size ≤ k1 + 1 := by omega
        rw [if_pos d1']
        simp [d1'']
    · have e' : ¬ ind1[k1].toNat = ind2[k2].toNat := by omega
      rw [if_neg e, if_neg e']
      by_cases l : ind1[k1] < ind2[k2]
      · have l' : ind1[k1].toNat < ind2[k2].toNat := by omega
        rw [if_pos l, if_pos l']
        by_cases d1 : k1 + 1 < ind1.size
        · have d1' : ¬ ((k1 + 1 : Nat) : Int) ≥ (ind1.size : Int) := by omega
          have d1'' : ¬ ind1.size ≤ k1 + 1 := by omega
          simp only [d1', d1'', if_false, decide_false, rd_lt ind1 (k1 + 1) d1, Option.bind_some]
          have := ih (k1 + 1) k2 r d1 c2 (by omega)
          rw [toSVec_drop_lt ind2 data2 h2 k2 c2] at this
          exact this
        · have d1' : ((k1 + 1 : Nat) : Int) ≥ (ind1.size : Int) := by omega
          have d1'' : ind1.size ≤ k1 + 1 := by omega
          rw [if_pos d1']
          simp [d1'']
      · have l' : ¬ ind1[k1].toNat < ind2[k2].toNat := by omega
        rw [if_neg l, if_neg l']
        by_cases d2 : k2 + 1 < ind2.size
        · have d2' : ¬ ((k2 + 1 : Nat) : Int) ≥ (ind2.size : Int) := by omega
          have d2'' : ¬ ind2.size ≤ k2 + 1 := by omega
          simp only [d2', d2'', if_false, decide_false, rd_lt ind2 (k2 + 1) d2, Option.bind_some]
          have := ih k1 (k2 + 1) r c1 d2 (by omega)
          rw [toSVec_drop_lt ind1 data1 h1 k1 c1] at this
          exact this
        · have d2' : ((k2 + 1 : Nat) : Int) ≥ (ind2.size : Int) := by omega
          have d2'' : ind2.size ≤ k2 + 1 := by omega
          rw [if_pos d2']
          simp [d2'']

omit [DecidableEq α] in
/-- **`sparse_dot_product` with an empty operand reads out of bounds**: the translated kernel
evaluates `ind1[0]`, `ind2[0]` before any length test, so it is `none` (for every fuel and
whatever the other arrays are). -/
theorem sparse_dot_product_empty_oob (ind1 ind2 : Array Int) (data1 data2 : Array α) (fuel : Nat)
    (h : ind1.size = 0 ∨ ind2.size = 0) :
    sparse_dot_product fuel ind1 data1 ind2 data2 = none := by
  unfold sparse_dot_product
  by_cases c1 : 0 < ind1.size
  · have r1 : rd ind1 (0 : Int) = some ind1[0] := rd_lt ind1 0 c1
    have r2 : rd ind2 (0 : Int) = none := rd_ge ind2 0 (by omega)
    simp only [r1, r2, Option.bind_eq_bind, Option.bind_some, Option.bind_none]
  · have r1 : rd ind1 (0 : Int) = none := rd_ge ind1 0 (by omega)
    simp only [r1, Option.bind_eq_bind, Option.bind_none]

/-- **`sparse_dot_product`, generated kernel = model** for non-empty operands, with memory
safety: the result is `some` of the model's `dotLoop 0`, for fuel `≥ n1 + n2`. -/
theorem sparse_dot_product_refines (ind1 ind2 : Array Int) (data1 data2 : Array α)
    (h1 : ind1.size = data1.size) (h2 : ind2.size = data2.size)
    (hn1 : NonNeg ind1) (hn2 : NonNeg ind2) (c1 : 0 < ind1.size) (c2 : 0 < ind2.size)
    (fuel : Nat) (hf : ind1.size + ind2.size ≤ fuel) :
    sparse_dot_product fuel ind1 data1 ind2 data2
      = some (dotLoop 0 (toSVec ind1 data1) (toSVec ind2 data2)) := by
  have r1 : rd ind1 (0 : Int) = some ind1[0] := rd_lt ind1 0 c1
  have r2 : rd ind2 (0 : Int) = some ind2[0] := rd_lt ind2 0 c2
  have e0 : ((0 : Nat) : Int) = 0 := rfl
  have := dot_loop0 ind1 ind2 data1 data2 h1 h2 hn1 hn2 fuel 0 0 0 c1 c2 (by omega)
  simp only [List.drop_zero, e0] at this
  unfold sparse_dot_product
  simp only [r1, r2, Option.bind_eq_bind, Option.bind_some, this, Option.pure_def]

/-- for every input (empty or not) the translated kernel and the model's `sparseDotProduct`
agree, `none` = out-of-bounds read included -/
theorem sparse_dot_product_eq_model (ind1 ind2 : Array Int) (data1 data2 : Array α)
    (h1 : ind1.size = data1.size) (h2 : ind2.size = data2.size)
    (hn1 : NonNeg ind1) (hn2 : NonNeg ind2) (fuel : Nat) (hf : ind1.size + ind2.size ≤ fuel) :
    sparse_dot_product fuel ind1 data1 ind2 data2
      = sparseDotProduct (toSVec ind1 data1) (toSVec ind2 data2) := by
  by_cases c1 : 0 < ind1.size
  · by_cases c2 : 0 < ind2.size
    · rw [sparse_dot_product_refines ind1 ind2 data1 data2 h1 h2 hn1 hn2 c1 c2 fuel hf]
      have a1 := toSVec_drop_lt ind1 data1 h1 0 c1
      have a2 := toSVec_drop_lt ind2 data2 h2 0 c2
      rw [List.drop_zero] at a1 a2
      rw [a1, a2]; rfl
    · rw [sparse_dot_product_empty_oob ind1 ind2 data1 data2 fuel (Or.inr (by omega))]
      have a1 := toSVec_drop_lt ind1 data1 h1 0 c1
      have a2 := toSVec_drop_ge ind2 data2 h2 0 (by omega)
      rw [List.drop_zero] at a1 a2
      rw [a1, a2]; rfl
  · rw [sparse_dot_product_empty_oob ind1 ind2 data1 data2 fuel (Or.inl (by omega))]
    have a1 := toSVec_drop_ge ind1 data1 h1 0 (by omega)
    rw [List.drop_zero] at a1
    rw [a1]; rfl

end Dot

/-! ### `fast_intersection_size` -/
section Isect

theorem toNats_drop_lt (ar : Array Int) (k : Nat) (hk : k < ar.size) :
    (toNats ar).drop k = ar[k].toNat :: (toNats ar).drop (k + 1) := by
  have hl : k < (toNats ar).length := by simpa [toNats] using hk
  rw [List.drop_eq_getElem_cons hl]
  simp [toNats]

theorem toNats_drop_ge (ar : Array Int) (k : Nat) (hk : ar.size ≤ k) : (toNats ar).drop k = [] := by
  apply List.drop_eq_nil_of_le
  simpa [toNats] using hk

theorem toNats_drop_isEmpty (ar : Array Int) (k : Nat) :
    ((toNats ar).drop k).isEmpty = decide (ar.size ≤ k) := by
  by_cases hk : k < ar.size
  · rw [toNats_drop_lt ar k hk]; simp; omega
  · rw [toNats_drop_ge ar k (by omega)]; simp; omega

/-- the `result` component of the loop's final state -/
def outRes : LoopOut (Int × Int × Int × Int × Int) Int → Int
  | .next s => s.1
  | .ret r => r

/-- the `while True` loop, entered with both cursors in range and `j1`, `j2` loaded; it always
terminates within the fuel and in bounds, `result` being the model's count -/
theorem isect_loop0 (ar1 ar2 : Array Int) (hn1 : NonNeg ar1) (hn2 : NonNeg ar2) :
    ∀ (fuel k1 k2 r : Nat) (c1 : k1 < ar1.size) (c2 : k2 < ar2.size),
      (ar1.size - k1) + (ar2.size - k2) ≤ fuel + 1 →
      (fast_intersection_size.loop0 ar1 ar2 ((ar1.size : Int) - 1) ((ar2.size : Int) - 1) fuel
            (r : Int) (k1 : Int) (k2 : Int) ar1[k1] ar2[k2]).map outRes
          = some ((isectLoop r ((toNats ar1).drop k1) ((toNats ar2).drop k2) : Nat) : Int) := by
  intro fuel
  induction fuel with
  | zero => intro k1 k2 r c1 c2 hf; omega
  | succ fuel ih =>
    intro k1 k2 r c1 c2 hf
    rw [fast_intersection_size.loop0]
    have n1 := hn1 k1 c1
    have n2 := hn2 k2 c2
    have ek1 : (k1 : Int) + 1 = ((k1 + 1 : Nat) : Int) := by omega
    have ek2 : (k2 : Int) + 1 = ((k2 + 1 : Nat) : Int) := by omega
    have er : (r : Int) + 1 = ((r + 1 : Nat) : Int) := by omega
    rw [toNats_drop_lt ar1 k1 c1, toNats_drop_lt ar2 k2 c2, isectLoop]
    simp only [Option.bind_eq_bind, ek1, ek2, er, toNats_drop_isEmpty]
    by_cases e : ar1[k1] = ar2[k2]
    · have e' : ar1[k1].toNat = ar2[k2].toNat := by omega
      rw [if_pos e, if_pos e']
      by_cases d1 : k1 + 1 < ar1.size
      · have d1' : (k1 : Int) < (ar1.size : Int) - 1 := by omega
        have d1'' : ¬ ar1.size ≤ k1 + 1 := by omega
        by_cases d2 : k2 + 1 < ar2.size
        · have d2' : (k2 : Int) < (ar2.size : Int) - 1 := by omega
          have d2'' : ¬ ar2.size ≤ k2 + 1 := by omega
          simp only [d1', d2', d1'', d2'', if_true, decide_false, rd_lt ar1 (k1 + 1) d1,
            rd_lt ar2 (k2 + 1) d2, Option.bind_some]
          exact ih (k1 + 1) (k2 + 1) (r + 1) d1 d2 (by omega)
        · have d2' : ¬ (k2 : Int) < (ar2.size : Int) - 1 := by omega
          have d2'' : ar2.size ≤ k2 + 1 := by omega
          simp only [d1', if_true, rd_lt ar1 (k1 + 1) d1, Option.bind_some]
          rw [if_neg d2']
          simp [outRes, d1'', d2'']
      · have d1' : ¬ (k1 : Int) < (ar1.size : Int) - 1 := by omega
        have d1'' : ar1.size ≤ k1 + 1 := by omega
        rw [if_neg d1']
        simp [outRes, d1'']
    · have e' : ¬ ar1[k1].toNat = ar2[k2].toNat := by omega
      rw [if_neg e, if_neg e']
      by_cases l : ar1[k1] < ar2[k2]
      · have l' : ar1[k1].toNat < ar2[k2].toNat := by omega
        have g : ¬ ar2[k2] < ar1[k1] := by omega
        have g' : ¬ ar2[k2].toNat < ar1[k1].toNat := by omega
        rw [if_pos l]
        by_cases d1 : k1 + 1 < ar1.size
        · have d1' : (k1 : Int) < (ar1.size : Int) - 1 := by omega
          have d1'' : ¬ ar1.size ≤ k1 + 1 := by omega
          simp only [d1', d1'', l', if_true, decide_false, rd_lt ar1 (k1 + 1) d1, Option.bind_some]
          have := ih (k1 + 1) k2 r d1 c2 (by omega)
          rw [toNats_drop_lt ar2 k2 c2] at this
          simpa using this
        · have d1' : ¬ (k1 : Int) < (ar1.size : Int) - 1 := by omega
          have d1'' : ar1.size ≤ k1 + 1 := by omega
          rw [if_neg d1', if_neg g]
          simp [outRes, d1'', g']
      · have l' : ¬ ar1[k1].toNat < ar2[k2].toNat := by omega
        have g : ar2[k2] < ar1[k1] := by omega
        have g' : ar2[k2].toNat < ar1[k1].toNat := by omega
        rw [if_neg l, if_pos g]
        by_cases d2 : k2 + 1 < ar2.size
        · have d2' : (k2 : Int) < (ar2.size : Int) - 1 := by omega
          have d2'' : ¬ ar2.size ≤ k2 + 1 := by omega
          simp only [d2', d2'', if_true, rd_lt ar2 (k2 + 1) d2, Option.bind_some]
          have := ih k1 (k2 + 1) r c1 d2 (by omega)
          rw [toNats_drop_lt ar1 k1 c1] at this
          simpa [l', g', d2''] using this
        · have d2' : ¬ (k2 : Int) < (ar2.size : Int) - 1 := by omega
          have d2'' : ar2.size ≤ k2 + 1 := by omega
          rw [if_neg d2']
          simp [outRes, l', d2'']

/-- **`fast_intersection_size`, generated kernel = model**, with memory safety: for all index
arrays with non-negative entries (sorted or not) and fuel `≥ n1 + n2` the translated kernel
returns the model's `intersectionSize`. -/
theorem fast_intersection_size_refines (ar1 ar2 : Array Int) (hn1 : NonNeg ar1) (hn2 : NonNeg ar2)
    (fuel : Nat) (hf : ar1.size + ar2.size ≤ fuel) :
    fast_intersection_size fuel ar1 ar2
      = some ((intersectionSize (toNats ar1) (toNats ar2) : Nat) : Int) := by
  unfold fast_intersection_size intersectionSize
  by_cases c1 : 0 < ar1.size
  · by_cases c2 : 0 < ar2.size
    · have r1 : rd ar1 (0 : Int) = some ar1[0] := rd_lt ar1 0 c1
      have r2 : rd ar2 (0 : Int) = some ar2[0] := rd_lt ar2 0 c2
      have z1 : ¬ (ar1.size : Int) = 0 := by omega
      have z2 : ¬ (ar2.size : Int) = 0 := by omega
      have a1 := toNats_drop_isEmpty ar1 0
      have a2 := toNats_drop_isEmpty ar2 0
      have hL := isect_loop0 ar1 ar2 hn1 hn2 fuel 0 0 0 c1 c2 (by omega)
      have e0 : ((0 : Nat) : Int) = 0 := rfl
      simp only [List.drop_zero, e0] at hL a1 a2
      obtain ⟨o, hL, ho⟩ := Option.map_eq_some_iff.1 hL
      have b1 : ¬ ar1.size ≤ 0 := by omega
      have b2 : ¬ ar2.size ≤ 0 := by omega
      simp only [z1, z2, if_false, r1, r2, Option.bind_eq_bind, Option.bind_some, hL, Option.pure_def,
        a1, a2, b1, b2, decide_false, Bool.false_eq_true, or_self]
      rw [← ho]
      cases o <;> rfl
    · have z2 : (ar2.size : Int) = 0 := by omega
      have a2 := toNats_drop_isEmpty ar2 0
      rw [List.drop_zero] at a2
      simp [a2, show ar2.size = 0 by omega]
  · have z1 : (ar1.size : Int) = 0 := by omega
    have a1 := toNats_drop_isEmpty ar1 0
    rw [List.drop_zero] at a1
    simp [a1, show ar1.size = 0 by omega]

end Isect

end Pynn.GenMerge
