import PynnVerif.Model.Transformer

/-!
# Lemmas about the `transform` model (C18)

* `mem_coo` — the COO triples are exactly the slots with a non-negative index;
* `insertSum` / `tocsr` — canonical (strictly increasing) order always; a permutation of the
  input when no coordinate occurs twice (nothing is summed);
* `coo_keys_nodup` — distinct non-negative indices per row give distinct coordinates;
* counting lemmas (`coo_length`, `coo_countP_row`).

Core Lean only (no Mathlib).
-/
namespace Pynn.Xf
variable {D : Type}

/-- the coordinates `(row, col)` of a triple list -/
abbrev keys (es : List (Nat × Nat × D)) : List (Nat × Nat) := es.map (fun e => (e.1, e.2.1))

/-- the triples one row contributes -/
abbrev rowTriples (i : Nat) (ir : List Int) (dr : List D) : List (Nat × Nat × D) :=
  (ir.zip dr).filterMap (fun cd => if 0 ≤ cd.1 then some (i, cd.1.toNat, cd.2) else none)

/-- `coo` with the row numbering started at `k` -/
def cooFrom (k : Nat) (inds : List (List Int)) (dists : List (List D)) : List (Nat × Nat × D) :=
  ((inds.zip dists).zipIdx k).flatMap (fun rowi => rowTriples rowi.2 rowi.1.1 rowi.1.2)

theorem coo_eq_cooFrom (inds : List (List Int)) (dists : List (List D)) :
    coo inds dists = cooFrom 0 inds dists := rfl

@[simp] theorem cooFrom_nil_left (k : Nat) (dists : List (List D)) : cooFrom k [] dists = [] := by
  simp [cooFrom]

@[simp] theorem cooFrom_nil_right (k : Nat) (inds : List (List Int)) :
    cooFrom k inds ([] : List (List D)) = [] := by
  simp [cooFrom]

theorem cooFrom_cons (k : Nat) (ir : List Int) (inds : List (List Int)) (dr : List D)
    (dists : List (List D)) :
    cooFrom k (ir :: inds) (dr :: dists) = rowTriples k ir dr ++ cooFrom (k + 1) inds dists := by
  simp [cooFrom, List.zipIdx_cons]

/-! ## membership -/

theorem mem_rowTriples (i : Nat) (ir : List Int) (dr : List D) (e : Nat × Nat × D) :
    e ∈ rowTriples i ir dr ↔
      e.1 = i ∧ ∃ j : Nat, ir[j]? = some (e.2.1 : Int) ∧ dr[j]? = some e.2.2 := by
  obtain ⟨r, c, d⟩ := e
  rw [List.mem_filterMap]
  constructor
  · rintro ⟨⟨c', d'⟩, hmem, h⟩
    obtain ⟨j, hj⟩ := List.mem_iff_getElem?.mp hmem
    obtain ⟨hj1, hj2⟩ := List.getElem?_zip_eq_some.mp hj
    simp only at hj1 hj2 h
    split at h
    · rename_i hc
      simp only [Option.some.injEq, Prod.mk.injEq] at h
      obtain ⟨rfl, rfl, rfl⟩ := h
      refine ⟨rfl, j, ?_, hj2⟩
      rw [hj1, Int.toNat_of_nonneg hc]
    · cases h
  · rintro ⟨rfl, j, hj1, hj2⟩
    refine ⟨((c : Int), d), ?_, ?_⟩
    · exact List.mem_iff_getElem?.mpr ⟨j, List.getElem?_zip_eq_some.mpr ⟨hj1, hj2⟩⟩
    · simp

theorem mem_cooFrom (k : Nat) (inds : List (List Int)) (dists : List (List D)) (e : Nat × Nat × D) :
    e ∈ cooFrom k inds dists ↔
      ∃ (i : Nat) (ir : List Int) (dr : List D) (j : Nat), e.1 = k + i ∧ inds[i]? = some ir ∧ dists[i]? = some dr ∧
        ir[j]? = some (e.2.1 : Int) ∧ dr[j]? = some e.2.2 := by
  unfold cooFrom
  rw [List.mem_flatMap]
  constructor
  · rintro ⟨⟨⟨ir, dr⟩, r⟩, hmem, he⟩
    obtain ⟨hk, hz⟩ := List.mem_zipIdx_iff_le_and_getElem?_sub.mp hmem
    obtain ⟨h1, h2⟩ := List.getElem?_zip_eq_some.mp hz
    obtain ⟨he1, j, hj⟩ := (mem_rowTriples _ _ _ _).mp he
    simp only at hk h1 h2 he1 hj
    refine ⟨r - k, ir, dr, j, by omega, h1, h2, hj⟩
  · rintro ⟨i, ir, dr, j, he, h1, h2, hj⟩
    refine ⟨((ir, dr), k + i), ?_, ?_⟩
    · refine List.mem_zipIdx_iff_le_and_getElem?_sub.mpr ⟨by simp, ?_⟩
      refine List.getElem?_zip_eq_some.mpr ⟨?_, ?_⟩ <;> simpa using ‹_›
    · exact (mem_rowTriples _ _ _ _).mpr ⟨he, j, hj⟩

/-- the COO triples are exactly the slots holding a non-negative index, with that slot's distance;
slots holding a negative index (the `-1` "no neighbour found" marker) contribute nothing -/
theorem mem_coo (inds : List (List Int)) (dists : List (List D)) (i c : Nat) (d : D) :
    (i, c, d) ∈ coo inds dists ↔
      ∃ (ir : List Int) (dr : List D) (j : Nat), inds[i]? = some ir ∧ dists[i]? = some dr ∧
        ir[j]? = some (c : Int) ∧ dr[j]? = some d := by
  rw [coo_eq_cooFrom, mem_cooFrom]
  constructor
  · rintro ⟨i', ir, dr, j, he, h⟩
    simp only [Nat.zero_add] at he
    subst he
    exact ⟨ir, dr, j, h⟩
  · rintro ⟨ir, dr, j, h⟩
    exact ⟨i, ir, dr, j, by simp, h⟩

/-! ## `keyLt` is a strict total order -/

theorem keyLt_trans {a b c : Nat × Nat} (h1 : keyLt a b = true) (h2 : keyLt b c = true) :
    keyLt a c = true := by
  simp only [keyLt, Bool.or_eq_true, decide_eq_true_eq, Bool.and_eq_true, beq_iff_eq] at *
  omega

theorem keyLt_irrefl (a : Nat × Nat) : keyLt a a = false := by
  simp [keyLt]

theorem keyLt_total {a b : Nat × Nat} (hne : a ≠ b) (h : keyLt a b = false) : keyLt b a = true := by
  obtain ⟨a1, a2⟩ := a
  obtain ⟨b1, b2⟩ := b
  simp only [keyLt, Bool.or_eq_false_iff, decide_eq_false_iff_not, Bool.and_eq_false_iff,
    beq_eq_false_iff_ne, Bool.or_eq_true, decide_eq_true_eq, Bool.and_eq_true, beq_iff_eq,
    ne_eq, Prod.mk.injEq] at *
  omega

/-! ## `insertSum` -/
section
variable [Add D]

theorem keys_insertSum_subset (e : Nat × Nat × D) (l : List (Nat × Nat × D)) (k : Nat × Nat)
    (hk : k ∈ keys (insertSum e l)) : k = (e.1, e.2.1) ∨ k ∈ keys l := by
  induction l with
  | nil => simpa [insertSum, keys] using hk
  | cons h t ih =>
    simp only [insertSum] at hk
    split at hk
    · right; simpa [keys] using hk
    · split at hk
      · simp only [keys, List.map_cons, List.mem_cons] at hk ⊢
        exact hk
      · simp only [keys, List.map_cons, List.mem_cons] at hk ⊢
        rcases hk with hk | hk
        · exact Or.inr (Or.inl hk)
        · rcases ih hk with h' | h'
          · exact Or.inl h'
          · exact Or.inr (Or.inr h')

theorem mem_keys_insertSum (e : Nat × Nat × D) (l : List (Nat × Nat × D)) (k : Nat × Nat) :
    k ∈ keys (insertSum e l) ↔ k = (e.1, e.2.1) ∨ k ∈ keys l := by
  constructor
  · exact keys_insertSum_subset e l k
  · induction l with
    | nil => intro h; simpa [insertSum, keys] using h
    | cons h t ih =>
      intro hk
      simp only [insertSum]
      split
      · rename_i heq
        have heq' : (e.1, e.2.1) = (h.1, h.2.1) := by simpa using heq
        simp only [keys, List.map_cons, List.mem_cons] at hk ⊢
        rcases hk with hk | hk | hk
        · exact Or.inl (hk.trans heq')
        · exact Or.inl hk
        · exact Or.inr hk
      · split
        · simpa [keys] using hk
        · simp only [keys, List.map_cons, List.mem_cons] at hk ⊢
          rcases hk with hk | hk | hk
          · exact Or.inr (ih (Or.inl hk))
          · exact Or.inl hk
          · exact Or.inr (ih (Or.inr hk))

/-- `insertSum` keeps the coordinates strictly increasing -/
theorem insertSum_sorted (e : Nat × Nat × D) (l : List (Nat × Nat × D))
    (hl : (keys l).Pairwise (fun a b => keyLt a b = true)) :
    (keys (insertSum e l)).Pairwise (fun a b => keyLt a b = true) := by
  induction l with
  | nil => simp [insertSum, keys]
  | cons h t ih =>
    simp only [keys, List.map_cons, List.pairwise_cons] at hl
    obtain ⟨hh, ht⟩ := hl
    simp only [insertSum]
    split
    · simp only [keys, List.map_cons, List.pairwise_cons]
      exact ⟨hh, ht⟩
    · rename_i hne
      have hne' : (e.1, e.2.1) ≠ (h.1, h.2.1) := by simpa using hne
      split
      · rename_i hlt
        simp only [keys, List.map_cons, List.pairwise_cons, List.mem_cons]
        refine ⟨?_, hh, ht⟩
        rintro b (rfl | hb)
        · exact hlt
        · exact keyLt_trans hlt (hh b hb)
      · rename_i hnlt
        have hgt : keyLt (h.1, h.2.1) (e.1, e.2.1) = true :=
          keyLt_total hne' (by simpa using hnlt)
        have : keys (h :: insertSum e t) = (h.1, h.2.1) :: keys (insertSum e t) := rfl
        rw [this, List.pairwise_cons]
        refine ⟨?_, ih ht⟩
        intro b hb
        rcases keys_insertSum_subset e t b hb with rfl | hb
        · exact hgt
        · exact hh b hb

/-- a triple whose coordinate is new is inserted unchanged, and nothing else changes -/
theorem insertSum_perm (e : Nat × Nat × D) (l : List (Nat × Nat × D))
    (hnew : (e.1, e.2.1) ∉ keys l) : (insertSum e l).Perm (e :: l) := by
  induction l with
  | nil => simp [insertSum]
  | cons h t ih =>
    simp only [keys, List.map_cons, List.mem_cons, not_or] at hnew
    obtain ⟨hne, ht⟩ := hnew
    simp only [insertSum]
    split
    · rename_i heq
      exact absurd (by simpa using heq) hne
    · split
      · exact List.Perm.refl _
      · exact ((ih ht).cons h).trans (List.Perm.swap e h t)

/-! ## `tocsr` -/

theorem foldl_insertSum_sorted (es acc : List (Nat × Nat × D))
    (hacc : (keys acc).Pairwise (fun a b => keyLt a b = true)) :
    (keys (es.foldl (fun acc e => insertSum e acc) acc)).Pairwise (fun a b => keyLt a b = true) := by
  induction es generalizing acc with
  | nil => exact hacc
  | cons e rest ih => exact ih _ (insertSum_sorted e acc hacc)

/-- the coordinates of `tocsr es` are strictly increasing in (row, col) lexicographic order -/
theorem tocsr_sorted (es : List (Nat × Nat × D)) :
    (keys (tocsr es)).Pairwise (fun a b => keyLt a b = true) :=
  foldl_insertSum_sorted es [] (by simp [keys])

theorem pairwise_keyLt_nodup {ks : List (Nat × Nat)}
    (h : ks.Pairwise (fun a b => keyLt a b = true)) : ks.Nodup := by
  refine List.Pairwise.imp ?_ h
  intro a b hab heq
  subst heq
  simp [keyLt_irrefl] at hab

/-- no coordinate is stored twice in `tocsr es` -/
theorem tocsr_keys_nodup (es : List (Nat × Nat × D)) : (keys (tocsr es)).Nodup :=
  pairwise_keyLt_nodup (tocsr_sorted es)

theorem foldl_insertSum_keys (es acc : List (Nat × Nat × D)) (k : Nat × Nat) :
    k ∈ keys (es.foldl (fun acc e => insertSum e acc) acc) ↔ k ∈ keys acc ∨ k ∈ keys es := by
  induction es generalizing acc with
  | nil => simp [keys]
  | cons e rest ih =>
    rw [List.foldl_cons, ih, mem_keys_insertSum]
    simp only [keys, List.map_cons, List.mem_cons]
    constructor
    · rintro ((h | h) | h)
      · exact Or.inr (Or.inl h)
      · exact Or.inl h
      · exact Or.inr (Or.inr h)
    · rintro (h | h | h)
      · exact Or.inl (Or.inr h)
      · exact Or.inl (Or.inl h)
      · exact Or.inr h

/-- `tocsr` stores exactly the coordinates that occur in its input -/
theorem mem_keys_tocsr (es : List (Nat × Nat × D)) (k : Nat × Nat) :
    k ∈ keys (tocsr es) ↔ k ∈ keys es := by
  unfold tocsr
  rw [foldl_insertSum_keys]
  simp [keys]

theorem foldl_insertSum_perm (es acc : List (Nat × Nat × D))
    (hnd : (keys (acc ++ es)).Nodup) :
    (es.foldl (fun acc e => insertSum e acc) acc).Perm (acc ++ es) := by
  induction es generalizing acc with
  | nil => simp
  | cons e rest ih =>
    have hperm : (acc ++ e :: rest).Perm (e :: (acc ++ rest)) := List.perm_middle
    have hnd' : (keys (e :: (acc ++ rest))).Nodup := (hperm.map _).nodup_iff.mp hnd
    have hnd2 : (e.1, e.2.1) ∉ keys (acc ++ rest) ∧ (keys (acc ++ rest)).Nodup := by
      simpa [keys] using hnd'
    have hnew : (e.1, e.2.1) ∉ keys acc := by
      intro h
      apply hnd2.1
      simp only [keys, List.map_append, List.mem_append] at h ⊢
      exact Or.inl h
    have hp1 : (insertSum e acc).Perm (e :: acc) := insertSum_perm e acc hnew
    have hp2 : (insertSum e acc ++ rest).Perm (e :: (acc ++ rest)) := by
      simpa using hp1.append_right rest
    rw [List.foldl_cons]
    refine (ih (insertSum e acc) ?_).trans (hp2.trans hperm.symm)
    exact (hp2.map _).nodup_iff.mpr hnd'

/-- when no coordinate occurs twice, `tocsr` only reorders: no value is altered, lost or invented -/
theorem tocsr_perm_of_nodup (es : List (Nat × Nat × D)) (hnd : (keys es).Nodup) :
    (tocsr es).Perm es := by
  have := foldl_insertSum_perm es [] (by simpa using hnd)
  simpa [tocsr] using this

end

/-! ## distinct coordinates of `coo` -/

/-- the non-negative entries of every row are pairwise distinct (what C02 guarantees for a query
answer; several `-1` markers in one row are allowed) -/
def RowsDistinct (inds : List (List Int)) : Prop :=
  ∀ r ∈ inds, (r.filter (fun c => decide (0 ≤ c))).Nodup

instance (inds : List (List Int)) : Decidable (RowsDistinct inds) := by
  unfold RowsDistinct; infer_instance

theorem rowTriples_keys_nodup (i : Nat) (ir : List Int) (dr : List D)
    (h : (ir.filter (fun c => decide (0 ≤ c))).Nodup) : (keys (rowTriples i ir dr)).Nodup := by
  induction ir generalizing dr with
  | nil => simp [keys, rowTriples]
  | cons c ir' ih =>
    cases dr with
    | nil => simp [keys, rowTriples]
    | cons d dr' =>
      by_cases hc : 0 ≤ c
      · have hf : (c :: ir').filter (fun c => decide (0 ≤ c)) =
            c :: ir'.filter (fun c => decide (0 ≤ c)) := by simp [hc]
        rw [hf, List.nodup_cons] at h
        have hrt : rowTriples i (c :: ir') (d :: dr') = (i, c.toNat, d) :: rowTriples i ir' dr' := by
          simp [rowTriples, hc]
        rw [hrt]
        have : keys ((i, c.toNat, d) :: rowTriples i ir' dr') =
            (i, c.toNat) :: keys (rowTriples i ir' dr') := rfl
        rw [this, List.nodup_cons]
        refine ⟨?_, ih dr' h.2⟩
        intro hmem
        simp only [keys, List.mem_map] at hmem
        obtain ⟨e, he, hke⟩ := hmem
        rw [mem_rowTriples] at he
        obtain ⟨_, j, hj, _⟩ := he
        simp only [Prod.mk.injEq] at hke
        apply h.1
        rw [List.mem_filter]
        have hcj : (e.2.1 : Int) = c := by omega
        refine ⟨?_, by simpa using hc⟩
        rw [← hcj]
        exact List.mem_of_getElem? hj
      · have hf : (c :: ir').filter (fun c => decide (0 ≤ c)) =
            ir'.filter (fun c => decide (0 ≤ c)) := by simp [hc]
        rw [hf] at h
        have hrt : rowTriples i (c :: ir') (d :: dr') = rowTriples i ir' dr' := by
          simp [rowTriples, hc]
        rw [hrt]
        exact ih dr' h

theorem cooFrom_row_ge (k : Nat) (inds : List (List Int)) (dists : List (List D))
    (e : Nat × Nat × D) (he : e ∈ cooFrom k inds dists) : k ≤ e.1 := by
  rw [mem_cooFrom] at he
  obtain ⟨i, _, _, _, h, _⟩ := he
  omega

theorem cooFrom_keys_nodup (k : Nat) (inds : List (List Int)) (dists : List (List D))
    (h : RowsDistinct inds) : (keys (cooFrom k inds dists)).Nodup := by
  induction inds generalizing k dists with
  | nil => simp [keys]
  | cons ir inds' ih =>
    cases dists with
    | nil => simp [keys]
    | cons dr dists' =>
      rw [cooFrom_cons]
      simp only [keys, List.map_append]
      rw [List.nodup_append]
      refine ⟨rowTriples_keys_nodup k ir dr (h ir (by simp)),
        ih (k + 1) dists' (fun r hr => h r (by simp [hr])), ?_⟩
      intro a ha b hb hab
      subst hab
      simp only [List.mem_map] at ha hb
      obtain ⟨e1, he1, rfl⟩ := ha
      obtain ⟨e2, he2, hk⟩ := hb
      have h1 := ((mem_rowTriples k ir dr e1).mp he1).1
      have h2 := cooFrom_row_ge (k + 1) inds' dists' e2 he2
      simp only [Prod.mk.injEq] at hk
      omega

/-- distinct non-negative indices in every row give pairwise distinct coordinates -/
theorem coo_keys_nodup (inds : List (List Int)) (dists : List (List D)) (h : RowsDistinct inds) :
    (keys (coo inds dists)).Nodup :=
  cooFrom_keys_nodup 0 inds dists h

/-! ## counting -/

/-- `inds` and `dists` have the same shape (same number of rows, equal row lengths) -/
def SameShape (inds : List (List Int)) (dists : List (List D)) : Prop :=
  inds.map List.length = dists.map List.length

theorem rowTriples_length (i : Nat) (ir : List Int) (dr : List D) (h : ir.length = dr.length) :
    (rowTriples i ir dr).length = ir.countP (fun c => decide (0 ≤ c)) := by
  induction ir generalizing dr with
  | nil => simp [rowTriples]
  | cons c ir' ih =>
    cases dr with
    | nil => simp at h
    | cons d dr' =>
      have h' : ir'.length = dr'.length := by simpa using h
      have := ih dr' h'
      by_cases hc : 0 ≤ c
      · simp only [rowTriples] at this
        simp [rowTriples, hc, this]
      · simp only [rowTriples] at this
        simp [rowTriples, hc, this]

theorem cooFrom_length (k : Nat) (inds : List (List Int)) (dists : List (List D))
    (hs : SameShape inds dists) :
    (cooFrom k inds dists).length = inds.flatten.countP (fun c => decide (0 ≤ c)) := by
  induction inds generalizing k dists with
  | nil => simp
  | cons ir inds' ih =>
    cases dists with
    | nil => simp [SameShape] at hs
    | cons dr dists' =>
      simp only [SameShape, List.map_cons, List.cons.injEq] at hs
      rw [cooFrom_cons, List.length_append, rowTriples_length k ir dr hs.1, ih (k + 1) dists' hs.2]
      simp [List.countP_append]

/-- one COO triple per slot holding a non-negative index -/
theorem coo_length (inds : List (List Int)) (dists : List (List D)) (hs : SameShape inds dists) :
    (coo inds dists).length = inds.flatten.countP (fun c => decide (0 ≤ c)) :=
  cooFrom_length 0 inds dists hs

theorem cooFrom_countP_row (k i : Nat) (inds : List (List Int)) (dists : List (List D))
    (hs : SameShape inds dists) (ir : List Int) (hi : inds[i]? = some ir) :
    (cooFrom k inds dists).countP (fun e => e.1 == k + i) = ir.countP (fun c => decide (0 ≤ c)) := by
  induction inds generalizing k i dists with
  | nil => simp at hi
  | cons ir0 inds' ih =>
    cases dists with
    | nil => simp [SameShape] at hs
    | cons dr0 dists' =>
      simp only [SameShape, List.map_cons, List.cons.injEq] at hs
      rw [cooFrom_cons, List.countP_append]
      cases i with
      | zero =>
        simp only [List.getElem?_cons_zero, Option.some.injEq] at hi
        subst hi
        have h1 : (rowTriples k ir0 dr0).countP (fun e => e.1 == k + 0) =
            (rowTriples k ir0 dr0).length := by
          rw [List.countP_eq_length]
          intro e he
          simpa using ((mem_rowTriples k ir0 dr0 e).mp he).1
        have h2 : (cooFrom (k + 1) inds' dists').countP (fun e => e.1 == k + 0) = 0 := by
          rw [List.countP_eq_zero]
          intro e he
          have := cooFrom_row_ge _ _ _ e he
          simp only [beq_iff_eq]
          omega
        rw [h1, h2, rowTriples_length k ir0 dr0 hs.1]
        rfl
      | succ i' =>
        simp only [List.getElem?_cons_succ] at hi
        have h1 : (rowTriples k ir0 dr0).countP (fun e => e.1 == k + (i' + 1)) = 0 := by
          rw [List.countP_eq_zero]
          intro e he
          have := ((mem_rowTriples k ir0 dr0 e).mp he).1
          simp only [beq_iff_eq]
          omega
        have h2 := ih (k + 1) i' dists' hs.2 hi
        have h3 : k + 1 + i' = k + (i' + 1) := by omega
        rw [h3] at h2
        rw [h1, h2, Nat.zero_add]

/-- row `i` of `coo` holds one triple per non-negative slot of row `i` of the answer -/
theorem coo_countP_row (i : Nat) (inds : List (List Int)) (dists : List (List D))
    (hs : SameShape inds dists) (ir : List Int) (hi : inds[i]? = some ir) :
    (coo inds dists).countP (fun e => e.1 == i) = ir.countP (fun c => decide (0 ≤ c)) := by
  have := cooFrom_countP_row 0 i inds dists hs ir hi
  simpa [coo_eq_cooFrom] using this

end Pynn.Xf
