import PynnVerif.Proofs.GenHeap

/-!
# The translated `utils.deheap_sort` (2-D arrays, row-prefix views) refines `deheapSort` row by row

`Gen/Kernels.lean` translates `deheap_sort` itself: `prange` as `range` (that the rows are independent is
property C05's obligation), `A[i, j]` through `wr2`, the views `A[i, :j]` handed to the translated
`siftdown` through `take` / `wrPrefix` (what the callee stores lands in row `i`, the tail `A[i, j:]`
untouched).  For rectangular `n × k` arrays and `fuel ≥ n + k + 1` it never leaves an array and each row
ends as the model's `deheapSort` of that row.
-/
set_option linter.unusedSectionVars false
set_option linter.unusedSimpArgs false
namespace Pynn
open GenK
variable {P : Type}

theorem wr2_lt {α} (a : Array (Array α)) (i j : Nat) (v : α) (hi : i < a.size) (hj : j < a[i].size) :
    wr2 a (i : Int) (j : Int) v = some (a.setIfInBounds i (a[i].setIfInBounds j v)) := by
  simp [wr2, rd_lt a i hi, wr_lt _ j v hj, wr_lt a i _ hi]

theorem wr2_zero {α} (a : Array (Array α)) (i : Nat) (v : α) (hi : i < a.size) (hj : 0 < a[i].size) :
    wr2 a (i : Int) (0 : Int) v = some (a.setIfInBounds i (a[i].setIfInBounds 0 v)) := by
  simpa using wr2_lt a i 0 v hi hj

theorem take_le {α} (a : Array α) (n : Nat) (h : n ≤ a.size) : take a (n : Int) = some (a.extract 0 n) := by
  simp [take, h]

theorem wrPrefix_ok {α} (a : Array (Array α)) (i j : Nat) (pre : Array α) (hi : i < a.size) (hj : j ≤ a[i].size)
    (hp : pre.size = j) :
    wrPrefix a (i : Int) (j : Int) pre = some (a.setIfInBounds i (pre ++ a[i].extract j a[i].size)) := by
  simp [wrPrefix, rd_lt a i hi, hj, hp, wr_lt a i _ hi]

theorem wr2_wr2 {α β} (A : Array (Array α)) (i c : Nat) (x y : α) (hi : i < A.size) (h0 : 0 < A[i].size)
    (hc : c < A[i].size) (K : Array (Array α) → Option β) :
    ((wr2 A (i : Int) (0 : Int) x).bind fun A1 => (wr2 A1 (i : Int) (c : Int) y).bind K)
      = K (A.setIfInBounds i ((A[i].setIfInBounds 0 x).setIfInBounds c y)) := by
  rw [wr2_zero A i x hi h0, Option.bind_some, wr2_lt _ i c y (by simpa using hi) (by simpa using hc), Option.bind_some]
  simp

theorem rd_set_self {α} (A : Array α) (i : Nat) (R : α) (hi : i < A.size) :
    rd (A.setIfInBounds i R) (i : Int) = some R := by
  rw [rd_lt _ i (by simpa using hi)]; simp

theorem set_getElem_self' {α} (A : Array α) (i : Nat) (hi : i < A.size) : A.setIfInBounds i A[i] = A := by
  apply Array.ext
  · simp
  · intro k h1 h2
    rw [Array.getElem_setIfInBounds]
    split
    · rename_i h; subst h; rfl
    · rfl

variable [LE P] [LT P] [DecidableLE P] [DecidableLT P]

/-- the algebra of one `deheap_sort` step: the sifted prefix view glued back in front of the untouched tail -/
theorem deheap_step_zip (pr1 : Array P) (ix1 : Array Int) (j : Nat) (hs : pr1.size = ix1.size)
    (hj : j + 1 ≤ pr1.size) (a : Array P) (b : Array Int) (ha : a.size = j + 1) (hb : b.size = j + 1)
    (hab : zip2 a b = siftdownSwap (zip2 (pr1.extract 0 (j+1)) (ix1.extract 0 (j+1))) (j+1) 0) :
    zip2 (a ++ pr1.extract (j+1) pr1.size) (b ++ ix1.extract (j+1) ix1.size)
      = siftdownSwap (zip2 pr1 ix1) (j+1) 0 := by
  have e1 : pr1 = pr1.extract 0 (j+1) ++ pr1.extract (j+1) pr1.size := by
    rw [Array.extract_append_extract, Nat.max_eq_right (by omega), Nat.min_eq_left (by omega)]; simp
  have e2 : ix1 = ix1.extract 0 (j+1) ++ ix1.extract (j+1) ix1.size := by
    rw [Array.extract_append_extract, Nat.max_eq_right (by omega), Nat.min_eq_left (by omega)]; simp
  have p1 : (pr1.extract 0 (j+1)).size = j + 1 := by simp; omega
  have p2 : (ix1.extract 0 (j+1)).size = j + 1 := by simp; omega
  rw [zip2_append _ _ _ _ (by omega), hab, ← siftdownSwap_append _ _ _ _ (by simp; omega),
    ← zip2_append _ _ _ _ (by omega), ← e1, ← e2]

/-- **`deheap_sort`, inner loop** (`for j in range(k-1, 0, -1)` on row `i` of the 2-D arrays): stays in bounds, only row
`i` changes, and it becomes the model's `deheapLoop`. -/
theorem deheap_loop1_spec (i : Nat) : ∀ (fuel : Nat) (D : Array (Array P)) (I : Array (Array Int)) (j : Nat)
    (hi : i < D.size) (hi' : i < I.size), D[i].size = I[i].size → j < D[i].size → j + 2 ≤ fuel →
    ∃ pr' ix' j', deheap_sort.loop1 (i : Int) 0 fuel D I (j : Int)
        = some (.next (D.setIfInBounds i pr', I.setIfInBounds i ix', j')) ∧
      pr'.size = D[i].size ∧ ix'.size = I[i].size ∧ zip2 pr' ix' = deheapLoop (zip2 D[i] I[i]) j := by
  intro fuel
  induction fuel with
  | zero => intro D I j hi hi' hs hj hf; omega
  | succ fuel ih =>
    intro D I j hi hi' hs hj hf
    unfold deheap_sort.loop1
    cases j with
    | zero =>
      simp only [Int.natCast_zero, gt_iff_lt, Int.lt_irrefl, if_false, deheapLoop]
      exact ⟨D[i], I[i], 0, by simp [set_getElem_self'], rfl, rfl, rfl⟩
    | succ j =>
      have c : ((j + 1 : Nat) : Int) > 0 := by omega
      have e : ((j + 1 : Nat) : Int) + (-1) = (j : Int) := by omega
      have hj' : j + 1 < I[i].size := by omega
      have hz0 : 0 < (zip2 D[i] I[i]).size := by simp; omega
      have hz1 : j + 1 < (zip2 D[i] I[i]).size := by simp; omega
      have h00 : 0 < D[i].size := by omega
      have h00' : 0 < I[i].size := by omega
      obtain ⟨R, hR⟩ : ∃ x, x = (D[i].setIfInBounds 0 D[i][j+1]).setIfInBounds (j+1) (D[i][0]'(by omega)) := ⟨_, rfl⟩
      obtain ⟨S, hS⟩ : ∃ x, x = (I[i].setIfInBounds 0 I[i][j+1]).setIfInBounds (j+1) (I[i][0]'(by omega)) := ⟨_, rfl⟩
      have sR : R.size = D[i].size := by rw [hR]; simp
      have sS : S.size = I[i].size := by rw [hS]; simp
      have hRs : R = D[i].swap 0 (j+1) h00 hj := hR.trans (swap_eq_set_set _ _ _ _ _)
      have hSs : S = I[i].swap 0 (j+1) h00' hj' := hS.trans (swap_eq_set_set _ _ _ _ _)
      obtain ⟨a, b, hk, a1, a2, a3⟩ := siftdown_refines (R.extract 0 (j+1)) (S.extract 0 (j+1)) 0 fuel
        (by simp; omega) (by omega) (by simp; omega)
      have sa : a.size = j + 1 := by rw [a1]; simp; omega
      have sb : b.size = j + 1 := by rw [a2]; simp; omega
      simp only [c, if_true, e, rd_lt I i hi', rd_lt D i hi, rd_lt I[i] (j+1) hj', rd_lt D[i] (j+1) hj,
        rd_zero I[i] (by omega), rd_zero D[i] (by omega), Option.bind_eq_bind, Option.bind_some,
        wr2_wr2 I i (j+1) _ _ hi' (by omega) hj', wr2_wr2 D i (j+1) _ _ hi (by omega) hj, ← hR, ← hS,
        rd_set_self D i R hi, rd_set_self I i S hi', take_le R (j+1) (by omega), take_le S (j+1) (by omega), hk,
        wrPrefix_ok (D.setIfInBounds i R) i (j+1) a (by simpa using hi) (by simp; omega) sa,
        wrPrefix_ok (I.setIfInBounds i S) i (j+1) b (by simpa using hi') (by simp; omega) sb,
        Array.getElem_setIfInBounds_self, Array.setIfInBounds_setIfInBounds]
      have hzip : zip2 (a ++ R.extract (j+1) R.size) (b ++ S.extract (j+1) S.size)
          = siftdownSwap ((zip2 D[i] I[i]).swap 0 (j+1) hz0 hz1) (j+1) 0 := by
        have h3 : zip2 a b = siftdownSwap (zip2 (R.extract 0 (j+1)) (S.extract 0 (j+1))) (j+1) 0 := by
          have : (R.extract 0 (j+1)).size = j + 1 := by simp; omega
          rw [a3, this]; rfl
        have hRS : zip2 R S = (zip2 D[i] I[i]).swap 0 (j+1) hz0 hz1 :=
          (by rw [← hRs, ← hSs] : zip2 R S = zip2 (D[i].swap 0 (j+1) h00 hj) (I[i].swap 0 (j+1) h00' hj')).trans (zip2_swap' D[i] I[i] 0 (j+1) h00 hj h00' hj')
        rw [deheap_step_zip R S j (by omega) (by omega) a b sa sb h3, hRS]
      have := ih (D.setIfInBounds i (a ++ R.extract (j+1) R.size)) (I.setIfInBounds i (b ++ S.extract (j+1) S.size)) j
        (by simpa using hi) (by simpa using hi')
        (by simp only [Array.getElem_setIfInBounds_self, Array.size_append, Array.size_extract]; omega)
        (by simp only [Array.getElem_setIfInBounds_self, Array.size_append, Array.size_extract]; omega)
        (by omega)
      simp only [Array.getElem_setIfInBounds_self, Array.setIfInBounds_setIfInBounds] at this
      obtain ⟨pr', ix', j', h1, h2, h3, h4⟩ := this
      refine ⟨pr', ix', j', h1, ?_, ?_, ?_⟩
      · rw [h2]; simp only [Array.size_append, Array.size_extract]; omega
      · rw [h3]; simp only [Array.size_append, Array.size_extract]; omega
      · rw [h4, hzip]
        simp only [deheapLoop, hz1, dite_true]

/-- one row: the inner loop started at `j = ncols - 1` (which is `-1` for rows without slots) sorts row `i` -/
theorem deheap_row_spec (i k : Nat) (fuel : Nat) (D : Array (Array P)) (I : Array (Array Int))
    (hi : i < D.size) (hi' : i < I.size) (hD : D[i].size = k) (hI : I[i].size = k) (hf : k + 1 ≤ fuel) :
    ∃ pr' ix' j', deheap_sort.loop1 (i : Int) 0 fuel D I ((k : Int) - 1)
        = some (.next (D.setIfInBounds i pr', I.setIfInBounds i ix', j')) ∧
      pr'.size = k ∧ ix'.size = k ∧ zip2 pr' ix' = deheapSort (zip2 D[i] I[i]) := by
  have hz : (zip2 D[i] I[i]).size = k := by simp; omega
  cases k with
  | zero =>
    cases fuel with
    | zero => omega
    | succ fuel =>
      unfold deheap_sort.loop1
      have c : ¬ (((0 : Nat) : Int) - 1 > 0) := by omega
      simp only [c, if_false]
      refine ⟨D[i], I[i], ((0 : Nat) : Int) - 1, by simp [set_getElem_self'], hD, hI, ?_⟩
      simp only [deheapSort, hz]
      rfl
  | succ k =>
    have e : ((k + 1 : Nat) : Int) - 1 = (k : Int) := by omega
    rw [e]
    obtain ⟨pr', ix', j', h1, h2, h3, h4⟩ := deheap_loop1_spec i fuel D I k hi hi' (by omega) (by omega) (by omega)
    refine ⟨pr', ix', j', h1, by omega, by omega, ?_⟩
    rw [h4]
    simp only [deheapSort, hz, Nat.add_sub_cancel]

/-- **`deheap_sort`, outer loop** over the rows `i, i+1, …` of two rectangular `n × k` arrays -/
theorem deheap_loop0_spec (n k : Nat) : ∀ (fuel : Nat) (D : Array (Array P)) (I : Array (Array Int)) (i : Nat),
    D.size = n → I.size = n → (∀ r (h : r < D.size), D[r].size = k) → (∀ r (h : r < I.size), I[r].size = k) →
    i ≤ n → (n - i) + k + 1 ≤ fuel →
    ∃ D' I' i', deheap_sort.loop0 (n : Int) fuel D I (i : Int) = some (.next (D', I', i')) ∧
      D'.size = n ∧ I'.size = n ∧
      ∀ r (h : r < D.size) (h' : r < I.size) (g : r < D'.size) (g' : r < I'.size),
        D'[r].size = k ∧ I'[r].size = k ∧
        zip2 D'[r] I'[r] = if i ≤ r then deheapSort (zip2 D[r] I[r]) else zip2 D[r] I[r] := by
  intro fuel
  induction fuel with
  | zero => intro D I i hD hI hDk hIk hin hf; omega
  | succ fuel ih =>
    intro D I i hD hI hDk hIk hin hf
    unfold deheap_sort.loop0
    by_cases hlt : i < n
    · have c : ((i : Nat) : Int) < (n : Int) := by omega
      have e : ((i : Nat) : Int) + 1 = ((i + 1 : Nat) : Int) := by push_cast; rfl
      have hnc : ncols I = k := by
        have h0 : 0 < I.size := by omega
        simp [ncols, h0, hIk 0 h0]
      obtain ⟨pr', ix', j', h1, h2, h3, h4⟩ := deheap_row_spec i k fuel D I (by omega) (by omega)
        (hDk i (by omega)) (hIk i (by omega)) (by omega)
      simp only [c, if_true, hnc, h1, Option.bind_eq_bind, Option.bind_some, e]
      obtain ⟨D', I', i', g1, g2, g3, g4⟩ := ih (D.setIfInBounds i pr') (I.setIfInBounds i ix') (i+1)
        (by simpa using hD) (by simpa using hI)
        (by intro r h; simp only [Array.size_setIfInBounds] at h
            rw [Array.getElem_setIfInBounds]; split
            · exact h2
            · exact hDk r h)
        (by intro r h; simp only [Array.size_setIfInBounds] at h
            rw [Array.getElem_setIfInBounds]; split
            · exact h3
            · exact hIk r h)
        (by omega) (by omega)
      refine ⟨D', I', i', g1, g2, g3, ?_⟩
      intro r h h' g g'
      obtain ⟨q1, q2, q3⟩ := g4 r (by simpa using h) (by simpa using h') g g'
      refine ⟨q1, q2, ?_⟩
      rw [q3]
      by_cases hri : r = i
      · subst hri
        simp only [Array.getElem_setIfInBounds_self, h4]
        have : ¬ (r + 1 ≤ r) := by omega
        simp only [this, if_false, Nat.le_refl, if_true]
      · have a1 : (D.setIfInBounds i pr')[r]'(by simpa using h) = D[r] := by
          rw [Array.getElem_setIfInBounds]; split
          · omega
          · rfl
        have a2 : (I.setIfInBounds i ix')[r]'(by simpa using h') = I[r] := by
          rw [Array.getElem_setIfInBounds]; split
          · omega
          · rfl
        rw [a1, a2]
        by_cases hir : i ≤ r
        · have : i + 1 ≤ r := by omega
          simp only [this, hir, if_true]
        · have : ¬ i + 1 ≤ r := by omega
          simp only [this, hir, if_false]
    · have c : ¬ ((i : Nat) : Int) < (n : Int) := by omega
      simp only [c, if_false]
      refine ⟨D, I, _, rfl, hD, hI, ?_⟩
      intro r h h' g g'
      have : ¬ i ≤ r := by omega
      simp only [this, if_false]
      exact ⟨hDk r h, hIk r h', trivial⟩

/-- **`utils.deheap_sort` (translated, 2-D) sorts every row as the model's `deheapSort` does.** -/
theorem deheap_sort_refines (I : Array (Array Int)) (D : Array (Array P)) (k : Nat) (fuel : Nat)
    (hs : D.size = I.size) (hDk : ∀ r (h : r < D.size), D[r].size = k) (hIk : ∀ r (h : r < I.size), I[r].size = k)
    (hf : I.size + k + 1 ≤ fuel) :
    ∃ I' D', GenK.deheap_sort fuel I D = some (I', D', I', D') ∧ D'.size = D.size ∧ I'.size = I.size ∧
      ∀ r (h : r < D.size) (h' : r < I.size) (g : r < D'.size) (g' : r < I'.size),
        D'[r].size = k ∧ I'[r].size = k ∧ zip2 D'[r] I'[r] = deheapSort (zip2 D[r] I[r]) := by
  obtain ⟨D', I', i', h1, h2, h3, h4⟩ := deheap_loop0_spec I.size k fuel D I 0 hs rfl hDk hIk (by omega) (by omega)
  unfold GenK.deheap_sort
  simp only [Int.natCast_zero] at h1
  simp only [h1, Option.bind_eq_bind, Option.bind_some]
  refine ⟨I', D', rfl, by omega, h3, ?_⟩
  intro r h h' g g'
  simpa using h4 r h h' g g'

end Pynn
