import PynnVerif.Model.Connect
import Mathlib.Data.List.Perm.Subperm
import Mathlib.Data.List.Nodup
import Mathlib.Dynamics.PeriodicPts.Defs
import Mathlib.Logic.Function.Iterate

/-!
# A `while` loop with a "state seen before → break" guard (the repair of D30)

Generic facts about `seenLoop step cont` against the unguarded `plainLoop step cont`, for an
arbitrary deterministic `step` on an arbitrary state type with decidable equality:

* `seenLoop_terminates` — over a finite state space the guarded loop always exits, after at most
  `|states| + 1` iterations;
* `seenLoop_transparent` — if the unguarded loop exits, the guarded loop exits in the same state
  after the same number of iterations and the guard never fires;
* `seenLoop_break_sound` — if the guard fires, the unguarded loop never exits;
* `seenLoop_on_path` — the state at exit is `step^[r] s0` where `r` is the number of iterations.
-/
set_option linter.unusedSectionVars false
set_option linter.unusedSimpArgs false
namespace Pynn.Connect

variable {S : Type} [DecidableEq S]

/-! ## termination over a finite state space -/

theorem mem_of_nodup_cover {seen univ : List S} (hn : seen.Nodup) (hs : seen ⊆ univ)
    (hl : univ.length ≤ seen.length) {x : S} (hx : x ∈ univ) : x ∈ seen := by
  have hsp : seen.Subperm univ := hn.subperm hs
  have hp : seen.Perm univ := hsp.perm_of_length_le hl
  exact hp.mem_iff.mpr hx

theorem seenLoop_terminates_aux (step : S → S) (cont : S → Bool) (univ : List S)
    (hcl : ∀ s ∈ univ, step s ∈ univ) :
    ∀ (fuel : Nat) (seen : List S) (st : S), st ∈ univ → seen.Nodup → seen ⊆ univ →
      univ.length ≤ fuel + seen.length → ∃ r, seenLoop step cont fuel seen st = some r := by
  intro fuel
  induction fuel with
  | zero =>
    intro seen st hst hn hs hl
    simp only [seenLoop]
    by_cases hc : cont st = false
    · simp [hc]
    · have : st ∈ seen := mem_of_nodup_cover hn hs (by omega) hst
      simp [hc, this]
  | succ f ih =>
    intro seen st hst hn hs hl
    simp only [seenLoop]
    by_cases hc : cont st = false
    · simp [hc]
    · by_cases hm : st ∈ seen
      · simp [hc, hm]
      · simp only [hc, hm, if_false]
        refine ih (st :: seen) (step st) (hcl st hst) (List.nodup_cons.mpr ⟨hm, hn⟩) ?_ ?_
        · intro x hx
          rcases List.mem_cons.mp hx with rfl | h
          · exact hst
          · exact hs h
        · simp only [List.length_cons]; omega

/-- **Termination.**  If every state reachable from `s0` lies in a finite list `univ` closed under `step`,
the guarded loop started with an empty `seen` set exits within `univ.length` iterations. -/
theorem seenLoop_terminates (step : S → S) (cont : S → Bool) (univ : List S)
    (hcl : ∀ s ∈ univ, step s ∈ univ) (s0 : S) (h0 : s0 ∈ univ) :
    ∃ r, seenLoop step cont univ.length [] s0 = some r :=
  seenLoop_terminates_aux step cont univ hcl univ.length [] s0 h0 List.nodup_nil (by simp) (by simp)

/-! ## the path of the loop -/

/-- the loop exits after exactly `k` iterations in state `s'` -/
def ExitsIn (step : S → S) (cont : S → Bool) (k : Nat) (s s' : S) : Prop :=
  (∀ i < k, cont (step^[i] s) = true) ∧ cont (step^[k] s) = false ∧ s' = step^[k] s

theorem plainLoop_some {step : S → S} {cont : S → Bool} :
    ∀ (fuel : Nat) (s s' : S), plainLoop step cont fuel s = some s' → ∃ k ≤ fuel, ExitsIn step cont k s s' := by
  intro fuel
  induction fuel with
  | zero =>
    intro s s' h
    simp only [plainLoop] at h
    by_cases hc : cont s = true
    · simp [hc] at h
    · simp only [hc] at h
      refine ⟨0, Nat.le_refl _, ?_, ?_, ?_⟩
      · intro i hi; omega
      · simpa using hc
      · simpa using (Option.some.inj h).symm
  | succ f ih =>
    intro s s' h
    simp only [plainLoop] at h
    by_cases hc : cont s = true
    · simp only [hc, if_true] at h
      obtain ⟨k, hk, h1, h2, h3⟩ := ih (step s) s' h
      refine ⟨k + 1, by omega, ?_, ?_, ?_⟩
      · intro i hi
        cases i with
        | zero => simpa using hc
        | succ j => simpa [Function.iterate_succ_apply] using h1 j (by omega)
      · simpa [Function.iterate_succ_apply] using h2
      · simpa [Function.iterate_succ_apply] using h3
    · simp only [hc] at h
      refine ⟨0, Nat.zero_le _, ?_, ?_, ?_⟩
      · intro i hi; omega
      · simpa using hc
      · simpa using (Option.some.inj h).symm

theorem plainLoop_of_exits {step : S → S} {cont : S → Bool} :
    ∀ (k fuel : Nat) (s s' : S), ExitsIn step cont k s s' → k ≤ fuel → plainLoop step cont fuel s = some s' := by
  intro k
  induction k with
  | zero =>
    intro fuel s s' ⟨_, h2, h3⟩ _
    have hc : cont s = false := by simpa using h2
    have hs : s' = s := by simpa using h3
    cases fuel <;> simp [plainLoop, hc, hs]
  | succ k ih =>
    intro fuel s s' ⟨h1, h2, h3⟩ hk
    obtain ⟨f, rfl⟩ : ∃ f, fuel = f + 1 := ⟨fuel - 1, by omega⟩
    have hc : cont s = true := by simpa using h1 0 (by omega)
    simp only [plainLoop, hc, if_true]
    refine ih f (step s) s' ⟨?_, ?_, ?_⟩ (by omega)
    · intro i hi; simpa [Function.iterate_succ_apply] using h1 (i + 1) (by omega)
    · simpa [Function.iterate_succ_apply] using h2
    · simpa [Function.iterate_succ_apply] using h3

/-- a state on a path that exits cannot recur on it -/
theorem no_return_on_exiting_path {step : S → S} {cont : S → Bool} {k : Nat} {s s' : S}
    (h : ExitsIn step cont k s s') : ∀ j, 1 ≤ j → j ≤ k → step^[j] s ≠ s := by
  intro j hj1 hjk heq
  obtain ⟨h1, h2, _⟩ := h
  have hper : Function.IsPeriodicPt step j s := heq
  have hmod : step^[k % j] s = step^[k] s := hper.iterate_mod_apply k
  have hlt : k % j < k := lt_of_lt_of_le (Nat.mod_lt _ (by omega)) hjk
  have := h1 (k % j) hlt
  rw [hmod, h2] at this
  exact Bool.false_ne_true this

/-! ## transparency: the guard never fires on a run that exits by itself -/

theorem seenLoop_transparent_aux {step : S → S} {cont : S → Bool} :
    ∀ (k fuel : Nat) (seen : List S) (s s' : S), ExitsIn step cont k s s' → k ≤ fuel →
      (∀ t ∈ seen, ∀ i ≤ k, step^[i] s ≠ t) →
      seenLoop step cont fuel seen s = some (s', false, seen.length + k) := by
  intro k
  induction k with
  | zero =>
    intro fuel seen s s' ⟨_, h2, h3⟩ _ _
    have hc : cont s = false := by simpa using h2
    have hs : s' = s := by simpa using h3
    cases fuel <;> simp [seenLoop, hc, hs]
  | succ k ih =>
    intro fuel seen s s' hex hk havoid
    obtain ⟨f, rfl⟩ : ∃ f, fuel = f + 1 := ⟨fuel - 1, by omega⟩
    have hnr := no_return_on_exiting_path hex
    obtain ⟨h1, h2, h3⟩ := hex
    have hc : cont s = true := by simpa using h1 0 (by omega)
    have hns : s ∉ seen := fun hm => havoid s hm 0 (Nat.zero_le _) (by simp)
    have hc' : ¬ (cont s = false) := by simp [hc]
    simp only [seenLoop, hc', hns, if_false]
    have := ih f (s :: seen) (step s) s' ⟨?_, ?_, ?_⟩ (by omega) ?_
    · rw [this, List.length_cons, show seen.length + 1 + k = seen.length + (k + 1) by omega]; simp
    · intro i hi; simpa [Function.iterate_succ_apply] using h1 (i + 1) (by omega)
    · simpa [Function.iterate_succ_apply] using h2
    · simpa [Function.iterate_succ_apply] using h3
    · intro t ht i hi
      rcases List.mem_cons.mp ht with rfl | ht'
      · have := hnr (i + 1) (by omega) (by omega)
        simpa [Function.iterate_succ_apply] using this
      · have := havoid t ht' (i + 1) (by omega)
        simpa [Function.iterate_succ_apply] using this

/-- **Transparency.**  Whenever the unguarded loop exits, the guarded loop (with enough fuel) exits in the same
state, after the same number of iterations, and not through the guard. -/
theorem seenLoop_transparent {step : S → S} {cont : S → Bool} (fuel : Nat) (s0 s' : S)
    (h : plainLoop step cont fuel s0 = some s') :
    ∃ k ≤ fuel, ∀ fuel' ≥ k, seenLoop step cont fuel' [] s0 = some (s', false, k) := by
  obtain ⟨k, hk, hex⟩ := plainLoop_some fuel s0 s' h
  refine ⟨k, hk, fun fuel' hf => ?_⟩
  have := seenLoop_transparent_aux k fuel' [] s0 s' hex hf (by simp)
  simpa using this

/-! ## soundness of the break: a repeated state means the unguarded loop never exits -/

theorem plainLoop_none_of_forever {step : S → S} {cont : S → Bool} :
    ∀ (fuel : Nat) (s : S), (∀ n, cont (step^[n] s) = true) → plainLoop step cont fuel s = none := by
  intro fuel
  induction fuel with
  | zero => intro s h; have := h 0; simp only [Function.iterate_zero, id] at this; simp [plainLoop, this]
  | succ f ih =>
    intro s h
    have h0 := h 0
    simp only [Function.iterate_zero, id] at h0
    simp only [plainLoop, h0, if_true]
    exact ih (step s) (fun n => by simpa [Function.iterate_succ_apply] using h (n + 1))

/-- invariant of the guarded loop started at `s0` with an empty `seen`: after `m` iterations `seen` holds
`s0, step s0, …, step^[m-1] s0`, all of which continue. -/
theorem seenLoop_path_aux {step : S → S} {cont : S → Bool} (s0 : S) :
    ∀ (fuel m : Nat) (seen : List S) (r : S × Bool × Nat),
      seen.length = m → (∀ t ∈ seen, ∃ i < m, step^[i] s0 = t) → (∀ i < m, cont (step^[i] s0) = true) →
      seenLoop step cont fuel seen (step^[m] s0) = some r →
      ∃ m', r.1 = step^[m'] s0 ∧ r.2.2 = m' ∧ (∀ i < m', cont (step^[i] s0) = true) ∧
        (r.2.1 = false → cont (step^[m'] s0) = false) ∧
        (r.2.1 = true → cont (step^[m'] s0) = true ∧ ∃ i < m', step^[i] s0 = step^[m'] s0) := by
  intro fuel
  induction fuel with
  | zero =>
    intro m seen r hlen hseen hcont h
    simp only [seenLoop] at h
    by_cases hc : cont (step^[m] s0) = false
    · simp only [hc, if_true] at h
      obtain rfl := (Option.some.inj h).symm
      exact ⟨m, rfl, hlen, hcont, fun _ => hc, fun hh => by simp at hh⟩
    · by_cases hm : step^[m] s0 ∈ seen
      · simp only [hc, hm, if_false, if_true] at h
        obtain rfl := (Option.some.inj h).symm
        refine ⟨m, rfl, hlen, hcont, fun hh => by simp at hh, fun _ => ⟨by simpa using hc, ?_⟩⟩
        obtain ⟨i, hi, he⟩ := hseen _ hm
        exact ⟨i, hi, he⟩
      · simp [hc, hm] at h
  | succ f ih =>
    intro m seen r hlen hseen hcont h
    simp only [seenLoop] at h
    by_cases hc : cont (step^[m] s0) = false
    · simp only [hc, if_true] at h
      obtain rfl := (Option.some.inj h).symm
      exact ⟨m, rfl, hlen, hcont, fun _ => hc, fun hh => by simp at hh⟩
    · by_cases hm : step^[m] s0 ∈ seen
      · simp only [hc, hm, if_false, if_true] at h
        obtain rfl := (Option.some.inj h).symm
        refine ⟨m, rfl, hlen, hcont, fun hh => by simp at hh, fun _ => ⟨by simpa using hc, ?_⟩⟩
        obtain ⟨i, hi, he⟩ := hseen _ hm
        exact ⟨i, hi, he⟩
      · simp only [hc, hm, if_false] at h
        have hstep : step (step^[m] s0) = step^[m + 1] s0 := by
          rw [Function.iterate_succ_apply']
        rw [hstep] at h
        refine ih (m + 1) (step^[m] s0 :: seen) r (by simp [hlen]) ?_ ?_ h
        · intro t ht
          rcases List.mem_cons.mp ht with rfl | ht'
          · exact ⟨m, by omega, rfl⟩
          · obtain ⟨i, hi, he⟩ := hseen t ht'
            exact ⟨i, by omega, he⟩
        · intro i hi
          rcases Nat.lt_succ_iff_lt_or_eq.mp hi with h' | rfl
          · exact hcont i h'
          · simpa using hc

/-- **The state at exit lies on the path**: after `r` iterations the loop is in `step^[r] s0`, every earlier state
continued, and if the loop left normally the exit state does not continue. -/
theorem seenLoop_on_path {step : S → S} {cont : S → Bool} (fuel : Nat) (s0 s : S) (fired : Bool) (r : Nat)
    (h : seenLoop step cont fuel [] s0 = some (s, fired, r)) :
    s = step^[r] s0 ∧ (∀ i < r, cont (step^[i] s0) = true) ∧ (fired = false → cont s = false) := by
  obtain ⟨m', h1, h2, h3, h4, _⟩ := seenLoop_path_aux (cont := cont) s0 fuel 0 [] (s, fired, r) rfl (by simp) (by simp) h
  simp only at h1 h2 h4
  subst h2
  exact ⟨h1, h3, fun hf => by rw [h1]; exact h4 hf⟩

/-- **Soundness of the break.**  If the guard fires, the unguarded loop never exits — whatever the fuel. -/
theorem seenLoop_break_sound {step : S → S} {cont : S → Bool} (fuel : Nat) (s0 s : S) (r : Nat)
    (h : seenLoop step cont fuel [] s0 = some (s, true, r)) :
    ∀ fuel', plainLoop step cont fuel' s0 = none := by
  obtain ⟨m', _, _, h3, _, h5⟩ := seenLoop_path_aux (cont := cont) s0 fuel 0 [] (s, true, r) rfl (by simp) (by simp) h
  obtain ⟨hcm, i, hi, he⟩ := h5 rfl
  intro fuel'
  refine plainLoop_none_of_forever fuel' s0 (fun n => ?_)
  -- every state of the path is one of `step^[j] s0`, `j ≤ m'`
  have hall : ∀ j ≤ m', cont (step^[j] s0) = true := by
    intro j hj
    rcases Nat.lt_or_ge j m' with h' | h'
    · exact h3 j h'
    · have : j = m' := by omega
      subst this; exact hcm
  by_cases hn : n ≤ m'
  · exact hall n hn
  · -- n > m' : fold back with period p = m' - i
    have hp : Function.IsPeriodicPt step (m' - i) (step^[i] s0) := by
      show step^[m' - i] (step^[i] s0) = step^[i] s0
      rw [← Function.iterate_add_apply, Nat.sub_add_cancel (Nat.le_of_lt hi)]
      exact he.symm
    have hfold : step^[n] s0 = step^[(n - i) % (m' - i) + i] s0 := by
      have h1 : step^[n] s0 = step^[n - i] (step^[i] s0) := by
        rw [← Function.iterate_add_apply]; congr 1; omega
      rw [h1, ← hp.iterate_mod_apply (n - i), ← Function.iterate_add_apply]
    rw [hfold]
    refine hall _ ?_
    have : (n - i) % (m' - i) < m' - i := Nat.mod_lt _ (by omega)
    omega

end Pynn.Connect
