import PynnVerif.Model.Par

/-!
# Schedule independence of a non-interfering parallel loop (C05)

* `isMerge_flatten`      : the sequential loop is one of the schedules;
* `merge_filter_owned`   : if only iteration `k` can produce `p`-elements, the
                           `p`-subsequence of any merge is that of iteration `k`;
* `run_getElem?`         : row `r` of the final state depends only on the
                           `r`-subsequence of the executed ops;
* `schedule_independent` : every schedule of an `Owned` loop yields the state of
                           the sequential loop;
* `schedules_agree`      : any two schedules agree.
-/
namespace Pynn.Par

/-! ## Merges -/

/-- Adding an empty thread in front does not change the set of merges. -/
theorem IsMerge.cons_nil {α : Type} {ts : List (List α)} {m : List α}
    (h : IsMerge ts m) : IsMerge ([] :: ts) m := by
  induction h with
  | done ts hall =>
    apply IsMerge.done
    intro t ht
    rcases List.mem_cons.mp ht with h | h
    · exact h
    · exact hall t h
  | step ts i hi x rest m hget _ ih =>
    refine IsMerge.step ([] :: ts) (i + 1) (by simpa using hi) x rest m ?_ ?_
    · simpa using hget
    · simpa [List.set_cons_succ] using ih

/-- Run the whole first thread first. -/
theorem IsMerge.prepend {α : Type} (t : List α) {ts : List (List α)} {m : List α}
    (h : IsMerge ([] :: ts) m) : IsMerge (t :: ts) (t ++ m) := by
  induction t with
  | nil => simpa using h
  | cons x t ih =>
    exact IsMerge.step ((x :: t) :: ts) 0 (by simp) x t (t ++ m) rfl (by simpa using ih)

/-- The sequential order (iteration 0 completely, then iteration 1, …) is a merge. -/
theorem isMerge_flatten {α : Type} (ts : List (List α)) : IsMerge ts ts.flatten := by
  induction ts with
  | nil => exact IsMerge.done [] (by simp)
  | cons t ts ih =>
    rw [List.flatten_cons]
    exact IsMerge.prepend t (IsMerge.cons_nil ih)

/-- If only thread `k`'s elements can satisfy `p`, the `p`-subsequence of any merge is
the `p`-subsequence of thread `k`. -/
theorem merge_filter_owned {α : Type} (p : α → Bool) (ts : List (List α)) (k : Nat)
    (hk : ∀ i (hi : i < ts.length), i ≠ k → ∀ x ∈ ts[i], p x = false)
    (m : List α) (hm : IsMerge ts m) :
    m.filter p = (ts[k]?.getD []).filter p := by
  induction hm with
  | done ts hall =>
    have : ts[k]?.getD [] = [] := by
      cases hget : ts[k]? with
      | none => rfl
      | some t => exact hall t (List.mem_of_getElem? hget)
    simp [this]
  | step ts i hi x rest m hget _ ih =>
    have hk' : ∀ j (hj : j < (ts.set i rest).length), j ≠ k →
        ∀ y ∈ (ts.set i rest)[j], p y = false := by
      intro j hj hjk y hy
      have hj' : j < ts.length := by simpa using hj
      rw [List.getElem_set] at hy
      by_cases hij : i = j
      · subst hij
        rw [if_pos rfl] at hy
        exact hk i hi hjk y (by rw [hget]; exact List.mem_cons_of_mem _ hy)
      · rw [if_neg hij] at hy
        exact hk j hj' hjk y hy
    have ih' := ih hk'
    by_cases hik : i = k
    · subst hik
      have h1 : ts[i]? = some (x :: rest) := by
        rw [List.getElem?_eq_getElem hi, hget]
      have h2 : (ts.set i rest)[i]? = some rest := by
        rw [List.getElem?_set]; simp [hi]
      rw [h2] at ih'
      rw [h1]
      simp only [Option.getD_some] at ih' ⊢
      rw [List.filter_cons, List.filter_cons, ih']
    · have hpx : p x = false := hk i hi hik x (by rw [hget]; exact List.mem_cons_self)
      have h2 : (ts.set i rest)[k]? = ts[k]? := List.getElem?_set_ne hik
      rw [h2] at ih'
      rw [List.filter_cons, ← ih']
      simp [hpx]

/-! ## Running a sequence of row operations -/

/-- The effect of `ops` on a single row `r`. -/
def rowEffect {R : Type} (ops : List (Op R)) (r : Nat) (x : R) : R :=
  (ops.filter (fun o => o.row == r)).foldl (fun x o => o.act x) x

theorem rowEffect_cons {R : Type} (o : Op R) (ops : List (Op R)) (r : Nat) (x : R) :
    rowEffect (o :: ops) r x = if o.row = r then rowEffect ops r (o.act x) else rowEffect ops r x := by
  unfold rowEffect
  by_cases h : o.row = r
  · simp [h]
  · simp [h]

theorem run_cons {R : Type} (s : Array R) (o : Op R) (ops : List (Op R)) :
    run s (o :: ops) = run (s.modify o.row o.act) ops := rfl

theorem run_getElem? {R : Type} (s : Array R) (ops : List (Op R)) (r : Nat) :
    (run s ops)[r]? =
      (s[r]?).map (fun x => (ops.filter (fun o => o.row == r)).foldl (fun x o => o.act x) x) := by
  show (run s ops)[r]? = (s[r]?).map (rowEffect ops r)
  induction ops generalizing s with
  | nil =>
    have : rowEffect ([] : List (Op R)) r = id := by funext x; rfl
    rw [this]; simp [run]
  | cons o ops ih =>
    rw [run_cons, ih, Array.getElem?_modify]
    have hfun : rowEffect (o :: ops) r =
        fun x => if o.row = r then rowEffect ops r (o.act x) else rowEffect ops r x := by
      funext x; exact rowEffect_cons o ops r x
    rw [hfun]
    by_cases h : o.row = r
    · simp only [if_pos h]
      cases s[r]? <;> rfl
    · simp only [if_neg h]

theorem run_size {R : Type} (s : Array R) (ops : List (Op R)) : (run s ops).size = s.size := by
  induction ops generalizing s with
  | nil => rfl
  | cons o ops ih => rw [run_cons, ih, Array.size_modify]

/-- Two op sequences with the same per-row subsequences produce the same state. -/
theorem run_eq_of_rowwise {R : Type} (s : Array R) (ops1 ops2 : List (Op R))
    (h : ∀ r, ops1.filter (fun o => o.row == r) = ops2.filter (fun o => o.row == r)) :
    run s ops1 = run s ops2 := by
  apply Array.ext_getElem?
  intro r
  rw [run_getElem?, run_getElem?, h r]

/-! ## Schedule independence -/

/-- In an owned loop, the `r`-subsequence of any schedule is the `r`-subsequence of
iteration `owner r`. -/
theorem merge_filter_row {R : Type} (owner : Nat → Nat) (its : List (List (Op R)))
    (hown : Owned owner its) (m : List (Op R)) (hm : IsMerge its m) (r : Nat) :
    m.filter (fun o => o.row == r) =
      (its[owner r]?.getD []).filter (fun o => o.row == r) := by
  apply merge_filter_owned (fun o => o.row == r) its (owner r) _ m hm
  intro i hi hne o ho
  have hoi : owner o.row = i := hown i hi o ho
  cases hb : (o.row == r) with
  | false => rfl
  | true =>
    exfalso
    have : o.row = r := by simpa using hb
    exact hne (by rw [← hoi, this])

/-- Every schedule of a non-interfering loop yields the state of the sequential loop. -/
theorem schedule_independent {R : Type} (owner : Nat → Nat) (its : List (List (Op R)))
    (hown : Owned owner its) (s : Array R) (m : List (Op R)) (hm : IsMerge its m) :
    run s m = run s its.flatten := by
  apply run_eq_of_rowwise
  intro r
  rw [merge_filter_row owner its hown m hm r,
      merge_filter_row owner its hown its.flatten (isMerge_flatten its) r]

/-- Any two schedules of a non-interfering loop agree. -/
theorem schedules_agree {R : Type} (owner : Nat → Nat) (its : List (List (Op R)))
    (hown : Owned owner its) (s : Array R) (m1 m2 : List (Op R))
    (hm1 : IsMerge its m1) (hm2 : IsMerge its m2) :
    run s m1 = run s m2 := by
  rw [schedule_independent owner its hown s m1 hm1, schedule_independent owner its hown s m2 hm2]

/-! ## Non-vacuity -/

section Examples

/-- iteration 0 : two ops on row 0 -/
def exA1 : Op Nat := ⟨0, (· + 1)⟩
def exA2 : Op Nat := ⟨0, (· * 2)⟩
/-- iteration 1 : two ops on row 1 -/
def exB1 : Op Nat := ⟨1, (· + 3)⟩
def exB2 : Op Nat := ⟨1, (· * 5)⟩

def exIts : List (List (Op Nat)) := [[exA1, exA2], [exB1, exB2]]
/-- an interleaved schedule, different from `exIts.flatten = [exA1, exA2, exB1, exB2]` -/
def exM : List (Op Nat) := [exB1, exA1, exB2, exA2]

theorem exOwned : Owned id exIts := by
  intro i hi o ho
  have hi' : i < 2 := hi
  match i, hi' with
  | 0, _ =>
    have : o = exA1 ∨ o = exA2 := by simpa [exIts] using ho
    rcases this with h | h <;> subst h <;> rfl
  | 1, _ =>
    have : o = exB1 ∨ o = exB2 := by simpa [exIts] using ho
    rcases this with h | h <;> subst h <;> rfl

theorem exMerge : IsMerge exIts exM :=
  IsMerge.step _ 1 (by decide) exB1 [exB2] _ rfl <|
  IsMerge.step _ 0 (by decide) exA1 [exA2] _ rfl <|
  IsMerge.step _ 1 (by decide) exB2 [] _ rfl <|
  IsMerge.step _ 0 (by decide) exA2 [] _ rfl <|
  IsMerge.done _ (by decide)

/-- The interleaved order is really a different order (rows of the first ops differ). -/
example : (exM.map (·.row)) ≠ (exIts.flatten.map (·.row)) := by decide

example : run #[0, 0] exM = run #[0, 0] exIts.flatten :=
  schedule_independent id exIts exOwned #[0, 0] exM exMerge

/-- and both are the expected concrete state -/
example : run #[0, 0] exM = #[2, 15] := by decide
example : run #[0, 0] exIts.flatten = #[2, 15] := by decide

/-! The ownership hypothesis matters: two iterations writing the same row with
non-commuting actions give schedule-dependent results. -/

def badC : Op Nat := ⟨0, (· + 1)⟩
def badD : Op Nat := ⟨0, (· * 2)⟩
def badIts : List (List (Op Nat)) := [[badC], [badD]]

theorem badMerge1 : IsMerge badIts [badC, badD] :=
  IsMerge.step _ 0 (by decide) badC [] _ rfl <|
  IsMerge.step _ 1 (by decide) badD [] _ rfl <|
  IsMerge.done _ (by decide)

theorem badMerge2 : IsMerge badIts [badD, badC] :=
  IsMerge.step _ 1 (by decide) badD [] _ rfl <|
  IsMerge.step _ 0 (by decide) badC [] _ rfl <|
  IsMerge.done _ (by decide)

example : run #[1] [badC, badD] = #[4] := by decide
example : run #[1] [badD, badC] = #[3] := by decide
example : run #[1] [badC, badD] ≠ run #[1] [badD, badC] := by decide

/-- hence no owner map makes `badIts` owned -/
example : ¬ ∃ owner, Owned owner badIts := by
  intro ⟨owner, h⟩
  have := schedules_agree owner badIts h #[1] _ _ badMerge1 badMerge2
  exact absurd this (by decide)

end Examples

end Pynn.Par
