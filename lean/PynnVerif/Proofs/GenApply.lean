import PynnVerif.Proofs.GenDeheap
import PynnVerif.Model.Descent

/-!
# The translated `utils.apply_graph_updates_low_memory` refines the NN-descent model's `applyLow`

`Gen/Kernels.lean` translates the low-memory update applier: three nested loops (thread number `n`,
update block `i`, entry `j`), the tuple `(p, q, d) = updates[i][j]`, the `continue` on `p == -1 or q == -1`,
`p % n_threads == n`, and the two calls of the translated `checked_flagged_heap_push` on the rows
`priorities[p]`, `indices[p]`, `flags[p]` with write-back of what the callee stored.
-/
set_option linter.unusedSectionVars false
set_option linter.unusedSimpArgs false
namespace Pynn
open GenK
variable {P : Type}

/-- the graph held in the three 2-D arrays `(priorities, indices, flags)` -/
def zipGraph (D : Array (Array P)) (I F : Array (Array Int)) : Graph P :=
  Array.zipWith (fun (e : Array P × Array Int) f => zip3 e.1 e.2 f) (Array.zip D I) F

/-- what the kernel does with one update triple: skipped when `p == -1 or q == -1` -/
def updOf (x : Int × Int × P) : Option (Upd P) :=
  if x.1 = -1 ∨ x.2.1 = -1 then none else some ⟨x.1.toNat, x.2.1.toNat, x.2.2⟩

/-- the model's update list of the kernel's `updates` (a list of per-block lists of triples): the blocks
concatenated in order, the `-1` placeholders dropped -/
def updsOf (updates : Array (Array (Int × Int × P))) : List (Upd P) :=
  (updates.toList.flatMap (·.toList)).filterMap updOf

/-- a triple the kernel can process on `n` rows: a placeholder, or both ends are row numbers -/
def OkTriple (n : Nat) (x : Int × Int × P) : Prop :=
  x.1 = -1 ∨ x.2.1 = -1 ∨ (0 ≤ x.1 ∧ x.1 < n ∧ 0 ≤ x.2.1 ∧ x.2.1 < n)

/-- the three arrays hold the graph `g`, every row with `k` slots -/
structure Rep (k : Nat) (D : Array (Array P)) (I F : Array (Array Int)) (g : Graph P) : Prop where
  sD : D.size = g.size
  sI : I.size = g.size
  sF : F.size = g.size
  row : ∀ r (h : r < g.size), (D[r]'(by omega)).size = k ∧ (I[r]'(by omega)).size = k ∧
      (F[r]'(by omega)).size = k ∧ zip3 (D[r]'(by omega)) (I[r]'(by omega)) (F[r]'(by omega)) = g[r]

theorem rep_zipGraph (k : Nat) (D : Array (Array P)) (I F : Array (Array Int))
    (hI : I.size = D.size) (hF : F.size = D.size)
    (hk : ∀ r (h : r < D.size), D[r].size = k ∧ (I[r]'(by omega)).size = k ∧ (F[r]'(by omega)).size = k) :
    Rep k D I F (zipGraph D I F) := by
  have hs : (zipGraph D I F).size = D.size := by simp [zipGraph]; omega
  refine ⟨hs.symm, by omega, by omega, ?_⟩
  intro r h
  obtain ⟨a, b, c⟩ := hk r (by omega)
  exact ⟨a, b, c, by simp [zipGraph]⟩

variable [LE P] [LT P] [DecidableLE P] [DecidableLT P]

/-- the body of the model's inner fold -/
def lowStep (T t : Nat) (acc : Graph P × Nat) (u : Upd P) : Graph P × Nat :=
  let acc := if u.p % T = t then
      let r := pushInto acc.1 u.p u.d u.q true
      (r.1, acc.2 + (if r.2 then 1 else 0))
    else acc
  if u.q % T = t then
    let r := pushInto acc.1 u.q u.d u.p true
    (r.1, acc.2 + (if r.2 then 1 else 0))
  else acc

theorem applyLow_eq_lowStep (T : Nat) (g : Graph P) (ups : List (Upd P)) :
    applyLow T g ups = (List.range T).foldl (fun acc t => ups.foldl (lowStep T t) acc) (g, 0) := rfl

@[simp] theorem pushInto_size_gen (g : Graph P) (r : Nat) (d : P) (q : Int) (f : Bool) :
    (pushInto g r d q f).1.size = g.size := by
  unfold pushInto; split <;> simp

/-- **one call `checked_flagged_heap_push(priorities[p], indices[p], flags[p], d, q, 1)` with write-back** is the
model's `pushInto` -/
theorem push_row_spec (k : Nat) (hk : 0 < k) (D : Array (Array P)) (I F : Array (Array Int)) (g : Graph P)
    (hR : Rep k D I F g) (p : Nat) (hp : p < g.size) (d : P) (q : Int) (fuel : Nat) (hf : k + 1 ≤ fuel) :
    ∃ m0 m1 m2, GenK.checked_flagged_heap_push fuel (D[p]'(by have := hR.sD; omega)) (I[p]'(by have := hR.sI; omega))
        (F[p]'(by have := hR.sF; omega)) d q 1
        = some (m0, m1, m2, if (pushInto g p d q true).2 then 1 else 0) ∧
      Rep k (D.setIfInBounds p m0) (I.setIfInBounds p m1) (F.setIfInBounds p m2) (pushInto g p d q true).1 := by
  obtain ⟨r1, r2, r3, r4⟩ := hR.row p hp
  obtain ⟨m0, m1, m2, h1, s1, s2, s3, hz⟩ := checked_flagged_heap_push_refines
    (D[p]'(by have := hR.sD; omega)) (I[p]'(by have := hR.sI; omega)) (F[p]'(by have := hR.sF; omega))
    d q 1 fuel (by omega) (by omega) (by omega) (by omega)
  have hb : ((1 : Int) != 0) = true := rfl
  rw [hb, r4] at hz h1
  have hpi : pushInto g p d q true = (g.set p (push true g[p] d q true).1 hp, (push true g[p] d q true).2) := by
    simp [pushInto, hp, pushFlagged]
  refine ⟨m0, m1, m2, by rw [h1, hpi], ?_⟩
  rw [hpi]
  refine ⟨by simp [hR.sD], by simp [hR.sI], by simp [hR.sF], ?_⟩
  intro r h
  simp only [Array.size_set] at h
  obtain ⟨a, b, c, e⟩ := hR.row r h
  by_cases hrp : r = p
  · subst hrp
    simp only [Array.getElem_setIfInBounds_self, Array.getElem_set_self]
    exact ⟨by omega, by omega, by omega, hz⟩
  · have g1 : (D.setIfInBounds p m0)[r]'(by simp [hR.sD]; omega) = D[r]'(by have := hR.sD; omega) := by
      rw [Array.getElem_setIfInBounds]; split
      · omega
      · rfl
    have g2 : (I.setIfInBounds p m1)[r]'(by simp [hR.sI]; omega) = I[r]'(by have := hR.sI; omega) := by
      rw [Array.getElem_setIfInBounds]; split
      · omega
      · rfl
    have g3 : (F.setIfInBounds p m2)[r]'(by simp [hR.sF]; omega) = F[r]'(by have := hR.sF; omega) := by
      rw [Array.getElem_setIfInBounds]; split
      · omega
      · rfl
    have g4 : (g.set p (push true g[p] d q true).1 hp)[r]'(by simpa using h) = g[r] := by
      rw [Array.getElem_set]; split
      · omega
      · rfl
    rw [g1, g2, g3, g4]
    exact ⟨a, b, c, e⟩

theorem natmod_iff (a T t : Nat) : ((a : Int) % (T : Int) = (t : Int)) ↔ a % T = t := by
  rw [← Int.natCast_emod]; omega

theorem cast_count (c : Nat) (b : Bool) :
    (c : Int) + (if b then (1 : Int) else 0) = ((c + if b then 1 else 0 : Nat) : Int) := by
  cases b <;> simp

/-- the seven statements `added = checked_flagged_heap_push(priorities[p], indices[p], flags[p], d, q, 1)` with the three
write-backs, followed by any continuation `K` -/
theorem push_row_bind (k : Nat) (hk : 0 < k) (D : Array (Array P)) (I F : Array (Array Int)) (g : Graph P)
    (hR : Rep k D I F g) (p : Nat) (hp : p < g.size) (d : P) (q : Int) (fuel : Nat) (hf : k + 1 ≤ fuel) :
    ∃ D' I' F' m0 m1 m2, Rep k D' I' F' (pushInto g p d q true).1 ∧
      ∀ {β : Type} (K : Array (Array P) → Array (Array Int) → Array (Array Int) →
          (Array P × Array Int × Array Int × Int) → Option β),
        ((rd D (p : Int)).bind fun a => (rd I (p : Int)).bind fun b => (rd F (p : Int)).bind fun c =>
          (checked_flagged_heap_push fuel a b c d q 1).bind fun x =>
            (wr D (p : Int) x.1).bind fun D1 => (wr I (p : Int) x.2.1).bind fun I1 =>
              (wr F (p : Int) x.2.2.1).bind fun F1 => K D1 I1 F1 x)
        = K D' I' F' (m0, m1, m2, if (pushInto g p d q true).2 then 1 else 0) := by
  obtain ⟨m0, m1, m2, h1, hR1⟩ := push_row_spec k hk D I F g hR p hp d q fuel hf
  refine ⟨_, _, _, m0, m1, m2, hR1, ?_⟩
  intro β K
  have a1 := hR.sD; have a2 := hR.sI; have a3 := hR.sF
  simp only [rd_lt D p (by omega), rd_lt I p (by omega), rd_lt F p (by omega), Option.bind_some, h1,
    wr_lt D p m0 (by omega), wr_lt I p m1 (by omega), wr_lt F p m2 (by omega)]

theorem loop2_spec (k : Nat) (hk : 0 < k) (updates : Array (Array (Int × Int × P))) (T t i : Nat) (hT : 0 < T)
    (hi : i < updates.size) :
    ∀ (fuel : Nat) (c : Nat) (D : Array (Array P)) (I F : Array (Array Int)) (g : Graph P) (j : Nat),
    Rep k D I F g → j ≤ updates[i].size → (updates[i].size - j) + k + 1 ≤ fuel →
    (∀ x ∈ updates[i].toList, OkTriple g.size x) →
    ∃ D' I' F' j', apply_graph_updates_low_memory.loop2 updates (T : Int) (t : Int) (i : Int) (updates[i].size : Int)
        fuel (c : Int) D I F (j : Int)
      = some (.next (((((updates[i].toList.drop j).filterMap updOf).foldl (lowStep T t) (g, c)).2 : Nat), D', I', F', j')) ∧
      Rep k D' I' F' (((updates[i].toList.drop j).filterMap updOf).foldl (lowStep T t) (g, c)).1 := by
  intro fuel
  induction fuel with
  | zero => intro c D I F g j hR hj hf hok; omega
  | succ fuel ih =>
    intro c D I F g j hR hj hf hok
    unfold apply_graph_updates_low_memory.loop2
    by_cases hlt : j < updates[i].size
    · have cj : ((j : Nat) : Int) < (updates[i].size : Int) := by omega
      have ej : ((j : Nat) : Int) + 1 = ((j + 1 : Nat) : Int) := by push_cast; rfl
      have hd : updates[i].toList.drop j = updates[i][j] :: updates[i].toList.drop (j+1) := by
        rw [List.drop_eq_getElem_cons (by simpa using hlt)]; simp
      rcases hx : updates[i][j] with ⟨p, q, d⟩
      simp only [cj, if_true, rd_lt updates i hi, rd_lt updates[i] j hlt, Option.bind_eq_bind, Option.bind_some, hx, ej, hd,
        List.filterMap_cons]
      have hmem : OkTriple g.size (p, q, d) := by
        rw [← hx]; exact hok _ (by simp)
      by_cases hp1 : p = -1
      · subst hp1
        have hu : updOf ((-1 : Int), q, d) = none := by simp [updOf]
        simp only [if_true, hu]
        exact ih c D I F g (j+1) hR (by omega) (by omega) hok
      by_cases hq1 : q = -1
      · subst hq1
        have hu : updOf (p, (-1 : Int), d) = none := by simp [updOf]
        simp only [hp1, if_true, if_false, hu]
        exact ih c D I F g (j+1) hR (by omega) (by omega) hok
      obtain ⟨hp0, hpn, hq0, hqn⟩ : 0 ≤ p ∧ p < g.size ∧ 0 ≤ q ∧ q < g.size := by
        rcases hmem with h | h | h
        · exact absurd h hp1
        · exact absurd h hq1
        · exact h
      obtain ⟨pn, rfl⟩ := Int.eq_ofNat_of_zero_le hp0
      obtain ⟨qn, rfl⟩ := Int.eq_ofNat_of_zero_le hq0
      have hu : updOf ((pn : Int), (qn : Int), d) = some ⟨pn, qn, d⟩ := by
        simp [updOf, hp1, hq1]
      simp only [hp1, hq1, if_false, hu, List.foldl_cons, natmod_iff]
      have hpn' : pn < g.size := by omega
      have hqn' : qn < g.size := by omega
      by_cases hpt : pn % T = t
      · obtain ⟨D1, I1, F1, _, _, _, hR1, hK1⟩ := push_row_bind k hk D I F g hR pn hpn' d (qn : Int) fuel (by omega)
        by_cases hqt : qn % T = t
        · obtain ⟨D2, I2, F2, _, _, _, hR2, hK2⟩ := push_row_bind k hk D1 I1 F1 _ hR1 qn (by simpa using hqn') d (pn : Int) fuel
            (by omega)
          have hs : lowStep T t (g, c) ⟨pn, qn, d⟩
              = ((pushInto (pushInto g pn d (qn : Int) true).1 qn d (pn : Int) true).1,
                 (c + (if (pushInto g pn d (qn : Int) true).2 then 1 else 0))
                   + (if (pushInto (pushInto g pn d (qn : Int) true).1 qn d (pn : Int) true).2 then 1 else 0)) := by
            simp [lowStep, hpt, hqt]
          simp only [hpt, hqt, if_true, hK1, hK2, hs, cast_count]
          exact ih _ D2 I2 F2 _ (j+1) hR2 (by omega) (by omega) (by simpa using hok)
        · have hs : lowStep T t (g, c) ⟨pn, qn, d⟩
              = ((pushInto g pn d (qn : Int) true).1, c + (if (pushInto g pn d (qn : Int) true).2 then 1 else 0)) := by
            simp [lowStep, hpt, hqt]
          simp only [hpt, hqt, if_true, if_false, hK1, hs, cast_count]
          exact ih _ D1 I1 F1 _ (j+1) hR1 (by omega) (by omega) (by simpa using hok)
      · by_cases hqt : qn % T = t
        · obtain ⟨D2, I2, F2, _, _, _, hR2, hK2⟩ := push_row_bind k hk D I F g hR qn hqn' d (pn : Int) fuel (by omega)
          have hs : lowStep T t (g, c) ⟨pn, qn, d⟩
              = ((pushInto g qn d (pn : Int) true).1, c + (if (pushInto g qn d (pn : Int) true).2 then 1 else 0)) := by
            simp [lowStep, hpt, hqt]
          simp only [hpt, hqt, if_true, if_false, hK2, hs, cast_count]
          exact ih _ D2 I2 F2 _ (j+1) hR2 (by omega) (by omega) (by simpa using hok)
        · have hs : lowStep T t (g, c) ⟨pn, qn, d⟩ = (g, c) := by simp [lowStep, hpt, hqt]
          simp only [hpt, hqt, if_false, hs]
          exact ih c D I F g (j+1) hR (by omega) (by omega) hok
    · have cj : ¬ ((j : Nat) : Int) < (updates[i].size : Int) := by omega
      have hd : updates[i].toList.drop j = [] := by
        apply List.drop_eq_nil_of_le; simp; omega
      simp only [cj, if_false, hd, List.filterMap_nil, List.foldl_nil]
      exact ⟨D, I, F, _, rfl, hR⟩

theorem lowStep_size (T t : Nat) (acc : Graph P × Nat) (u : Upd P) : (lowStep T t acc u).1.size = acc.1.size := by
  unfold lowStep; split <;> split <;> simp

theorem foldl_lowStep_size (T t : Nat) (l : List (Upd P)) (acc : Graph P × Nat) :
    (l.foldl (lowStep T t) acc).1.size = acc.1.size := by
  induction l generalizing acc with
  | nil => rfl
  | cons u l ih => rw [List.foldl_cons, ih, lowStep_size]

/-- the model's list of a list of blocks -/
def updsOfBlocks (bl : List (Array (Int × Int × P))) : List (Upd P) := (bl.flatMap (·.toList)).filterMap updOf

theorem updsOfBlocks_cons (b : Array (Int × Int × P)) (bl : List (Array (Int × Int × P))) :
    updsOfBlocks (b :: bl) = b.toList.filterMap updOf ++ updsOfBlocks bl := by
  simp [updsOfBlocks, List.filterMap_append]

theorem loop1_spec (k : Nat) (hk : 0 < k) (updates : Array (Array (Int × Int × P))) (T t M : Nat) (hT : 0 < T)
    (hM : ∀ b ∈ updates.toList, b.size ≤ M) :
    ∀ (fuel : Nat) (c : Nat) (D : Array (Array P)) (I F : Array (Array Int)) (g : Graph P) (i : Nat),
    Rep k D I F g → i ≤ updates.size → (updates.size - i) + M + k + 2 ≤ fuel →
    (∀ b ∈ updates.toList, ∀ x ∈ b.toList, OkTriple g.size x) →
    ∃ D' I' F' i', apply_graph_updates_low_memory.loop1 updates (T : Int) (t : Int) (updates.size : Int)
        fuel (c : Int) D I F (i : Int)
      = some (.next ((((updsOfBlocks (updates.toList.drop i)).foldl (lowStep T t) (g, c)).2 : Nat), D', I', F', i')) ∧
      Rep k D' I' F' ((updsOfBlocks (updates.toList.drop i)).foldl (lowStep T t) (g, c)).1 := by
  intro fuel
  induction fuel with
  | zero => intro c D I F g i hR hi hf hok; omega
  | succ fuel ih =>
    intro c D I F g i hR hi hf hok
    unfold apply_graph_updates_low_memory.loop1
    by_cases hlt : i < updates.size
    · have ci : ((i : Nat) : Int) < (updates.size : Int) := by omega
      have ei : ((i : Nat) : Int) + 1 = ((i + 1 : Nat) : Int) := by push_cast; rfl
      have hd : updates.toList.drop i = updates[i] :: updates.toList.drop (i+1) := by
        rw [List.drop_eq_getElem_cons (by simpa using hlt)]; simp
      have hmem : updates[i] ∈ updates.toList := by simp
      obtain ⟨D1, I1, F1, j1, h2, hR1⟩ := loop2_spec k hk updates T t i hT hlt fuel c D I F g 0 hR (by omega)
        (by have := hM _ hmem; omega) (hok _ hmem)
      simp only [List.drop_zero, Int.natCast_zero] at h2 hR1
      simp only [ci, if_true, rd_lt updates i hlt, Option.bind_eq_bind, Option.bind_some, h2, ei, hd,
        updsOfBlocks_cons, List.foldl_append]
      have hsz := foldl_lowStep_size T t (List.filterMap updOf updates[i].toList) (g, c)
      generalize List.foldl (lowStep T t) (g, c) (List.filterMap updOf updates[i].toList) = X at hR1 hsz ⊢
      obtain ⟨g1, c1⟩ := X
      simp only at hsz hR1 ⊢
      exact ih c1 D1 I1 F1 g1 (i+1) hR1 (by omega) (by omega) (by rw [hsz]; exact hok)
    · have ci : ¬ ((i : Nat) : Int) < (updates.size : Int) := by omega
      have hd : updates.toList.drop i = [] := by
        apply List.drop_eq_nil_of_le; simp; omega
      simp only [ci, if_false, hd, updsOfBlocks, List.flatMap_nil, List.filterMap_nil, List.foldl_nil]
      exact ⟨D, I, F, _, rfl, hR⟩

theorem loop0_spec (k : Nat) (hk : 0 < k) (updates : Array (Array (Int × Int × P))) (T M : Nat) (hT : 0 < T)
    (hM : ∀ b ∈ updates.toList, b.size ≤ M) :
    ∀ (fuel : Nat) (c : Nat) (D : Array (Array P)) (I F : Array (Array Int)) (g : Graph P) (t : Nat),
    Rep k D I F g → t ≤ T → (T - t) + updates.size + M + k + 3 ≤ fuel →
    (∀ b ∈ updates.toList, ∀ x ∈ b.toList, OkTriple g.size x) →
    ∃ D' I' F' t', apply_graph_updates_low_memory.loop0 updates (T : Int) (T : Int) fuel (c : Int) D I F (t : Int)
      = some (.next ((((List.range' t (T - t)).foldl
          (fun acc t => (updsOf updates).foldl (lowStep T t) acc) (g, c)).2 : Nat), D', I', F', t')) ∧
      Rep k D' I' F' ((List.range' t (T - t)).foldl
          (fun acc t => (updsOf updates).foldl (lowStep T t) acc) (g, c)).1 := by
  intro fuel
  induction fuel with
  | zero => intro c D I F g t hR ht hf hok; omega
  | succ fuel ih =>
    intro c D I F g t hR ht hf hok
    unfold apply_graph_updates_low_memory.loop0
    by_cases hlt : t < T
    · have ct : ((t : Nat) : Int) < (T : Int) := by omega
      have et : ((t : Nat) : Int) + 1 = ((t + 1 : Nat) : Int) := by push_cast; rfl
      have hr : List.range' t (T - t) = t :: List.range' (t+1) (T - (t+1)) := by
        have : T - t = (T - (t+1)) + 1 := by omega
        rw [this, List.range'_succ]
      obtain ⟨D1, I1, F1, i1, h1, hR1⟩ := loop1_spec k hk updates T t M hT hM fuel c D I F g 0 hR (by omega)
        (by omega) hok
      simp only [List.drop_zero, Int.natCast_zero] at h1 hR1
      have hu : updsOfBlocks updates.toList = updsOf updates := rfl
      rw [hu] at h1 hR1
      simp only [ct, if_true, Option.bind_eq_bind, Option.bind_some, h1, et, hr, List.foldl_cons]
      have hsz := foldl_lowStep_size T t (updsOf updates) (g, c)
      generalize List.foldl (lowStep T t) (g, c) (updsOf updates) = X at hR1 hsz ⊢
      obtain ⟨g1, c1⟩ := X
      simp only at hsz hR1 ⊢
      exact ih c1 D1 I1 F1 g1 (t+1) hR1 (by omega) (by omega) (by rw [hsz]; exact hok)
    · have ct : ¬ ((t : Nat) : Int) < (T : Int) := by omega
      have hr : T - t = 0 := by omega
      simp only [ct, if_false, hr, List.range'_zero, List.foldl_nil]
      exact ⟨D, I, F, _, rfl, hR⟩


theorem Rep.zipGraph_eq {k : Nat} {D : Array (Array P)} {I F : Array (Array Int)} {g : Graph P}
    (h : Rep k D I F g) : zipGraph D I F = g := by
  have a1 := h.sD; have a2 := h.sI; have a3 := h.sF
  apply Array.ext
  · simp [zipGraph]; omega
  · intro r h1 h2
    obtain ⟨_, _, _, e⟩ := h.row r h2
    simpa [zipGraph] using e

/-- **`apply_graph_updates_low_memory` (translated) refines `applyLow`.** -/
theorem apply_graph_updates_low_memory_refines (k : Nat) (hk : 0 < k) (I : Array (Array Int)) (D : Array (Array P))
    (F : Array (Array Int)) (updates : Array (Array (Int × Int × P))) (T M : Nat) (hT : 0 < T)
    (hI : I.size = D.size) (hF : F.size = D.size)
    (hrect : ∀ r (h : r < D.size), D[r].size = k ∧ (I[r]'(by omega)).size = k ∧ (F[r]'(by omega)).size = k)
    (hM : ∀ b ∈ updates.toList, b.size ≤ M)
    (hok : ∀ b ∈ updates.toList, ∀ x ∈ b.toList, OkTriple D.size x)
    (fuel : Nat) (hf : T + updates.size + M + k + 3 ≤ fuel) :
    ∃ I' D' F', GenK.apply_graph_updates_low_memory fuel I D F updates (T : Int)
        = some (I', D', F', (((applyLow T (zipGraph D I F) (updsOf updates)).2 : Nat) : Int)) ∧
      Rep k D' I' F' (applyLow T (zipGraph D I F) (updsOf updates)).1 := by
  have hR := rep_zipGraph k D I F hI hF hrect
  have hsz : (zipGraph D I F).size = D.size := hR.sD.symm
  obtain ⟨D', I', F', t', h1, hR'⟩ := loop0_spec k hk updates T M hT hM fuel 0 D I F (zipGraph D I F) 0 hR
    (by omega) (by omega) (by rw [hsz]; exact hok)
  simp only [Nat.sub_zero, Int.natCast_zero, ← List.range_eq_range'] at h1 hR'
  rw [← applyLow_eq_lowStep] at h1 hR'
  unfold GenK.apply_graph_updates_low_memory
  simp only [h1, Option.bind_eq_bind, Option.bind_some]
  exact ⟨I', D', F', rfl, hR'⟩

theorem applyLow_size' (T : Nat) (g : Graph P) (ups : List (Upd P)) : (applyLow T g ups).1.size = g.size := by
  rw [applyLow_eq_lowStep]
  have : ∀ (l : List Nat) (acc : Graph P × Nat),
      (l.foldl (fun acc t => ups.foldl (lowStep T t) acc) acc).1.size = acc.1.size := by
    intro l
    induction l with
    | nil => intro acc; rfl
    | cons t l ih => intro acc; rw [List.foldl_cons, ih, foldl_lowStep_size]
  exact this _ _

/-- the refinement with `Rep` spelled out: shape preserved, the zipped arrays are the model's graph -/
theorem apply_graph_updates_low_memory_refines' (k : Nat) (hk : 0 < k) (I : Array (Array Int)) (D : Array (Array P))
    (F : Array (Array Int)) (updates : Array (Array (Int × Int × P))) (T M : Nat) (hT : 0 < T)
    (hI : I.size = D.size) (hF : F.size = D.size)
    (hrect : ∀ r (h : r < D.size), D[r].size = k ∧ (I[r]'(by omega)).size = k ∧ (F[r]'(by omega)).size = k)
    (hM : ∀ b ∈ updates.toList, b.size ≤ M)
    (hok : ∀ b ∈ updates.toList, ∀ x ∈ b.toList, OkTriple D.size x)
    (fuel : Nat) (hf : T + updates.size + M + k + 3 ≤ fuel) :
    ∃ I' D' F', GenK.apply_graph_updates_low_memory fuel I D F updates (T : Int)
        = some (I', D', F', (((applyLow T (zipGraph D I F) (updsOf updates)).2 : Nat) : Int)) ∧
      D'.size = D.size ∧ I'.size = D.size ∧ F'.size = D.size ∧
      (∀ r (h : r < D'.size) (h' : r < I'.size) (h'' : r < F'.size),
        D'[r].size = k ∧ I'[r].size = k ∧ F'[r].size = k ∧
        (applyLow T (zipGraph D I F) (updsOf updates)).1[r]? = some (zip3 D'[r] I'[r] F'[r])) ∧
      zipGraph D' I' F' = (applyLow T (zipGraph D I F) (updsOf updates)).1 := by
  obtain ⟨I', D', F', h1, hR⟩ := apply_graph_updates_low_memory_refines k hk I D F updates T M hT hI hF hrect hM hok fuel hf
  have hs0 : (zipGraph D I F).size = D.size := by simp [zipGraph]; omega
  have hs : (applyLow T (zipGraph D I F) (updsOf updates)).1.size = D.size := by rw [applyLow_size', hs0]
  have a1 := hR.sD; have a2 := hR.sI; have a3 := hR.sF
  refine ⟨I', D', F', h1, by omega, by omega, by omega, ?_, hR.zipGraph_eq⟩
  intro r h h' h''
  obtain ⟨b1, b2, b3, b4⟩ := hR.row r (by omega)
  refine ⟨b1, b2, b3, ?_⟩
  rw [b4]; simp

end Pynn
