import PynnVerif.Proofs.Heap

/-! # The top-k invariant of a row fed by pushes -/
namespace Pynn
variable {P : Type} [LinearOrder P]

/-- Invariant of a row fed with offers `(d n, n, f)` for `(n, f) ∈ offers`. -/
structure RowInv (top : P) (d : Nat → P) (offers : List (Nat × Bool)) (h : Row P) : Prop where
  heap : IsHeap h
  real : ∀ e ∈ h, 0 ≤ e.idx → (e.idx.toNat, e.flag) ∈ offers ∧ e.prio = d e.idx.toNat ∧ e.prio < top
  sent : ∀ e ∈ h, e.idx < 0 → e.idx = -1 ∧ e.prio = top
  nodup : ((h.toList.filter (fun e => 0 ≤ e.idx)).map (·.idx)).Nodup
  excl : ∀ o ∈ offers, d o.1 < top → (∃ e ∈ h, e.idx = (o.1 : Int)) ∨
            ∀ (hk : 0 < h.size), h[0].prio ≤ d o.1

/-- `RowInv` depends only on the *set* of offers. -/
theorem RowInv.congr {top : P} {d : Nat → P} {l1 l2 : List (Nat × Bool)} {h : Row P}
    (hl : ∀ x, x ∈ l1 ↔ x ∈ l2) (hinv : RowInv top d l1 h) : RowInv top d l2 h := by
  refine ⟨hinv.heap, ?_, hinv.sent, hinv.nodup, ?_⟩
  · intro e he hidx
    obtain ⟨h1, h2, h3⟩ := hinv.real e he hidx
    exact ⟨(hl _).mp h1, h2, h3⟩
  · intro o ho hfin
    exact hinv.excl o ((hl _).mpr ho) hfin

omit [LinearOrder P] in
/-- Replacing the root by a real entry whose index is not held keeps the held indices
duplicate-free. -/
theorem nodup_set_root (h : Row P) (x : Entry P) (hx : 0 ≤ x.idx)
    (hnd : ((h.toList.filter (fun e => 0 ≤ e.idx)).map (·.idx)).Nodup)
    (hnot : ∀ e ∈ h, e.idx ≠ x.idx) :
    (((h.setIfInBounds 0 x).toList.filter (fun e => 0 ≤ e.idx)).map (·.idx)).Nodup := by
  rcases h with ⟨_ | ⟨r, rest⟩⟩
  · simp
  · have hsub : ((rest.filter (fun e => 0 ≤ e.idx)).map (·.idx)).Sublist
        (((r :: rest).filter (fun e => 0 ≤ e.idx)).map (·.idx)) :=
      ((List.sublist_cons_self r rest).filter _).map _
    have hrest := hnd.sublist hsub
    simp only [Array.toList_setIfInBounds, List.set_cons_zero]
    rw [List.filter_cons_of_pos (by simpa using hx), List.map_cons, List.nodup_cons]
    refine ⟨?_, hrest⟩
    intro hmem
    obtain ⟨e, he, heq⟩ := List.mem_map.mp hmem
    have he' : e ∈ rest := (List.mem_filter.mp he).1
    exact hnot e (by simp [he']) heq

/-- One push preserves the invariant (the new offer is added to the offer set). -/
theorem push_inv (c : Bool) (top : P) (htop : ∀ x : P, x ≤ top) (d : Nat → P)
    (offers : List (Nat × Bool)) (h : Row P) (n : Nat) (f : Bool)
    (hnew : c = false → n ∉ offers.map (·.1)) (hinv : RowInv top d offers h) :
    RowInv top d ((n, f) :: offers) (push c h (d n) n f).1 := by
  by_cases hacc : (push c h (d n) (n : Int) f).2 = true
  · -- accepted
    have hperm := push_perm c h (d n) n f hacc
    have hheap := push_heap c h (d n) n f hinv.heap
    obtain ⟨hk, hlt, hscan⟩ := (push_accept_iff c h (d n) n f).mp hacc
    have hmem := mem_of_perm_set (x := ⟨d n, (n:Int), f⟩) hk hperm
    -- no held entry carries index `n`
    have hnot : ∀ e ∈ h, e.idx ≠ (n : Int) := by
      intro e he heq
      cases c with
      | true => exact hscan rfl e he heq
      | false =>
        have hidx : 0 ≤ e.idx := by omega
        obtain ⟨h1, _, _⟩ := hinv.real e he hidx
        apply hnew rfl
        refine List.mem_map.mpr ⟨_, h1, ?_⟩
        simp [heq]
    -- the new root is bounded by the old one
    have hroot : ∀ (hk' : 0 < (push c h (d n) (n : Int) f).1.size),
        ((push c h (d n) (n : Int) f).1[0]).prio ≤ h[0].prio := by
      intro hk'
      rcases (hmem _).mp (Array.getElem_mem hk') with heq | ⟨j, hj, _, heq⟩
      · rw [heq]; exact le_of_lt hlt
      · rw [← heq]; exact isHeap_root_max h hinv.heap j hj
    refine ⟨hheap, ?_, ?_, ?_, ?_⟩
    · intro e he hidx
      rcases (hmem e).mp he with rfl | ⟨j, hj, hj0, rfl⟩
      · simp
        exact lt_of_lt_of_le hlt (htop _)
      · obtain ⟨h1, h2, h3⟩ := hinv.real h[j] (Array.getElem_mem hj) hidx
        exact ⟨List.mem_cons_of_mem _ h1, h2, h3⟩
    · intro e he hidx
      rcases (hmem e).mp he with rfl | ⟨j, hj, hj0, rfl⟩
      · simp at hidx; omega
      · exact hinv.sent h[j] (Array.getElem_mem hj) hidx
    · have hl := Array.perm_iff_toList_perm.mp hperm
      have := ((hl.filter (fun e => 0 ≤ e.idx)).map (·.idx)).nodup_iff
      rw [this]
      exact nodup_set_root h ⟨d n, (n:Int), f⟩ (by simp) hinv.nodup hnot
    · intro o ho hfin
      rcases List.mem_cons.mp ho with rfl | ho'
      · left
        exact ⟨⟨d n, (n:Int), f⟩, (hmem _).mpr (Or.inl rfl), rfl⟩
      · rcases hinv.excl o ho' hfin with ⟨e, he, heq⟩ | hr
        · obtain ⟨i, hi, rfl⟩ := Array.mem_iff_getElem.mp he
          by_cases hi0 : i = 0
          · subst hi0
            right
            intro hk'
            obtain ⟨_, h2, _⟩ := hinv.real h[0] he (by omega)
            have : h[0].prio = d o.1 := by rw [h2, heq]; simp
            rw [← this]
            exact hroot hk'
          · left
            exact ⟨h[i], (hmem _).mpr (Or.inr ⟨i, hi, by omega, rfl⟩), heq⟩
        · right
          intro hk'
          exact le_trans (hroot hk') (hr hk)
  · -- rejected: row unchanged
    have hrej : (push c h (d n) (n : Int) f).2 = false := by simpa using hacc
    have hnacc := (not_congr (push_accept_iff c h (d n) n f)).mp hacc
    rw [push_reject c h (d n) n f hrej]
    refine ⟨hinv.heap, ?_, hinv.sent, hinv.nodup, ?_⟩
    · intro e he hidx
      obtain ⟨h1, h2, h3⟩ := hinv.real e he hidx
      exact ⟨List.mem_cons_of_mem _ h1, h2, h3⟩
    · intro o ho hfin
      rcases List.mem_cons.mp ho with rfl | ho'
      · -- the new offer was rejected: empty row, too far, or a duplicate
        by_cases hheld : ∃ e ∈ h, e.idx = (n : Int)
        · exact Or.inl hheld
        · right
          intro hk
          apply le_of_not_gt
          intro hlt
          apply hnacc
          refine ⟨hk, hlt, ?_⟩
          intro _ e he heq
          exact hheld ⟨e, he, heq⟩
      · exact hinv.excl o ho' hfin

/-- The row is full, or it holds every finite offer. -/
theorem RowInv.full_or_all {top : P} {d : Nat → P} {offers : List (Nat × Bool)} {h : Row P}
    (hinv : RowInv top d offers h) (_htop : ∀ x : P, x ≤ top) :
    (∀ e ∈ h, 0 ≤ e.idx) ∨
      (∀ o ∈ offers, d o.1 < top → ∃ e ∈ h, e.idx = (o.1 : Int)) := by
  by_cases hall : ∀ e ∈ h, 0 ≤ e.idx
  · exact Or.inl hall
  · right
    obtain ⟨e, hne⟩ := Classical.not_forall.mp hall
    obtain ⟨he, hneg⟩ := Classical.not_imp.mp hne
    obtain ⟨_, hp⟩ := hinv.sent e he (by omega)
    obtain ⟨i, hi, rfl⟩ := Array.mem_iff_getElem.mp he
    have hroot := isHeap_root_max h hinv.heap i hi
    rw [hp] at hroot
    intro o ho hfin
    rcases hinv.excl o ho hfin with hheld | hr
    · exact hheld
    · exact absurd (lt_of_le_of_lt (le_trans hroot (hr (by omega))) hfin) (lt_irrefl _)

/-- Every finite offer that is not held is at least as far as every held candidate. -/
theorem RowInv.best {top : P} {d : Nat → P} {offers : List (Nat × Bool)} {h : Row P}
    (hinv : RowInv top d offers h) :
    ∀ a ∈ h, 0 ≤ a.idx → ∀ o ∈ offers, d o.1 < top → (¬ ∃ e ∈ h, e.idx = (o.1 : Int)) →
      a.prio ≤ d o.1 := by
  intro a ha _ o ho hfin hnot
  obtain ⟨i, hi, rfl⟩ := Array.mem_iff_getElem.mp ha
  rcases hinv.excl o ho hfin with hheld | hr
  · exact absurd hheld hnot
  · exact le_trans (isHeap_root_max h hinv.heap i hi) (hr (by omega))

/-- The empty row satisfies the invariant for the empty offer set. -/
theorem mkRow_inv (top : P) (k : Nat) (d : Nat → P) : RowInv top d [] (mkRow top k) := by
  refine ⟨?_, ?_, ?_, ?_, ?_⟩
  · intro j hj hj0
    simp [mkRow]
  · intro e he hidx
    simp only [mkRow, Array.mem_replicate] at he
    rw [he.2] at hidx
    simp at hidx
  · intro e he _
    simp only [mkRow, Array.mem_replicate] at he
    rw [he.2]
    exact ⟨rfl, rfl⟩
  · have : (mkRow top k).toList.filter (fun e => 0 ≤ e.idx) = [] := by
      rw [List.filter_eq_nil_iff]
      intro e he
      simp only [mkRow, Array.toList_replicate, List.mem_replicate] at he
      rw [he.2]
      simp
    rw [this]
    exact List.nodup_nil
  · intro o ho
    simp at ho

theorem foldl_push_size (c : Bool) (d : Nat → P) (offers : List (Nat × Bool)) (h : Row P) :
    (offers.foldl (fun h o => (push c h (d o.1) o.1 o.2).1) h).size = h.size := by
  induction offers generalizing h with
  | nil => rfl
  | cons o rest ih => rw [List.foldl_cons, ih, push_size]

/-- Feeding `rest` to a row satisfying the invariant for `done`. -/
theorem foldl_push_inv (c : Bool) (top : P) (htop : ∀ x : P, x ≤ top) (d : Nat → P)
    (done rest : List (Nat × Bool)) (h : Row P)
    (hd : c = false → ((done ++ rest).map (·.1)).Nodup)
    (hinv : RowInv top d done h) :
    RowInv top d (done ++ rest) (rest.foldl (fun h o => (push c h (d o.1) o.1 o.2).1) h) := by
  induction rest generalizing done h with
  | nil => simpa using hinv
  | cons o rest ih =>
    obtain ⟨n, f⟩ := o
    have hnew : c = false → n ∉ done.map (·.1) := by
      intro hc
      have := hd hc
      rw [List.map_append, List.nodup_append] at this
      intro hmem
      exact this.2.2 _ hmem _ (by simp) rfl
    have h1 := push_inv c top htop d done h n f hnew hinv
    have h2 : RowInv top d (done ++ [(n, f)]) (push c h (d n) n f).1 :=
      h1.congr (by intro x; simp [or_comm])
    have := ih (done ++ [(n, f)]) _ (by simpa using hd) h2
    simpa using this

theorem run_size (c : Bool) (top : P) (k : Nat) (d : Nat → P) (offers : List (Nat × Bool)) :
    (offers.foldl (fun h o => (push c h (d o.1) o.1 o.2).1) (mkRow top k)).size = k := by
  rw [foldl_push_size]; simp [mkRow]

theorem run_inv (c : Bool) (top : P) (htop : ∀ x : P, x ≤ top) (k : Nat) (d : Nat → P)
    (offers : List (Nat × Bool)) (hd : c = false → (offers.map (·.1)).Nodup) :
    RowInv top d offers
      (offers.foldl (fun h o => (push c h (d o.1) o.1 o.2).1) (mkRow top k)) := by
  have := foldl_push_inv c top htop d [] offers (mkRow top k) (by simpa using hd)
    (mkRow_inv top k d)
  simpa using this

end Pynn
