import PynnVerif.Proofs.Heap

/-! # The top-k invariant of a row fed by pushes -/
namespace Pynn
variable {P : Type} [LinearOrder P]

/-- Invariant of a row fed with offers `(d n, n, f)` for `(n, f) ∈ offers`. -/
structure RowInv (top : P) (d : Nat → P) (offers : List (Nat × Bool)) (h : Row P) : Prop where
  heap : IsHeap h
  real : ∀ e ∈ h, 0 ≤ e.idx → (e.idx.toNat, e.flag) ∈ offers ∧ e.prio = d e.idx.toNat ∧ e.prio < top
  sent : ∀ e ∈ h, e.idx < 0 → e.idx = -1 ∧ e.prio = top
  nodup : ((h.toList.filter (fun e => 0 ≤ e.idx)).map (·.idx)).Nodup
  excl : ∀ o ∈ offers, d o.1 < top → (∃ e ∈ h, e.idx = (o.1 : Int)) ∨
            ∀ (hk : 0 < h.size), h[0].prio ≤ d o.1

end Pynn
